#!/bin/sh
# every thorough check (4 at a time), prints exit code and wall time
cd "$(dirname "$0")"
mkdir -p .work
ls_props="C01 C02 C03 C04 C05 C06 C07 C08 C09 C10 C11 C12 C13 C14 C15 C16 C17 C18 C19 C20"
echo $ls_props | tr ' ' '\n' | xargs -P 4 -I{} sh -c 's=$(date +%s); VERIF_SEED=${VERIF_SEED:-0} ./check {} --tier thorough > .work/thor.{} 2>&1; rc=$?; e=$(date +%s); echo "{} exit=$rc $((e-s))s $(tail -1 .work/thor.{} | cut -c1-140)"'
