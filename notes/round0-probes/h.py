import sys, logging
import os; sys.path.insert(0,os.environ.get('PYHAM_REPO','/repo'))
import pyham
from pyham import abstractgene as ag
logging.disable(logging.CRITICAL)
NWK="(XENTR,(((HUMAN,PANTR)Primates,(MOUSE,RATNO)Rodents)Euarchontoglires,CANFA)Mammalia)Vertebrata;"
def mk(groups, species, nwk=NWK):
    s='<?xml version="1.0" encoding="UTF-8"?>\n<orthoXML xmlns="http://orthoXML.org/2011/" version="0.3" origin="x" originVersion="1">\n'
    for sp,genes in species.items():
        s+='<species name="%s" NCBITaxId="1"><database name="d" version="1"><genes>'%sp
        for g in genes: s+='<gene id="%s" protId="p%s"/>'%(g,g)
        s+='</genes></database></species>\n'
    s+='<groups>\n'+groups+'\n</groups></orthoXML>\n'
    return s
def dump(h, ind=0):
    out=[]
    def rec(n,ind):
        if isinstance(n,ag.Gene):
            out.append(' '*ind+'G%s@%s dup=%s'%(n.unique_id,n.genome.name, (id(n.arose_by_duplication)%1000 if n.arose_by_duplication else False)))
        else:
            out.append(' '*ind+'H[%s]@%s dup=%s dups=%s'%(n.hog_id,n.genome.name if n.genome else None,(id(n.arose_by_duplication)%1000 if n.arose_by_duplication else False),[(id(d)%1000,d.MRCA.name,[getattr(c,'unique_id',None) or c.genome.name for c in d.children], d.parent is n) for d in n.duplications]))
            for c in n.children:
                assert c.parent is n, ('PARENT MISMATCH', c, c.parent, n)
                rec(c,ind+2)
    rec(h,ind)
    return '\n'.join(out)
def load(groups, species, nwk=NWK, **kw):
    kw.setdefault('use_internal_name', True)
    return pyham.Ham(tree_file=nwk, hog_file=mk(groups,species,nwk), orthoXML_as_string=True, **kw)
def show(groups, species, nwk=NWK, **kw):
    try:
        h=load(groups,species,nwk,**kw)
    except Exception as e:
        import traceback; print('EXC',type(e).__name__,e); return None
    for k,v in h.top_level_hogs.items():
        print('TOP',k); print(dump(v,1))
    for a in h.get_list_ancestral_genomes():
        print('AG',a.name,len(a.genes))
    return h
