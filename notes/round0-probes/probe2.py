import sys, os, random, collections, re, itertools
from proto import *
from pyham.iham import OrthoXML_manager
def allnodes(n):
    yield n
    if isinstance(n,ag.HOG):
        for c in n.children: yield from allnodes(c)
def run(seed,n):
    rng=random.Random(seed); bad=collections.Counter(); ex={}
    def fail(k,info):
        bad[k]+=1; ex.setdefault(k,info)
    done=0
    for k in range(n):
        T=rand_tree(rng,rng.randint(2,7)); ids=[0]
        internal=[p for p in paths(T) if sub(T,p)[1]]
        fams=[]
        for _ in range(rng.randint(1,3)):
            p=rng.choice(internal); l=gen_lin(rng,T,p,ids,0.3,0.25,0.5); l[1]=True; fams.append((p,l))
        if not all(recoverable(p,l,True) for p,l in fams): continue
        done+=1
        nwk=newick(T)+';'; x=mkfile(T,fams)
        try: h=pyham.Ham(tree_file=nwk,hog_file=x,orthoXML_as_string=True,use_internal_name=True)
        except Exception as e: fail('load',(nwk,x,repr(e))); continue
        info=(nwk,x.split('<groups>')[1])
        # genomes
        genomes={pathof(t):t.genome for t in h.taxonomy.tree.traverse() if 'genome' in t.features}
        # C04
        cnt=collections.Counter()
        for top in h.get_list_top_level_hogs():
            for nd in allnodes(top):
                if isinstance(nd,ag.HOG): cnt[pathof(nd.genome.taxon)]+=1
        for p,g in genomes.items():
            if sub(T,p)[1] and len(g.genes)!=cnt[p]: fail('C04',info)
        # C05/C06/C07 all lineage pairs
        ps=sorted(genomes)
        for a in ps:
            for d in ps:
                if len(a)<len(d) and d[:len(a)]==a:
                    m=h.compare_genomes_vertically(genomes[a],genomes[d]).map
                    dl=[g for v in m.DUPLICATE.values() for g in v]
                    if collections.Counter(map(id,genomes[d].genes))!=collections.Counter(map(id,m.GAIN+list(m.RETAINED.values())+dl)): fail('C05d',info)
                    if collections.Counter(map(id,genomes[a].genes))!=collections.Counter(map(id,list(m.LOSS)+list(m.RETAINED)+list(m.DUPLICATE))): fail('C05a',info)
                    if not m.consistent: fail('C05flag',info)
        # C07 triples
        for a in ps:
            for b in ps:
                for c in ps:
                    if len(a)<len(b)<len(c) and b[:len(a)]==a and c[:len(b)]==b:
                        ac=h._get_HOGMap({genomes[a],genomes[c]}).upMap; bc=h._get_HOGMap({genomes[b],genomes[c]}).upMap; ab=h._get_HOGMap({genomes[a],genomes[b]}).upMap
                        for g in genomes[c].genes:
                            x1,f1=ac[g]; y,f2=bc[g]
                            if y is None: exp=(None,None)
                            else:
                                xx,f3=ab[y]; exp=(xx,bool(f2) or bool(f3)) if xx is not None else (None,None)
                            if exp[0] is not x1 or (x1 is not None and bool(f1)!=exp[1]): fail('C07',info)
        # C09/C10
        try:
            full=h.create_tree_profile().treemap
            acc=collections.defaultdict(collections.Counter)
            for top in h.get_list_top_level_hogs():
                tm=h.create_tree_profile(hog=top).treemap; acc[top.genome.name]['gain']+=1
                for nd in tm.traverse():
                    acc[nd.name]['nbr_genes']+=nd.nbr_genes
                    if not nd.is_root():
                        for kk in ('dupl','lost','retained','duplication'): acc[nd.name][kk]+=getattr(nd,kk)
            for nd in full.traverse():
                if nd.is_root():
                    if nd.nbr_genes!=acc[nd.name]['nbr_genes']: fail('C10root',info)
                    continue
                if nd.nbr_genes!=nd.retained+nd.dupl+nd.gain: fail('C09a',info)
                if nd.nbr_genes!=nd.up.nbr_genes+nd.gain+nd.duplication-nd.lost: fail('C09b',info)
                for kk in ('nbr_genes','dupl','lost','retained','gain','duplication'):
                    if getattr(nd,kk)!=acc[nd.name][kk]: fail('C10'+kk,info)
        except Exception as e: fail('C09exc:'+type(e).__name__,info)
        # C12 roundtrip for every hog with >=2 children
        for top in h.get_list_top_level_hogs():
            for nd in allnodes(top):
                if isinstance(nd,ag.HOG) and len(nd.children)>=2:
                    try:
                        xs=OrthoXML_manager(nd).get_orthoxml_str()
                        h2=pyham.Ham(tree_file=nwk,hog_file=xs,orthoXML_as_string=True,use_internal_name=True)
                        tl=h2.get_list_top_level_hogs()
                        o1=observe(nd); o1=(o1[0],o1[1],False)+o1[3:]
                        if len(tl)!=1 or observe(tl[0])!=o1: fail('C12rt',(info,re.sub(r'.*<groups>','',xs)))
                        h.create_iHam(nd)
                    except Exception as e: fail('C12exc:'+type(e).__name__,(info,))
        # C16
        for top in h.get_list_top_level_hogs():
            for nd in allnodes(top):
                if nd.get_top_level_hog() is not top: fail('C16top',info)
                if isinstance(nd,ag.HOG):
                    dg=nd.get_all_descendant_genes(); 
                    if sorted(g.unique_id for g in dg)!=sorted(x.unique_id for x in allnodes(nd) if isinstance(x,ag.Gene)): fail('C16genes',info)
                    dh=nd.get_all_descendant_hogs()
                    if collections.Counter(map(id,dh))!=collections.Counter(id(x) for x in allnodes(nd) if isinstance(x,ag.HOG)): fail('C16hogs',info)
    return done,bad,ex
if __name__=='__main__':
    d,b,ex=run(int(sys.argv[1]),int(sys.argv[2])); print(d,dict(b))
    for k,v in list(ex.items())[:4]: print('##',k); print(v)
