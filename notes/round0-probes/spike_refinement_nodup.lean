abbrev Taxon := List Nat

inductive SL where
  | gene (id : Nat)
  | grp (written : Bool) (subs : List (Nat × SL))

inductive Elem where
  | ref (id : Nat) (tx : Taxon)
  | og (items : List Elem)

inductive Node where
  | gene (id : Nat) (tx : Taxon)
  | hog (tx : Taxon) (kids : List Node)
deriving Repr

def Node.tx : Node → Taxon
  | .gene _ t => t
  | .hog t _ => t

def ancestors : Taxon → List Taxon
  | [] => []
  | _ :: p => p :: ancestors p
def pathUp (lo anc : Taxon) : List Taxon := (ancestors lo).takeWhile (· != anc)

def chain (k : Node) : List Taxon → Node
  | [] => k
  | t :: ts => chain (.hog t [k]) ts

/-- longest common suffix of two taxa (= MRCA) -/
def lcs2 (a b : Taxon) : Taxon := ((a.reverse.zip b.reverse).takeWhile (fun x => x.1 == x.2)).map (·.1) |>.reverse
def mrca : List Taxon → Taxon
  | [] => []
  | t :: ts => ts.foldl lcs2 t

/-- level rule of the parser (no duplications in this fragment) -/
def level (taxa : List Taxon) : Option Taxon :=
  match taxa with
  | [] => none
  | t :: ts => if ts.all (· == t) then (match t with | [] => none | _ :: u => some u) else some (mrca (t :: ts))

def close (kids : List Node) : Option Node :=
  match level (kids.map Node.tx) with
  | none => none
  | some lv => some (.hog lv (kids.map fun k => chain k (pathUp k.tx lv)))

mutual
def loadE : Elem → Option Node
  | .ref i t => some (.gene i t)
  | .og items => match loadL items with
      | none => none
      | some kids => close kids
def loadL : List Elem → Option (List Node)
  | [] => some []
  | e :: es => match loadE e, loadL es with
      | some n, some ns => some (n :: ns)
      | _, _ => none
end

mutual
def encode (p : Taxon) : SL → List Elem
  | .gene i => [.ref i p]
  | .grp true subs => [.og (encodeS p subs)]
  | .grp false subs => encodeS p subs
def encodeS (p : Taxon) : List (Nat × SL) → List Elem
  | [] => []
  | (i, s) :: r => encode (i :: p) s ++ encodeS p r
end

mutual
def truth (p : Taxon) : SL → Node
  | .gene i => .gene i p
  | .grp _ subs => .hog p (truthS p subs)
def truthS (p : Taxon) : List (Nat × SL) → List Node
  | [] => []
  | (i, s) :: r => truth (i :: p) s :: truthS p r
end

-- apparent nodes: what the loader sees as direct items
mutual
def app (p : Taxon) : SL → List Node
  | .gene i => [.gene i p]
  | .grp true subs => [.hog p (truthS p subs)]
  | .grp false subs => appS p subs
def appS (p : Taxon) : List (Nat × SL) → List Node
  | [] => []
  | (i, s) :: r => app (i :: p) s ++ appS p r
end

-- spelling discipline + recoverability
mutual
def Ok (p : Taxon) : SL → Prop
  | .gene _ => True
  | .grp true subs => OkS p subs ∧ level ((appS p subs).map Node.tx) = some p
  | .grp false subs => OkS p subs ∧ subs.length = 1
def OkS (p : Taxon) : List (Nat × SL) → Prop
  | [] => True
  | (i, s) :: r => Ok (i :: p) s ∧ OkS p r
end

theorem loadL_append (a b : List Elem) (na nb : List Node)
    (ha : loadL a = some na) (hb : loadL b = some nb) : loadL (a ++ b) = some (na ++ nb) := by
  induction a generalizing na with
  | nil => simp [loadL] at ha; subst ha; simpa using hb
  | cons e es ih =>
    simp only [loadL, List.cons_append] at ha ⊢
    cases he : loadE e with
    | none => simp [he] at ha
    | some n =>
      cases hes : loadL es with
      | none => simp [he, hes] at ha
      | some ns =>
        simp [he, hes] at ha; subst ha
        simp [ih ns hes]


theorem ne_of_length_ne {a b : Taxon} (h : a.length ≠ b.length) : a ≠ b := fun e => h (e ▸ rfl)

theorem pathUp_step (j : Nat) (e p : Taxon) (he : e ≠ []) :
    pathUp (j :: (e ++ p)) p = (e ++ p) :: pathUp (e ++ p) p := by
  have hne : (e ++ p) ≠ p := ne_of_length_ne (by
    cases e with | nil => exact absurd rfl he | cons a b => simp; omega)
  simp [pathUp, ancestors, List.takeWhile_cons, hne]

theorem pathUp_one (i : Nat) (p : Taxon) : pathUp (i :: p) p = [] := by
  simp [pathUp, ancestors, List.takeWhile_cons]

def wrap (p : Taxon) (k : Node) : Node := chain k (pathUp k.tx p)

mutual
theorem truth_tx (q : Taxon) : (l : SL) → (truth q l).tx = q
  | .gene _ => by simp [truth, Node.tx]
  | .grp _ _ => by simp [truth, Node.tx]
end

-- D: the apparent node of a lineage at q = e ++ p, re-wrapped up to just below p, is its truth re-wrapped
mutual
theorem app_wrap (p e : Taxon) (he : e ≠ []) : (l : SL) → Ok (e ++ p) l →
    (app (e ++ p) l).map (wrap p) = [chain (truth (e ++ p) l) (pathUp (e ++ p) p)]
  | .gene i, _ => by simp [app, truth, wrap, Node.tx]
  | .grp true subs, _ => by simp [app, truth, wrap, Node.tx]
  | .grp false subs, h => by
    obtain ⟨hs, hlen⟩ := h
    match subs, hs, hlen with
    | [(j, s)], hs, _ =>
      have hs' : Ok (j :: (e ++ p)) s := hs.1
      have ih := app_wrap p (j :: e) (by simp) s (by simpa using hs')
      simp only [app, appS, List.append_nil, truth, truthS]
      have : (j :: e) ++ p = j :: (e ++ p) := rfl
      rw [this] at ih
      rw [ih, pathUp_step j e p he]
      simp [chain]
end

-- C: closing a written group rebuilds exactly the truth children
theorem appS_wrap (p : Taxon) : (subs : List (Nat × SL)) → OkS p subs →
    (appS p subs).map (wrap p) = truthS p subs
  | [], _ => by simp [appS, truthS]
  | (i, s) :: r, h => by
    have h1 := app_wrap p [i] (by simp) s (by simpa using h.1)
    have h2 := appS_wrap p r h.2
    simp only [appS, truthS, List.map_append]
    have e1 : [i] ++ p = i :: p := rfl
    rw [e1] at h1
    rw [h1, h2, pathUp_one]
    simp [chain]

-- A/B: the loader, run on the encoding, sees exactly the apparent nodes
mutual
theorem load_encode (p : Taxon) : (l : SL) → Ok p l → loadL (encode p l) = some (app p l)
  | .gene i, _ => by simp [encode, app, loadL, loadE]
  | .grp true subs, h => by
    have hB := load_encodeS p subs h.1
    have hC := appS_wrap p subs h.1
    simp only [encode, app, loadL, loadE, hB, close, h.2]
    have hC' : List.map (fun k => chain k (pathUp k.tx p)) (appS p subs) = truthS p subs := hC
    rw [hC']
  | .grp false subs, h => by
    simpa [encode, app] using load_encodeS p subs h.1
theorem load_encodeS (p : Taxon) : (subs : List (Nat × SL)) → OkS p subs →
    loadL (encodeS p subs) = some (appS p subs)
  | [], _ => by simp [encodeS, appS, loadL]
  | (i, s) :: r, h => by
    simp only [encodeS, appS]
    exact loadL_append _ _ _ _ (load_encode (i :: p) s h.1) (load_encodeS p r h.2)
end

-- the refinement for a written family: load (encode l) = truth l
theorem refinement (p : Taxon) (subs : List (Nat × SL)) (h : Ok p (.grp true subs)) :
    loadL (encode p (.grp true subs)) = some [truth p (.grp true subs)] := by
  simpa [app, truth] using load_encode p (.grp true subs) h
#print axioms refinement

-- non-vacuity: og{ g1@[0,0] , g2@[1,0] elided through [1,0]->... } etc.
def ex : SL := .grp true [(0, .grp false [(0, .gene 1)]), (1, .grp true [(0, .gene 2), (1, .gene 3)])]
#eval loadL (encode [] ex)
#eval truth [] ex
example : Ok [] ex := by simp [ex, Ok, OkS, appS, app, truthS, truth, level, mrca, lcs2, Node.tx]
