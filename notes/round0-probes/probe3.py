import proto, random, sys
from proto import *
rng2=random.Random(5)
def xml_nested(es):
    out=''
    for e in es:
        if e[0]=='ref': out+='<geneRef id="%s"/>'%e[1]
        elif e[0]=='og': out+='<orthologGroup id="x">'+xml_nested(e[2])+'</orthologGroup>'
        else:
            items=list(e[2]); rng2.shuffle(items)
            def nest(items):
                if len(items)>=3 and rng2.random()<0.7:
                    k=rng2.randint(2,len(items)-1)
                    return '<paralogGroup>'+nest(items[:k])+'</paralogGroup>'+xml_nested(items[k:]) if rng2.random()<0.5 else xml_nested(items[k:])+'<paralogGroup>'+nest(items[:k])+'</paralogGroup>'
                if len(items)>=4 and rng2.random()<0.5:
                    return '<paralogGroup>'+xml_nested(items[:2])+'</paralogGroup><paralogGroup>'+xml_nested(items[2:])+'</paralogGroup>'
                return xml_nested(items)
            out+='<paralogGroup>'+nest(items)+'</paralogGroup>'
    return out
proto.xml=xml_nested
st,f=run(int(sys.argv[1]),int(sys.argv[2]),True)
print(st)
for a in f[:2]:
    print(a[0]); print(a[1].split('<groups>')[1]); print('want',a[2]); print('got ',a[3])
