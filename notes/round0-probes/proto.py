# throw-away prototype: spelled histories, Recoverable, truth, compare with pyham
import sys, os, random, logging
sys.path.insert(0, os.environ.get('PYHAM_REPO','/repo'))
import pyham
from pyham import abstractgene as ag
logging.disable(logging.CRITICAL)

def rand_tree(rng, nleaves):
    cnt=[0]
    def build(n):
        if n==1:
            cnt[0]+=1; return ['L%d'%cnt[0],[]]
        k=min(rng.choice([2,2,2,3,4]),n)
        cuts=sorted(rng.sample(range(1,n),k-1)); parts=[b-a for a,b in zip([0]+cuts,cuts+[n])]
        return [None,[build(p) for p in parts]]
    t=build(nleaves); ic=[0]
    def name(t):
        if t[1]:
            ic[0]+=1; t[0]='I%d'%ic[0]
            for k in t[1]: name(k)
    name(t); return t
def sub(T,p):
    for i in p: T=T[1][i]
    return T
def newick(t): return t[0] if not t[1] else '('+','.join(newick(k) for k in t[1])+')'+t[0]
def paths(T,p=()):
    yield p
    for i,k in enumerate(T[1]): yield from paths(k,p+(i,))

def gen_lin(rng,T,p,ids,pdup,ploss,pel):
    node=sub(T,p)
    if not node[1]:
        ids[0]+=1; return ('gene','g%d'%ids[0])
    while True:
        subs=[]
        for i in range(len(node[1])):
            if rng.random()<ploss: continue
            if rng.random()<pdup:
                n=rng.choice([2,2,3]); subs.append((i,('dup',[gen_lin(rng,T,p+(i,),ids,pdup*0.6,ploss,pel) for _ in range(n)])))
            else: subs.append((i,('one',gen_lin(rng,T,p+(i,),ids,pdup,ploss,pel))))
        if subs: break
    rng.shuffle(subs)
    written = not (len(subs)==1 and rng.random()<pel)
    return ['grp',written,subs]

def encode(p,l):  # -> list of elements annotated with truth
    if l[0]=='gene': return [('ref',l[1],p)]
    items=[]
    for i,s in l[2]:
        if s[0]=='one': items+=encode(p+(i,),s[1])
        else:
            cs=[]
            for c in s[1]: cs+=encode(p+(i,),c)
            items.append(('pg',p,cs))
    return [('og',p,items)] if l[1] else items
def lcp(ts):
    r=[]
    for xs in zip(*ts):
        if all(x==xs[0] for x in xs): r.append(xs[0])
        else: break
    return tuple(r)
def check(e, fixD4):  # returns apparent taxon or raises AssertionError('unrecoverable')
    if e[0]=='ref': return e[2]
    if e[0]=='pg': raise AssertionError('pg directly in pg')
    if e[0]=='og':
        taxa=[]; dl=[]
        for it in e[2]:
            if it[0]=='pg':
                ct=[check(c,fixD4) for c in it[2]]
                s=set(ct); lvl = (list(s)[0][:-1] if len(s)==1 else lcp(list(s))[:-1]) if True else None
                if len(s)==1 and len(list(s)[0])==0: raise AssertionError
                if len(s)>1 and len(lcp(list(s)))==0: raise AssertionError
                if lvl!=it[1]: raise AssertionError('dup level')
                taxa+=ct; dl.append(lvl)
            else: taxa.append(check(it,fixD4))
        s=set(taxa)
        if len(s)==1:
            if len(list(s)[0])==0: raise AssertionError
            lvl=list(s)[0][:-1]
        else: lvl=lcp(list(s))
        if fixD4:
            for d in dl:
                if len(d)<len(lvl) and lvl[:len(d)]==d: lvl=d
        if lvl!=e[1]: raise AssertionError('og level')
        return lvl
def recoverable(p,l,fixD4):
    try:
        es=encode(p,l)
        if len(es)!=1 or es[0][0]!='og': return False
        check(es[0],fixD4); return True
    except AssertionError: return False

def genes(l):
    if l[0]=='gene': return [l[1]]
    out=[]
    for i,s in l[2]:
        for c in ([s[1]] if s[0]=='one' else s[1]): out+=genes(c)
    return out
def truth(p,l,flag=False):
    if l[0]=='gene': return ('G',l[1],p,flag)
    kids=[]; dups=[]
    for i,s in l[2]:
        if s[0]=='one': kids.append(truth(p+(i,),s[1]))
        else:
            cs=[truth(p+(i,),c,True) for c in s[1]]; kids+=cs
            dups.append(frozenset(key(c) for c in cs))
    return ('H',p,flag,tuple(sorted(kids,key=repr)),frozenset(dups))
def key(n): return (n[2],tuple(sorted(leaves(n)))) if n[0]=='G' else (n[1],tuple(sorted(leaves(n))))
def leaves(n):
    if n[0]=='G': return [n[1]]
    out=[]
    for k in n[3]: out+=leaves(k)
    return out

def xml(es):
    out=''
    for e in es:
        if e[0]=='ref': out+='<geneRef id="%s"/>'%e[1]
        elif e[0]=='og': out+='<orthologGroup id="x">'+xml(e[2])+'</orthologGroup>'
        else: out+='<paralogGroup>'+xml(e[2])+'</paralogGroup>'
    return out
def mkfile(T,fams):
    sp={}
    for p,l in fams:
        for g,t in [(e[1],e[2]) for e in flat(encode(p,l))]: sp.setdefault(sub(T,t)[0],[]).append(g)
    s='<?xml version="1.0" encoding="UTF-8"?>\n<orthoXML xmlns="http://orthoXML.org/2011/" version="0.3" origin="x" originVersion="1">\n'
    for p in paths(T):
        n=sub(T,p)
        if not n[1]:
            s+='<species name="%s" NCBITaxId="1"><database name="d" version="1"><genes>'%n[0]
            for g in sp.get(n[0],[]): s+='<gene id="%s" protId="p%s"/>'%(g,g)
            s+='</genes></database></species>\n'
    s+='<groups>\n'
    for k,(p,l) in enumerate(fams):
        x=xml(encode(p,l)); s+=x.replace('<orthologGroup id="x">','<orthologGroup id="%d">'%(k+1),1)+'\n'
    return s+'</groups></orthoXML>\n'
def flat(es):
    for e in es:
        if e[0]=='ref': yield e
        else: yield from flat(e[2])
def pathof(node):
    p=[]
    while node.up is not None:
        p.append(node.up.children.index(node)); node=node.up
    return tuple(reversed(p))
def observe(n):
    if isinstance(n,ag.Gene): return ('G',n.unique_id,pathof(n.genome.taxon),n.arose_by_duplication!=False)
    kids=[observe(c) for c in n.children]
    for c in n.children: assert c.parent is n
    dups=[]
    for d in n.duplications:
        assert d.parent is n
        for c in d.children: assert c.arose_by_duplication is d and c in n.children
        dups.append(frozenset(key(observe(c)) for c in d.children))
    for c in n.children:
        if c.arose_by_duplication!=False: assert c.arose_by_duplication in n.duplications, 'flag without event'
    return ('H',pathof(n.genome.taxon),n.arose_by_duplication!=False,tuple(sorted(kids,key=repr)),frozenset(dups))

def run(seed,n,fixD4,maxleaves=7):
    rng=random.Random(seed); stats=dict(cases=0,recov=0,ok=0,bad=0,exc=0)
    fails=[]
    for k in range(n):
        T=rand_tree(rng,rng.randint(2,maxleaves)); ids=[0]
        internal=[p for p in paths(T) if sub(T,p)[1]]
        fams=[]
        for _ in range(rng.randint(1,3)):
            p=rng.choice(internal); l=gen_lin(rng,T,p,ids,0.3,0.25,0.5); l[1]=True
            fams.append((p,l))
        stats['cases']+=1
        if not all(recoverable(p,l,fixD4) for p,l in fams): continue
        stats['recov']+=1
        nwk=newick(T)+';'; x=mkfile(T,fams)
        try:
            h=pyham.Ham(tree_file=nwk,hog_file=x,orthoXML_as_string=True,use_internal_name=True)
            got=[observe(h.get_hog_by_id(str(i+1))) for i in range(len(fams))]
            want=[truth(p,l) for p,l in fams]
            if got==want: stats['ok']+=1
            else: stats['bad']+=1; fails.append((nwk,x,want,got))
        except Exception as e:
            stats['exc']+=1; fails.append((nwk,x,repr(e),None))
    return stats,fails
if __name__=='__main__':
    fix=os.environ.get('FIXD4','0')=='1'
    st,f=run(int(sys.argv[1]),int(sys.argv[2]),fix)
    print(st)
    for a in f[:3]:
        print(a[0]); print(a[1].split('<groups>')[1]); print('want',a[2]); print('got ',a[3])
