import sys, random, collections
from proto import *
def snap(h, fams_ids):
    return {i: observe(h.get_hog_by_id(i)) for i in fams_ids}
def run(seed,n):
    rng=random.Random(seed); bad=collections.Counter(); ex={}; done=0
    for k in range(n):
        T=rand_tree(rng,rng.randint(2,7)); ids=[0]
        internal=[p for p in paths(T) if sub(T,p)[1]]
        fams=[]
        for _ in range(rng.randint(2,5)):
            p=rng.choice(internal); l=gen_lin(rng,T,p,ids,0.35,0.25,0.5); l[1]=True; fams.append((p,l))
        if not all(recoverable(p,l,True) for p,l in fams): continue
        done+=1
        nwk=newick(T)+';'; x=mkfile(T,fams)
        full=pyham.Ham(tree_file=nwk,hog_file=x,orthoXML_as_string=True,use_internal_name=True)
        allids=[str(i+1) for i in range(len(fams))]
        S=snap(full,allids)
        # C11
        sel=[i for i in allids if rng.random()<0.5]
        gsel=[rng.choice(genes(l)) for (p,l) in fams if rng.random()<0.3]
        f=pyham.ParserFilter(); f.add_hogs_via_hogId([int(i) for i in sel]); 
        if rng.random()<0.5: f.add_hogs_via_GeneIntId(gsel)
        else: f.add_hogs_via_GeneExtId(['p'+g for g in gsel])
        want=set(sel)|{str(i+1) for i,(p,l) in enumerate(fams) if set(genes(l))&set(gsel)}
        try:
            hf=pyham.Ham(tree_file=nwk,hog_file=x,orthoXML_as_string=True,use_internal_name=True,filter_object=f)
            if set(hf.top_level_hogs)!=want: bad['C11sel']+=1; ex.setdefault('C11sel',(nwk,x,sel,gsel))
            elif snap(hf,sorted(want))!={i:S[i] for i in want}: bad['C11forest']+=1; ex.setdefault('C11forest',(nwk,x,sel,gsel))
            wg=set(g for i in want for g in genes(fams[int(i)-1][1]))
            if set(hf.extant_gene_map)!=wg: bad['C11genes']+=1
        except Exception as e: bad['C11exc:'+type(e).__name__]+=1; ex.setdefault('C11exc',(nwk,x,sel,gsel,repr(e)))
        # C17: random call sequence then re-snapshot and compare vertical results to fresh
        gs=[t.genome for t in full.taxonomy.tree.traverse() if 'genome' in t.features]
        def vres(h,a,d):
            m=h.compare_genomes_vertically(a,d).map
            kk=lambda o: key(observe(o))
            return (sorted(map(kk,m.GAIN)),sorted(map(kk,m.LOSS)),sorted((kk(a),kk(b)) for a,b in m.RETAINED.items()),sorted((kk(a),sorted(map(kk,b))) for a,b in m.DUPLICATE.items()))
        for _ in range(12):
            op=rng.choice(['v','l','tp','tph','iham','clu'])
            try:
                if op=='v':
                    a,b=rng.sample(gs,2); full.compare_genomes_vertically(a,b)
                elif op=='l':
                    a,b=rng.sample(gs,2); m=full.compare_genomes_lateral(a,b); m.get_lost(); m.get_gained(); m.get_retained(); m.get_duplicated()
                elif op=='tp': full.create_tree_profile()
                elif op=='tph': full.create_tree_profile(hog=full.get_hog_by_id(rng.choice(allids)))
                elif op=='iham': full.create_iHam(full.get_hog_by_id(rng.choice(allids)))
                else:
                    g=rng.choice(gs)
                    if hasattr(g,'get_ancestral_clustering'): g.get_ancestral_clustering()
            except (TypeError,KeyError,IndexError) as e: pass
        if snap(full,allids)!=S: bad['C17snap']+=1; ex.setdefault('C17snap',(nwk,x))
        fresh=pyham.Ham(tree_file=nwk,hog_file=x,orthoXML_as_string=True,use_internal_name=True)
        gp={pathof(g.taxon):g for g in gs}; fp={pathof(t):t.genome for t in fresh.taxonomy.tree.traverse() if 'genome' in t.features}
        for a in gp:
            for d in gp:
                if len(a)<len(d) and d[:len(a)]==a and a in fp and d in fp:
                    if vres(full,gp[a],gp[d])!=vres(fresh,fp[a],fp[d]): bad['C17v']+=1
        for p,g in gp.items():
            if p in fp and len(g.genes)!=len(fp[p].genes): bad['C17genes']+=1
    return done,bad,ex
d,b,ex=run(int(sys.argv[1]),int(sys.argv[2])); print(d,dict(b))
for k,v in list(ex.items())[:3]: print('##',k,str(v)[:1500])
