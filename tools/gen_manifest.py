#!/usr/bin/env python3
"""regenerate MANIFEST.json from properties.jsonl, theorems.json and the level table below"""
import json, os
V = os.path.dirname(os.path.dirname(os.path.abspath(__file__)))
props = [json.loads(l) for l in open(os.path.join(V, 'properties.jsonl'))]
thm = json.load(open(os.path.join(V, 'theorems.json')))
LEVEL = json.load(open(os.path.join(V, 'tools', 'levels.json')))
old = json.load(open(os.path.join(V, 'MANIFEST.json')))
checks = []
for p in props:
    i = p['id']; lv = LEVEL[i]; t = thm.get(i, {'theorems': []})
    names = ', '.join(x['name'].replace('Pyham.Props.', '') for x in t['theorems'])
    checks.append(dict(
        property_id=i, quick_cmd='./check %s --tier quick' % i, thorough_cmd='./check %s --tier thorough' % i,
        evidence_file='evidence/%s.json' % i, replay_cmd_template='./check %s --replay {path}' % i,
        engine='lean-model+correspondence',
        level_claimed=dict(category=lv['category'], text=lv['text'] + ((' Theorems (lean/PyhamModel/Props.lean): ' + names + '.') if names else ''), design_ref=lv.get('design_ref', 'DESIGN.md §5')),
        level_note=lv.get('note', 'Trusted: Lean 4.33 kernel (axioms propext, Classical.choice, Quot.sound only); the hand-written model lean/PyhamModel/Model/*.lean, tied to /repo on every run by the correspondence check (model vs pyham on generated inputs, canonicalised); harness; ete3 / xml / CPython semantics modelled, not verified. See DESIGN.md §7.'),
        technique=lv['technique']))
old['checks'] = checks
old['notes'] = ('Every check: lake build + axiom audit of the property theorems (Lean 4), then the correspondence run: the same generated cases through pyham '
                '(imported from /repo or $PYHAM_REPO) and through the compiled Lean model driver, compared per property; oracles on pyham objects turn a '
                'disagreement into a replayable failing input. VERIF_SEED seeds all generation.')
old['not_applicable'] = []
old['hooks']['source_commits'] = []
json.dump(old, open(os.path.join(V, 'MANIFEST.json'), 'w'), indent=1)
print('manifest: %d checks' % len(checks))
