#!/venv/bin/python
"""Which lines of pyham do the correspondence runs execute?

Runs the quick-tier exploration of every property (no Lean build, no verdict) under coverage.py, restricted
to /repo/pyham, and writes /verif/coverage.json: per file the statements executed / missing, and per modelled
function (MODEL_MAP.md) whether any of its statements was never reached.  This measures the generator, not the
code: a line that no check executes is a line on which model and implementation have never been compared.

    tools/coverage_report.py [seed]
"""
import os, sys, json, ast, subprocess, tempfile, shutil

V = os.path.dirname(os.path.dirname(os.path.abspath(__file__)))
REPO = os.environ.get('PYHAM_REPO', '/repo')
PROPS = ['C%02d' % i for i in range(1, 21)]

RUNNER = r'''
import sys, os
sys.path.insert(0, %(harness)r)
os.environ['VERIF_SHARD'] = '0/1'
os.environ.setdefault('VERIF_WORK', %(work)r)
import props, props2
prop = sys.argv[1]; seed = int(sys.argv[2])
for mod in (props, props2):
    f = getattr(mod, 'c' + prop[1:], None)
    if f is not None:
        r = f('quick', seed)
        print(prop, 'evaluations', r.evaluations, 'mismatches', len(r.mismatches), 'oracle', len(r.oracle_failures))
        break
'''

def functions_of(path):
    """[(qualified name, first line, last line)] of every def in the file"""
    out = []
    tree = ast.parse(open(path).read())
    def walk(node, prefix):
        for ch in ast.iter_child_nodes(node):
            if isinstance(ch, (ast.FunctionDef, ast.AsyncFunctionDef)):
                out.append((prefix + ch.name, ch.lineno, ch.end_lineno))
                walk(ch, prefix + ch.name + '.')
            elif isinstance(ch, ast.ClassDef):
                walk(ch, prefix + ch.name + '.')
    walk(tree, '')
    return out

def main():
    seed = int(sys.argv[1]) if len(sys.argv) > 1 else 0
    work = tempfile.mkdtemp(prefix='pyham-cov-', dir=os.path.join(V, '.work') if os.path.isdir(os.path.join(V, '.work')) else None)
    try:
        runner = os.path.join(work, 'runner.py')
        open(runner, 'w').write(RUNNER % dict(harness=os.path.join(V, 'harness'), work=work))
        env = dict(os.environ, COVERAGE_FILE=os.path.join(work, '.coverage'), COVERAGE_CORE='sysmon')
        procs = []
        for p in PROPS:
            procs.append((p, subprocess.Popen(
                ['/venv/bin/python', '-m', 'coverage', 'run', '--parallel-mode', '--source=' + os.path.join(REPO, 'pyham'),
                 runner, p, str(seed)], env=env, cwd=work, stdout=subprocess.PIPE, stderr=subprocess.STDOUT, text=True)))
        for p, pr in procs:
            out, _ = pr.communicate()
            print(out.strip().split('\n')[-1][:200])
        subprocess.run(['/venv/bin/python', '-m', 'coverage', 'combine'], env=env, cwd=work, stdout=subprocess.DEVNULL)
        js = os.path.join(work, 'cov.json')
        subprocess.run(['/venv/bin/python', '-m', 'coverage', 'json', '-o', js], env=env, cwd=work, stdout=subprocess.DEVNULL)
        data = json.load(open(js))
        rep = {'seed': seed, 'tier': 'quick', 'files': {}, 'functions_never_entered': [], 'functions_partly_missed': {}}
        for f, d in sorted(data['files'].items()):
            rel = os.path.relpath(f, REPO)
            if '/tests/' in rel or rel.endswith('__init__.py'):
                continue
            miss = set(d['missing_lines']); ex = set(d['executed_lines'])
            rep['files'][rel] = dict(statements=len(miss) + len(ex), executed=len(ex), missing=sorted(miss))
            for name, a, b in functions_of(f):
                body = [l for l in range(a + 1, b + 1) if l in miss or l in ex]
                if not body:
                    continue
                m = [l for l in body if l in miss]
                if len(m) == len(body):
                    rep['functions_never_entered'].append('%s:%s' % (rel, name))
                elif m:
                    rep['functions_partly_missed']['%s:%s' % (rel, name)] = m
        json.dump(rep, open(os.path.join(V, 'coverage.json'), 'w'), indent=1)
        tot = sum(x['statements'] for x in rep['files'].values()); exe = sum(x['executed'] for x in rep['files'].values())
        print('pyham statements executed by the quick tier of all checks: %d / %d (%.1f%%)' % (exe, tot, 100.0 * exe / tot))
        for f, x in rep['files'].items():
            print('  %-40s %4d / %4d' % (f, x['executed'], x['statements']))
    finally:
        shutil.rmtree(work, ignore_errors=True)

if __name__ == '__main__':
    main()
