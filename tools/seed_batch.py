#!/usr/bin/env python3
"""seed_batch.py <round-prefix> <srcdir> id:check,check ... : copy mutants into seeded/<prefix>-<id> and evaluate"""
import json, os, shutil, subprocess, sys
sys.path.insert(0, os.path.dirname(os.path.abspath(__file__)))
import seed_eval
prefix, srcdir = sys.argv[1], sys.argv[2]
base = subprocess.check_output(['git', '-C', '/repo', 'rev-parse', '--short', 'HEAD'], text=True).strip()
for spec in sys.argv[3:]:
    sid, checks = spec.split(':')
    checks = checks.split(',')
    src = os.path.join(srcdir, sid)
    if not os.path.exists(os.path.join(src, 'patch.diff')):
        print(sid, 'missing'); continue
    dst = '/verif/seeded/%s-%s' % (prefix, sid)
    os.makedirs(dst, exist_ok=True)
    shutil.copy(os.path.join(src, 'patch.diff'), os.path.join(dst, 'patch.diff'))
    shutil.copy(os.path.join(src, 'demo.py'), os.path.join(dst, 'demo.py'))
    meta = json.load(open(os.path.join(src, 'meta.json')))
    r = seed_eval.evaluate(prefix + sid, dst, checks)
    meta.update(base_commit=base, round=prefix, author='independent sub-agent given only the property text, a hint about the kind of change wanted, and a scratch worktree',
                confirmed=dict(patch_applies=r.get('patch_applies'), tests=r.get('tests'), demo_exit_without_change=r.get('demo_exit_clean'), demo_exit_with_change=r.get('demo_exit_changed')),
                ran='tools/seed_eval.py: scratch worktree of /repo HEAD, git apply patch.diff, pytest, demo.py, then ./check <id> --no-build with PYHAM_REPO=<worktree> VERIF_SEED=0',
                detected_by=r.get('checks'))
    json.dump(meta, open(os.path.join(dst, 'meta.json'), 'w'), indent=1)
    print(sid, (r.get('tests') or '')[:22], r.get('demo_exit_clean'), r.get('demo_exit_changed'), {k: v['exit'] for k, v in (r.get('checks') or {}).items()})
