#!/usr/bin/env python3
"""seed_round.py <prefix> <srcdir> id:check,check ...   -- like seed_batch.py but 4 evaluations in parallel and re-runnable
(if seeded/<prefix>-<id> already exists only the evaluation is refreshed)"""
import json, os, shutil, subprocess, sys
from concurrent.futures import ThreadPoolExecutor
sys.path.insert(0, os.path.dirname(os.path.abspath(__file__)))
import seed_eval
prefix, srcdir = sys.argv[1], sys.argv[2]
base = subprocess.check_output(['git', '-C', '/repo', 'rev-parse', '--short', 'HEAD'], text=True).strip()
def one(spec):
    sid, checks = spec.split(':')
    checks = checks.split(',')
    dst = '/verif/seeded/%s-%s' % (prefix, sid)
    src = os.path.join(srcdir, sid)
    if os.path.exists(os.path.join(src, 'patch.diff')):
        os.makedirs(dst, exist_ok=True)
        for f in ('patch.diff', 'demo.py', 'meta.json'):
            shutil.copy(os.path.join(src, f), os.path.join(dst, f))
    if not os.path.exists(os.path.join(dst, 'patch.diff')):
        return sid + ' missing'
    meta = json.load(open(os.path.join(dst, 'meta.json')))
    r = seed_eval.evaluate(prefix + sid, dst, checks)
    meta.update(base_commit=base, round=prefix, author='independent sub-agent given only the property text, the list of changes already tried, and a scratch worktree',
                confirmed=dict(patch_applies=r.get('patch_applies'), tests=r.get('tests'), demo_exit_without_change=r.get('demo_exit_clean'), demo_exit_with_change=r.get('demo_exit_changed')),
                ran='tools/seed_eval.py: scratch worktree of /repo HEAD, git apply patch.diff, pytest, demo.py, then ./check <id> --no-build with PYHAM_REPO=<worktree> VERIF_SEED=0',
                detected_by=r.get('checks'))
    json.dump(meta, open(os.path.join(dst, 'meta.json'), 'w'), indent=1)
    return '%s applies=%s tests=%s demo=%s/%s %s' % (sid, r.get('patch_applies'), (r.get('tests') or '')[:22], r.get('demo_exit_clean'), r.get('demo_exit_changed'),
                                                   {k: (v['exit'], 'nfi' if (v['violation'] or '').endswith('no-failing-input-found') else '') for k, v in (r.get('checks') or {}).items()})
with ThreadPoolExecutor(4) as ex:
    for line in ex.map(one, sys.argv[3:]):
        print(line, flush=True)
