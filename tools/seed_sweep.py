#!/usr/bin/env python3
"""seed_sweep.py [seeds...]: every accepted seeded change against the check of its own property, for the given seeds
(default 1 2); prints the ones that are NOT caught (or whose patch no longer applies) and writes seeded/SWEEP.json"""
import json, os, sys, glob
from concurrent.futures import ThreadPoolExecutor
sys.path.insert(0, os.path.dirname(os.path.abspath(__file__)))
import seed_eval
seeds = tuple(int(x) for x in sys.argv[1:]) or (1, 2)
dirs = []
for mp in sorted(glob.glob('/verif/seeded/*/meta.json')):
    m = json.load(open(mp))
    if m.get('rejected') or not m.get('property'):
        continue
    dirs.append((os.path.basename(os.path.dirname(mp)), os.path.dirname(mp), m['property']))
def one(x):
    name, d, prop = x
    try:
        r = seed_eval.evaluate('sweep' + name.replace('-', ''), d, [prop], seeds=seeds)
    except Exception as e:      # noqa
        return name, dict(error=str(e)[:200])
    return name, dict(applies=r.get('patch_applies'), exits={k: v['exit'] for k, v in (r.get('checks') or {}).items()})
out = {}
with ThreadPoolExecutor(6) as ex:
    for name, r in ex.map(one, dirs):
        out[name] = r
        ok = r.get('applies') and all(v == 1 for v in r.get('exits', {}).values())
        if not ok:
            print('NOT CAUGHT / PROBLEM:', name, r, flush=True)
json.dump(dict(seeds=seeds, results=out), open('/verif/seeded/SWEEP.json', 'w'), indent=1)
print('swept', len(out), 'changes with seeds', seeds)
