#!/usr/bin/env python3
"""rewrite the per-property table of DESIGN.md §5 (between the markers) from theorems.json and the last evidence files"""
import json, os, re
V = os.path.dirname(os.path.dirname(os.path.abspath(__file__)))
t = json.load(open(os.path.join(V, 'theorems.json')))
rows = ['| id | theorems (Props.lean / Witness.lean) | not proved — covered by correspondence + oracle | compared tags, cases in the last quick run |', '|---|---|---|---|']
for pid in sorted(t):
    names = ', '.join('`%s`' % th['name'].replace('Pyham.Props.', '').replace('Pyham.', '') for th in t[pid]['theorems'])
    ev = os.path.join(V, 'evidence', pid + '.json')
    cases = ''
    if os.path.exists(ev):
        e = json.load(open(ev))
        h = e.get('coverage', {}).get('histogram', {})
        tags = sorted(k[len('compared_'):] for k in h if k.startswith('compared_'))
        cases = '%s [%s cases]' % (', '.join(tags), e.get('coverage', {}).get('evaluations', '?'))
    rows.append('| %s | %s | %s | %s |' % (pid, names, (t[pid].get('not_proved') or '—').replace('|', '/'), cases))
p = os.path.join(V, 'DESIGN.md')
s = open(p).read()
a = s.index('<!-- TABLE5 -->'); b = s.index('<!-- /TABLE5 -->')
s = s[:a] + '<!-- TABLE5 -->\n' + '\n'.join(rows) + '\n' + s[b:]
open(p, 'w').write(s)
print(len(rows) - 2, 'rows')
