#!/usr/bin/env python3
"""pymut.py -- systematic (AST-level) mutation of /repo/pyham to measure how tightly the checks are tied to the code.

  tools/pymut.py list                          number of mutants per file / operator
  tools/pymut.py run [--jobs N] [--files a.py,b.py] [--limit N] [--out FILE] [--only-survivors-of FILE]

For every mutant: a scratch copy of pyham/ + tests/ (outside /repo and /verif, removed afterwards) gets the mutated
module; the repository's own test suite is run (network test deselected); mutants the tests kill are of no interest
(the task is about changes that PASS the tests).  For the others the quick checks are run with PYHAM_REPO=<scratch>,
most relevant property first, until one reports a VIOLATION.  A mutant no check notices is a SURVIVOR: either an
equivalent mutant (logging, messages, dead code, type-check raises) or a hole in the generators / oracles.

Nothing here stands in for a theorem: it measures the sensitivity of the correspondence run (DESIGN section 4 / 9).
"""
import ast, copy, json, os, shutil, subprocess, sys, time, argparse
from concurrent.futures import ThreadPoolExecutor

V = os.path.dirname(os.path.dirname(os.path.abspath(__file__)))
REPO = os.environ.get('PYMUT_REPO', '/repo')
SCRATCH = os.environ.get('PYMUT_SCRATCH', '/tmp/pymut')
FILES = ['parsers.py', 'abstractgene.py', 'mapper.py', 'ham.py', 'taxonomy.py', 'TreeProfile.py', 'iham.py', 'genome.py']
# functions outside every property (figure export, network access, debugging helpers): not mutated
SKIP_FUNCS = {'export', '_layout', '_add_face', '_add_faces', '_add_annot', 'get_ascii_taxonomy', 'showIndent', 'exportAttributes',
              'exportChildren', 'hasContent_', '__str__', '_get_html_template', 'previsualize_taxonomy',
              '_check_consistency_numbers'}
ORDER = {
    'parsers.py': ['C03', 'C02', 'C01', 'C20', 'C19', 'C11', 'C04', 'C14', 'C13', 'C12', 'C05', 'C06', 'C09', 'C10', 'C16', 'C15', 'C17', 'C07', 'C08', 'C18'],
    'abstractgene.py': ['C06', 'C16', 'C19', 'C02', 'C03', 'C07', 'C05', 'C01', 'C12', 'C10', 'C20', 'C04', 'C09', 'C08', 'C17', 'C15', 'C11', 'C13', 'C14', 'C18'],
    'mapper.py': ['C05', 'C06', 'C08', 'C07', 'C09', 'C17', 'C10', 'C13', 'C14', 'C02', 'C01', 'C03', 'C04', 'C11', 'C12', 'C15', 'C16', 'C18', 'C19', 'C20'],
    'ham.py': ['C15', 'C17', 'C11', 'C08', 'C13', 'C01', 'C04', 'C20', 'C02', 'C03', 'C12', 'C09', 'C10', 'C05', 'C06', 'C07', 'C16', 'C14', 'C19', 'C18'],
    'taxonomy.py': ['C18', 'C15', 'C13', 'C04', 'C20', 'C12', 'C10', 'C09', 'C03', 'C02', 'C01', 'C17', 'C05', 'C06', 'C07', 'C08', 'C11', 'C14', 'C16', 'C19'],
    'TreeProfile.py': ['C09', 'C10', 'C17', 'C13', 'C02', 'C04', 'C01', 'C03', 'C05', 'C06', 'C07', 'C08', 'C11', 'C12', 'C14', 'C15', 'C16', 'C18', 'C19', 'C20'],
    'iham.py': ['C12', 'C17', 'C19', 'C13', 'C01', 'C02', 'C03', 'C04', 'C05', 'C06', 'C07', 'C08', 'C09', 'C10', 'C11', 'C14', 'C15', 'C16', 'C18', 'C20'],
    'genome.py': ['C04', 'C15', 'C01', 'C09', 'C17', 'C02', 'C03', 'C05', 'C06', 'C07', 'C08', 'C10', 'C11', 'C12', 'C13', 'C14', 'C16', 'C18', 'C19', 'C20'],
}

CMP = {ast.Eq: ast.NotEq, ast.NotEq: ast.Eq, ast.Lt: ast.LtE, ast.LtE: ast.Lt, ast.Gt: ast.GtE, ast.GtE: ast.Gt,
       ast.Is: ast.IsNot, ast.IsNot: ast.Is, ast.In: ast.NotIn, ast.NotIn: ast.In}

def _is_logger_call(node):
    return (isinstance(node, ast.Expr) and isinstance(node.value, ast.Call) and isinstance(node.value.func, ast.Attribute)
            and isinstance(node.value.func.value, ast.Name) and node.value.func.value.id in ('logger', 'logging', 'warnings'))

def _mark_skips(tree):
    """set ._skip on nodes that must not be mutated: docstrings, logger calls, arguments of raise, skipped functions"""
    for node in ast.walk(tree):
        node._skip = getattr(node, '_skip', False)
    def skip_all(n):
        for x in ast.walk(n):
            x._skip = True
    for node in ast.walk(tree):
        if isinstance(node, (ast.FunctionDef, ast.ClassDef, ast.Module)):
            b = node.body
            if b and isinstance(b[0], ast.Expr) and isinstance(b[0].value, ast.Constant) and isinstance(b[0].value.value, str):
                skip_all(b[0])
        if isinstance(node, ast.FunctionDef) and node.name in SKIP_FUNCS:
            skip_all(node)
        if _is_logger_call(node):
            skip_all(node)
        if isinstance(node, ast.Raise):
            skip_all(node)
        if isinstance(node, ast.If) and isinstance(node.test, ast.Compare) and isinstance(node.test.left, ast.Call) \
                and getattr(node.test.left.func, 'id', '') == 'len' and 'logger.handlers' in ast.unparse(node.test):
            skip_all(node)
        if isinstance(node, (ast.Import, ast.ImportFrom)):
            skip_all(node)
        if isinstance(node, ast.If) and 'use_data_from' in ast.unparse(node.test):      # network transport: outside every property
            skip_all(node)
        if isinstance(node, ast.Expr) and 'install_aliases' in ast.unparse(node):
            skip_all(node)

def points(tree):
    """[(walk index, kind, variant, description)]"""
    _mark_skips(tree)
    res = []
    for i, node in enumerate(ast.walk(tree)):
        if node._skip:
            continue
        ln = getattr(node, 'lineno', 0)
        if isinstance(node, ast.Compare):
            for j, op in enumerate(node.ops):
                if type(op) in CMP:
                    res.append((i, 'cmp', j, 'L%d %s -> %s' % (ln, type(op).__name__, CMP[type(op)].__name__)))
        elif isinstance(node, ast.BoolOp):
            res.append((i, 'bool', 0, 'L%d %s flipped' % (ln, type(node.op).__name__)))
            for j in range(len(node.values)):
                res.append((i, 'booldrop', j, 'L%d operand %d of %s dropped' % (ln, j, type(node.op).__name__)))
        elif isinstance(node, ast.UnaryOp) and isinstance(node.op, ast.Not):
            res.append((i, 'not', 0, 'L%d not removed' % ln))
        elif isinstance(node, (ast.If, ast.While, ast.IfExp)):
            res.append((i, 'negtest', 0, 'L%d test negated' % ln))
        elif isinstance(node, ast.Constant) and isinstance(node.value, bool):
            res.append((i, 'const', 0, 'L%d %r -> %r' % (ln, node.value, not node.value)))
        elif isinstance(node, ast.Constant) and isinstance(node.value, int):
            res.append((i, 'const', 1, 'L%d %r -> %r' % (ln, node.value, node.value + 1)))
            res.append((i, 'const', -1, 'L%d %r -> %r' % (ln, node.value, node.value - 1)))
        elif isinstance(node, ast.BinOp) and isinstance(node.op, (ast.Add, ast.Sub)):
            res.append((i, 'arith', 0, 'L%d %s flipped' % (ln, type(node.op).__name__)))
        elif isinstance(node, ast.AugAssign) and isinstance(node.op, (ast.Add, ast.Sub)):
            res.append((i, 'arith', 0, 'L%d augmented %s flipped' % (ln, type(node.op).__name__)))
            res.append((i, 'del', 0, 'L%d statement deleted: %s' % (ln, ast.unparse(node)[:60])))
        elif isinstance(node, ast.Expr) and isinstance(node.value, ast.Call):
            res.append((i, 'del', 0, 'L%d statement deleted: %s' % (ln, ast.unparse(node)[:60])))
        elif isinstance(node, ast.Assign):
            res.append((i, 'del', 0, 'L%d statement deleted: %s' % (ln, ast.unparse(node)[:60])))
        elif isinstance(node, ast.Return) and node.value is not None and not (isinstance(node.value, ast.Constant) and node.value.value is None):
            res.append((i, 'retnone', 0, 'L%d return None instead of %s' % (ln, ast.unparse(node.value)[:40])))
        elif isinstance(node, (ast.Break, ast.Continue)):
            res.append((i, 'del', 0, 'L%d %s deleted' % (ln, type(node).__name__)))
        elif isinstance(node, ast.Subscript) and isinstance(node.slice, ast.Constant) and node.slice.value == 0:
            res.append((i, 'idx', 0, 'L%d [0] -> [-1]' % ln))
        elif isinstance(node, ast.Subscript) and isinstance(node.slice, ast.UnaryOp) and isinstance(node.slice.op, ast.USub) \
                and isinstance(node.slice.operand, ast.Constant) and node.slice.operand.value == 1:
            res.append((i, 'idx', 1, 'L%d [-1] -> [0]' % ln))
    return res

def apply(tree, point):
    i, kind, var, _ = point
    t = copy.deepcopy(tree)
    nodes = list(ast.walk(t))
    node = nodes[i]
    def replace(old, new):
        for parent in nodes:
            for f, v in ast.iter_fields(parent):
                if v is old:
                    setattr(parent, f, new); return
                if isinstance(v, list):
                    for k, x in enumerate(v):
                        if x is old:
                            v[k] = new; return
        raise RuntimeError('parent not found')
    if kind == 'cmp':
        node.ops[var] = CMP[type(node.ops[var])]()
    elif kind == 'bool':
        node.op = ast.Or() if isinstance(node.op, ast.And) else ast.And()
    elif kind == 'booldrop':
        vals = node.values[:var] + node.values[var + 1:]
        if len(vals) == 1:
            replace(node, vals[0])
        else:
            node.values = vals
    elif kind == 'not':
        replace(node, node.operand)
    elif kind == 'negtest':
        node.test = ast.UnaryOp(op=ast.Not(), operand=node.test)
    elif kind == 'const':
        node.value = (not node.value) if var == 0 else node.value + var
    elif kind == 'arith':
        node.op = ast.Sub() if isinstance(node.op, ast.Add) else ast.Add()
    elif kind == 'del':
        replace(node, ast.Pass())
    elif kind == 'retnone':
        node.value = ast.Constant(value=None)
    elif kind == 'idx':
        node.slice = ast.UnaryOp(op=ast.USub(), operand=ast.Constant(value=1)) if var == 0 else ast.Constant(value=0)
    ast.fix_missing_locations(t)
    return ast.unparse(t)

def all_mutants(files):
    out = []
    for f in files:
        src = open(os.path.join(REPO, 'pyham', f)).read()
        tree = ast.parse(src)
        for p in points(tree):
            out.append((f, p))
    return out

def sh(cmd, cwd=None, env=None, timeout=1500):
    try:
        p = subprocess.run(cmd, shell=True, cwd=cwd, env=env, stdout=subprocess.PIPE, stderr=subprocess.STDOUT, text=True, timeout=timeout)
        return p.returncode, p.stdout
    except subprocess.TimeoutExpired:
        return 124, 'timeout'

TESTCMD = ('/venv/bin/python -m pytest -x -q -p no:cacheprovider --timeout=120 '
           '--deselect tests/test_treeprofile.py::ServerBasedTreeProfileTest::test_non_luca_root_hog_works_from_omabrowser 2>&1 | tail -3')

def evaluate(k, f, point, trees, checks_all):
    W = os.path.join(SCRATCH, 'w%d' % k)
    shutil.rmtree(W, ignore_errors=True)
    os.makedirs(W)
    shutil.copytree(os.path.join(REPO, 'pyham'), os.path.join(W, 'pyham'), ignore=shutil.ignore_patterns('__pycache__'))
    shutil.copytree(os.path.join(REPO, 'tests'), os.path.join(W, 'tests'), ignore=shutil.ignore_patterns('__pycache__'))
    rec = dict(file=f, what=point[3], kind=point[1])
    try:
        try:
            src = apply(trees[f], point)
            compile(src, f, 'exec')
        except Exception as e:      # noqa
            rec['status'] = 'invalid'; rec['err'] = str(e)[:100]
            return rec
        open(os.path.join(W, 'pyham', f), 'w').write(src)
        rc, out = sh(TESTCMD, cwd=W, env=dict(os.environ, PYTHONDONTWRITEBYTECODE='1'), timeout=600)
        if ' failed' in out or ' error' in out or 'Error' in out or 'passed' not in out:
            rec['status'] = 'killed-by-tests'
            return rec
        rec['status'] = 'survived'
        rec['ran'] = []
        for c in (ORDER[f] if checks_all else ORDER[f][:8]):
            env = dict(os.environ, PYHAM_REPO=W, VERIF_SEED=os.environ.get('VERIF_SEED', '0'), PYTHONDONTWRITEBYTECODE='1',
                       VERIF_EVIDENCE_DIR=os.path.join(SCRATCH, 'ev%d' % k), VERIF_WORK=os.path.join(SCRATCH, 'work%d' % k), VERIF_REPLAY_DIR=os.path.join(SCRATCH, 'work%d' % k), VERIF_TIMEOUT='600')
            os.makedirs(env['VERIF_WORK'], exist_ok=True)
            rc, out = sh('./check %s --no-build' % c, cwd=V, env=env, timeout=700)
            rec['ran'].append(c)
            line = [l for l in out.split('\n') if l.startswith('VIOLATION')]
            if rc == 1 and line:
                rec['status'] = 'caught'
                rec['by'] = c
                rec['nfi'] = line[0].endswith('no-failing-input-found')
                break
            if rc == 2:
                rec.setdefault('infra', []).append(c)
        return rec
    finally:
        shutil.rmtree(W, ignore_errors=True)
        shutil.rmtree(os.path.join(SCRATCH, 'ev%d' % k), ignore_errors=True)
        shutil.rmtree(os.path.join(SCRATCH, 'work%d' % k), ignore_errors=True)

def main():
    ap = argparse.ArgumentParser()
    ap.add_argument('cmd')
    ap.add_argument('--jobs', type=int, default=12)
    ap.add_argument('--files', default=','.join(FILES))
    ap.add_argument('--limit', type=int, default=0)
    ap.add_argument('--stride', type=int, default=1)
    ap.add_argument('--out', default=os.path.join(V, '.work', 'pymut.json'))
    ap.add_argument('--retry', default=None, help='re-evaluate only the survivors listed in this result file')
    ap.add_argument('--all-checks', action='store_true')
    ap.add_argument('--match', default=None, help='only mutants whose "file what" contains one of these |-separated substrings')
    ap.add_argument('--checks', default=None, help='comma-separated list of checks to run instead of the per-file order')
    a = ap.parse_args()
    files = a.files.split(',')
    muts = all_mutants(files)
    if a.cmd == 'list':
        from collections import Counter
        print(Counter(f for f, _ in muts)); print(Counter(p[1] for _, p in muts)); print(len(muts))
        return
    if a.retry:
        prev = json.load(open(a.retry))
        want = {(r['file'], r['what']) for r in prev['results'] if r['status'] == 'survived'}
        muts = [(f, p) for f, p in muts if (f, p[3]) in want]
    if a.match:
        keys = a.match.split('|')
        muts = [(f, p) for f, p in muts if any(k in (f + ' ' + p[3]) for k in keys)]
    if a.checks:
        for f in ORDER:
            ORDER[f] = a.checks.split(',')
    muts = muts[::a.stride]
    if a.limit:
        muts = muts[:a.limit]
    trees = {f: ast.parse(open(os.path.join(REPO, 'pyham', f)).read()) for f in files}
    for t in trees.values():
        _mark_skips(t)
    os.makedirs(SCRATCH, exist_ok=True)
    t0 = time.time()
    results = []
    import queue
    slots = queue.Queue()
    for k in range(a.jobs):
        slots.put(k)
    def work(m):
        k = slots.get()
        try:
            return evaluate(k, m[0], m[1], trees, a.all_checks or bool(a.retry) or bool(a.checks))
        finally:
            slots.put(k)
    with ThreadPoolExecutor(a.jobs) as ex:
        for n, r in enumerate(ex.map(work, muts)):
            results.append(r)
            print('%4d/%d %-16s %-16s %-8s %s' % (n + 1, len(muts), r['file'], r['status'], r.get('by', ''), r['what']), flush=True)
            if (n + 1) % 25 == 0:
                json.dump(dict(results=results), open(a.out, 'w'), indent=1)
    from collections import Counter
    summ = Counter(r['status'] for r in results)
    json.dump(dict(summary=summ, wall_s=round(time.time() - t0), repo_head=sh('git -C %s rev-parse --short HEAD' % REPO)[1].strip(),
                   results=results), open(a.out, 'w'), indent=1)
    print(dict(summ), 'wall %.0fs' % (time.time() - t0))
    shutil.rmtree(SCRATCH, ignore_errors=True)

if __name__ == '__main__':
    main()
