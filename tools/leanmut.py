#!/usr/bin/env python3
"""leanmut.py -- mutation of the LEAN MODEL to measure the tie from the other side.

The theorems are about the model; only the correspondence run ties the model to pyham.  If the model were wrong somewhere
(a flipped comparison, an off-by-one, a dropped negation), would the correspondence run notice?  For every mutant of a
definition in lean/PyhamModel/Model/*.lean a driver is built from the mutated model (the proofs are NOT rebuilt: the witness
datasets are baked into the mutant driver as literal lines) and the quick checks are run against the unchanged pyham with
VERIF_DRIVER pointing at it.  A mutant is

  * invalid    -- the mutated model does not compile,
  * noticed    -- some check reports a correspondence mismatch (exit 1, ... no-failing-input-found) or a false hypothesis
                  echo / encode echo (exit 2),
  * unnoticed  -- every check passes: an equivalent mutant (totalisation branches, unreachable defaults, definitions used
                  by theorems only) or a part of the model the correspondence run does not exercise.

  tools/leanmut.py list
  tools/leanmut.py run [--jobs 4] [--files Parser.lean,...] [--stride N] [--out FILE]

Scratch copies live under /tmp/leanmut and are removed at the end.  Nothing here stands in for a theorem.
"""
import os, re, sys, json, shutil, subprocess, time, argparse, queue
from concurrent.futures import ThreadPoolExecutor

V = os.path.dirname(os.path.dirname(os.path.abspath(__file__)))
LEAN = os.path.join(V, 'lean')
SCRATCH = os.environ.get('LEANMUT_SCRATCH', '/tmp/leanmut')
FILES = ['Parser.lean', 'Mapper.lean', 'Profile.lean', 'Nav.lean', 'Iham.lean', 'Tree.lean', 'Lookup.lean', 'Session.lean',
         'Agg.lean', 'Oma.lean', 'Newick.lean', 'Input.lean', 'History.lean', 'Spell.lean', 'WF.lean', 'Realises.lean', 'Sax.lean']
ALL = ['C%02d' % i for i in range(1, 21)]
ORDER = {
    'Parser.lean': ['C03', 'C02', 'C01', 'C20', 'C11', 'C04', 'C19', 'C14'],
    'Mapper.lean': ['C05', 'C06', 'C08', 'C07', 'C09', 'C17', 'C10'],
    'Profile.lean': ['C09', 'C10', 'C17', 'C13'],
    'Nav.lean': ['C16', 'C17'],
    'Iham.lean': ['C12', 'C17'],
    'Tree.lean': ['C18', 'C15', 'C03', 'C04', 'C13', 'C08', 'C12'],
    'Lookup.lean': ['C15', 'C17', 'C18'],
    'Session.lean': ['C17'],
    'Agg.lean': ['C08', 'C09', 'C12'],
    'Oma.lean': ['C20', 'C15', 'C04'],
    'Newick.lean': ['C18'],
    'Input.lean': ['C03', 'C19', 'C15', 'C01'],
    'History.lean': ['C06', 'C09', 'C03', 'C02', 'C14', 'C19'],
    'Spell.lean': ['C12'],
    'WF.lean': ['C02', 'C04', 'C03'],
    'Realises.lean': ['C03', 'C02'],
    'Sax.lean': ['C11', 'C03', 'C20', 'C01'],
}

RULES = [
    (r'&&', '||'), (r'\|\|', '&&'),
    (r'==', '!='), (r'!=', '=='),
    (r' < ', ' ≤ '), (r' ≤ ', ' < '), (r' > ', ' ≥ '), (r' ≥ ', ' > '),
    (r'\+ 1\b', '+ 0'), (r'\+ 1\b', '+ 2'), (r'- 1\b', '- 0'),
    (r'\btrue\b', 'false'), (r'\bfalse\b', 'true'),
    (r'\.isSome\b', '.isNone'), (r'\.isNone\b', '.isSome'),
    (r'\.any\b', '.all'), (r'\.all\b', '.any'),
    (r'\bmax\b', 'min'), (r'\bmin\b', 'max'),
    (r'\.tail\b', ''), (r'\.reverse\b', ''),
    (r'!(?=[A-Za-z(])', ''),
    (r'\.head\?', '.getLast?'), (r'\.getLast\?', '.head?'),
    (r'\bsome\b(?= [a-z(])', 'Option.some <| id <|'),      # (no-op guard: removed below)
]
RULES = RULES[:-1]

def strip_comments_mask(src):
    """mask[i] = True where src[i] is code (not inside /- -/ or after --) and not inside a string literal"""
    mask = [True] * len(src)
    for m in re.finditer(r'/-.*?-/', src, flags=re.S):
        for i in range(m.start(), m.end()):
            mask[i] = False
    for m in re.finditer(r'--[^\n]*', src):
        if mask[m.start()]:
            for i in range(m.start(), m.end()):
                mask[i] = False
    for m in re.finditer(r'"(?:[^"\\\n]|\\.)*"', src):
        if mask[m.start()]:
            for i in range(m.start(), m.end()):
                mask[i] = False
    return mask

def mutants(files):
    out = []
    for f in files:
        src = open(os.path.join(LEAN, 'PyhamModel', 'Model', f)).read()
        mask = strip_comments_mask(src)
        for pat, rep in RULES:
            for m in re.finditer(pat, src):
                if not all(mask[m.start():m.end()]):
                    continue
                line_start = src.rfind('\n', 0, m.start()) + 1
                line = src[line_start:src.find('\n', m.start())]
                if re.match(r'\s*(theorem|lemma|example|instance|deriving|import|open|namespace|end|structure|inductive|abbrev .*: Prop)', line):
                    continue
                ln = src.count('\n', 0, m.start()) + 1
                out.append(dict(file=f, pos=m.start(), end=m.end(), rep=rep, line=ln,
                                what='L%d %r -> %r in: %s' % (ln, m.group(0), rep, line.strip()[:90])))
    return out

def sh(cmd, cwd=None, env=None, timeout=3000):
    try:
        p = subprocess.run(cmd, shell=True, cwd=cwd, env=env, stdout=subprocess.PIPE, stderr=subprocess.STDOUT, text=True, timeout=timeout)
        return p.returncode, p.stdout
    except subprocess.TimeoutExpired:
        return 124, 'timeout'

def prepare_base():
    """a copy of the Lean project whose driver does not import the proofs: witness datasets baked in as literal lines"""
    base = os.path.join(SCRATCH, 'base')
    shutil.rmtree(base, ignore_errors=True)
    os.makedirs(SCRATCH, exist_ok=True)
    shutil.copytree(LEAN, base, symlinks=True)
    drv = os.path.join(LEAN, '.lake', 'build', 'bin', 'driver')
    p = subprocess.run([drv], input='(witnesses)\n', stdout=subprocess.PIPE, text=True)
    lines = [l for l in p.stdout.split('\n') if l]
    assert lines and lines[-1].startswith('W\tend'), 'driver did not print the witness datasets'
    def lean_str(s):
        return '"' + s.replace('\\', '\\\\').replace('"', '\\"').replace('\t', '\\t') + '"'
    d = open(os.path.join(base, 'Driver.lean')).read()
    d = d.replace('import PyhamModel.Witness\n', '')
    i = d.index('def sxDataset'); j = d.index('def runCase')
    d = d[:i] + 'def witnessLines : Array String :=\n  #[' + ',\n    '.join(lean_str(l) for l in lines) + ']\n\n' + d[j:]
    open(os.path.join(base, 'Driver.lean'), 'w').write(d)
    # the library target would rebuild every proof: only the driver is built
    rc, out = sh('lake build driver 2>&1 | tail -5', cwd=base)
    assert os.path.exists(os.path.join(base, '.lake', 'build', 'bin', 'driver')), out
    # sanity: the proof-free driver answers like the real one
    rc, out = sh('cd %s && VERIF_DRIVER=%s ./check C03 --no-build | tail -1' % (V, os.path.join(base, '.lake', 'build', 'bin', 'driver')),
                 env=dict(os.environ, VERIF_EVIDENCE_DIR=os.path.join(SCRATCH, 'ev-base'), VERIF_REPLAY_DIR=os.path.join(SCRATCH, 'ev-base')))
    assert 'exit 0' in out, 'proof-free driver differs from the real one: ' + out
    return base

def evaluate(k, m, all_checks):
    W = os.path.join(SCRATCH, 'w%d' % k)
    path = os.path.join(W, 'PyhamModel', 'Model', m['file'])
    orig = open(os.path.join(LEAN, 'PyhamModel', 'Model', m['file'])).read()
    rec = dict(file=m['file'], what=m['what'])
    try:
        open(path, 'w').write(orig[:m['pos']] + m['rep'] + orig[m['end']:])
        t0 = time.time()
        rc, out = sh('lake build driver 2>&1 | tail -15', cwd=W, timeout=1500)
        rec['build_s'] = round(time.time() - t0)
        if 'error' in out or 'rror:' in out or rc != 0 and 'Build completed' not in out:
            rec['status'] = 'invalid'; rec['err'] = out[-300:]
            return rec
        drv = os.path.join(W, '.lake', 'build', 'bin', 'driver')
        rec['status'] = 'unnoticed'; rec['ran'] = []
        order = ORDER.get(m['file'], []) + ([c for c in ALL if c not in ORDER.get(m['file'], [])] if all_checks else [])
        for c in order:
            env = dict(os.environ, VERIF_DRIVER=drv, VERIF_SEED=os.environ.get('VERIF_SEED', '0'), VERIF_TIMEOUT='600',
                       VERIF_EVIDENCE_DIR=os.path.join(SCRATCH, 'ev%d' % k), VERIF_WORK=os.path.join(SCRATCH, 'work%d' % k),
                       VERIF_REPLAY_DIR=os.path.join(SCRATCH, 'work%d' % k))
            os.makedirs(env['VERIF_WORK'], exist_ok=True)
            rc, out = sh('./check %s --no-build' % c, cwd=V, env=env, timeout=700)
            rec['ran'].append(c)
            if rc in (1, 2):
                rec['status'] = 'noticed'; rec['by'] = c
                rec['how'] = 'mismatch' if rc == 1 else 'echo/infra'
                if rc == 1 and 'no-failing-input-found' not in out:
                    rec['how'] = 'ORACLE-FAILURE(!)'       # would mean an oracle depends on the model: must never happen
                break
        return rec
    finally:
        open(path, 'w').write(orig)
        shutil.rmtree(os.path.join(SCRATCH, 'ev%d' % k), ignore_errors=True)
        shutil.rmtree(os.path.join(SCRATCH, 'work%d' % k), ignore_errors=True)

def main():
    ap = argparse.ArgumentParser()
    ap.add_argument('cmd')
    ap.add_argument('--jobs', type=int, default=4)
    ap.add_argument('--files', default=','.join(FILES))
    ap.add_argument('--stride', type=int, default=1)
    ap.add_argument('--limit', type=int, default=0)
    ap.add_argument('--all-checks', action='store_true')
    ap.add_argument('--out', default=os.path.join(V, '.work', 'leanmut.json'))
    a = ap.parse_args()
    ms = mutants(a.files.split(','))
    if a.cmd == 'list':
        import collections
        print(collections.Counter(m['file'] for m in ms)); print(len(ms))
        for m in ms[:: max(1, len(ms) // 25)]:
            print(m['file'], m['what'])
        return
    ms = ms[::a.stride]
    if a.limit:
        ms = ms[:a.limit]
    t0 = time.time()
    base = prepare_base()
    for k in range(a.jobs):
        W = os.path.join(SCRATCH, 'w%d' % k)
        shutil.rmtree(W, ignore_errors=True)
        shutil.copytree(base, W, symlinks=True)
    slots = queue.Queue()
    for k in range(a.jobs):
        slots.put(k)
    def work(m):
        k = slots.get()
        try:
            return evaluate(k, m, a.all_checks)
        finally:
            slots.put(k)
    results = []
    with ThreadPoolExecutor(a.jobs) as ex:
        for n, r in enumerate(ex.map(work, ms)):
            results.append(r)
            print('%4d/%d %-14s %-10s %-5s %s' % (n + 1, len(ms), r['file'], r['status'], r.get('by', ''), r['what']), flush=True)
            if (n + 1) % 20 == 0:
                json.dump(dict(results=results), open(a.out, 'w'), indent=1)
    import collections
    summ = collections.Counter(r['status'] for r in results)
    json.dump(dict(summary=summ, wall_s=round(time.time() - t0), results=results), open(a.out, 'w'), indent=1)
    print(dict(summ), 'wall %.0fs' % (time.time() - t0))
    shutil.rmtree(SCRATCH, ignore_errors=True)

if __name__ == '__main__':
    main()
