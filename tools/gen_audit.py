#!/usr/bin/env python3
"""regenerate lean/PyhamModel/Audit.lean from theorems.json"""
import json, os
V = os.path.dirname(os.path.dirname(os.path.abspath(__file__)))
t = json.load(open(os.path.join(V, 'theorems.json')))
names = sorted({th['name'] for v in t.values() for th in v['theorems']})
open(os.path.join(V, 'lean', 'PyhamModel', 'Audit.lean'), 'w').write(
    "/- generated from /verif/theorems.json: axioms of every property theorem -/\nimport PyhamModel.Props\nimport PyhamModel.Witness\n"
    + "".join("#print axioms %s\n" % n for n in names))
print(len(names), 'theorems')
