#!/usr/bin/env python3
"""evaluate the seeded changes under /verif/seeded/<id>/ (or a staging dir): apply to a scratch worktree of /repo,
confirm tests pass + demo fails with / passes without, run the named checks with PYHAM_REPO, record in meta.json"""
import json, os, subprocess, sys, shutil
V = os.path.dirname(os.path.dirname(os.path.abspath(__file__)))
def sh(cmd, cwd=None, env=None):
    p = subprocess.run(cmd, shell=True, cwd=cwd, env=env, stdout=subprocess.PIPE, stderr=subprocess.STDOUT, text=True)
    return p.returncode, p.stdout
def evaluate(sid, src, checks, seeds=(0,)):
    W = '/tmp/seedwt_%s' % sid
    sh('git -C /repo worktree remove --force %s' % W)
    rc, out = sh('git -C /repo worktree add -q --detach %s HEAD' % W)
    assert rc == 0, out
    res = {}
    try:
        patch = os.path.join(src, 'patch.diff')
        rc, _ = sh('/venv/bin/python %s %s' % (os.path.join(src, 'demo.py'), W), cwd=W, env=dict(os.environ, PYTHONPATH=W))
        res['demo_exit_clean'] = rc
        rc, out = sh('git apply %s' % patch, cwd=W)
        res['patch_applies'] = rc == 0
        if rc != 0:
            return res
        rc, _ = sh('/venv/bin/python %s %s' % (os.path.join(src, 'demo.py'), W), cwd=W, env=dict(os.environ, PYTHONPATH=W))
        res['demo_exit_changed'] = rc
        rc, out = sh('/venv/bin/python -m pytest -q -p no:cacheprovider --timeout=900 2>&1 | tail -1', cwd=W)
        res['tests'] = out.strip()
        det = {}
        for c in checks:
            for s in seeds:
                env = dict(os.environ, PYHAM_REPO=W, VERIF_SEED=str(s), VERIF_EVIDENCE_DIR=os.path.join(V, '.work', 'seed-evidence'))
                rc, out = sh('./check %s --no-build' % c, cwd=V, env=env)
                line = [l for l in out.split('\n') if l.startswith('VIOLATION')]
                det['%s@seed%d' % (c, s)] = dict(exit=rc, violation=line[0] if line else None)
        res['checks'] = det
    finally:
        sh('git -C /repo worktree remove --force %s' % W)
    return res
if __name__ == '__main__':
    sid, src = sys.argv[1], sys.argv[2]
    checks = sys.argv[3:]
    print(json.dumps(evaluate(sid, src, checks), indent=1))
