#!/bin/sh
# offline build of the Lean library (all proofs are checked here), the driver and the audit
set -e
cd "$(dirname "$0")/lean"
lake build
lake env lean PyhamModel/Audit.lean > /dev/null
cd ..
/venv/bin/python -m compileall -q harness
mkdir -p evidence replays .work
