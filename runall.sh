#!/bin/sh
# runall.sh [seed...] : every quick check under the given seeds (default 0), in parallel; prints non-zero exits
cd "$(dirname "$0")"
seeds="${@:-0}"
for s in $seeds; do
  for p in C01 C02 C03 C04 C05 C06 C07 C08 C09 C10 C11 C12 C13 C14 C15 C16 C17 C18 C19 C20; do
    ( VERIF_SEED=$s ./check $p --no-build > .work/out.$p.$s 2>&1; echo "$p seed=$s exit=$? $(tail -1 .work/out.$p.$s | cut -c1-150)" ) &
  done
  wait
done
