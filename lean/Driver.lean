/-
  Line-protocol driver: one case per input line (an s-expression), tagged canonical lines out.
  Imports the model and (for the `(witnesses)` line) the kernel-checked witness datasets of
  `PyhamModel/Witness.lean`; everything is core Lean, so it links as a `lean_exe`.
-/
import PyhamModel.Model.Tree
import PyhamModel.Model.Input
import PyhamModel.Model.Parser
import PyhamModel.Model.Mapper
import PyhamModel.Model.Profile
import PyhamModel.Model.Nav
import PyhamModel.Model.Iham
import PyhamModel.Model.History
import PyhamModel.Model.WF
import PyhamModel.Model.Realises
import PyhamModel.Model.Spell
import PyhamModel.Model.Agg
import PyhamModel.Model.Session
import PyhamModel.Model.Oma
import PyhamModel.Model.Newick
import PyhamModel.Model.Sax
import PyhamModel.Witness
open Pyham

/-! ### s-expressions -/

inductive SExp where
  | atom (s : String)
  | str (s : String)
  | list (xs : List SExp)
deriving Inhabited, Repr

partial def lexStr (cs : List Char) (acc : List Char) : String × List Char :=
  match cs with
  | [] => (String.ofList acc.reverse, [])
  | '\\' :: c :: r => lexStr r (c :: acc)
  | '"' :: r => (String.ofList acc.reverse, r)
  | c :: r => lexStr r (c :: acc)

partial def lexAtom (cs : List Char) (acc : List Char) : String × List Char :=
  match cs with
  | [] => (String.ofList acc.reverse, [])
  | c :: r => if c == ' ' || c == '(' || c == ')' || c == '\n' then (String.ofList acc.reverse, cs) else lexAtom r (c :: acc)

mutual
partial def parseOne (cs : List Char) : Option (SExp × List Char) :=
  match cs with
  | [] => none
  | ' ' :: r => parseOne r
  | '\n' :: r => parseOne r
  | '(' :: r => parseList r []
  | ')' :: _ => none
  | '"' :: r => let (s, r) := lexStr r []; some (.str s, r)
  | _ => let (s, r) := lexAtom cs []; some (.atom s, r)
partial def parseList (cs : List Char) (acc : List SExp) : Option (SExp × List Char) :=
  match cs with
  | [] => none
  | ' ' :: r => parseList r acc
  | '\n' :: r => parseList r acc
  | ')' :: r => some (.list acc.reverse, r)
  | _ => match parseOne cs with
    | some (e, r) => parseList r (e :: acc)
    | none => none
end

/-! ### decoding -/

def optS : SExp → Option String
  | .str s => some s
  | _ => none

partial def decTree : SExp → STree
  | .list (.atom "n" :: .str nm :: ks) => .node nm (ks.map decTree)
  | _ => .node "?" []

def decTaxon : SExp → Taxon
  | .list xs => (xs.filterMap fun | .atom s => s.toNat? | _ => none).reverse    -- written root-first
  | _ => []

partial def decElem : SExp → Elem
  | .list [.atom "ref", .str i] => .ref i none
  | .list [.atom "ref", .str i, .str l] => .ref i (some l)
  | .list [.atom "score", .str i, .str v] => .score i v
  | .list [.atom "prop", .str n, .str v] => .prop n v
  | .list (.atom "og" :: h :: o :: its) => .og (optS h) (optS o) (its.map decElem)
  | .list (.atom "pg" :: o :: its) => .pg (optS o) (its.map decElem)
  | _ => .prop "?" "?"

def decGene : SExp → GeneDecl
  | .list (.atom "gene" :: .str i :: xs) =>
    { id := i, xrefs := xs.filterMap fun | .list [.str k, .str v] => some (k, v) | _ => none }
  | _ => { id := "?", xrefs := [] }

def decSpecies : SExp → Species
  | .list (.atom "sp" :: .str n :: gs) => { name := n, genes := gs.map decGene }
  | _ => { name := "?", genes := [] }

def strs (xs : List SExp) : List String := xs.filterMap optS

mutual
partial def decSL : SExp → SL
  | .list [.atom "g", .str i] => .gene i none
  | .list [.atom "g", .str i, .str l] => .gene i (some l)
  | .list (.atom "grp" :: .atom w :: h :: .atom lab :: subs) =>
    .grp (w == "1") (optS h) (lab == "1") (subs.map decSub)
  | _ => .gene "?" none
partial def decSub : SExp → Sub
  | .list [.atom "one", .atom i, l] => .one i.toNat! (decSL l)
  | .list (.atom "dup" :: .atom i :: o :: cs) => .dup i.toNat! (optS o) (cs.map decSL)
  | .list [.atom "ann", e] => .ann (decElem e)
  | _ => .ann (.prop "?" "?")
end

/-! ### canonical rendering -/

def sortS (xs : List String) : List String := (xs.toArray.qsort (· < ·)).toList

def taxS (t : Taxon) : String := "r" ++ String.join (t.reverse.map fun i => "." ++ toString i)

def nodeKeyS (n : Node) : String := taxS n.tx ++ ":" ++ ",".intercalate (sortS n.leaves)

def flagS (d : Option Nat) : String := if d.isSome then "+" else "-"

def osS : Option String → String
  | some s => "'" ++ s ++ "'"
  | none => "None"

partial def forestS : Node → String
  | .gene i t d _ => "G[" ++ i ++ "@" ++ taxS t ++ " " ++ flagS d ++ "]"
  | .hog _ t d ks ds =>
    let kidS := sortS (ks.map forestS)
    let dupS := sortS (ds.map fun r =>
      "D(" ++ taxS r.mrca ++ ":" ++ "|".intercalate (sortS (r.members.map fun k =>
        match findKey k ks with
        | some n => nodeKeyS n
        | none => "?")) ++ ")")
    "H[" ++ taxS t ++ " " ++ flagS d ++ " {" ++ " ".intercalate kidS ++ "} <" ++ " ".intercalate dupS ++ ">]"

def kvS (xs : List (String × String)) : String :=
  ",".intercalate (sortS (xs.map fun e => e.1 ++ "=" ++ e.2))

def keysS (ns : List Node) : String := ";".intercalate (sortS (ns.map nodeKeyS))

def onS : Option Nat → String
  | some n => toString n
  | none => "N"

def featS (f : Feat) : String :=
  taxS f.tx ++ "=" ++ ",".intercalate [toString f.nbr, onS f.dupl, onS f.lost, onS f.gain, onS f.retained,
    onS f.duplication, onS f.nbrEvents]

def hmapS (H : Ham) (m : HMap) : String :=
  "|".intercalate [
    taxS m.anc ++ ">" ++ taxS m.desc,
    "G=" ++ keysS m.gain,
    "R=" ++ ";".intercalate (sortS (m.retained.map fun e => nodeKeyS e.1 ++ ">" ++ nodeKeyS e.2)),
    "D=" ++ ";".intercalate (sortS (m.dupl.map fun e => nodeKeyS e.1 ++ ">" ++ "+".intercalate (sortS (e.2.map nodeKeyS)))),
    "L=" ++ keysS m.loss,
    "n=" ++ toString m.ndup,
    "c=" ++ (if m.consistent H then "1" else "0")]

def upmapS (m : HMap) : String :=
  taxS m.anc ++ ">" ++ taxS m.desc ++ "|" ++ ";".intercalate (sortS (m.up.map fun e =>
    nodeKeyS e.1 ++ ">" ++ (match e.2.1 with | some x => nodeKeyS x | none => "-") ++ "/" ++
      (if e.2.1.isSome then (if e.2.2 then "1" else "0") else "x")))

partial def elemS : Elem → String
  | .ref i _ => "ref(" ++ i ++ ")"
  | .score i v => "score(" ++ i ++ "=" ++ v ++ ")"
  | .prop n v => "prop(" ++ n ++ "=" ++ v ++ ")"
  | .og h _ its => "og[" ++ osS h ++ "](" ++ " ".intercalate (sortS (its.map elemS)) ++ ")"
  | .pg _ its => "pg(" ++ " ".intercalate (sortS (its.map elemS)) ++ ")"

partial def elemRaw : Elem → String
  | .ref i l => "(ref " ++ i ++ (match l with | some x => " " ++ x | none => "") ++ ")"
  | .score i v => "(score " ++ i ++ " " ++ v ++ ")"
  | .prop n v => "(prop " ++ n ++ " " ++ v ++ ")"
  | .og h o its => "(og " ++ osS h ++ " " ++ osS o ++ String.join (its.map fun e => " " ++ elemRaw e) ++ ")"
  | .pg o its => "(pg " ++ osS o ++ String.join (its.map fun e => " " ++ elemRaw e) ++ ")"

/-! ### per-case output -/

structure OutBuf where
  cid : String
  lines : Array String := #[]

def OutBuf.put (o : OutBuf) (tag payload : String) : OutBuf :=
  { o with lines := o.lines.push (o.cid ++ "\t" ++ tag ++ "\t" ++ payload) }

def allHogLocs (H : Ham) : List Loc := H.allLocs.filter fun l => !l.node.isGene

def regKeyS (H : Ham) (k : Key) : String :=
  match k with
  | .g i => "g:" ++ i
  | .h u =>
    match H.allLocs.find? (fun l => l.node.key == .h u) with
    | some l => nodeKeyS l.node
    | none => "orphan"

def nonEmptyTaxa (H : Ham) : List Taxon := H.tree.allTaxa.filter fun t => H.genomeSize t > 0

def emitLoad (pfx : String) (H : Ham) (o : OutBuf) : OutBuf := Id.run do
  let mut o := o
  let singles := H.singletons.map Node.key
  -- the listing of extant genes is a dictionary keyed by id: of several declarations of one id the LAST one is listed
  -- (the same record `Ham.geneById` returns); the genome gene lists below keep every declaration
  let mut rest := H.genes
  for g in H.genes do
    rest := rest.drop 1
    if !(rest.any (·.id == g.id)) then
      o := o.put (pfx ++ "genes") (g.id ++ "|" ++ g.species ++ "|" ++ taxS g.tx ++ "|" ++
        (if singles.contains (.g g.id) then "1" else "0") ++ "|" ++ kvS g.xrefs)
  for (hid, n) in H.tops do
    o := o.put (pfx ++ "members") (osS hid ++ "=" ++ ",".intercalate (sortS n.leaves))
    o := o.put (pfx ++ "forest") (osS hid ++ "=" ++ forestS n)
  for t in nonEmptyTaxa H do
    if H.tree.isLeafAt t then
      o := o.put (pfx ++ "genomes") (taxS t ++ "=" ++ ";".intercalate (sortS ((H.genes.filter (·.tx == t)).map fun g => "g:" ++ g.id)))
    else
      o := o.put (pfx ++ "genomes") (taxS t ++ "=" ++ ";".intercalate (sortS ((H.reg.filter (·.1 == t)).map fun e => regKeyS H e.2)))
      o := o.put (pfx ++ "agname") (taxS t ++ "=" ++ (H.tree.nameAt H.naming t).getD "?")
  return o

def emitAnn (H : Ham) (o : OutBuf) : OutBuf := Id.run do
  let mut o := o
  for l in H.allLocs do
    match l.node with
    | .hog info _ _ _ _ =>
      if info.synth then o := o.put "syn" (nodeKeyS l.node)
      else o := o.put "ann" (nodeKeyS l.node ++ "|" ++ osS info.hid ++ "|" ++ osS info.og ++ "|" ++ kvS info.scores ++ "|" ++ kvS info.props)
    | .gene i _ _ loft => o := o.put "loft" (i ++ "=" ++ osS loft)
  return o

def emitNav (H : Ham) (o : OutBuf) : OutBuf := Id.run do
  let mut o := o
  for l in allHogLocs H do
    let n := l.node
    o := o.put "nav" (nodeKeyS n ++ "|genes=" ++ ",".intercalate (sortS n.leaves) ++
      "|bysp=" ++ ";".intercalate (sortS ((clusterBySpecies n).map fun e => taxS e.1 ++ ":" ++ ",".intercalate (sortS e.2))) ++
      "|hogs=" ++ keysS n.hogs ++ "|levels=" ++ ",".intercalate (sortS ((descLevels n).map taxS)) ++
      "|top=" ++ nodeKeyS (topOf l))
  for t in nonEmptyTaxa H do
    if !H.tree.isLeafAt t then
      o := o.put "aclust" (taxS t ++ "|" ++ ";".intercalate (sortS ((ancestralClustering H t).map fun e =>
        nodeKeyS e.1 ++ "=" ++ ",".intercalate (sortS e.2))))
  return o

def emitProfiles (H : Ham) (o : OutBuf) : OutBuf := Id.run do
  let mut o := o
  o := o.put "tpfull" (" ".intercalate ((profileFull H).map featS))
  o := o.put "tpjson" (" ".intercalate (((profileFullJson H).read []).map fun e =>
    taxS e.1 ++ "=" ++ toString e.2.1 ++ "," ++ (match e.2.2 with
      | none => "false"
      | some (r, du, g, l, dn) => ",".intercalate [onS r, onS du, onS g, onS l, onS dn])))
  for (hid, n) in H.tops do
    o := o.put "tphog" (osS hid ++ "|" ++ " ".intercalate ((profileHog H n).map featS))
  return o

def emitIham (T : STree) (nm : Naming) (H : Ham) (o : OutBuf) : OutBuf := Id.run do
  let mut o := o
  for l in allHogLocs H do
    let n := l.node
    let ex := ihamExport H n
    o := o.put "ixml" (nodeKeyS n ++ "|" ++ " ".intercalate (sortS (ex.groups.map elemS)))
    o := o.put "idecl" (nodeKeyS n ++ "|" ++ ";".intercalate (sortS (ex.species.map fun s =>
      s.name ++ ":" ++ ",".intercalate (sortS (s.genes.map fun g => g.id ++ "/" ++ kvS g.xrefs)))))
    o := o.put "ifam" (nodeKeyS n ++ "|" ++ ";".intercalate (sortS ((famData H n).map fun r => r.id ++ "/" ++ r.species ++ "/" ++ osS r.protId)))
    -- the exporter's spelling as a history: export = its encoding; well-formed; recoverable; realised by n
    let sp := spell false false n
    o := o.put "ispell" (nodeKeyS n ++ "|" ++
      (if " ".intercalate (sortS ((encode T nm n.tx sp).map elemS)) == " ".intercalate (sortS (ex.groups.map elemS)) then "1" else "0") ++
      (if String.join ((encode T nm n.tx sp).map elemRaw) == String.join (ex.groups.map elemRaw) then "1" else "0") ++
      (if wfh T n.tx sp then "1" else "0") ++ (if recoverable n.tx sp then "1" else "0") ++
      (if realisesB n.tx sp (stripNode n) then "1" else "0"))
    if n.kids.length ≥ 2 then
      match load T nm ex with
      | .error e => o := o.put "irt" (nodeKeyS n ++ "|err:" ++ e.toStr)
      | .ok H2 => o := o.put "irt" (nodeKeyS n ++ "|" ++ " ".intercalate (sortS (H2.tops.map fun p => forestS p.2)))
  return o

def emitXref (H : Ham) (o : OutBuf) : OutBuf := Id.run do
  let mut o := o
  let vals := dedup (H.genes.flatMap fun g => g.xrefs.map (·.2))
  for v in vals do
    o := o.put "xref" (v ++ "=" ++ ",".intercalate ((H.genes.filter fun g => g.xrefs.any (·.2 == v)).flatMap fun g =>
      (g.xrefs.filter (·.2 == v)).map fun _ => g.id))
  return o

/-- canonical rendering of a named tree: (name child child ...) -/
partial def treeS : STree → String
  | .node n ks => "(" ++ "\"" ++ n ++ "\"" ++ String.join (ks.map fun k => " " ++ treeS k) ++ ")"

def emitTree (T : STree) (nm : Naming) (o : OutBuf) : OutBuf := Id.run do
  let mut o := o
  if !T.namesOk nm then
    return o.put "txcheck" "err:KeyError"
  for t in T.allTaxa do
    o := o.put "txname" (taxS t ++ "=" ++ (T.nameAt nm t).getD "?" ++ "|d=" ++ toString t.length ++ "|leaf=" ++ (if T.isLeafAt t then "1" else "0"))
    for a in ancestors t do
      o := o.put "txpath" (taxS t ++ ">" ++ taxS a ++ "=" ++ ",".intercalate ((pathUp t a).map taxS))
  o := o.put "txnewick" (T.newick nm)
  for t in T.internalTaxa do
    match T.sub t with
    | some s => o := o.put "txsub" (taxS t ++ "=" ++ s.newick nm)
    | none => pure ()
  return o

/-! ### sessions (C17) and lookups (C15) -/

def keyOfS (H : Ham) (k : String) : Key :=
  match H.allLocs.find? (fun l => nodeKeyS l.node == k) with
  | some l => l.node.key
  | none => .h 0

def decOp (H : Ham) : SExp → Option Op
  | .list [.atom "v", a, d] => some (.vertical (decTaxon a) (decTaxon d))
  | .list [.atom "l", a, d] => some (.lateral (decTaxon a) (decTaxon d))
  | .list [.atom "tp"] => some .profileFull
  | .list [.atom "tph", .str k] => some (.profileHog (keyOfS H k))
  | .list [.atom "iham", .str k] => some (.iham (keyOfS H k))
  | .list [.atom "clust", t] => some (.clustering (decTaxon t))
  | .list [.atom "gene", .str i] => some (.geneById i)
  | .list [.atom "genes", .str k] => some (.descGenes (keyOfS H k))
  | _ => none

def errS {α} (f : α → String) : Except Err α → String
  | .ok x => f x
  | .error e => "err:" ++ e.toStr

def outS (H : Ham) : Pyham.Out → String
  | .hmap r => errS (fun m => "vmap " ++ hmapS H m) r
  | .lmap r => errS (fun m => "lmap anc=" ++ taxS m.anc ++ "|" ++ " # ".intercalate (sortS (m.maps.map fun e => hmapS H e.2))) r
  | .feats r => errS (fun fs => "feats " ++ " ".intercalate (fs.map featS)) r
  | .export r => errS (fun ex => "iham " ++ " ".intercalate (sortS (ex.groups.map elemS)) ++ "|" ++
      ";".intercalate (sortS (ex.species.map fun s => s.name ++ ":" ++ ",".intercalate (sortS (s.genes.map (·.id)))))) r
  | .clust r => "clust " ++ ";".intercalate (sortS (r.map fun e => nodeKeyS e.1 ++ "=" ++ ",".intercalate (sortS e.2)))
  | .gene r => errS (fun g => "gene " ++ g.id ++ " " ++ g.species) r
  | .ids r => errS (fun ids => "genes " ++ ",".intercalate (sortS ids)) r

def decFilter (xs : List SExp) : Filter :=
  xs.foldl (fun f x => match x with
    | .list (.atom "hog" :: r) => { f with hogIds := strs r }
    | .list (.atom "ext" :: r) => { f with extIds := strs r }
    | .list (.atom "int" :: r) => { f with intIds := strs r }
    | _ => f) {}

def decEv : SExp → Option Pyham.Sax.Ev
  | .list [.atom "og", h, o] => some (.ogStart (optS h) (optS o))
  | .list [.atom "/og"] => some .ogEnd
  | .list [.atom "pg", o] => some (.pgStart (optS o))
  | .list [.atom "/pg"] => some .pgEnd
  | .list [.atom "ref", .str i] => some (.ref i none)
  | .list [.atom "ref", .str i, .str l] => some (.ref i (some l))
  | .list [.atom "score", .str i, .str v] => some (.score i v)
  | .list [.atom "prop", .str n, .str v] => some (.prop n v)
  | _ => none

def decDocEv : SExp → Option Pyham.Sax.DocEv
  | .list [.atom "sp", .str n] => some (.spStart n)
  | .list (.atom "gene" :: .str i :: vals) => some (.gene { id := i, xrefs := (strs vals).map fun v => ("x", v) })
  | .list [.atom "/sp"] => some .spEnd
  | e => (decEv e).map .grp

def obsS (b : Pyham.Sax.Obs) : String :=
  toString b.depth ++ "," ++ (if b.skipping then "1" else "0") ++ "," ++ (match b.inPG with | some k => toString k | none => "-") ++ "," ++ toString b.nframes ++ ":" ++
    "|".intercalate (b.frames.map fun f => toString f.1 ++ "/" ++ toString f.2.1 ++ "/" ++ toString f.2.2)

def runQuery (T : STree) (nm : Naming) (inp : Input) (H? : Option Ham) (q : SExp) (o : OutBuf) : OutBuf :=
  match q, H? with
  | .list [.atom "v", a, d], some H =>
    match vertical H (decTaxon a) (decTaxon d) with
    | .ok m => (o.put "vmap" (hmapS H m)).put "upmap" (upmapS m)
    | .error e => o.put "verr" (taxS (decTaxon a) ++ "," ++ taxS (decTaxon d) ++ "=" ++ e.toStr)
  | .list [.atom "l", a, d], some H =>
    match lateral H (decTaxon a) (decTaxon d) with
    | .ok m =>
      let o := o.put "lmap" (taxS (decTaxon a) ++ "," ++ taxS (decTaxon d) ++ "|anc=" ++ taxS m.anc ++ "|" ++
        " # ".intercalate (sortS (m.maps.map fun e => hmapS H e.2)))
      o.put "lagg" (taxS (decTaxon a) ++ "," ++ taxS (decTaxon d) ++
        "|lost=" ++ ";".intercalate (sortS (m.aggLost.map fun e => nodeKeyS e.1 ++ "@" ++ "+".intercalate (sortS (e.2.map taxS)))) ++
        "|gained=" ++ ";".intercalate (sortS (m.aggGained.map fun e => taxS e.1 ++ "@" ++ "+".intercalate (sortS (e.2.map nodeKeyS)))) ++
        "|ret=" ++ ";".intercalate (sortS (m.aggRetained.map fun e => nodeKeyS e.1 ++ "@" ++ "+".intercalate (sortS (e.2.map fun r => taxS r.1 ++ ">" ++ nodeKeyS r.2)))) ++
        "|dup=" ++ ";".intercalate (sortS (m.aggDuplicated.map fun e => nodeKeyS e.1 ++ "@" ++ "+".intercalate (sortS (e.2.map fun r => taxS r.1 ++ ">" ++ ",".intercalate (sortS (r.2.map nodeKeyS)))))))
    | .error e => o.put "lerr" (taxS (decTaxon a) ++ "," ++ taxS (decTaxon d) ++ "=" ++ e.toStr)
  | .list [.atom "atlevel", .str k, g], some H =>
    match H.allLocs.find? (fun l => nodeKeyS l.node == k) with
    | some l =>
      match getAtLevel l (decTaxon g) with
      | .ok r => o.put "atlevel" (k ++ "@" ++ taxS (decTaxon g) ++ "=" ++ keysS r)
      | .error e => o.put "atlevel" (k ++ "@" ++ taxS (decTaxon g) ++ "=err:" ++ e.toStr)
    | none => o.put "atlevel" (k ++ "@" ++ taxS (decTaxon g) ++ "=nokey")
  | .list (.atom "session" :: ops), some H =>
    let ops' := ops.filterMap (decOp H)
    let fin := run (SState.init H) ops'
    let outs := fin.2
    let o := (List.zip (List.range outs.length) outs).foldl (fun o e => o.put "session" (toString e.1 ++ ":" ++ outS H e.2)) o
    -- the taxa that carry a genome after the call sequence (get_list_extant_genomes + get_list_ancestral_genomes)
    o.put "listing" (",".intercalate (sortS ((dedup fin.1.listing).map taxS)))
  | .list [.atom "lookup", .atom kind, .str k], some H =>
    let r := match kind with
      | "gene" => errS (fun (g : GeneRec) => g.id ++ "@" ++ g.species) (H.geneById k)
      | "xref" => errS (fun (ids : List String) => ",".intercalate ids) (H.genesByExternalId k)
      | "hog" => errS (fun (n : Node) => nodeKeyS n) (H.hogById k)
      | "hogbygene" => errS (fun (n : Node) => nodeKeyS n) (H.hogByGene k)
      | "extant" => errS taxS (H.extantGenomeByName k)
      | "ancestral" => errS taxS (H.ancestralGenomeByName k)
      | "taxon" => errS taxS (H.taxonByName k)
      | _ => "?"
    o.put "lookup" (kind ++ ":" ++ k ++ "=" ++ r)
  | .list (.atom "mrcaset" :: ts), some H =>
    let tx := ts.map decTaxon
    o.put "lookup" ("mrcaset:" ++ ",".intercalate (sortS (tx.map taxS)) ++ "=" ++ errS taxS (H.ancestralGenomeByMrca tx))
  | .list (.atom "filter" :: .atom k :: r), _ =>
    let pfx := "F" ++ k ++ "."
    match loadFiltered T nm inp (decFilter r) with
    | .error e => o.put (pfx ++ "load") ("err:" ++ e.toStr)
    | .ok Hf => emitLoad pfx Hf (o.put (pfx ++ "load") "ok")
  | .list [.atom "tphog", .str k], some H =>
    -- per-family profile of an arbitrary HOG of the analysis (not only top-level ones)
    match H.allLocs.find? (fun l => nodeKeyS l.node == k) with
    | some l => o.put "tphogsub" (k ++ "|" ++ " ".intercalate ((profileHog H l.node).map featS))
    | none => o.put "tphogsub" (k ++ "|nokey")
  | .list [.atom "parse", .str txt], _ =>
    -- the model's Newick READER on a text written by pyham (compared with ete3's reading of the same text)
    o.put "txparse" (txt ++ " => " ++ (match parseNewick txt with | some t => treeS t | none => "none"))
  | .list (.atom "sax" :: flt :: keep :: evs), _ =>
    -- the calls the XML library really made to pyham's parser object, replayed through the stack machine of Model/Sax.lean;
    -- the harness compares the state after every call with what it read off the parser object (lock step), and the events
    -- with the event stream the model derives from the abstract syntax (`saxev`)
    let fl : HogFilter := match flt with | .list (.atom "ids" :: r) => some (strs r) | _ => none
    let keepG : String → Bool := match keep with | .list (.atom "ids" :: r) => (strs r).contains | _ => fun _ => true
    let events := evs.filterMap decEv
    let devents := evs.filterMap decDocEv
    if evs.any (fun | .atom "doc" => true | _ => false) then
      -- document-level trace: the <species> / <gene> calls are part of the recorded stream (in the order of the file)
      let r := Pyham.Sax.dstates T nm keepG fl devents {}
      let cells := (List.zip devents r.1).map fun (e, d) =>
        match e with
        | .grp _ => obsS d.ms.obs
        | _ => "S" ++ (if d.cur.isNone then "1" else "0") ++ "," ++ toString (dedup (d.genes.map (·.id))).length
      let o := o.put "saxtr" (";".intercalate cells ++ "#" ++ (match r.2 with | none => "ok" | some e => "err:" ++ e.toStr))
      let mine := Pyham.Sax.eventsL inp.groups
      let decl := devents.filterMap fun | .spStart n => some ("sp:" ++ n) | .gene g => some ("g:" ++ g.id) | .spEnd => some "/sp" | .grp _ => none
      let declMine := (Pyham.Sax.spEvents inp.species).filterMap fun | .spStart n => some ("sp:" ++ n) | .gene g => some ("g:" ++ g.id) | .spEnd => some "/sp" | .grp _ => none
      -- (species sections written after the groups section come later in the stream than in the case's list: compared as multisets)
      o.put "saxev" (if (events == mine || (r.2.isSome && events.isPrefixOf mine)) && (r.2.isSome || sortS decl == sortS declMine) then "1" else "0")
    else
    match declareSpecies T nm keepG inp.species [] with
    | .error e => o.put "saxtr" ("species:" ++ e.toStr)
    | .ok genes =>
      let env : Env := { T := T, nm := nm, geneTx := genes.reverse.map fun g => (g.id, g.tx) }
      let r := Pyham.Sax.trace env fl events {}
      let o := o.put "saxtr" (";".intercalate (r.1.map obsS) ++ "#" ++ (match r.2 with | none => "ok" | some e => "err:" ++ e.toStr))
      let mine := Pyham.Sax.eventsL inp.groups
      o.put "saxev" (if events == mine || (r.2.isSome && events.isPrefixOf mine) then "1" else "0")
  | .list (.atom "saxf" :: hq :: eq :: iq :: evs), _ =>
    -- the calls made to the FIRST-pass parser object of a filtered load, replayed through Sax.fstep
    let f := decFilter [hq, eq, iq]
    let devents := evs.filterMap decDocEv
    -- (the <gene> calls are in the recorded stream, in the order of the file: a species section written after the groups
    -- section selects its genes after the groups were read)
    let r := if evs.any (fun | .atom "doc" => true | _ => false) then Pyham.Sax.fdtrace f devents { gids := [] }
             else Pyham.Sax.ftrace f (evs.filterMap decEv) { gids := filterGenes f inp.species }
    o.put "saxftr" (";".intercalate (r.1.map fun b => toString b.1 ++ "," ++ toString b.2.1 ++ "," ++ toString b.2.2.1 ++ "," ++
        toString b.2.2.2.1 ++ "," ++ (if b.2.2.2.2 then "1" else "0")) ++ "#" ++ (match r.2 with | none => "ok" | some e => "err:" ++ e.toStr))
  | .list [.atom "oma"], _ =>
    -- the same file loaded with species_resolve_mode="OMA"
    match loadOMA T nm inp with
    | .error e => o.put "oma.load" ("err:" ++ e.toStr)
    | .ok Ho => emitLoad "oma." Ho (o.put "oma.load" "ok")
  | _, _ => o

def findField (name : String) (xs : List SExp) : List SExp :=
  match xs.find? (fun | .list (.atom n :: _) => n == name | _ => false) with
  | some (.list (_ :: r)) => r
  | _ => []


/-! ### the witness datasets of `PyhamModel/Witness.lean`, printed as case lines

  `(witnesses)` on the input makes the driver print, for every dataset that is PROVED consistent in
  `Witness.lean`, the case s-expression (tree, naming, species, groups = `D.file`, histories = `D.fams`);
  the harness parses it back, writes the orthoXML, loads it with pyham and runs it like a generated case. -/

def sxQ (s : String) : String :=
  "\"" ++ String.join (s.toList.map fun c => if c == '"' || c == '\\' then "\\" ++ c.toString else c.toString) ++ "\""
def sxQo : Option String → String
  | none => "nil"
  | some s => sxQ s
partial def sxTree : STree → String
  | .node n ks => "(n " ++ sxQ n ++ String.join (ks.map fun k => " " ++ sxTree k) ++ ")"
def sxTax (p : Taxon) : String := "(" ++ " ".intercalate (p.reverse.map toString) ++ ")"
partial def sxElem : Elem → String
  | .ref i l => "(ref " ++ sxQ i ++ (match l with | some x => " " ++ sxQ x | none => "") ++ ")"
  | .score i v => "(score " ++ sxQ i ++ " " ++ sxQ v ++ ")"
  | .prop n v => "(prop " ++ sxQ n ++ " " ++ sxQ v ++ ")"
  | .og h o its => "(og " ++ sxQo h ++ " " ++ sxQo o ++ String.join (its.map fun e => " " ++ sxElem e) ++ ")"
  | .pg o its => "(pg " ++ sxQo o ++ String.join (its.map fun e => " " ++ sxElem e) ++ ")"
mutual
partial def sxSL : SL → String
  | .gene i l => "(g " ++ sxQ i ++ (match l with | some x => " " ++ sxQ x | none => "") ++ ")"
  | .grp w h lab subs => "(grp " ++ (if w then "1" else "0") ++ " " ++ sxQo h ++ " " ++ (if lab then "1" else "0") ++
      String.join (subs.map fun s => " " ++ sxSub s) ++ ")"
partial def sxSub : Sub → String
  | .one i l => "(one " ++ toString i ++ " " ++ sxSL l ++ ")"
  | .dup i o cs => "(dup " ++ toString i ++ " " ++ sxQo o ++ String.join (cs.map fun c => " " ++ sxSL c) ++ ")"
  | .ann e => "(ann " ++ sxElem e ++ ")"
end
def sxDataset (name : String) (D : Dataset) : String :=
  "(case " ++ sxQ name ++ " (tree " ++ sxTree D.T ++ ") (naming " ++ (match D.nm with | .own => "own" | .synth => "synth") ++
  ") (species" ++ String.join (D.file.species.map fun s => " (sp " ++ sxQ s.name ++
      String.join (s.genes.map fun g => " (gene " ++ sxQ g.id ++ String.join (g.xrefs.map fun kv => " (" ++ sxQ kv.1 ++ " " ++ sxQ kv.2 ++ ")") ++ ")") ++ ")") ++
  ") (groups" ++ String.join (D.file.groups.map fun e => " " ++ sxElem e) ++
  ") (histories" ++ String.join (D.fams.map fun f => " (" ++ sxTax f.1 ++ " " ++ sxSL f.2 ++ ")") ++ "))"

def witnessLines : Array String :=
  #["W\twcase\t" ++ sxDataset "simpleEx" Pyham.Witness.simpleEx, "W\twcase\t" ++ sxDataset "elided" Pyham.Witness.elided, "W\tend\t"]

def runCase (e : SExp) : Array String :=
  match e with
  | .list [.atom "witnesses"] => witnessLines
  | .list (.atom "case" :: .str cid :: fields) =>
    let T := match findField "tree" fields with | [t] => decTree t | _ => .node "?" []
    let nm := match findField "naming" fields with | [.atom "own"] => Naming.own | _ => Naming.synth
    let inp : Input := { species := (findField "species" fields).map decSpecies,
                         groups := (findField "groups" fields).map decElem }
    let want := (findField "emit" fields).filterMap fun | .atom s => some s | _ => none
    let queries := findField "queries" fields
    let o : OutBuf := { cid := cid }
    let o := if want.contains "tree" then emitTree T nm o else o
    -- spelled histories: echo of the encoding and of the hypotheses of the theorems
    let o := (findField "histories" fields).foldl (fun o h =>
      match h with
      | .list [t, l] =>
        let sl := decSL l
        let p := decTaxon t
        ((o.put "enc" (String.join ((encode T nm p sl).map elemRaw))).put "wfh"
          ((if wfh T p sl then "1" else "0") ++ (if recoverable p sl then "1" else "0"))).put "truth" (forestS (truth T nm p 0 none sl))
      | _ => o) o
    -- what the HISTORIES say about every branch (copies placed on it by duplication events, events x (copies - 1)):
    -- computed from the histories alone, compared by the harness with the numbers of pyham's whole-dataset tree profile
    let hs : List (Taxon × SL) := (findField "histories" fields).filterMap fun h =>
      match h with
      | .list [t, l] => some (decTaxon t, decSL l)
      | _ => none
    let o := if want.contains "profiles" && !hs.isEmpty then
        T.allTaxa.foldl (fun o t =>
          if t.isEmpty then o else
          o.put "hdup" (taxS t ++ "=" ++ toString ((hs.map fun f => copiesInto t f.1 f.2).sum) ++ "," ++
            toString ((hs.map fun f => copiesInto t f.1 f.2 - eventsInto t f.1 f.2).sum))) o
      else o
    -- ... and what the SPECIES SECTIONS and the histories say about every species node: declared genes, and families that
    -- start there + declared genes that no family references (theorem C09_leaf_profile_from_dataset)
    let o := if want.contains "profiles" && !hs.isEmpty then
        T.leafTaxa.foldl (fun o t =>
          if t.isEmpty then o else
          o.put "hleaf" (taxS t ++ "=" ++ toString (declaredAtL T nm t inp.species).length ++ "," ++
            toString ((hs.filter fun f => f.1 == t).length + (unreferencedAtL T nm t inp.species hs).length))) o
      else o
    let (o, H?) := match load T nm inp with
      | .error err => (o.put "load" ("err:" ++ err.toStr), none)
      | .ok H =>
        let o := o.put "load" "ok"
        let o := o.put "wf" ((if H.wf then "1" else "0") ++ (if H.regExact then "1" else "0") ++ (if H.sizesExact then "1" else "0"))
        -- the level / event / flag clauses of C02 without the paralog discipline (used on files outside the history domain)
        let o := o.put "wflit" (if H.tops.all (fun p => p.2.aligned && p.2.eventsOk H.tree && p.2.dup.isNone && !p.2.isGene) then "1" else "0")
        let o := emitLoad "" H o
        -- the loaded family realises its history (C03), evaluated by the executable checker
        let o := (findField "histories" fields).foldl (fun o h =>
          match h with
          | .list [t, l] =>
            let sl := decSL l
            let hid := match sl with | .grp _ hid _ _ => hid | _ => none
            match H.tops.find? (·.1 == hid) with
            | some p => o.put "real" (if realisesB (decTaxon t) sl p.2 then "1" else "0")
            | none => o.put "real" "missing"
          | _ => o) o
        let o := if want.contains "ann" then emitAnn H o else o
        let o := if want.contains "nav" then emitNav H o else o
        let o := if want.contains "profiles" then emitProfiles H o else o
        let o := if want.contains "iham" then emitIham T nm H o else o
        let o := if want.contains "xref" then emitXref H o else o
        (o, some H)
    let o := queries.foldl (fun o q => runQuery T nm inp H? q o) o
    -- what the HISTORIES say about the number of gained genes of every queried vertical comparison whose descendant is an
    -- ancestral node: lineages at d of the families that start strictly below a (theorem C06_gained_count_is_the_history)
    let o := if hs.isEmpty || H?.isNone then o else queries.foldl (fun (o : OutBuf) (q : SExp) =>
      match q with
      | SExp.list [SExp.atom "v", x, y] =>
        let tx := decTaxon x
        let ty := decTaxon y
        let ta := if tx.length ≤ ty.length then tx else ty
        let td := if tx.length ≤ ty.length then ty else tx
        -- duplicated copies / retained genes of the comparison, from the histories alone (theorem C06_reported_count_is_the_history;
        -- any descendant, species nodes included)
        let o := if ta.isSuffixOf td && ta != td then
            o.put "hrep" (taxS ta ++ ">" ++ taxS td ++ "=" ++
              toString ((hs.map fun (f : Taxon × SL) => reportedAt true ta td f.1 none f.2).sum) ++ "," ++
              toString ((hs.map fun (f : Taxon × SL) => reportedAt false ta td f.1 none f.2).sum))
          else o
        if T.isInternalAt td && ta.isSuffixOf td && ta != td then
          let o := o.put "hgain" (taxS ta ++ ">" ++ taxS td ++ "=" ++
            toString ((hs.map fun (f : Taxon × SL) => if f.1.isSuffixOf ta then 0 else lineagesAt td f.1 f.2).sum))
          -- ... and about the number of LOST genes: lineages at a that are extinct at d (theorem C06_lost_count_is_the_history)
          let lostH := (hs.map fun (f : Taxon × SL) => extinctAt ta td f.1 f.2).sum
          let o := o.put "hlost" (taxS ta ++ ">" ++ taxS td ++ "=" ++ toString lostH)
          -- ... and the number of duplication events (theorem C06_number_duplications_is_the_history)
          o.put "hndup" (taxS ta ++ ">" ++ taxS td ++ "=" ++ toString (
            (hs.map fun (f : Taxon × SL) => reportedAt true ta td f.1 none f.2).sum + lostH +
            (hs.map fun (f : Taxon × SL) => reportedAt false ta td f.1 none f.2).sum -
            (hs.map fun (f : Taxon × SL) => lineagesAt ta f.1 f.2).sum))
        else o
      | SExp.list [SExp.atom "l", x, y] =>
        -- lateral comparison: duplicated copies / retained genes per compared genome, from the histories (theorem
        -- C08_lateral_counts_are_the_history)
        let tx := decTaxon x
        let ty := decTaxon y
        let m := mrca2 tx ty
        [tx, ty].foldl (fun (o : OutBuf) (g : Taxon) =>
          if g == m || tx == ty then o else
          o.put "hlat" (taxS tx ++ "," ++ taxS ty ++ ">" ++ taxS g ++ "=" ++
            toString ((hs.map fun (f : Taxon × SL) => reportedAt true m g f.1 none f.2).sum) ++ "," ++
            toString ((hs.map fun (f : Taxon × SL) => reportedAt false m g f.1 none f.2).sum))) o
      | _ => o) o
    o.lines.push (cid ++ "\tend\t")
  | _ => #["?\tbadcase\t"]

partial def loop (h : IO.FS.Stream) (out : IO.FS.Stream) : IO Unit := do
  let line ← h.getLine
  if line.isEmpty then return ()
  match parseOne line.toList with
  | some (e, _) =>
    for l in runCase e do out.putStrLn l
  | none => out.putStrLn "?\tparse-error\t"
  loop h out

def main : IO Unit := do
  let stdin ← IO.getStdin
  let stdout ← IO.getStdout
  loop stdin stdout
