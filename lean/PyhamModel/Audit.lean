import PyhamModel
