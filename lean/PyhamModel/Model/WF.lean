/-
  Well-formedness of a loaded hierarchy (the predicate of property C02), as decidable Bool-valued
  functions so that the driver can evaluate them on every explored case.
-/
import PyhamModel.Model.Profile
namespace Pyham

/-- `k` lives exactly one level below `t` -/
def oneBelow (t : Taxon) (k : Node) : Bool :=
  match k.tx with
  | [] => false
  | _ :: u => u == t

/-- paralog discipline for one child: an unflagged child is the only child at its taxon -/
def aloneIfUnflagged (kids : List Node) (k : Node) : Bool :=
  k.dup.isSome || (kids.filter fun k' => k'.tx == k.tx).length == 1

/-- one duplication record of a HOG at `t` with children `kids` -/
def dupOk (t : Taxon) (kids : List Node) (r : DupRec) : Bool :=
  r.mrca == t && r.members.length ≥ 2 && r.members.Nodup &&
  r.members.all (fun m => kids.any fun k => k.key == m && k.dup == some r.did) &&
  (match r.members.filterMap (fun m => (findKey m kids).map Node.tx) with
   | [] => false
   | x :: xs => xs.all (· == x))

/-- flag ⇔ membership in exactly one event of the parent; one event per branch -/
def flagOk (kids : List Node) (dups : List DupRec) (k : Node) : Bool :=
  match k.dup with
  | none => dups.all fun r => !r.members.contains k.key
  | some d =>
    (dups.filter fun r => r.members.contains k.key).length == 1 &&
    (dups.filter fun r => r.did == d && r.members.contains k.key).length == 1 &&
    kids.all fun k' => k'.tx != k.tx || k'.dup == some d

mutual
/-- levels: every child exactly one level below its parent (C02, "aligned level by level") -/
def Node.aligned : Node → Bool
  | .gene .. => true
  | .hog _ t _ ks _ => alignedL t ks
def alignedL (t : Taxon) : List Node → Bool
  | [] => true
  | k :: ks => oneBelow t k && k.aligned && alignedL t ks
end

mutual
/-- paralog discipline everywhere in the subtree -/
def Node.disciplined : Node → Bool
  | .gene .. => true
  | .hog _ _ _ ks _ => ks.all (aloneIfUnflagged ks) && disciplinedL ks
def disciplinedL : List Node → Bool
  | [] => true
  | k :: ks => k.disciplined && disciplinedL ks
end

mutual
/-- the remaining clauses of C02: non-empty HOGs, genes at leaves / HOGs at internal nodes,
    events well-formed, flags agree with events -/
def Node.eventsOk (T : STree) : Node → Bool
  | .gene _ t _ _ => T.isLeafAt t
  | .hog _ t _ ks ds =>
    T.isInternalAt t && !ks.isEmpty && ds.all (dupOk t ks) && ks.all (flagOk ks ds) &&
    (ds.map (·.did)).Nodup && eventsOkL T ks
def eventsOkL (T : STree) : List Node → Bool
  | [] => true
  | k :: ks => k.eventsOk T && eventsOkL T ks
end

/-- all object identities of the analysis, families first -/
def Ham.keys (H : Ham) : List Key := H.allLocs.map fun l => l.node.key

/-- the whole predicate `WF` -/
def Ham.wf (H : Ham) : Bool :=
  H.tops.all (fun p => p.2.aligned && p.2.disciplined && p.2.eventsOk H.tree && p.2.dup.isNone && !p.2.isGene) &&
  H.keys.Nodup &&
  (H.genes.map (·.id)).Nodup &&
  H.genes.all (fun g => H.tree.isLeafAt g.tx)

/-- genome gene lists are exact (C04): the registration log at `t` lists exactly the HOGs at `t` -/
def Ham.regExact (H : Ham) : Bool :=
  H.tree.internalTaxa.all fun t =>
    let regd := (H.reg.filter (·.1 == t)).map (·.2)
    let there := ((H.nodesAt t).map fun l => l.node.key)
    regd.Nodup && regd.all there.contains && there.all regd.contains

/-- `len(genome.genes)` is the number of members found by walking the families (C04) -/
def Ham.sizesExact (H : Ham) : Bool :=
  H.tree.allTaxa.all fun t => H.genomeSize t == (H.nodesAt t).length

end Pyham
