/-
  Tree profiles.  Models TreeProfile.compute_tree_profile_full and TreeProfile.computeTP_hog.
-/
import PyhamModel.Model.Mapper
namespace Pyham

/-- the features annotated on one node of a profile; `none` = Python `None` -/
structure Feat where
  tx : Taxon
  nbr : Nat
  dupl : Option Nat := none
  lost : Option Nat := none
  gain : Option Nat := none
  retained : Option Nat := none
  duplication : Option Nat := none
  nbrEvents : Option Nat := none
deriving Repr, Inhabited

/-- `len(genome.genes)`: declared genes of a species, registered HOGs of an ancestral genome -/
def Ham.genomeSize (H : Ham) (t : Taxon) : Nat :=
  if H.tree.isLeafAt t then (H.genes.filter (·.tx == t)).length
  else (H.reg.filter (·.1 == t)).length

/-- `compute_tree_profile_full` for one node -/
def profileFullAt (H : Ham) (t : Taxon) : Feat :=
  match t.up with
  | none => { tx := t, nbr := H.genomeSize t }
  | some u =>
    let m := hogsMap H u t
    let nd := (m.dupl.map (·.2.length)).sum
    { tx := t, nbr := H.genomeSize t, dupl := some nd, lost := some m.loss.length,
      gain := some m.gain.length, retained := some m.retained.length,
      duplication := some m.ndup, nbrEvents := some (m.ndup + m.loss.length + m.gain.length) }

def profileFull (H : Ham) : List Feat := H.tree.allTaxa.map (profileFullAt H)

/-- taxa of the subtree below `root` (inclusive), as taxa of the whole tree -/
def subTaxa (T : STree) (root : Taxon) : List Taxon :=
  T.allTaxa.filter fun t => isAncOrSelf root t

/-- `computeTP_hog`: the level groups are the family's HOGs per internal node and the family's
    genes per species -/
def levelGroup (top : Node) (t : Taxon) : List Node := top.nodes.filter fun n => n.tx == t

def dedupKeys (ks : List Key) : List Key := dedup ks

/-- parents (inside `top`) of the members of `grp` that arose by duplication -/
def dupParents (top : Node) (grp : List Node) : List Key :=
  dedupKeys <| (locs [] top).filterMap fun l =>
    if l.node.dup.isSome && grp.any (·.key == l.node.key) then l.anc.head?.map Node.key else none

def profileHogAt (top : Node) (t : Taxon) : Feat :=
  let grp := levelGroup top t
  if t == top.tx then { tx := t, nbr := grp.length }
  else match t.up with
    | none => { tx := t, nbr := grp.length }
    | some u =>
      let cptDupl := (grp.filter (·.dup.isSome)).length
      let cptIdent := (grp.filter (!·.dup.isSome)).length
      let lost := ((levelGroup top u).filter fun hu => !(hu.kids.any fun c => c.tx == t)).length
      let duplication := cptDupl - (dupParents top grp).length
      { tx := t, nbr := grp.length, dupl := some cptDupl, lost := some lost, gain := none,
        retained := some cptIdent, duplication := some duplication, nbrEvents := some (lost + duplication) }

def profileHog (H : Ham) (top : Node) : List Feat := (subTaxa H.tree top.tx).map (profileHogAt top)

end Pyham
