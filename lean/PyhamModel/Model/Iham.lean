/-
  iHam orthoXML export.  Models iham.OrthoXML_manager (`_add_species_data`, `_add_groups`).
  The export of a HOG is an `Input` again, so it can be fed back to `load`.
-/
import PyhamModel.Model.Nav
namespace Pyham

def optStr : Option String → String
  | some s => s
  | none => "None"                       -- str(None)

mutual
/-- `_visit(hog, parent)`; `pOg` = the XML parent is an orthologGroup.
    `keep` = that orthologGroup was written around a single child.  Returns the elements contributed to the parent. -/
def exportVisit (nameOf : Taxon → String) (pOg : Bool) (keep : Bool) : Node → List Elem
  | .gene i _ _ _ => [.ref i none]
  | .hog info t _ kids dups =>
    let dupMembers := dups.flatMap (·.members)
    let remaining := kids.filter fun k => !dupMembers.contains k.key
    let elide :=
      if kids.length == 1 then pOg && !keep
      else if dups.length ≥ 1 then remaining.isEmpty && dups.length == 1 && pOg && !keep
      else false
    -- the level of a group written around a single child is "one above that child": keep the child
    let keepChild := kids.length == 1 && !elide
    -- one <paralogGroup> per duplication, then the remaining children
    let body := (dups.map fun d => Elem.pg none (exportMembers nameOf d.members kids)) ++ exportKids nameOf true keepChild remaining kids
    if elide then body
    else [.og (some (optStr info.hid)) none (.prop "TaxRange" (nameOf t) :: body)]
/-- children that are members of one duplication, in member order; parent tag = paralogGroup -/
def exportMembers (nameOf : Taxon → String) (mem : List Key) : List Node → List Elem
  | [] => []
  | k :: ks =>
    -- emit `k` at the position(s) it has in `mem`; order inside a paralogGroup is irrelevant
    (if mem.contains k.key then exportVisit nameOf false false k else []) ++ exportMembers nameOf mem ks
def exportKids (nameOf : Taxon → String) (pOg : Bool) (keep : Bool) (sel : List Node) : List Node → List Elem
  | [] => []
  | k :: ks =>
    (if sel.any (·.key == k.key) then exportVisit nameOf pOg keep k else []) ++ exportKids nameOf pOg keep sel ks
end

/-- `_add_species_data` + `_add_groups` -/
def ihamExport (H : Ham) (n : Node) : Input :=
  let nameOf := fun t => (H.tree.nameAt H.naming t).getD ""
  let species := (clusterBySpecies n).map fun e =>
    ({ name := nameOf e.1,
       genes := e.2.map fun g =>
         let protId := ((H.genes.find? (·.id == g)).bind fun r => r.xrefs.lookup "protId")
         { id := g, xrefs := [("protId", optStr protId)] } } : Species)
  { species := species.reverse, groups := exportVisit nameOf false false n }

end Pyham
