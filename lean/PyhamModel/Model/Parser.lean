/-
  The loader.  Models pyham/parsers.py (OrthoXMLParser, FilterOrthoXMLParser),
  ham.py `_add_missing_taxon`, `_get_extant_genome_by_name`, and abstractgene.DuplicationNode.

  The recursion of the model replaces `hog_stack` only (its length is the argument `len`).
  Everything else the streaming parser remembers is threaded explicitly and updated by the same
  rules as the code: `paralog_stack` (depth, node), `in_paralogGroup`, `paralogyNode`.
-/
import PyhamModel.Model.Input
namespace Pyham

structure PFrame where
  depth : Nat
  did : Nat
  size : Nat := 0          -- number of members the DuplicationNode had when this group was opened
deriving Repr, Inhabited

/-- a DuplicationNode while the file is being read -/
structure DupBuild where
  did : Nat
  pgid : Option String
  members : List Key
  mrca : Option Taxon
deriving Repr, Inhabited

structure PS where
  pstack : List PFrame := []          -- head = paralog_stack[-1]
  inPG : Option Nat := none           -- in_paralogGroup
  cur : Option Nat := none            -- paralogyNode
  dstore : List DupBuild := []
  next : Nat := 0                     -- object creation counter (HOGs and DuplicationNodes)
  reg : List (Taxon × Key) := []      -- add_gene calls (ancestral genomes), call order
deriving Repr, Inhabited

/-- an orthologGroup that is still open -/
structure HogBuild where
  info : HogInfo
  dup : Option Nat
  kids : List Node
deriving Repr, Inhabited

structure Env where
  T : STree
  nm : Naming
  geneTx : List (String × Taxon)      -- declared (and loaded) genes with the leaf they live at

def Env.lookupGene (env : Env) (id : String) : Option Taxon := env.geneTx.lookup id

def Env.genomeName (env : Env) (t : Taxon) : Option String := env.T.nameAt env.nm t

/-! ### small helpers on the state -/

def PS.getDup (ps : PS) (d : Nat) : Option DupBuild := ps.dstore.find? (·.did == d)

def PS.modDup (ps : PS) (d : Nat) (f : DupBuild → DupBuild) : PS :=
  { ps with dstore := ps.dstore.map fun b => if b.did == d then f b else b }

def PS.addMember (ps : PS) (d : Nat) (k : Key) : PS :=
  ps.modDup d fun b => { b with members := b.members ++ [k] }

def PS.register (ps : PS) (t : Taxon) (k : Key) : PS := { ps with reg := ps.reg ++ [(t, k)] }

def eraseKey (k : Key) : List Node → List Node
  | [] => []
  | n :: ns => if n.key == k then ns else n :: eraseKey k ns

def findKey (k : Key) (ns : List Node) : Option Node := ns.find? (·.key == k)

/-- python `dict[name] = value` -/
def dictSet (d : List (String × String)) (k v : String) : List (String × String) :=
  if d.any (·.1 == k) then d.map fun e => if e.1 == k then (k, v) else e else d ++ [(k, v)]

/-! ### DuplicationNode.set_MRCA -/

def setMRCA (kids : List Node) (ps : PS) (d : Nat) : Except Err PS :=
  match ps.getDup d with
  | none => .error .unmodelled
  | some b =>
    match b.members.mapM (fun k => (findKey k kids).map Node.tx) with
    | none => .error .unmodelled
    | some taxa =>
      match dedup taxa with
      | [] => .error .index                                    -- list(set())[0]
      | [t] =>
        match t.up with
        | none => .error .attr                                  -- None.features
        | some u => .ok (ps.modDup d fun b => { b with mrca := some u })
      | ts =>
        match (mrca ts).up with
        | none => .error .attr
        | some u => .ok (ps.modDup d fun b => { b with mrca := some u })

/-! ### Ham._add_missing_taxon : wrap `child` into single-child HOGs along `missing` -/

def chainInfo (uid : Nat) (hid : Option String) : HogInfo :=
  { uid := uid, hid := hid, og := none, scores := [], props := [], synth := true }

/-- returns the top of the chain; every new HOG is registered at creation; the adjacency check of
    the code (`ancestral_genome.taxon is not current_child.genome.taxon.up`) is a TypeError. -/
def addMissing (hid : Option String) : Node → List Taxon → PS → Except Err (Node × PS)
  | cur, [], ps => .ok (cur, ps)
  | cur, t :: ts, ps =>
    let uid := ps.next
    let ps := { ps with next := ps.next + 1 }.register t (.h uid)
    if cur.tx.up != some t then .error .type
    else addMissing hid (.hog (chainInfo uid hid) t none [cur] []) ts ps

/-! ### closing an orthologGroup (parsers.py `end()`, lines 188–285) -/

/-- level inferred from the children's genomes; `none` = the TaxRange/collapse case applies -/
inductive Level where
  | at (t : Taxon)
  | collapse
deriving Repr

def inferLevel (env : Env) (hb : HogBuild) : Except Err Level :=
  match dedup (hb.kids.map Node.tx) with
  | [t] =>
    let collapse :=
      match hb.info.props.lookup "TaxRange", env.genomeName t with
      | some v, some n => v == n
      | _, _ => false
    if collapse then .ok .collapse
    else match t.up with
      | none => .error .attr
      | some u => .ok (.at u)
  | [] => .error .value                                          -- "Minimum 2 genomes are required"
  | ts => .ok (.at (mrca ts))

/-- the repair of D4: a group is never younger than the level of a duplication it contains -/
def liftLevel (ps : PS) : List Node → Taxon → Except Err Taxon
  | [], lv => .ok lv
  | k :: ks, lv =>
    match k.dup with
    | none => liftLevel ps ks lv
    | some d =>
      match ps.getDup d with
      | none => .error .unmodelled
      | some b =>
        match b.mrca with
        | none => .error .attr
        | some m => liftLevel ps ks (if isProperAncestor m lv then m else lv)

/-- duplication ids among the children, first occurrence order (`child_by_duplication`) -/
def dupGroups (kids : List Node) : List Nat := dedup (kids.filterMap Node.dup)

structure CloseSt where
  kids : List Node
  dups : List DupRec
  ps : PS

/-- `mrcahog` branch, inner loop: move each flagged child under the new HOG, chaining it up -/
def rehomeUnder (hid : Option String) (mrcaTx : Taxon) :
    List Node → List Node → List Node → PS → Except Err (List Node × List Node × PS)
  | [], kids, mk, ps => .ok (kids, mk, ps)
  | c :: cs, kids, mk, ps => do
    let kids := eraseKey c.key kids
    let (top, ps) ← addMissing (c.chainId hid) (c.setDup none) (pathUp c.tx mrcaTx) ps
    rehomeUnder hid mrcaTx cs kids (mk ++ [top]) ps

/-- direct branch, inner loop: chain each flagged child up to just below the HOG, move it to the
    end of `hog.children`, and let the duplication point at the top of the chain -/
def rehomeDirect (hid : Option String) (level : Taxon) (d : Nat) :
    List Node → List Node → List Key → PS → Except Err (List Node × List Key × PS)
  | [], kids, mem, ps => .ok (kids, mem, ps)
  | c :: cs, kids, mem, ps => do
    let kids := eraseKey c.key kids
    let (top, ps) ← addMissing (c.chainId hid) (c.setDup none) (pathUp c.tx level) ps
    if !mem.contains c.key then .error .value                      -- duplication.remove_child
    else
      let mem := mem.erase c.key ++ [top.key]
      rehomeDirect hid level d cs (kids ++ [top.setDup (some d)]) mem ps

def sameKeys (a b : List Key) : Bool := a.all b.contains && b.all a.contains

def dupStep (hid : Option String) (level : Taxon) (st : CloseSt) (d : Nat) : Except Err CloseSt := do
  let some b := st.ps.getDup d | .error .unmodelled
  let some mrcaTx := b.mrca | .error .attr
  let children := st.kids.filter (·.dup == some d)
  -- the model is faithful only when the event's members are exactly the flagged children
  if !sameKeys b.members (children.map Node.key) then .error .unmodelled
  else if mrcaTx != level then
    let muid := st.ps.next
    let ps := { st.ps with next := st.ps.next + 1 }.register mrcaTx (.h muid)
    let (kids, mk, ps) ← rehomeUnder hid mrcaTx children st.kids [] ps
    let mk := mk.map (Node.setDup (some d))
    let rec_ : DupRec := { did := d, pgid := b.pgid, mrca := mrcaTx, members := mk.map Node.key }
    let mrcahog := Node.hog (chainInfo muid hid) mrcaTx none mk [rec_]
    let ps := ps.modDup d fun b => { b with members := mk.map Node.key }
    .ok { kids := kids ++ [mrcahog], dups := st.dups, ps := ps }
  else
    let (kids, mem, ps) ← rehomeDirect hid level d children st.kids b.members st.ps
    let rec_ : DupRec := { did := d, pgid := b.pgid, mrca := mrcaTx, members := mem }
    let ps := ps.modDup d fun b => { b with members := mem }
    .ok { kids := kids, dups := st.dups ++ [rec_], ps := ps }

def dupSteps (hid : Option String) (level : Taxon) : List Nat → CloseSt → Except Err CloseSt
  | [], st => .ok st
  | d :: ds, st => do
    let st ← dupStep hid level st d
    dupSteps hid level ds st

/-- generic pass: children not exactly one level below are chained up and moved to the end -/
def genericPass (hid : Option String) (level : Taxon) :
    List Node → List Node → PS → Except Err (List Node × PS)
  | [], kids, ps => .ok (kids, ps)
  | c :: cs, kids, ps => do
    let kids := eraseKey c.key kids
    let (top, ps) ← addMissing (c.chainId hid) c (pathUp c.tx level) ps
    genericPass hid level cs (kids ++ [top]) ps

/-- what closing an orthologGroup hands to the enclosing element -/
def closeOg (env : Env) (top : Bool) (hb : HogBuild) (ps : PS) : Except Err (List Node × PS) := do
  match ← inferLevel env hb with
  | .collapse =>
    if top then .error .attr                                      -- hog.parent is None
    else match hb.dup with
      | none => .ok (hb.kids, ps)
      | some d =>
        let some b := ps.getDup d | .error .unmodelled
        if !b.members.contains (.h hb.info.uid) then .error .value
        else
          let mem := b.members.erase (.h hb.info.uid) ++ hb.kids.map Node.key
          let ps := ps.modDup d fun b => { b with members := mem }
          match ps.pstack with
          | [] => .error .index
          | f :: fs =>
            let ps := { ps with pstack := { f with depth := f.depth - 1 } :: fs }
            .ok (hb.kids.map (Node.setDup (some d)), ps)
  | .at lv0 =>
    let level ← liftLevel ps hb.kids lv0
    let ps := ps.register level (.h hb.info.uid)
    let st ← dupSteps hb.info.hid level (dupGroups hb.kids) { kids := hb.kids, dups := [], ps := ps }
    let change := st.kids.filter fun c => c.tx.length != level.length + 1
    let (kids, ps) ← genericPass hb.info.hid level change st.kids st.ps
    .ok ([Node.hog hb.info level hb.dup kids st.dups], ps)

/-! ### elements -/

def newInfo (uid : Nat) (hid og : Option String) : HogInfo :=
  { uid := uid, hid := (match hid with | some i => some i | none => og), og := og,
    scores := [], props := [], synth := false }

def newDup (ps : PS) (pgid : Option String) : Nat × PS :=
  (ps.next, { ps with next := ps.next + 1,
                      dstore := ps.dstore ++ [({ did := ps.next, pgid := pgid, members := [], mrca := none } : DupBuild)] })

def pgOpen (len : Nat) (pgid : Option String) (ps : PS) : PS :=
  let (did, ps) :=
    match ps.pstack with
    | f :: _ => if f.depth == len then (f.did, ps) else newDup ps pgid
    | [] => newDup ps pgid
  let size := match ps.getDup did with | some b => b.members.length | none => 0
  { ps with pstack := { depth := len, did := did, size := size } :: ps.pstack, inPG := some len, cur := some did }

def pgClose (kids : List Node) (ps : PS) : Except Err PS :=
  match ps.pstack with
  | [] => .error .index
  | f :: fs => do
    let some b := ps.getDup f.did | .error .unmodelled
    if b.members.length == f.size then .error .value            -- "empty paralogGroup"
    let ps ← setMRCA kids { ps with pstack := fs } f.did
    match fs with
    | g :: _ => .ok { ps with inPG := some g.depth, cur := some g.did }
    | [] => .ok { ps with inPG := none, cur := none }

mutual
/-- one element inside the open orthologGroup `hb`; `len = len(hog_stack)` -/
def elem (env : Env) (len : Nat) : Elem → HogBuild → PS → Except Err (HogBuild × PS)
  | .ref id loft, hb, ps =>
    match env.lookupGene id with
    | none => .error .key
    | some t =>
      let flag := if ps.inPG == some len then ps.cur else none
      let ps := match flag with | some d => ps.addMember d (.g id) | none => ps
      .ok ({ hb with kids := hb.kids ++ [Node.gene id t flag loft] }, ps)
  | .score id v, hb, ps => .ok ({ hb with info := { hb.info with scores := dictSet hb.info.scores id v } }, ps)
  | .prop n v, hb, ps => .ok ({ hb with info := { hb.info with props := dictSet hb.info.props n v } }, ps)
  | .pg pgid its, hb, ps => do
    let ps := pgOpen len pgid ps
    let (hb, ps) ← elems env len its hb ps
    let ps ← pgClose hb.kids ps
    .ok (hb, ps)
  | .og hid og its, hb, ps => do
    let uid := ps.next
    let ps := { ps with next := ps.next + 1 }
    let flag := if ps.inPG == some len then ps.cur else none
    let ps := match flag with | some d => ps.addMember d (.h uid) | none => ps
    let (nb, ps) ← elems env (len + 1) its { info := newInfo uid hid og, dup := flag, kids := [] } ps
    let (res, ps) ← closeOg env false nb ps
    .ok ({ hb with kids := hb.kids ++ res }, ps)
def elems (env : Env) (len : Nat) : List Elem → HogBuild → PS → Except Err (HogBuild × PS)
  | [], hb, ps => .ok (hb, ps)
  | e :: es, hb, ps => do
    let (hb, ps) ← elem env len e hb ps
    elems env len es hb ps
end

/-- filter of a load: `none` = unfiltered; `some ids` = the top-level ids kept by the first pass -/
abbrev HogFilter := Option (List String)

mutual
/-- one element at the top of <groups> (hog_stack empty); `tops` collects flagged/unflagged families -/
def topElem (env : Env) (flt : HogFilter) : Elem → List Node → PS → Except Err (List Node × PS)
  | .ref id _, _, _ =>
    match env.lookupGene id with
    | none => .error .key
    | some _ => .error .index                                     -- hog_stack[-1]
  | .score _ _, _, _ => .error .index
  | .prop _ _, _, _ => .error .index
  | .pg pgid its, tops, ps => do
    let ps := pgOpen 0 pgid ps
    let (tops, ps) ← topElems env flt its tops ps
    let ps ← pgClose tops ps
    .ok (tops, ps)
  | .og hid og its, tops, ps => do
    let keep ← match flt with
      | none => pure true
      | some ids => match hid with
        | none => throw Err.key                                   -- attrib["id"]
        | some i => pure (ids.contains i)
    if !keep then .ok (tops, ps)
    else
      let uid := ps.next
      let ps := { ps with next := ps.next + 1 }
      let flag := if ps.inPG == some 0 then ps.cur else none
      let ps := match flag with | some d => ps.addMember d (.h uid) | none => ps
      let (nb, ps) ← elems env 1 its { info := newInfo uid hid og, dup := flag, kids := [] } ps
      let (res, ps) ← closeOg env true nb ps
      .ok (tops ++ res, ps)
def topElems (env : Env) (flt : HogFilter) : List Elem → List Node → PS → Except Err (List Node × PS)
  | [], tops, ps => .ok (tops, ps)
  | e :: es, tops, ps => do
    let (tops, ps) ← topElem env flt e tops ps
    topElems env flt es tops ps
end

/-! ### species / gene declarations -/

/-- `_get_extant_genome_by_name` -/
def resolveSpecies (T : STree) (nm : Naming) (name : String) : Except Err Taxon :=
  match T.findByName nm name with
  | [p] => if T.isLeafAt p then .ok p else .error .type
  | _ => .error .key

def declareSpecies (T : STree) (nm : Naming) (keep : String → Bool) :
    List Species → List GeneRec → Except Err (List GeneRec)
  | [], acc => .ok acc
  | s :: ss, acc => do
    let p ← resolveSpecies T nm s.name
    let recs := (s.genes.filter (fun g => keep g.id)).map fun g =>
      ({ id := g.id, species := s.name, tx := p, xrefs := g.xrefs } : GeneRec)
    declareSpecies T nm keep ss (acc ++ recs)

/-- python dict insertion: a later entry with the same key replaces the value, keeps the position -/
def dictPut {β} (d : List (Option String × β)) (k : Option String) (v : β) : List (Option String × β) :=
  if d.any (·.1 == k) then d.map fun e => if e.1 == k then (k, v) else e else d ++ [(k, v)]

def hidOf : Node → Option String
  | .hog info _ _ _ _ => info.hid
  | .gene .. => none

/-! ### first pass of a filtered load (FilterOrthoXMLParser) -/

structure Filter where
  hogIds : List String := []
  extIds : List String := []
  intIds : List String := []
deriving Repr, Inhabited

mutual
def refsOf : Elem → List String
  | .ref id _ => [id]
  | .og _ _ its => refsOfL its
  | .pg _ its => refsOfL its
  | _ => []
def refsOfL : List Elem → List String
  | [] => []
  | e :: es => refsOf e ++ refsOfL es
end

/-- gene ids selected by the <gene> elements -/
def filterGenes (f : Filter) (sp : List Species) : List String :=
  sp.flatMap fun s => s.genes.flatMap fun g =>
    (if !f.intIds.isEmpty && f.intIds.contains g.id then [g.id] else []) ++
    (if !f.extIds.isEmpty then
        ((g.id :: g.xrefs.map (·.2)).filter f.extIds.contains).map (fun _ => g.id)
     else [])

mutual
/-- top-level walk of the first pass: returns (geneUniqueId, hogsId) -/
def filterTop (f : Filter) : Elem → (List String × List String) → Except Err (List String × List String)
  | .og hid _ its, (gids, hids) =>
    match hid with
    | none => .error .key
    | some i =>
      let refs := refsOfL its
      let add := f.hogIds.contains i || refs.any gids.contains
      .ok (if add then (gids ++ refs, hids ++ [i]) else (gids, hids))
  | .pg _ its, acc => filterTops f its acc
  | .ref _ _, acc => .ok acc        -- (the code lets it leak into the next family; such a file is rejected by the second pass)
  | _, acc => .ok acc
def filterTops (f : Filter) : List Elem → (List String × List String) → Except Err (List String × List String)
  | [], acc => .ok acc
  | e :: es, acc => do
    let acc ← filterTop f e acc
    filterTops f es acc
end

/-! ### the whole load -/

def buildHam (T : STree) (nm : Naming) (inp : Input) (keepGene : String → Bool) (flt : HogFilter) :
    Except Err Ham := do
  let genes ← declareSpecies T nm keepGene inp.species []
  -- extant_gene_map is a dict: a repeated id keeps its first position, last declaration wins
  let env : Env := { T := T, nm := nm, geneTx := genes.reverse.map fun g => (g.id, g.tx) }
  let (tops, ps) ← topElems env flt inp.groups [] {}
  let topsD := tops.foldl (fun d n => dictPut d (hidOf n) n) []
  let sp ← inp.species.mapM fun s => (resolveSpecies T nm s.name).map fun p => (s.name, p)
  .ok { tree := T, naming := nm, tops := topsD, genes := genes, species := sp, reg := ps.reg }

def load (T : STree) (nm : Naming) (inp : Input) : Except Err Ham :=
  buildHam T nm inp (fun _ => true) none

def loadFiltered (T : STree) (nm : Naming) (inp : Input) (f : Filter) : Except Err Ham := do
  let (gids, hids) ← filterTops f inp.groups (filterGenes f inp.species, [])
  buildHam T nm inp gids.contains (some hids)

end Pyham
