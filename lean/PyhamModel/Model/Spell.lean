/-
  The spelling the iHam exporter chooses for a HOG, as a spelled history: `spell pOg keep n` mirrors
  `exportVisit` (Model/Iham.lean) -- which groups are written, which are elided, duplications first.
  The export of `n` is the encoding of this history; the round-trip property C12 then follows from the
  refinement theorem, provided the history is well-formed and recoverable -- which is exactly what the
  exporter's elision rule has to guarantee.
-/
import PyhamModel.Model.Iham
import PyhamModel.Model.History
namespace Pyham

def branchOf (k : Node) : Nat := k.tx.headD 0

mutual
def spell (pOg keep : Bool) : Node → SL
  | .gene i _ _ _ => .gene i none
  | .hog info _ _ kids dups =>
    let dupMembers := dups.flatMap (·.members)
    let remaining := kids.filter fun k => !dupMembers.contains k.key
    let elide :=
      if kids.length == 1 then pOg && !keep
      else if dups.length ≥ 1 then remaining.isEmpty && dups.length == 1 && pOg && !keep
      else false
    let keepChild := kids.length == 1 && !elide
    let subs := (dups.map fun d =>
        Sub.dup (match (kids.find? fun k => d.members.contains k.key) with | some k => branchOf k | none => 0) none
          (spellMembers d.members kids)) ++ spellKids true keepChild remaining kids
    if elide then .grp false none false subs
    else .grp true (some (optStr info.hid)) true subs
def spellMembers (mem : List Key) : List Node → List SL
  | [] => []
  | k :: ks => (if mem.contains k.key then [spell false false k] else []) ++ spellMembers mem ks
def spellKids (pOg keep : Bool) (sel : List Node) : List Node → List Sub
  | [] => []
  | k :: ks =>
    (if sel.any (·.key == k.key) then [Sub.one (branchOf k) (spell pOg keep k)] else []) ++ spellKids pOg keep sel ks
end

mutual
/-- forget what the exporter does not write: LOFT ids of genes and ids of paralogGroups -/
def stripNode : Node → Node
  | .gene i t d _ => .gene i t d none
  | .hog info t d kids dups => .hog info t d (stripNodes kids) (dups.map fun r => { r with pgid := none })
def stripNodes : List Node → List Node
  | [] => []
  | k :: ks => stripNode k :: stripNodes ks
end

end Pyham
