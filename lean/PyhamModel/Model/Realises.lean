/-
  "The loaded hierarchy realises the history" -- the relation between a spelled history and a HOG
  that property C03 asks for: one HOG per group (written or not) at its taxon, the lineages of its
  sub-branches as children one level down, one duplication record per duplication with exactly its
  copies as members -- up to the order of children and records and up to object identities.

  `Realises` is the specification (a Prop); `realisesB` is an executable checker used by the driver
  to echo the relation on every explored case.
-/
import PyhamModel.Model.History
namespace Pyham

mutual
def Realises : Taxon → SL → Node → Prop
  | q, .gene id loft, n => ∃ d, n = Node.gene id q d loft
  | q, .grp _ _ _ subs, n =>
    ∃ info d kids dups, n = Node.hog info q d kids dups ∧
      ∃ (plain : List Node) (evs : List (DupRec × List Node)),
        kids.Perm (plain ++ evs.flatMap (·.2)) ∧ dups.Perm (evs.map (·.1)) ∧
        (evs.map (·.1.did)).Nodup ∧ RealisesSubs q subs plain evs
def RealisesSubs : Taxon → List Sub → List Node → List (DupRec × List Node) → Prop
  | _, [], plain, evs => plain = [] ∧ evs = []
  | q, .one i l :: r, plain, evs =>
    ∃ k plain', plain = k :: plain' ∧ k.dup = none ∧ Realises (i :: q) l k ∧ RealisesSubs q r plain' evs
  | q, .dup i pgid cs :: r, plain, evs =>
    ∃ rec ks evs', evs = (rec, ks) :: evs' ∧ rec.mrca = q ∧ rec.pgid = pgid ∧
      rec.members.Perm (ks.map Node.key) ∧ (∀ k ∈ ks, k.dup = some rec.did) ∧
      RealisesCopies (i :: q) cs ks ∧ RealisesSubs q r plain evs'
  | q, .ann _ :: r, plain, evs => RealisesSubs q r plain evs
def RealisesCopies : Taxon → List SL → List Node → Prop
  | _, [], ks => ks = []
  | q, c :: cs, ks => ∃ k ks', ks = k :: ks' ∧ Realises q c k ∧ RealisesCopies q cs ks'
end

/-! ### executable checker (greedy matching; complete when gene ids are distinct) -/

def pickFirst {α} (p : α → Bool) : List α → Option (α × List α)
  | [] => none
  | x :: xs => if p x then some (x, xs) else (pickFirst p xs).map fun r => (r.1, x :: r.2)

mutual
def realisesB : Taxon → SL → Node → Bool
  | q, .gene id loft, .gene id' t _ loft' => id == id' && t == q && loft == loft'
  | _, .gene _ _, .hog .. => false
  | _, .grp .., .gene .. => false
  | q, .grp _ _ _ subs, .hog _ t _ kids dups =>
    t == q && realisesSubsB q subs kids dups && (dups.map (·.did)).Nodup
/-- consumes the children and records that the subs account for; succeeds iff nothing is left -/
def realisesSubsB : Taxon → List Sub → List Node → List DupRec → Bool
  | _, [], kids, dups => kids.isEmpty && dups.isEmpty
  | q, .one i l :: r, kids, dups =>
    match pickFirstRealising (i :: q) l kids kids.length with
    | some rest => realisesSubsB q r rest dups
    | none => false
  | q, .dup i pgid cs :: r, kids, dups =>
    -- the record: the one whose members live at taxon i :: q
    match pickFirst (fun (rc : DupRec) => rc.mrca == q && rc.pgid == pgid &&
        rc.members.any (fun m => kids.any fun k => k.key == m && k.tx == i :: q)) dups with
    | none => false
    | some (rc, dups') =>
      let mine := kids.filter fun k => k.dup == some rc.did
      let rest := kids.filter fun k => k.dup != some rc.did
      mine.all (fun k => rc.members.contains k.key) && rc.members.all (fun m => mine.any (·.key == m)) &&
      rc.members.length == mine.length &&
      realisesCopiesB (i :: q) cs mine && realisesSubsB q r rest dups'
  | q, .ann _ :: r, kids, dups => realisesSubsB q r kids dups
def realisesCopiesB : Taxon → List SL → List Node → Bool
  | _, [], ks => ks.isEmpty
  | q, c :: cs, ks =>
    match pickFirstRealisingAny q c ks ks.length with
    | some rest => realisesCopiesB q cs rest
    | none => false
/-- remove the first UNFLAGGED child that realises `l` at `q` (fuel = number of candidates left) -/
def pickFirstRealising : Taxon → SL → List Node → Nat → Option (List Node)
  | _, _, [], _ => none
  | _, _, _, 0 => none
  | q, l, k :: ks, n + 1 =>
    if k.dup.isNone && realisesB q l k then some ks
    else (pickFirstRealising q l ks n).map fun r => k :: r
def pickFirstRealisingAny : Taxon → SL → List Node → Nat → Option (List Node)
  | _, _, [], _ => none
  | _, _, _, 0 => none
  | q, l, k :: ks, n + 1 =>
    if realisesB q l k then some ks
    else (pickFirstRealisingAny q l ks n).map fun r => k :: r
end

end Pyham
