/-
  The loader as pyham runs it: a STACK MACHINE over the stream of SAX events.

  `parsers.OrthoXMLParser` is an XML-parser *target*: the XML library calls `start(tag, attrib)` and `end(tag)`
  once per element boundary, and the object keeps `hog_stack`, `paralog_stack`, `in_paralogGroup`, `paralogyNode`
  and `skip_this_hog` between the calls.  `Model/Parser.lean` replaces `hog_stack` by structural recursion over
  the element tree; this file keeps it: `step` is a transcription of `start` / `end` for the elements of the
  <groups> section, one event at a time, with the stack explicit (`hstack`, head = `hog_stack[-1]`) and the
  placeholders `0` that skip mode pushes counted by `skip` (`skip_this_hog` = `skip > 0`; skip mode starts with
  an empty stack, so the real stack is then `[0, …, 0]`).

  One deliberate difference, justified here: the code links a new HOG into `hog_stack[-1].children` when the
  group OPENS (`_build_hog`); the machine attaches what the group became when it CLOSES (`closeOg` returns the
  HOG, or -- species-level collapse -- its children).  While a group is open nothing else is appended to its
  parent's children (the parent is not on top of the stack), so the position is the same; in the collapse case
  the code removes the HOG and appends its children at the end, which again is the position at closing time.

  `Lemmas/SaxSim.lean` proves that running the machine over the event stream of a document is the recursive
  loader (`sax_topElems`, `C03_sax_machine_is_loader` in Props.lean), so every theorem about `load` is a theorem
  about the stack machine.  The harness records the calls the XML library really makes to pyham's parser object
  and the state the object is in after each call, and compares them in lock step with `trace` (tag `saxtr`).
-/
import PyhamModel.Model.Parser
namespace Pyham.Sax

/-- the calls the parser target receives inside <groups>; the `end` calls of geneRef / score / property do
    nothing in the code and are not events -/
inductive Ev where
  | ogStart (hid og : Option String)
  | ogEnd
  | pgStart (pgid : Option String)
  | pgEnd
  | ref (id : String) (loft : Option String)
  | score (id value : String)
  | prop (name value : String)
deriving Repr, Inhabited, DecidableEq

mutual
/-- the event stream of an element, document order -/
def events : Elem → List Ev
  | .ref id loft => [.ref id loft]
  | .score id v => [.score id v]
  | .prop n v => [.prop n v]
  | .og hid og its => .ogStart hid og :: (eventsL its ++ [.ogEnd])
  | .pg pgid its => .pgStart pgid :: (eventsL its ++ [.pgEnd])
def eventsL : List Elem → List Ev
  | [] => []
  | e :: es => events e ++ eventsL es
end

/-- the parser object between two calls -/
structure MS where
  hstack : List HogBuild := []        -- open orthologGroups, head = hog_stack[-1]
  skip : Nat := 0                     -- number of placeholders on hog_stack (skip mode)
  tops : List Node := []              -- closed top-level HOGs, closing order
  ps : PS := {}
deriving Repr, Inhabited

/-- `_build_hog` -/
def buildHog (hid og : Option String) (m : MS) : MS :=
  let uid := m.ps.next
  let ps := { m.ps with next := m.ps.next + 1 }
  let flag := if ps.inPG == some m.hstack.length then ps.cur else none
  let ps := match flag with | some d => ps.addMember d (.h uid) | none => ps
  { m with hstack := { info := newInfo uid hid og, dup := flag, kids := [] } :: m.hstack, ps := ps }

/-- one call of `start` / `end` -/
def step (env : Env) (flt : HogFilter) (m : MS) : Ev → Except Err MS
  | .ogStart hid og =>
    if m.skip > 0 then .ok { m with skip := m.skip + 1 }                  -- hog_stack.append(0)
    else match m.hstack, flt with
      | [], some ids =>
        match hid with
        | none => .error .key                                             -- attrib["id"]
        | some i => if ids.contains i then .ok (buildHog hid og m) else .ok { m with skip := 1 }
      | _, _ => .ok (buildHog hid og m)
  | .ogEnd =>
    if m.skip > 0 then .ok { m with skip := m.skip - 1 }                  -- pop; the flag falls with the last one
    else match m.hstack with
      | [] => .error .index                                               -- pop from empty list
      | hb :: rest => do
        let (res, ps) ← closeOg env rest.isEmpty hb m.ps
        match rest with
        | [] => .ok { m with hstack := [], tops := m.tops ++ res, ps := ps }
        | par :: rest' => .ok { m with hstack := { par with kids := par.kids ++ res } :: rest', ps := ps }
  | .pgStart pgid =>
    if m.skip > 0 then .ok m
    else .ok { m with ps := pgOpen m.hstack.length pgid m.ps }
  | .pgEnd =>
    if m.skip > 0 then .ok m
    else do
      let kids := match m.hstack with | [] => m.tops | hb :: _ => hb.kids
      let ps ← pgClose kids m.ps
      .ok { m with ps := ps }
  | .ref id loft =>
    if m.skip > 0 then .ok m
    else match env.lookupGene id with
      | none => .error .key                                               -- extant_gene_map[attrib['id']]
      | some t =>
        match m.hstack with
        | [] => .error .index                                             -- hog_stack[-1]
        | hb :: rest =>
          let flag := if m.ps.inPG == some (rest.length + 1) then m.ps.cur else none
          let ps := match flag with | some d => m.ps.addMember d (.g id) | none => m.ps
          .ok { m with hstack := { hb with kids := hb.kids ++ [Node.gene id t flag loft] } :: rest, ps := ps }
  | .score id v =>
    if m.skip > 0 then .ok m
    else match m.hstack with
      | [] => .error .index
      | hb :: rest => .ok { m with hstack := { hb with info := { hb.info with scores := dictSet hb.info.scores id v } } :: rest }
  | .prop n v =>
    if m.skip > 0 then .ok m
    else match m.hstack with
      | [] => .error .index
      | hb :: rest => .ok { m with hstack := { hb with info := { hb.info with props := dictSet hb.info.props n v } } :: rest }

/-- the whole stream -/
def runEvents (env : Env) (flt : HogFilter) : List Ev → MS → Except Err MS
  | [], m => .ok m
  | e :: es, m => do
    let m ← step env flt m e
    runEvents env flt es m

/-- what the harness reads off the parser object after a call: len(hog_stack), skip_this_hog, in_paralogGroup,
    len(paralog_stack) and, for its innermost eight frames (innermost first), depth, size and the number of children of
    the frame's node -/
structure Obs where
  depth : Nat
  skipping : Bool
  inPG : Option Nat
  nframes : Nat                         -- len(paralog_stack)
  frames : List (Nat × Nat × Nat)       -- the innermost eight
deriving Repr, Inhabited, DecidableEq

def MS.obs (m : MS) : Obs :=
  { depth := m.hstack.length + m.skip, skipping := m.skip > 0, inPG := m.ps.inPG,
    nframes := m.ps.pstack.length,
    frames := (m.ps.pstack.take 8).map fun f =>
      (f.depth, f.size, match m.ps.getDup f.did with | some b => b.members.length | none => 0) }

/-- the observations after every call, and how the run ended -/
def trace (env : Env) (flt : HogFilter) : List Ev → MS → List Obs × Option Err
  | [], _ => ([], none)
  | e :: es, m =>
    match step env flt m e with
    | .error err => ([], some err)
    | .ok m' => let r := trace env flt es m'; (m'.obs :: r.1, r.2)

/-- the load, the way the streaming parser does it -/
def buildHamSax (T : STree) (nm : Naming) (inp : Input) (keepGene : String → Bool) (flt : HogFilter) :
    Except Err Ham := do
  let genes ← declareSpecies T nm keepGene inp.species []
  let env : Env := { T := T, nm := nm, geneTx := genes.reverse.map fun g => (g.id, g.tx) }
  let m ← runEvents env flt (eventsL inp.groups) {}
  let topsD := m.tops.foldl (fun d n => dictPut d (hidOf n) n) []
  let sp ← inp.species.mapM fun s => (resolveSpecies T nm s.name).map fun p => (s.name, p)
  .ok { tree := T, naming := nm, tops := topsD, genes := genes, species := sp, reg := m.ps.reg }

def loadSax (T : STree) (nm : Naming) (inp : Input) : Except Err Ham :=
  buildHamSax T nm inp (fun _ => true) none

def loadFilteredSax (T : STree) (nm : Naming) (inp : Input) (f : Filter) : Except Err Ham := do
  let (gids, hids) ← filterTops f inp.groups (filterGenes f inp.species, [])
  buildHamSax T nm inp gids.contains (some hids)

end Pyham.Sax

/-! ### the first pass of a filtered load (`FilterOrthoXMLParser`) as a machine over the same events -/
namespace Pyham.Sax

/-- the first-pass parser object between two calls -/
structure FS where
  gids : List String                  -- geneUniqueId
  hids : List String := []            -- hogsId
  cur : Option String := none         -- current_hog
  depth : Nat := 0                    -- len(hog_stack)
  refs : List String := []            -- hog_generef
  add : Bool := false                 -- add_this_hog
deriving Repr, Inhabited, DecidableEq

/-- one call of `FilterOrthoXMLParser.start` / `.end` inside <groups> (paralogGroup, score and property calls fall through) -/
def fstep (f : Filter) (s : FS) : Ev → Except Err FS
  | .ref id _ => .ok { s with refs := s.refs ++ [id], add := s.add || s.gids.contains id }
  | .ogStart hid _ =>
    if s.depth == 0 then
      match hid with
      | none => .error .key                                               -- attrib["id"]
      | some i => .ok { s with cur := some i, add := s.add || f.hogIds.contains i, depth := 1 }
    else .ok { s with depth := s.depth + 1 }
  | .ogEnd =>
    if s.depth == 0 then .error .index                                    -- pop from empty list
    else if s.depth == 1 then
      match s.cur with
      | none => .error .unmodelled                                        -- (cannot happen: the group was opened at depth 0)
      | some i =>
        if s.add then .ok { s with gids := s.gids ++ s.refs, hids := s.hids ++ [i], cur := none, depth := 0, refs := [], add := false }
        else .ok { s with cur := none, depth := 0, refs := [], add := false }
    else .ok { s with depth := s.depth - 1 }
  | _ => .ok s

def frun (f : Filter) : List Ev → FS → Except Err FS
  | [], s => .ok s
  | e :: es, s => do
    let s ← fstep f s e
    frun f es s

/-- what the harness reads off the first-pass parser object after a call -/
def FS.obs (s : FS) : Nat × Nat × Nat × Nat × Bool := (s.gids.length, s.hids.length, s.depth, s.refs.length, s.add)

def ftrace (f : Filter) : List Ev → FS → List (Nat × Nat × Nat × Nat × Bool) × Option Err
  | [], _ => ([], none)
  | e :: es, s =>
    match fstep f s e with
    | .error err => ([], some err)
    | .ok s' => let r := ftrace f es s'; (s'.obs :: r.1, r.2)

mutual
/-- no geneRef outside every orthologGroup (such a reference makes the second pass fail: `hog_stack[-1]` on an empty stack) -/
def noTopRef : Elem → Bool
  | .ref _ _ => false
  | .pg _ its => noTopRefL its
  | _ => true
def noTopRefL : List Elem → Bool
  | [] => true
  | e :: es => noTopRef e && noTopRefL es
end

end Pyham.Sax

/-! ### the whole document: <species> sections and <groups> in the order of the file -/
namespace Pyham.Sax

/-- every call that changes the second-pass parser object: species / gene declarations and the calls of the groups section -/
inductive DocEv where
  | spStart (name : String)
  | gene (g : GeneDecl)
  | spEnd
  | grp (e : Ev)
deriving Repr, Inhabited

structure DS where
  cur : Option (String × Taxon) := none          -- current_species
  genes : List GeneRec := []                     -- extant_gene_map, insertion log
  species : List (String × Taxon) := []          -- every <species> element read so far with the leaf it resolved to
  ms : MS := {}
deriving Repr, Inhabited

/-- a geneRef is resolved against the declarations READ SO FAR (later declaration of an id wins) -/
def DS.env (T : STree) (nm : Naming) (d : DS) : Env :=
  { T := T, nm := nm, geneTx := d.genes.reverse.map fun g => (g.id, g.tx) }

def dstep (T : STree) (nm : Naming) (keep : String → Bool) (flt : HogFilter) (d : DS) : DocEv → Except Err DS
  | .spStart name => do
    let p ← resolveSpecies T nm name                                       -- _get_extant_genome_by_name
    .ok { d with cur := some (name, p), species := d.species ++ [(name, p)] }
  | .gene g =>
    match d.cur with
    | none => .error .unmodelled                                            -- a <gene> outside every <species>
    | some (name, p) =>
      if keep g.id then .ok { d with genes := d.genes ++ [({ id := g.id, species := name, tx := p, xrefs := g.xrefs } : GeneRec)] }
      else .ok d
  | .spEnd => .ok { d with cur := none }
  | .grp e => do
    let ms ← step (d.env T nm) flt d.ms e
    .ok { d with ms := ms }

def drun (T : STree) (nm : Naming) (keep : String → Bool) (flt : HogFilter) : List DocEv → DS → Except Err DS
  | [], d => .ok d
  | e :: es, d => do
    let d ← dstep T nm keep flt d e
    drun T nm keep flt es d

def spEvents : List Species → List DocEv
  | [] => []
  | s :: ss => .spStart s.name :: (s.genes.map .gene ++ [.spEnd]) ++ spEvents ss

/-- the states after every successful call, and how the run ended (what the harness compares in lock step) -/
def dstates (T : STree) (nm : Naming) (keep : String → Bool) (flt : HogFilter) : List DocEv → DS → List DS × Option Err
  | [], _ => ([], none)
  | e :: es, d =>
    match dstep T nm keep flt d e with
    | .error err => ([], some err)
    | .ok d' => let r := dstates T nm keep flt es d'; (d' :: r.1, r.2)

/-- the analysis the parser object stands for when the document ends -/
def DS.ham (T : STree) (nm : Naming) (d : DS) : Ham :=
  { tree := T, naming := nm, tops := d.ms.tops.foldl (fun acc n => dictPut acc (hidOf n) n) [],
    genes := d.genes, species := d.species, reg := d.ms.ps.reg }

/-! ### the first pass over the whole document (the <gene> elements select gene ids as they are read) -/

/-- what one <gene> element adds to `geneUniqueId` -/
def geneSel (f : Filter) (g : GeneDecl) : List String :=
  (if !f.intIds.isEmpty && f.intIds.contains g.id then [g.id] else []) ++
  (if !f.extIds.isEmpty then ((g.id :: g.xrefs.map (·.2)).filter f.extIds.contains).map (fun _ => g.id) else [])

def fdstep (f : Filter) (s : FS) : DocEv → Except Err FS
  | .gene g => .ok { s with gids := s.gids ++ geneSel f g }
  | .grp e => fstep f s e
  | _ => .ok s

def fdrun (f : Filter) : List DocEv → FS → Except Err FS
  | [], s => .ok s
  | e :: es, s => do
    let s ← fdstep f s e
    fdrun f es s

def fdtrace (f : Filter) : List DocEv → FS → List (Nat × Nat × Nat × Nat × Bool) × Option Err
  | [], _ => ([], none)
  | e :: es, s =>
    match fdstep f s e with
    | .error err => ([], some err)
    | .ok s' => let r := fdtrace f es s'; (s'.obs :: r.1, r.2)

end Pyham.Sax
