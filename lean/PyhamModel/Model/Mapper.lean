/-
  Vertical / lateral comparison.  Models abstractgene.search_ancestor_hog_in_ancestral_genome,
  mapper.HOGsMap, MapVertical, MapLateral, ham._get_oldest_from_genome_pair.
-/
import PyhamModel.Model.Parser
namespace Pyham

/-- a node together with its ancestors inside its family, nearest first (the `parent` chain) -/
structure Loc where
  node : Node
  anc : List Node
deriving Repr, Inhabited

mutual
def locs (anc : List Node) : Node → List Loc
  | .gene i t d l => [⟨.gene i t d l, anc⟩]
  | .hog info t d ks ds => ⟨.hog info t d ks ds, anc⟩ :: locsL (.hog info t d ks ds :: anc) ks
def locsL (anc : List Node) : List Node → List Loc
  | [] => []
  | k :: ks => locs anc k ++ locsL anc ks
end

/-- genes declared but referenced by no family -/
def Ham.singletons (H : Ham) : List Node :=
  let inFam := H.tops.flatMap fun p => p.2.leaves
  (H.genes.filter fun g => !inFam.contains g.id).map fun g => Node.gene g.id g.tx none none

def Ham.allLocs (H : Ham) : List Loc :=
  (H.tops.flatMap fun p => locs [] p.2) ++ H.singletons.map fun g => ⟨g, []⟩

/-- the members of the genome at taxon `t` -/
def Ham.nodesAt (H : Ham) (t : Taxon) : List Loc := H.allLocs.filter fun l => l.node.tx == t

/-- the `while` loop of `search_ancestor_hog_in_ancestral_genome`: genome test first, flag update second -/
def searchUp (a : Taxon) : Bool → List Node → Option Node × Bool
  | f, [] => (none, f)
  | f, x :: xs => if x.tx == a then (some x, f) else searchUp a (f || x.dup.isSome) xs

def search (a : Taxon) (l : Loc) : Option Node × Bool := searchUp a l.node.dup.isSome l.anc

structure HMap where
  anc : Taxon
  desc : Taxon
  up : List (Node × Option Node × Bool)       -- upMap, descendant-genome order
  gain : List Node
  retained : List (Node × Node)                -- Ho ↦ Hy   (dict: a later Hy overwrites)
  dupl : List (Node × List Node)               -- Ho ↦ [Hy]
  loss : List Node
  ndup : Nat
deriving Repr, Inhabited

def retPut (d : List (Node × Node)) (ho hy : Node) : List (Node × Node) :=
  if d.any (·.1.key == ho.key) then d.map fun e => if e.1.key == ho.key then (e.1, hy) else e
  else d ++ [(ho, hy)]

def dupPut (d : List (Node × List Node)) (ho hy : Node) : List (Node × List Node) :=
  if d.any (·.1.key == ho.key) then d.map fun e => if e.1.key == ho.key then (e.1, e.2 ++ [hy]) else e
  else d ++ [(ho, [hy])]

structure Clusters where
  gain : List Node := []
  retained : List (Node × Node) := []
  dupl : List (Node × List Node) := []
  seen : List Key := []

def clusterStep (c : Clusters) (e : Node × Option Node × Bool) : Clusters :=
  match e with
  | (hy, none, _) => { c with gain := c.gain ++ [hy] }
  | (hy, some ho, true) => { c with dupl := dupPut c.dupl ho hy, seen := c.seen ++ [ho.key] }
  | (hy, some ho, false) => { c with retained := retPut c.retained ho hy, seen := c.seen ++ [ho.key] }

def countDup (d : List (Node × List Node)) : Nat := (d.map fun e => e.2.length - 1).sum

/-- `HOGsMap(ham, ancestor, descendant)` once the pair is ordered -/
def hogsMap (H : Ham) (a d : Taxon) : HMap :=
  let up := (H.nodesAt d).map fun l => let r := search a l; (l.node, r.1, r.2)
  let c := up.foldl clusterStep {}
  let loss := ((H.nodesAt a).map Loc.node).filter fun n => !c.seen.contains n.key
  { anc := a, desc := d, up := up, gain := c.gain, retained := c.retained, dupl := c.dupl,
    loss := loss, ndup := countDup c.dupl }

/-- `_check_consistency_numbers` -/
def HMap.consistent (H : Ham) (m : HMap) : Bool :=
  m.gain.length + m.retained.length + (m.dupl.map (·.2.length)).sum == (H.nodesAt m.desc).length &&
  m.retained.length + m.loss.length + m.dupl.length == (H.nodesAt m.anc).length

/-- `_get_oldest_from_genome_pair` -/
def oldest (g1 g2 : Taxon) : Except Err (Taxon × Taxon) :=
  let m := mrca2 g1 g2
  if g1 == m then .ok (g1, g2) else if g2 == m then .ok (g2, g1) else .error .type

/-- `compare_genomes_vertically` (the pair is a set: argument order cannot matter) -/
def vertical (H : Ham) (g1 g2 : Taxon) : Except Err HMap := do
  if g1 == g2 then .error .index                 -- list(set)[1] on a one-element set
  else
    let (a, d) ← oldest g1 g2
    .ok (hogsMap H a d)

structure LMap where
  anc : Taxon
  maps : List (Taxon × HMap)       -- one per compared genome other than the ancestor
deriving Repr, Inhabited

/-- `compare_genomes_lateral` -/
def lateral (H : Ham) (g1 g2 : Taxon) : Except Err LMap :=
  if g1 == g2 then .error .value                 -- "Minimum 2 genomes are required"
  else
    let a := mrca2 g1 g2
    let desc := [g1, g2].filter (· != a)
    .ok { anc := a, maps := desc.map fun g => (g, hogsMap H a g) }

end Pyham
