/-
  `Realises` strengthened by what property C19 adds: the HOG created for a written group carries
  exactly that group's id, scores and properties (TaxRange label first, then the annotation elements
  in file order, later entries with the same key overwriting); HOGs synthesised for skipped levels
  (and for the level of a duplication) carry none; genes keep their LOFT id.
-/
import PyhamModel.Model.Realises
namespace Pyham

/-- the annotations a HOG must carry, given how its group was written -/
def InfoOk (T : STree) (nm : Naming) (q : Taxon) (w : Bool) (hid : Option String) (label : Bool)
    (subs : List Sub) (info : HogInfo) : Prop :=
  if w then
    info.hid = hid ∧ info.og = none ∧ info.synth = false ∧
    info.scores = scoresOf (annElems subs) ∧
    info.props = propsOf ((if label then [Elem.prop "TaxRange" (nameOrEmpty T nm q)] else []) ++ annElems subs)
  else
    info.synth = true ∧ info.scores = [] ∧ info.props = []

mutual
def RealisesA (T : STree) (nm : Naming) : Taxon → SL → Node → Prop
  | q, .gene id loft, n => ∃ d, n = Node.gene id q d loft
  | q, .grp w hid label subs, n =>
    ∃ info d kids dups, n = Node.hog info q d kids dups ∧ InfoOk T nm q w hid label subs info ∧
      ∃ (plain : List Node) (evs : List (DupRec × List Node)),
        kids.Perm (plain ++ evs.flatMap (·.2)) ∧ dups.Perm (evs.map (·.1)) ∧
        (evs.map (·.1.did)).Nodup ∧ RealisesSubsA T nm q subs plain evs
def RealisesSubsA (T : STree) (nm : Naming) : Taxon → List Sub → List Node → List (DupRec × List Node) → Prop
  | _, [], plain, evs => plain = [] ∧ evs = []
  | q, .one i l :: r, plain, evs =>
    ∃ k plain', plain = k :: plain' ∧ k.dup = none ∧ RealisesA T nm (i :: q) l k ∧ RealisesSubsA T nm q r plain' evs
  | q, .dup i pgid cs :: r, plain, evs =>
    ∃ rec ks evs', evs = (rec, ks) :: evs' ∧ rec.mrca = q ∧ rec.pgid = pgid ∧
      rec.members.Perm (ks.map Node.key) ∧ (∀ k ∈ ks, k.dup = some rec.did) ∧
      RealisesCopiesA T nm (i :: q) cs ks ∧ RealisesSubsA T nm q r plain evs'
  | q, .ann _ :: r, plain, evs => RealisesSubsA T nm q r plain evs
def RealisesCopiesA (T : STree) (nm : Naming) : Taxon → List SL → List Node → Prop
  | _, [], ks => ks = []
  | q, c :: cs, ks => ∃ k ks', ks = k :: ks' ∧ RealisesA T nm q c k ∧ RealisesCopiesA T nm q cs ks'
end

end Pyham
