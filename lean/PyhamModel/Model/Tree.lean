/-
  Species tree and taxa.  Models pyham/taxonomy.py and the ete3 calls pyham makes.
  Import-free (Lean core only) so that the driver links as a `lean_exe`.

  A taxon is the list of child indices from the node UP to the root, nearest first:
  root = [], `up = tail`, "a is an ancestor-or-self of d" = `a <:+ d` (suffix).
-/
namespace Pyham

inductive STree where
  | node (name : String) (kids : List STree)
deriving Repr, Inhabited

abbrev Taxon := List Nat

inductive Naming where
  | own    -- use_internal_name=True : the tree's own internal names
  | synth  -- use_internal_name=False: leaf names of the clade joined by "/"
deriving Repr, DecidableEq, Inhabited

namespace STree

def name : STree → String
  | node n _ => n

def kids : STree → List STree
  | node _ k => k

def isLeaf (t : STree) : Bool := t.kids.isEmpty

/-- subtree at a ROOT-FIRST path -/
def subRF : STree → List Nat → Option STree
  | t, [] => some t
  | node _ ks, i :: r =>
    match ks[i]? with
    | some k => subRF k r
    | none => none

/-- subtree at a taxon (nearest-first path) -/
def sub (T : STree) (p : Taxon) : Option STree := T.subRF p.reverse

mutual
/-- leaf names of the clade in tree order (`for leaf in node` of ete3) -/
def leafNames : STree → List String
  | node n [] => [n]
  | node _ (k :: ks) => leafNamesL (k :: ks)
def leafNamesL : List STree → List String
  | [] => []
  | k :: ks => leafNames k ++ leafNamesL ks
end

/-- `set_taxon_name`: leaf names joined by "/" -/
def synthName (t : STree) : String := "/".intercalate t.leafNames

/-- the name pyham gives to the node `t` -/
def displayName (nm : Naming) (t : STree) : String :=
  if t.isLeaf then t.name else
  match nm with
  | .own => t.name
  | .synth => t.synthName

mutual
/-- all taxa below (and including) the node reached by `p`, preorder -/
def taxaFrom (p : Taxon) : STree → List Taxon
  | node _ ks => p :: taxaFromL p 0 ks
def taxaFromL (p : Taxon) (i : Nat) : List STree → List Taxon
  | [] => []
  | k :: ks => taxaFrom (i :: p) k ++ taxaFromL p (i + 1) ks
end

def allTaxa (T : STree) : List Taxon := T.taxaFrom []

def nameAt (T : STree) (nm : Naming) (p : Taxon) : Option String :=
  (T.sub p).map (displayName nm)

def isLeafAt (T : STree) (p : Taxon) : Bool :=
  match T.sub p with
  | some t => t.isLeaf
  | none => false

def isInternalAt (T : STree) (p : Taxon) : Bool :=
  match T.sub p with
  | some t => !t.isLeaf
  | none => false

/-- `tree.search_nodes(name=…)` : every node carrying that name -/
def findByName (T : STree) (nm : Naming) (s : String) : List Taxon :=
  T.allTaxa.filter fun p => T.nameAt nm p == some s

def leafTaxa (T : STree) : List Taxon := T.allTaxa.filter T.isLeafAt
def internalTaxa (T : STree) : List Taxon := T.allTaxa.filter T.isInternalAt

mutual
/-- `write(format=8, format_root_node=True)` without the trailing ";" -/
def newickBody (nm : Naming) : STree → String
  | node n [] => n
  | node n (k :: ks) => "(" ++ newickL nm (k :: ks) ++ ")" ++ displayName nm (node n (k :: ks))
def newickL (nm : Naming) : List STree → String
  | [] => ""
  | [k] => newickBody nm k
  | k :: k2 :: ks => newickBody nm k ++ "," ++ newickL nm (k2 :: ks)
end

def newick (nm : Naming) (t : STree) : String := newickBody nm t ++ ";"

/-- `_check_consistency_names` (after the repair of the internal-name test): leaf names and
    internal names must each be free of repetitions, else KeyError -/
def namesOk (T : STree) (nm : Naming) : Bool :=
  let names := fun (ps : List Taxon) => ps.filterMap (T.nameAt nm)
  (names T.leafTaxa).Nodup && (names T.internalTaxa).Nodup

end STree

/-! ### taxa -/

def Taxon.up : Taxon → Option Taxon
  | [] => none
  | _ :: p => some p

/-- proper ancestors, nearest first (`iter_ancestors`) -/
def ancestors : Taxon → List Taxon
  | [] => []
  | _ :: p => p :: ancestors p

/-- `get_path_up(lo, anc)`: ancestors of `lo` strictly below `anc`, youngest first
    (runs to the root when `anc` is not an ancestor, exactly as the code). -/
def pathUp (lo anc : Taxon) : List Taxon := (ancestors lo).takeWhile (· != anc)

/-- `anc` is a proper ancestor of `t` (`anc in t.get_ancestors()`) -/
def isProperAncestor (anc t : Taxon) : Bool := (ancestors t).contains anc

/-- ancestor-or-self -/
def isAncOrSelf (anc t : Taxon) : Bool := anc == t || isProperAncestor anc t

/-- drop the first `n` (nearest) steps -/
def dropTo (n : Nat) (t : Taxon) : Taxon := t.drop (t.length - n)

/-- longest common suffix of two taxa = most recent common ancestor.
    Both are first cut to the same depth, then compared level by level. -/
def lcsEq : Taxon → Taxon → Taxon
  | [], _ => []
  | _, [] => []
  | a :: as, b :: bs =>
    let r := lcsEq as bs
    if a == b && r.length == as.length && as.length == bs.length then a :: r else r

def mrca2 (a b : Taxon) : Taxon :=
  let n := min a.length b.length
  lcsEq (dropTo n a) (dropTo n b)

/-- `get_common_ancestor` of a non-empty collection -/
def mrca : List Taxon → Taxon
  | [] => []
  | t :: ts => ts.foldl mrca2 t

/-- list without repetitions, first occurrences kept (a Python `set` seen as a list) -/
def dedup {α} [BEq α] : List α → List α
  | [] => []
  | x :: xs => x :: (dedup xs).filter (· != x)

end Pyham
