/-
  A Newick reader for the text the taxonomy stores (`write(format=8, format_root_node=True)`:
  names only, no branch lengths), so that "the stored Newick text re-parses to the same named
  topology" (C18) can be stated for the model's writer/reader pair.  The real reader is ete3.
-/
import PyhamModel.Model.Tree
namespace Pyham

def isNameChar (c : Char) : Bool := c != '(' && c != ')' && c != ',' && c != ';'

/-- the characters of `newickBody nm t` -/
def STree.named (nm : Naming) : STree → STree
  | .node n ks => .node (STree.displayName nm (.node n ks)) (namedL nm ks)
where namedL (nm : Naming) : List STree → List STree
  | [] => []
  | k :: ks => STree.named nm k :: namedL nm ks

mutual
/-- writer on character lists, for a tree that already carries the names to be written -/
def writeChars : STree → List Char
  | .node n [] => n.toList
  | .node n (k :: ks) => '(' :: writeCharsL (k :: ks) ++ ')' :: n.toList
def writeCharsL : List STree → List Char
  | [] => []
  | [k] => writeChars k
  | k :: k2 :: ks => writeChars k ++ ',' :: writeCharsL (k2 :: ks)
end

/-- recursive-descent reader with fuel; returns the tree and the rest of the input -/
def readTree : Nat → List Char → Option (STree × List Char)
  | 0, _ => none
  | fuel + 1, '(' :: cs =>
    match readList fuel cs with
    | some (ks, ')' :: rest) =>
      let name := rest.takeWhile isNameChar
      some (.node (String.ofList name) ks, rest.dropWhile isNameChar)
    | _ => none
  | _ + 1, cs =>
    let name := cs.takeWhile isNameChar
    some (.node (String.ofList name) [], cs.dropWhile isNameChar)
where readList : Nat → List Char → Option (List STree × List Char)
  | 0, _ => none
  | fuel + 1, cs =>
    match readTree fuel cs with
    | some (k, ',' :: rest) =>
      match readList fuel rest with
      | some (ks, rest') => some (k :: ks, rest')
      | none => none
    | some (k, rest) => some ([k], rest)
    | none => none

/-- read a whole Newick text "…;" -/
def parseNewick (s : String) : Option STree :=
  match readTree (s.length + 1) s.toList with
  | some (t, [';']) => some t
  | _ => none

mutual
/-- every name of the tree consists of name characters only -/
def STree.namesClean : STree → Bool
  | .node n ks => n.toList.all isNameChar && namesCleanL ks
def namesCleanL : List STree → Bool
  | [] => true
  | k :: ks => k.namesClean && namesCleanL ks
end

end Pyham
