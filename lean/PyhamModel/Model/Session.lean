/-
  A session of public analysis calls on one loaded analysis, with the caches the code keeps:
  `Ham.HOGMaps` (keyed by the unordered genome pair), `HOG.hogvis`, `AncestralGenome.ancestral_clustering`,
  lazily created (empty) genomes.  Models ham.compare_genomes_vertically / _get_HOGMap,
  compare_genomes_lateral, create_tree_profile, create_iHam / get_hog_vis, get_ancestral_clustering.
-/
import PyhamModel.Model.Iham
import PyhamModel.Model.Lookup
namespace Pyham

inductive Op where
  | vertical (g1 g2 : Taxon)
  | lateral (g1 g2 : Taxon)
  | profileFull
  | profileHog (k : Key)
  | iham (k : Key)
  | clustering (t : Taxon)
  | geneById (id : String)
  | descGenes (k : Key)

inductive Out where
  | hmap (r : Except Err HMap)
  | lmap (r : Except Err LMap)
  | feats (r : Except Err (List Feat))
  | export (r : Except Err Input)
  | clust (r : List (Node × List String))
  | gene (r : Except Err GeneRec)
  | ids (r : Except Err (List String))

structure SState where
  H : Ham
  cache : List ((Taxon × Taxon) × HMap) := []          -- HOGMaps
  vis : List (Key × Input) := []                        -- hogvis memo per HOG
  clust : List (Taxon × List (Node × List String)) := []  -- clustering memo per ancestral genome
  touched : List Taxon := []                            -- taxa that received an (empty) genome lazily

def SState.init (H : Ham) : SState := { H := H }

def findNode (H : Ham) (k : Key) : Option Node := (H.allLocs.find? fun l => l.node.key == k).map Loc.node

/-- `_get_HOGMap(frozenset({g1, g2}))` -/
def getHogMap (s : SState) (g1 g2 : Taxon) : SState × Except Err HMap :=
  match s.cache.find? (fun e => e.1 == (g1, g2) || e.1 == (g2, g1)) with
  | some e => (s, .ok e.2)
  | none =>
    match vertical s.H g1 g2 with
    | .ok m => ({ s with cache := s.cache ++ [((g1, g2), m)] }, .ok m)
    | .error e => (s, .error e)

/-- `compute_tree_profile_full`: one cached map per branch -/
def profileFullS (s : SState) : List Taxon → SState × List Feat
  | [] => (s, [])
  | t :: ts =>
    match t.up with
    | none =>
      let r := profileFullS s ts
      (r.1, { tx := t, nbr := s.H.genomeSize t } :: r.2)
    | some u =>
      let (s1, m?) := getHogMap s t u
      let f : Feat := match m? with
        | .ok m =>
          { tx := t, nbr := s.H.genomeSize t, dupl := some (m.dupl.map (·.2.length)).sum, lost := some m.loss.length,
            gain := some m.gain.length, retained := some m.retained.length, duplication := some m.ndup,
            nbrEvents := some (m.ndup + m.loss.length + m.gain.length) }
        | .error _ => { tx := t, nbr := s.H.genomeSize t }
      let r := profileFullS s1 ts
      (r.1, f :: r.2)

def step (s : SState) : Op → SState × Out
  | .vertical g1 g2 =>
    let r := getHogMap s g1 g2
    (r.1, .hmap r.2)
  | .lateral g1 g2 =>
    -- `_get_ancestral_genome_by_mrca_of_genome_set` creates the reference genome when the taxon has none yet
    match lateral s.H g1 g2 with
    | .ok m => ({ s with touched := s.touched ++ [m.anc] }, .lmap (.ok m))
    | .error e => (s, .lmap (.error e))
  | .profileFull =>
    let r := profileFullS s s.H.tree.allTaxa
    ({ r.1 with touched := r.1.touched ++ s.H.tree.allTaxa }, .feats (.ok r.2))
  | .profileHog k =>
    match findNode s.H k with
    | some n => (s, .feats (.ok (profileHog s.H n)))
    | none => (s, .feats (.error .key))
  | .iham k =>
    match s.vis.find? (·.1 == k) with
    | some e => (s, .export (.ok e.2))
    | none =>
      match findNode s.H k with
      | some n => ({ s with vis := s.vis ++ [(k, ihamExport s.H n)] }, .export (.ok (ihamExport s.H n)))
      | none => (s, .export (.error .key))
  | .clustering t =>
    match s.clust.find? (·.1 == t) with
    | some e => (s, .clust e.2)
    | none => ({ s with clust := s.clust ++ [(t, ancestralClustering s.H t)] }, .clust (ancestralClustering s.H t))
  | .geneById id => (s, .gene (s.H.geneById id))
  | .descGenes k =>
    match findNode s.H k with
    | some n => (s, .ids (.ok n.leaves))
    | none => (s, .ids (.error .key))

/-- the taxa that carry a genome right after loading: one per <species> element, one per taxon a HOG was placed at -/
def Ham.initialGenomes (H : Ham) : List Taxon := H.species.map (·.2) ++ H.reg.map (·.1)

/-- the taxa listed by `get_list_extant_genomes` / `get_list_ancestral_genomes` in state `s` (as a set) -/
def SState.listing (s : SState) : List Taxon := s.H.initialGenomes ++ s.touched

/-- what the same call returns on a freshly loaded analysis -/
def answer (H : Ham) (op : Op) : Out := (step (SState.init H) op).2

def run (s : SState) : List Op → SState × List Out
  | [] => (s, [])
  | op :: ops =>
    let r := step s op
    let rs := run r.1 ops
    (rs.1, r.2 :: rs.2)

end Pyham
