/-
  The input domain "consistent orthoXML over a species tree", defined generatively:
  a *spelled history* is a duplication/loss history along the tree together with the producer's
  spelling choices.  `encode` writes the file fragment, `truth` is the hierarchy the history means,
  `wfh` / `recoverable` are the decidable side conditions.
-/
import PyhamModel.Model.Parser
namespace Pyham

mutual
/-- one ancestral gene entering a taxon, and what became of it -/
inductive SL where
  | gene (id : String) (loft : Option String)                    -- at a leaf
  | grp (written : Bool) (hid : Option String) (label : Bool)    -- label: carries a TaxRange property
        (subs : List Sub)
/-- what happens on one child branch (absent child index = loss), or an annotation in that position -/
inductive Sub where
  | one (i : Nat) (l : SL)
  | dup (i : Nat) (pgid : Option String) (copies : List SL)      -- ≥ 2 copies, all entering child i
  | ann (e : Elem)                                               -- a <score>/<property> element
end

instance : Inhabited SL := ⟨.gene "" none⟩
instance : Inhabited Sub := ⟨.ann (.prop "" "")⟩

def nameOrEmpty (T : STree) (nm : Naming) (p : Taxon) : String := (T.nameAt nm p).getD ""

mutual
/-- the file fragment a lineage entering taxon `p` contributes to the enclosing element -/
def encode (T : STree) (nm : Naming) (p : Taxon) : SL → List Elem
  | .gene id loft => [.ref id loft]
  | .grp true hid label subs =>
    [.og hid none ((if label then [Elem.prop "TaxRange" (nameOrEmpty T nm p)] else []) ++ encodeSubs T nm p subs)]
  | .grp false _ _ subs => encodeSubs T nm p subs
def encodeSubs (T : STree) (nm : Naming) (p : Taxon) : List Sub → List Elem
  | [] => []
  | .one i l :: r => encode T nm (i :: p) l ++ encodeSubs T nm p r
  | .dup i pgid cs :: r => .pg pgid (encodeCopies T nm (i :: p) cs) :: encodeSubs T nm p r
  | .ann e :: r => e :: encodeSubs T nm p r
def encodeCopies (T : STree) (nm : Naming) (q : Taxon) : List SL → List Elem
  | [] => []
  | c :: cs => encode T nm q c ++ encodeCopies T nm q cs
end

/-- the annotation elements of a group, in file order -/
def annElems : List Sub → List Elem
  | [] => []
  | .ann e :: r => e :: annElems r
  | _ :: r => annElems r

def scoresOf (es : List Elem) : List (String × String) :=
  es.foldl (fun d e => match e with | .score i v => dictSet d i v | _ => d) []
def propsOf (es : List Elem) : List (String × String) :=
  es.foldl (fun d e => match e with | .prop n v => dictSet d n v | _ => d) []

mutual
/-- the hierarchy the history means: one HOG per group (written or not) at its taxon, children one
    level down, one duplication record per `dup` under the HOG at the parent taxon.
    `uid`s are local (position among siblings); they only tie records to children. -/
def truth (T : STree) (nm : Naming) (p : Taxon) (uid : Nat) (flag : Option Nat) : SL → Node
  | .gene id loft => .gene id p flag loft
  | .grp w hid label subs =>
    let es := (if label && w then [Elem.prop "TaxRange" (nameOrEmpty T nm p)] else []) ++ annElems subs
    .hog { uid := uid, hid := hid, og := none, scores := scoresOf es, props := propsOf es, synth := !w }
      p flag (truthKids T nm p 0 subs) (truthDups T nm p 0 subs)
def truthKids (T : STree) (nm : Naming) (p : Taxon) (n : Nat) : List Sub → List Node
  | [] => []
  | .one i l :: r => truth T nm (i :: p) n none l :: truthKids T nm p (n + 1) r
  | .dup i _ cs :: r => truthCopies T nm (i :: p) n i cs ++ truthKids T nm p (n + cs.length) r
  | .ann _ :: r => truthKids T nm p n r
def truthCopies (T : STree) (nm : Naming) (q : Taxon) (n : Nat) (d : Nat) : List SL → List Node
  | [] => []
  | c :: cs => truth T nm q n (some d) c :: truthCopies T nm q (n + 1) d cs
def truthDups (T : STree) (nm : Naming) (p : Taxon) (n : Nat) : List Sub → List DupRec
  | [] => []
  | .one _ _ :: r => truthDups T nm p (n + 1) r
  | .dup i pgid cs :: r =>
    { did := i, pgid := pgid, mrca := p, members := (truthCopies T nm (i :: p) n i cs).map Node.key } ::
      truthDups T nm p (n + cs.length) r
  | .ann _ :: r => truthDups T nm p n r
end

/-! ### what the loader gets to see: apparent taxa of the written items -/

mutual
def appTaxa (p : Taxon) : SL → List Taxon
  | .gene _ _ => [p]
  | .grp true _ _ _ => [p]
  | .grp false _ _ subs => appTaxaSubs p subs
def appTaxaSubs (p : Taxon) : List Sub → List Taxon
  | [] => []
  | .one i l :: r => appTaxa (i :: p) l ++ appTaxaSubs p r
  | .dup i _ cs :: r => appTaxaCopies (i :: p) cs ++ appTaxaSubs p r
  | .ann _ :: r => appTaxaSubs p r
def appTaxaCopies (q : Taxon) : List SL → List Taxon
  | [] => []
  | c :: cs => appTaxa q c ++ appTaxaCopies q cs
end

mutual
/-- true levels of the paralogGroups that spill into the enclosing written element -/
def spillSL (p : Taxon) : SL → List Taxon
  | .grp false _ _ subs => spillSubs p subs
  | _ => []
def spillSubs (p : Taxon) : List Sub → List Taxon
  | [] => []
  | .one i l :: r => spillSL (i :: p) l ++ spillSubs p r
  | .dup _ _ _ :: r => p :: spillSubs p r
  | .ann _ :: r => spillSubs p r
end

/-- level of a duplication as the code computes it (`set_MRCA`) -/
def ruleDup (taxa : List Taxon) : Option Taxon :=
  match dedup taxa with
  | [] => none
  | [t] => t.up
  | ts => (mrca ts).up

/-- level of a group as the code computes it (MRCA rule, then the lift to a contained duplication) -/
def ruleLevel (taxa : List Taxon) (dupLevels : List Taxon) : Option Taxon :=
  let base := match dedup taxa with
    | [] => none
    | [t] => t.up
    | ts => some (mrca ts)
  base.map fun b => dupLevels.foldl (fun lv m => if isProperAncestor m lv then m else lv) b

def realSubs : List Sub → Nat
  | [] => 0
  | .ann _ :: r => realSubs r
  | _ :: r => realSubs r + 1

mutual
/-- the level rule gives the written file the meaning `truth` -/
def recoverable (p : Taxon) : SL → Bool
  | .gene _ _ => true
  | .grp true _ _ subs =>
    recoverableSubs p subs && ruleLevel (appTaxaSubs p subs) (spillSubs p subs) == some p
  | .grp false _ _ subs => recoverableSubs p subs && realSubs subs == 1
def recoverableSubs (p : Taxon) : List Sub → Bool
  | [] => true
  | .one i l :: r => recoverable (i :: p) l && recoverableSubs p r
  | .dup i _ cs :: r =>
    recoverableCopies (i :: p) cs && ruleDup (appTaxaCopies (i :: p) cs) == some p && recoverableSubs p r
  | .ann _ :: r => recoverableSubs p r
def recoverableCopies (q : Taxon) : List SL → Bool
  | [] => true
  | c :: cs => recoverable q c && (spillSL q c).isEmpty && recoverableCopies q cs
end

def subIndex : Sub → Option Nat
  | .one i _ => some i
  | .dup i _ _ => some i
  | .ann _ => none

def isAnnElem : Elem → Bool
  | .score _ _ => true
  | .prop n _ => n != "TaxRange"
  | _ => false

mutual
/-- well-formed history over `T` at taxon `p` -/
def wfh (T : STree) (p : Taxon) : SL → Bool
  | .gene _ _ => T.isLeafAt p
  | .grp w hid label subs =>
    T.isInternalAt p && realSubs subs ≥ 1 && (subs.filterMap subIndex).Nodup &&
    (w || (hid.isNone && !label && (annElems subs).isEmpty)) && wfhSubs T p subs
def wfhSubs (T : STree) (p : Taxon) : List Sub → Bool
  | [] => true
  | .one i l :: r => wfh T (i :: p) l && wfhSubs T p r
  | .dup i _ cs :: r => cs.length ≥ 2 && wfhCopies T (i :: p) cs && wfhSubs T p r
  | .ann e :: r => isAnnElem e && wfhSubs T p r
def wfhCopies (T : STree) (q : Taxon) : List SL → Bool
  | [] => true
  | c :: cs => wfh T q c && wfhCopies T q cs
end

mutual
def genesOf : SL → List String
  | .gene id _ => [id]
  | .grp _ _ _ subs => genesOfSubs subs
def genesOfSubs : List Sub → List String
  | [] => []
  | .one _ l :: r => genesOf l ++ genesOfSubs r
  | .dup _ _ cs :: r => genesOfCopies cs ++ genesOfSubs r
  | .ann _ :: r => genesOfSubs r
def genesOfCopies : List SL → List String
  | [] => []
  | c :: cs => genesOf c ++ genesOfCopies cs
end

/-! ### what the history says about a branch (compared with pyham's tree profile on every explored case; theorem
    `C09_profile_numbers_are_the_history`) -/

mutual
/-- weight of the duplication events of the history `l` (rooted at taxon `q`) that lie on the branch INTO taxon `t`:
    an event with `n` copies counts `w n` -/
def dupWeight (w : Nat → Nat) (t : Taxon) : Taxon → SL → Nat
  | _, .gene _ _ => 0
  | q, .grp _ _ _ subs => dupWeightSubs w t q subs
def dupWeightSubs (w : Nat → Nat) (t : Taxon) (q : Taxon) : List Sub → Nat
  | [] => 0
  | .one i l :: r => dupWeight w t (i :: q) l + dupWeightSubs w t q r
  | .dup i _ cs :: r =>
    (if (i :: q) == t then w cs.length else 0) + dupWeightCopies w t (i :: q) cs + dupWeightSubs w t q r
  | .ann _ :: r => dupWeightSubs w t q r
def dupWeightCopies (w : Nat → Nat) (t : Taxon) (q : Taxon) : List SL → Nat
  | [] => 0
  | c :: cs => dupWeight w t q c + dupWeightCopies w t q cs
end

/-- copies that the duplication events of the history place on the branch into `t` -/
def copiesInto (t q : Taxon) (l : SL) : Nat := dupWeight id t q l
/-- number of duplication events of the history on the branch into `t` -/
def eventsInto (t q : Taxon) (l : SL) : Nat := dupWeight (fun _ => 1) t q l


/-! ### what the species sections and the histories say about a species node (compared with pyham's tree profile at the
    leaves; theorem `C09_leaf_profile_from_dataset`) -/

/-- ids of the genes that a list of species sections declares for the species sitting at leaf `t` -/
def declaredAtL (T : STree) (nm : Naming) (t : Taxon) (sp : List Species) : List String :=
  sp.flatMap fun s => match resolveSpecies T nm s.name with
    | .ok p => if p == t then s.genes.map (·.id) else []
    | .error _ => []

/-- declared genes of the species at `t` that no family references -/
def unreferencedAtL (T : STree) (nm : Naming) (t : Taxon) (sp : List Species) (fams : List (Taxon × SL)) : List String :=
  (declaredAtL T nm t sp).filter fun g => !(fams.flatMap fun f => genesOf f.2).contains g

/-! ### lineages of a history at a taxon (used by the counting theorems and evaluated by the driver) -/

mutual
/-- number of lineages of the history `l` (rooted at taxon `q`) that cross the taxon `t` -/
def lineagesAt (t : Taxon) : Taxon → SL → Nat
  | _, .gene _ _ => 0
  | q, .grp _ _ _ subs => (if q == t then 1 else 0) + lineagesAtSubs t q subs
def lineagesAtSubs (t : Taxon) (q : Taxon) : List Sub → Nat
  | [] => 0
  | .one i l :: r => lineagesAt t (i :: q) l + lineagesAtSubs t q r
  | .dup i _ cs :: r => lineagesAtCopies t (i :: q) cs + lineagesAtSubs t q r
  | .ann _ :: r => lineagesAtSubs t q r
def lineagesAtCopies (t : Taxon) (q : Taxon) : List SL → Nat
  | [] => 0
  | c :: cs => lineagesAt t q c + lineagesAtCopies t q cs
end

mutual
/-- number of lineages of the history `l` (rooted at `q`) that cross `a` and have no lineage crossing `d` below them -/
def extinctAt (a d : Taxon) : Taxon → SL → Nat
  | _, .gene _ _ => 0
  | q, .grp w hid label subs =>
    (if q == a && lineagesAt d q (.grp w hid label subs) == 0 then 1 else 0) + extinctAtSubs a d q subs
def extinctAtSubs (a d : Taxon) (q : Taxon) : List Sub → Nat
  | [] => 0
  | .one i l :: r => extinctAt a d (i :: q) l + extinctAtSubs a d q r
  | .dup i _ cs :: r => extinctAtCopies a d (i :: q) cs + extinctAtSubs a d q r
  | .ann _ :: r => extinctAtSubs a d q r
def extinctAtCopies (a d : Taxon) (q : Taxon) : List SL → Nat
  | [] => 0
  | c :: cs => extinctAt a d q c + extinctAtCopies a d q cs
end

mutual
/-- lineages of the history at `d` that lie below a lineage at `a`, with (`want = true`) or without a duplication event on the
    way from `a` down to them; `st` as for `reportedN` -/
def reportedAt (want : Bool) (a d : Taxon) : Taxon → Option Bool → SL → Nat
  | q, st, .gene _ _ => if q == d && st == some want then 1 else 0
  | q, st, .grp _ _ _ subs =>
    (if q == d && st == some want then 1 else 0) + reportedAtSubs want a d q (if q == a then some false else st) subs
def reportedAtSubs (want : Bool) (a d : Taxon) (q : Taxon) (st : Option Bool) : List Sub → Nat
  | [] => 0
  | .one i l :: r => reportedAt want a d (i :: q) st l + reportedAtSubs want a d q st r
  | .dup i _ cs :: r => reportedAtCopies want a d (i :: q) (st.map fun _ => true) cs + reportedAtSubs want a d q st r
  | .ann _ :: r => reportedAtSubs want a d q st r
def reportedAtCopies (want : Bool) (a d : Taxon) (q : Taxon) (st : Option Bool) : List SL → Nat
  | [] => 0
  | c :: cs => reportedAt want a d q st c + reportedAtCopies want a d q st cs
end

end Pyham
