/-
  Lookups.  Models the query methods of ham.Ham (get_gene_by_id, get_genes_by_external_id,
  get_hog_by_id, get_hog_by_gene, get_extant_genome_by_name, get_ancestral_genome_by_name/_taxon/
  _mrca_of_genome_set, get_taxon_by_name).  Keys arrive as strings: `str(x)` of the caller's key.
-/
import PyhamModel.Model.Profile
namespace Pyham

/-- `get_gene_by_id` -/
def Ham.geneById (H : Ham) (id : String) : Except Err GeneRec :=
  match H.genes.reverse.find? (·.id == id) with
  | some g => .ok g
  | none => .error .key

/-- `external_id_mapper`: xref value ↦ gene ids, one entry per attribute carrying the value -/
def Ham.xrefIds (H : Ham) (v : String) : List String :=
  H.genes.flatMap fun g => (g.xrefs.filter (·.2 == v)).map fun _ => g.id

/-- `get_genes_by_external_id` -/
def Ham.genesByExternalId (H : Ham) (v : String) : Except Err (List String) :=
  match H.xrefIds v with
  | [] => .error .key
  | ids => .ok ids

/-- `get_hog_by_id` -/
def Ham.hogById (H : Ham) (id : String) : Except Err Node :=
  match H.tops.find? (·.1 == some id) with
  | some p => .ok p.2
  | none => .error .key

/-- `get_hog_by_gene`: the top-level HOG of the family, or the gene itself for a singleton -/
def Ham.hogByGene (H : Ham) (id : String) : Except Err Node :=
  match H.allLocs.find? (fun l => l.node.key == .g id) with
  | some l => .ok ((l.anc.getLast?).getD l.node)
  | none => .error .key

/-- `get_extant_genome_by_name`: among the species that were declared -/
def Ham.extantGenomeByName (H : Ham) (name : String) : Except Err Taxon :=
  match H.species.find? (·.1 == name) with
  | some p => .ok p.2
  | none => .error .key

/-- the ancestral genomes that hold at least one gene (empty ones may or may not exist) -/
def Ham.ancestralTaxa (H : Ham) : List Taxon :=
  H.tree.internalTaxa.filter fun t => H.reg.any (·.1 == t)

/-- `get_ancestral_genome_by_name`: first match among the existing ancestral genomes -/
def Ham.ancestralGenomeByName (H : Ham) (name : String) : Except Err Taxon :=
  match H.ancestralTaxa.find? (fun t => H.tree.nameAt H.naming t == some name) with
  | some t => .ok t
  | none => .error .key

/-- `get_ancestral_genome_by_taxon` -/
def Ham.ancestralGenomeByTaxon (H : Ham) (t : Taxon) : Except Err Taxon :=
  if H.ancestralTaxa.contains t then .ok t else .error .key

/-- `get_ancestral_genome_by_mrca_of_genome_set` -/
def Ham.ancestralGenomeByMrca (H : Ham) (gs : List Taxon) : Except Err Taxon :=
  match dedup gs with
  | [] => .error .value
  | [_] => .error .value
  | ts => H.ancestralGenomeByTaxon (mrca ts)

/-- `get_taxon_by_name` -/
def Ham.taxonByName (H : Ham) (name : String) : Except Err Taxon :=
  match H.tree.findByName H.naming name with
  | [p] => .ok p
  | _ => .error .key

/-- building the taxonomy: trees whose names would make lookups ambiguous are rejected -/
def taxonomyBuild (T : STree) (nm : Naming) : Except Err Unit :=
  if T.namesOk nm then .ok () else .error .key

end Pyham
