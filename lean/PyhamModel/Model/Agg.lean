/-
  The aggregated views of a lateral comparison (MapLateral.get_lost / get_gained / get_retained /
  get_duplicated: dictionaries built with `setdefault` over the per-genome maps), the JSON tree of the
  tree-profile HTML export (TreeProfile.export_as_html.visit_custom) and the family data of the iHam
  page (IHAM._get_famdata).
-/
import PyhamModel.Model.Profile
import PyhamModel.Model.Nav
namespace Pyham

/-- python `d.setdefault(k, []).append(v)` keyed by node identity -/
def sdAppend {β} (d : List (Node × List β)) (k : Node) (v : β) : List (Node × List β) :=
  if d.any (·.1.key == k.key) then d.map fun e => if e.1.key == k.key then (e.1, e.2 ++ [v]) else e
  else d ++ [(k, [v])]

/-- `get_lost`: Ho ↦ [Gn] -/
def LMap.aggLost (ml : LMap) : List (Node × List Taxon) :=
  ml.maps.foldl (fun d e => e.2.loss.foldl (fun d x => sdAppend d x e.1) d) []

/-- `get_gained`: Gn ↦ [Hn] -/
def LMap.aggGained (ml : LMap) : List (Taxon × List Node) := ml.maps.map fun e => (e.1, e.2.gain)

/-- `get_retained`: Hi ↦ {Gn ↦ Hn} -/
def LMap.aggRetained (ml : LMap) : List (Node × List (Taxon × Node)) :=
  ml.maps.foldl (fun d e => e.2.retained.foldl (fun d r => sdAppend d r.1 (e.1, r.2)) d) []

/-- `get_duplicated`: Hi ↦ {Gn ↦ [Hn]} -/
def LMap.aggDuplicated (ml : LMap) : List (Node × List (Taxon × List Node)) :=
  ml.maps.foldl (fun d e => e.2.dupl.foldl (fun d r => sdAppend d r.1 (e.1, r.2)) d) []

/-- what the aggregated views say about one compared genome `g` -/
def LMap.lostIn (ml : LMap) (g : Taxon) : List Node := (ml.aggLost.filter fun e => e.2.contains g).map (·.1)
def LMap.gainedIn (ml : LMap) (g : Taxon) : List Node := (ml.aggGained.lookup g).getD []
def LMap.retainedIn (ml : LMap) (g : Taxon) : List (Node × Node) :=
  ml.aggRetained.filterMap fun e => (e.2.lookup g).map fun hn => (e.1, hn)
def LMap.duplicatedIn (ml : LMap) (g : Taxon) : List (Node × List Node) :=
  ml.aggDuplicated.filterMap fun e => (e.2.lookup g).map fun hs => (e.1, hs)

/-! ### tree-profile JSON (the `treeData` of the HTML export) -/

inductive PJson where
  | node (name : String) (numberGenes : Nat) (numberEvents : Option Nat)
         (events : Option (Option Nat × Option Nat × Option Nat × Option Nat × Option Nat))   -- retained, duplicated, gained, lost, duplication; none = `false` (root)
         (children : List PJson)

mutual
/-- `visit_custom` on the annotated tree: `feat t` are the features annotated on the node at taxon `t` -/
def profileJson (nm : Naming) (feat : Taxon → Feat) (root : Bool) (p : Taxon) : STree → PJson
  | .node n ks =>
    let f := feat p
    .node (STree.displayName nm (.node n ks)) f.nbr f.nbrEvents
      (if root then none else some (f.retained, f.dupl, f.gain, f.lost, f.duplication))
      (profileJsonL nm feat p 0 ks)
def profileJsonL (nm : Naming) (feat : Taxon → Feat) (p : Taxon) (i : Nat) : List STree → List PJson
  | [] => []
  | k :: ks => profileJson nm feat false (i :: p) k :: profileJsonL nm feat p (i + 1) ks
end

mutual
/-- reading the numbers back from the JSON tree, as (taxon, numberGenes, events) in preorder -/
def PJson.read (p : Taxon) : PJson → List (Taxon × Nat × Option (Option Nat × Option Nat × Option Nat × Option Nat × Option Nat))
  | .node _ n _ ev cs => (p, n, ev) :: readL p 0 cs
def readL (p : Taxon) (i : Nat) : List PJson → List (Taxon × Nat × Option (Option Nat × Option Nat × Option Nat × Option Nat × Option Nat))
  | [] => []
  | c :: cs => PJson.read (i :: p) c ++ readL p (i + 1) cs
end

/-- the whole-dataset export -/
def profileFullJson (H : Ham) : PJson := profileJson H.naming (profileFullAt H) true [] H.tree

/-! ### iHam family data: one record per member gene -/

structure FamRec where
  id : String
  species : String
  protId : Option String

def famData (H : Ham) (n : Node) : List FamRec :=
  n.leaves.map fun g =>
    match H.genes.find? (·.id == g) with
    | some r => { id := g, species := r.species, protId := r.xrefs.lookup "protId" }
    | none => { id := g, species := "", protId := none }

end Pyham
