/-
  `species_resolve_mode="OMA"` (ham.py `_get_extant_genome_by_name`): a <species> element named after an
  internal node of the tree is attached to that node's ONLY child whose name looks like an OMA species code
  (five characters, `[A-Z][A-Z0-9]{4}`), and the genome takes that child's name.  Everything else is the
  default mode.  So an OMA-mode load is the default-mode load of the file with those species renamed.
-/
import PyhamModel.Model.Parser
namespace Pyham

def isOmaCode (s : String) : Bool :=
  match s.toList with
  | [a, b, c, d, e] => a.isUpper && [b, c, d, e].all fun x => x.isUpper || x.isDigit
  | _ => false

/-- the name the species is resolved under in OMA mode -/
def omaName (T : STree) (nm : Naming) (name : String) : String :=
  match T.findByName nm name with
  | [p] =>
    match T.sub p with
    | some (.node _ ks) =>
      if ks.isEmpty then name
      else
        let cand := (List.range ks.length).filter fun i =>
          match T.nameAt nm (i :: p) with
          | some n => isOmaCode n
          | none => false
        match cand with
        | [i] => (T.nameAt nm (i :: p)).getD name
        | _ => name
    | none => name
  | _ => name

def omaRename (T : STree) (nm : Naming) (inp : Input) : Input :=
  { inp with species := inp.species.map fun s => { s with name := omaName T nm s.name } }

def loadOMA (T : STree) (nm : Naming) (inp : Input) : Except Err Ham := load T nm (omaRename T nm inp)

end Pyham
