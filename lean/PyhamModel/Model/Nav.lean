/-
  Navigation inside a family.  Models the `visit`-based helpers of abstractgene.HOG,
  AbstractGene.get_top_level_hog / get_at_level and AncestralGenome.get_ancestral_clustering.
-/
import PyhamModel.Model.Mapper
namespace Pyham

/-- `get_all_descendant_genes_clustered_by_species`: dict species-taxon ↦ genes, insertion order -/
def clusterPut (d : List (Taxon × List String)) (t : Taxon) (g : String) : List (Taxon × List String) :=
  if d.any (·.1 == t) then d.map fun e => if e.1 == t then (t, e.2 ++ [g]) else e else d ++ [(t, [g])]

def geneTaxa : Node → List (String × Taxon)
  | n => (n.nodes.filterMap fun
      | .gene i t _ _ => some (i, t)
      | _ => none)

def clusterBySpecies (n : Node) : List (Taxon × List String) :=
  (geneTaxa n).foldl (fun d e => clusterPut d e.2 e.1) []

/-- `get_all_descendant_hog_levels` -/
def descLevels (n : Node) : List Taxon := n.hogs.map Node.tx

/-- `get_top_level_hog` of a located node -/
def topOf (l : Loc) : Node := (l.anc.getLast?).getD l.node

/-- `get_at_level`: members of the whole family living in genome `g`; KeyError when there are none
    or the answer would contain the asking node itself -/
def getAtLevel (l : Loc) (g : Taxon) : Except Err (List Node) :=
  let r := (topOf l).nodes.filter fun n => n.tx == g
  if r.isEmpty then .error .key
  else if r.any (·.key == l.node.key) then .error .key
  else .ok r

/-- `get_ancestral_clustering` -/
def ancestralClustering (H : Ham) (t : Taxon) : List (Node × List String) :=
  (H.nodesAt t).filterMap fun l => if l.node.isGene then none else some (l.node, l.node.leaves)

end Pyham
