/-
  orthoXML abstract syntax, the loaded hierarchy, and errors.
-/
import PyhamModel.Model.Tree
namespace Pyham

/-- Python exception classes the properties talk about, as a small enum -/
inductive Err where
  | key | type | value | index | attr | evo
  | unmodelled      -- the model declines to answer (state outside the region where it is faithful)
deriving Repr, DecidableEq, Inhabited

def Err.toStr : Err → String
  | .key => "KeyError" | .type => "TypeError" | .value => "ValueError" | .index => "IndexError"
  | .attr => "AttributeError" | .evo => "EvolutionaryConceptError" | .unmodelled => "Unmodelled"

structure GeneDecl where
  id : String
  xrefs : List (String × String)       -- every attribute of <gene> other than `id`, document order
deriving Repr, Inhabited

structure Species where
  name : String
  genes : List GeneDecl
deriving Repr, Inhabited

inductive Elem where
  | ref (id : String) (loft : Option String)
  | score (id : String) (value : String)       -- value kept as literal text
  | prop (name value : String)
  | og (hid : Option String) (og : Option String) (items : List Elem)
  | pg (pgid : Option String) (items : List Elem)
deriving Repr, Inhabited

structure Input where
  species : List Species
  groups : List Elem
deriving Repr, Inhabited

/-! ### the loaded hierarchy -/

/-- identity of a gene (its id) or of a HOG object (creation counter) -/
inductive Key where
  | g (id : String)
  | h (uid : Nat)
deriving Repr, DecidableEq, Inhabited

structure DupRec where
  did : Nat
  pgid : Option String
  mrca : Taxon
  members : List Key
deriving Repr, Inhabited

structure HogInfo where
  uid : Nat
  hid : Option String                  -- hog_id
  og : Option String
  scores : List (String × String)      -- dict: later entries overwrite
  props : List (String × String)
  synth : Bool                         -- created by the loader for a level the file skips
deriving Repr, Inhabited

inductive Node where
  | gene (id : String) (tx : Taxon) (dup : Option Nat) (loft : Option String)
  | hog (info : HogInfo) (tx : Taxon) (dup : Option Nat) (kids : List Node) (dups : List DupRec)
deriving Repr, Inhabited

namespace Node

def tx : Node → Taxon
  | gene _ t _ _ => t
  | hog _ t _ _ _ => t

def dup : Node → Option Nat
  | gene _ _ d _ => d
  | hog _ _ d _ _ => d

def key : Node → Key
  | gene i _ _ _ => .g i
  | hog info _ _ _ _ => .h info.uid

def kids : Node → List Node
  | gene .. => []
  | hog _ _ _ ks _ => ks

def dups : Node → List DupRec
  | gene .. => []
  | hog _ _ _ _ ds => ds

def isGene : Node → Bool
  | gene .. => true
  | hog .. => false

def setDup (d : Option Nat) : Node → Node
  | gene i t _ l => gene i t d l
  | hog info t _ ks ds => hog info t d ks ds

/-- the id a chain of synthesised HOGs inherits from this child (`hasattr(child,'hog_id')`) -/
def chainId (parentHid : Option String) : Node → Option String
  | gene _ _ _ (some l) => some l
  | gene _ _ _ none => parentHid
  | hog info _ _ _ _ => info.hid

mutual
/-- descendant gene ids, in visit order (`get_all_descendant_genes`) -/
def leaves : Node → List String
  | gene i _ _ _ => [i]
  | hog _ _ _ ks _ => leavesL ks
def leavesL : List Node → List String
  | [] => []
  | k :: ks => leaves k ++ leavesL ks
end

mutual
/-- every HOG of the subtree, prefix order (`get_all_descendant_hogs`, self included) -/
def hogs : Node → List Node
  | gene .. => []
  | hog info t d ks ds => hog info t d ks ds :: hogsL ks
def hogsL : List Node → List Node
  | [] => []
  | k :: ks => hogs k ++ hogsL ks
end

mutual
/-- every node of the subtree (HOGs and genes), prefix order -/
def nodes : Node → List Node
  | gene i t d l => [gene i t d l]
  | hog info t d ks ds => hog info t d ks ds :: nodesL ks
def nodesL : List Node → List Node
  | [] => []
  | k :: ks => nodes k ++ nodesL ks
end

end Node

structure GeneRec where
  id : String
  species : String
  tx : Taxon
  xrefs : List (String × String)
deriving Repr, Inhabited

/-- the result of a load -/
structure Ham where
  tree : STree
  naming : Naming
  tops : List (Option String × Node)          -- top_level_hogs, dict order (later same key overwrites)
  genes : List GeneRec                        -- extant_gene_map, declaration order
  species : List (String × Taxon) := []       -- every <species> element with the leaf it resolved to
  reg : List (Taxon × Key)                    -- every Genome.add_gene call, call order
deriving Repr, Inhabited

end Pyham
