/-
  Non-vacuity: concrete, non-trivial objects that meet the hypotheses of the property theorems.

  `simpleEx` is the repository's own fixture tests/data/simpleEx.orthoxml over tests/data/simpleEx.nwk
  (6 species, 3 families, 19 genes, one duplication), written as spelled histories; the harness checks
  on every run that `simpleEx.file` is literally the fixture (up to the position of the TaxRange
  property among the annotation elements of a group).  `elided` is a second dataset exercising what the
  fixture does not contain: elided levels, a duplication below a skipped level, a group whose only
  content is a paralog group, a polytomy.
-/
import PyhamModel.Lemmas.CapstoneWF
import PyhamModel.Lemmas.Compose
import PyhamModel.Model.Sax
import PyhamModel.Lemmas.SessionLemmas
import PyhamModel.Lemmas.HistoryProfile
import PyhamModel.Lemmas.LeafProfile
namespace Pyham.Witness
open Pyham

/-- (XENTR,(((HUMAN,PANTR)Primates,(MOUSE,RATNO)Rodents)Euarchontoglires,CANFA)Mammalia)Vertebrata; -/
def simpleTree : STree :=
  .node "Vertebrata" [.node "XENTR" [],
    .node "Mammalia" [.node "Euarchontoglires" [.node "Primates" [.node "HUMAN" [], .node "PANTR" []],
                                                 .node "Rodents" [.node "MOUSE" [], .node "RATNO" []]],
                      .node "CANFA" []]]

/-! ### 0. a decidable criterion for `Dataset.Consistent` -/

theorem filterMap_nodup_inj {α β} (f : α → Option β) : (l : List α) → (l.filterMap f).Nodup →
    ∀ a ∈ l, ∀ b ∈ l, ∀ s, f a = some s → f b = some s → a = b
  | [], _, a, ha, _, _, _, _, _ => by simp at ha
  | x :: xs, h, a, ha, b, hb, s, hfa, hfb => by
    cases hx : f x with
    | none =>
      rw [List.filterMap_cons_none hx] at h
      rcases List.mem_cons.mp ha with rfl | ha
      · rw [hx] at hfa; cases hfa
      rcases List.mem_cons.mp hb with rfl | hb
      · rw [hx] at hfb; cases hfb
      exact filterMap_nodup_inj f xs h a ha b hb s hfa hfb
    | some y =>
      rw [List.filterMap_cons_some hx, List.nodup_cons] at h
      rcases List.mem_cons.mp ha with hax | ha' <;> rcases List.mem_cons.mp hb with hbx | hb'
      · rw [hax, hbx]
      · exfalso
        rw [hax, hx] at hfa
        cases hfa
        exact h.1 (List.mem_filterMap.mpr ⟨b, hb', hfb⟩)
      · exfalso
        rw [hbx, hx] at hfb
        cases hfb
        exact h.1 (List.mem_filterMap.mpr ⟨a, ha', hfa⟩)
      · exact filterMap_nodup_inj f xs h.2 a ha' b hb' s hfa hfb

/-- pairwise distinct node names make the naming unambiguous -/
theorem namesInj_of_nodup (T : STree) (nm : Naming) (h : (T.allTaxa.filterMap (T.nameAt nm)).Nodup) :
    NamesInj T nm := by
  intro t t' s ht ht'
  have mem : ∀ p, T.nameAt nm p = some s → p ∈ T.allTaxa := by
    intro p hp
    rw [mem_allTaxa_iff]
    unfold STree.nameAt at hp
    cases hs : T.sub p with
    | none => rw [hs] at hp; cases hp
    | some _ => rfl
  exact filterMap_nodup_inj _ _ h t (mem t ht) t' (mem t' ht') s ht ht'

/-- the species name resolves to the leaf `p` -/
def resolvesTo (T : STree) (nm : Naming) (name : String) (p : Taxon) : Bool :=
  match resolveSpecies T nm name with
  | .ok q => q == p
  | .error _ => false

theorem resolvesTo_iff {T : STree} {nm : Naming} {name : String} {p : Taxon}
    (h : resolvesTo T nm name p = true) : resolveSpecies T nm name = .ok p := by
  unfold resolvesTo at h
  split at h
  · rename_i q hq
    rw [hq, beq_iff_eq.mp h]
  · cases h

def resolves (T : STree) (nm : Naming) (name : String) : Bool :=
  match resolveSpecies T nm name with
  | .ok _ => true
  | .error _ => false

theorem resolves_iff {T : STree} {nm : Naming} {name : String}
    (h : resolves T nm name = true) : ∃ p, resolveSpecies T nm name = .ok p := by
  unfold resolves at h
  split at h
  · rename_i q hq
    exact ⟨q, hq⟩
  · cases h

/-- `Dataset.Consistent` as one executable check -/
structure Check (D : Dataset) : Prop where
  names : (D.T.allTaxa.filterMap (D.T.nameAt D.nm)).Nodup
  species_ok : (D.species.all fun s => resolves D.T D.nm s.name) = true
  fams_ok : (D.fams.all fun f => isWrittenGrp f.2 && wfh D.T f.1 f.2 && recoverable f.1 f.2) = true
  genes_nodup : (D.species.flatMap fun s => s.genes.map (·.id)).Nodup
  refs_nodup : (D.fams.flatMap fun f => genesOf f.2).Nodup
  declared : (D.fams.all fun f => (geneTaxaSL f.1 f.2).all fun e =>
    D.species.any fun s => resolvesTo D.T D.nm s.name e.2 && (s.genes.map (·.id)).contains e.1) = true
  top_ids : (D.fams.map fun f => topHid f.2).Nodup

theorem Check.consistent {D : Dataset} (c : Check D) : D.Consistent where
  names := namesInj_of_nodup _ _ c.names
  species_ok := fun s hs => resolves_iff (List.all_eq_true.mp c.species_ok s hs)
  fams_ok := fun f hf => by
    have := List.all_eq_true.mp c.fams_ok f hf
    simp only [Bool.and_eq_true] at this
    exact ⟨this.1.1, this.1.2, this.2⟩
  genes_nodup := c.genes_nodup
  refs_nodup := c.refs_nodup
  declared := fun f hf e he => by
    have := List.all_eq_true.mp (List.all_eq_true.mp c.declared f hf) e he
    obtain ⟨s, hs, h⟩ := List.any_eq_true.mp this
    simp only [Bool.and_eq_true] at h
    exact ⟨s, hs, resolvesTo_iff h.1, by simpa using h.2⟩
  top_ids := c.top_ids

/-! ### 1. a printer for the abstract syntax of `<groups>` (format of the harness' fixture dump) -/

def optText : Option String → String
  | none => "None"
  | some s => "'" ++ s ++ "'"

mutual
def elemText : Elem → String
  | .ref id _ => "(ref " ++ id ++ ")"
  | .score id v => "(score " ++ id ++ " " ++ v ++ ")"
  | .prop n v => "(prop " ++ n ++ " " ++ v ++ ")"
  | .og hid og its => "(og " ++ optText hid ++ " " ++ optText og ++ elemsText its ++ ")"
  | .pg pgid its => "(pg " ++ optText pgid ++ elemsText its ++ ")"
def elemsText : List Elem → String
  | [] => ""
  | e :: es => " " ++ elemText e ++ elemsText es
end

/-! ### 2. the repository fixture `simpleEx` -/

def gd (id prot gene : String) : GeneDecl := { id := id, xrefs := [("protId", prot), ("geneId", gene)] }

def simpleSpecies : List Species :=
  [ { name := "HUMAN", genes := [gd "1" "HUMAN1" "HUMANg1", gd "2" "HUMAN2" "HUMANg2",
                                  gd "3" "HUMAN3" "HUMANg3", gd "5" "HUMAN5" "HUMANg5"] },
    { name := "PANTR", genes := [gd "11" "PANTR1" "PANTRg1", gd "12" "PANTR2" "PANTRg2",
                                  gd "13" "PANTR3" "PANTRg3", gd "14" "PANTR4" "PANTRg4"] },
    { name := "CANFA", genes := [gd "21" "CANFA1" "CANFAg1", gd "22" "CANFA2" "CANFAg2",
                                  gd "23" "CANFA3" "CANFAg3"] },
    { name := "MOUSE", genes := [gd "31" "MOUSE1" "MOUSEg1", gd "32" "MOUSE2" "MOUSEg2",
                                  gd "33" "MOUSE3" "MOUSEg3", gd "34" "MOUSE4" "MOUSEg4"] },
    { name := "RATNO", genes := [gd "41" "RATNO1" "RATNOg1", gd "43" "RATNO3" "RATNOg3"] },
    { name := "XENTR", genes := [gd "51" "XENTR1" "XENTRg1", gd "53" "XENTR3" "XENTRg3"] } ]

/-- a written, labelled group -/
abbrev og (id : String) (subs : List Sub) : SL := .grp true (some id) true subs
/-- a level the file does not write -/
abbrev skip (subs : List Sub) : SL := .grp false none false subs
abbrev ref (id : String) : SL := .gene id none
abbrev score (id v : String) : Sub := .ann (.score id v)

/-- family 1, at Vertebrata -/
def fam1 : SL :=
  og "1" [score "consistency" "1.0",
    .one 0 (ref "51"),
    .one 1 (og "1.M" [score "coverage" "0.84", score "consistency" "0.932",
      .one 1 (ref "21"),
      .one 0 (og "1.M.E" [score "consistency" "1.0",
        .one 0 (og "1.M.E.P" [score "coverage" "1.0", .one 0 (ref "1"), .one 1 (ref "11")]),
        .one 1 (og "1.M.E.R" [.one 0 (ref "31"), .one 1 (ref "41")])])])]

/-- family 2, at Mammalia; MOUSE 32 sits directly in the Euarchontoglires group (Rodents level elided) -/
def fam2 : SL :=
  og "2" [
    .one 1 (ref "22"),
    .one 0 (og "2.E" [
      .one 0 (og "2.E.P" [.one 0 (ref "2"), .one 1 (ref "12")]),
      .one 1 (skip [.one 0 (ref "32")])])]

/-- family 3, at Vertebrata; one duplication on the branch Mammalia → Euarchontoglires -/
def fam3 : SL :=
  og "3" [
    .one 0 (ref "53"),
    .one 1 (og "3.M" [
      .one 1 (ref "23"),
      .dup 0 none [
        og "3.E.1" [
          .one 1 (skip [.one 0 (ref "33")]),
          .one 0 (og "3.E.1.P" [.one 0 (ref "3"), .one 1 (ref "13")])],
        og "3.E.2" [score "coverage" "0.3",
          .one 1 (skip [.one 0 (ref "34")]),
          .one 0 (skip [.one 1 (ref "14")])]]])]

/-- (A) tests/data/simpleEx.orthoxml over tests/data/simpleEx.nwk -/
def simpleEx : Dataset :=
  { T := simpleTree, nm := .own, species := simpleSpecies,
    fams := [([], fam1), ([1], fam2), ([], fam3)] }

/-- (B) the `<groups>` of `simpleEx.file`, one line per top-level element -/
def simpleEx_groups_text : List String := simpleEx.file.groups.map elemText

/-- one lemma per line: kernel evaluation of `String` equality is quadratic in the length -/
theorem simpleEx_line1 : (encode simpleTree .own [] fam1).map elemText =
  ["(og '1' None (prop TaxRange Vertebrata) (score consistency 1.0) (ref 51) (og '1.M' None (prop TaxRange Mammalia) (score coverage 0.84) (score consistency 0.932) (ref 21) (og '1.M.E' None (prop TaxRange Euarchontoglires) (score consistency 1.0) (og '1.M.E.P' None (prop TaxRange Primates) (score coverage 1.0) (ref 1) (ref 11)) (og '1.M.E.R' None (prop TaxRange Rodents) (ref 31) (ref 41)))))"] := by
  decide +kernel

theorem simpleEx_line2 : (encode simpleTree .own [1] fam2).map elemText =
  ["(og '2' None (prop TaxRange Mammalia) (ref 22) (og '2.E' None (prop TaxRange Euarchontoglires) (og '2.E.P' None (prop TaxRange Primates) (ref 2) (ref 12)) (ref 32)))"] := by
  decide +kernel

theorem simpleEx_line3 : (encode simpleTree .own [] fam3).map elemText =
  ["(og '3' None (prop TaxRange Vertebrata) (ref 53) (og '3.M' None (prop TaxRange Mammalia) (ref 23) (pg None (og '3.E.1' None (prop TaxRange Euarchontoglires) (ref 33) (og '3.E.1.P' None (prop TaxRange Primates) (ref 3) (ref 13))) (og '3.E.2' None (prop TaxRange Euarchontoglires) (score coverage 0.3) (ref 34) (ref 14)))))"] := by
  decide +kernel

/-- the `<groups>` section of `simpleEx.file` is the fixture's (TaxRange property first in each group) -/
theorem simpleEx_groups_text_eq : simpleEx_groups_text =
  ["(og '1' None (prop TaxRange Vertebrata) (score consistency 1.0) (ref 51) (og '1.M' None (prop TaxRange Mammalia) (score coverage 0.84) (score consistency 0.932) (ref 21) (og '1.M.E' None (prop TaxRange Euarchontoglires) (score consistency 1.0) (og '1.M.E.P' None (prop TaxRange Primates) (score coverage 1.0) (ref 1) (ref 11)) (og '1.M.E.R' None (prop TaxRange Rodents) (ref 31) (ref 41)))))",
   "(og '2' None (prop TaxRange Mammalia) (ref 22) (og '2.E' None (prop TaxRange Euarchontoglires) (og '2.E.P' None (prop TaxRange Primates) (ref 2) (ref 12)) (ref 32)))",
   "(og '3' None (prop TaxRange Vertebrata) (ref 53) (og '3.M' None (prop TaxRange Mammalia) (ref 23) (pg None (og '3.E.1' None (prop TaxRange Euarchontoglires) (ref 33) (og '3.E.1.P' None (prop TaxRange Primates) (ref 3) (ref 13))) (og '3.E.2' None (prop TaxRange Euarchontoglires) (score coverage 0.3) (ref 34) (ref 14)))))"] := by
  simp only [simpleEx_groups_text, Dataset.file, simpleEx, List.flatMap_cons, List.flatMap_nil,
    List.map_append, List.map_nil, simpleEx_line1, simpleEx_line2, simpleEx_line3, List.cons_append,
    List.nil_append]

/-- the species section is the fixture's, in file order with the xref attributes in file order -/
example : simpleEx.file.species.map (fun s => (s.name, s.genes.map fun g => (g.id, g.xrefs))) =
  [("HUMAN", [("1", [("protId", "HUMAN1"), ("geneId", "HUMANg1")]), ("2", [("protId", "HUMAN2"), ("geneId", "HUMANg2")]), ("3", [("protId", "HUMAN3"), ("geneId", "HUMANg3")]), ("5", [("protId", "HUMAN5"), ("geneId", "HUMANg5")])]),
   ("PANTR", [("11", [("protId", "PANTR1"), ("geneId", "PANTRg1")]), ("12", [("protId", "PANTR2"), ("geneId", "PANTRg2")]), ("13", [("protId", "PANTR3"), ("geneId", "PANTRg3")]), ("14", [("protId", "PANTR4"), ("geneId", "PANTRg4")])]),
   ("CANFA", [("21", [("protId", "CANFA1"), ("geneId", "CANFAg1")]), ("22", [("protId", "CANFA2"), ("geneId", "CANFAg2")]), ("23", [("protId", "CANFA3"), ("geneId", "CANFAg3")])]),
   ("MOUSE", [("31", [("protId", "MOUSE1"), ("geneId", "MOUSEg1")]), ("32", [("protId", "MOUSE2"), ("geneId", "MOUSEg2")]), ("33", [("protId", "MOUSE3"), ("geneId", "MOUSEg3")]), ("34", [("protId", "MOUSE4"), ("geneId", "MOUSEg4")])]),
   ("RATNO", [("41", [("protId", "RATNO1"), ("geneId", "RATNOg1")]), ("43", [("protId", "RATNO3"), ("geneId", "RATNOg3")])]),
   ("XENTR", [("51", [("protId", "XENTR1"), ("geneId", "XENTRg1")]), ("53", [("protId", "XENTR3"), ("geneId", "XENTRg3")])])] := by
  decide +kernel

theorem simpleEx_check : Check simpleEx where
  names := by decide
  species_ok := by decide
  fams_ok := by decide
  genes_nodup := by decide
  refs_nodup := by decide
  declared := by decide
  top_ids := by decide

/-- (C) the fixture is a consistent dataset -/
theorem simpleEx_consistent : simpleEx.Consistent := simpleEx_check.consistent

/-- (D) hence it loads, and the loaded analysis is well-formed with exact registries -/
theorem simpleEx_loads : ∃ H, load simpleEx.T simpleEx.nm simpleEx.file = .ok H ∧ H.wf = true ∧
    H.regExact = true ∧ H.sizesExact = true :=
  loaded_consistent_wf simpleEx simpleEx_consistent

/-! ### 3. a second dataset: elided levels, spilled paralogGroup, lift, polytomy -/

/-- (A,(B,C,D)X,(((E,F)W,H)Y,G)Z)R; — the root and X are polytomies.
    A = [0], X = [1], B = [0,1], C = [1,1], D = [2,1], Z = [2], Y = [0,2], W = [0,0,2], E = [0,0,0,2],
    F = [1,0,0,2], H = [1,0,2], G = [1,2] -/
def polyTree : STree :=
  .node "R" [.node "A" [],
    .node "X" [.node "B" [], .node "C" [], .node "D" []],
    .node "Z" [.node "Y" [.node "W" [.node "E" [], .node "F" []], .node "H" []], .node "G" []]]

def g (id : String) : GeneDecl := { id := id, xrefs := [("protId", "p" ++ id)] }

/-- G has no genes; "f9" and "b9" are in no family (singletons) -/
def polySpecies : List Species :=
  [ { name := "A", genes := [g "a1"] },
    { name := "B", genes := [g "b1", g "b9"] },
    { name := "C", genes := [g "c1"] },
    { name := "D", genes := [g "d1"] },
    { name := "E", genes := [g "e1", g "e2", g "e3"] },
    { name := "F", genes := [g "f1", g "f9"] },
    { name := "G", genes := [] },
    { name := "H", genes := [g "h1", g "h2"] } ]

/-- family at the root: C's gene sits directly in the root group (level X elided, a single-member
    level); the level Z is not written and carries a duplication on the branch to Y, so the
    paralogGroup spills into the root group; its copies are a written group at Y and a gene of E
    (levels Y and W elided) -/
def famP1 : SL :=
  og "P1" [score "s" "1",
    .one 0 (ref "a1"),
    .one 1 (skip [.one 1 (ref "c1")]),
    .one 2 (skip [.dup 0 none [
      og "P1.Ya" [
        .one 0 (og "P1.W" [.one 0 (ref "e1"), .one 1 (ref "f1")]),
        .one 1 (ref "h1")],
      skip [.one 0 (skip [.one 0 (ref "e2")])]]])]

/-- family rooted at Z (below the tree root), no TaxRange property: its only content is a
    paralogGroup whose copies are elided to different depths (a gene of E two levels down, a gene of H
    one level down); the MRCA rule alone would put the group at Y, the lift to the duplication's level
    puts it at Z -/
def famP2 : SL :=
  .grp true (some "P2") false [
    .dup 0 (some "7") [
      skip [.one 0 (skip [.one 0 (ref "e3")])],
      skip [.one 1 (ref "h2")]]]

/-- family at the polytomy X: C's branch is lost; a score and a non-TaxRange property -/
def famP3 : SL :=
  og "P3" [score "coverage" "0.5", .ann (.prop "note" "x"),
    .one 0 (ref "b1"),
    .one 2 (.gene "d1" (some "P3.1a"))]

/-- (E) -/
def elided : Dataset :=
  { T := polyTree, nm := .own, species := polySpecies,
    fams := [([], famP1), ([2], famP2), ([1], famP3)] }

/-- what the file looks like -/
example : elided.file.groups.map elemText =
  ["(og 'P1' None (prop TaxRange R) (score s 1) (ref a1) (ref c1) (pg None (og 'P1.Ya' None (prop TaxRange Y) (og 'P1.W' None (prop TaxRange W) (ref e1) (ref f1)) (ref h1)) (ref e2)))",
   "(og 'P2' None (pg '7' (ref e3) (ref h2)))",
   "(og 'P3' None (prop TaxRange X) (score coverage 0.5) (prop note x) (ref b1) (ref d1))"] := by
  decide +kernel

/-- the lift is needed for family P2: the MRCA rule alone gives Y = [0,2], not Z = [2] -/
example : ∃ subs, famP2 = .grp true (some "P2") false subs ∧
    ruleLevel (appTaxaSubs [2] subs) [] = some [0, 2] ∧
    ruleLevel (appTaxaSubs [2] subs) (spillSubs [2] subs) = some [2] :=
  ⟨_, rfl, by decide, by decide⟩

theorem elided_check : Check elided where
  names := by decide
  species_ok := by decide
  fams_ok := by decide
  genes_nodup := by decide
  refs_nodup := by decide
  declared := by decide
  top_ids := by decide

theorem elided_consistent : elided.Consistent := elided_check.consistent

theorem elided_loads : ∃ H, load elided.T elided.nm elided.file = .ok H ∧ H.wf = true ∧
    H.regExact = true ∧ H.sizesExact = true :=
  loaded_consistent_wf elided elided_consistent

/-! ### 4. the hypotheses of other theorems, met by these data -/

/-- C07: Mammalia = [1] is a proper ancestor of Primates = [0,0,1] -/
example : ([1] : Taxon) <:+ [0, 0, 1] ∧ ([1] : Taxon) ≠ [0, 0, 1] := by decide

/-- does the loaded analysis have a member strictly below `b`? -/
def hasMemberBelow (D : Dataset) (b : Taxon) : Bool :=
  match load D.T D.nm D.file with
  | .ok H => H.allLocs.any fun r => decide (b <:+ r.node.tx) && r.node.tx != b
  | .error _ => false

theorem member_below_of (D : Dataset) (b : Taxon) (h : hasMemberBelow D b = true) (H : Ham)
    (hl : load D.T D.nm D.file = .ok H) : ∃ r ∈ H.allLocs, b <:+ r.node.tx ∧ b ≠ r.node.tx := by
  unfold hasMemberBelow at h
  rw [hl] at h
  obtain ⟨r, hr, hb⟩ := List.any_eq_true.mp h
  simp only [Bool.and_eq_true, decide_eq_true_eq, bne_iff_ne, ne_eq] at hb
  exact ⟨r, hr, hb.1, fun e => hb.2 e.symm⟩

/-- every hypothesis of `C07_compose` is met on the loaded fixture with a = Mammalia, b = Primates and
    a member `r` of a genome below Primates -/
theorem simpleEx_C07_hyps : ∃ (H : Ham) (a b : Taxon) (r : Loc),
    load simpleEx.T simpleEx.nm simpleEx.file = .ok H ∧ H.WFc ∧ a <:+ b ∧ a ≠ b ∧ r ∈ H.allLocs ∧
      b <:+ r.node.tx ∧ b ≠ r.node.tx := by
  obtain ⟨H, hl, _, _, hw, _⟩ := loaded_consistent simpleEx simpleEx_consistent
  obtain ⟨r, hr, h1, h2⟩ := member_below_of simpleEx [0, 0, 1] (by decide +kernel) H hl
  exact ⟨H, [1], [0, 0, 1], r, hl, hw, by decide, by decide, hr, h1, h2⟩

/-- ... so its conclusion holds there -/
example : ∃ (H : Ham) (r : Loc), r ∈ H.allLocs ∧
    (∀ y g, search [0, 0, 1] r = (some y, g) →
        ∃ post, (⟨y, post⟩ : Loc) ∈ H.nodesAt [0, 0, 1] ∧
          search [1] r = ((search [1] ⟨y, post⟩).1, g || (search [1] ⟨y, post⟩).2)) := by
  obtain ⟨H, hl, _, _, hw, _⟩ := loaded_consistent simpleEx simpleEx_consistent
  obtain ⟨r, hr, h1, h2⟩ := member_below_of simpleEx [0, 0, 1] (by decide +kernel) H hl
  exact ⟨H, r, hr, (C07_compose H hw [1] [0, 0, 1] (by decide) (by decide) r hr h1 h2).1⟩

/-- the same on the second dataset: a = R, b = Y, a member below Y (inside the spilled duplication) -/
theorem elided_C07_hyps : ∃ (H : Ham) (a b : Taxon) (r : Loc),
    load elided.T elided.nm elided.file = .ok H ∧ H.WFc ∧ a <:+ b ∧ a ≠ b ∧ r ∈ H.allLocs ∧
      b <:+ r.node.tx ∧ b ≠ r.node.tx := by
  obtain ⟨H, hl, _, _, hw, _⟩ := loaded_consistent elided elided_consistent
  obtain ⟨r, hr, h1, h2⟩ := member_below_of elided [0, 2] (by decide +kernel) H hl
  exact ⟨H, [], [0, 2], r, hl, hw, by decide, by decide, hr, h1, h2⟩

/-- the gene table the loader builds from the species declarations -/
def envOf (D : Dataset) : Env :=
  { T := D.T, nm := D.nm,
    geneTx := D.species.flatMap fun s =>
      match resolveSpecies D.T D.nm s.name with
      | .ok p => s.genes.map fun gd => (gd.id, p)
      | .error _ => [] }

/-- C03: the hypotheses `hf`, `hn` of `C03_load_realises` for the families of the fixture -/
theorem simpleEx_C03_hf : ∀ f ∈ simpleEx.fams, isWrittenGrp f.2 = true ∧
    wfh (envOf simpleEx).T f.1 f.2 = true ∧ recoverable f.1 f.2 = true ∧
    Declared (envOf simpleEx) f.1 f.2 ∧ (genesOf f.2).Nodup := by
  have hd : ∀ f ∈ simpleEx.fams, ∀ e ∈ geneTaxaSL f.1 f.2, (envOf simpleEx).lookupGene e.1 = some e.2 := by
    decide
  have hn : ∀ f ∈ simpleEx.fams, (genesOf f.2).Nodup := by decide
  intro f hf
  obtain ⟨h1, h2, h3⟩ := simpleEx_consistent.fams_ok f hf
  exact ⟨h1, h2, h3, hd f hf, hn f hf⟩

theorem simpleEx_C03_hn : NamesInj (envOf simpleEx).T (envOf simpleEx).nm := simpleEx_consistent.names

example : ∃ tops ps, topElems (envOf simpleEx) none
      (simpleEx.fams.flatMap fun f => encode (envOf simpleEx).T (envOf simpleEx).nm f.1 f.2) [] {} = .ok (tops, ps) ∧
    tops.length = simpleEx.fams.length ∧
    ∀ i (h1 : i < tops.length) (h2 : i < simpleEx.fams.length),
      Realises (simpleEx.fams[i]).1 (simpleEx.fams[i]).2 tops[i] :=
  C03_load_realises (envOf simpleEx) simpleEx.fams simpleEx_C03_hf simpleEx_C03_hn

theorem elided_C03_hf : ∀ f ∈ elided.fams, isWrittenGrp f.2 = true ∧
    wfh (envOf elided).T f.1 f.2 = true ∧ recoverable f.1 f.2 = true ∧
    Declared (envOf elided) f.1 f.2 ∧ (genesOf f.2).Nodup := by
  have hd : ∀ f ∈ elided.fams, ∀ e ∈ geneTaxaSL f.1 f.2, (envOf elided).lookupGene e.1 = some e.2 := by
    decide
  have hn : ∀ f ∈ elided.fams, (genesOf f.2).Nodup := by decide
  intro f hf
  obtain ⟨h1, h2, h3⟩ := elided_consistent.fams_ok f hf
  exact ⟨h1, h2, h3, hd f hf, hn f hf⟩

/-- C17 (`C17_history_independent`) has no hypotheses; on the loaded fixture it reads -/
example (ops : List Op) : ∃ H, load simpleEx.T simpleEx.nm simpleEx.file = .ok H ∧
    (run (SState.init H) ops).1.H = H ∧ (run (SState.init H) ops).2 = ops.map (answer H) := by
  obtain ⟨H, hl, _⟩ := simpleEx_loads
  exact ⟨H, hl, C17_history_independent H ops⟩

/-- non-vacuity of `C09_profile_numbers_are_the_history`: the repository's fixture has one duplication event with two
    copies on the branch into Euarchontoglires/Primates side ([0, 1]), the second witness two events with four copies -/
theorem history_counts_nonzero :
    (simpleEx.fams.map fun f => copiesInto [0, 1] f.1 f.2).sum = 2 ∧
    (simpleEx.fams.map fun f => eventsInto [0, 1] f.1 f.2).sum = 1 ∧
    (elided.fams.map fun f => copiesInto [0, 2] f.1 f.2).sum = 4 ∧
    (elided.fams.map fun f => eventsInto [0, 2] f.1 f.2).sum = 2 := by decide

/-- non-vacuity of `C09_leaf_profile_from_dataset`: in the repository's fixture HUMAN ([0,0,0,1]) declares four genes of
    which gene 5 is in no family, RATNO declares two of which 43 is in no family; the second witness likewise -/
theorem leaf_counts_nonzero :
    simpleTree.isLeafAt [0, 0, 0, 1] = true ∧
    (simpleEx.declaredAt [0, 0, 0, 1]).length = 4 ∧ simpleEx.unreferencedAt [0, 0, 0, 1] = ["5"] ∧
    (simpleEx.declaredAt [1, 1, 0, 1]).length = 2 ∧ simpleEx.unreferencedAt [1, 1, 0, 1] = ["43"] ∧
    (elided.declaredAt [0, 1]).length = 2 ∧ elided.unreferencedAt [0, 1] = ["b9"] := by decide +kernel

/-- non-vacuity of `C06_gained_count_is_the_history`: in the repository's fixture one family starts strictly below the root
    (at [1]) and has one lineage there; in the second witness two such lineages cross [0, 2]; families that reach `a` count 0 -/
theorem gained_counts_nonzero :
    simpleTree.isInternalAt [1] = true ∧
    (simpleEx.fams.map fun f => if f.1.isSuffixOf [] then 0 else lineagesAt [1] f.1 f.2).sum = 1 ∧
    (simpleEx.fams.map fun f => if f.1.isSuffixOf [1] then 0 else lineagesAt [0, 1] f.1 f.2).sum = 0 ∧
    elided.T.isInternalAt [0, 2] = true ∧
    (elided.fams.map fun f => if f.1.isSuffixOf [] then 0 else lineagesAt [0, 2] f.1 f.2).sum = 2 := by decide +kernel

/-- non-vacuity of `C06_lost_count_is_the_history`: evaluated on the two witness datasets (in the second one a lineage at [0, 2] is extinct at [0, 0, 2]) -/
theorem lost_counts_evaluated :
    (simpleEx.fams.map fun f => extinctAt [] [1] f.1 f.2).sum = 0 ∧
    (elided.fams.map fun f => extinctAt [0, 2] [0, 0, 2] f.1 f.2).sum = 1 ∧
    (elided.fams.map fun f => extinctAt [] [0, 0, 2] f.1 f.2).sum = 0 := by decide +kernel

/-- non-vacuity of `C06_reported_count_is_the_history`: on the repository's fixture the branch root → [0, 1] carries duplicated
    copies and retained genes -/
theorem reported_counts_evaluated :
    (simpleEx.fams.map fun f => reportedAt true [] [0, 1] f.1 none f.2).sum +
      (simpleEx.fams.map fun f => reportedAt false [] [0, 1] f.1 none f.2).sum =
      (simpleEx.fams.map fun f => if f.1.isSuffixOf [] then lineagesAt [0, 1] f.1 f.2 else 0).sum ∧
    0 < (simpleEx.fams.map fun f => reportedAt true [] [0, 1] f.1 none f.2).sum := by decide +kernel

/-- non-vacuity of `C01_species_after_groups`: a document whose last species section (declaring an unreferenced gene) follows
    the groups section meets both hypotheses -- every section resolves, no late gene is referenced -- and the streaming run of
    that document succeeds -/
theorem late_species_hypotheses_met :
    let T : STree := .node "R" [.node "A" [], .node "B" []]
    let early : List Species := [{ name := "A", genes := [{ id := "a1", xrefs := [] }, { id := "a2", xrefs := [] }] }]
    let late : List Species := [{ name := "B", genes := [{ id := "b9", xrefs := [] }] }]
    let groups : List Elem := [.og (some "1") none [.pg none [.ref "a1" none, .ref "a2" none]]]
    (match declareSpecies T .own (fun _ => true) (early ++ late) [] with | .ok all => all.length == 3 | .error _ => false) = true ∧
    ((refsOfL groups).all fun id => late.all fun s => s.genes.all fun g => g.id != id) = true ∧
    (match Sax.drun T .own (fun _ => true) none (Sax.spEvents early ++ ((Sax.eventsL groups).map .grp ++ Sax.spEvents late)) {} with
      | .ok d => d.genes.length == 3 && d.ms.tops.length == 1 | .error _ => false) = true := by
  decide +kernel

end Pyham.Witness
