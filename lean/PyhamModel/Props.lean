/-
  THE PROPERTY THEOREMS.  Only statements that formalise the properties C01 … C20 of
  /verif/properties.jsonl live here; every proof is a reference to the lemma files.
  `PyhamModel/Audit.lean` prints the axioms of each of them; the checker parses that output.

  Conventions
  * `H : Ham` is a loaded analysis (model of `pyham.Ham` after `__init__`), `H.WFc` the part of the
    well-formedness predicate `Ham.wf` (property C02) the comparison theorems need.
  * taxa are child-index lists nearest-first: `a <:+ d` = "a is an ancestor-or-self of d".
  * "for every loaded consistent input" is reached through C03 (`Realises`) + `RealisesLemmas`.
-/
import PyhamModel.Lemmas.Leaves
import PyhamModel.Lemmas.Registry
import PyhamModel.Lemmas.Compose
import PyhamModel.Lemmas.Lateral
import PyhamModel.Lemmas.Balance
import PyhamModel.Lemmas.ExportLemmas
import PyhamModel.Lemmas.LookupLemmas
import PyhamModel.Lemmas.NavLemmas
import PyhamModel.Lemmas.SessionLemmas
import PyhamModel.Lemmas.TreeLemmas
import PyhamModel.Lemmas.Faults
import PyhamModel.Lemmas.Explicit
import PyhamModel.Lemmas.RealisesLemmas
import PyhamModel.Lemmas.Refinement
import PyhamModel.Lemmas.Additivity
import PyhamModel.Lemmas.FilterLemmas
import PyhamModel.Lemmas.NamingLemmas
import PyhamModel.Lemmas.Spelling
import PyhamModel.Lemmas.Annotations
import PyhamModel.Lemmas.Capstone
import PyhamModel.Lemmas.CapstoneWF
import PyhamModel.Lemmas.Clustering
import PyhamModel.Lemmas.NewickLemmas
import PyhamModel.Lemmas.AggLemmas
import PyhamModel.Lemmas.RoundtripLoaded
import PyhamModel.Lemmas.Declared
import PyhamModel.Lemmas.NestedPg
import PyhamModel.Lemmas.NestedPgCx
import PyhamModel.Lemmas.Locality
import PyhamModel.Lemmas.OmaLemmas
import PyhamModel.Lemmas.Listing
import PyhamModel.Lemmas.Corollaries
import PyhamModel.Lemmas.SameHierarchy
import PyhamModel.Lemmas.CheckerSound
import PyhamModel.Lemmas.LineageCount
import PyhamModel.Lemmas.FilterIdentical
import PyhamModel.Lemmas.FilterFaults
import PyhamModel.Lemmas.Meaning
import PyhamModel.Lemmas.FamilyProfile
import PyhamModel.Lemmas.Iso
import PyhamModel.Lemmas.IsoCounts
import PyhamModel.Lemmas.IsoWF
import PyhamModel.Lemmas.HistoryProfile
import PyhamModel.Lemmas.HistoryInvariance
import PyhamModel.Lemmas.FilterAbsent
import PyhamModel.Lemmas.Interleave
import PyhamModel.Lemmas.LeafProfile
import PyhamModel.Lemmas.SaxSim
import PyhamModel.Lemmas.Chaining
import PyhamModel.Lemmas.GainedCount
import PyhamModel.Lemmas.LostCount
import PyhamModel.Lemmas.LongBranchInvariance
import PyhamModel.Lemmas.ReportedCount
import PyhamModel.Lemmas.LateSpecies
namespace Pyham.Props
open Pyham

/-! ## Every consistent dataset loads into a well-formed analysis

  `Dataset.Consistent` is the properties' "HOG orthoXML consistent with the species tree": species
  names are leaf names, gene ids unique, every gene referenced at most once and declared in the species
  of its leaf, every family a written group encoding a well-formed recoverable history, node names
  unambiguous, family ids distinct.  The theorems below about comparisons and profiles are stated for
  every well-formed hierarchy (`H.WFc`, `H.sizesExact`); this theorem makes them apply to every loaded
  consistent input. -/

theorem consistent_dataset_loads_wellformed (D : Dataset) (hc : D.Consistent) :
    ∃ H, load D.T D.nm D.file = .ok H ∧
      H.tops.length = D.fams.length ∧
      (∀ i (h1 : i < H.tops.length) (h2 : i < D.fams.length),
          (H.tops[i]).1 = topHid (D.fams[i]).2 ∧ Realises (D.fams[i]).1 (D.fams[i]).2 (H.tops[i]).2) ∧
      H.WFc ∧ H.sizesExact = true ∧
      (H.genes.map (·.id)) = D.species.flatMap (fun s => s.genes.map (·.id)) :=
  loaded_consistent D hc

/-- ... and the full decidable predicate `Ham.wf` (= the predicate WF of property C02: every top an
    unflagged HOG, aligned, disciplined, events and flags consistent, genes at leaves, all identities
    distinct) together with exact genome gene lists -/
theorem consistent_dataset_loads_wf (D : Dataset) (hc : D.Consistent) :
    ∃ H, load D.T D.nm D.file = .ok H ∧ H.wf = true ∧ H.regExact = true ∧ H.sizesExact = true :=
  loaded_consistent_wf D hc

/-! ## C01 — every referenced gene is loaded exactly once, in its family -/

/-- for ANY input on which the (unfiltered) load succeeds: the families together hold exactly the
    referenced genes, each as often as it is referenced — nothing is lost, duplicated or moved by the
    reconstruction of missing levels and the re-homing of duplicated children -/
theorem C01_no_gene_lost_or_duplicated (env : Env) (es : List Elem) (tops : List Node) (ps : PS)
    (h : topElems env none es [] {} = .ok (tops, ps)) :
    (Node.leavesL tops).Perm (refsOfL es) := by
  have := (topElems_leaves env es [] {} tops ps h (by simp [HogKeysNodup]) (by intro k hk; simp at hk)).1
  simpa [Node.leavesL] using this

/-- … and family by family: the i-th top-level HOG holds exactly the genes referenced inside the
    i-th top-level group -/
theorem C01_members_per_family (env : Env) (es : List Elem) (tops : List Node) (ps : PS)
    (h : topElems env none es [] {} = .ok (tops, ps)) (hog : es.all isOg = true) :
    tops.length = es.length ∧
      ∀ i (h1 : i < tops.length) (h2 : i < es.length), (tops[i]).leaves.Perm (refsOf es[i]) :=
  topElems_families env es {} tops ps h hog

/-- the extant genes of a loaded analysis are exactly the `<gene>` elements of the file, in file order,
    each attached to the species that declares it and carrying all its cross-reference ids (C01 / C19) -/
theorem C01_extant_genes_are_the_declared (T : STree) (nm : Naming) (inp : Input) (H : Ham)
    (h : load T nm inp = .ok H) :
    H.genes.map (fun g => (g.id, g.species, g.xrefs)) =
      inp.species.flatMap (fun s => s.genes.map fun g => (g.id, s.name, g.xrefs)) :=
  Pyham.C01_extant_genes_are_the_declared T nm inp H h

/-! ## C03 — levels and duplication events are reconstructed by the MRCA rule -/

/-- fully explicit encodings: every family of the file is loaded, in order, and the loaded HOG
    realises the simulated true history (one HOG per group at its taxon, children one level down, one
    duplication record per duplication with exactly its copies as members) -/
theorem C03_explicit (env : Env) (fams : List (Taxon × SL))
    (hf : ∀ f ∈ fams, isGrp f.2 = true ∧ wfh env.T f.1 f.2 = true ∧ explicit f.2 = true ∧ Declared env f.1 f.2 ∧
      (genesOf f.2).Nodup)
    (hn : NamesInj env.T env.nm) :
    ∃ tops ps, topElems env none (fams.flatMap fun f => encode env.T env.nm f.1 f.2) [] {} = .ok (tops, ps) ∧
      tops.length = fams.length ∧
      ∀ i (h1 : i < tops.length) (h2 : i < fams.length), Realises (fams[i]).1 (fams[i]).2 tops[i] :=
  Pyham.C03_explicit env fams hf hn

/-- **the general case**: for every well-formed, recoverable spelled history -- elided single-member
    levels, duplications whose copies sit several levels below the enclosing written group, groups
    whose only content is a paralog group -- every family of the file is loaded, in order, and the
    loaded HOG realises its history: each orthologGroup becomes one HOG at the level the MRCA rule
    gives it, every skipped level is materialised as a single-child HOG, every duplication event sits
    directly under a HOG at its own level with exactly its copies as members -/
theorem C03_load_realises (env : Env) (fams : List (Taxon × SL))
    (hf : ∀ f ∈ fams, isWrittenGrp f.2 = true ∧ wfh env.T f.1 f.2 = true ∧ recoverable f.1 f.2 = true ∧
      Declared env f.1 f.2 ∧ (genesOf f.2).Nodup)
    (hn : NamesInj env.T env.nm) :
    ∃ tops ps, topElems env none (fams.flatMap fun f => encode env.T env.nm f.1 f.2) [] {} = .ok (tops, ps) ∧
      tops.length = fams.length ∧
      ∀ i (h1 : i < tops.length) (h2 : i < fams.length), Realises (fams[i]).1 (fams[i]).2 tops[i] :=
  Pyham.C03_load_realises env fams hf hn

/-! ## C02 — the hierarchy is a forest aligned level-by-level with the species tree -/

/-- the executable checker the driver evaluates on every explored case (echo `real`) is sound for the relation
    `Realises`: an echo `real=1` certifies that the model's load of that case realises its history -/
theorem C03_checker_sound (q : Taxon) (l : SL) (n : Node) (hk : (n.nodes.map Node.key).Nodup)
    (h : realisesB q l n = true) : Realises q l n := realisesB_sound q l n hk h

/-- whatever realises a well-formed history is well-formed: children exactly one level below their
    parent all the way down, paralog discipline, genes at leaves and non-empty HOGs at internal nodes,
    every duplication event attached at its level with at least two flagged children at one child taxon,
    and the member genes are those of the history -/
theorem C02_wf_of_realises (T : STree) (q : Taxon) (l : SL) (n : Node) (hw : wfh T q l = true)
    (h : Realises q l n) :
    n.tx = q ∧ n.aligned = true ∧ n.disciplined = true ∧ n.leaves.Perm (genesOf l) ∧
    (∀ x ∈ n.nodes, (x.isGene = true → T.isLeafAt x.tx = true) ∧
                    (x.isGene = false → T.isInternalAt x.tx = true ∧ x.kids ≠ [])) ∧
    (∀ x ∈ n.hogs, ∀ r ∈ x.dups, r.mrca = x.tx ∧ 2 ≤ r.members.length ∧
      (∀ m ∈ r.members, ∃ k ∈ x.kids, k.key = m ∧ k.dup = some r.did) ∧
      (∃ i, ∀ m ∈ r.members, ∀ k ∈ x.kids, k.key = m → k.dup = some r.did → k.tx = i :: x.tx)) :=
  ⟨realises_tx q l n h, realises_aligned q l n h, realises_disciplined T q l n hw h, realises_leaves q l n h,
   realises_shape T q l n hw h, realises_events T q l n hw h⟩

/-- in a well-formed analysis (every loaded consistent input, `consistent_dataset_loads_wf`) every gene and HOG occurs exactly
    once among the located members -- it is reachable from exactly one top-level HOG, through one chain of parents, or is a
    singleton -- and is identified by its identity -/
theorem C02_each_member_once (H : Ham) (hw : H.WFc) :
    H.allLocs.Nodup ∧ ∀ l1 ∈ H.allLocs, ∀ l2 ∈ H.allLocs, l1.node.key = l2.node.key → l1 = l2 :=
  ⟨allLocs_nodup hw, fun _ h1 _ h2 hk => key_inj hw h1 h2 hk⟩

/-! ## C04 — genome gene lists are exact -/

/-- for ANY successful load (filtered or not): the registration log (= the gene lists of the ancestral
    genomes) is, up to order, the list of all HOG nodes of the families with their taxa: every HOG
    once, none orphaned, none omitted -/
theorem C04_registration_exact (env : Env) (flt : HogFilter) (es : List Elem) (tops : List Node) (ps : PS)
    (h : topElems env flt es [] {} = .ok (tops, ps)) : ps.reg.Perm (regOfL tops) :=
  Pyham.C04_registration_exact env flt es tops ps h

/-- one HOG per lineage: a hierarchy that realises a history has, at every taxon, as many HOGs as lineages of
    the history cross that taxon -/
theorem C04_one_hog_per_lineage (t q : Taxon) (l : SL) (n : Node) (h : Realises q l n) :
    (n.hogs.filter fun x => x.tx == t).length = lineagesAt t q l := realises_lineage_count t q l n h

/-- **ancestral gene counts equal lineages at a taxon**: for every consistent dataset the ancestral genome at an
    internal taxon lists exactly as many HOGs as family lineages cross it -/
theorem C04_counts_are_lineages (D : Dataset) (hc : D.Consistent) :
    ∃ H, load D.T D.nm D.file = .ok H ∧
      ∀ t, D.T.isInternalAt t = true → H.genomeSize t = (D.fams.map fun f => lineagesAt t f.1 f.2).sum :=
  Pyham.C04_counts_are_lineages D hc

/-! ## C05 — a vertical comparison partitions both genomes -/

theorem C05_descendant_partition (H : Ham) (hw : H.WFc) (a d : Taxon) :
    ((hogsMap H a d).gain ++ (hogsMap H a d).retained.map (·.2) ++ (hogsMap H a d).dupl.flatMap (·.2)).Perm
      ((H.nodesAt d).map Loc.node) :=
  Pyham.C05_descendant_partition H hw a d

theorem C05_ancestor_partition (H : Ham) (hw : H.WFc) (a d : Taxon) :
    (((hogsMap H a d).loss ++ (hogsMap H a d).retained.map (·.1) ++ (hogsMap H a d).dupl.map (·.1)).map Node.key).Perm
      ((H.nodesAt a).map fun l => l.node.key) :=
  Pyham.C05_ancestor_partition H hw a d

theorem C05_sizes (H : Ham) (hw : H.WFc) (a d : Taxon) :
    (H.nodesAt d).length = (hogsMap H a d).gain.length + (hogsMap H a d).retained.length +
        ((hogsMap H a d).dupl.map (·.2.length)).sum ∧
    (H.nodesAt a).length = (hogsMap H a d).loss.length + (hogsMap H a d).retained.length +
        (hogsMap H a d).dupl.length :=
  ⟨C05_descendant_size H hw a d, C05_ancestor_size H hw a d⟩

/-- C05 for every loaded consistent input -/
theorem C05_on_loaded_consistent_input (D : Dataset) (hc : D.Consistent) :
    ∃ H, load D.T D.nm D.file = .ok H ∧ ∀ a d,
      ((hogsMap H a d).gain ++ (hogsMap H a d).retained.map (·.2) ++ (hogsMap H a d).dupl.flatMap (·.2)).Perm
        ((H.nodesAt d).map Loc.node) ∧
      (((hogsMap H a d).loss ++ (hogsMap H a d).retained.map (·.1) ++ (hogsMap H a d).dupl.map (·.1)).map Node.key).Perm
        ((H.nodesAt a).map fun l => l.node.key) := by
  obtain ⟨H, hl, _, _, hw, _, _⟩ := loaded_consistent D hc
  exact ⟨H, hl, fun a d => ⟨Pyham.C05_descendant_partition H hw a d, Pyham.C05_ancestor_partition H hw a d⟩⟩

/-! ## C06 — retained / duplicated / lost / gained mean what the documentation says -/

theorem C06_gained_iff (H : Ham) (a d : Taxon) (n : Node) :
    n ∈ (hogsMap H a d).gain ↔ ∃ r ∈ H.nodesAt d, r.node = n ∧ ∀ y ∈ r.anc, y.tx ≠ a :=
  Pyham.C06_gained_iff H a d n

theorem C06_reported_under (H : Ham) (hw : H.WFc) (a : Taxon) (r : Loc) (hr : r ∈ H.allLocs) (x : Node) (f : Bool) :
    search a r = (some x, f) ↔
      ∃ pre post, r.anc = pre ++ x :: post ∧ x.tx = a ∧
        (∀ y ∈ r.anc, y.tx = a → y = x) ∧ f = (flagged r.node || pre.any flagged) :=
  Pyham.C06_reported_under H hw a r hr x f

theorem C06_lost_iff (H : Ham) (hw : H.WFc) (a d : Taxon) (x : Loc) (hx : x ∈ H.nodesAt a) :
    x.node ∈ (hogsMap H a d).loss ↔ ∀ r ∈ H.nodesAt d, ∀ y ∈ r.anc, y.key ≠ x.node.key :=
  Pyham.C06_lost_iff H hw a d x hx

theorem C06_number_duplications (H : Ham) (a d : Taxon) :
    (hogsMap H a d).ndup = ((hogsMap H a d).dupl.map fun e => e.2.length - 1).sum :=
  Pyham.C06_number_duplications H a d

/-- **retained**: `(x, n)` is an item of RETAINED iff `n` is a member of the descendant genome whose upward search
    ends at the ancestral gene `x` without meeting a duplication (with `C06_reported_under`: `x` is the unique
    ancestor of `n` at the ancestral taxon and neither `n` nor anything strictly between arose by duplication) -/
theorem C06_retained_iff (H : Ham) (hw : H.WFc) (a d : Taxon) (x n : Node) :
    (x, n) ∈ (hogsMap H a d).retained ↔ ∃ r ∈ H.nodesAt d, r.node = n ∧ search a r = (some x, false) :=
  Pyham.C06_retained_iff H hw a d x n

/-- **duplicated**: `n` is in the DUPLICATE list of the ancestral gene with identity `k` iff `n` is a member of the
    descendant genome whose upward search ends at that gene having met a duplication -/
theorem C06_duplicated_iff (H : Ham) (a d : Taxon) (k : Key) (n : Node) :
    (∃ e ∈ (hogsMap H a d).dupl, e.1.key = k ∧ n ∈ e.2) ↔
      ∃ r ∈ H.nodesAt d, r.node = n ∧ ∃ x, search a r = (some x, true) ∧ x.key = k :=
  Pyham.C06_duplicated_iff H a d k n

/-- the keys of RETAINED and DUPLICATE are genes of the ancestral genome; no DUPLICATE list is empty -/
theorem C06_entries_sound (H : Ham) (hw : H.WFc) (a d : Taxon) :
    (∀ e ∈ (hogsMap H a d).retained, e.1.tx = a ∧ ∃ post, (⟨e.1, post⟩ : Loc) ∈ H.nodesAt a) ∧
    (∀ e ∈ (hogsMap H a d).dupl, e.1.tx = a ∧ (∃ post, (⟨e.1, post⟩ : Loc) ∈ H.nodesAt a) ∧ e.2 ≠ []) :=
  Pyham.C06_entries_sound H hw a d

/-- C06 for every loaded consistent input -/
theorem C06_on_loaded_consistent_input (D : Dataset) (hc : D.Consistent) :
    ∃ H, load D.T D.nm D.file = .ok H ∧
      (∀ a d n, n ∈ (hogsMap H a d).gain ↔ ∃ r ∈ H.nodesAt d, r.node = n ∧ ∀ y ∈ r.anc, y.tx ≠ a) ∧
      (∀ a r, r ∈ H.allLocs → ∀ x f, search a r = (some x, f) ↔
          ∃ pre post, r.anc = pre ++ x :: post ∧ x.tx = a ∧
            (∀ y ∈ r.anc, y.tx = a → y = x) ∧ f = (flagged r.node || pre.any flagged)) ∧
      (∀ a d x, x ∈ H.nodesAt a →
          (x.node ∈ (hogsMap H a d).loss ↔ ∀ r ∈ H.nodesAt d, ∀ y ∈ r.anc, y.key ≠ x.node.key)) ∧
      (∀ a d, (hogsMap H a d).ndup = ((hogsMap H a d).dupl.map fun e => e.2.length - 1).sum) :=
  Pyham.C06_on_loaded_consistent_input D hc

/-- **gained = the family is younger than the ancestral genome**: in the comparison of `d` with an ancestor `a`, a gene of `d`
    is GAINED iff the root of its family (the taxon of its top-level HOG, `Loc.rootTx`; the gene's own taxon for a singleton)
    lies strictly below `a` -/
theorem C06_gained_iff_family_younger (H : Ham) (hw : H.WFc) (a d : Taxon) (had : a <:+ d) (hne : a ≠ d) (n : Node) :
    n ∈ (hogsMap H a d).gain ↔ ∃ r ∈ H.nodesAt d, r.node = n ∧ ¬ (r.rootTx <:+ a) :=
  Pyham.C06_gained_iff_family_younger H hw a d had hne n

/-- **how many genes are gained over any branch** (not only a branch of length one), on the hierarchy: the members of `d`
    that belong to families rooted strictly below `a`, plus the singletons of `d` -/
theorem C06_gained_count (H : Ham) (hw : H.WFc) (a d : Taxon) (had : a <:+ d) (hne : a ≠ d) :
    (hogsMap H a d).gain.length =
      famSum H (fun top => if top.tx.isSuffixOf a then 0 else ((locs [] top).filter fun l => l.node.tx == d).length) +
      (singletonsAt H d).length :=
  Pyham.C06_gained_count H hw a d had hne

/-- ... END TO END, on the histories: for every consistent dataset and every ancestral node `d` below `a`, the comparison
    `a → d` reports as many gained genes as the histories of the families that start strictly below `a` have lineages
    crossing `d` -/
theorem C06_gained_count_is_the_history (D : Dataset) (hc : D.Consistent) :
    ∃ H, load D.T D.nm D.file = .ok H ∧ ∀ a d, a <:+ d → a ≠ d → D.T.isInternalAt d = true →
      (hogsMap H a d).gain.length =
        (D.fams.map fun f => if f.1.isSuffixOf a then 0 else lineagesAt d f.1 f.2).sum :=
  Pyham.C06_gained_count_is_the_history D hc

/-- **how many genes are lost over any branch**, on the hierarchy: the members of the genome at `a` with no node at `d` in
    their subtree (every singleton that sits at `a` included) -/
theorem C06_lost_count (H : Ham) (hw : H.WFc) (a d : Taxon) (hne : a ≠ d) :
    (hogsMap H a d).loss.length =
      famSum H (fun top => ((locs [] top).filter fun l =>
        l.node.tx == a && (l.node.nodes.filter fun y => y.tx == d).isEmpty).length) +
      (singletonsAt H a).length :=
  Pyham.C06_lost_count H hw a d hne

/-- ... END TO END, on the histories: for every consistent dataset and ancestral nodes `a`, `d`, the comparison reports as many
    lost genes as lineages of the histories cross `a` and have no lineage crossing `d` below them (`extinctAt`) -/
theorem C06_lost_count_is_the_history (D : Dataset) (hc : D.Consistent) :
    ∃ H, load D.T D.nm D.file = .ok H ∧ ∀ a d, a ≠ d → D.T.isInternalAt a = true → D.T.isInternalAt d = true →
      (hogsMap H a d).loss.length = (D.fams.map fun f => extinctAt a d f.1 f.2).sum :=
  Pyham.C06_lost_count_is_the_history D hc

/-- **how many genes are reported as duplicated / as retained over any branch**, on the hierarchy: one top-down walk per
    family that carries "below a member of `a`, and has a duplication been passed since" (`reportedN`) -/
theorem C06_reported_count (H : Ham) (hw : H.WFc) (a d : Taxon) :
    ((hogsMap H a d).dupl.map (·.2.length)).sum = famSum H (fun top => reportedN true a d none top) ∧
    (hogsMap H a d).retained.length = famSum H (fun top => reportedN false a d none top) :=
  Pyham.C06_reported_count H hw a d

/-- ... END TO END: for every consistent dataset and ANY two taxa, the comparison reports as many duplicated copies (resp.
    retained genes) as lineages of the histories cross `d` below a lineage at `a` with (resp. without) a duplication event on
    the way (`reportedAt`).  With the gained and lost counts: all four cluster sizes of every vertical comparison are functions
    of the histories -/
theorem C06_reported_count_is_the_history (D : Dataset) (hc : D.Consistent) :
    ∃ H, load D.T D.nm D.file = .ok H ∧ ∀ a d,
      ((hogsMap H a d).dupl.map (·.2.length)).sum = (D.fams.map fun f => reportedAt true a d f.1 none f.2).sum ∧
      (hogsMap H a d).retained.length = (D.fams.map fun f => reportedAt false a d f.1 none f.2).sum :=
  Pyham.C06_reported_count_is_the_history D hc

/-- **the number of duplication events of any comparison between ancestral genomes, END TO END** (last clause of C06): events +
    lineages crossing `a` = duplicated copies + lost + retained -- every term on the right, and the lineage count, is a function
    of the histories -/
theorem C06_number_duplications_is_the_history (D : Dataset) (hc : D.Consistent) :
    ∃ H, load D.T D.nm D.file = .ok H ∧ ∀ a d, a ≠ d → D.T.isInternalAt a = true → D.T.isInternalAt d = true →
      (hogsMap H a d).ndup + (D.fams.map fun f => lineagesAt a f.1 f.2).sum =
        (D.fams.map fun f => reportedAt true a d f.1 none f.2).sum + (D.fams.map fun f => extinctAt a d f.1 f.2).sum +
          (D.fams.map fun f => reportedAt false a d f.1 none f.2).sum :=
  Pyham.C06_number_duplications_is_the_history D hc

/-- `Loc.rootTx` is the taxon of the outermost ancestor (the top-level HOG), or of the member itself when it has none -/
theorem C06_rootTx_is_top (H : Ham) (hw : H.WFc) (r : Loc) (hr : r ∈ H.allLocs) :
    (r.anc = [] → r.rootTx = r.node.tx) ∧ (∀ top, r.anc.getLast? = some top → top.tx = r.rootTx) :=
  rootTx_is_top H hw r hr

/-! ## C07 — comparisons compose along a lineage -/

theorem C07_compose (H : Ham) (hw : H.WFc) (a b : Taxon) (hab : a <:+ b) (hne : a ≠ b)
    (r : Loc) (hr : r ∈ H.allLocs) (hbr : b <:+ r.node.tx) (hbne : b ≠ r.node.tx) :
    (∀ y g, search b r = (some y, g) →
        ∃ post, (⟨y, post⟩ : Loc) ∈ H.nodesAt b ∧
          search a r = ((search a ⟨y, post⟩).1, g || (search a ⟨y, post⟩).2)) ∧
    (∀ g, search b r = (none, g) → (search a r).1 = none) :=
  Pyham.C07_compose H hw a b hab hne r hr hbr hbne

/-- C07 for every loaded consistent input -/
theorem C07_on_loaded_consistent_input (D : Dataset) (hc : D.Consistent) :
    ∃ H, load D.T D.nm D.file = .ok H ∧
      ∀ (a b : Taxon), a <:+ b → a ≠ b → ∀ r ∈ H.allLocs, b <:+ r.node.tx → b ≠ r.node.tx →
        (∀ y g, search b r = (some y, g) →
          ∃ post, (⟨y, post⟩ : Loc) ∈ H.nodesAt b ∧
            search a r = ((search a ⟨y, post⟩).1, g || (search a ⟨y, post⟩).2)) ∧
        (∀ g, search b r = (none, g) → (search a r).1 = none) :=
  Pyham.C07_on_loaded_consistent_input D hc

/-- **second sentence of C07** -- gains, losses and duplicated sets over a long branch are determined by chaining the
    comparisons of its sub-branches.  For `a` above `b` above `d` on one lineage: gained over `a → d` = gained over `b → d`,
    or reported under a gene of `b` that is gained over `a → b`; reported under `x` with flag `f` iff reported under some `y` of
    `b` (flag `g`) which is reported under `x` (flag `f'`), `f = g || f'` (RETAINED / DUPLICATE of the long branch are the
    relational composition of those of the sub-branches); lost over `a → d` iff every gene of `b` reported under it is lost
    over `b → d` -/
theorem C07_chained (H : Ham) (hw : H.WFc) (a b d : Taxon) (hab : a <:+ b) (hne : a ≠ b) (hbd : b <:+ d) (hbne : b ≠ d) :
    (∀ n, n ∈ (hogsMap H a d).gain ↔
        n ∈ (hogsMap H b d).gain ∨
        ∃ y, (∃ r ∈ H.nodesAt d, r.node = n ∧ (search b r).1 = some y) ∧ y ∈ (hogsMap H a b).gain) ∧
    (∀ r ∈ H.nodesAt d, ∀ x f, search a r = (some x, f) ↔
        ∃ y g f', search b r = (some y, g) ∧
          (∃ yl ∈ H.nodesAt b, yl.node = y ∧ search a yl = (some x, f')) ∧ f = (g || f')) ∧
    (∀ x ∈ H.nodesAt a, x.node ∈ (hogsMap H a d).loss ↔
        ∀ yl ∈ H.nodesAt b, (∀ x', (search a yl).1 = some x' → x'.key = x.node.key → yl.node ∈ (hogsMap H b d).loss)) :=
  Pyham.C07_chained H hw a b d hab hne hbd hbne

/-- ... for every loaded consistent input -/
theorem C07_chained_on_loaded_consistent_input (D : Dataset) (hc : D.Consistent) :
    ∃ H, load D.T D.nm D.file = .ok H ∧ ∀ (a b d : Taxon), a <:+ b → a ≠ b → b <:+ d → b ≠ d →
      (∀ n, n ∈ (hogsMap H a d).gain ↔
          n ∈ (hogsMap H b d).gain ∨
          ∃ y, (∃ r ∈ H.nodesAt d, r.node = n ∧ (search b r).1 = some y) ∧ y ∈ (hogsMap H a b).gain) ∧
      (∀ x ∈ H.nodesAt a, x.node ∈ (hogsMap H a d).loss ↔
          ∀ yl ∈ H.nodesAt b, (∀ x', (search a yl).1 = some x' → x'.key = x.node.key → yl.node ∈ (hogsMap H b d).loss)) := by
  obtain ⟨H, hl, _, _, hw, _, _⟩ := loaded_consistent D hc
  exact ⟨H, hl, fun a b d h1 h2 h3 h4 => ⟨(Pyham.C07_chained H hw a b d h1 h2 h3 h4).1, (Pyham.C07_chained H hw a b d h1 h2 h3 h4).2.2⟩⟩

/-! ## C08 — lateral = vertical against the common ancestor; argument order irrelevant -/

theorem C08_lateral (H : Ham) (g1 g2 : Taxon) (ml : LMap) (h : lateral H g1 g2 = .ok ml) :
    ml.anc = mrca2 g1 g2 ∧ ml.anc <:+ g1 ∧ ml.anc <:+ g2 ∧
    (∀ e ∈ ml.maps, e.1 ≠ ml.anc ∧ (e.1 = g1 ∨ e.1 = g2) ∧ e.2 = hogsMap H ml.anc e.1 ∧
        vertical H ml.anc e.1 = .ok e.2) ∧
    (∀ g, (g = g1 ∨ g = g2) → g ≠ ml.anc → ∃ e ∈ ml.maps, e.1 = g) :=
  Pyham.C08_lateral H g1 g2 ml h

/-- **lateral comparisons, END TO END**: for every consistent dataset and any two genomes, every map of the lateral comparison
    (one per compared genome other than the common ancestor) reports as many duplicated copies and retained genes as the
    histories say about the branch from the common ancestor to that genome (`C08_lateral` + `C06_reported_count_is_the_history`) -/
theorem C08_lateral_counts_are_the_history (D : Dataset) (hc : D.Consistent) :
    ∃ H, load D.T D.nm D.file = .ok H ∧ ∀ g1 g2 ml, lateral H g1 g2 = .ok ml →
      ml.anc = mrca2 g1 g2 ∧ ∀ e ∈ ml.maps,
        (e.2.dupl.map (·.2.length)).sum = (D.fams.map fun f => reportedAt true (mrca2 g1 g2) e.1 f.1 none f.2).sum ∧
        e.2.retained.length = (D.fams.map fun f => reportedAt false (mrca2 g1 g2) e.1 f.1 none f.2).sum := by
  obtain ⟨H, hl, hrep⟩ := Pyham.C06_reported_count_is_the_history D hc
  refine ⟨H, hl, ?_⟩
  intro g1 g2 ml hml
  obtain ⟨hanc, _, _, hmaps, _⟩ := Pyham.C08_lateral H g1 g2 ml hml
  refine ⟨hanc, ?_⟩
  intro e he
  obtain ⟨_, _, heq, _⟩ := hmaps e he
  rw [heq, hanc]
  exact hrep (mrca2 g1 g2) e.1

theorem C08_lateral_symm (H : Ham) (g1 g2 : Taxon) (m1 m2 : LMap)
    (h1 : lateral H g1 g2 = .ok m1) (h2 : lateral H g2 g1 = .ok m2) : m1.anc = m2.anc ∧ m1.maps.Perm m2.maps :=
  Pyham.C08_lateral_symm H g1 g2 m1 m2 h1 h2

theorem C08_vertical_symm (H : Ham) (g1 g2 : Taxon) : vertical H g1 g2 = vertical H g2 g1 :=
  Pyham.C08_vertical_symm H g1 g2

theorem C08_vertical_not_lineage (H : Ham) (g1 g2 : Taxon) (h1 : ¬ g1 <:+ g2) (h2 : ¬ g2 <:+ g1) :
    vertical H g1 g2 = .error .type :=
  Pyham.C08_vertical_not_lineage H g1 g2 h1 h2

/-- the aggregated dictionaries of the lateral map (`get_lost`, `get_gained`, `get_retained`,
    `get_duplicated`), restricted to a compared genome, are exactly the clusters of its vertical comparison
    against the common ancestor -/
theorem C08_aggregated_views (H : Ham) (hw : H.WFc) (g1 g2 : Taxon) (ml : LMap) (h : lateral H g1 g2 = .ok ml)
    (e : Taxon × HMap) (he : e ∈ ml.maps) :
    ml.gainedIn e.1 = e.2.gain ∧
    ((ml.lostIn e.1).map Node.key).Perm (e.2.loss.map Node.key) ∧
    ((ml.retainedIn e.1).map fun r => (r.1.key, r.2.key)).Perm (e.2.retained.map fun r => (r.1.key, r.2.key)) ∧
    ((ml.duplicatedIn e.1).map fun r => (r.1.key, r.2.map Node.key)).Perm
      (e.2.dupl.map fun r => (r.1.key, r.2.map Node.key)) :=
  ⟨C08_agg_gained H g1 g2 ml h e he, C08_agg_lost H hw g1 g2 ml h e he,
   C08_agg_retained H hw g1 g2 ml h e he, C08_agg_duplicated H hw g1 g2 ml h e he⟩

/-! ## C09 — the whole-dataset tree profile balances on every branch -/

theorem C09_balance (H : Ham) (hw : H.WFc) (hs : H.sizesExact = true) (i : Nat) (u : Taxon)
    (ht : (i :: u) ∈ H.tree.allTaxa) (hu : u ∈ H.tree.allTaxa) :
    ∃ nd lost gain ret dpl,
      profileFullAt H (i :: u) =
        { tx := i :: u, nbr := H.genomeSize (i :: u), dupl := some nd, lost := some lost, gain := some gain,
          retained := some ret, duplication := some dpl, nbrEvents := some (dpl + lost + gain) } ∧
      H.genomeSize (i :: u) = ret + nd + gain ∧
      H.genomeSize (i :: u) + lost = H.genomeSize u + gain + dpl ∧
      (profileFullAt H u).nbr = H.genomeSize u :=
  Pyham.C09_balance H hw hs i u ht hu

/-- C09 for every loaded consistent input -/
theorem C09_on_loaded_consistent_input (D : Dataset) (hc : D.Consistent) :
    ∃ H, load D.T D.nm D.file = .ok H ∧ ∀ i u, (i :: u) ∈ H.tree.allTaxa → u ∈ H.tree.allTaxa →
      ∃ nd lost gain ret dpl,
        profileFullAt H (i :: u) =
          { tx := i :: u, nbr := H.genomeSize (i :: u), dupl := some nd, lost := some lost, gain := some gain,
            retained := some ret, duplication := some dpl, nbrEvents := some (dpl + lost + gain) } ∧
        H.genomeSize (i :: u) = ret + nd + gain ∧
        H.genomeSize (i :: u) + lost = H.genomeSize u + gain + dpl ∧
        (profileFullAt H u).nbr = H.genomeSize u := by
  obtain ⟨H, hl, _, _, hw, hs, _⟩ := loaded_consistent D hc
  exact ⟨H, hl, fun i u ht hu => Pyham.C09_balance H hw hs i u ht hu⟩

/-- **end to end -- the numbers are those of the history**: `copiesInto t q l` is the number of copies that the duplication
    events of the history `l` place on the branch into `t`, `eventsInto t q l` the number of those events.  For every
    consistent dataset the whole-dataset tree profile reports at every non-root node, as "duplicated", the copies the encoded
    histories place on the branch into the node, and as number of duplication events the sum over the events on that branch
    of (copies - 1).  (C09 / C10 / C06 say the numbers are consistent with each other and with the hierarchy; C03 says the
    hierarchy realises the history; this composes them into a statement about the input's meaning.) -/
theorem C09_profile_numbers_are_the_history (D : Dataset) (hc : D.Consistent) :
    ∃ H, load D.T D.nm D.file = .ok H ∧ ∀ i u, (i :: u) ∈ H.tree.allTaxa →
      on (profileFullAt H (i :: u)).dupl = (D.fams.map fun f => copiesInto (i :: u) f.1 f.2).sum ∧
      on (profileFullAt H (i :: u)).duplication =
        (D.fams.map fun f => copiesInto (i :: u) f.1 f.2 - eventsInto (i :: u) f.1 f.2).sum :=
  Pyham.C09_profile_numbers_are_the_history D hc

/-- **the whole profile entry of an ancestral node is a function of the histories**: genes = lineages crossing the node,
    gained = families that start there, duplicated = copies placed on the branch, duplication events = sum of (copies - 1);
    retained and lost are then fixed by the two balance equations -/
theorem C09_profile_from_histories (D : Dataset) (hc : D.Consistent) :
    ∃ H, load D.T D.nm D.file = .ok H ∧ ∀ i u, (i :: u) ∈ H.tree.allTaxa → D.T.isInternalAt (i :: u) = true →
      ∃ ret lost,
        profileFullAt H (i :: u) =
          { tx := i :: u, nbr := (D.fams.map fun f => lineagesAt (i :: u) f.1 f.2).sum,
            dupl := some ((D.fams.map fun f => copiesInto (i :: u) f.1 f.2).sum),
            lost := some lost,
            gain := some ((D.fams.filter fun f => f.1 == i :: u).length),
            retained := some ret,
            duplication := some ((D.fams.map fun f => copiesInto (i :: u) f.1 f.2 - eventsInto (i :: u) f.1 f.2).sum),
            nbrEvents := some ((D.fams.map fun f => copiesInto (i :: u) f.1 f.2 - eventsInto (i :: u) f.1 f.2).sum +
              lost + (D.fams.filter fun f => f.1 == i :: u).length) } ∧
        (D.fams.map fun f => lineagesAt (i :: u) f.1 f.2).sum =
          ret + (D.fams.map fun f => copiesInto (i :: u) f.1 f.2).sum + (D.fams.filter fun f => f.1 == i :: u).length ∧
        (D.fams.map fun f => lineagesAt (i :: u) f.1 f.2).sum + lost =
          (D.fams.map fun f => lineagesAt u f.1 f.2).sum + (D.fams.filter fun f => f.1 == i :: u).length +
            (D.fams.map fun f => copiesInto (i :: u) f.1 f.2 - eventsInto (i :: u) f.1 f.2).sum :=
  Pyham.C09_profile_from_histories D hc

/-- **C14 for the tree profile, whole files**: two consistent datasets over one species tree whose families are spellings of
    the same histories -- members, copies and sub-branches in any order, other ids, with or without labels and annotations,
    levels written or elided, either naming mode -- have the same whole-dataset tree profile entry at every ancestral node -/
theorem C14_profile_same_for_same_histories (D D' : Dataset) (hc : D.Consistent) (hc' : D'.Consistent)
    (hT : D.T = D'.T) (hlen : D.fams.length = D'.fams.length)
    (hs : ∀ i (h1 : i < D.fams.length) (h2 : i < D'.fams.length),
        (D.fams[i]).1 = (D'.fams[i]).1 ∧ SameL (D.fams[i]).2 (D'.fams[i]).2) :
    ∃ H H', load D.T D.nm D.file = .ok H ∧ load D'.T D'.nm D'.file = .ok H' ∧
      ∀ i u, (i :: u) ∈ D.T.allTaxa → D.T.isInternalAt (i :: u) = true →
        profileFullAt H (i :: u) = profileFullAt H' (i :: u) :=
  Pyham.C14_profile_same_for_same_histories D D' hc hc' hT hlen hs

/-- **the profile entry of a species node is a function of the species sections and the histories**: number of genes = genes
    the species section declares, gained = declared genes that no family references (+ families that start there),
    duplicated / duplication events = those of the histories on the branch, retained and lost by the balance equations
    (with `C09_profile_from_histories`: every non-root entry of the profile) -/
theorem C09_leaf_profile_from_dataset (D : Dataset) (hc : D.Consistent) :
    ∃ H, load D.T D.nm D.file = .ok H ∧ ∀ i u, (i :: u) ∈ H.tree.allTaxa → D.T.isLeafAt (i :: u) = true →
      ∃ ret lost,
        profileFullAt H (i :: u) =
          { tx := i :: u, nbr := (D.declaredAt (i :: u)).length,
            dupl := some ((D.fams.map fun f => copiesInto (i :: u) f.1 f.2).sum),
            lost := some lost,
            gain := some ((D.fams.filter fun f => f.1 == i :: u).length + (D.unreferencedAt (i :: u)).length),
            retained := some ret,
            duplication := some ((D.fams.map fun f => copiesInto (i :: u) f.1 f.2 - eventsInto (i :: u) f.1 f.2).sum),
            nbrEvents := some ((D.fams.map fun f => copiesInto (i :: u) f.1 f.2 - eventsInto (i :: u) f.1 f.2).sum +
              lost + ((D.fams.filter fun f => f.1 == i :: u).length + (D.unreferencedAt (i :: u)).length)) } ∧
        (D.declaredAt (i :: u)).length =
          ret + (D.fams.map fun f => copiesInto (i :: u) f.1 f.2).sum +
            ((D.fams.filter fun f => f.1 == i :: u).length + (D.unreferencedAt (i :: u)).length) ∧
        (D.declaredAt (i :: u)).length + lost =
          (D.fams.map fun f => lineagesAt u f.1 f.2).sum +
            ((D.fams.filter fun f => f.1 == i :: u).length + (D.unreferencedAt (i :: u)).length) +
            (D.fams.map fun f => copiesInto (i :: u) f.1 f.2 - eventsInto (i :: u) f.1 f.2).sum :=
  Pyham.C09_leaf_profile_from_dataset D hc

/-- **C14 for comparisons over arbitrary branches, whole files**: two consistent datasets that spell the same histories (any
    order, ids, labels, annotations, elision, either naming mode) report, for every two ancestral nodes `a` above `d`, the same
    number of gained genes and the same number of lost genes, over genomes of the same size -- hence also the same number of
    genes reported under an ancestor (`C05_sizes`) -/
theorem C14_long_branch_counts_same_for_same_histories (D D' : Dataset) (hc : D.Consistent) (hc' : D'.Consistent)
    (hT : D.T = D'.T) (hlen : D.fams.length = D'.fams.length)
    (hs : ∀ i (h1 : i < D.fams.length) (h2 : i < D'.fams.length),
        (D.fams[i]).1 = (D'.fams[i]).1 ∧ SameL (D.fams[i]).2 (D'.fams[i]).2) :
    ∃ H H', load D.T D.nm D.file = .ok H ∧ load D'.T D'.nm D'.file = .ok H' ∧
      ∀ a d, a <:+ d → a ≠ d → D.T.isInternalAt a = true → D.T.isInternalAt d = true →
        (hogsMap H a d).gain.length = (hogsMap H' a d).gain.length ∧
        (hogsMap H a d).loss.length = (hogsMap H' a d).loss.length ∧
        H.genomeSize d = H'.genomeSize d ∧ H.genomeSize a = H'.genomeSize a :=
  Pyham.C14_long_branch_counts_same_for_same_histories D D' hc hc' hT hlen hs

/-- **C14, every vertical comparison, whole files, the reported clusters**: same histories -- for ANY two taxa the same number of
    duplicated copies and of retained genes.  With the theorem above: the sizes of all four clusters of every comparison between
    ancestral genomes do not depend on how the histories are spelled -/
theorem C14_reported_counts_same_for_same_histories (D D' : Dataset) (hc : D.Consistent) (hc' : D'.Consistent)
    (hlen : D.fams.length = D'.fams.length)
    (hs : ∀ i (h1 : i < D.fams.length) (h2 : i < D'.fams.length),
        (D.fams[i]).1 = (D'.fams[i]).1 ∧ SameL (D.fams[i]).2 (D'.fams[i]).2) :
    ∃ H H', load D.T D.nm D.file = .ok H ∧ load D'.T D'.nm D'.file = .ok H' ∧ ∀ a d,
      ((hogsMap H a d).dupl.map (·.2.length)).sum = ((hogsMap H' a d).dupl.map (·.2.length)).sum ∧
      (hogsMap H a d).retained.length = (hogsMap H' a d).retained.length :=
  Pyham.C14_reported_counts_same_for_same_histories D D' hc hc' hlen hs

/-- **C14 for the tree profile at the species nodes**: same histories (any spelling) and species sections that declare the
    same genes for every species, in any order (`declaredAt` resolves the species names against the tree under the dataset's
    own naming mode) -- same profile entry at every leaf -/
theorem C14_leaf_profile_same_for_same_histories (D D' : Dataset) (hc : D.Consistent) (hc' : D'.Consistent)
    (hT : D.T = D'.T) (hlen : D.fams.length = D'.fams.length)
    (hs : ∀ i (h1 : i < D.fams.length) (h2 : i < D'.fams.length),
        (D.fams[i]).1 = (D'.fams[i]).1 ∧ SameL (D.fams[i]).2 (D'.fams[i]).2)
    (hdecl : ∀ t, (D.declaredAt t).Perm (D'.declaredAt t)) :
    ∃ H H', load D.T D.nm D.file = .ok H ∧ load D'.T D'.nm D'.file = .ok H' ∧
      ∀ i u, (i :: u) ∈ D.T.allTaxa → D.T.isLeafAt (i :: u) = true →
        profileFullAt H (i :: u) = profileFullAt H' (i :: u) :=
  Pyham.C14_leaf_profile_same_for_same_histories D D' hc hc' hT hlen hs hdecl

/-- ... and family by family, for whatever realises a well-formed history -/
theorem C10_family_profile_is_the_history (T : STree) (q : Taxon) (l : SL) (top : Node) (hr : Realises q l top)
    (hw : wfh T q l = true) (hc : LClosed (locs [] top)) (i : Nat) (u : Taxon) :
    on (profileHogAt top (i :: u)).dupl = copiesInto (i :: u) q l ∧
    on (profileHogAt top (i :: u)).duplication = copiesInto (i :: u) q l - eventsInto (i :: u) q l ∧
    eventsInto (i :: u) q l ≤ copiesInto (i :: u) q l :=
  realises_profile_counts T q l top hr hw hc i u

/-- the JSON tree of the HTML export embeds exactly the numbers of the profile -/
theorem C09_json_embeds_profile (H : Ham) :
    (profileFullJson H).read [] =
      H.tree.allTaxa.map fun t =>
        (t, (profileFullAt H t).nbr,
          if t = [] then none
          else some ((profileFullAt H t).retained, (profileFullAt H t).dupl, (profileFullAt H t).gain,
                     (profileFullAt H t).lost, (profileFullAt H t).duplication)) :=
  Pyham.C09_json_embeds_profile H

theorem C09_root_and_total (H : Ham) :
    profileFullAt H [] = { tx := [], nbr := H.genomeSize [] } ∧ (profileFull H).map (·.tx) = H.tree.allTaxa :=
  ⟨C09_root H, C09_total H⟩

/-! ## C10 — per-family tree profiles add up to the whole-dataset profile -/

/-- **the tree profile of a single HOG** (first sentence of C10): at every node `i :: u` other than the HOG's own taxon,
    `nbr` counts the family's members living at the node, `dupl` those of them that arose by duplication, `retained` the
    others (`nbr = dupl + retained`), `lost` the family's members at the parent node none of whose children lives at the
    node, and no gain is reported; at the HOG's own taxon only the number of members there is reported -/
theorem C10_family_profile_meaning (top : Node) (ha : top.aligned = true) (i : Nat) (u : Taxon)
    (hne : ((i :: u) == top.tx) = false) :
    (profileHogAt top (i :: u)).nbr = ((locs [] top).filter fun l => l.node.tx == i :: u).length ∧
    on (profileHogAt top (i :: u)).dupl =
      (((locs [] top).filter fun l => l.node.tx == i :: u).filter fun l => l.node.dup.isSome).length ∧
    on (profileHogAt top (i :: u)).retained =
      (((locs [] top).filter fun l => l.node.tx == i :: u).filter fun l => !l.node.dup.isSome).length ∧
    (profileHogAt top (i :: u)).nbr =
      on (profileHogAt top (i :: u)).dupl + on (profileHogAt top (i :: u)).retained ∧
    on (profileHogAt top (i :: u)).lost =
      (((locs [] top).filter fun l => l.node.tx == u).filter
        fun x => !(x.node.kids.any fun c => c.tx == i :: u)).length ∧
    (profileHogAt top (i :: u)).gain = none :=
  Pyham.C10_family_profile_meaning top ha i u hne

theorem C10_family_profile_root (top : Node) :
    profileHogAt top top.tx = { tx := top.tx, nbr := ((locs [] top).filter fun l => l.node.tx == top.tx).length } :=
  Pyham.C10_family_profile_root top

/-- at every non-root node of the tree the six numbers of the whole-dataset profile are the sums of
    the per-family numbers, with singletons counted as gains at their species and each family root as
    a gain at its taxon -/
theorem C10_profiles_add_up (H : Ham) (hw : H.wf = true) (hs : H.sizesExact = true) (i : Nat) (u : Taxon)
    (ht : (i :: u) ∈ H.tree.allTaxa) :
    (profileFullAt H (i :: u)).nbr =
        famSum H (fun top => (profileHogAt top (i :: u)).nbr) + (singletonsAt H (i :: u)).length ∧
    on (profileFullAt H (i :: u)).gain =
        (H.tops.filter fun p => p.2.tx == i :: u).length + (singletonsAt H (i :: u)).length ∧
    on (profileFullAt H (i :: u)).dupl = famSum H (fun top => on (profileHogAt top (i :: u)).dupl) ∧
    on (profileFullAt H (i :: u)).retained = famSum H (fun top => on (profileHogAt top (i :: u)).retained) ∧
    on (profileFullAt H (i :: u)).lost = famSum H (fun top => on (profileHogAt top (i :: u)).lost) ∧
    on (profileFullAt H (i :: u)).duplication = famSum H (fun top => on (profileHogAt top (i :: u)).duplication) :=
  Pyham.C10_profiles_add_up H hw hs i u ht

/-- the same on the level of the vertical comparison with the parent node -/
theorem C10_additivity (H : Ham) (hw : H.wf = true) (i : Nat) (u : Taxon) (ht : (i :: u) ∈ H.tree.allTaxa) :
    (H.nodesAt (i :: u)).length =
        famSum H (fun top => (profileHogAt top (i :: u)).nbr) + (singletonsAt H (i :: u)).length ∧
    (hogsMap H u (i :: u)).gain.length =
        (H.tops.filter fun p => p.2.tx == i :: u).length + (singletonsAt H (i :: u)).length ∧
    ((hogsMap H u (i :: u)).dupl.map (·.2.length)).sum = famSum H (fun top => on (profileHogAt top (i :: u)).dupl) ∧
    (hogsMap H u (i :: u)).retained.length = famSum H (fun top => on (profileHogAt top (i :: u)).retained) ∧
    (hogsMap H u (i :: u)).loss.length = famSum H (fun top => on (profileHogAt top (i :: u)).lost) ∧
    (hogsMap H u (i :: u)).ndup = famSum H (fun top => on (profileHogAt top (i :: u)).duplication) :=
  Pyham.C10_additivity_partial H hw i u ht

/-- C10 for every loaded consistent input -/
theorem C10_on_loaded_consistent_input (D : Dataset) (hc : D.Consistent) :
    ∃ H, load D.T D.nm D.file = .ok H ∧ ∀ i u, (i :: u) ∈ H.tree.allTaxa →
      (profileFullAt H (i :: u)).nbr =
          famSum H (fun top => (profileHogAt top (i :: u)).nbr) + (singletonsAt H (i :: u)).length ∧
      on (profileFullAt H (i :: u)).gain =
          (H.tops.filter fun p => p.2.tx == i :: u).length + (singletonsAt H (i :: u)).length ∧
      on (profileFullAt H (i :: u)).dupl = famSum H (fun top => on (profileHogAt top (i :: u)).dupl) ∧
      on (profileFullAt H (i :: u)).retained = famSum H (fun top => on (profileHogAt top (i :: u)).retained) ∧
      on (profileFullAt H (i :: u)).lost = famSum H (fun top => on (profileHogAt top (i :: u)).lost) ∧
      on (profileFullAt H (i :: u)).duplication = famSum H (fun top => on (profileHogAt top (i :: u)).duplication) := by
  obtain ⟨H, hl, hw, _, hs⟩ := loaded_consistent_wf D hc
  exact ⟨H, hl, fun i u ht => Pyham.C10_profiles_add_up H hw hs i u ht⟩

/-! ## C11 — a filtered load is the projection of the full load onto the selected families -/

/-- the filtered load of a file IS the unfiltered load of the projected file (only the kept genes, only
    the kept families): unselected families and their genes are absent from everything, and the
    position of a selected family among skipped ones cannot matter -/
theorem C11_filtered_is_projection (T : STree) (nm : Naming) (inp : Input) (keep : String → Bool) (ids : List String)
    (h : inp.groups.all isOgWithId = true) :
    buildHam T nm inp keep (some ids) = buildHam T nm (projectInput inp keep ids) (fun _ => true) none :=
  Pyham.C11_filtered_is_projection T nm inp keep ids h

theorem C11_loadFiltered (T : STree) (nm : Naming) (inp : Input) (f : Filter) (h : inp.groups.all isOgWithId = true) :
    ∃ gids hids, filterTops f inp.groups (filterGenes f inp.species, []) = .ok (gids, hids) ∧
      loadFiltered T nm inp f = buildHam T nm (projectInput inp gids.contains hids) (fun _ => true) none :=
  Pyham.C11_loadFiltered T nm inp f h

/-- **unselected genes are absent from every listing and lookup**: every gene a filtered analysis lists was selected by
    the first pass (`gids`, characterised by `C11_first_pass`: the named genes and the members of the selected families);
    lookups by id or by cross-reference can only return selected genes -/
theorem C11_only_selected_genes (T : STree) (nm : Naming) (inp : Input) (f : Filter) (Hf : Ham)
    (h : inp.groups.all isOgWithId = true) (hf : loadFiltered T nm inp f = .ok Hf) :
    ∃ gids hids, filterTops f inp.groups (filterGenes f inp.species, []) = .ok (gids, hids) ∧
      (∀ g ∈ Hf.genes, g.id ∈ gids) ∧
      (∀ id g, Hf.geneById id = .ok g → id ∈ gids) ∧
      (∀ v ids, Hf.genesByExternalId v = .ok ids → ∀ id ∈ ids, id ∈ gids) :=
  Pyham.C11_only_selected_genes T nm inp f Hf h hf

/-- which families the first pass selects: those that are named or contain a named gene -/
theorem C11_first_pass (f : Filter) (es : List Elem) (h : es.all isOgWithId = true)
    (hdis : (es.map refsOf).Pairwise (fun a b => ∀ r ∈ a, r ∉ b)) (g0 h0 : List String) :
    ∃ gids hids, filterTops f es (g0, h0) = .ok (gids, hids) ∧
      (∀ i, i ∈ hids ↔ i ∈ h0 ∨ ∃ e ∈ es, topId e = some i ∧
          (f.hogIds.contains i = true ∨ ∃ r ∈ refsOf e, r ∈ g0)) ∧
      (∀ r, r ∈ gids ↔ r ∈ g0 ∨ ∃ e ∈ es, r ∈ refsOf e ∧ ∃ i, topId e = some i ∧
          (f.hogIds.contains i = true ∨ ∃ r' ∈ refsOf e, r' ∈ g0)) :=
  filterTops_spec f es h hdis g0 h0

/-! ## C13 — equivalent ways of supplying the same data (the naming mode) -/

theorem C13_naming_independent (T : STree) (nm1 nm2 : Naming) (inp : Input)
    (hs : ∀ s ∈ inp.species, resolveSpecies T nm1 s.name = resolveSpecies T nm2 s.name)
    (hl : noLabelL inp.groups = true) :
    (load T nm1 inp).map (fun H => (H.tops, H.genes, H.species, H.reg)) =
    (load T nm2 inp).map (fun H => (H.tops, H.genes, H.species, H.reg)) :=
  Pyham.C13_naming_independent T nm1 nm2 inp hs hl

theorem C13_analyses_naming (H1 H2 : Ham) (ht : H1.tree = H2.tree) (h1 : H1.tops = H2.tops) (h2 : H1.genes = H2.genes)
    (h3 : H1.reg = H2.reg) :
    (∀ a d, hogsMap H1 a d = hogsMap H2 a d) ∧ (∀ g1 g2, vertical H1 g1 g2 = vertical H2 g1 g2) ∧
    (∀ g1 g2, lateral H1 g1 g2 = lateral H2 g1 g2) ∧ profileFull H1 = profileFull H2 ∧
    (∀ top, profileHog H1 top = profileHog H2 top) :=
  analyses_naming H1 H2 ht h1 h2 h3

/-! ## C14 — results do not depend on how the file happens to be written -/

/-- two spellings of one history (members and copies in any order, any group ids, with or without
    TaxRange labels and annotations, levels elided or spelled out) are realised by exactly the same
    hierarchies; with `C03_load_realises` both loads realise the one history -/
theorem C14_spelling_iff (q : Taxon) (l l' : SL) (n : Node) (h : SameL l l') :
    Realises q l n ↔ Realises q l' n :=
  Pyham.C14_spelling_iff q l l' n h

/-- **the history determines the hierarchy**: two hierarchies that realise spellings of one history (with distinct
    object identities) read back -- through `spell`, the reading the iHam exporter uses -- to the same history up to
    spelling; i.e. they are the same hierarchy up to sibling order, object numbering and annotations -/
theorem C14_same_history_same_hierarchy (T : STree) (q : Taxon) (l l' : SL) (n n' : Node) (hs : SameL l l')
    (hw : wfh T q l = true) (hw' : wfh T q l' = true) (hr : Realises q l n) (hr' : Realises q l' n')
    (hk : (n.nodes.map Node.key).Nodup) (hk' : (n'.nodes.map Node.key).Nodup) :
    SameL (spell false false n) (spell false false n') :=
  realises_unique_spellings T q l l' n n' hs hw hw' hr hr' hk hk'

/-- **C13 / C14 for whole files**: two consistent datasets over one species tree whose families are spellings of
    the same histories -- members and species blocks in any order, other group ids, with or without TaxRange labels,
    levels elided or spelled out, EITHER naming mode -- load into the same hierarchies, family by family -/
theorem C14_same_histories_same_hierarchies (D D' : Dataset) (hc : D.Consistent) (hc' : D'.Consistent)
    (hT : D.T = D'.T) (hlen : D.fams.length = D'.fams.length)
    (hs : ∀ i (h1 : i < D.fams.length) (h2 : i < D'.fams.length),
        (D.fams[i]).1 = (D'.fams[i]).1 ∧ SameL (D.fams[i]).2 (D'.fams[i]).2) :
    ∃ H H', load D.T D.nm D.file = .ok H ∧ load D'.T D'.nm D'.file = .ok H' ∧
      H.tops.length = H'.tops.length ∧
      ∀ i (h1 : i < H.tops.length) (h2 : i < H'.tops.length),
        SameL (spell false false (H.tops[i]).2) (spell false false (H'.tops[i]).2) :=
  same_histories_same_hierarchies D D' hc hc' hT hlen hs

/-- **comparisons see nothing but the located-member structure**: if the located members of `H'` are the images under `φ`
    of those of `H` -- whatever the order in which families, children and duplication records are stored, whatever the
    numbering of objects, ids and annotations -- and `φ` keeps taxon, "arose by duplication" and distinctness of
    identities (`LocIso`), then every cluster of every vertical comparison of `H'` is the image of the corresponding
    cluster of `H`: nothing else can influence a comparison result (C13 / C14 / C11 "... or any comparison result") -/
theorem C14_comparisons_respect_isomorphism (H H' : Ham) (φ : Node → Node) (h : LocIso H H' φ) (hw : H.WFc) (hw' : H'.WFc)
    (a d : Taxon) :
    (∀ n', n' ∈ (hogsMap H' a d).gain ↔ ∃ n ∈ (hogsMap H a d).gain, n' = φ n) ∧
    (∀ p', p' ∈ (hogsMap H' a d).retained ↔ ∃ p ∈ (hogsMap H a d).retained, p' = (φ p.1, φ p.2)) ∧
    (∀ k' n', (∃ e' ∈ (hogsMap H' a d).dupl, e'.1.key = k' ∧ n' ∈ e'.2) ↔
        ∃ x n, H.occ x ∧ (∃ e ∈ (hogsMap H a d).dupl, e.1.key = x.key ∧ n ∈ e.2) ∧ k' = (φ x).key ∧ n' = φ n) ∧
    (∀ x', x' ∈ (hogsMap H' a d).loss ↔ ∃ x ∈ (hogsMap H a d).loss, x' = φ x) :=
  ⟨fun n' => iso_gain h a d n', fun p' => iso_retained h hw hw' a d p', fun k' n' => iso_duplicated h a d k' n',
   fun x' => iso_loss h hw hw' a d x'⟩

/-- ... and the NUMBERS of every comparison (gained, retained, duplicated genes, duplicated ancestral genes, lost, duplication
    events), hence the whole-dataset tree profile at every node, are the same for isomorphic analyses (with equal genome
    sizes): re-ordering families or members, renumbering objects cannot change a tree profile (C09 / C13 / C14) -/
theorem C14_counts_and_profile_respect_isomorphism (H H' : Ham) (φ : Node → Node) (h : LocIso H H' φ)
    (hw : H.WFc) (hw' : H'.WFc) :
    (∀ a d, (hogsMap H' a d).counts = (hogsMap H a d).counts) ∧
    ((∀ t, H'.genomeSize t = H.genomeSize t) → ∀ t, profileFullAt H' t = profileFullAt H t) :=
  ⟨fun a d => iso_counts h hw hw' a d, fun hsz t => iso_profile h hw hw' hsz t⟩

/-- instances of the hypothesis: the same analysis (identity), the families stored in another order (a file with its
    top-level groups re-ordered), every object renumbered (other or skipped families loaded before: the creation
    counter differs, `C11_family_identical`), the children of every HOG re-ordered by an arbitrary rule `f` (the
    members of any group written in another order; with distinct identities `f` can pick a different permutation
    for every HOG) -/
theorem C14_isomorphic_analyses (H : Ham) :
    LocIso H H id ∧
    (∀ H' : Ham, H'.tops.Perm H.tops → H'.genes = H.genes → LocIso H H' id) ∧
    (∀ k, LocIso H (H.renumber k) (Node.shift k)) ∧
    (∀ f : List Node → List Node, (∀ l, (f l).Perm l) → LocIso H (H.reorder f) (Node.reorder f)) :=
  ⟨LocIso.refl H, fun H' hp hg => LocIso.of_tops_perm H H' hp hg, fun k => LocIso.of_renumber H k,
   fun f hf => LocIso.of_reorder H f hf⟩

/-- **the order of the members of any group does not matter** (self-contained form): for a well-formed analysis `H` and any
    rule `f` that re-orders children lists, the re-ordered analysis is well formed and isomorphic to `H`, every comparison has
    the same six numbers, and the whole-dataset tree profile is the same at every node.  (The clusters themselves are the
    images under `Node.reorder f`: `C14_comparisons_respect_isomorphism`.) -/
theorem C14_member_order_irrelevant (H : Ham) (hw : H.WFc) (f : List Node → List Node) (hf : ∀ l, (f l).Perm l) :
    (H.reorder f).WFc ∧ LocIso H (H.reorder f) (Node.reorder f) ∧
    (∀ a d, (hogsMap (H.reorder f) a d).counts = (hogsMap H a d).counts) ∧
    (∀ t, profileFullAt (H.reorder f) t = profileFullAt H t) :=
  ⟨WFc_reorder H hw f hf, LocIso.of_reorder H f hf,
   fun a d => iso_counts (LocIso.of_reorder H f hf) hw (WFc_reorder H hw f hf) a d,
   fun t => iso_profile (LocIso.of_reorder H f hf) hw (WFc_reorder H hw f hf) (fun _ => rfl) t⟩

/-- **the numbering of objects does not matter** (self-contained form; C11 "identical to the same family in an unfiltered
    load ... the position of a selected family in the file does not matter": the creation counter depends on what was
    loaded or skipped before) -/
theorem C11_renumbering_irrelevant (H : Ham) (hw : H.WFc) (k : Nat) :
    (H.renumber k).WFc ∧ LocIso H (H.renumber k) (Node.shift k) ∧
    (∀ a d, (hogsMap (H.renumber k) a d).counts = (hogsMap H a d).counts) ∧
    (∀ t, profileFullAt (H.renumber k) t = profileFullAt H t) :=
  ⟨WFc_renumber H hw k, LocIso.of_renumber H k,
   fun a d => iso_counts (LocIso.of_renumber H k) hw (WFc_renumber H hw k) a d,
   fun t => iso_profile (LocIso.of_renumber H k) hw (WFc_renumber H hw k) (fun _ => rfl) t⟩

/-- **the order of the families does not matter** (self-contained form) -/
theorem C14_family_order_irrelevant (H H' : Ham) (hw : H.WFc) (hp : H'.tops.Perm H.tops) (hg : H'.genes = H.genes)
    (ht : H'.tree = H.tree) (hr : H'.reg = H.reg) :
    H'.WFc ∧ (∀ a d, (hogsMap H' a d).counts = (hogsMap H a d).counts) ∧
    (∀ a d n, n ∈ (hogsMap H' a d).gain ↔ n ∈ (hogsMap H a d).gain) ∧
    (∀ a d x, x ∈ (hogsMap H' a d).loss ↔ x ∈ (hogsMap H a d).loss) ∧
    (∀ a d p, p ∈ (hogsMap H' a d).retained ↔ p ∈ (hogsMap H a d).retained) ∧
    (∀ t, profileFullAt H' t = profileFullAt H t) := by
  have hw' := WFc_of_tops_perm H H' hw hp hg
  have hi := LocIso.of_tops_perm H H' hp hg
  refine ⟨hw', fun a d => iso_counts hi hw hw' a d, ?_, ?_, ?_, ?_⟩
  · intro a d n
    rw [iso_gain hi a d n]
    exact ⟨fun ⟨m, hm, e⟩ => by rw [e]; exact hm, fun hm => ⟨n, hm, rfl⟩⟩
  · intro a d x
    rw [iso_loss hi hw hw' a d x]
    exact ⟨fun ⟨m, hm, e⟩ => by rw [e]; exact hm, fun hm => ⟨x, hm, rfl⟩⟩
  · intro a d p
    rw [iso_retained hi hw hw' a d p]
    exact ⟨fun ⟨m, hm, e⟩ => by rw [e]; exact hm, fun hm => ⟨p, hm, rfl⟩⟩
  · intro t
    refine iso_profile hi hw hw' (fun t => ?_) t
    unfold Ham.genomeSize
    rw [ht, hg, hr]

/-- **nested vs flat paralogGroups** (a multi-copy duplication written as directly nested paralogGroups or as
    one flat paralogGroup): if the flattened spelling of a file loads, the nested spelling loads to the SAME
    analysis -- for any input whatsoever (consistent or not), provided every directly nested paralogGroup
    contributes a member (`nestsOkL`; otherwise the loader rejects the file, C20).

    The full statement (without `noTaxRangeL`) is FALSE of the model and is not claimed: when a species-level
    group is dissolved into its parent inside a paralogGroup (the `TaxRange` collapse branch, outside the
    domain of the properties, DESIGN §6 D7) a paralogGroup nested directly after it starts a second
    DuplicationNode; `C14_nested_eq_flat_needs_no_collapse` is the kernel-checked counterexample.  Hence the
    `_partial` theorem: files without TaxRange properties.  Labelled files are covered for flat spellings by
    `C03_load_realises` / `C14_spelling_iff`, and nested + labelled files by the correspondence run only. -/
theorem C14_nested_eq_flat_partial (T : STree) (nm : Naming) (inp : Input) (H : Ham)
    (hn : nestsOkL inp.groups = true) (ht : noTaxRangeL inp.groups = true)
    (h : load T nm { inp with groups := flatItems inp.groups } = .ok H) :
    load T nm inp = .ok H :=
  Pyham.C14_nested_eq_flat_partial T nm inp H hn ht h

theorem C14_nested_eq_flat_needs_no_collapse :
    nestsOkL cxGroups = true ∧
    (load cxTree .own (Input.mk cxSpecies cxGroups)).toOption.map (·.reg.length) = some 3 ∧
    (load cxTree .own (Input.mk cxSpecies (flatItems cxGroups))).toOption.map (·.reg.length) = some 4 :=
  Pyham.C14_nested_eq_flat_needs_no_collapse

/-- **position in the file, other families** (C14 re-ordering of families; C11 "identical to the same family
    in an unfiltered load ... the position of a selected family in the file does not matter"; C01 "no gene is
    moved"): if two files both load and contain the same top-level group, the family loaded for it is the
    same hierarchy in both -- members, taxon of every HOG, duplication grouping, annotations -- up to the
    numbering of objects (`Node.shift`; `shift_*` below say what the renumbering preserves) -/
theorem C11_family_identical (env : Env) (es es' : List Elem) (tops tops' : List Node) (ps ps' : PS)
    (hog : es.all isOg = true) (hog' : es'.all isOg = true)
    (h : topElems env none es [] {} = .ok (tops, ps)) (h' : topElems env none es' [] {} = .ok (tops', ps'))
    (i j : Nat) (hi : i < es.length) (hj : j < es'.length) (he : es[i] = es'[j]) :
    ∃ (n : Node) (k k' : Nat) (h1 : i < tops.length) (h2 : j < tops'.length),
      tops[i] = n.shift k ∧ tops'[j] = n.shift k' :=
  Pyham.C11_family_identical env es es' tops tops' ps ps' hog hog' h h' i j hi hj he

/-- **C11, last clause**: every family of a filtered load is -- members, taxon of every HOG, duplication grouping,
    annotations; up to the numbering of objects -- the family the unfiltered load of the same file builds for the
    same top-level group -/
theorem C11_filtered_family_identical (T : STree) (nm : Naming) (inp : Input) (f : Filter) (H Hf : Ham)
    (hog : inp.groups.all isOgWithId = true)
    (hgenes : (inp.species.flatMap fun s => s.genes.map (·.id)).Nodup)
    (htop : (inp.groups.map topId).Nodup)
    (hfull : load T nm inp = .ok H) (hflt : loadFiltered T nm inp f = .ok Hf) :
    ∀ p ∈ Hf.tops, ∃ p' ∈ H.tops, ∃ (n : Node) (k k' : Nat),
      p.1 = p'.1 ∧ p.2 = n.shift k ∧ p'.2 = n.shift k' :=
  Pyham.C11_filtered_family_identical T nm inp f H Hf hog hgenes htop hfull hflt

/-- loading one family after anything = loading it alone, renumbered (errors included) -/
theorem C11_family_local (env : Env) (hid og : Option String) (its : List Elem) (tops0 : List Node) (ps0 : PS)
    (hi : ps0.idle) (hf : ps0.fresh) :
    topElem env none (.og hid og its) tops0 ps0 =
      match topElem env none (.og hid og its) [] {} with
      | .error e => .error e
      | .ok (res, ps') => .ok (tops0 ++ Node.shiftL ps0.next res, ps0.after ps') :=
  family_local env hid og its tops0 ps0 hi hf

/-- what renumbering preserves: members, taxa of all HOGs, and per HOG the duplication grouping and annotations -/
theorem C11_shift_preserves (k : Nat) (n : Node) :
    (n.shift k).leaves = n.leaves ∧ (n.shift k).tx = n.tx ∧ (n.shift k).hogs.map Node.tx = n.hogs.map Node.tx :=
  ⟨shift_leaves k n, shift_tx k n, shift_hogs_tx k n⟩

/-! ## C12 — the iHam orthoXML export declares and references exactly the member genes -/

theorem C12_export_members (H : Ham) (n : Node) (h : exportable n = true) :
    (refsOfL (ihamExport H n).groups).Perm n.leaves ∧
    ((ihamExport H n).species.flatMap (fun s => s.genes.map (·.id))).Perm n.leaves :=
  Pyham.C12_export_members H n h

/-- the export of a HOG is the encoding of a well-formed, RECOVERABLE spelled history (`spell`): the
    exporter never elides a group the loader cannot re-infer (this is what the repairs D5 and D9 restored) -/
theorem C12_export_is_recoverable_encoding (T : STree) (nm : Naming) (pOg keep : Bool) (n : Node) (h : ExportWF T n) :
    exportVisit (nameOrEmpty T nm) pOg keep n = encode T nm n.tx (spell pOg keep n) ∧
    wfh T n.tx (spell pOg keep n) = true ∧ recoverable n.tx (spell pOg keep n) = true ∧
    Realises n.tx (spell pOg keep n) (stripNode n) :=
  ⟨export_is_encode T nm pOg keep n h, spell_wfh T pOg keep n h, spell_recoverable T pOg keep n h,
   spell_realised T pOg keep n h⟩

/-- **round-trip**: re-loading the export of a HOG with the same species tree yields exactly one family,
    and that family and the original HOG (minus the LOFT ids and paralogGroup ids the exporter does not
    write) realise one and the same history: same members, same taxon for every sub-HOG, same duplication
    grouping -/
theorem C12_roundtrip (H : Ham) (n : Node) (hn : NamesInj H.tree H.naming) (hw : ExportWF H.tree n)
    (hh : n.isGene = false) :
    ∃ H' n', load H.tree H.naming (ihamExport H n) = .ok H' ∧
      H'.tops.map (·.2) = [n'] ∧
      Realises n.tx (spell false false n) n' ∧
      Realises n.tx (spell false false n) (stripNode n) :=
  Pyham.C12_roundtrip H n hn hw hh

/-- the hypothesis `ExportWF` holds for every top-level HOG of a well-formed analysis (and, hereditarily
    -- `HogFacts.sub` -- for every sub-HOG), in particular of every loaded consistent input -/
theorem C12_exportWF_of_wf (H : Ham) (hw : H.wf = true) (p : Option String × Node) (hp : p ∈ H.tops) :
    ExportWF H.tree p.2 := exportWF_of_wf H hw p hp

/-- the iHam page carries one family-data record per member gene -/
theorem C12_famdata (H : Ham) (n : Node) : (famData H n).map (·.id) = n.leaves := Pyham.C12_famdata H n

/-! ## C15 — lookups are coherent with listings and never ambiguous -/

theorem C15_gene_by_id (H : Ham) (hn : (H.genes.map (·.id)).Nodup) (g : GeneRec) (hg : g ∈ H.genes) :
    H.geneById g.id = .ok g := Pyham.C15_gene_by_id H hn g hg

theorem C15_hog_by_id (H : Ham) (hn : (H.tops.map (·.1)).Nodup) (id : String) (n : Node) (h : (some id, n) ∈ H.tops) :
    H.hogById id = .ok n := Pyham.C15_hog_by_id H hn id n h

theorem C15_unknown_keys (H : Ham) (id : String) :
    (id ∉ H.genes.map (·.id) → H.geneById id = .error .key) ∧
    (some id ∉ H.tops.map (·.1) → H.hogById id = .error .key) ∧
    ((∀ g ∈ H.genes, ∀ e ∈ g.xrefs, e.2 ≠ id) → H.genesByExternalId id = .error .key) :=
  ⟨C15_gene_unknown H id, C15_hog_unknown H id, C15_xref_unknown H id⟩

theorem C15_xref (H : Ham) (g : GeneRec) (hg : g ∈ H.genes) (k v : String) (hx : (k, v) ∈ g.xrefs) :
    ∃ ids, H.genesByExternalId v = .ok ids ∧ g.id ∈ ids := Pyham.C15_xref H g hg k v hx

/-- the genome returned as the common ancestor of a genome set lives at the deepest taxon that is an
    ancestor-or-self of all of them -/
theorem C15_mrca_set_lookup (H : Ham) (gs : List Taxon) (t : Taxon) (h : H.ancestralGenomeByMrca gs = .ok t) :
    (∀ g ∈ gs, t <:+ g) ∧ (∀ c, (∀ g ∈ gs, c <:+ g) → c <:+ t) ∧ t ∈ H.ancestralTaxa :=
  Pyham.C15_mrca_set_lookup H gs t h

/-- **genomes and taxa**: every listed ancestral genome is returned by its tree node and -- once the taxonomy was
    accepted -- by its name; every declared species is returned by its name; a name returns a taxon iff exactly one
    node carries it; the common ancestor of two genomes is returned for the pair; unknown species names raise KeyError -/
theorem C15_genome_lookups (H : Ham) :
    (∀ t ∈ H.ancestralTaxa, H.ancestralGenomeByTaxon t = .ok t) ∧
    (H.tree.namesOk H.naming = true → ∀ t ∈ H.ancestralTaxa, ∀ s, H.tree.nameAt H.naming t = some s →
        H.ancestralGenomeByName s = .ok t) ∧
    ((H.species.map (·.1)).Nodup → ∀ p ∈ H.species, H.extantGenomeByName p.1 = .ok p.2) ∧
    (∀ s, s ∉ H.species.map (·.1) → H.extantGenomeByName s = .error .key) ∧
    (∀ s p, H.taxonByName s = .ok p ↔ H.tree.findByName H.naming s = [p]) ∧
    (∀ g1 g2, g1 ≠ g2 → mrca2 g1 g2 ∈ H.ancestralTaxa → H.ancestralGenomeByMrca [g1, g2] = .ok (mrca2 g1 g2)) :=
  ⟨fun t ht => C15_ancestral_by_taxon H t ht, fun hok t ht s hs => C15_ancestral_by_name H hok t ht s hs,
   fun hn p hp => C15_extant_by_name H hn p hp, fun s h => C15_extant_unknown H s h,
   fun s p => C15_taxon_by_name H s p, fun g1 g2 hne ht => C15_mrca_lookup H g1 g2 hne ht⟩

theorem C15_never_ambiguous (T : STree) (nm : Naming) (h : taxonomyBuild T nm = .ok ()) (s : String) :
    (∀ p q, p ∈ T.leafTaxa → q ∈ T.leafTaxa → T.nameAt nm p = some s → T.nameAt nm q = some s → p = q) ∧
    (∀ p q, p ∈ T.internalTaxa → q ∈ T.internalTaxa → T.nameAt nm p = some s → T.nameAt nm q = some s → p = q) :=
  Pyham.C15_never_ambiguous T nm h s

theorem C15_ambiguous_rejected (T : STree) (nm : Naming)
    (h : ¬ (T.leafTaxa.filterMap (T.nameAt nm)).Nodup ∨ ¬ (T.internalTaxa.filterMap (T.nameAt nm)).Nodup) :
    taxonomyBuild T nm = .error .key := Pyham.C15_ambiguous_rejected T nm h

/-! ## C16 — navigation inside a family is self-consistent -/

theorem C16_navigation (n : Node) :
    n.hogs = n.nodes.filter (fun x => !x.isGene) ∧
    ((clusterBySpecies n).flatMap (·.2)).Perm n.leaves ∧
    ((clusterBySpecies n).map (·.1)).Nodup ∧
    descLevels n = n.hogs.map Node.tx :=
  ⟨hogs_eq_nodes_filter n, clusterBySpecies_perm n, clusterBySpecies_keys_nodup n, rfl⟩

theorem C16_top_level (top : Node) (l : Loc) (h : l ∈ locs [] top) : topOf l = top := topOf_locs top l h

theorem C16_get_at_level (top : Node) (l : Loc) (hl : l ∈ locs [] top) (g : Taxon) :
    (∀ r, getAtLevel l g = .ok r →
        r = top.nodes.filter (fun n => n.tx == g) ∧ r ≠ [] ∧ ∀ n ∈ r, n.key ≠ l.node.key) ∧
    (∀ e, getAtLevel l g = .error e →
        e = .key ∧ (top.nodes.filter (fun n => n.tx == g) = [] ∨
                    ∃ n ∈ top.nodes.filter (fun n => n.tx == g), n.key = l.node.key)) :=
  ⟨fun r h => getAtLevel_ok top l hl g r h, fun e h => getAtLevel_err top l hl g e h⟩

/-- for every ancestral genome of a well-formed analysis the ancestral clustering maps different HOGs
    to disjoint extant gene sets -/
theorem C16_clustering_disjoint (H : Ham) (hw : H.WFc) (t : Taxon) (e1 e2 : Node × List String)
    (h1 : e1 ∈ ancestralClustering H t) (h2 : e2 ∈ ancestralClustering H t) (hne : e1.1.key ≠ e2.1.key)
    (g : String) (hg1 : g ∈ e1.2) : g ∉ e2.2 :=
  Pyham.C16_clustering_disjoint H hw t e1 e2 h1 h2 hne g hg1

/-- C16 (ancestral clustering) for every loaded consistent input -/
theorem C16_on_loaded_consistent_input (D : Dataset) (hc : D.Consistent) :
    ∃ H, load D.T D.nm D.file = .ok H ∧
      ∀ t (e1 e2 : Node × List String), e1 ∈ ancestralClustering H t → e2 ∈ ancestralClustering H t →
        e1.1.key ≠ e2.1.key → ∀ g ∈ e1.2, g ∉ e2.2 :=
  Pyham.C16_on_loaded_consistent_input D hc

/-! ## C17 — analyses are read-only; results do not depend on call history -/

theorem C17_history_independent (H : Ham) (ops : List Op) :
    (run (SState.init H) ops).1.H = H ∧ (run (SState.init H) ops).2 = ops.map (answer H) :=
  Pyham.C17_history_independent H ops

/-- **several analyses, interleaved**: whatever the interleaving of calls on two analyses alive at once (built from the same
    inputs or not), both are unchanged at the end and every call returned what the same call returns on a freshly loaded copy
    of the analysis it was addressed to -/
theorem C17_interleaved (H1 H2 : Ham) (ops : List (Bool × Op)) :
    (run2 (SState.init H1) (SState.init H2) ops).2 = ops.map (fun p => answer (if p.1 then H2 else H1) p.2) ∧
    (run2 (SState.init H1) (SState.init H2) ops).1.1.H = H1 ∧
    (run2 (SState.init H1) (SState.init H2) ops).1.2.H = H2 :=
  Pyham.C17_interleaved H1 H2 ops

/-- **the only permitted side effect**: after any call sequence every genome that existed after loading is still
    listed, and every other listed genome (created lazily by a lateral comparison or a tree profile) is empty.
    The hypothesis holds for every loaded analysis (`C17_loaded_genes_in_species`). -/
theorem C17_listing (H : Ham) (hg : H.genesInSpecies) (ops : List Op) :
    (∀ t ∈ H.initialGenomes, t ∈ (run (SState.init H) ops).1.listing) ∧
    (∀ t ∈ (run (SState.init H) ops).1.listing, t ∉ H.initialGenomes → H.genomeSize t = 0) :=
  Pyham.C17_listing H hg ops

theorem C17_loaded_genes_in_species (T : STree) (nm : Naming) (inp : Input) (H : Ham) (h : load T nm inp = .ok H) :
    H.genesInSpecies := load_genesInSpecies T nm inp H h

/-! ## C18 — the taxonomy names, measures and serialises the tree faithfully -/

theorem C18_path_up (lo anc : Taxon) (h : anc <:+ lo) (hne : anc ≠ lo) :
    pathUp lo anc = (List.range' 1 (lo.length - anc.length - 1)).map (fun k => lo.drop k) :=
  pathUp_spec lo anc h hne

theorem C18_taxa_and_depth (T : STree) :
    (∀ p, p ∈ T.allTaxa ↔ (T.sub p).isSome = true) ∧ T.allTaxa.Nodup ∧
    (∀ i p, (i :: p) ∈ T.allTaxa → p ∈ T.allTaxa) :=
  ⟨mem_allTaxa_iff T, allTaxa_nodup T, fun i p h => up_mem_allTaxa T i p h⟩

theorem C18_names (T : STree) : T.leafNames = (T.leafTaxa).filterMap (fun p => (T.sub p).map STree.name) :=
  leafNames_eq T

theorem C18_duplicate_leaf_names_rejected (T : STree) (nm : Naming)
    (h : ¬ (T.leafTaxa.filterMap (T.nameAt nm)).Nodup) : taxonomyBuild T nm = .error .key :=
  Pyham.C15_ambiguous_rejected T nm (Or.inl h)

/-- the stored Newick text re-parses to the same named topology, polytomies included: for every tree
    (any arity and shape) whose names -- the tree's own or the synthesised ones -- contain none of
    `( ) , ;` (in particular names over letters, digits, space, `_ - . /`), reading what the taxonomy wrote
    gives back the named tree (for the model's writer / reader pair) -/
theorem C18_newick_roundtrip (nm : Naming) (T : STree) (hc : (STree.named nm T).namesClean = true) :
    parseNewick (T.newick nm) = some (STree.named nm T) :=
  Pyham.C18_newick_roundtrip nm T hc

theorem C18_alphabet_clean (c : Char) (h : c.isAlphanum = true ∨ c = ' ' ∨ c = '_' ∨ c = '-' ∨ c = '.' ∨ c = '/') :
    isNameChar c = true := alphabet_clean c h

/-! ## C19 — annotations stay attached to the object they annotate -/

/-- for every consistent file: the HOG created for a written group carries exactly that group's id,
    scores and properties (label first, then the annotation elements in file order, later entries with
    the same key overwriting) -- never those of another group; every HOG synthesised for a skipped level
    or for the level of a duplication carries none; genes keep their LOFT ids (`RealisesA`) -/
theorem C19_annotations (env : Env) (fams : List (Taxon × SL))
    (hf : ∀ f ∈ fams, isWrittenGrp f.2 = true ∧ wfh env.T f.1 f.2 = true ∧ recoverable f.1 f.2 = true ∧
      Declared env f.1 f.2 ∧ (genesOf f.2).Nodup)
    (hn : NamesInj env.T env.nm) :
    ∃ tops ps, topElems env none (fams.flatMap fun f => encode env.T env.nm f.1 f.2) [] {} = .ok (tops, ps) ∧
      tops.length = fams.length ∧
      ∀ i (h1 : i < tops.length) (h2 : i < fams.length), RealisesA env.T env.nm (fams[i]).1 (fams[i]).2 tops[i] :=
  Pyham.C19_load_annotations env fams hf hn

/-! ## C20 — dangling references are rejected, never silently dropped -/

theorem C20_species_fault_rejected (T : STree) (nm : Naming) (inp : Input) (s : Species)
    (hs : s ∈ inp.species) (e : Err) (h : resolveSpecies T nm s.name = .error e) :
    ∃ err, load T nm inp = .error err := Pyham.C20_species_fault_rejected T nm inp s hs e h

theorem C20_group_fault_rejected (T : STree) (nm : Naming) (inp : Input)
    (h : faultyL (fun id => (inp.species.flatMap (fun s => s.genes.map (·.id))).contains id) inp.groups = true) :
    ∃ err, load T nm inp = .error err := Pyham.C20_group_fault_rejected T nm inp h
/-- ... also when a filter is active: a fault (dangling reference, empty group) inside a SELECTED family makes the
    filtered load fail -- nothing is skipped because a filter is in use -/
theorem C20_filtered_fault_rejected (T : STree) (nm : Naming) (inp : Input) (f : Filter)
    (hog : inp.groups.all isOgWithId = true) (gids hids : List String)
    (hf : filterTops f inp.groups (filterGenes f inp.species, []) = .ok (gids, hids))
    (hfault : faultyL (fun id => ((projectInput inp gids.contains hids).species.flatMap
        (fun s => s.genes.map (·.id))).contains id) (projectInput inp gids.contains hids).groups = true) :
    ∃ err, loadFiltered T nm inp f = .error err :=
  Pyham.C20_filtered_fault_rejected T nm inp f hog gids hids hf hfault

/-- the same in `species_resolve_mode="OMA"` (a clade named as species is attached to its only child that looks
    like an OMA species code): a species element whose resolved name is not exactly one leaf is rejected -/
theorem C20_oma_species_fault_rejected (T : STree) (nm : Naming) (inp : Input) (s : Species)
    (hs : s ∈ inp.species) (e : Err) (h : resolveSpecies T nm (omaName T nm s.name) = .error e) :
    ∃ err, loadOMA T nm inp = .error err := Pyham.C20_oma_species_fault_rejected T nm inp s hs e h

/-- ... and the mode changes nothing for files whose species all name leaves of the tree -/
theorem C20_oma_mode_conservative (T : STree) (nm : Naming) (inp : Input)
    (h : ∀ s ∈ inp.species, ∃ p, T.findByName nm s.name = [p] ∧ T.isLeafAt p = true) :
    loadOMA T nm inp = load T nm inp := loadOMA_eq_load_of_leaves T nm inp h

/-! ## The loader as pyham runs it: a stack machine over SAX events (C01–C04, C11, C20)

  `Model/Sax.lean` transcribes `OrthoXMLParser.start` / `.end` call by call with `hog_stack` explicit.  The theorems
  below say that this machine, run over the event stream of a document, is the recursive loader every other theorem
  is about; the harness compares the machine with the real parser object in lock step (tag `saxtr`). -/

/-- the stack machine run over the events of the <groups> section ends, with an empty `hog_stack` and skip mode off, in
    exactly the families and parser state of the recursive loader -- or raises the same exception (any filter) -/
theorem C03_stack_machine_is_loader (env : Env) (flt : HogFilter) (groups : List Elem) :
    Sax.runEvents env flt (Sax.eventsL groups) {} =
      (topElems env flt groups [] {}).map fun r => { hstack := [], skip := 0, tops := r.1, ps := r.2 } :=
  Sax.sax_groups env flt groups

/-- the streaming load is the load: every theorem about `load` is a theorem about the event-driven parser -/
theorem C03_streaming_load_is_load (T : STree) (nm : Naming) (inp : Input) :
    Sax.loadSax T nm inp = load T nm inp := Sax.buildHamSax_eq T nm inp _ none

/-- ... also with a filter: skip mode (placeholders pushed on `hog_stack`, every call ignored until the matching end)
    is the recursive loader stepping over the unselected family -/
theorem C11_streaming_filtered_load (T : STree) (nm : Naming) (inp : Input) (f : Filter) :
    Sax.loadFilteredSax T nm inp f = loadFiltered T nm inp f := by
  unfold Sax.loadFilteredSax loadFiltered
  simp only [bind]
  cases filterTops f inp.groups (filterGenes f inp.species, []) with
  | error e => rfl
  | ok r => simp only [Except.bind]; exact Sax.buildHamSax_eq T nm inp _ _

/-- the FIRST pass of a filtered load (`FilterOrthoXMLParser`, again a parser target with a stack and flags) run over the same
    event stream selects exactly the gene ids and family ids of the recursive first pass, in the same order, and ends in its
    initial control state -- for every file without a geneRef outside every orthologGroup (the second pass rejects those) -/
theorem C11_first_pass_machine (f : Filter) (groups : List Elem) (gids : List String)
    (h : Sax.noTopRefL groups = true) :
    Sax.frun f (Sax.eventsL groups) { gids := gids } =
      (filterTops f groups (gids, [])).map fun r => { gids := r.1, hids := r.2 } :=
  Sax.f_groups f groups gids h

/-- **the whole document, in the order of the file**: species sections and the groups section as the calls arrive, every
    geneRef resolved against the declarations read so far -- the parser object ends in the analysis the recursive `buildHam`
    returns (filtered or not), or fails with the same exception -/
theorem C01_document_machine_is_load (T : STree) (nm : Naming) (inp : Input) (keep : String → Bool) (flt : HogFilter) :
    (Sax.drun T nm keep flt (Sax.spEvents inp.species ++ (Sax.eventsL inp.groups).map .grp) {}).map (Sax.DS.ham T nm) =
      buildHam T nm inp keep flt :=
  Sax.doc_machine_is_load T nm inp keep flt

/-- ... and over the whole document: the <gene> elements select gene ids as they are read, then the groups section -/
theorem C11_first_pass_document (f : Filter) (inp : Input) (h : Sax.noTopRefL inp.groups = true) :
    Sax.fdrun f (Sax.spEvents inp.species ++ (Sax.eventsL inp.groups).map .grp) { gids := [] } =
      (filterTops f inp.groups (filterGenes f inp.species, [])).map fun r => { gids := r.1, hids := r.2 } :=
  Sax.f_document f inp h

/-- **species sections after the groups section** (legal orthoXML; pyham reads the file once, front to back): the document
    `early species … groups … late species` ends in the analysis the recursive load of (all species, groups) returns, provided
    every species section is valid and no gene declared in a late section is referenced by a group -/
theorem C01_species_after_groups (T : STree) (nm : Naming) (keep : String → Bool) (flt : HogFilter)
    (early late : List Species) (groups : List Elem) (all : List GeneRec)
    (hall : declareSpecies T nm keep (early ++ late) [] = .ok all)
    (hlate : ∀ id ∈ refsOfL groups, ∀ s ∈ late, ∀ g ∈ s.genes, g.id ≠ id) :
    (Sax.drun T nm keep flt (Sax.spEvents early ++ ((Sax.eventsL groups).map .grp ++ Sax.spEvents late)) {}).map (Sax.DS.ham T nm) =
      buildHam T nm { species := early ++ late, groups := groups } keep flt :=
  Sax.late_species_load T nm keep flt early late groups all hall hlate

/-- ... and the hypothesis is needed (kernel-evaluated): a member declared only AFTER the groups section is a KeyError for
    the streaming loader, while the recursive model, which reads the species sections first, loads the file.  This is where
    the recursive model is NOT the code; the harness writes late species sections with unreferenced genes only. -/
theorem C01_species_after_groups_needs_unreferenced :
    let T : STree := .node "R" [.node "A" [], .node "B" []]
    let early : List Species := [{ name := "A", genes := [{ id := "a1", xrefs := [] }] }]
    let late : List Species := [{ name := "B", genes := [{ id := "b1", xrefs := [] }] }]
    let groups : List Elem := [.og (some "1") none [.ref "a1" none, .ref "b1" none]]
    (match Sax.drun T .own (fun _ => true) none (Sax.spEvents early ++ ((Sax.eventsL groups).map .grp ++ Sax.spEvents late)) {} with
      | .error .key => true | _ => false) = true ∧
    (match buildHam T .own { species := early ++ late, groups := groups } (fun _ => true) none with
      | .ok _ => true | .error _ => false) = true := by
  decide

/-- wherever in the stream the fault occurs: once a call raises, the run has failed with that exception, whatever follows
    (nothing after the faulty call is read, no state is returned) -/
theorem C20_stream_stops_at_fault (env : Env) (flt : HogFilter) (before after : List Sax.Ev) (m : Sax.MS) (e : Err)
    (h : Sax.runEvents env flt before m = .error e) : Sax.runEvents env flt (before ++ after) m = .error e := by
  rw [Sax.runEvents_append, h]; rfl

/-- the lock-step trace: it ends in an exception exactly when the run does, with the same exception; while the run
    succeeds there is one observation per call, the observation of the machine state after that call -/
theorem C03_trace_is_the_run (env : Env) (flt : HogFilter) (es : List Sax.Ev) (m : Sax.MS) :
    (Sax.trace env flt es m).2 = (match Sax.runEvents env flt es m with | .ok _ => none | .error e => some e) ∧
    ∀ k m', k < es.length → Sax.runEvents env flt (es.take (k + 1)) m = .ok m' → (Sax.trace env flt es m).1[k]? = some m'.obs :=
  ⟨Sax.trace_end env flt es m, fun k m' hk h => Sax.trace_obs env flt es m k m' h hk⟩

end Pyham.Props
