/-
  C07, second sentence: "gains, losses and duplicated sets over a long branch are determined by chaining comparisons of
  its sub-branches" -- at the level of the clusters the comparisons report.
-/
import PyhamModel.Lemmas.Compose
import PyhamModel.Lemmas.Meaning
namespace Pyham

theorem nodesAt_allLocs {H : Ham} {t : Taxon} {r : Loc} (h : r ∈ H.nodesAt t) : r ∈ H.allLocs ∧ r.node.tx = t := by
  simp only [Ham.nodesAt, List.mem_filter, beq_iff_eq] at h
  exact h

/-- gained, in terms of the upward search -/
theorem gained_iff_search (H : Ham) (a d : Taxon) (n : Node) :
    n ∈ (hogsMap H a d).gain ↔ ∃ r ∈ H.nodesAt d, r.node = n ∧ (search a r).1 = none := by
  rw [C06_gained_iff]
  constructor
  · rintro ⟨r, hr, hn, h⟩; exact ⟨r, hr, hn, (search_none_iff a r).mpr h⟩
  · rintro ⟨r, hr, hn, h⟩; exact ⟨r, hr, hn, (search_none_iff a r).mp h⟩

/-- lost, in terms of the upward search: no member of the descendant genome is reported under it -/
theorem lost_iff_search (H : Ham) (a d : Taxon) (x : Loc) (hx : x ∈ H.nodesAt a) :
    x.node ∈ (hogsMap H a d).loss ↔ ∀ r ∈ H.nodesAt d, ∀ y, (search a r).1 = some y → y.key ≠ x.node.key := by
  rw [(hogsMap_clusters H a d).2.2.2.1]
  simp only [List.mem_filter, List.mem_map, Bool.not_eq_true', List.contains_eq_mem, decide_eq_false_iff_not,
    clusters_seen, List.mem_filterMap, upOf, Option.map_eq_some_iff, not_exists, not_and]
  constructor
  · rintro ⟨_, hns⟩ r hr y hs hk
    exact hns (r.node, (search a r).1, (search a r).2) ⟨r, hr, rfl⟩ y hs hk
  · intro h
    refine ⟨⟨x, hx, rfl⟩, ?_⟩
    rintro e ⟨r, hr, rfl⟩ y hs hk
    exact h r hr y hs hk

/-- **C07 at the level of the reported clusters.**  For genomes `a` above `b` above `d` on one lineage of a well-formed
    analysis:
    * a gene of `d` is gained over the long branch iff it is gained over `b → d`, or the gene of `b` it is reported under is
      gained over `a → b`;
    * it is reported under `x` of `a` with flag `f` iff it is reported under some `y` of `b` (flag `g`) and `y` is reported
      under `x` (flag `f'`), and `f = g || f'` -- so RETAINED and DUPLICATE of the long branch are the relational composition
      of those of the sub-branches, duplicated iff duplicated on either part;
    * a gene of `a` is lost over the long branch iff every gene of `b` reported under it is lost over `b → d`. -/
theorem C07_chained (H : Ham) (hw : H.WFc) (a b d : Taxon) (hab : a <:+ b) (hne : a ≠ b) (hbd : b <:+ d) (hbne : b ≠ d) :
    (∀ n, n ∈ (hogsMap H a d).gain ↔
        n ∈ (hogsMap H b d).gain ∨
        ∃ y, (∃ r ∈ H.nodesAt d, r.node = n ∧ (search b r).1 = some y) ∧ y ∈ (hogsMap H a b).gain) ∧
    (∀ r ∈ H.nodesAt d, ∀ x f, search a r = (some x, f) ↔
        ∃ y g f', search b r = (some y, g) ∧
          (∃ yl ∈ H.nodesAt b, yl.node = y ∧ search a yl = (some x, f')) ∧ f = (g || f')) ∧
    (∀ x ∈ H.nodesAt a, x.node ∈ (hogsMap H a d).loss ↔
        ∀ yl ∈ H.nodesAt b, (∀ x', (search a yl).1 = some x' → x'.key = x.node.key → yl.node ∈ (hogsMap H b d).loss)) := by
  -- the composition lemma for a member r of d
  have comp : ∀ r ∈ H.nodesAt d,
      (∀ y g, search b r = (some y, g) →
        ∃ post, (⟨y, post⟩ : Loc) ∈ H.nodesAt b ∧ search a r = ((search a ⟨y, post⟩).1, g || (search a ⟨y, post⟩).2)) ∧
      (∀ g, search b r = (none, g) → (search a r).1 = none) := by
    intro r hr
    obtain ⟨hrl, hrt⟩ := nodesAt_allLocs hr
    exact C07_compose H hw a b hab hne r hrl (by rw [hrt]; exact hbd) (by rw [hrt]; exact hbne)
  -- a located member of b is determined by its node
  have uniq : ∀ l1 ∈ H.nodesAt b, ∀ l2 ∈ H.nodesAt b, l1.node.key = l2.node.key → l1 = l2 := by
    intro l1 h1 l2 h2 hk
    exact key_inj hw (nodesAt_allLocs h1).1 (nodesAt_allLocs h2).1 hk
  refine ⟨?_, ?_, ?_⟩
  · -- gained
    intro n
    rw [gained_iff_search, gained_iff_search]
    constructor
    · rintro ⟨r, hr, hn, hs⟩
      cases hsb : search b r with
      | mk o g =>
        cases o with
        | none => exact Or.inl ⟨r, hr, hn, by rw [hsb]⟩
        | some y =>
          obtain ⟨post, hyl, hc⟩ := (comp r hr).1 y g hsb
          refine Or.inr ⟨y, ⟨r, hr, hn, by rw [hsb]⟩, ?_⟩
          rw [gained_iff_search]
          refine ⟨⟨y, post⟩, hyl, rfl, ?_⟩
          rw [hc] at hs
          exact hs
    · rintro (⟨r, hr, hn, hs⟩ | ⟨y, ⟨r, hr, hn, hs⟩, hy⟩)
      · exact ⟨r, hr, hn, (comp r hr).2 (search b r).2 (Prod.ext hs rfl)⟩
      · rw [gained_iff_search] at hy
        obtain ⟨yl, hyl, hyn, hys⟩ := hy
        obtain ⟨post, hyl', hc⟩ := (comp r hr).1 y (search b r).2 (Prod.ext hs rfl)
        have : (⟨y, post⟩ : Loc) = yl := uniq _ hyl' _ hyl (by simp [hyn])
        refine ⟨r, hr, hn, ?_⟩
        rw [hc, this]
        exact hys
  · -- reported under
    intro r hr x f
    constructor
    · intro hs
      cases hsb : search b r with
      | mk o g =>
        cases o with
        | none =>
          have := (comp r hr).2 g hsb
          rw [hs] at this
          simp at this
        | some y =>
          obtain ⟨post, hyl, hc⟩ := (comp r hr).1 y g hsb
          rw [hs] at hc
          have h1 : (search a ⟨y, post⟩).1 = some x := (Prod.mk.inj hc).1.symm
          have h2 : f = (g || (search a ⟨y, post⟩).2) := (Prod.mk.inj hc).2
          exact ⟨y, g, (search a ⟨y, post⟩).2, rfl, ⟨⟨y, post⟩, hyl, rfl, Prod.ext h1 rfl⟩, h2⟩
    · rintro ⟨y, g, f', hsb, ⟨yl, hyl, hyn, hys⟩, hf⟩
      obtain ⟨post, hyl', hc⟩ := (comp r hr).1 y g hsb
      have : (⟨y, post⟩ : Loc) = yl := uniq _ hyl' _ hyl (by simp [hyn])
      rw [hc, this, hys, hf]
  · -- lost
    intro x hx
    rw [lost_iff_search H a d x hx]
    constructor
    · intro h yl hyl x' hsx hk
      rw [lost_iff_search H b d yl hyl]
      intro r hr y hsy hky
      obtain ⟨post, hyl', hc⟩ := (comp r hr).1 y (search b r).2 (Prod.ext hsy rfl)
      have : (⟨y, post⟩ : Loc) = yl := uniq _ hyl' _ hyl (by simpa using hky)
      rw [this] at hc
      exact h r hr x' (by rw [hc]; exact hsx) hk
    · intro h r hr x' hs hk
      cases hsb : search b r with
      | mk o g =>
        cases o with
        | none =>
          have := (comp r hr).2 g hsb
          rw [hs] at this
          simp at this
        | some y =>
          obtain ⟨post, hyl, hc⟩ := (comp r hr).1 y g hsb
          have hsx : (search a ⟨y, post⟩).1 = some x' := by
            rw [hc] at hs
            exact hs
          have hlost := h ⟨y, post⟩ hyl x' hsx hk
          rw [lost_iff_search H b d ⟨y, post⟩ hyl] at hlost
          exact hlost r hr y (by rw [hsb]) rfl

/-! ### gained = the family is younger than the ancestral genome -/

/-- the taxon of the root of the family a located member belongs to (its top-level HOG, or the member itself): on a chain the
    j-th ancestor sits j+1 levels up, so the last one sits `anc.length` levels up -/
def Loc.rootTx (l : Loc) : Taxon := l.node.tx.drop l.anc.length

theorem rootTx_is_top (H : Ham) (hw : H.WFc) (r : Loc) (hr : r ∈ H.allLocs) :
    (r.anc = [] → r.rootTx = r.node.tx) ∧ (∀ top, r.anc.getLast? = some top → top.tx = r.rootTx) := by
  constructor
  · intro h; simp [Loc.rootTx, h]
  · intro top ht
    have hc := allLocs_chain hw hr
    have hne : r.anc ≠ [] := by intro h; simp [h] at ht
    have hpos : 0 < r.anc.length := List.length_pos_iff.mpr hne
    have hi : r.anc.length - 1 < r.anc.length := by omega
    have htx := chain_tx_drop _ _ hc (r.anc.length - 1) hi
    have hl : r.anc[r.anc.length - 1] = top := by
      rw [List.getLast?_eq_getElem?] at ht
      have := List.getElem?_eq_getElem hi
      rw [this] at ht
      exact Option.some.inj ht
    rw [hl] at htx
    have : r.anc.length - 1 + 1 = r.anc.length := by omega
    rw [this] at htx
    exact htx

/-- **C06, first clause, read off the family**: a member of a genome below `a` has no ancestor in the genome at `a` --
    it is reported as GAINED in the comparison with `a` -- iff its family's root is younger than `a` (strictly below it);
    equivalently iff its chain of ancestors is too short to reach `a` -/
theorem gained_iff_young (H : Ham) (hw : H.WFc) (a : Taxon) (r : Loc) (hr : r ∈ H.allLocs)
    (had : a <:+ r.node.tx) (hne : a ≠ r.node.tx) :
    ((search a r).1 = none ↔ r.anc.length + a.length < r.node.tx.length) ∧
    ((search a r).1 = none ↔ ¬ (r.rootTx <:+ a)) := by
  have hc := allLocs_chain hw hr
  have hlen := chain_length_le _ _ hc
  have hale : a.length ≤ r.node.tx.length := had.length_le
  have halt : a.length < r.node.tx.length := by
    rcases Nat.lt_or_ge a.length r.node.tx.length with h | h
    · exact h
    · exact absurd (had.eq_of_length (Nat.le_antisymm hale h)) hne
  have hdrop : a = r.node.tx.drop (r.node.tx.length - a.length) := List.suffix_iff_eq_drop.mp had
  have first : (search a r).1 = none ↔ r.anc.length + a.length < r.node.tx.length := by
    rw [search_none_iff]
    constructor
    · intro h
      rcases Nat.lt_or_ge (r.anc.length + a.length) r.node.tx.length with hlt | hge
      · exact hlt
      · exfalso
        have hi : r.node.tx.length - a.length - 1 < r.anc.length := by omega
        have htx := chain_tx_drop _ _ hc (r.node.tx.length - a.length - 1) hi
        have : r.node.tx.length - a.length - 1 + 1 = r.node.tx.length - a.length := by omega
        rw [this, ← hdrop] at htx
        exact h _ (List.getElem_mem hi) htx
    · intro h y hy hya
      obtain ⟨i, hi, rfl⟩ := List.mem_iff_getElem.mp hy
      have htx := chain_tx_drop _ _ hc i hi
      rw [hya] at htx
      have := congrArg List.length htx
      rw [List.length_drop] at this
      omega
  refine ⟨first, ?_⟩
  rw [first]
  unfold Loc.rootTx
  constructor
  · intro h hs
    have := hs.length_le
    rw [List.length_drop] at this
    omega
  · intro h
    rcases Nat.lt_or_ge (r.anc.length + a.length) r.node.tx.length with hlt | hge
    · exact hlt
    · exfalso
      apply h
      -- a = tx.drop k with k ≤ anc.length: tx.drop anc.length is a suffix of it
      rw [hdrop]
      have : r.anc.length = (r.node.tx.length - a.length) + (r.anc.length - (r.node.tx.length - a.length)) := by omega
      rw [this, ← List.drop_drop]
      exact List.drop_suffix _ _

/-- ... hence, for a comparison `a → d` of a well-formed analysis: the GAINED genes are exactly the members of `d` whose family
    is rooted strictly below `a` -/
theorem C06_gained_iff_family_younger (H : Ham) (hw : H.WFc) (a d : Taxon) (had : a <:+ d) (hne : a ≠ d) (n : Node) :
    n ∈ (hogsMap H a d).gain ↔ ∃ r ∈ H.nodesAt d, r.node = n ∧ ¬ (r.rootTx <:+ a) := by
  rw [gained_iff_search]
  constructor
  · rintro ⟨r, hr, hn, hs⟩
    obtain ⟨hrl, hrt⟩ := nodesAt_allLocs hr
    exact ⟨r, hr, hn, ((gained_iff_young H hw a r hrl (by rw [hrt]; exact had) (by rw [hrt]; exact hne)).2).mp hs⟩
  · rintro ⟨r, hr, hn, hs⟩
    obtain ⟨hrl, hrt⟩ := nodesAt_allLocs hr
    exact ⟨r, hr, hn, ((gained_iff_young H hw a r hrl (by rw [hrt]; exact had) (by rw [hrt]; exact hne)).2).mpr hs⟩

end Pyham
