/-
  C12 (first sentence): the orthoXML produced for a HOG declares exactly the HOG's member genes
  under their species and references each exactly once.
-/
import PyhamModel.Model.Iham
import PyhamModel.Model.WF
import PyhamModel.Lemmas.NavLemmas
namespace Pyham

/-- what the exporter needs from the hierarchy: at every HOG the children have pairwise distinct
    identities, the duplication records have pairwise disjoint, repetition-free member lists, and
    every member is a child -/
def exportable : Node → Bool
  | n => n.hogs.all fun h =>
    (h.kids.map Node.key).Nodup && ((h.dups.flatMap (·.members))).Nodup &&
    (h.dups.flatMap (·.members)).all fun m => h.kids.any fun k => k.key == m

/-! ### helper lemmas -/

theorem refsOfL_append (a b : List Elem) : refsOfL (a ++ b) = refsOfL a ++ refsOfL b := by
  induction a with
  | nil => simp [refsOfL]
  | cons e a ih => simp [refsOfL, ih]

theorem refsOfL_map_pg (f : DupRec → List Elem) (ds : List DupRec) :
    refsOfL (ds.map fun d => Elem.pg none (f d)) = ds.flatMap (fun d => refsOfL (f d)) := by
  induction ds with
  | nil => simp [refsOfL]
  | cons d ds ih => simp [refsOfL, refsOf, ih]

theorem leavesL_eq_flatMap (ks : List Node) : Node.leavesL ks = ks.flatMap Node.leaves := by
  induction ks with
  | nil => simp [Node.leavesL]
  | cons k ks ih => simp [Node.leavesL, ih]

theorem flatMap_congr' {α β} (l : List α) (f g : α → List β) (h : ∀ a ∈ l, f a = g a) :
    l.flatMap f = l.flatMap g := by
  induction l with
  | nil => rfl
  | cons a l ih =>
    simp only [List.flatMap_cons]
    rw [h a List.mem_cons_self, ih (fun x hx => h x (List.mem_cons_of_mem _ hx))]

theorem flatMap_perm_congr {α β} (l : List α) (f g : α → List β) (h : ∀ a ∈ l, (f a).Perm (g a)) :
    (l.flatMap f).Perm (l.flatMap g) := by
  induction l with
  | nil => exact List.Perm.refl _
  | cons a l ih =>
    simp only [List.flatMap_cons]
    exact (h a List.mem_cons_self).append (ih (fun x hx => h x (List.mem_cons_of_mem _ hx)))

/-- the children split into the members of each duplication plus the remaining ones -/
theorem split_perm (ds : List DupRec) : ∀ (ks : List Node), (ds.flatMap (·.members)).Nodup →
    ks.Perm (ds.flatMap (fun d => ks.filter (fun k => d.members.contains k.key)) ++
      ks.filter (fun k => !(ds.flatMap (·.members)).contains k.key)) := by
  induction ds with
  | nil =>
    intro ks _
    have : List.filter (fun _ => true) ks = ks := List.filter_eq_self.2 (fun _ _ => rfl)
    simp [this]
  | cons d ds ih =>
    intro ks hnd
    simp only [List.flatMap_cons] at hnd ⊢
    rw [List.nodup_append] at hnd
    obtain ⟨_, hnd2, hdisj⟩ := hnd
    have ih' := ih (ks.filter (fun k => !d.members.contains k.key)) hnd2
    have e1 : ds.flatMap (fun d' => (ks.filter (fun k => !d.members.contains k.key)).filter
          (fun k => d'.members.contains k.key)) =
        ds.flatMap (fun d' => ks.filter (fun k => d'.members.contains k.key)) := by
      apply flatMap_congr'
      intro d' hd'
      rw [List.filter_filter]
      apply List.filter_congr
      intro k _
      cases hc : d'.members.contains k.key with
      | false => rfl
      | true =>
        have hm : k.key ∈ d'.members := by simpa using hc
        have hm' : k.key ∈ ds.flatMap (·.members) := List.mem_flatMap.mpr ⟨d', hd', hm⟩
        have : k.key ∉ d.members := fun hx => hdisj _ hx _ hm' rfl
        simp [this]
    have e2 : (ks.filter (fun k => !d.members.contains k.key)).filter
          (fun k => !(ds.flatMap (·.members)).contains k.key) =
        ks.filter (fun k => !(d.members ++ ds.flatMap (·.members)).contains k.key) := by
      rw [List.filter_filter]
      apply List.filter_congr
      intro k _
      simp [Bool.and_comm]
    rw [e1, e2] at ih'
    have h0 := (List.filter_append_perm (fun k => d.members.contains k.key) ks).symm
    refine h0.trans ?_
    rw [List.append_assoc]
    exact List.Perm.append_left _ ih'

theorem filter_remaining (M : List Key) (kids : List Node) :
    kids.filter (fun k => (kids.filter fun k => !M.contains k.key).any (·.key == k.key)) =
      kids.filter (fun k => !M.contains k.key) := by
  apply List.filter_congr
  intro k hk
  rw [Bool.eq_iff_iff]
  simp only [List.any_eq_true, List.mem_filter, beq_iff_eq]
  constructor
  · rintro ⟨k', ⟨_, hq⟩, heq⟩
    rw [← heq]; exact hq
  · intro hq
    exact ⟨k, ⟨hk, hq⟩, rfl⟩

theorem refsOfL_elide (c : Bool) (a b : Option String) (x y : String) (body : List Elem) :
    refsOfL (if c = true then body else [Elem.og a b (Elem.prop x y :: body)]) = refsOfL body := by
  cases c <;> simp [refsOfL, refsOf]

/-- the per-HOG condition of `exportable` -/
def expOk (h : Node) : Bool :=
  (h.kids.map Node.key).Nodup && ((h.dups.flatMap (·.members))).Nodup &&
    (h.dups.flatMap (·.members)).all fun m => h.kids.any fun k => k.key == m

theorem exportable_eq (n : Node) : exportable n = n.hogs.all expOk := rfl

mutual
theorem visit_refs (nameOf : Taxon → String) : (n : Node) → (pOg keep : Bool) →
    (∀ x ∈ n.hogs, expOk x = true) → (refsOfL (exportVisit nameOf pOg keep n)).Perm n.leaves
  | .gene i t d l, _, _, _ => by simp [exportVisit, refsOfL, refsOf, Node.leaves]
  | .hog info t d kids dups, pOg, keep, h => by
    have hself := h (.hog info t d kids dups) (by simp [Node.hogs])
    have hk : ∀ x ∈ Node.hogsL kids, expOk x = true := fun x hx => h x (by simp [Node.hogs, hx])
    have hnd : (dups.flatMap (·.members)).Nodup := by
      simp only [expOk, Node.dups, Bool.and_eq_true, decide_eq_true_eq] at hself
      exact of_decide_eq_true hself.1.2
    have body : ∀ keep', (refsOfL ((dups.map fun d => Elem.pg none (exportMembers nameOf d.members kids)) ++
        exportKids nameOf true keep'
          (kids.filter fun k => !(dups.flatMap (·.members)).contains k.key) kids)).Perm
        (Node.leavesL kids) := by
      intro keep'
      rw [refsOfL_append, refsOfL_map_pg]
      have h1 := flatMap_perm_congr dups _ _
        (fun d _ => members_refs nameOf d.members kids hk)
      have h2 := kids_refs nameOf true keep'
        (kids.filter fun k => !(dups.flatMap (·.members)).contains k.key) kids hk
      rw [filter_remaining] at h2
      refine (h1.append h2).trans ?_
      have h3 := (split_perm dups kids hnd).flatMap_right Node.leaves
      simp only [leavesL_eq_flatMap]
      refine List.Perm.trans ?_ h3.symm
      rw [List.flatMap_append, List.flatMap_assoc]
    simp only [exportVisit, Node.leaves, refsOfL_elide]
    exact body _
theorem members_refs (nameOf : Taxon → String) (mem : List Key) : (ks : List Node) →
    (∀ x ∈ Node.hogsL ks, expOk x = true) →
    (refsOfL (exportMembers nameOf mem ks)).Perm
      (Node.leavesL (ks.filter (fun k => mem.contains k.key)))
  | [], _ => by simp [exportMembers, refsOfL, Node.leavesL]
  | k :: ks, h => by
    have hk : ∀ x ∈ k.hogs, expOk x = true := fun x hx => h x (by simp [Node.hogsL, hx])
    have hks : ∀ x ∈ Node.hogsL ks, expOk x = true := fun x hx => h x (by simp [Node.hogsL, hx])
    have ih := members_refs nameOf mem ks hks
    simp only [exportMembers, refsOfL_append, List.filter_cons]
    split
    · simp only [Node.leavesL]
      exact (visit_refs nameOf k false false hk).append ih
    · simpa [refsOfL] using ih
theorem kids_refs (nameOf : Taxon → String) (pOg keep : Bool) (sel : List Node) : (ks : List Node) →
    (∀ x ∈ Node.hogsL ks, expOk x = true) →
    (refsOfL (exportKids nameOf pOg keep sel ks)).Perm
      (Node.leavesL (ks.filter (fun k => sel.any (·.key == k.key))))
  | [], _ => by simp [exportKids, refsOfL, Node.leavesL]
  | k :: ks, h => by
    have hk : ∀ x ∈ k.hogs, expOk x = true := fun x hx => h x (by simp [Node.hogsL, hx])
    have hks : ∀ x ∈ Node.hogsL ks, expOk x = true := fun x hx => h x (by simp [Node.hogsL, hx])
    have ih := kids_refs nameOf pOg keep sel ks hks
    simp only [exportKids, refsOfL_append, List.filter_cons]
    split
    · simp only [Node.leavesL]
      exact (visit_refs nameOf k pOg keep hk).append ih
    · simpa [refsOfL] using ih
end

/-- the groups part of the export references each member gene exactly once -/
theorem export_refs (nameOf : Taxon → String) (pOg keep : Bool) (n : Node) (h : exportable n = true) :
    (refsOfL (exportVisit nameOf pOg keep n)).Perm n.leaves := by
  rw [exportable_eq, List.all_eq_true] at h
  exact visit_refs nameOf n pOg keep h

/-- the species part declares exactly the member genes, each under the species it lives in -/
theorem export_declares (H : Ham) (n : Node) :
    ((ihamExport H n).species.flatMap (fun s => s.genes.map (·.id))).Perm n.leaves := by
  simp only [ihamExport]
  refine ((List.reverse_perm _).flatMap_right _).trans ?_
  rw [List.flatMap_map]
  simp only [List.map_map]
  refine List.Perm.trans ?_ (clusterBySpecies_perm n)
  apply List.Perm.of_eq
  apply flatMap_congr'
  intro e _
  simp [Function.comp_def]

theorem export_species_sound (H : Ham) (n : Node) (s : Species) (g : GeneDecl)
    (hs : s ∈ (ihamExport H n).species) (hg : g ∈ s.genes) :
    ∃ t, (g.id, t) ∈ geneTaxa n ∧ s.name = (H.tree.nameAt H.naming t).getD "" := by
  simp only [ihamExport, List.mem_reverse, List.mem_map] at hs
  obtain ⟨e, he, rfl⟩ := hs
  simp only [List.mem_map] at hg
  obtain ⟨x, hx, rfl⟩ := hg
  exact ⟨e.1, clusterBySpecies_sound n e.1 e.2 x he hx, rfl⟩

/-- C12, first sentence, for every loaded HOG -/
theorem C12_export_members (H : Ham) (n : Node) (h : exportable n = true) :
    (refsOfL (ihamExport H n).groups).Perm n.leaves ∧
    ((ihamExport H n).species.flatMap (fun s => s.genes.map (·.id))).Perm n.leaves :=
  ⟨export_refs _ false false n h, export_declares H n⟩

end Pyham
