/-
  The capstone: every consistent dataset loads, and the loaded analysis is well-formed.
  This is what lets the theorems about comparisons and profiles (C05 – C10, stated for every
  well-formed hierarchy) apply to "every loaded consistent input".
-/
import PyhamModel.Lemmas.Refinement
import PyhamModel.Lemmas.RealisesLemmas
import PyhamModel.Lemmas.Registry
import PyhamModel.Lemmas.Partition
import PyhamModel.Lemmas.NavLemmas
import PyhamModel.Lemmas.Faults
namespace Pyham

/-- a dataset in the sense of the properties: a species tree, the species declarations of the file,
    and one spelled history per family -/
structure Dataset where
  T : STree
  nm : Naming
  species : List Species
  fams : List (Taxon × SL)

/-- the orthoXML file of a dataset -/
def Dataset.file (D : Dataset) : Input :=
  { species := D.species, groups := D.fams.flatMap fun f => encode D.T D.nm f.1 f.2 }

def topHid : SL → Option String
  | .grp _ hid _ _ => hid
  | _ => none

/-- "HOG orthoXML consistent with the species tree": species names are leaf names, gene ids unique,
    every gene referenced at most once and declared in the species of its leaf, every family a written
    group encoding a well-formed recoverable history, node names unambiguous, family ids distinct -/
structure Dataset.Consistent (D : Dataset) : Prop where
  names : NamesInj D.T D.nm
  species_ok : ∀ s ∈ D.species, ∃ p, resolveSpecies D.T D.nm s.name = .ok p
  fams_ok : ∀ f ∈ D.fams, isWrittenGrp f.2 = true ∧ wfh D.T f.1 f.2 = true ∧ recoverable f.1 f.2 = true
  genes_nodup : (D.species.flatMap fun s => s.genes.map (·.id)).Nodup
  refs_nodup : (D.fams.flatMap fun f => genesOf f.2).Nodup
  declared : ∀ f ∈ D.fams, ∀ e ∈ geneTaxaSL f.1 f.2,
    ∃ s ∈ D.species, resolveSpecies D.T D.nm s.name = .ok e.2 ∧ e.1 ∈ s.genes.map (·.id)
  top_ids : (D.fams.map fun f => topHid f.2).Nodup

/-! ### A. list helpers -/

theorem lookup_of_nodup {α β} [BEq α] [LawfulBEq α] : (l : List (α × β)) → (l.map (·.1)).Nodup →
    ∀ a b, (a, b) ∈ l → l.lookup a = some b
  | [], _, _, _, h => by simp at h
  | (x, y) :: l, hn, a, b, h => by
    simp only [List.map_cons, List.nodup_cons, List.mem_map, not_exists, not_and] at hn
    simp only [List.mem_cons, Prod.mk.injEq] at h
    rcases h with ⟨rfl, rfl⟩ | h
    · simp
    · have hne : a ≠ x := fun e => hn.1 (a, b) h e
      have : (a == x) = false := by simpa using hne
      rw [List.lookup_cons, this]
      exact lookup_of_nodup l hn.2 a b h

theorem nodup_of_filter_split {α} (p : α → Bool) : (l : List α) → (l.filter p).Nodup →
    (l.filter fun x => !p x).Nodup → l.Nodup
  | [], _, _ => List.nodup_nil
  | x :: xs, h1, h2 => by
    cases hp : p x with
    | true =>
      simp only [List.filter_cons, hp, if_true, Bool.not_true, Bool.false_eq_true, if_false, List.nodup_cons] at h1 h2
      refine List.nodup_cons.mpr ⟨fun hx => h1.1 (List.mem_filter.mpr ⟨hx, hp⟩), nodup_of_filter_split p xs h1.2 h2⟩
    | false =>
      simp only [List.filter_cons, hp, if_true, Bool.not_false, Bool.false_eq_true, if_false, List.nodup_cons] at h1 h2
      refine List.nodup_cons.mpr ⟨fun hx => h2.1 (List.mem_filter.mpr ⟨hx, by simp [hp]⟩), nodup_of_filter_split p xs h1 h2.2⟩

theorem dictPut_foldl_distinct {β} (f : β → Option String) : (l : List β) → (d : List (Option String × β)) →
    (d.map (·.1) ++ l.map f).Nodup →
    l.foldl (fun d n => dictPut d (f n) n) d = d ++ l.map (fun n => (f n, n))
  | [], d, _ => by simp
  | x :: xs, d, h => by
    have hx : f x ∉ d.map (·.1) := by
      intro hm
      rw [List.nodup_append] at h
      exact h.2.2 _ hm _ (by simp) rfl
    have hany : (d.any (·.1 == f x)) = false := by
      rw [Bool.eq_false_iff]
      intro hh
      simp only [List.any_eq_true, beq_iff_eq] at hh
      obtain ⟨e, he, hee⟩ := hh
      exact hx (List.mem_map.mpr ⟨e, he, hee⟩)
    have hput : dictPut d (f x) x = d ++ [(f x, x)] := by simp [dictPut, hany]
    simp only [List.foldl_cons, hput]
    rw [dictPut_foldl_distinct f xs (d ++ [(f x, x)]) (by simpa [List.append_assoc] using h)]
    simp

/-! ### B. species declarations -/

theorem declareSpecies_ok (T : STree) (nm : Naming) : (sp : List Species) → (acc : List GeneRec) →
    (∀ s ∈ sp, ∃ p, resolveSpecies T nm s.name = .ok p) →
    ∃ genes, declareSpecies T nm (fun _ => true) sp acc = .ok (acc ++ genes) ∧
      (∀ g ∈ genes, ∃ s ∈ sp, resolveSpecies T nm s.name = .ok g.tx ∧ g.id ∈ s.genes.map (·.id)) ∧
      (∀ s ∈ sp, ∀ p, resolveSpecies T nm s.name = .ok p → ∀ i ∈ s.genes.map (·.id),
        ∃ g ∈ genes, g.id = i ∧ g.tx = p)
  | [], acc, _ => ⟨[], by simp [declareSpecies], by simp, by simp⟩
  | s :: ss, acc, h => by
    obtain ⟨p, hp⟩ := h s (by simp)
    have hf : List.filter (fun _ : GeneDecl => true) s.genes = s.genes :=
      List.filter_eq_self.mpr (fun _ _ => rfl)
    obtain ⟨genes, h1, h2, h3⟩ := declareSpecies_ok T nm ss
      (acc ++ s.genes.map fun g => ({ id := g.id, species := s.name, tx := p, xrefs := g.xrefs } : GeneRec))
      (fun s' hs' => h s' (by simp [hs']))
    refine ⟨(s.genes.map fun g => ({ id := g.id, species := s.name, tx := p, xrefs := g.xrefs } : GeneRec)) ++ genes,
      ?_, ?_, ?_⟩
    · simp only [declareSpecies, hp, bind, Except.bind, hf]
      rw [h1, List.append_assoc]
    · intro g hg
      rcases List.mem_append.mp hg with hg | hg
      · obtain ⟨gd, hgd, rfl⟩ := List.mem_map.mp hg
        exact ⟨s, by simp, hp, List.mem_map.mpr ⟨gd, hgd, rfl⟩⟩
      · obtain ⟨s', hs', hr⟩ := h2 g hg
        exact ⟨s', by simp [hs'], hr⟩
    · intro s' hs' p' hp' i hi
      rcases List.mem_cons.mp hs' with rfl | hs'
      · rw [hp] at hp'
        cases hp'
        obtain ⟨gd, hgd, rfl⟩ := List.mem_map.mp hi
        exact ⟨_, List.mem_append_left _ (List.mem_map.mpr ⟨gd, hgd, rfl⟩), rfl, rfl⟩
      · obtain ⟨g, hg, hr⟩ := h3 s' hs' p' hp' i hi
        exact ⟨g, List.mem_append_right _ hg, hr⟩

theorem speciesMapM_ok (T : STree) (nm : Naming) : (sp : List Species) →
    (∀ s ∈ sp, ∃ p, resolveSpecies T nm s.name = .ok p) →
    ∃ r, (sp.mapM fun s => (resolveSpecies T nm s.name).map fun p => (s.name, p)) = Except.ok r
  | [], _ => ⟨[], by simp [pure, Except.pure]⟩
  | s :: ss, h => by
    obtain ⟨p, hp⟩ := h s (by simp)
    obtain ⟨r, hr⟩ := speciesMapM_ok T nm ss (fun s' hs' => h s' (by simp [hs']))
    refine ⟨(s.name, p) :: r, ?_⟩
    rw [List.mapM_cons, hr, hp]
    rfl

/-! ### C. the written id of a family is the key of the loaded top -/

theorem elem_info (env : Env) : (e : Elem) → (len : Nat) → (hb : HogBuild) → (ps : PS) →
    (hb' : HogBuild) → (ps' : PS) → elem env len e hb ps = .ok (hb', ps') →
    hb'.info.hid = hb.info.hid ∧ hb'.info.uid = hb.info.uid
  | .ref id loft, len, hb, ps, hb', ps', h => by
    simp only [elem] at h
    split at h
    · cases h
    · simp only [Except.ok.injEq, Prod.mk.injEq] at h
      obtain ⟨rfl, _⟩ := h
      exact ⟨rfl, rfl⟩
  | .score id v, len, hb, ps, hb', ps', h => by
    simp only [elem, Except.ok.injEq, Prod.mk.injEq] at h
    obtain ⟨rfl, rfl⟩ := h
    exact ⟨rfl, rfl⟩
  | .prop n v, len, hb, ps, hb', ps', h => by
    simp only [elem, Except.ok.injEq, Prod.mk.injEq] at h
    obtain ⟨rfl, rfl⟩ := h
    exact ⟨rfl, rfl⟩
  | .pg pgid its, len, hb, ps, hb', ps', h => by
    simp only [elem, bind, Except.bind] at h
    split at h
    · cases h
    · rename_i v hv
      obtain ⟨hb1, ps2⟩ := v
      split at h
      · cases h
      · simp only [Except.ok.injEq, Prod.mk.injEq] at h
        obtain ⟨rfl, rfl⟩ := h
        exact elems_info env its len hb _ hb1 ps2 hv
  | .og hid og its, len, hb, ps, hb', ps', h => by
    simp only [elem, bind, Except.bind] at h
    split at h
    · cases h
    · split at h
      · cases h
      · simp only [Except.ok.injEq, Prod.mk.injEq] at h
        obtain ⟨rfl, rfl⟩ := h
        exact ⟨rfl, rfl⟩
where
  elems_info (env : Env) : (es : List Elem) → (len : Nat) → (hb : HogBuild) → (ps : PS) →
      (hb' : HogBuild) → (ps' : PS) → elems env len es hb ps = .ok (hb', ps') →
      hb'.info.hid = hb.info.hid ∧ hb'.info.uid = hb.info.uid
    | [], len, hb, ps, hb', ps', h => by
      simp only [elems, Except.ok.injEq, Prod.mk.injEq] at h
      obtain ⟨rfl, rfl⟩ := h
      exact ⟨rfl, rfl⟩
    | e :: es, len, hb, ps, hb', ps', h => by
      simp only [elems, bind, Except.bind] at h
      split at h
      · cases h
      · rename_i v hv
        obtain ⟨hb1, ps1⟩ := v
        obtain ⟨i1, i2⟩ := elem_info env e len hb ps hb1 ps1 hv
        obtain ⟨j1, j2⟩ := elems_info env es len hb1 ps1 hb' ps' h
        exact ⟨j1.trans i1, j2.trans i2⟩

theorem closeOg_top_hid (env : Env) (hb : HogBuild) (ps : PS) (res : List Node) (ps' : PS)
    (h : closeOg env true hb ps = .ok (res, ps')) : ∃ x, res = [x] ∧ hidOf x = hb.info.hid := by
  simp only [closeOg, bind, Except.bind] at h
  split at h
  · cases h
  · split at h
    · simp at h
    · split at h
      · cases h
      · split at h
        · cases h
        · split at h
          · cases h
          · simp only [Except.ok.injEq, Prod.mk.injEq] at h
            obtain ⟨rfl, rfl⟩ := h
            exact ⟨_, rfl, rfl⟩

theorem topOg_hid (env : Env) (hid og : Option String) (its : List Elem) (tops : List Node) (ps : PS)
    (tops' : List Node) (ps' : PS)
    (h : topElem env none (.og hid og its) tops ps = .ok (tops', ps')) :
    ∃ x, tops' = tops ++ [x] ∧ hidOf x = (newInfo 0 hid og).hid := by
  simp only [topElem, bind, Except.bind, pure, Except.pure] at h
  split at h
  · rename_i hc; simp at hc
  · split at h
    · cases h
    · rename_i v hv
      obtain ⟨nb, ps2⟩ := v
      split at h
      · cases h
      · rename_i w hw
        obtain ⟨res, ps3⟩ := w
        simp only [Except.ok.injEq, Prod.mk.injEq] at h
        obtain ⟨rfl, rfl⟩ := h
        obtain ⟨i1, _⟩ := elem_info.elems_info env its 1 _ _ nb ps2 hv
        obtain ⟨x, rfl, hx⟩ := closeOg_top_hid env nb ps2 res ps3 hw
        exact ⟨x, rfl, hx.trans i1⟩

theorem tops_hids (env : Env) : (fams : List (Taxon × SL)) → (∀ f ∈ fams, isWrittenGrp f.2 = true) →
    (tops : List Node) → (ps : PS) → (tops' : List Node) → (ps' : PS) →
    topElems env none (fams.flatMap fun f => encode env.T env.nm f.1 f.2) tops ps = .ok (tops', ps') →
    ∃ new, tops' = tops ++ new ∧ new.map hidOf = fams.map (fun f => topHid f.2)
  | [], _, tops, ps, tops', ps', h => by
    simp only [List.flatMap_nil, topElems, Except.ok.injEq, Prod.mk.injEq] at h
    obtain ⟨rfl, rfl⟩ := h
    exact ⟨[], by simp, rfl⟩
  | (q, l) :: fs, hw, tops, ps, tops', ps', h => by
    have hl := hw (q, l) (by simp)
    cases l with
    | gene _ _ => simp [isWrittenGrp] at hl
    | grp w hid label subs =>
      simp only [isWrittenGrp] at hl
      subst hl
      simp only [List.flatMap_cons, encode, List.cons_append, List.nil_append, topElems, bind, Except.bind] at h
      split at h
      · cases h
      · rename_i v hv
        obtain ⟨tops1, ps1⟩ := v
        obtain ⟨x, rfl, hx⟩ := topOg_hid env _ _ _ _ _ _ _ hv
        obtain ⟨new, rfl, hn⟩ := tops_hids env fs (fun f hf => hw f (by simp [hf])) _ ps1 tops' ps' h
        refine ⟨x :: new, by simp, ?_⟩
        simp only [List.map_cons, hn, topHid, hx, newInfo]
        cases hid <;> rfl

/-! ### D. the registration log never repeats an identity -/

def NewRegs (S : Nat → Prop) (new : List (Taxon × Key)) : Prop :=
  (new.map (·.2)).Nodup ∧ ∀ e ∈ new, ∃ u, e.2 = Key.h u ∧ S u

theorem NewRegs.nil (S : Nat → Prop) : NewRegs S [] := ⟨by simp, by simp⟩

theorem NewRegs.single (S : Nat → Prop) (t : Taxon) (u : Nat) (h : S u) : NewRegs S [(t, Key.h u)] :=
  ⟨by simp, by simp [h]⟩

theorem NewRegs.append {S1 S2 S : Nat → Prop} {n1 n2 : List (Taxon × Key)} (h1 : NewRegs S1 n1)
    (h2 : NewRegs S2 n2) (hd : ∀ u, S1 u → S2 u → False) (m1 : ∀ u, S1 u → S u) (m2 : ∀ u, S2 u → S u) :
    NewRegs S (n1 ++ n2) := by
  refine ⟨?_, ?_⟩
  · rw [List.map_append, List.nodup_append]
    refine ⟨h1.1, h2.1, ?_⟩
    intro a ha b hb hab
    obtain ⟨e1, he1, rfl⟩ := List.mem_map.mp ha
    obtain ⟨e2, he2, rfl⟩ := List.mem_map.mp hb
    obtain ⟨u1, hu1, hs1⟩ := h1.2 e1 he1
    obtain ⟨u2, hu2, hs2⟩ := h2.2 e2 he2
    rw [hu1, hu2] at hab
    cases hab
    exact hd _ hs1 hs2
  · intro e he
    rcases List.mem_append.mp he with he | he
    · obtain ⟨u, hu, hs⟩ := h1.2 e he; exact ⟨u, hu, m1 u hs⟩
    · obtain ⟨u, hu, hs⟩ := h2.2 e he; exact ⟨u, hu, m2 u hs⟩

def RegFr (ps ps' : PS) : Prop :=
  ps.next ≤ ps'.next ∧ ∃ new, ps'.reg = ps.reg ++ new ∧ NewRegs (fun u => ps.next ≤ u ∧ u < ps'.next) new

theorem RegFr.of_eq {ps ps' : PS} (h1 : ps'.reg = ps.reg) (h2 : ps.next ≤ ps'.next) : RegFr ps ps' :=
  ⟨h2, [], by simp [h1], NewRegs.nil _⟩

theorem RegFr.refl (ps : PS) : RegFr ps ps := RegFr.of_eq rfl (Nat.le_refl _)

theorem RegFr.trans {a b c : PS} (h1 : RegFr a b) (h2 : RegFr b c) : RegFr a c := by
  obtain ⟨l1, n1, e1, r1⟩ := h1
  obtain ⟨l2, n2, e2, r2⟩ := h2
  refine ⟨by omega, n1 ++ n2, by rw [e2, e1, List.append_assoc], ?_⟩
  exact r1.append r2 (fun u h1 h2 => by omega) (fun u h => ⟨h.1, by omega⟩) (fun u h => ⟨by omega, h.2⟩)

theorem RegFr.fresh (ps : PS) (t : Taxon) :
    RegFr ps ({ ps with next := ps.next + 1 }.register t (.h ps.next)) :=
  ⟨by simp [PS.register], [(t, .h ps.next)], rfl, NewRegs.single _ _ _ ⟨Nat.le_refl _, by simp [PS.register]⟩⟩

theorem addMissing_regfr (hid : Option String) : (ts : List Taxon) → (cur : Node) → (ps : PS) →
    (top : Node) → (ps' : PS) → addMissing hid cur ts ps = .ok (top, ps') → RegFr ps ps'
  | [], cur, ps, top, ps', h => by
    simp [addMissing] at h
    obtain ⟨_, rfl⟩ := h
    exact RegFr.refl _
  | t :: ts, cur, ps, top, ps', h => by
    simp only [addMissing] at h
    split at h
    · cases h
    · exact (RegFr.fresh ps t).trans (addMissing_regfr hid ts _ _ _ _ h)

theorem genericPass_regfr (hid : Option String) (level : Taxon) : (cs kids : List Node) → (ps : PS) →
    (kids' : List Node) → (ps' : PS) → genericPass hid level cs kids ps = .ok (kids', ps') → RegFr ps ps'
  | [], kids, ps, kids', ps', h => by
    simp [genericPass] at h
    obtain ⟨_, rfl⟩ := h
    exact RegFr.refl _
  | c :: cs, kids, ps, kids', ps', h => by
    simp only [genericPass, bind, Except.bind] at h
    split at h
    · cases h
    · rename_i r hr
      obtain ⟨top, ps1⟩ := r
      exact (addMissing_regfr _ _ _ _ _ _ hr).trans (genericPass_regfr hid level cs _ ps1 kids' ps' h)

theorem rehomeDirect_regfr (hid : Option String) (level : Taxon) (d : Nat) : (cs kids : List Node) →
    (mem : List Key) → (ps : PS) → (kids' : List Node) → (mem' : List Key) → (ps' : PS) →
    rehomeDirect hid level d cs kids mem ps = .ok (kids', mem', ps') → RegFr ps ps'
  | [], kids, mem, ps, kids', mem', ps', h => by
    simp [rehomeDirect] at h
    obtain ⟨_, _, rfl⟩ := h
    exact RegFr.refl _
  | c :: cs, kids, mem, ps, kids', mem', ps', h => by
    simp only [rehomeDirect, bind, Except.bind] at h
    split at h
    · cases h
    · rename_i r hr
      obtain ⟨top, ps1⟩ := r
      simp only at h
      split at h
      · cases h
      · exact (addMissing_regfr _ _ _ _ _ _ hr).trans
          (rehomeDirect_regfr hid level d cs _ _ ps1 kids' mem' ps' h)

theorem rehomeUnder_regfr (hid : Option String) (mrcaTx : Taxon) : (cs kids mk : List Node) → (ps : PS) →
    (kids' mk' : List Node) → (ps' : PS) →
    rehomeUnder hid mrcaTx cs kids mk ps = .ok (kids', mk', ps') → RegFr ps ps'
  | [], kids, mk, ps, kids', mk', ps', h => by
    simp [rehomeUnder] at h
    obtain ⟨_, _, rfl⟩ := h
    exact RegFr.refl _
  | c :: cs, kids, mk, ps, kids', mk', ps', h => by
    simp only [rehomeUnder, bind, Except.bind] at h
    split at h
    · cases h
    · rename_i r hr
      obtain ⟨top, ps1⟩ := r
      simp only at h
      exact (addMissing_regfr _ _ _ _ _ _ hr).trans
        (rehomeUnder_regfr hid mrcaTx cs _ _ ps1 kids' mk' ps' h)

theorem dupStep_regfr (hid : Option String) (level : Taxon) (st : CloseSt) (d : Nat) (st' : CloseSt)
    (h : dupStep hid level st d = .ok st') : RegFr st.ps st'.ps := by
  simp only [dupStep, bind, Except.bind] at h
  split at h
  · split at h
    · split at h
      · cases h
      · split at h
        · split at h
          · cases h
          · rename_i v hr
            obtain ⟨k1, m1, p1⟩ := v
            simp only [Except.ok.injEq] at h
            subst h
            have j := rehomeUnder_regfr _ _ _ _ _ _ _ _ _ hr
            exact ((RegFr.fresh st.ps _).trans j).trans (RegFr.of_eq rfl (Nat.le_refl _))
        · split at h
          · cases h
          · rename_i v hr
            obtain ⟨k1, m1, p1⟩ := v
            simp only [Except.ok.injEq] at h
            subst h
            have j := rehomeDirect_regfr _ _ _ _ _ _ _ _ _ _ hr
            exact j.trans (RegFr.of_eq rfl (Nat.le_refl _))
    · cases h
  · cases h

theorem dupSteps_regfr (hid : Option String) (level : Taxon) : (ds : List Nat) → (st st' : CloseSt) →
    dupSteps hid level ds st = .ok st' → RegFr st.ps st'.ps
  | [], st, st', h => by
    simp [dupSteps] at h
    subst h
    exact RegFr.refl _
  | d :: ds, st, st', h => by
    simp only [dupSteps, bind, Except.bind] at h
    split at h
    · cases h
    · rename_i st1 h1
      exact (dupStep_regfr hid level st d st1 h1).trans (dupSteps_regfr hid level ds st1 st' h)

/-- closing a group logs the group itself (under the identity taken when it was opened) and
    brand-new identities -/
theorem closeOg_regfr (env : Env) (top : Bool) (hb : HogBuild) (ps : PS) (res : List Node) (ps' : PS)
    (h : closeOg env top hb ps = .ok (res, ps')) (huid : hb.info.uid < ps.next) :
    ps.next ≤ ps'.next ∧ ∃ new, ps'.reg = ps.reg ++ new ∧
      NewRegs (fun u => (u = hb.info.uid ∨ ps.next ≤ u) ∧ u < ps'.next) new := by
  simp only [closeOg, bind, Except.bind] at h
  split at h
  · cases h
  · split at h
    · -- collapse
      split at h
      · cases h
      · split at h
        · simp only [Except.ok.injEq, Prod.mk.injEq] at h
          obtain ⟨rfl, rfl⟩ := h
          exact ⟨Nat.le_refl _, [], by simp, NewRegs.nil _⟩
        · split at h
          · split at h
            · cases h
            · split at h
              · cases h
              · simp only [Except.ok.injEq, Prod.mk.injEq] at h
                obtain ⟨rfl, rfl⟩ := h
                exact ⟨Nat.le_refl _, [], by simp [PS.modDup], NewRegs.nil _⟩
          · cases h
    · split at h
      · cases h
      · rename_i level hl
        split at h
        · cases h
        · rename_i st hst
          split at h
          · cases h
          · rename_i v hg
            obtain ⟨kids, ps2⟩ := v
            simp only [Except.ok.injEq, Prod.mk.injEq] at h
            obtain ⟨rfl, rfl⟩ := h
            have r1 := dupSteps_regfr _ _ _ _ _ hst
            have r2 := genericPass_regfr _ _ _ _ _ _ _ hg
            obtain ⟨hle, new, hreg, hnew⟩ := r1.trans r2
            simp only [PS.register] at hle hreg hnew
            refine ⟨hle, (level, Key.h hb.info.uid) :: new, by rw [hreg]; simp, ?_⟩
            have := (NewRegs.single (fun u => u = hb.info.uid) level hb.info.uid rfl).append hnew
              (S := fun u => (u = hb.info.uid ∨ ps.next ≤ u) ∧ u < ps2.next)
              (fun u h1 h2 => by omega)
              (fun u h => ⟨Or.inl h, by omega⟩)
              (fun u h => ⟨Or.inr h.1, h.2⟩)
            simpa using this

theorem pgClose_regfr (kids : List Node) (ps ps' : PS) (h : pgClose kids ps = .ok ps') : RegFr ps ps' :=
  RegFr.of_eq (pgClose_reg _ _ _ h) (by rw [pgClose_next _ _ _ h]; exact Nat.le_refl _)

theorem pgOpen_regfr (len : Nat) (pgid : Option String) (ps : PS) : RegFr ps (pgOpen len pgid ps) :=
  RegFr.of_eq (pgOpen_reg _ _ _) (pgOpen_next _ _ _)

/-- the step shared by `elem` and `topElem` on an orthologGroup -/
theorem og_regfr {ps psf ps2 ps3 : PS} {nb : HogBuild} {env : Env} {top : Bool} {res : List Node}
    (hf1 : psf.reg = ps.reg) (hf2 : psf.next = ps.next + 1) (h1 : RegFr psf ps2) (hu : nb.info.uid = ps.next)
    (h2 : closeOg env top nb ps2 = .ok (res, ps3)) : RegFr ps ps3 := by
  obtain ⟨l1, n1, e1, r1⟩ := h1
  obtain ⟨l2, n2, e2, r2⟩ := closeOg_regfr env top nb ps2 res ps3 h2 (by omega)
  refine ⟨by omega, n1 ++ n2, by rw [e2, e1, hf1, List.append_assoc], ?_⟩
  exact r1.append r2 (fun u h1 h2 => by omega)
    (fun u h => ⟨by omega, by omega⟩)
    (fun u h => ⟨by omega, h.2⟩)

theorem elem_regfr (env : Env) : (e : Elem) → (len : Nat) → (hb : HogBuild) → (ps : PS) →
    (hb' : HogBuild) → (ps' : PS) → elem env len e hb ps = .ok (hb', ps') → RegFr ps ps'
  | .ref id loft, len, hb, ps, hb', ps', h => by
    simp only [elem] at h
    split at h
    · cases h
    · simp only [Except.ok.injEq, Prod.mk.injEq] at h
      obtain ⟨_, h2⟩ := h
      rw [← h2]
      split <;> exact RegFr.of_eq rfl (Nat.le_refl _)
  | .score id v, len, hb, ps, hb', ps', h => by
    simp only [elem, Except.ok.injEq, Prod.mk.injEq] at h
    obtain ⟨_, rfl⟩ := h
    exact RegFr.refl _
  | .prop n v, len, hb, ps, hb', ps', h => by
    simp only [elem, Except.ok.injEq, Prod.mk.injEq] at h
    obtain ⟨_, rfl⟩ := h
    exact RegFr.refl _
  | .pg pgid its, len, hb, ps, hb', ps', h => by
    simp only [elem, bind, Except.bind] at h
    split at h
    · cases h
    · rename_i v hv
      obtain ⟨hb1, ps2⟩ := v
      split at h
      · cases h
      · rename_i ps3 hc
        simp only [Except.ok.injEq, Prod.mk.injEq] at h
        obtain ⟨_, rfl⟩ := h
        exact ((pgOpen_regfr len pgid ps).trans (elems_regfr env its len hb _ hb1 ps2 hv)).trans
          (pgClose_regfr _ _ _ hc)
  | .og hid og its, len, hb, ps, hb', ps', h => by
    simp only [elem, bind, Except.bind] at h
    split at h
    · cases h
    · rename_i v hv
      obtain ⟨nb, ps2⟩ := v
      split at h
      · cases h
      · rename_i w hw
        obtain ⟨res, ps3⟩ := w
        simp only [Except.ok.injEq, Prod.mk.injEq] at h
        obtain ⟨_, rfl⟩ := h
        have i1 := elems_regfr env its (len + 1) _ _ nb ps2 hv
        have i2 := (elem_info.elems_info env its (len + 1) _ _ nb ps2 hv).2
        exact og_regfr (by split <;> rfl) (by split <;> rfl) i1 i2 hw
where
  elems_regfr (env : Env) : (es : List Elem) → (len : Nat) → (hb : HogBuild) → (ps : PS) →
      (hb' : HogBuild) → (ps' : PS) → elems env len es hb ps = .ok (hb', ps') → RegFr ps ps'
    | [], len, hb, ps, hb', ps', h => by
      simp only [elems, Except.ok.injEq, Prod.mk.injEq] at h
      obtain ⟨_, rfl⟩ := h
      exact RegFr.refl _
    | e :: es, len, hb, ps, hb', ps', h => by
      simp only [elems, bind, Except.bind] at h
      split at h
      · cases h
      · rename_i v hv
        obtain ⟨hb1, ps1⟩ := v
        exact (elem_regfr env e len hb ps hb1 ps1 hv).trans (elems_regfr env es len hb1 ps1 hb' ps' h)

theorem topElem_regfr (env : Env) : (e : Elem) → (tops : List Node) → (ps : PS) → (tops' : List Node) →
    (ps' : PS) → topElem env none e tops ps = .ok (tops', ps') → RegFr ps ps'
  | .ref id loft, tops, ps, tops', ps', h => by
    simp only [topElem] at h
    split at h <;> cases h
  | .score id v, tops, ps, tops', ps', h => by simp [topElem] at h
  | .prop n v, tops, ps, tops', ps', h => by simp [topElem] at h
  | .pg pgid its, tops, ps, tops', ps', h => by
    simp only [topElem, bind, Except.bind] at h
    split at h
    · cases h
    · rename_i v hv
      obtain ⟨tops1, ps2⟩ := v
      split at h
      · cases h
      · rename_i ps3 hc
        simp only [Except.ok.injEq, Prod.mk.injEq] at h
        obtain ⟨_, rfl⟩ := h
        exact ((pgOpen_regfr 0 pgid ps).trans (topElems_regfr env its tops _ tops1 ps2 hv)).trans
          (pgClose_regfr _ _ _ hc)
  | .og hid og its, tops, ps, tops', ps', h => by
    simp only [topElem, bind, Except.bind, pure, Except.pure] at h
    split at h
    · rename_i hc; simp at hc
    · split at h
      · cases h
      · rename_i v hv
        obtain ⟨nb, ps2⟩ := v
        split at h
        · cases h
        · rename_i w hw
          obtain ⟨res, ps3⟩ := w
          simp only [Except.ok.injEq, Prod.mk.injEq] at h
          obtain ⟨_, rfl⟩ := h
          have i1 := elem_regfr.elems_regfr env its 1 _ _ nb ps2 hv
          have i2 := (elem_info.elems_info env its 1 _ _ nb ps2 hv).2
          exact og_regfr (by split <;> rfl) (by split <;> rfl) i1 i2 hw
where
  topElems_regfr (env : Env) : (es : List Elem) → (tops : List Node) → (ps : PS) → (tops' : List Node) →
      (ps' : PS) → topElems env none es tops ps = .ok (tops', ps') → RegFr ps ps'
    | [], tops, ps, tops', ps', h => by
      simp only [topElems, Except.ok.injEq, Prod.mk.injEq] at h
      obtain ⟨_, rfl⟩ := h
      exact RegFr.refl _
    | e :: es, tops, ps, tops', ps', h => by
      simp only [topElems, bind, Except.bind] at h
      split at h
      · cases h
      · rename_i v hv
        obtain ⟨tops1, ps1⟩ := v
        exact (topElem_regfr env e tops ps tops1 ps1 hv).trans (topElems_regfr env es tops1 ps1 tops' ps' h)

/-- after any successful unfiltered load no identity is registered twice -/
theorem reg_keys_nodup (env : Env) (es : List Elem) (tops : List Node) (ps : PS)
    (h : topElems env none es [] {} = .ok (tops, ps)) : (ps.reg.map (·.2)).Nodup := by
  obtain ⟨_, new, e, r⟩ := topElem_regfr.topElems_regfr env es [] {} tops ps h
  rw [e]
  simpa using r.1

/-! ### E. nodes, HOGs and genes of a forest -/

def geneId : Node → Option String
  | .gene i _ _ _ => some i
  | _ => none

theorem leavesL_geneId (ks : List Node) : Node.leavesL ks = (Node.nodesL ks).filterMap geneId := by
  rw [leaves_eq_nodes.leavesL_eq]
  congr 1

mutual
theorem regOf_eq_hogs : (n : Node) → n.regOf = n.hogs.map (fun x => (x.tx, x.key))
  | .gene .. => by simp [Node.regOf, Node.hogs]
  | .hog info t d ks ds => by
    simp only [Node.regOf, Node.hogs, List.map_cons]
    rw [regOfL_eq_hogsL ks]
    rfl
theorem regOfL_eq_hogsL : (ks : List Node) → regOfL ks = (Node.hogsL ks).map (fun x => (x.tx, x.key))
  | [] => by simp [regOfL, Node.hogsL]
  | k :: ks => by
    simp only [regOfL, Node.hogsL, List.map_append]
    rw [regOf_eq_hogs k, regOfL_eq_hogsL ks]
end

theorem geneKeys_eq (ns : List Node) :
    (ns.map Node.key).filter (fun k => !isH k) = (ns.filterMap geneId).map Key.g := by
  induction ns with
  | nil => rfl
  | cons n ns ih =>
    cases n with
    | gene i t d l =>
      simpa [Node.key, isH, geneId] using ih
    | hog info t d ks ds =>
      rw [List.filterMap_cons_none (show geneId (Node.hog info t d ks ds) = none from rfl), ← ih,
        List.map_cons, List.filter_cons]
      simp [Node.key, isH]

theorem subOf_geneTaxa (q : Taxon) : (subs : List Sub) → (i : Nat) → (l : SL) → SubOf i l subs →
    ∀ e ∈ geneTaxaSL (i :: q) l, e ∈ geneTaxaSubs q subs
  | [], i, l, h, _, _ => by
    rcases h with h | ⟨_, _, h, _⟩ <;> simp at h
  | s :: r, i, l, h, e, he => by
    have tailCase : SubOf i l r → e ∈ geneTaxaSubs q (s :: r) := by
      intro h'
      have := subOf_geneTaxa q r i l h' e he
      cases s <;> simp [geneTaxaSubs, this]
    rcases h with h | ⟨pg, cs, h, hl⟩
    · rcases List.mem_cons.mp h with rfl | h
      · simp [geneTaxaSubs, he]
      · exact tailCase (Or.inl h)
    · rcases List.mem_cons.mp h with rfl | h
      · simp only [geneTaxaSubs, List.mem_append]
        left
        exact copies_mem (i :: q) cs l hl e he
      · exact tailCase (Or.inr ⟨pg, cs, h, hl⟩)
where
  copies_mem (q : Taxon) : (cs : List SL) → (l : SL) → l ∈ cs → ∀ e ∈ geneTaxaSL q l, e ∈ geneTaxaCopies q cs
    | [], _, h, _, _ => by simp at h
    | c :: cs, l, h, e, he => by
      simp only [geneTaxaCopies, List.mem_append]
      rcases List.mem_cons.mp h with rfl | h
      · exact Or.inl he
      · exact Or.inr (copies_mem q cs l h e he)

/-- the gene nodes of a realising hierarchy sit at the leaves the history says -/
theorem realises_geneTaxa (q : Taxon) (l : SL) (n : Node) (h : Realises q l n) :
    ∀ i t d lo, Node.gene i t d lo ∈ n.nodes → (i, t) ∈ geneTaxaSL q l := by
  refine realises_ind (M := fun q l n => ∀ i t d lo, Node.gene i t d lo ∈ n.nodes → (i, t) ∈ geneTaxaSL q l)
    ⟨?_, ?_⟩ q l n h
  · intro q id loft d i t d' lo hx
    simp only [Node.nodes, List.mem_singleton, Node.gene.injEq] at hx
    obtain ⟨rfl, rfl, _, _⟩ := hx
    simp [geneTaxaSL]
  · intro q w hid label subs info d kids dups _ hk i t d' lo hx
    simp only [Node.nodes, List.mem_cons] at hx
    rcases hx with hx | hx
    · cases hx
    · rw [nodesL_eq_flatMap', List.mem_flatMap] at hx
      obtain ⟨k, hkm, hxk⟩ := hx
      obtain ⟨j, l', hso, _, hm⟩ := hk k hkm
      simp only [geneTaxaSL]
      exact subOf_geneTaxa q subs j l' hso _ (hm i t d' lo hxk)

theorem flatMap_perm_of_index {α β γ} (f : α → List γ) (g : β → List γ) : (A : List α) → (B : List β) →
    A.length = B.length → (∀ i (h1 : i < A.length) (h2 : i < B.length), (f A[i]).Perm (g B[i])) →
    (A.flatMap f).Perm (B.flatMap g)
  | [], [], _, _ => by simp
  | [], _ :: _, h, _ => by simp at h
  | _ :: _, [], h, _ => by simp at h
  | a :: A, b :: B, hl, h => by
    simp only [List.flatMap_cons]
    refine (h 0 (by simp) (by simp)).append ?_
    apply flatMap_perm_of_index f g A B (by simpa using hl)
    intro i h1 h2
    exact h (i + 1) (by simpa using h1) (by simpa using h2)

/-! ### F. identities and genome sizes of a hierarchy assembled from a forest -/

theorem length_filter_split {α} (p : α → Bool) (l : List α) :
    l.length = (l.filter p).length + (l.filter fun x => !p x).length := by
  induction l with
  | nil => rfl
  | cons x xs ih =>
    cases hp : p x <;> simp [hp] <;> omega

theorem sublist_flatMap_of_mem {α β} (f : α → List β) : (l : List α) → (a : α) → a ∈ l →
    (f a).Sublist (l.flatMap f)
  | [], _, h => by simp at h
  | x :: xs, a, h => by
    simp only [List.flatMap_cons]
    rcases List.mem_cons.mp h with rfl | h
    · exact List.sublist_append_left _ _
    · exact (sublist_flatMap_of_mem f xs a h).trans (List.sublist_append_right _ _)

theorem nodup_map_of_inj {α β} (f : α → β) (hf : ∀ a b, f a = f b → a = b) {l : List α} (h : l.Nodup) :
    (l.map f).Nodup :=
  List.Pairwise.map f (fun a b hab e => hab (hf a b e)) h

def Ham.forest (H : Ham) : List Node := H.tops.map (·.2)

def mkSingle (g : GeneRec) : Node := Node.gene g.id g.tx none none

theorem singletons_eq (H : Ham) :
    H.singletons = (H.genes.filter fun g => !(Node.leavesL H.forest).contains g.id).map mkSingle := by
  simp only [Ham.singletons, Ham.forest, leavesL_eq_flatMap', List.flatMap_map]
  rfl

theorem allLocs_nodes (H : Ham) : H.allLocs.map Loc.node = Node.nodesL H.forest ++ H.singletons := by
  simp only [Ham.allLocs, Ham.forest, List.map_append, List.map_flatMap, locs_nodes, nodesL_eq_flatMap',
    List.flatMap_map, List.map_map]
  congr 1
  exact List.map_id' _

theorem keys_eq (H : Ham) : H.keys = (Node.nodesL H.forest ++ H.singletons).map Node.key := by
  rw [← allLocs_nodes, List.map_map]
  rfl

theorem nodesAt_length (H : Ham) (t : Taxon) :
    (H.nodesAt t).length = ((Node.nodesL H.forest).filter (·.tx == t)).length +
      (H.singletons.filter (·.tx == t)).length := by
  rw [← List.length_append, ← List.filter_append, ← allLocs_nodes, List.filter_map, List.length_map]
  rfl

theorem leaf_not_internal (T : STree) (t : Taxon) (h1 : T.isLeafAt t = true) (h2 : T.isInternalAt t = true) :
    False := by
  unfold STree.isLeafAt at h1
  unfold STree.isInternalAt at h2
  cases hs : T.sub t with
  | none => simp [hs] at h1
  | some x => simp [hs] at h1 h2; simp [h1] at h2

/-- what the capstone knows about the loaded forest -/
structure ForestOK (H : Ham) : Prop where
  shape : ∀ x ∈ Node.nodesL H.forest, (x.isGene = true → H.tree.isLeafAt x.tx = true) ∧
    (x.isGene = false → H.tree.isInternalAt x.tx = true)
  decl : ∀ i t d lo, Node.gene i t d lo ∈ Node.nodesL H.forest → ∃ g ∈ H.genes, g.id = i ∧ g.tx = t
  gids : (H.genes.map (·.id)).Nodup
  gleaf : ∀ g ∈ H.genes, H.tree.isLeafAt g.tx = true
  refs : (Node.leavesL H.forest).Nodup
  reg : H.reg.Perm (regOfL H.forest)
  regk : (H.reg.map (·.2)).Nodup

theorem singletons_hogs (H : Ham) : H.singletons.filter (fun n => !n.isGene) = [] := by
  rw [singletons_eq, List.filter_eq_nil_iff]
  intro a ha
  obtain ⟨g, _, rfl⟩ := List.mem_map.mp ha
  simp [mkSingle, Node.isGene]

theorem singletons_geneId (H : Ham) :
    H.singletons.filterMap geneId =
      (H.genes.filter fun g => !(Node.leavesL H.forest).contains g.id).map (·.id) := by
  rw [singletons_eq, List.filterMap_map]
  have : (geneId ∘ mkSingle) = fun g => some g.id := rfl
  rw [this]
  induction (H.genes.filter fun g => !(Node.leavesL H.forest).contains g.id) with
  | nil => rfl
  | cons x xs ih => simp [ih]

theorem keys_nodup_of {H : Ham} (ok : ForestOK H) : H.keys.Nodup := by
  rw [keys_eq]
  apply nodup_of_filter_split isH
  · rw [← hogFilter_keys, List.filter_append, singletons_hogs, List.append_nil,
      ← hogs_eq_nodes_filter.hogsL_eq]
    have h1 : (regOfL H.forest).map (·.2) = (Node.hogsL H.forest).map Node.key := by
      rw [regOfL_eq_hogsL, List.map_map]; rfl
    rw [← h1]
    exact ((ok.reg.map (·.2)).nodup_iff).mp ok.regk
  · rw [geneKeys_eq, List.filterMap_append, ← leavesL_geneId, singletons_geneId]
    apply nodup_map_of_inj Key.g (fun a b e => by cases e; rfl)
    rw [List.nodup_append]
    refine ⟨ok.refs, ok.gids.sublist ((List.filter_sublist).map _), ?_⟩
    intro a ha b hb hab
    subst hab
    obtain ⟨g, hg, rfl⟩ := List.mem_map.mp hb
    have := (List.mem_filter.mp hg).2
    simp only [Bool.not_eq_true', List.contains_eq_mem, decide_eq_false_iff_not] at this
    exact this ha

theorem sizes_of {H : Ham} (ok : ForestOK H) : H.sizesExact = true := by
  simp only [Ham.sizesExact, List.all_eq_true, beq_iff_eq]
  intro t _
  rw [nodesAt_length, Ham.genomeSize]
  cases hl : H.tree.isLeafAt t with
  | false =>
    simp only [Bool.false_eq_true, if_false]
    have hs : H.singletons.filter (·.tx == t) = [] := by
      rw [singletons_eq, List.filter_eq_nil_iff]
      intro a ha
      obtain ⟨g, hg, rfl⟩ := List.mem_map.mp ha
      have := ok.gleaf g (List.mem_filter.mp hg).1
      simp only [mkSingle, Node.tx, beq_iff_eq]
      intro e
      rw [e, hl] at this
      cases this
    rw [hs, List.length_nil, Nat.add_zero, (ok.reg.filter _).length_eq, regOfL_eq_hogsL, List.filter_map,
      List.length_map, hogs_eq_nodes_filter.hogsL_eq, List.filter_filter]
    congr 1
    apply List.filter_congr
    intro x hx
    simp only [Function.comp]
    cases hxt : x.tx == t with
    | false => rfl
    | true =>
      have hxt' : x.tx = t := by simpa using hxt
      cases hg : x.isGene with
      | false => rfl
      | true =>
        have := (ok.shape x hx).1 hg
        rw [hxt', hl] at this
        cases this
  | true =>
    simp only [if_true]
    rw [length_filter_split (fun g => (Node.leavesL H.forest).contains g.id) (H.genes.filter (·.tx == t))]
    have e2 : (H.singletons.filter (·.tx == t)).length =
        ((H.genes.filter (·.tx == t)).filter fun g => !(Node.leavesL H.forest).contains g.id).length := by
      rw [singletons_eq, List.filter_map, List.length_map, List.filter_filter, List.filter_filter]
      congr 1
      apply List.filter_congr
      intro g _
      simp only [Function.comp, mkSingle, Node.tx]
      exact Bool.and_comm _ _
    rw [e2]
    congr 1
    -- the family genes at `t`, counted through their identities
    have hK := keys_nodup_of ok
    rw [keys_eq] at hK
    have hB : (((Node.nodesL H.forest).filter (·.tx == t)).map Node.key).Nodup :=
      hK.sublist (((List.filter_sublist).trans (List.sublist_append_left _ _)).map _)
    have hA : ((((H.genes.filter (·.tx == t)).filter
        fun g => (Node.leavesL H.forest).contains g.id)).map fun g => Key.g g.id).Nodup := by
      have : (H.genes.map fun g => Key.g g.id).Nodup := by
        have := nodup_map_of_inj Key.g (fun a b e => by cases e; rfl) ok.gids
        rwa [List.map_map] at this
      exact this.sublist (((List.filter_sublist).trans List.filter_sublist).map _)
    have hP := (List.perm_ext_iff_of_nodup hA hB).mpr ?_
    · have := hP.length_eq
      simpa using this
    · intro k
      simp only [List.mem_map, List.mem_filter, beq_iff_eq, List.contains_eq_mem, decide_eq_true_eq]
      constructor
      · rintro ⟨g, ⟨⟨hg, hgt⟩, hin⟩, rfl⟩
        rw [leavesL_geneId, List.mem_filterMap] at hin
        obtain ⟨x, hx, hxi⟩ := hin
        cases x with
        | hog info t' d ks ds => simp [geneId] at hxi
        | gene i t' d lo =>
          simp only [geneId, Option.some.injEq] at hxi
          subst hxi
          obtain ⟨g', hg', hid, htx⟩ := ok.decl _ _ _ _ hx
          have : g' = g := inj_of_nodup_map _ ok.gids hg' hg hid
          subst this
          exact ⟨_, ⟨hx, by simp [Node.tx, ← htx, hgt]⟩, rfl⟩
      · rintro ⟨x, ⟨hx, hxt⟩, rfl⟩
        cases x with
        | hog info t' d ks ds =>
          have := (ok.shape _ hx).2 rfl
          rw [hxt] at this
          exact (leaf_not_internal _ _ hl this).elim
        | gene i t' d lo =>
          obtain ⟨g, hg, hid, htx⟩ := ok.decl _ _ _ _ hx
          simp only [Node.tx] at hxt
          refine ⟨g, ⟨⟨hg, htx.trans hxt⟩, ?_⟩, by simp [Node.key, hid]⟩
          rw [leavesL_geneId, List.mem_filterMap]
          exact ⟨_, hx, by simp [geneId, hid]⟩

/-! ### G. the capstone -/

theorem resolveSpecies_leaf (T : STree) (nm : Naming) (s : String) (p : Taxon)
    (h : resolveSpecies T nm s = .ok p) : T.isLeafAt p = true := by
  unfold resolveSpecies at h
  split at h
  · split at h
    · rename_i hl
      cases h
      exact hl
    · cases h
  · cases h

/-- **every consistent dataset loads, family by family, into a well-formed analysis** -/
theorem loaded_consistent (D : Dataset) (hc : D.Consistent) :
    ∃ H, load D.T D.nm D.file = .ok H ∧
      H.tops.length = D.fams.length ∧
      (∀ i (h1 : i < H.tops.length) (h2 : i < D.fams.length),
          (H.tops[i]).1 = topHid (D.fams[i]).2 ∧ Realises (D.fams[i]).1 (D.fams[i]).2 (H.tops[i]).2) ∧
      H.WFc ∧ H.sizesExact = true ∧
      (H.genes.map (·.id)) = D.species.flatMap (fun s => s.genes.map (·.id)) := by
  -- species and genes
  obtain ⟨genes, hdecl, hg2, hg3⟩ := declareSpecies_ok D.T D.nm D.species [] hc.species_ok
  simp only [List.nil_append] at hdecl
  have hids : genes.map (·.id) = D.species.flatMap (fun s => s.genes.map (·.id)) := by
    simpa using declareSpecies_ids D.T D.nm D.species [] genes hdecl
  have hidsN : (genes.map (·.id)).Nodup := by rw [hids]; exact hc.genes_nodup
  obtain ⟨env, henv⟩ : ∃ env : Env,
      env = { T := D.T, nm := D.nm, geneTx := genes.reverse.map fun g => (g.id, g.tx) } := ⟨_, rfl⟩
  have hlook : ∀ g ∈ genes, env.lookupGene g.id = some g.tx := by
    intro g hg
    rw [henv]
    apply lookup_of_nodup
    · rw [List.map_map]
      show ((genes.reverse).map (·.id)).Nodup
      rw [List.map_reverse]
      exact ((List.reverse_perm _).nodup_iff).mpr hidsN
    · exact List.mem_map.mpr ⟨g, List.mem_reverse.mpr hg, rfl⟩
  have hD : ∀ f ∈ D.fams, Declared env f.1 f.2 := by
    intro f hf e he
    obtain ⟨s, hs, hr, hi⟩ := hc.declared f hf e he
    obtain ⟨g, hg, hgi, hgt⟩ := hg3 s hs e.2 hr e.1 hi
    rw [← hgi, ← hgt]
    exact hlook g hg
  have hnd : ∀ f ∈ D.fams, (genesOf f.2).Nodup := fun f hf =>
    hc.refs_nodup.sublist (sublist_flatMap_of_mem (fun f : Taxon × SL => genesOf f.2) _ f hf)
  have hT : env.T = D.T := by rw [henv]
  have hN : env.nm = D.nm := by rw [henv]
  -- the families
  obtain ⟨tops, ps, htop, hlen, hreal⟩ := C03_load_realises env D.fams
    (fun f hf => ⟨(hc.fams_ok f hf).1, by rw [hT]; exact (hc.fams_ok f hf).2.1, (hc.fams_ok f hf).2.2,
      hD f hf, hnd f hf⟩) (by rw [hT, hN]; exact hc.names)
  obtain ⟨new, hnew, hhid⟩ := tops_hids env D.fams (fun f hf => (hc.fams_ok f hf).1) [] {} tops ps htop
  simp only [List.nil_append] at hnew
  subst hnew
  obtain ⟨sp, hsp⟩ := speciesMapM_ok D.T D.nm D.species hc.species_ok
  have hfold : tops.foldl (fun d n => dictPut d (hidOf n) n) [] = tops.map fun n => (hidOf n, n) := by
    rw [dictPut_foldl_distinct hidOf tops [] (by simpa [hhid] using hc.top_ids)]
    simp
  have hmem : ∀ n ∈ tops, ∃ f ∈ D.fams, Realises f.1 f.2 n := by
    intro n hn
    obtain ⟨i, hi, rfl⟩ := List.mem_iff_getElem.mp hn
    exact ⟨D.fams[i]'(by omega), List.getElem_mem _, hreal i hi (by omega)⟩
  have hreg := C04_registration_exact env none _ tops ps htop
  have hregk := reg_keys_nodup env _ tops ps htop
  rw [hT, hN] at htop
  subst henv
  refine ⟨{ tree := D.T, naming := D.nm, tops := (tops.map fun n => (hidOf n, n)), genes := genes,
            species := sp, reg := ps.reg }, ?_, by simpa using hlen, ?_, ?_⟩
  · simp only [load, buildHam, Dataset.file, bind, Except.bind, hdecl, htop, hsp, hfold]
  · intro i h1 h2
    simp only [List.length_map] at h1
    simp only [List.getElem_map]
    refine ⟨?_, hreal i h1 h2⟩
    have := List.getElem_of_eq hhid (by simpa using h1)
    simpa using this
  · have hforest : Ham.forest
        { tree := D.T, naming := D.nm, tops := (tops.map fun n => (hidOf n, n)), genes := genes, species := sp, reg := ps.reg } = tops := by
      simp [Ham.forest, List.map_map, Function.comp_def]
    have hnodes : ∀ x ∈ Node.nodesL tops, ∃ n ∈ tops, x ∈ n.nodes := by
      intro x hx
      rw [nodesL_eq_flatMap', List.mem_flatMap] at hx
      exact hx
    have ok : ForestOK
        { tree := D.T, naming := D.nm, tops := (tops.map fun n => (hidOf n, n)), genes := genes, species := sp, reg := ps.reg } := by
      refine ⟨?_, ?_, hidsN, ?_, ?_, ?_, hregk⟩
      · rw [hforest]
        intro x hx
        obtain ⟨n, hn, hxn⟩ := hnodes x hx
        obtain ⟨f, hf, hr⟩ := hmem n hn
        have := realises_shape D.T f.1 f.2 n (hc.fams_ok f hf).2.1 hr x hxn
        exact ⟨this.1, fun h => (this.2 h).1⟩
      · rw [hforest]
        intro i t d lo hx
        obtain ⟨n, hn, hxn⟩ := hnodes _ hx
        obtain ⟨f, hf, hr⟩ := hmem n hn
        have he := realises_geneTaxa f.1 f.2 n hr i t d lo hxn
        obtain ⟨s, hs, hrs, hi⟩ := hc.declared f hf (i, t) he
        exact hg3 s hs t hrs i hi
      · intro g hg
        obtain ⟨s, _, hrs, _⟩ := hg2 g hg
        exact resolveSpecies_leaf D.T D.nm s.name g.tx hrs
      · rw [hforest, leavesL_eq_flatMap']
        refine ((flatMap_perm_of_index Node.leaves (fun f => genesOf f.2) tops D.fams hlen ?_).nodup_iff).mpr
          hc.refs_nodup
        intro i h1 h2
        exact realises_leaves _ _ _ (hreal i h1 h2)
      · rw [hforest]
        exact hreg
    refine ⟨⟨?_, ?_, keys_nodup_of ok⟩, sizes_of ok, hids⟩
    · intro p hp
      obtain ⟨n, hn, rfl⟩ := List.mem_map.mp hp
      obtain ⟨f, hf, hr⟩ := hmem n hn
      exact realises_aligned f.1 f.2 n hr
    · intro p hp
      obtain ⟨n, hn, rfl⟩ := List.mem_map.mp hp
      obtain ⟨f, hf, hr⟩ := hmem n hn
      exact realises_disciplined D.T f.1 f.2 n (hc.fams_ok f hf).2.1 hr

end Pyham
