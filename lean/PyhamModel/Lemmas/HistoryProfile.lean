/-
  End-to-end meaning of the per-family profile numbers: for a hierarchy that REALISES a history, the "duplicated" count the
  profile reports at a node is the number of copies the history's duplication events place on the branch into that node,
  and the number of duplication events is (copies - 1) summed over those events.  Together with `C03_load_realises`
  (loading a consistent file yields realising hierarchies) and `C10_profiles_add_up` this says that the numbers pyham
  reports are the numbers of the evolutionary history the file encodes -- not merely consistent among themselves.
-/
import PyhamModel.Lemmas.LineageCount
import PyhamModel.Lemmas.Additivity
import PyhamModel.Lemmas.Unique
import PyhamModel.Lemmas.RealisesLemmas
namespace Pyham

/-- flagged nodes at `t` in a forest (roots included) -/
def flagCountL (t : Taxon) (ks : List Node) : Nat :=
  ((Node.nodesL ks).filter fun x => x.tx == t && x.dup.isSome).length

theorem nodes_eq_cons : (k : Node) → k.nodes = k :: Node.nodesL k.kids
  | .gene .. => by simp [Node.nodes, Node.kids, Node.nodesL]
  | .hog .. => by simp [Node.nodes, Node.kids]

theorem flagCountL_nil (t : Taxon) : flagCountL t [] = 0 := by simp [flagCountL, Node.nodesL]

theorem flagCountL_cons (t : Taxon) (k : Node) (ks : List Node) :
    flagCountL t (k :: ks) =
      (if (k.tx == t && k.dup.isSome) = true then 1 else 0) + flagCountL t k.kids + flagCountL t ks := by
  simp only [flagCountL, Node.nodesL, List.filter_append, List.length_append, nodes_eq_cons k, List.filter_cons]
  split <;> simp <;> omega

theorem nodesL_eq_flatMap (ks : List Node) : Node.nodesL ks = ks.flatMap Node.nodes := by
  induction ks with
  | nil => rfl
  | cons k ks ih => simp [Node.nodesL, ih]

theorem flagCountL_append (t : Taxon) (a b : List Node) : flagCountL t (a ++ b) = flagCountL t a + flagCountL t b := by
  simp [flagCountL, nodesL_eq_flatMap]

theorem flagCountL_perm (t : Taxon) {a b : List Node} (h : a.Perm b) : flagCountL t a = flagCountL t b := by
  simp only [flagCountL, nodesL_eq_flatMap]
  exact ((h.flatMap_right Node.nodes).filter _).length_eq

mutual
theorem realises_fc (t q : Taxon) : (l : SL) → (n : Node) → Realises q l n →
    flagCountL t n.kids = copiesInto t q l
  | .gene id loft, n, h => by
    simp only [Realises] at h
    obtain ⟨d, rfl⟩ := h
    simp [Node.kids, flagCountL_nil, copiesInto, dupWeight]
  | .grp w hid label subs, n, h => by
    simp only [Realises] at h
    obtain ⟨info, d, kids, dups, rfl, plain, evs, hk, _, _, hs⟩ := h
    have ih := realisesSubs_fc t q subs plain evs hs
    have hp := flagCountL_perm t hk
    rw [flagCountL_append, ih] at hp
    simpa [Node.kids, copiesInto, dupWeight] using hp
theorem realisesSubs_fc (t q : Taxon) : (subs : List Sub) → (plain : List Node) →
    (evs : List (DupRec × List Node)) → RealisesSubs q subs plain evs →
    flagCountL t plain + flagCountL t (evs.flatMap (·.2)) = dupWeightSubs id t q subs
  | [], plain, evs, h => by
    simp only [RealisesSubs] at h
    obtain ⟨rfl, rfl⟩ := h
    simp [flagCountL_nil, dupWeightSubs]
  | .one i l :: r, plain, evs, h => by
    simp only [RealisesSubs] at h
    obtain ⟨k, plain', rfl, hkd, hk, hr⟩ := h
    have ih := realisesSubs_fc t q r plain' evs hr
    have ik := realises_fc t (i :: q) l k hk
    rw [flagCountL_cons, dupWeightSubs, ik, ← ih, hkd]
    simp [copiesInto]
    omega
  | .dup i pgid cs :: r, plain, evs, h => by
    simp only [RealisesSubs] at h
    obtain ⟨rec, ks, evs', rfl, _, _, _, hfl, hc, hr⟩ := h
    have ih := realisesSubs_fc t q r plain evs' hr
    have ic := realisesCopies_fc t (i :: q) cs ks hc (fun k hk => by rw [hfl k hk]; rfl)
    rw [List.flatMap_cons, flagCountL_append, dupWeightSubs, ic, ← ih]
    simp only [id]
    omega
  | .ann e :: r, plain, evs, h => by
    simp only [RealisesSubs] at h
    rw [dupWeightSubs]
    exact realisesSubs_fc t q r plain evs h
theorem realisesCopies_fc (t q : Taxon) : (cs : List SL) → (ks : List Node) → RealisesCopies q cs ks →
    (∀ k ∈ ks, k.dup.isSome = true) →
    flagCountL t ks = (if (q == t) = true then cs.length else 0) + dupWeightCopies id t q cs
  | [], ks, h, _ => by
    simp only [RealisesCopies] at h
    subst h
    simp [flagCountL_nil, dupWeightCopies]
  | c :: cs, ks, h, hfl => by
    simp only [RealisesCopies] at h
    obtain ⟨k, ks', rfl, hk, hr⟩ := h
    have ik := realises_fc t q c k hk
    have ir := realisesCopies_fc t q cs ks' hr (fun x hx => hfl x (List.mem_cons_of_mem _ hx))
    have hkt : k.tx = q := realises_tx q c k hk
    have hkf := hfl k (List.mem_cons_self)
    rw [flagCountL_cons, dupWeightCopies, ik, ir, hkt, hkf]
    simp only [copiesInto, Bool.and_true, List.length_cons]
    split <;> omega
end

/-! ### duplication events: HOGs that have a flagged child on the branch -/

/-- `x` lives at `u` and has a child at `i :: u` that arose by duplication -/
def evHere (u : Taxon) (i : Nat) (x : Node) : Bool :=
  x.tx == u && x.kids.any fun c => c.tx == i :: u && c.dup.isSome

def evCountL (u : Taxon) (i : Nat) (ks : List Node) : Nat := ((Node.nodesL ks).filter (evHere u i)).length

theorem evCountL_nil (u : Taxon) (i : Nat) : evCountL u i [] = 0 := by simp [evCountL, Node.nodesL]

theorem evCountL_cons (u : Taxon) (i : Nat) (k : Node) (ks : List Node) :
    evCountL u i (k :: ks) = (if evHere u i k = true then 1 else 0) + evCountL u i k.kids + evCountL u i ks := by
  simp only [evCountL, Node.nodesL, List.filter_append, List.length_append, nodes_eq_cons k, List.filter_cons]
  split <;> simp <;> omega

theorem evCountL_append (u : Taxon) (i : Nat) (a b : List Node) :
    evCountL u i (a ++ b) = evCountL u i a + evCountL u i b := by
  simp [evCountL, nodesL_eq_flatMap]

theorem evCountL_perm (u : Taxon) (i : Nat) {a b : List Node} (h : a.Perm b) : evCountL u i a = evCountL u i b := by
  simp only [evCountL, nodesL_eq_flatMap]
  exact ((h.flatMap_right Node.nodes).filter _).length_eq

/-- the events of one group itself on the branch into `t` -/
def ownEvents (t q : Taxon) : List Sub → Nat
  | [] => 0
  | .dup j _ _ :: r => (if ((j :: q) == t) = true then 1 else 0) + ownEvents t q r
  | _ :: r => ownEvents t q r

mutual
/-- events strictly below the group -/
def deepEvents (t : Taxon) : Taxon → SL → Nat
  | _, .gene _ _ => 0
  | q, .grp _ _ _ subs => ownEvents t q subs + deepEventsSubs t q subs
def deepEventsSubs (t : Taxon) (q : Taxon) : List Sub → Nat
  | [] => 0
  | .one i l :: r => deepEvents t (i :: q) l + deepEventsSubs t q r
  | .dup i _ cs :: r => deepEventsCopies t (i :: q) cs + deepEventsSubs t q r
  | .ann _ :: r => deepEventsSubs t q r
def deepEventsCopies (t : Taxon) (q : Taxon) : List SL → Nat
  | [] => 0
  | c :: cs => deepEvents t q c + deepEventsCopies t q cs
end

mutual
theorem deep_eq (t : Taxon) : (q : Taxon) → (l : SL) → deepEvents t q l = dupWeight (fun _ => 1) t q l
  | _, .gene _ _ => rfl
  | q, .grp _ _ _ subs => by
    simp only [deepEvents, dupWeight]
    exact deepSubs_eq t q subs
theorem deepSubs_eq (t : Taxon) (q : Taxon) : (subs : List Sub) →
    ownEvents t q subs + deepEventsSubs t q subs = dupWeightSubs (fun _ => 1) t q subs
  | [] => rfl
  | .one i l :: r => by
    simp only [ownEvents, deepEventsSubs, dupWeightSubs]
    rw [← deepSubs_eq t q r, deep_eq t (i :: q) l]
    omega
  | .dup i _ cs :: r => by
    simp only [ownEvents, deepEventsSubs, dupWeightSubs]
    rw [← deepSubs_eq t q r, deepCopies_eq t (i :: q) cs]
    omega
  | .ann _ :: r => by
    simp only [ownEvents, deepEventsSubs, dupWeightSubs]
    exact deepSubs_eq t q r
theorem deepCopies_eq (t : Taxon) (q : Taxon) : (cs : List SL) →
    deepEventsCopies t q cs = dupWeightCopies (fun _ => 1) t q cs
  | [] => rfl
  | c :: cs => by
    simp only [deepEventsCopies, dupWeightCopies]
    rw [deep_eq t q c, deepCopies_eq t q cs]
end

/-- with distinct branch indices a group has at most one event on a branch -/
theorem ownEvents_le_one (i : Nat) (u q : Taxon) : (subs : List Sub) → (subs.filterMap subIndex).Nodup →
    ownEvents (i :: u) q subs ≤ 1 ∧ (ownEvents (i :: u) q subs = 1 → i ∈ subs.filterMap subIndex)
  | [], _ => by simp [ownEvents]
  | .one j l :: r, h => by
    simp only [List.filterMap_cons, subIndex, List.nodup_cons] at h
    have ih := ownEvents_le_one i u q r h.2
    simp only [ownEvents, List.filterMap_cons, subIndex, List.mem_cons]
    exact ⟨ih.1, fun e => Or.inr (ih.2 e)⟩
  | .ann e :: r, h => by
    simp only [List.filterMap_cons, subIndex] at h
    have ih := ownEvents_le_one i u q r h
    simp only [ownEvents, List.filterMap_cons, subIndex]
    exact ih
  | .dup j pg cs :: r, h => by
    simp only [List.filterMap_cons, subIndex, List.nodup_cons] at h
    have ih := ownEvents_le_one i u q r h.2
    simp only [ownEvents, List.filterMap_cons, subIndex, List.mem_cons]
    by_cases hj : ((j :: q) == (i :: u)) = true
    · have hji : j = i := by
        simp only [beq_iff_eq, List.cons.injEq] at hj; exact hj.1
      subst hji
      rw [if_pos hj]
      have : ownEvents (j :: u) q r = 0 := by
        rcases Nat.eq_zero_or_pos (ownEvents (j :: u) q r) with h0 | hpos
        · exact h0
        · have h1 : ownEvents (j :: u) q r = 1 := by have := ih.1; omega
          exact absurd (ih.2 h1) h.1
      rw [this]
      exact ⟨by omega, fun _ => Or.inl rfl⟩
    · rw [if_neg hj]
      simp only [Nat.zero_add]
      exact ⟨ih.1, fun e => Or.inr (ih.2 e)⟩

/-- the children of a realising HOG that are flagged and live at `t`: there is one iff the group has an event into `t` -/
theorem realisesSubs_any (T : STree) (t q : Taxon) : (subs : List Sub) → (plain : List Node) →
    (evs : List (DupRec × List Node)) → RealisesSubs q subs plain evs → wfhSubs T q subs = true →
    ((plain ++ evs.flatMap (·.2)).any fun c => c.tx == t && c.dup.isSome) = decide (0 < ownEvents t q subs)
  | [], plain, evs, h, _ => by
    simp only [RealisesSubs] at h
    obtain ⟨rfl, rfl⟩ := h
    simp [ownEvents]
  | .one i l :: r, plain, evs, h, hw => by
    simp only [RealisesSubs] at h
    obtain ⟨k, plain', rfl, hkd, _, hr⟩ := h
    simp only [wfhSubs, Bool.and_eq_true] at hw
    have ih := realisesSubs_any T t q r plain' evs hr hw.2
    simp only [List.cons_append, List.any_cons, hkd, Option.isSome_none, Bool.and_false, Bool.false_or, ownEvents]
    exact ih
  | .ann e :: r, plain, evs, h, hw => by
    simp only [RealisesSubs] at h
    simp only [wfhSubs, Bool.and_eq_true] at hw
    simp only [ownEvents]
    exact realisesSubs_any T t q r plain evs h hw.2
  | .dup i pgid cs :: r, plain, evs, h, hw => by
    simp only [RealisesSubs] at h
    obtain ⟨rec, ks, evs', rfl, _, _, _, hfl, hc, hr⟩ := h
    simp only [wfhSubs, Bool.and_eq_true, decide_eq_true_eq] at hw
    have ih := realisesSubs_any T t q r plain evs' hr hw.2
    obtain ⟨hlen, htx⟩ := realisesCopies_tx cs (i :: q) ks hc
    have hks : (ks.any fun c => c.tx == t && c.dup.isSome) = ((i :: q) == t) := by
      rw [Bool.eq_iff_iff, List.any_eq_true]
      constructor
      · rintro ⟨c, hc', hcond⟩
        simp only [Bool.and_eq_true] at hcond
        rw [htx c hc'] at hcond
        exact hcond.1
      · intro hq
        have hne : ks ≠ [] := by
          intro e; rw [e] at hlen; simp at hlen; omega
        obtain ⟨c, hc'⟩ := List.exists_mem_of_ne_nil ks hne
        refine ⟨c, hc', ?_⟩
        rw [htx c hc', hfl c hc']
        simpa using hq
    simp only [List.flatMap_cons, ownEvents]
    rw [show plain ++ (ks ++ evs'.flatMap (·.2)) = (plain ++ ks) ++ evs'.flatMap (·.2) by simp]
    rw [List.any_append, List.any_append, hks]
    have ih' := ih
    rw [List.any_append] at ih'
    by_cases hq : ((i :: q) == t) = true
    · simp [hq]
      omega
    · simp only [hq, Bool.or_false]
      simpa using ih'

theorem ownEvents_pos (i : Nat) (u q : Taxon) : (subs : List Sub) → 0 < ownEvents (i :: u) q subs → q = u
  | [], h => by simp [ownEvents] at h
  | .one _ _ :: r, h => ownEvents_pos i u q r (by simpa [ownEvents] using h)
  | .ann _ :: r, h => ownEvents_pos i u q r (by simpa [ownEvents] using h)
  | .dup j _ _ :: r, h => by
    simp only [ownEvents] at h
    by_cases hj : ((j :: q) == (i :: u)) = true
    · simp only [beq_iff_eq, List.cons.injEq] at hj; exact hj.2
    · rw [if_neg hj] at h
      exact ownEvents_pos i u q r (by simpa using h)

mutual
theorem realises_ev (T : STree) (u : Taxon) (i : Nat) (q : Taxon) : (l : SL) → (n : Node) → Realises q l n →
    wfh T q l = true → (if evHere u i n = true then 1 else 0) + evCountL u i n.kids = deepEvents (i :: u) q l
  | .gene id loft, n, h, _ => by
    simp only [Realises] at h
    obtain ⟨d, rfl⟩ := h
    simp [evHere, Node.kids, evCountL_nil, deepEvents]
  | .grp w hid label subs, n, h, hw => by
    simp only [Realises] at h
    obtain ⟨info, d, kids, dups, rfl, plain, evs, hk, _, _, hs⟩ := h
    simp only [wfh, Bool.and_eq_true, decide_eq_true_eq] at hw
    obtain ⟨⟨⟨⟨_, _⟩, hnd⟩, _⟩, hws⟩ := hw
    have ih := realisesSubs_ev T u i q subs plain evs hs hws
    have hp := evCountL_perm u i hk
    rw [evCountL_append, ih] at hp
    have hany := realisesSubs_any T (i :: u) q subs plain evs hs hws
    have hown := ownEvents_le_one i u q subs hnd
    have hev : (if evHere u i (Node.hog info q d kids dups) = true then 1 else 0) = ownEvents (i :: u) q subs := by
      have e1 : evHere u i (Node.hog info q d kids dups) =
          ((q == u) && decide (0 < ownEvents (i :: u) q subs)) := by
        unfold evHere
        show ((q == u) && kids.any (fun c => c.tx == i :: u && c.dup.isSome)) = _
        rw [hk.any_eq, hany]
      rw [e1]
      rcases Nat.eq_zero_or_pos (ownEvents (i :: u) q subs) with h0 | hpos
      · rw [h0]; simp
      · have hq := ownEvents_pos i u q subs hpos
        have h1 : ownEvents (i :: u) q subs = 1 := by have := hown.1; omega
        rw [h1, hq]; simp
    simp only [Node.kids, deepEvents]
    rw [hev, hp]
theorem realisesSubs_ev (T : STree) (u : Taxon) (i : Nat) (q : Taxon) : (subs : List Sub) → (plain : List Node) →
    (evs : List (DupRec × List Node)) → RealisesSubs q subs plain evs → wfhSubs T q subs = true →
    evCountL u i plain + evCountL u i (evs.flatMap (·.2)) = deepEventsSubs (i :: u) q subs
  | [], plain, evs, h, _ => by
    simp only [RealisesSubs] at h
    obtain ⟨rfl, rfl⟩ := h
    simp [evCountL_nil, deepEventsSubs]
  | .one j l :: r, plain, evs, h, hw => by
    simp only [RealisesSubs] at h
    obtain ⟨k, plain', rfl, _, hk, hr⟩ := h
    simp only [wfhSubs, Bool.and_eq_true] at hw
    have ih := realisesSubs_ev T u i q r plain' evs hr hw.2
    have ik := realises_ev T u i (j :: q) l k hk hw.1
    rw [evCountL_cons, deepEventsSubs, ← ik, ← ih]
    omega
  | .dup j pgid cs :: r, plain, evs, h, hw => by
    simp only [RealisesSubs] at h
    obtain ⟨rec, ks, evs', rfl, _, _, _, _, hc, hr⟩ := h
    simp only [wfhSubs, Bool.and_eq_true, decide_eq_true_eq] at hw
    have ih := realisesSubs_ev T u i q r plain evs' hr hw.2
    have ic := realisesCopies_ev T u i (j :: q) cs ks hc hw.1.2
    rw [List.flatMap_cons, evCountL_append, deepEventsSubs, ic, ← ih]
    omega
  | .ann e :: r, plain, evs, h, hw => by
    simp only [RealisesSubs] at h
    simp only [wfhSubs, Bool.and_eq_true] at hw
    rw [deepEventsSubs]
    exact realisesSubs_ev T u i q r plain evs h hw.2
theorem realisesCopies_ev (T : STree) (u : Taxon) (i : Nat) (q : Taxon) : (cs : List SL) → (ks : List Node) →
    RealisesCopies q cs ks → wfhCopies T q cs = true → evCountL u i ks = deepEventsCopies (i :: u) q cs
  | [], ks, h, _ => by
    simp only [RealisesCopies] at h
    subst h
    simp [evCountL_nil, deepEventsCopies]
  | c :: cs, ks, h, hw => by
    simp only [RealisesCopies] at h
    obtain ⟨k, ks', rfl, hk, hr⟩ := h
    simp only [wfhCopies, Bool.and_eq_true] at hw
    rw [evCountL_cons, deepEventsCopies, ← realises_ev T u i q c k hk hw.1, realisesCopies_ev T u i q cs ks' hr hw.2]
end

/-! ### from the located members to the counts above -/

theorem locs_tail_nodes (top : Node) :
    ∃ tl, locs [] top = ⟨top, []⟩ :: tl ∧ (∀ l ∈ tl, l.anc ≠ []) ∧ tl.map Loc.node = Node.nodesL top.kids := by
  obtain ⟨tl, h1, h2⟩ := c10_locs_head top []
  refine ⟨tl, h1, ?_, ?_⟩
  · intro l hl he
    have := h2 l hl
    rw [he] at this
    have := this.length_le
    simp at this
  · have hn := locs_nodes top []
    rw [h1, nodes_eq_cons top] at hn
    simpa using hn

theorem flagged_locs_count (top : Node) (t : Taxon) :
    (((locs [] top).filter fun l => l.node.tx == t).filter fun l => !l.anc.isEmpty && l.node.dup.isSome).length =
      flagCountL t top.kids := by
  obtain ⟨tl, h1, h2, h3⟩ := locs_tail_nodes top
  rw [h1, List.filter_filter, List.filter_cons]
  simp only [List.isEmpty_nil, Bool.not_true, Bool.false_and, Bool.false_eq_true, if_false]
  unfold flagCountL
  rw [← h3, List.filter_map, List.length_map]
  congr 1
  apply List.filter_congr
  intro l hl
  have : l.anc.isEmpty = false := by
    cases ha : l.anc with
    | nil => exact absurd ha (h2 l hl)
    | cons _ _ => rfl
  simp [Function.comp, this, Bool.and_comm]

theorem event_locs_count (top : Node) (u : Taxon) (i : Nat) :
    (((locs [] top).filter fun l => l.node.tx == u).filter (Pkid (i :: u) fun c => c.dup.isSome)).length =
      (if evHere u i top = true then 1 else 0) + evCountL u i top.kids := by
  have hn := locs_nodes top []
  have : (((locs [] top).filter fun l => l.node.tx == u).filter (Pkid (i :: u) fun c => c.dup.isSome)).length =
      (((locs [] top).map Loc.node).filter (evHere u i)).length := by
    rw [List.filter_filter, List.filter_map, List.length_map]
    congr 1
    apply List.filter_congr
    intro l _
    simp [Function.comp, Pkid, evHere, Bool.and_comm]
  rw [this, hn, nodes_eq_cons top, List.filter_cons]
  unfold evCountL
  split <;> simp <;> omega

/-- **what the per-family profile reports, in terms of the history the family realises**: at every node `i :: u` the
    "duplicated" count is the number of copies the history's duplication events place on the branch into that node, and
    the number of duplication events is that number minus the number of events on the branch, i.e. the sum of
    (copies - 1) over the events on the branch -/
theorem realises_profile_counts (T : STree) (q : Taxon) (l : SL) (top : Node) (hr : Realises q l top)
    (hw : wfh T q l = true) (hc : LClosed (locs [] top)) (i : Nat) (u : Taxon) :
    on (profileHogAt top (i :: u)).dupl = copiesInto (i :: u) q l ∧
    on (profileHogAt top (i :: u)).duplication = copiesInto (i :: u) q l - eventsInto (i :: u) q l ∧
    eventsInto (i :: u) q l ≤ copiesInto (i :: u) q l := by
  have ha := realises_aligned q l top hr
  have hA : on (profileHogAt top (i :: u)).dupl = copiesInto (i :: u) q l := by
    rw [c10_F_dupl top ha i u, flagged_locs_count, realises_fc (i :: u) q l top hr]
  obtain ⟨hB, hle⟩ := c10_F_duplication top ha hc i u
  rw [flagged_locs_count, event_locs_count, realises_fc (i :: u) q l top hr,
    realises_ev T u i q l top hr hw, deep_eq] at hB hle
  exact ⟨hA, hB, hle⟩

/-- **end to end**: for every consistent dataset the whole-dataset tree profile reports, at every non-root node, as
    "duplicated" the number of copies that the duplication events of the encoded histories place on the branch into the
    node, and as number of duplication events the sum over those events of (copies - 1) -/
theorem C09_profile_numbers_are_the_history (D : Dataset) (hc : D.Consistent) :
    ∃ H, load D.T D.nm D.file = .ok H ∧ ∀ i u, (i :: u) ∈ H.tree.allTaxa →
      on (profileFullAt H (i :: u)).dupl = (D.fams.map fun f => copiesInto (i :: u) f.1 f.2).sum ∧
      on (profileFullAt H (i :: u)).duplication =
        (D.fams.map fun f => copiesInto (i :: u) f.1 f.2 - eventsInto (i :: u) f.1 f.2).sum := by
  obtain ⟨H, hload, hlen, hreal, hwc, hs, _⟩ := loaded_consistent D hc
  obtain ⟨H', hload', hwf, _, _⟩ := loaded_consistent_wf D hc
  have : H' = H := by
    rw [hload] at hload'
    cases hload'
    rfl
  subst this
  refine ⟨H', hload, ?_⟩
  intro i u ht
  obtain ⟨_, _, hd, _, _, hdn⟩ := C10_profiles_add_up H' hwf hs i u ht
  have per : ∀ j (h1 : j < H'.tops.length) (h2 : j < D.fams.length),
      on (profileHogAt (H'.tops[j]).2 (i :: u)).dupl = copiesInto (i :: u) (D.fams[j]).1 (D.fams[j]).2 ∧
      on (profileHogAt (H'.tops[j]).2 (i :: u)).duplication =
        copiesInto (i :: u) (D.fams[j]).1 (D.fams[j]).2 - eventsInto (i :: u) (D.fams[j]).1 (D.fams[j]).2 := by
    intro j h1 h2
    have hr := (hreal j h1 h2).2
    have hw := (hc.fams_ok (D.fams[j]) (List.getElem_mem h2)).2.1
    have hcl := c10_locs_closed hwc (List.getElem_mem h1)
    have := realises_profile_counts D.T _ _ _ hr hw hcl i u
    exact ⟨this.1, this.2.1⟩
  constructor
  · rw [hd]
    unfold famSum
    congr 1
    exact map_eq_of_index _ _ _ _ hlen (fun j h1 h2 => (per j h1 h2).1)
  · rw [hdn]
    unfold famSum
    congr 1
    exact map_eq_of_index _ _ _ _ hlen (fun j h1 h2 => (per j h1 h2).2)

theorem internal_of_child (T : STree) (i : Nat) (u : Taxon) (ht : (i :: u) ∈ T.allTaxa) : T.isInternalAt u = true := by
  have hl := c10_internal_not_leaf T i u ht
  have hu := up_mem_allTaxa T i u ht
  rw [mem_allTaxa_iff] at hu
  unfold STree.isLeafAt at hl
  unfold STree.isInternalAt
  cases hs : T.sub u with
  | none => rw [hs] at hu; simp at hu
  | some x => rw [hs] at hl; simp only at hl; simp [hl]

/-- **the whole profile entry of an ancestral node is a function of the histories**: number of genes = lineages crossing
    the node, gained = families that start there, duplicated = copies placed on the branch, duplication events, retained and
    lost by the two balance equations -/
theorem C09_profile_from_histories (D : Dataset) (hc : D.Consistent) :
    ∃ H, load D.T D.nm D.file = .ok H ∧ ∀ i u, (i :: u) ∈ H.tree.allTaxa → D.T.isInternalAt (i :: u) = true →
      ∃ ret lost,
        profileFullAt H (i :: u) =
          { tx := i :: u, nbr := (D.fams.map fun f => lineagesAt (i :: u) f.1 f.2).sum,
            dupl := some ((D.fams.map fun f => copiesInto (i :: u) f.1 f.2).sum),
            lost := some lost,
            gain := some ((D.fams.filter fun f => f.1 == i :: u).length),
            retained := some ret,
            duplication := some ((D.fams.map fun f => copiesInto (i :: u) f.1 f.2 - eventsInto (i :: u) f.1 f.2).sum),
            nbrEvents := some ((D.fams.map fun f => copiesInto (i :: u) f.1 f.2 - eventsInto (i :: u) f.1 f.2).sum +
              lost + (D.fams.filter fun f => f.1 == i :: u).length) } ∧
        (D.fams.map fun f => lineagesAt (i :: u) f.1 f.2).sum =
          ret + (D.fams.map fun f => copiesInto (i :: u) f.1 f.2).sum + (D.fams.filter fun f => f.1 == i :: u).length ∧
        (D.fams.map fun f => lineagesAt (i :: u) f.1 f.2).sum + lost =
          (D.fams.map fun f => lineagesAt u f.1 f.2).sum + (D.fams.filter fun f => f.1 == i :: u).length +
            (D.fams.map fun f => copiesInto (i :: u) f.1 f.2 - eventsInto (i :: u) f.1 f.2).sum := by
  obtain ⟨H, hload, hlen, hreal, hwc, hs, _⟩ := loaded_consistent D hc
  obtain ⟨H1, hload1, hwf, _, _⟩ := loaded_consistent_wf D hc
  obtain ⟨H2, hload2, hcount⟩ := C04_counts_are_lineages D hc
  obtain ⟨H3, hload3, hnum⟩ := C09_profile_numbers_are_the_history D hc
  have e1 : H1 = H := by rw [hload] at hload1; cases hload1; rfl
  have e2 : H2 = H := by rw [hload] at hload2; cases hload2; rfl
  have e3 : H3 = H := by rw [hload] at hload3; cases hload3; rfl
  rw [e1] at hwf
  rw [e2] at hcount
  rw [e3] at hnum
  have htree : H.tree = D.T := by
    have := hload
    simp only [load, buildHam, bind, Except.bind] at this
    split at this
    · cases this
    · split at this
      · cases this
      · split at this
        · cases this
        · cases this; rfl
  refine ⟨H, hload, ?_⟩
  intro i u ht hint
  have hu : u ∈ H.tree.allTaxa := up_mem_allTaxa _ i u ht
  have hui : D.T.isInternalAt u = true := by rw [← htree]; exact internal_of_child _ i u ht
  obtain ⟨nd, lost, gain, ret, dpl, hprof, hb1, hb2, _⟩ := C09_balance H hwc hs i u ht hu
  obtain ⟨hd, hdn⟩ := hnum i u ht
  obtain ⟨_, hg, _, _, _, _⟩ := C10_profiles_add_up H hwf hs i u ht
  rw [hprof] at hd hdn hg
  simp only [on, Option.getD_some] at hd hdn hg
  -- no singleton lives at an internal node
  have hsing : (singletonsAt H (i :: u)).length = 0 := by
    have hwf' := hwf
    simp only [Ham.wf, Bool.and_eq_true, List.all_eq_true] at hwf'
    unfold singletonsAt
    rw [List.length_eq_zero_iff, List.filter_eq_nil_iff]
    intro g hg' hgt
    simp only [Ham.singletons, List.mem_map, List.mem_filter] at hg'
    obtain ⟨g0, ⟨hg0, _⟩, rfl⟩ := hg'
    have hleaf := hwf'.2 g0 hg0
    simp only [Node.tx, beq_iff_eq] at hgt
    rw [hgt, htree] at hleaf
    exact leaf_not_internal _ _ hleaf hint
  -- families that start at the node
  have hroots : (H.tops.filter fun p => p.2.tx == i :: u).length = (D.fams.filter fun f => f.1 == i :: u).length := by
    rw [← List.countP_eq_length_filter, ← List.countP_eq_length_filter]
    have hm : H.tops.map (fun p => p.2.tx == i :: u) = D.fams.map (fun f => f.1 == i :: u) :=
      map_eq_of_index _ _ _ _ hlen (fun j h1 h2 => by rw [realises_tx _ _ _ (hreal j h1 h2).2])
    have c1 : List.countP (fun p => p.2.tx == i :: u) H.tops = List.countP id (H.tops.map fun p => p.2.tx == i :: u) := by
      rw [List.countP_map]; rfl
    have c2 : List.countP (fun f => f.1 == i :: u) D.fams = List.countP id (D.fams.map fun f => f.1 == i :: u) := by
      rw [List.countP_map]; rfl
    rw [c1, c2, hm]
  have hL := hcount (i :: u) hint
  have hLu := hcount u hui
  rw [hsing, hroots] at hg
  simp only [Nat.add_zero] at hg
  subst hd hdn hg
  refine ⟨ret, lost, ?_, ?_, ?_⟩
  · rw [hprof, hL]
  · rw [← hL]; exact hb1
  · rw [← hL, ← hLu]; exact hb2

end Pyham
