/-
  C03 / C14 / C11 / C13: THE HISTORY DETERMINES THE HIERARCHY.  `Realises q l n` (the relation C03 establishes
  between a spelled history and the loaded HOG) leaves the order of children, the numbering of objects and the
  annotations of `n` free.  Here: nothing else is free.  The history can be read back from any hierarchy that
  realises it (`spell`, the reading used for the iHam export), up to the spelling freedom `SameL` (order of
  sub-branches and copies, written / elided flags, ids, labels, annotations).  Hence two hierarchies that realise
  the same history -- e.g. the loads of two spellings of one file, a filtered and an unfiltered load, loads under
  the two naming modes -- read back to the same history: they are the same hierarchy up to sibling order and
  object numbering.
-/
import PyhamModel.Lemmas.Spelling
import PyhamModel.Model.Spell
import PyhamModel.Model.WF
import PyhamModel.Lemmas.Roundtrip
namespace Pyham

mutual
/-- forget what `spell` does not record: LOFT ids of genes, ids of paralogGroups -/
def bareSL : SL → SL
  | .gene i _ => .gene i none
  | .grp w hid lab subs => .grp w hid lab (bareSubs subs)
def bareSubs : List Sub → List Sub
  | [] => []
  | .one i l :: r => .one i (bareSL l) :: bareSubs r
  | .dup i _ cs :: r => .dup i none (bareCopies cs) :: bareSubs r
  | .ann e :: r => .ann e :: bareSubs r
def bareCopies : List SL → List SL
  | [] => []
  | c :: cs => bareSL c :: bareCopies cs
end

/-! ### reflexivity, transitivity, closure under permutations -/

mutual
theorem sameL_refl' : (l : SL) → SameL l l
  | .gene i lo => .gene i lo
  | .grp _ _ _ subs => .grp _ _ _ _ _ _ _ _ (sameSubs_refl' subs)
theorem sameSubs_refl' : (s : List Sub) → SameSubs s s
  | [] => .nil
  | .one i l :: r => .one i _ _ _ _ (sameL_refl' l) (sameSubs_refl' r)
  | .dup i pg cs :: r => .dup i pg _ _ _ _ (sameCopies_refl' cs) (sameSubs_refl' r)
  | .ann e :: r => .ann_left e _ _ (.ann_right e _ _ (sameSubs_refl' r))
theorem sameCopies_refl' : (cs : List SL) → SameCopies cs cs
  | [] => .nil
  | c :: cs => .cons _ _ _ _ (sameL_refl' c) (sameCopies_refl' cs)
end

theorem SameL_refl (l : SL) : SameL l l := sameL_refl' l

theorem SameL_trans (a b c : SL) (h1 : SameL a b) (h2 : SameL b c) : SameL a c := by
  cases h1 with
  | gene id loft => exact h2
  | grp w w' hid hid' lab lab' subs subs' hs =>
    cases h2 with
    | grp _ w'' _ hid'' _ lab'' _ subs'' hs' => exact .grp _ _ _ _ _ _ _ _ (.trans _ _ _ hs hs')

mutual
theorem bare_sameL : ∀ {l l' : SL}, SameL l l' → SameL (bareSL l) (bareSL l')
  | _, _, .gene id loft => by simp only [bareSL]; exact .gene id none
  | _, _, .grp w w' hid hid' lab lab' subs subs' hs => by
    simp only [bareSL]; exact .grp _ _ _ _ _ _ _ _ (bare_sameSubs hs)
theorem bare_sameSubs : ∀ {a b : List Sub}, SameSubs a b → SameSubs (bareSubs a) (bareSubs b)
  | _, _, .nil => by simp only [bareSubs]; exact .nil
  | _, _, .ann_left e a b s => by simp only [bareSubs]; exact .ann_left e _ _ (bare_sameSubs s)
  | _, _, .ann_right e a b s => by simp only [bareSubs]; exact .ann_right e _ _ (bare_sameSubs s)
  | _, _, .one i l l' a b hl hs => by
    simp only [bareSubs]; exact .one i _ _ _ _ (bare_sameL hl) (bare_sameSubs hs)
  | _, _, .dup i pgid cs cs' a b hc hs => by
    simp only [bareSubs]; exact .dup i none _ _ _ _ (bare_sameCopies hc) (bare_sameSubs hs)
  | _, _, .swap x y a => by cases x <;> cases y <;> simp only [bareSubs] <;> exact .swap _ _ _
  | _, _, .trans a b c s1 s2 => .trans _ _ _ (bare_sameSubs s1) (bare_sameSubs s2)
theorem bare_sameCopies : ∀ {a b : List SL}, SameCopies a b → SameCopies (bareCopies a) (bareCopies b)
  | _, _, .nil => by simp only [bareCopies]; exact .nil
  | _, _, .cons c c' a b hl hs => by
    simp only [bareCopies]; exact .cons _ _ _ _ (bare_sameL hl) (bare_sameCopies hs)
  | _, _, .swap x y a => by simp only [bareCopies]; exact .swap _ _ _
  | _, _, .trans a b c s1 s2 => .trans _ _ _ (bare_sameCopies s1) (bare_sameCopies s2)
end

theorem sameSubs_cons (x : Sub) {a b : List Sub} (h : SameSubs a b) : SameSubs (x :: a) (x :: b) := by
  cases x with
  | one i l => exact .one i _ _ _ _ (sameL_refl' l) h
  | dup i pg cs => exact .dup i pg _ _ _ _ (sameCopies_refl' cs) h
  | ann e => exact .ann_left e _ _ (.ann_right e _ _ h)

theorem sameSubs_of_perm {a b : List Sub} (h : a.Perm b) : SameSubs a b := by
  induction h with
  | nil => exact .nil
  | cons x _ ih => exact sameSubs_cons x ih
  | swap x y l => exact .swap y x l
  | trans _ _ ih1 ih2 => exact .trans _ _ _ ih1 ih2

theorem sameCopies_of_perm {a b : List SL} (h : a.Perm b) : SameCopies a b := by
  induction h with
  | nil => exact .nil
  | cons x _ ih => exact .cons _ _ _ _ (sameL_refl' x) ih
  | swap x y l => exact .swap y x l
  | trans _ _ ih1 ih2 => exact .trans _ _ _ ih1 ih2

theorem sameSubs_map_dup {α} (f g : α → Nat) (A B : α → List SL) (R : List Sub) : (es : List α) →
    (∀ e ∈ es, f e = g e ∧ SameCopies (A e) (B e)) →
    SameSubs (es.map (fun e => Sub.dup (f e) none (A e)) ++ R) (es.map (fun e => Sub.dup (g e) none (B e)) ++ R)
  | [], _ => sameSubs_refl' R
  | e :: es, h => by
    obtain ⟨h1, h2⟩ := h e List.mem_cons_self
    simp only [List.map_cons, List.cons_append]
    rw [h1]
    exact .dup _ none _ _ _ _ h2 (sameSubs_map_dup f g A B R es (fun x hx => h x (List.mem_cons_of_mem _ hx)))

/-! ### what `spell` computes, as maps over filtered children -/

theorem spellKids_eq (pOg keep : Bool) (sel : List Node) : (ks : List Node) →
    spellKids pOg keep sel ks =
      (ks.filter fun k => sel.any (·.key == k.key)).map fun k => Sub.one (branchOf k) (spell pOg keep k)
  | [] => by simp [spellKids]
  | k :: ks => by
    rw [spellKids, List.filter_cons, spellKids_eq pOg keep sel ks]
    cases sel.any (·.key == k.key) <;> simp

theorem spellMembers_eq (mem : List Key) : (ks : List Node) →
    spellMembers mem ks = (ks.filter fun k => mem.contains k.key).map (spell false false)
  | [] => by simp [spellMembers]
  | k :: ks => by
    rw [spellMembers, List.filter_cons, spellMembers_eq mem ks]
    cases mem.contains k.key <;> simp

/-! ### keys of all nodes below a list of children -/

def keysL (ks : List Node) : List Key := (Node.nodesL ks).map Node.key

theorem keysL_append (a b : List Node) : keysL (a ++ b) = keysL a ++ keysL b := by
  simp [keysL, nodesL_eq_flatMap']

theorem keysL_cons (k : Node) (ks : List Node) : keysL (k :: ks) = k.nodes.map Node.key ++ keysL ks := by
  simp [keysL, Node.nodesL]

theorem keysL_perm {a b : List Node} (h : a.Perm b) : (keysL a).Perm (keysL b) := by
  unfold keysL
  rw [nodesL_eq_flatMap', nodesL_eq_flatMap']
  exact (h.flatMap_right _).map _

/-! ### simple consequences of `Realises` -/

theorem realisesCopies_tx : (cs : List SL) → (q : Taxon) → (ks : List Node) → RealisesCopies q cs ks →
    ks.length = cs.length ∧ ∀ k ∈ ks, k.tx = q
  | [], q, ks, h => by
    simp only [RealisesCopies] at h
    subst h
    simp
  | c :: cs, q, ks, h => by
    simp only [RealisesCopies] at h
    obtain ⟨k, ks', rfl, hk, hrest⟩ := h
    obtain ⟨h1, h2⟩ := realisesCopies_tx cs q ks' hrest
    refine ⟨by simp [h1], ?_⟩
    intro x hx
    rcases List.mem_cons.1 hx with rfl | hx
    · exact realises_tx q c _ hk
    · exact h2 x hx

/-- the branch an event sits on, read off its first copy -/
def evBr (e : DupRec × List Node) : Nat :=
  match e.2 with
  | k :: _ => branchOf k
  | [] => 0

theorem rs_evs (T : STree) (q : Taxon) : (subs : List Sub) → (plain : List Node) →
    (evs : List (DupRec × List Node)) → wfhSubs T q subs = true → RealisesSubs q subs plain evs →
    ∀ e ∈ evs, e.1.members.Perm (e.2.map Node.key) ∧ e.2 ≠ [] ∧ ∀ k ∈ e.2, k.tx = evBr e :: q
  | [], plain, evs, _, h => by
    simp only [RealisesSubs] at h
    obtain ⟨_, rfl⟩ := h
    simp
  | .one i l :: r, plain, evs, hw, h => by
    simp only [wfhSubs, Bool.and_eq_true] at hw
    simp only [RealisesSubs] at h
    obtain ⟨k, p', rfl, _, _, hr⟩ := h
    exact rs_evs T q r p' evs hw.2 hr
  | .dup i pg cs :: r, plain, evs, hw, h => by
    simp only [wfhSubs, Bool.and_eq_true, decide_eq_true_eq] at hw
    simp only [RealisesSubs] at h
    obtain ⟨rc, ks, evs', rfl, _, _, hm, _, hc, hr⟩ := h
    intro e he
    rcases List.mem_cons.1 he with rfl | he
    · obtain ⟨hlen, htx⟩ := realisesCopies_tx cs (i :: q) ks hc
      match ks, hlen, htx, hm with
      | [], hlen, _, _ => simp at hlen; omega
      | k0 :: ks0, _, htx, hm =>
        refine ⟨hm, by simp, ?_⟩
        intro k hk
        have h0 := htx k0 List.mem_cons_self
        simp only [evBr, branchOf, h0, List.headD_cons]
        exact htx k hk
    · exact rs_evs T q r plain evs' hw.2 hr e he
  | .ann _ :: r, plain, evs, hw, h => by
    simp only [wfhSubs, Bool.and_eq_true] at hw
    simp only [RealisesSubs] at h
    exact rs_evs T q r plain evs hw.2 h

/-! ### the ideal reading of the subs, and how `spell` arrives at it -/

def idealSubs (kc : Bool) (plain : List Node) (evs : List (DupRec × List Node)) : List Sub :=
  (evs.map fun e => Sub.dup (evBr e) none (e.2.map (spell false false))) ++
    plain.map fun k => Sub.one (branchOf k) (spell true kc k)

theorem ideal_to_spell (q : Taxon) (kids : List Node) (dups : List DupRec) (plain : List Node)
    (evs : List (DupRec × List Node)) (kc : Bool)
    (hkeys : (kids.map Node.key).Nodup)
    (hp : kids.Perm (plain ++ evs.flatMap (·.2))) (hd : dups.Perm (evs.map (·.1)))
    (hev : ∀ e ∈ evs, e.1.members.Perm (e.2.map Node.key) ∧ e.2 ≠ [] ∧ ∀ k ∈ e.2, k.tx = evBr e :: q) :
    SameSubs (idealSubs kc plain evs) (subsOf kc kids dups) := by
  have hkn : kids.Nodup := (List.pairwise_map.1 hkeys).imp (fun hne e => hne (congrArg Node.key e))
  have hpn : (plain ++ evs.flatMap (·.2)).Nodup := hp.nodup_iff.1 hkn
  have hinj : ∀ a ∈ kids, ∀ b ∈ kids, a.key = b.key → a = b :=
    fun a ha b hb => eq_of_nodup_map Node.key kids hkeys a b ha hb
  have hE : ∀ e ∈ evs, ∀ k ∈ e.2, k ∈ kids := by
    intro e he k hk
    exact hp.mem_iff.2 (List.mem_append_right _ (List.mem_flatMap.2 ⟨e, he, hk⟩))
  have hfil : ∀ e ∈ evs, ∀ k, (k ∈ kids ∧ k.key ∈ e.1.members) ↔ k ∈ e.2 := by
    intro e he k
    constructor
    · rintro ⟨hk, hm⟩
      have := (hev e he).1.mem_iff.1 hm
      obtain ⟨k', hk', hkey⟩ := List.mem_map.1 this
      have := hinj k' (hE e he k' hk') k hk hkey
      rw [← this]; exact hk'
    · intro hk
      exact ⟨hE e he k hk, (hev e he).1.mem_iff.2 (List.mem_map_of_mem hk)⟩
  have hfp : ∀ e ∈ evs, (kids.filter fun k => e.1.members.contains k.key).Perm e.2 := by
    intro e he
    have hn2 : e.2.Nodup :=
      ((sublist_flatMap_of_mem (·.2) evs e he).trans (List.sublist_append_right _ _)).nodup hpn
    rw [List.perm_ext_iff_of_nodup (List.filter_sublist.nodup hkn) hn2]
    intro k
    simp only [List.mem_filter, List.contains_eq_mem, decide_eq_true_eq]
    exact hfil e he k
  have hbr : ∀ e ∈ evs, brOf kids e.1 = evBr e := by
    intro e he
    unfold brOf
    cases hfind : kids.find? (fun k => e.1.members.contains k.key) with
    | none =>
      obtain ⟨k1, hk1⟩ := List.exists_mem_of_ne_nil _ (hev e he).2.1
      have := List.find?_eq_none.1 hfind k1 (hE e he k1 hk1)
      have hm := ((hfil e he k1).2 hk1).2
      simp [hm] at this
    | some k0 =>
      have h0 := List.find?_some hfind
      have hk0 := List.mem_of_find?_eq_some hfind
      simp only [List.contains_eq_mem, decide_eq_true_eq] at h0
      have h1 := (hfil e he k0).1 ⟨hk0, h0⟩
      have h2 := (hev e he).2.2 k0 h1
      simp [branchOf, h2]
  have hmem : ∀ m, m ∈ dups.flatMap (·.members) ↔ ∃ k ∈ evs.flatMap (·.2), k.key = m := by
    intro m
    simp only [List.mem_flatMap]
    constructor
    · rintro ⟨d, hd1, hm⟩
      have := hd.mem_iff.1 hd1
      obtain ⟨e, he, rfl⟩ := List.mem_map.1 this
      have := (hev e he).1.mem_iff.1 hm
      obtain ⟨k, hk, hkey⟩ := List.mem_map.1 this
      exact ⟨k, ⟨e, he, hk⟩, hkey⟩
    · rintro ⟨k, ⟨e, he, hk⟩, rfl⟩
      exact ⟨e.1, hd.mem_iff.2 (List.mem_map_of_mem he), (hev e he).1.mem_iff.2 (List.mem_map_of_mem hk)⟩
  have hrem : (remOf kids dups).Perm plain := by
    unfold remOf
    rw [List.perm_ext_iff_of_nodup (List.filter_sublist.nodup hkn) ((List.sublist_append_left _ _).nodup hpn)]
    intro k
    simp only [List.mem_filter, Bool.not_eq_true', List.contains_eq_mem, decide_eq_false_iff_not]
    rw [hmem]
    have hdisj := (List.nodup_append.1 hpn).2.2
    constructor
    · rintro ⟨hk, hno⟩
      rcases List.mem_append.1 (hp.mem_iff.1 hk) with h | h
      · exact h
      · exact absurd ⟨k, h, rfl⟩ hno
    · intro hk
      refine ⟨hp.mem_iff.2 (List.mem_append_left _ hk), ?_⟩
      rintro ⟨k', hk', hkey⟩
      have := hinj k' (hp.mem_iff.2 (List.mem_append_right _ hk')) k
        (hp.mem_iff.2 (List.mem_append_left _ hk)) hkey
      subst this
      exact hdisj _ hk _ hk' rfl
  unfold idealSubs subsOf
  rw [spellKids_eq, remOf_any]
  refine .trans _ (evs.map (fun e => Sub.dup (brOf kids e.1) none (spellMembers e.1.members kids)) ++
    plain.map fun k => Sub.one (branchOf k) (spell true kc k)) _ ?_ ?_
  · apply sameSubs_map_dup
    intro e he
    refine ⟨(hbr e he).symm, ?_⟩
    rw [spellMembers_eq]
    exact sameCopies_of_perm ((hfp e he).symm.map _)
  · apply sameSubs_of_perm
    refine List.Perm.append ?_ (hrem.symm.map _)
    have := (hd.map (fun d => Sub.dup (brOf kids d) none (spellMembers d.members kids))).symm
    rw [List.map_map] at this
    exact this

/-! ### reading the history back -/

mutual
theorem rsp_node (T : STree) : (l : SL) → (q : Taxon) → (n : Node) → (pOg keep : Bool) →
    wfh T q l = true → Realises q l n → (n.nodes.map Node.key).Nodup → SameL (bareSL l) (spell pOg keep n)
  | .gene id loft, q, n, _, _, _, hr, _ => by
    simp only [Realises] at hr
    obtain ⟨d, rfl⟩ := hr
    simp only [bareSL, spell]
    exact .gene id none
  | .grp w hid lab subs, q, n, pOg, keep, hw, hr, hk => by
    simp only [Realises] at hr
    obtain ⟨info, d, kids, dups, rfl, plain, evs, hp, hd, _, hsub⟩ := hr
    simp only [wfh, Bool.and_eq_true] at hw
    have hws := hw.2
    simp only [Node.nodes, List.map_cons, List.nodup_cons] at hk
    have hkn : (keysL kids).Nodup := hk.2
    have hkeys : (kids.map Node.key).Nodup := ((rt_kids_sublist_nodesL kids).map Node.key).nodup hkn
    have hkn' : (keysL (plain ++ evs.flatMap (·.2))).Nodup := (keysL_perm hp).nodup_iff.1 hkn
    have h1 := rsp_subs T subs q plain evs (kids.length == 1 && !elideB pOg keep kids dups) hws hsub hkn'
    have h2 := ideal_to_spell q kids dups plain evs (kids.length == 1 && !elideB pOg keep kids dups)
      hkeys hp hd (rs_evs T q subs plain evs hws hsub)
    have h3 := SameSubs.trans _ _ _ h1 h2
    rw [spell_hog, bareSL]
    split <;> exact .grp _ _ _ _ _ _ _ _ h3
theorem rsp_subs (T : STree) : (subs : List Sub) → (q : Taxon) → (plain : List Node) →
    (evs : List (DupRec × List Node)) → (kc : Bool) →
    wfhSubs T q subs = true → RealisesSubs q subs plain evs →
    (keysL (plain ++ evs.flatMap (·.2))).Nodup →
    SameSubs (bareSubs subs) (idealSubs kc plain evs)
  | [], q, plain, evs, kc, _, hr, _ => by
    simp only [RealisesSubs] at hr
    obtain ⟨rfl, rfl⟩ := hr
    simp only [bareSubs, idealSubs, List.map_nil, List.append_nil]
    exact .nil
  | .one i l :: r, q, plain, evs, kc, hw, hr, hk => by
    simp only [wfhSubs, Bool.and_eq_true] at hw
    simp only [RealisesSubs] at hr
    obtain ⟨k, p', rfl, _, hrk, hrest⟩ := hr
    rw [List.cons_append, keysL_cons, List.nodup_append] at hk
    have ih := rsp_subs T r q p' evs kc hw.2 hrest hk.2.1
    have hl := rsp_node T l (i :: q) k true kc hw.1 hrk hk.1
    have hb : branchOf k = i := by simp [branchOf, realises_tx _ l k hrk]
    unfold idealSubs at ih
    simp only [bareSubs, idealSubs, List.map_cons]
    rw [hb]
    refine .trans _ _ _ (.one i _ _ _ _ hl ih) (sameSubs_of_perm ?_)
    exact List.perm_middle.symm
  | .dup i pg cs :: r, q, plain, evs, kc, hw, hr, hk => by
    have hev := rs_evs T q _ plain evs hw hr
    simp only [wfhSubs, Bool.and_eq_true, decide_eq_true_eq] at hw
    simp only [RealisesSubs] at hr
    obtain ⟨rc, ks, evs', rfl, _, _, _, _, hc, hrest⟩ := hr
    have hbr : evBr (rc, ks) = i := by
      obtain ⟨_, hne, htx⟩ := hev (rc, ks) List.mem_cons_self
      obtain ⟨k1, hk1⟩ := List.exists_mem_of_ne_nil _ hne
      have e1 := htx k1 hk1
      have e2 := (realisesCopies_tx cs (i :: q) ks hc).2 k1 hk1
      rw [e2] at e1
      simp only [List.cons.injEq, and_true] at e1
      exact e1.symm
    simp only [List.flatMap_cons] at hk
    rw [keysL_append, keysL_append] at hk
    have hk1 : (keysL ks).Nodup :=
      ((List.sublist_append_left _ _).trans (List.sublist_append_right _ _)).nodup hk
    have hk2 : (keysL (plain ++ evs'.flatMap (·.2))).Nodup := by
      rw [keysL_append]
      exact (List.Sublist.append (List.Sublist.refl _) (List.sublist_append_right _ _)).nodup hk
    have ih := rsp_subs T r q plain evs' kc hw.2 hrest hk2
    have hcs := rsp_copies T cs (i :: q) ks hw.1.2 hc hk1
    unfold idealSubs at ih
    simp only [bareSubs, idealSubs, List.map_cons, List.cons_append]
    rw [hbr]
    exact .dup i none _ _ _ _ hcs ih
  | .ann e :: r, q, plain, evs, kc, hw, hr, hk => by
    simp only [wfhSubs, Bool.and_eq_true] at hw
    simp only [RealisesSubs] at hr
    simp only [bareSubs]
    exact .ann_left e _ _ (rsp_subs T r q plain evs kc hw.2 hr hk)
theorem rsp_copies (T : STree) : (cs : List SL) → (q : Taxon) → (ks : List Node) →
    wfhCopies T q cs = true → RealisesCopies q cs ks → (keysL ks).Nodup →
    SameCopies (bareCopies cs) (ks.map (spell false false))
  | [], q, ks, _, hr, _ => by
    simp only [RealisesCopies] at hr
    subst hr
    simp only [bareCopies, List.map_nil]
    exact .nil
  | c :: cs, q, ks, hw, hr, hk => by
    simp only [wfhCopies, Bool.and_eq_true] at hw
    simp only [RealisesCopies] at hr
    obtain ⟨k, ks', rfl, hrk, hrest⟩ := hr
    rw [keysL_cons, List.nodup_append] at hk
    simp only [bareCopies, List.map_cons]
    exact .cons _ _ _ _ (rsp_node T c q k false false hw.1 hrk hk.1) (rsp_copies T cs q ks' hw.2 hrest hk.2.1)
end

/-- **reading the history back**: if `n` realises the well-formed history `l` (and object identities in `n` are
    distinct), then the history `spell` reads off `n` is `l` up to spelling -/
theorem realises_spell (T : STree) (q : Taxon) (l : SL) (n : Node) (pOg keep : Bool)
    (hw : wfh T q l = true) (hr : Realises q l n) (hk : (n.nodes.map Node.key).Nodup) :
    SameL (bareSL l) (spell pOg keep n) :=
  rsp_node T l q n pOg keep hw hr hk

/-- **uniqueness**: two hierarchies that realise one history read back to the same history -/
theorem realises_unique (T : STree) (q : Taxon) (l : SL) (n n' : Node)
    (hw : wfh T q l = true) (hr : Realises q l n) (hr' : Realises q l n')
    (hk : (n.nodes.map Node.key).Nodup) (hk' : (n'.nodes.map Node.key).Nodup) :
    SameL (spell false false n) (spell false false n') :=
  SameL_trans _ (bareSL l) _ (SameL_symm _ _ (realises_spell T q l n false false hw hr hk))
    (realises_spell T q l n' false false hw hr' hk')

/-- ... and two spellings of one history (C14), loaded separately, give such hierarchies -/
theorem realises_unique_spellings (T : STree) (q : Taxon) (l l' : SL) (n n' : Node) (hs : SameL l l')
    (hw : wfh T q l = true) (hw' : wfh T q l' = true) (hr : Realises q l n) (hr' : Realises q l' n')
    (hk : (n.nodes.map Node.key).Nodup) (hk' : (n'.nodes.map Node.key).Nodup) :
    SameL (spell false false n) (spell false false n') :=
  SameL_trans _ (bareSL l) _ (SameL_symm _ _ (realises_spell T q l n false false hw hr hk))
    (SameL_trans _ (bareSL l') _ (bare_sameL hs) (realises_spell T q l' n' false false hw' hr' hk'))

end Pyham
