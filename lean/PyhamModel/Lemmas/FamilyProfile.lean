/-
  C10, first sentence: what the tree profile of a single HOG reports at a node below the HOG's taxon.
  (The per-family clauses were the definitions `levelGroup` / `profileHogAt` of the model; here they are related to the
  family's located members `locs [] top` -- the same objects the comparisons `hogsMap` work on.)
-/
import PyhamModel.Lemmas.Additivity
namespace Pyham

theorem len_filter_add_not {α} (l : List α) (q : α → Bool) :
    l.length = (l.filter q).length + (l.filter fun x => !q x).length := by
  induction l with
  | nil => rfl
  | cons a l ih =>
    simp only [List.filter_cons, List.length_cons]
    cases q a <;> simp <;> omega

/-- **the tree profile of a single HOG**, at every node `i :: u` other than the HOG's own taxon:
    `nbr` counts the family's members living at the node, `dupl` those of them that arose by duplication, `retained`
    the others (so `nbr = dupl + retained`), and `lost` the family's members at the parent node `u` none of whose
    children lives at the node -/
theorem C10_family_profile_meaning (top : Node) (ha : top.aligned = true) (i : Nat) (u : Taxon)
    (hne : ((i :: u) == top.tx) = false) :
    (profileHogAt top (i :: u)).nbr = ((locs [] top).filter fun l => l.node.tx == i :: u).length ∧
    on (profileHogAt top (i :: u)).dupl =
      (((locs [] top).filter fun l => l.node.tx == i :: u).filter fun l => l.node.dup.isSome).length ∧
    on (profileHogAt top (i :: u)).retained =
      (((locs [] top).filter fun l => l.node.tx == i :: u).filter fun l => !l.node.dup.isSome).length ∧
    (profileHogAt top (i :: u)).nbr =
      on (profileHogAt top (i :: u)).dupl + on (profileHogAt top (i :: u)).retained ∧
    on (profileHogAt top (i :: u)).lost =
      (((locs [] top).filter fun l => l.node.tx == u).filter
        fun x => !(x.node.kids.any fun c => c.tx == i :: u)).length ∧
    (profileHogAt top (i :: u)).gain = none := by
  have hd : on (profileHogAt top (i :: u)).dupl =
      (((locs [] top).filter fun l => l.node.tx == i :: u).filter fun l => l.node.dup.isSome).length := by
    rw [c10_F_dupl top ha i u]
    congr 1
    apply List.filter_congr
    intro l hl
    simp only [List.mem_filter, beq_iff_eq] at hl
    rw [c10_isEmpty_eq top ha l hl.1 _ hl.2, hne]
    simp
  have hr : on (profileHogAt top (i :: u)).retained =
      (((locs [] top).filter fun l => l.node.tx == i :: u).filter fun l => !l.node.dup.isSome).length := by
    rw [c10_F_retained top ha i u]
    congr 1
    apply List.filter_congr
    intro l hl
    simp only [List.mem_filter, beq_iff_eq] at hl
    rw [c10_isEmpty_eq top ha l hl.1 _ hl.2, hne]
    simp
  refine ⟨c10_F_nbr top (i :: u), hd, hr, ?_, c10_F_lost top ha i u, ?_⟩
  · rw [c10_F_nbr, hd, hr]
    exact len_filter_add_not _ _
  · simp [profileHogAt, hne, Taxon.up]

/-- ... and at the HOG's own taxon the profile carries the number of the family's members there and nothing else -/
theorem C10_family_profile_root (top : Node) :
    profileHogAt top top.tx = { tx := top.tx, nbr := ((locs [] top).filter fun l => l.node.tx == top.tx).length } := by
  rw [c10_profile_root top top.tx (by simp), c10_levelGroup, List.length_map]

end Pyham
