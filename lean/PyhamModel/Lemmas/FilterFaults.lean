/-
  C20 for filtered loads: a fault inside a SELECTED family is not skipped because a filter is active.
-/
import PyhamModel.Lemmas.FilterLemmas
import PyhamModel.Lemmas.Faults
namespace Pyham

/-- the filtered load of a file is the unfiltered load of the projected file; if one of the kept families contains
    (at any depth) a reference to a gene that the projected file does not declare, an empty orthologGroup or an empty
    paralogGroup, the filtered load raises -/
theorem C20_filtered_fault_rejected (T : STree) (nm : Naming) (inp : Input) (f : Filter)
    (hog : inp.groups.all isOgWithId = true) (gids hids : List String)
    (hf : filterTops f inp.groups (filterGenes f inp.species, []) = .ok (gids, hids))
    (hfault : faultyL (fun id => ((projectInput inp gids.contains hids).species.flatMap
        (fun s => s.genes.map (·.id))).contains id) (projectInput inp gids.contains hids).groups = true) :
    ∃ err, loadFiltered T nm inp f = .error err := by
  obtain ⟨g', h', heq, hl⟩ := C11_loadFiltered T nm inp f hog
  rw [hf] at heq
  cases heq
  rw [hl]
  exact C20_group_fault_rejected T nm (projectInput inp gids.contains hids) hfault

end Pyham
