/-
  C11, last clause: "each [selected family is] identical in members, levels and duplications to the same family in
  an unfiltered load".  `C11_filtered_is_projection` says the filtered load is the unfiltered load of the projected
  file; `family_local` (Locality.lean) says a family is built from its own group only.  Missing link: the projected
  load runs in an environment that knows fewer genes -- but a group only ever looks up the genes it references.
-/
import PyhamModel.Lemmas.FilterLemmas
import PyhamModel.Lemmas.Locality
import PyhamModel.Lemmas.Declared
namespace Pyham

/-! ### the loader reads the environment only through tree, naming and the referenced genes -/

theorem inferLevel_env_congr (env env' : Env) (hT : env.T = env'.T) (hn : env.nm = env'.nm) (hb : HogBuild) :
    inferLevel env hb = inferLevel env' hb := by
  obtain ⟨T, nm, g⟩ := env
  obtain ⟨T', nm', g'⟩ := env'
  simp only at hT hn
  subst hT hn
  rfl

theorem closeOg_env_congr (env env' : Env) (hT : env.T = env'.T) (hn : env.nm = env'.nm) (top : Bool)
    (hb : HogBuild) (ps : PS) : closeOg env top hb ps = closeOg env' top hb ps := by
  simp only [closeOg, inferLevel_env_congr env env' hT hn]

theorem refsOf_pg (p : Option String) (its : List Elem) : refsOf (.pg p its) = refsOfL its := by
  simp [refsOf]

theorem refsOf_ref (id : String) (l : Option String) : refsOf (.ref id l) = [id] := by
  simp [refsOf]

theorem refsOfL_cons (e : Elem) (es : List Elem) : refsOfL (e :: es) = refsOf e ++ refsOfL es := by
  simp [refsOfL]

theorem elem_env_congr (env env' : Env) (hT : env.T = env'.T) (hn : env.nm = env'.nm) :
    (e : Elem) → (len : Nat) → (hb : HogBuild) → (ps : PS) →
    (∀ id ∈ refsOf e, env.lookupGene id = env'.lookupGene id) →
    elem env len e hb ps = elem env' len e hb ps
  | .ref id loft, len, hb, ps, h => by
    simp only [elem]
    rw [h id (by simp [refsOf_ref])]
  | .score id v, len, hb, ps, h => by simp only [elem]
  | .prop n v, len, hb, ps, h => by simp only [elem]
  | .pg pgid its, len, hb, ps, h => by
    simp only [elem]
    rw [elems_env_congr env env' hT hn its len hb _ (by simpa [refsOf_pg] using h)]
  | .og hid og its, len, hb, ps, h => by
    rw [elem_og_eq, elem_og_eq,
      elems_env_congr env env' hT hn its (len + 1) _ _ (by simpa [refsOf_og] using h)]
    simp only [closeOg_env_congr env env' hT hn]
where
  elems_env_congr (env env' : Env) (hT : env.T = env'.T) (hn : env.nm = env'.nm) :
      (es : List Elem) → (len : Nat) → (hb : HogBuild) → (ps : PS) →
      (∀ id ∈ refsOfL es, env.lookupGene id = env'.lookupGene id) →
      elems env len es hb ps = elems env' len es hb ps
    | [], len, hb, ps, h => by simp only [elems]
    | e :: es, len, hb, ps, h => by
      simp only [elems, bind, Except.bind]
      rw [elem_env_congr env env' hT hn e len hb ps
        (fun id hid => h id (by rw [refsOfL_cons]; exact List.mem_append_left _ hid))]
      cases elem env' len e hb ps with
      | error e => rfl
      | ok r =>
        obtain ⟨hb1, ps1⟩ := r
        exact elems_env_congr env env' hT hn es len hb1 ps1
          (fun id hid => h id (by rw [refsOfL_cons]; exact List.mem_append_right _ hid))

theorem topElem_env_congr_aux (env env' : Env) (hT : env.T = env'.T) (hn : env.nm = env'.nm) :
    (e : Elem) → (tops : List Node) → (ps : PS) →
    (∀ id ∈ refsOf e, env.lookupGene id = env'.lookupGene id) →
    topElem env none e tops ps = topElem env' none e tops ps
  | .ref id loft, tops, ps, h => by
    simp only [topElem]
    rw [h id (by simp [refsOf_ref])]
  | .score id v, tops, ps, h => by simp only [topElem]
  | .prop n v, tops, ps, h => by simp only [topElem]
  | .pg pgid its, tops, ps, h => by
    simp only [topElem]
    rw [topElems_env_congr env env' hT hn its tops _ (by simpa [refsOf_pg] using h)]
  | .og hid og its, tops, ps, h => by
    rw [topElem_og_eq, topElem_og_eq,
      elem_env_congr.elems_env_congr env env' hT hn its 1 _ _ (by simpa [refsOf_og] using h)]
    simp only [closeOg_env_congr env env' hT hn]
where
  topElems_env_congr (env env' : Env) (hT : env.T = env'.T) (hn : env.nm = env'.nm) :
      (es : List Elem) → (tops : List Node) → (ps : PS) →
      (∀ id ∈ refsOfL es, env.lookupGene id = env'.lookupGene id) →
      topElems env none es tops ps = topElems env' none es tops ps
    | [], tops, ps, h => by simp only [topElems]
    | e :: es, tops, ps, h => by
      simp only [topElems, bind, Except.bind]
      rw [topElem_env_congr_aux env env' hT hn e tops ps
        (fun id hid => h id (by rw [refsOfL_cons]; exact List.mem_append_left _ hid))]
      cases topElem env' none e tops ps with
      | error e => rfl
      | ok r =>
        obtain ⟨t1, ps1⟩ := r
        exact topElems_env_congr env env' hT hn es t1 ps1
          (fun id hid => h id (by rw [refsOfL_cons]; exact List.mem_append_right _ hid))

/-- the loader consults the environment only through the genes the element references (and tree / naming) -/
theorem topElem_env_congr (env env' : Env) (hT : env.T = env'.T) (hn : env.nm = env'.nm)
    (e : Elem) (h : ∀ id ∈ refsOf e, env.lookupGene id = env'.lookupGene id) (tops : List Node) (ps : PS) :
    topElem env none e tops ps = topElem env' none e tops ps := by
  exact topElem_env_congr_aux env env' hT hn e tops ps h

/-! ### lifting to the group section -/

theorem mem_refsOfL (id : String) (es : List Elem) : id ∈ refsOfL es ↔ ∃ e ∈ es, id ∈ refsOf e := by
  induction es with
  | nil => simp [refsOfL]
  | cons e es ih => simp [refsOfL_cons, ih]

/-! ### the genes of the filtered load are the kept genes of the full load -/

theorem declareSpecies_keep (T : STree) (nm : Naming) (keep : String → Bool) : (sp : List Species) →
    (acc accF genes genesF : List GeneRec) →
    declareSpecies T nm (fun _ => true) sp acc = .ok genes →
    declareSpecies T nm keep sp accF = .ok genesF →
    accF = acc.filter (fun g => keep g.id) → genesF = genes.filter (fun g => keep g.id)
  | [], acc, accF, genes, genesF, h, hF, ha => by
    simp only [declareSpecies, Except.ok.injEq] at h hF
    subst h hF
    exact ha
  | s :: ss, acc, accF, genes, genesF, h, hF, ha => by
    simp only [declareSpecies] at h hF
    cases hr : resolveSpecies T nm s.name with
    | error e => rw [hr] at h; simp [bind, Except.bind] at h
    | ok p =>
      rw [hr] at h hF
      simp only [bind, Except.bind] at h hF
      refine declareSpecies_keep T nm keep ss _ _ genes genesF h hF ?_
      subst ha
      simp [List.filter_append, List.filter_map, Function.comp_def, List.filter_filter]

theorem lookup_filter_key (keep : String → Bool) (id : String) (hk : keep id = true) :
    (l : List (String × Taxon)) → (l.filter (fun p => keep p.1)).lookup id = l.lookup id
  | [] => rfl
  | (k, v) :: l => by
    by_cases hik : id = k
    · subst hik
      simp [hk, List.lookup]
    · have hb : (id == k) = false := by simpa using hik
      by_cases hkk : keep k = true
      · simp [hkk, List.lookup, hb, lookup_filter_key keep id hk l]
      · simp [hkk, List.lookup, hb, lookup_filter_key keep id hk l]

theorem lookupGene_keep (T : STree) (nm : Naming) (keep : String → Bool) (genes : List GeneRec) (id : String)
    (hk : keep id = true) :
    Env.lookupGene { T := T, nm := nm, geneTx := (genes.filter fun g => keep g.id).reverse.map fun g => (g.id, g.tx) } id =
      Env.lookupGene { T := T, nm := nm, geneTx := genes.reverse.map fun g => (g.id, g.tx) } id := by
  simp only [Env.lookupGene]
  rw [← lookup_filter_key keep id hk (genes.reverse.map fun g => (g.id, g.tx))]
  congr 1
  simp [List.filter_map, List.filter_reverse, Function.comp_def]

/-! ### what the first pass puts into the gene selection -/

theorem filterTops_kept (f : Filter) (es : List Elem) (h : es.all isOgWithId = true)
    (hnd : (es.map topId).Nodup) (g0 h0 gids hids : List String)
    (heq : filterTops f es (g0, h0) = .ok (gids, hids)) :
    (∀ r ∈ g0, r ∈ gids) ∧ (∀ i ∈ hids, i ∈ h0 ∨ some i ∈ es.map topId) ∧
      (∀ e ∈ es, ∀ i, topId e = some i → i ∈ hids → i ∉ h0 → ∀ r ∈ refsOf e, r ∈ gids) := by
  induction es generalizing g0 h0 with
  | nil =>
    simp only [filterTops, Except.ok.injEq, Prod.mk.injEq] at heq
    obtain ⟨rfl, rfl⟩ := heq
    exact ⟨fun _ h => h, fun _ h => Or.inl h, fun e he => by cases he⟩
  | cons e es ih =>
    simp only [List.all_cons, Bool.and_eq_true] at h
    obtain ⟨he, hes⟩ := h
    simp only [List.map_cons, List.nodup_cons] at hnd
    obtain ⟨hni, hnd'⟩ := hnd
    match e, he, hni with
    | .og (some i) og its, _, hni =>
      rw [filterTops_cons_og] at heq
      simp only [topId_og] at hni
      by_cases hadd : (f.hogIds.contains i || (refsOfL its).any g0.contains) = true
      · rw [if_pos hadd] at heq
        obtain ⟨a, b, c⟩ := ih hes hnd' _ _ heq
        refine ⟨fun r hr => a r (List.mem_append_left _ hr), ?_, ?_⟩
        · intro i' hi'
          rcases b i' hi' with hb | hb
          · rcases List.mem_append.mp hb with hb | hb
            · exact Or.inl hb
            · simp only [List.mem_singleton] at hb
              subst hb
              exact Or.inr (by simp)
          · exact Or.inr (by simp [hb])
        · intro e' he' i' ht hi' hn0 r hr
          rcases List.mem_cons.mp he' with rfl | he2
          · rw [refsOf_og] at hr
            exact a r (List.mem_append_right _ hr)
          · refine c e' he2 i' ht hi' ?_ r hr
            intro hmem
            rcases List.mem_append.mp hmem with hm | hm
            · exact hn0 hm
            · simp only [List.mem_singleton] at hm
              subst hm
              exact hni (List.mem_map.mpr ⟨e', he2, ht⟩)
      · rw [if_neg hadd] at heq
        obtain ⟨a, b, c⟩ := ih hes hnd' _ _ heq
        refine ⟨a, ?_, ?_⟩
        · intro i' hi'
          rcases b i' hi' with hb | hb
          · exact Or.inl hb
          · exact Or.inr (by simp [hb])
        · intro e' he' i' ht hi' hn0 r hr
          rcases List.mem_cons.mp he' with rfl | he'
          · simp only [topId_og, Option.some.injEq] at ht
            subst ht
            rcases b _ hi' with hb | hb
            · exact absurd hb hn0
            · exact absurd hb hni
          · exact c e' he' i' ht hi' hn0 r hr

/-! ### the dictionary of top-level families -/

theorem foldl_dictPut_nodup {β} (key : β → Option String) : (l : List β) → (d : List (Option String × β)) →
    (d.map (·.1) ++ l.map key).Nodup →
    l.foldl (fun d n => dictPut d (key n) n) d = d ++ l.map (fun n => (key n, n))
  | [], d, _ => by simp
  | n :: l, d, h => by
    have hnot : d.any (·.1 == key n) = false := by
      rw [List.any_eq_false]
      intro x hx hxe
      have hxe' : x.1 = key n := by simpa using hxe
      rw [List.nodup_append] at h
      exact h.2.2 x.1 (List.mem_map.mpr ⟨x, hx, rfl⟩) (key n) (by simp) hxe'
    have step : dictPut d (key n) n = d ++ [(key n, n)] := by simp [dictPut, hnot]
    rw [List.foldl_cons, step]
    rw [foldl_dictPut_nodup key l (d ++ [(key n, n)]) (by simpa [List.append_assoc] using h)]
    simp

theorem hidOf_shift (k : Nat) (n : Node) : hidOf (n.shift k) = hidOf n := by
  cases n <;> rfl

theorem fi_elem_hid (env : Env) : (e : Elem) → (len : Nat) → (hb : HogBuild) → (ps : PS) →
    (hb' : HogBuild) → (ps' : PS) → elem env len e hb ps = .ok (hb', ps') →
    hb'.info.hid = hb.info.hid
  | .ref id loft, len, hb, ps, hb', ps', h => by
    simp only [elem] at h
    split at h
    · cases h
    · simp only [Except.ok.injEq, Prod.mk.injEq] at h
      obtain ⟨rfl, _⟩ := h
      rfl
  | .score id v, len, hb, ps, hb', ps', h => by
    simp only [elem, Except.ok.injEq, Prod.mk.injEq] at h
    obtain ⟨rfl, rfl⟩ := h
    rfl
  | .prop n v, len, hb, ps, hb', ps', h => by
    simp only [elem, Except.ok.injEq, Prod.mk.injEq] at h
    obtain ⟨rfl, rfl⟩ := h
    rfl
  | .pg pgid its, len, hb, ps, hb', ps', h => by
    simp only [elem, bind, Except.bind] at h
    split at h
    · cases h
    · rename_i v hv
      obtain ⟨hb1, ps2⟩ := v
      split at h
      · cases h
      · simp only [Except.ok.injEq, Prod.mk.injEq] at h
        obtain ⟨rfl, rfl⟩ := h
        exact fi_elems_hid env its len hb _ hb1 ps2 hv
  | .og hid og its, len, hb, ps, hb', ps', h => by
    simp only [elem, bind, Except.bind] at h
    split at h
    · cases h
    · split at h
      · cases h
      · simp only [Except.ok.injEq, Prod.mk.injEq] at h
        obtain ⟨rfl, rfl⟩ := h
        rfl
where
  fi_elems_hid (env : Env) : (es : List Elem) → (len : Nat) → (hb : HogBuild) → (ps : PS) →
      (hb' : HogBuild) → (ps' : PS) → elems env len es hb ps = .ok (hb', ps') →
      hb'.info.hid = hb.info.hid
    | [], len, hb, ps, hb', ps', h => by
      simp only [elems, Except.ok.injEq, Prod.mk.injEq] at h
      obtain ⟨rfl, rfl⟩ := h
      rfl
    | e :: es, len, hb, ps, hb', ps', h => by
      simp only [elems, bind, Except.bind] at h
      split at h
      · cases h
      · rename_i v hv
        obtain ⟨hb1, ps1⟩ := v
        exact (fi_elems_hid env es len hb1 ps1 hb' ps' h).trans (fi_elem_hid env e len hb ps hb1 ps1 hv)

theorem fi_closeOg_top_hid (env : Env) (hb : HogBuild) (ps : PS) (res : List Node) (ps' : PS)
    (h : closeOg env true hb ps = .ok (res, ps')) : ∃ x, res = [x] ∧ hidOf x = hb.info.hid := by
  simp only [closeOg, bind, Except.bind] at h
  split at h
  · cases h
  · split at h
    · simp at h
    · split at h
      · cases h
      · split at h
        · cases h
        · split at h
          · cases h
          · simp only [Except.ok.injEq, Prod.mk.injEq] at h
            obtain ⟨rfl, rfl⟩ := h
            exact ⟨_, rfl, rfl⟩

theorem fi_topOg_hid (env : Env) (i : String) (og : Option String) (its : List Elem) (tops : List Node) (ps : PS)
    (tops' : List Node) (ps' : PS)
    (h : topElem env none (.og (some i) og its) tops ps = .ok (tops', ps')) :
    ∃ x, tops' = tops ++ [x] ∧ hidOf x = some i := by
  rw [topElem_og_eq] at h
  simp only [Except.bind] at h
  split at h
  · cases h
  · rename_i v hv
    split at h
    · cases h
    · rename_i w hw
      simp only [Except.ok.injEq, Prod.mk.injEq] at h
      obtain ⟨rfl, rfl⟩ := h
      have i1 := fi_elem_hid.fi_elems_hid env its 1 _ _ v.1 v.2 hv
      obtain ⟨x, hx, hh⟩ := fi_closeOg_top_hid env v.1 v.2 w.1 w.2 hw
      exact ⟨x, by rw [hx], hh.trans i1⟩

theorem topElems_hids (env : Env) : (es : List Elem) → (tops0 : List Node) → (ps0 : PS) → (tops : List Node) →
    (ps : PS) → topElems env none es tops0 ps0 = .ok (tops, ps) → es.all isOgWithId = true →
    ∃ new, tops = tops0 ++ new ∧ new.map hidOf = es.map topId
  | [], tops0, ps0, tops, ps, h, _ => by
    simp only [topElems, Except.ok.injEq, Prod.mk.injEq] at h
    obtain ⟨rfl, rfl⟩ := h
    exact ⟨[], by simp, rfl⟩
  | e :: es, tops0, ps0, tops, ps, h, hog => by
    simp only [topElems, bind, Except.bind] at h
    split at h
    · cases h
    · rename_i v hv
      obtain ⟨tops1, ps1⟩ := v
      simp only [List.all_cons, Bool.and_eq_true] at hog
      obtain ⟨he, hes⟩ := hog
      match e, he, hv with
      | .og (some i) og its, _, hv =>
        obtain ⟨x, rfl, hx⟩ := fi_topOg_hid env i og its tops0 ps0 tops1 ps1 hv
        obtain ⟨new, rfl, hn⟩ := topElems_hids env es _ ps1 tops ps h hes
        exact ⟨x :: new, by simp, by simp [hn, hx]⟩

theorem isOg_of_withId (es : List Elem) (h : es.all isOgWithId = true) : es.all isOg = true := by
  rw [List.all_eq_true] at h ⊢
  intro e he
  have := h e he
  cases e with
  | og hid og its => rfl
  | _ => simp [isOgWithId] at this

/-- what a successful `buildHam` ran -/
theorem buildHam_ok (T : STree) (nm : Naming) (inp : Input) (keep : String → Bool) (flt : HogFilter) (H : Ham)
    (h : buildHam T nm inp keep flt = .ok H) :
    ∃ genes tops ps, declareSpecies T nm keep inp.species [] = .ok genes ∧
      topElems { T := T, nm := nm, geneTx := genes.reverse.map fun g => (g.id, g.tx) } flt inp.groups [] {} =
        .ok (tops, ps) ∧
      H.tops = tops.foldl (fun d n => dictPut d (hidOf n) n) [] := by
  simp only [buildHam, bind, Except.bind] at h
  cases hd : declareSpecies T nm keep inp.species [] with
  | error e => rw [hd] at h; simp at h
  | ok genes =>
    rw [hd] at h
    dsimp only at h
    split at h
    · cases h
    · rename_i v hv
      obtain ⟨tops, ps⟩ := v
      refine ⟨genes, tops, ps, rfl, hv, ?_⟩
      dsimp only at h
      split at h
      · cases h
      · cases h; rfl

theorem mem_keepFamilies {ids : List String} {es : List Elem} {e : Elem} (h : e ∈ keepFamilies ids es) :
    e ∈ es ∧ ∃ i, topId e = some i ∧ i ∈ ids := by
  simp only [keepFamilies, List.mem_filter] at h
  refine ⟨h.1, ?_⟩
  cases ht : topId e with
  | none => rw [ht] at h; simp at h
  | some i => rw [ht] at h; exact ⟨i, rfl, by simpa using h.2⟩

theorem tops_of_nodup (tops : List Node) (h : (tops.map hidOf).Nodup) :
    tops.foldl (fun d n => dictPut d (hidOf n) n) [] = tops.map (fun n => (hidOf n, n)) := by
  rw [foldl_dictPut_nodup hidOf tops [] (by simpa using h)]
  simp

/-- **C11 (identical families)**: every family of a filtered load is, up to the numbering of objects, the family
    the unfiltered load of the same file builds for the same top-level group -/
theorem C11_filtered_family_identical (T : STree) (nm : Naming) (inp : Input) (f : Filter) (H Hf : Ham)
    (hog : inp.groups.all isOgWithId = true)
    (hgenes : (inp.species.flatMap fun s => s.genes.map (·.id)).Nodup)
    (htop : (inp.groups.map topId).Nodup)
    (hfull : load T nm inp = .ok H) (hflt : loadFiltered T nm inp f = .ok Hf) :
    ∀ p ∈ Hf.tops, ∃ p' ∈ H.tops, ∃ (n : Node) (k k' : Nat),
      p.1 = p'.1 ∧ p.2 = n.shift k ∧ p'.2 = n.shift k' := by
  -- (`hgenes` is not needed: a lookup of a kept id skips exactly the dropped entries)
  have _ := hgenes
  obtain ⟨genes, tops, ps, hd, ht, hH⟩ := buildHam_ok T nm inp _ _ H hfull
  simp only [loadFiltered, bind, Except.bind] at hflt
  split at hflt
  · cases hflt
  · rename_i v hv
    obtain ⟨gids, hids⟩ := v
    simp only at hflt
    obtain ⟨genesF, topsF, psF, hdF, htF, hHf⟩ := buildHam_ok T nm inp _ _ Hf hflt
    rw [topElems_filter _ hids inp.groups hog] at htF
    have hgF : genesF = genes.filter (fun g => gids.contains g.id) :=
      declareSpecies_keep T nm gids.contains inp.species [] [] genes genesF hd hdF rfl
    subst hgF
    obtain ⟨-, -, hkept⟩ := filterTops_kept f inp.groups hog htop _ _ gids hids hv
    -- (a)+(b): the kept families read the same genes in both environments
    have hcongr := topElem_env_congr_aux.topElems_env_congr
      { T := T, nm := nm, geneTx := (genes.filter fun g => gids.contains g.id).reverse.map fun g => (g.id, g.tx) }
      { T := T, nm := nm, geneTx := genes.reverse.map fun g => (g.id, g.tx) } rfl rfl
      (keepFamilies hids inp.groups) [] {} (by
        intro id hid
        obtain ⟨e, he, hr⟩ := (mem_refsOfL id _).mp hid
        obtain ⟨he1, i, hti, hi⟩ := mem_keepFamilies he
        have hg : id ∈ gids := hkept e he1 i hti hi (by simp) id hr
        exact lookupGene_keep T nm gids.contains genes id (by simpa using hg))
    rw [hcongr] at htF
    -- the kept families
    have hogK : (keepFamilies hids inp.groups).all isOgWithId = true := by
      rw [List.all_eq_true] at hog ⊢
      intro e he
      exact hog e (mem_keepFamilies he).1
    have hndK : ((keepFamilies hids inp.groups).map topId).Nodup :=
      (List.filter_sublist.map topId).nodup htop
    -- (d) the dictionaries
    obtain ⟨new, hnew, hmap⟩ := topElems_hids _ _ _ _ _ _ ht hog
    simp only [List.nil_append] at hnew
    subst hnew
    obtain ⟨newF, hnewF, hmapF⟩ := topElems_hids _ _ _ _ _ _ htF hogK
    simp only [List.nil_append] at hnewF
    subst hnewF
    rw [tops_of_nodup _ (by rw [hmap]; exact htop)] at hH
    rw [tops_of_nodup _ (by rw [hmapF]; exact hndK)] at hHf
    intro p hp
    rw [hHf] at hp
    obtain ⟨n, hn, rfl⟩ := List.mem_map.mp hp
    obtain ⟨i, hi, rfl⟩ := List.getElem_of_mem hn
    have hlenF : topsF.length = (keepFamilies hids inp.groups).length := by
      have := congrArg List.length hmapF
      simpa using this
    have hi' : i < (keepFamilies hids inp.groups).length := by omega
    have hmem : (keepFamilies hids inp.groups)[i] ∈ inp.groups :=
      (mem_keepFamilies (List.getElem_mem hi')).1
    obtain ⟨j, hj, hje⟩ := List.getElem_of_mem hmem
    -- (c)
    obtain ⟨n0, k, k', h1, h2, e1, e2⟩ := C11_family_identical _ _ _ _ _ _ _
      (isOg_of_withId _ hogK) (isOg_of_withId _ hog) htF ht i j hi' hj hje.symm
    refine ⟨(hidOf tops[j], tops[j]), ?_, n0, k, k', ?_, e1, e2⟩
    · rw [hH]
      exact List.mem_map.mpr ⟨tops[j], List.getElem_mem h2, rfl⟩
    · show hidOf topsF[i] = hidOf tops[j]
      rw [e1, e2, hidOf_shift, hidOf_shift]

end Pyham
