/-
  The image analyses of `C14_isomorphic_analyses` are well formed when the original is: re-ordering the children of every
  HOG, or the families, keeps levels, paralog discipline and distinctness of identities.  With this the isomorphism
  theorems apply to them without a separate hypothesis.
-/
import PyhamModel.Lemmas.Iso
namespace Pyham

/-! ### order-insensitivity of the list predicates -/

theorem alignedL_perm (t : Taxon) {l1 l2 : List Node} (h : l1.Perm l2) : alignedL t l1 = alignedL t l2 := by
  induction h with
  | nil => rfl
  | cons x _ ih => simp only [alignedL, ih]
  | swap x y l =>
    simp only [alignedL]
    cases oneBelow t x <;> cases oneBelow t y <;> cases x.aligned <;> cases y.aligned <;> simp
  | trans _ _ ih1 ih2 => exact ih1.trans ih2

theorem disciplinedL_perm {l1 l2 : List Node} (h : l1.Perm l2) : disciplinedL l1 = disciplinedL l2 := by
  induction h with
  | nil => rfl
  | cons x _ ih => simp only [disciplinedL, ih]
  | swap x y l =>
    simp only [disciplinedL]
    cases x.disciplined <;> cases y.disciplined <;> simp
  | trans _ _ ih1 ih2 => exact ih1.trans ih2

theorem alone_perm {l1 l2 : List Node} (h : l1.Perm l2) (k : Node) : aloneIfUnflagged l1 k = aloneIfUnflagged l2 k := by
  unfold aloneIfUnflagged
  rw [(h.filter _).length_eq]

theorem all_alone_perm {l1 l2 : List Node} (h : l1.Perm l2) :
    l1.all (aloneIfUnflagged l1) = l2.all (aloneIfUnflagged l2) := by
  rw [Bool.eq_iff_iff]
  simp only [List.all_eq_true]
  constructor
  · intro h1 k hk; rw [← alone_perm h k]; exact h1 k (h.mem_iff.2 hk)
  · intro h2 k hk; rw [alone_perm h k]; exact h2 k (h.mem_iff.1 hk)

theorem locsL_perm (A : List Node) {l1 l2 : List Node} (h : l1.Perm l2) : (locsL A l1).Perm (locsL A l2) := by
  induction h with
  | nil => exact List.Perm.refl _
  | cons x _ ih => simp only [locsL]; exact ih.append_left _
  | swap x y l => simp only [locsL, ← List.append_assoc]; exact List.perm_append_comm.append_right _
  | trans _ _ ih1 ih2 => exact ih1.trans ih2

/-! ### re-ordering the children of every HOG -/

theorem alone_reorder (f : List Node → List Node) (ks : List Node) (k : Node) :
    aloneIfUnflagged (Node.reorderL f ks) (k.reorder f) = aloneIfUnflagged ks k := by
  unfold aloneIfUnflagged
  rw [reorder_dup, reorderL_eq_map, List.filter_map, List.length_map]
  have : ks.filter ((fun k' => k'.tx == (k.reorder f).tx) ∘ Node.reorder f) = ks.filter (fun k' => k'.tx == k.tx) := by
    apply List.filter_congr
    intro k' _
    simp [Function.comp, reorder_tx]
  rw [this]

mutual
theorem reorder_aligned (f : List Node → List Node) (hf : ∀ l, (f l).Perm l) : (n : Node) → (n.reorder f).aligned = n.aligned
  | .gene .. => rfl
  | .hog info t d ks ds => by
    simp only [Node.reorder, Node.aligned]
    rw [alignedL_perm t (hf _)]
    exact reorderL_aligned f hf t ks
theorem reorderL_aligned (f : List Node → List Node) (hf : ∀ l, (f l).Perm l) (t : Taxon) :
    (l : List Node) → alignedL t (Node.reorderL f l) = alignedL t l
  | [] => rfl
  | k :: ks => by
    simp only [Node.reorderL, alignedL]
    rw [reorder_aligned f hf k, reorderL_aligned f hf t ks]
    congr 2
    unfold oneBelow
    rw [reorder_tx]
end

mutual
theorem reorder_disciplined (f : List Node → List Node) (hf : ∀ l, (f l).Perm l) :
    (n : Node) → (n.reorder f).disciplined = n.disciplined
  | .gene .. => rfl
  | .hog info t d ks ds => by
    simp only [Node.reorder, Node.disciplined]
    rw [all_alone_perm (hf _), disciplinedL_perm (hf _), reorderL_disciplined f hf ks]
    congr 1
    rw [reorderL_eq_map, List.all_map]
    apply List.all_congr rfl
    intro k
    simp only [Function.comp]
    rw [← reorderL_eq_map]
    exact alone_reorder f ks k
theorem reorderL_disciplined (f : List Node → List Node) (hf : ∀ l, (f l).Perm l) :
    (l : List Node) → disciplinedL (Node.reorderL f l) = disciplinedL l
  | [] => rfl
  | k :: ks => by
    simp only [Node.reorderL, disciplinedL]
    rw [reorder_disciplined f hf k, reorderL_disciplined f hf ks]
end

mutual
theorem locs_reorder_perm (f : List Node → List Node) (hf : ∀ l, (f l).Perm l) : (n : Node) → (anc : List Node) →
    (locs (anc.map (Node.reorder f)) (n.reorder f)).Perm ((locs anc n).map (Loc.map (Node.reorder f)))
  | .gene i t d lf, anc => by simp [Node.reorder, locs, Loc.map]
  | .hog info t d ks ds, anc => by
    simp only [Node.reorder, locs, List.map_cons, Loc.map]
    apply List.Perm.cons
    refine (locsL_perm _ (hf _)).trans ?_
    have := locsL_reorder_perm f hf ks (.hog info t d ks ds :: anc)
    simpa [Node.reorder] using this
theorem locsL_reorder_perm (f : List Node → List Node) (hf : ∀ l, (f l).Perm l) : (ns : List Node) → (anc : List Node) →
    (locsL (anc.map (Node.reorder f)) (Node.reorderL f ns)).Perm ((locsL anc ns).map (Loc.map (Node.reorder f)))
  | [], anc => by simp [Node.reorderL, locsL]
  | n :: ns, anc => by
    simp only [Node.reorderL, locsL, List.map_append]
    exact (locs_reorder_perm f hf n anc).append (locsL_reorder_perm f hf ns anc)
end

/-- **the re-ordered analysis is well formed** -/
theorem WFc_reorder (H : Ham) (hw : H.WFc) (f : List Node → List Node) (hf : ∀ l, (f l).Perm l) : (H.reorder f).WFc where
  aligned := by
    intro p hp
    obtain ⟨p0, hp0, rfl⟩ := List.mem_map.1 hp
    simp only [reorder_aligned f hf]
    exact hw.aligned p0 hp0
  disciplined := by
    intro p hp
    obtain ⟨p0, hp0, rfl⟩ := List.mem_map.1 hp
    simp only [reorder_disciplined f hf]
    exact hw.disciplined p0 hp0
  keys := by
    have hs : (H.reorder f).singletons = H.singletons := by
      unfold Ham.singletons Ham.reorder
      simp only [List.flatMap_map]
      congr 1
      apply List.filter_congr
      intro g _
      congr 1
      rw [Bool.eq_iff_iff]
      simp only [List.contains_iff_mem, List.mem_flatMap]
      constructor
      · rintro ⟨p, hp, hm⟩; exact ⟨p, hp, (reorder_leaves f hf p.2).mem_iff.1 hm⟩
      · rintro ⟨p, hp, hm⟩; exact ⟨p, hp, (reorder_leaves f hf p.2).mem_iff.2 hm⟩
    have hperm : ((H.reorder f).allLocs.map fun l => l.node.key).Perm (H.allLocs.map fun l => l.node.key) := by
      unfold Ham.allLocs
      rw [hs, List.map_append, List.map_append]
      apply List.Perm.append_right
      unfold Ham.reorder
      simp only [List.flatMap_map]
      have : ∀ (tops : List (Option String × Node)),
          ((tops.flatMap fun p => locs [] (p.2.reorder f)).map fun l => l.node.key).Perm
            ((tops.flatMap fun p => locs [] p.2).map fun l => l.node.key) := by
        intro tops
        induction tops with
        | nil => exact List.Perm.refl _
        | cons p tops ih =>
          simp only [List.flatMap_cons, List.map_append]
          refine List.Perm.append ?_ ih
          have := (locs_reorder_perm f hf p.2 []).map (fun l => l.node.key)
          simp only [List.map_nil, List.map_map] at this
          refine this.trans (List.Perm.of_eq ?_)
          apply List.map_congr_left
          intro l _
          simp [Function.comp, Loc.map, reorder_key]
      exact this H.tops
    have := hw.keys
    unfold Ham.keys at this ⊢
    exact hperm.nodup_iff.2 this

/-- **families stored in another order: still well formed** -/
theorem WFc_of_tops_perm (H H' : Ham) (hw : H.WFc) (hp : H'.tops.Perm H.tops) (hg : H'.genes = H.genes) : H'.WFc where
  aligned := fun p hp' => hw.aligned p (hp.mem_iff.1 hp')
  disciplined := fun p hp' => hw.disciplined p (hp.mem_iff.1 hp')
  keys := by
    have hs : H'.singletons = H.singletons := by
      unfold Ham.singletons
      rw [hg]
      simp only []
      congr 1
      apply List.filter_congr
      intro g _
      congr 1
      rw [Bool.eq_iff_iff]
      simp only [List.contains_iff_mem, List.mem_flatMap]
      constructor
      · rintro ⟨p, hp', hm⟩; exact ⟨p, hp.mem_iff.1 hp', hm⟩
      · rintro ⟨p, hp', hm⟩; exact ⟨p, hp.mem_iff.2 hp', hm⟩
    have := hw.keys
    unfold Ham.keys Ham.allLocs at this ⊢
    rw [hs]
    refine (List.Perm.nodup_iff ?_).2 this
    exact ((hp.flatMap_right _).append_right _).map _

end Pyham
