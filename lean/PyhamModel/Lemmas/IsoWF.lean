/-
  The image analyses of `C14_isomorphic_analyses` are well formed when the original is: re-ordering the children of every
  HOG, or the families, keeps levels, paralog discipline and distinctness of identities.  With this the isomorphism
  theorems apply to them without a separate hypothesis.
-/
import PyhamModel.Lemmas.Iso
namespace Pyham

/-! ### order-insensitivity of the list predicates -/

theorem alignedL_perm (t : Taxon) {l1 l2 : List Node} (h : l1.Perm l2) : alignedL t l1 = alignedL t l2 := by
  induction h with
  | nil => rfl
  | cons x _ ih => simp only [alignedL, ih]
  | swap x y l =>
    simp only [alignedL]
    cases oneBelow t x <;> cases oneBelow t y <;> cases x.aligned <;> cases y.aligned <;> simp
  | trans _ _ ih1 ih2 => exact ih1.trans ih2

theorem disciplinedL_perm {l1 l2 : List Node} (h : l1.Perm l2) : disciplinedL l1 = disciplinedL l2 := by
  induction h with
  | nil => rfl
  | cons x _ ih => simp only [disciplinedL, ih]
  | swap x y l =>
    simp only [disciplinedL]
    cases x.disciplined <;> cases y.disciplined <;> simp
  | trans _ _ ih1 ih2 => exact ih1.trans ih2

theorem alone_perm {l1 l2 : List Node} (h : l1.Perm l2) (k : Node) : aloneIfUnflagged l1 k = aloneIfUnflagged l2 k := by
  unfold aloneIfUnflagged
  rw [(h.filter _).length_eq]

theorem all_alone_perm {l1 l2 : List Node} (h : l1.Perm l2) :
    l1.all (aloneIfUnflagged l1) = l2.all (aloneIfUnflagged l2) := by
  rw [Bool.eq_iff_iff]
  simp only [List.all_eq_true]
  constructor
  · intro h1 k hk; rw [← alone_perm h k]; exact h1 k (h.mem_iff.2 hk)
  · intro h2 k hk; rw [alone_perm h k]; exact h2 k (h.mem_iff.1 hk)

theorem locsL_perm (A : List Node) {l1 l2 : List Node} (h : l1.Perm l2) : (locsL A l1).Perm (locsL A l2) := by
  induction h with
  | nil => exact List.Perm.refl _
  | cons x _ ih => simp only [locsL]; exact ih.append_left _
  | swap x y l => simp only [locsL, ← List.append_assoc]; exact List.perm_append_comm.append_right _
  | trans _ _ ih1 ih2 => exact ih1.trans ih2

/-! ### re-ordering the children of every HOG -/

theorem alone_reorder (f : List Node → List Node) (ks : List Node) (k : Node) :
    aloneIfUnflagged (Node.reorderL f ks) (k.reorder f) = aloneIfUnflagged ks k := by
  unfold aloneIfUnflagged
  rw [reorder_dup, reorderL_eq_map, List.filter_map, List.length_map]
  have : ks.filter ((fun k' => k'.tx == (k.reorder f).tx) ∘ Node.reorder f) = ks.filter (fun k' => k'.tx == k.tx) := by
    apply List.filter_congr
    intro k' _
    simp [Function.comp, reorder_tx]
  rw [this]

mutual
theorem reorder_aligned (f : List Node → List Node) (hf : ∀ l, (f l).Perm l) : (n : Node) → (n.reorder f).aligned = n.aligned
  | .gene .. => rfl
  | .hog info t d ks ds => by
    simp only [Node.reorder, Node.aligned]
    rw [alignedL_perm t (hf _)]
    exact reorderL_aligned f hf t ks
theorem reorderL_aligned (f : List Node → List Node) (hf : ∀ l, (f l).Perm l) (t : Taxon) :
    (l : List Node) → alignedL t (Node.reorderL f l) = alignedL t l
  | [] => rfl
  | k :: ks => by
    simp only [Node.reorderL, alignedL]
    rw [reorder_aligned f hf k, reorderL_aligned f hf t ks]
    congr 2
    unfold oneBelow
    rw [reorder_tx]
end

mutual
theorem reorder_disciplined (f : List Node → List Node) (hf : ∀ l, (f l).Perm l) :
    (n : Node) → (n.reorder f).disciplined = n.disciplined
  | .gene .. => rfl
  | .hog info t d ks ds => by
    simp only [Node.reorder, Node.disciplined]
    rw [all_alone_perm (hf _), disciplinedL_perm (hf _), reorderL_disciplined f hf ks]
    congr 1
    rw [reorderL_eq_map, List.all_map]
    apply List.all_congr rfl
    intro k
    simp only [Function.comp]
    rw [← reorderL_eq_map]
    exact alone_reorder f ks k
theorem reorderL_disciplined (f : List Node → List Node) (hf : ∀ l, (f l).Perm l) :
    (l : List Node) → disciplinedL (Node.reorderL f l) = disciplinedL l
  | [] => rfl
  | k :: ks => by
    simp only [Node.reorderL, disciplinedL]
    rw [reorder_disciplined f hf k, reorderL_disciplined f hf ks]
end

mutual
theorem locs_reorder_perm (f : List Node → List Node) (hf : ∀ l, (f l).Perm l) : (n : Node) → (anc : List Node) →
    (locs (anc.map (Node.reorder f)) (n.reorder f)).Perm ((locs anc n).map (Loc.map (Node.reorder f)))
  | .gene i t d lf, anc => by simp [Node.reorder, locs, Loc.map]
  | .hog info t d ks ds, anc => by
    simp only [Node.reorder, locs, List.map_cons, Loc.map]
    apply List.Perm.cons
    refine (locsL_perm _ (hf _)).trans ?_
    have := locsL_reorder_perm f hf ks (.hog info t d ks ds :: anc)
    simpa [Node.reorder] using this
theorem locsL_reorder_perm (f : List Node → List Node) (hf : ∀ l, (f l).Perm l) : (ns : List Node) → (anc : List Node) →
    (locsL (anc.map (Node.reorder f)) (Node.reorderL f ns)).Perm ((locsL anc ns).map (Loc.map (Node.reorder f)))
  | [], anc => by simp [Node.reorderL, locsL]
  | n :: ns, anc => by
    simp only [Node.reorderL, locsL, List.map_append]
    exact (locs_reorder_perm f hf n anc).append (locsL_reorder_perm f hf ns anc)
end

/-- **the re-ordered analysis is well formed** -/
theorem WFc_reorder (H : Ham) (hw : H.WFc) (f : List Node → List Node) (hf : ∀ l, (f l).Perm l) : (H.reorder f).WFc where
  aligned := by
    intro p hp
    obtain ⟨p0, hp0, rfl⟩ := List.mem_map.1 hp
    simp only [reorder_aligned f hf]
    exact hw.aligned p0 hp0
  disciplined := by
    intro p hp
    obtain ⟨p0, hp0, rfl⟩ := List.mem_map.1 hp
    simp only [reorder_disciplined f hf]
    exact hw.disciplined p0 hp0
  keys := by
    have hs : (H.reorder f).singletons = H.singletons := by
      unfold Ham.singletons Ham.reorder
      simp only [List.flatMap_map]
      congr 1
      apply List.filter_congr
      intro g _
      congr 1
      rw [Bool.eq_iff_iff]
      simp only [List.contains_iff_mem, List.mem_flatMap]
      constructor
      · rintro ⟨p, hp, hm⟩; exact ⟨p, hp, (reorder_leaves f hf p.2).mem_iff.1 hm⟩
      · rintro ⟨p, hp, hm⟩; exact ⟨p, hp, (reorder_leaves f hf p.2).mem_iff.2 hm⟩
    have hperm : ((H.reorder f).allLocs.map fun l => l.node.key).Perm (H.allLocs.map fun l => l.node.key) := by
      unfold Ham.allLocs
      rw [hs, List.map_append, List.map_append]
      apply List.Perm.append_right
      unfold Ham.reorder
      simp only [List.flatMap_map]
      have : ∀ (tops : List (Option String × Node)),
          ((tops.flatMap fun p => locs [] (p.2.reorder f)).map fun l => l.node.key).Perm
            ((tops.flatMap fun p => locs [] p.2).map fun l => l.node.key) := by
        intro tops
        induction tops with
        | nil => exact List.Perm.refl _
        | cons p tops ih =>
          simp only [List.flatMap_cons, List.map_append]
          refine List.Perm.append ?_ ih
          have := (locs_reorder_perm f hf p.2 []).map (fun l => l.node.key)
          simp only [List.map_nil, List.map_map] at this
          refine this.trans (List.Perm.of_eq ?_)
          apply List.map_congr_left
          intro l _
          simp [Function.comp, Loc.map, reorder_key]
      exact this H.tops
    have := hw.keys
    unfold Ham.keys at this ⊢
    exact hperm.nodup_iff.2 this

/-- **families stored in another order: still well formed** -/
theorem WFc_of_tops_perm (H H' : Ham) (hw : H.WFc) (hp : H'.tops.Perm H.tops) (hg : H'.genes = H.genes) : H'.WFc where
  aligned := fun p hp' => hw.aligned p (hp.mem_iff.1 hp')
  disciplined := fun p hp' => hw.disciplined p (hp.mem_iff.1 hp')
  keys := by
    have hs : H'.singletons = H.singletons := by
      unfold Ham.singletons
      rw [hg]
      simp only []
      congr 1
      apply List.filter_congr
      intro g _
      congr 1
      rw [Bool.eq_iff_iff]
      simp only [List.contains_iff_mem, List.mem_flatMap]
      constructor
      · rintro ⟨p, hp', hm⟩; exact ⟨p, hp.mem_iff.1 hp', hm⟩
      · rintro ⟨p, hp', hm⟩; exact ⟨p, hp.mem_iff.2 hp', hm⟩
    have := hw.keys
    unfold Ham.keys Ham.allLocs at this ⊢
    rw [hs]
    refine (List.Perm.nodup_iff ?_).2 this
    exact ((hp.flatMap_right _).append_right _).map _

theorem nodup_map_of_inj_on' {α β} (f : α → β) : (l : List α) → l.Nodup → (∀ a ∈ l, ∀ b ∈ l, f a = f b → a = b) →
    (l.map f).Nodup
  | [], _, _ => List.nodup_nil
  | x :: xs, hn, hi => by
    rw [List.nodup_cons] at hn
    rw [List.map_cons, List.nodup_cons]
    refine ⟨?_, nodup_map_of_inj_on' f xs hn.2 (fun a ha b hb => hi a (List.mem_cons_of_mem _ ha) b (List.mem_cons_of_mem _ hb))⟩
    intro hm
    obtain ⟨y, hy, hfy⟩ := List.mem_map.1 hm
    have := hi y (List.mem_cons_of_mem _ hy) x (List.mem_cons_self) hfy
    rw [this] at hy
    exact hn.1 hy

/-! ### renumbering -/

theorem alone_shift (k : Nat) (ks : List Node) (n : Node) :
    aloneIfUnflagged (Node.shiftL k ks) (n.shift k) = aloneIfUnflagged ks n := by
  unfold aloneIfUnflagged
  rw [sh_dup, shiftL_eq_map, List.filter_map, List.length_map]
  have : ks.filter ((fun k' => k'.tx == (n.shift k).tx) ∘ Node.shift k) = ks.filter (fun k' => k'.tx == n.tx) := by
    apply List.filter_congr
    intro k' _
    simp [Function.comp]
  rw [this]
  cases n.dup <;> rfl

mutual
theorem shift_aligned (k : Nat) : (n : Node) → (n.shift k).aligned = n.aligned
  | .gene .. => rfl
  | .hog info t d ks ds => by
    simp only [Node.shift, Node.aligned]
    exact shiftL_aligned k t ks
theorem shiftL_aligned (k : Nat) (t : Taxon) : (l : List Node) → alignedL t (Node.shiftL k l) = alignedL t l
  | [] => rfl
  | n :: ns => by
    simp only [Node.shiftL, alignedL]
    rw [shift_aligned k n, shiftL_aligned k t ns]
    congr 2
    unfold oneBelow
    rw [sh_tx]
end

mutual
theorem shift_disciplined (k : Nat) : (n : Node) → (n.shift k).disciplined = n.disciplined
  | .gene .. => rfl
  | .hog info t d ks ds => by
    simp only [Node.shift, Node.disciplined]
    rw [shiftL_disciplined k ks]
    congr 1
    rw [shiftL_eq_map, List.all_map]
    apply List.all_congr rfl
    intro n
    simp only [Function.comp]
    rw [← shiftL_eq_map]
    exact alone_shift k ks n
theorem shiftL_disciplined (k : Nat) : (l : List Node) → disciplinedL (Node.shiftL k l) = disciplinedL l
  | [] => rfl
  | n :: ns => by
    simp only [Node.shiftL, disciplinedL]
    rw [shift_disciplined k n, shiftL_disciplined k ns]
end

/-- **the renumbered analysis is well formed** -/
theorem WFc_renumber (H : Ham) (hw : H.WFc) (k : Nat) : (H.renumber k).WFc where
  aligned := by
    intro p hp
    obtain ⟨p0, hp0, rfl⟩ := List.mem_map.1 hp
    simp only [shift_aligned]
    exact hw.aligned p0 hp0
  disciplined := by
    intro p hp
    obtain ⟨p0, hp0, rfl⟩ := List.mem_map.1 hp
    simp only [shift_disciplined]
    exact hw.disciplined p0 hp0
  keys := by
    have hs : (H.renumber k).singletons = H.singletons := by
      unfold Ham.singletons Ham.renumber
      simp only [List.flatMap_map, shift_leaves]
    have heq : (H.renumber k).allLocs.map (fun l => l.node.key) = (H.allLocs.map fun l => l.node.key).map (Key.shift k) := by
      unfold Ham.allLocs
      rw [hs]
      simp only [List.map_append, List.map_map]
      congr 1
      · unfold Ham.renumber
        simp only [List.flatMap_map]
        have : ∀ (tops : List (Option String × Node)),
            (tops.flatMap fun p => locs [] (p.2.shift k)).map (fun l => l.node.key) =
              (tops.flatMap fun p => locs [] p.2).map ((Key.shift k) ∘ fun l => l.node.key) := by
          intro tops
          induction tops with
          | nil => rfl
          | cons p tops ih =>
            simp only [List.flatMap_cons, List.map_append, ih]
            congr 1
            have := locs_shift k p.2 []
            simp only [List.map_nil] at this
            rw [this, List.map_map]
            apply List.map_congr_left
            intro l _
            simp [Function.comp, Loc.map]
        exact this H.tops
      · apply List.map_congr_left
        intro g hg
        unfold Ham.singletons at hg
        obtain ⟨r, _, rfl⟩ := List.mem_map.1 hg
        simp [Function.comp, Node.key, Key.shift]
    have := hw.keys
    unfold Ham.keys at this ⊢
    rw [heq]
    exact nodup_map_of_inj_on' _ _ this (fun a _ b _ e => (Key.shift_inj k a b).1 e)

end Pyham
