/-
  The event clusters of `HOGsMap._build_event_clusters` as a fold over the upMap:
  what ends up in GAIN / RETAINED / DUPLICATE, for an arbitrary upMap, and that nothing is lost by
  the overwrite semantics of RETAINED when the upMap has no clash.
-/
import PyhamModel.Model.Mapper
namespace Pyham

abbrev UpEntry := Node × Option Node × Bool

def clustersOf (up : List UpEntry) : Clusters := up.foldl clusterStep {}

/-- no clash: two different entries reported under the same ancestor are both flagged duplicated -/
def NoClash (up : List UpEntry) : Prop :=
  up.Pairwise fun e1 e2 => ∀ x1 x2, e1.2.1 = some x1 → e2.2.1 = some x2 → x1.key = x2.key →
    e1.2.2 = true ∧ e2.2.2 = true

/-! ### one-step facts about the dictionary updates -/

theorem any_key_iff {β : Type} (d : List (Node × β)) (k : Key) :
    d.any (·.1.key == k) = true ↔ k ∈ d.map (·.1.key) := by
  simp only [List.any_eq_true, List.mem_map, beq_iff_eq]

theorem retPut_keys (d : List (Node × Node)) (ho hy : Node) :
    (retPut d ho hy).map (·.1.key) =
      if ho.key ∈ d.map (·.1.key) then d.map (·.1.key) else d.map (·.1.key) ++ [ho.key] := by
  unfold retPut
  by_cases h : ho.key ∈ d.map (·.1.key)
  · rw [if_pos ((any_key_iff d ho.key).2 h), if_pos h, List.map_map]
    apply List.map_congr_left
    intro e _
    simp only [Function.comp]
    split <;> rfl
  · rw [if_neg (fun h' => h ((any_key_iff d ho.key).1 h')), if_neg h]
    simp

theorem dupPut_keys (d : List (Node × List Node)) (ho hy : Node) :
    (dupPut d ho hy).map (·.1.key) =
      if ho.key ∈ d.map (·.1.key) then d.map (·.1.key) else d.map (·.1.key) ++ [ho.key] := by
  unfold dupPut
  by_cases h : ho.key ∈ d.map (·.1.key)
  · rw [if_pos ((any_key_iff d ho.key).2 h), if_pos h, List.map_map]
    apply List.map_congr_left
    intro e _
    simp only [Function.comp]
    split <;> rfl
  · rw [if_neg (fun h' => h ((any_key_iff d ho.key).1 h')), if_neg h]
    simp

theorem put_keys_nodup (ks : List Key) (k : Key) (h : ks.Nodup) :
    (if k ∈ ks then ks else ks ++ [k]).Nodup := by
  split
  · exact h
  · rename_i hk
    rw [List.nodup_append]
    refine ⟨h, by simp, ?_⟩
    intro a ha b hb
    simp at hb
    subst hb
    intro hab
    subst hab
    exact hk ha

theorem put_keys_mem (ks : List Key) (k k' : Key) :
    k' ∈ (if k ∈ ks then ks else ks ++ [k]) ↔ k' ∈ ks ∨ k' = k := by
  split
  · rename_i hk
    constructor
    · exact Or.inl
    · rintro (h | h)
      · exact h
      · subst h; exact hk
  · simp

theorem dupMap_absent (d : List (Node × List Node)) (k : Key) (hy : Node)
    (h : k ∉ d.map (·.1.key)) :
    (d.map fun e => if e.1.key == k then (e.1, e.2 ++ [hy]) else e) = d := by
  induction d with
  | nil => rfl
  | cons a d ih =>
    simp only [List.map_cons, List.mem_cons, not_or] at h
    simp only [List.map_cons]
    rw [ih h.2]
    have : (a.1.key == k) = false := by
      simp only [beq_eq_false_iff_ne, ne_eq]
      exact fun h' => h.1 h'.symm
    rw [this]
    rfl

theorem dupMap_present (d : List (Node × List Node)) (k : Key) (hy : Node)
    (h : k ∈ d.map (·.1.key)) (hn : (d.map (·.1.key)).Nodup) :
    ((d.map fun e => if e.1.key == k then (e.1, e.2 ++ [hy]) else e).flatMap (·.2)).Perm
      (d.flatMap (·.2) ++ [hy]) := by
  induction d with
  | nil => simp at h
  | cons a d ih =>
    simp only [List.map_cons, List.nodup_cons] at hn
    simp only [List.map_cons, List.flatMap_cons]
    by_cases hk : a.1.key = k
    · have hk' : (a.1.key == k) = true := by simp [hk]
      rw [hk', dupMap_absent d k hy (hk ▸ hn.1)]
      simp only [if_true]
      rw [List.append_assoc, List.append_assoc]
      apply List.Perm.append_left
      exact List.perm_append_comm
    · have hk' : (a.1.key == k) = false := by simp [hk]
      rw [hk']
      simp only [Bool.false_eq_true, if_false]
      rw [List.append_assoc]
      apply List.Perm.append_left
      apply ih _ hn.2
      simp only [List.map_cons, List.mem_cons] at h
      rcases h with h | h
      · exact absurd h.symm hk
      · exact h

theorem dupPut_flat (d : List (Node × List Node)) (ho hy : Node) (hn : (d.map (·.1.key)).Nodup) :
    ((dupPut d ho hy).flatMap (·.2)).Perm (d.flatMap (·.2) ++ [hy]) := by
  unfold dupPut
  by_cases h : ho.key ∈ d.map (·.1.key)
  · rw [if_pos ((any_key_iff d ho.key).2 h)]
    exact dupMap_present d ho.key hy h hn
  · rw [if_neg (fun h' => h ((any_key_iff d ho.key).1 h'))]
    simp

theorem retPut_values_absent (d : List (Node × Node)) (ho hy : Node)
    (h : ho.key ∉ d.map (·.1.key)) :
    (retPut d ho hy).map (·.2) = d.map (·.2) ++ [hy] := by
  unfold retPut
  rw [if_neg (fun h' => h ((any_key_iff d ho.key).1 h'))]
  simp

/-! ### the fold -/

theorem snoc_induction {α : Type} {P : List α → Prop} (nil : P [])
    (snoc : ∀ l a, P l → P (l ++ [a])) (l : List α) : P l := by
  have : ∀ l : List α, P l.reverse := by
    intro l
    induction l with
    | nil => exact nil
    | cons a l ih => rw [List.reverse_cons]; exact snoc _ a ih
  simpa using this l.reverse

theorem clustersOf_snoc (up : List UpEntry) (e : UpEntry) :
    clustersOf (up ++ [e]) = clusterStep (clustersOf up) e := by
  simp [clustersOf, List.foldl_append]

/-- GAIN: exactly the entries without ancestor, in order -/
theorem clusters_gain (up : List UpEntry) :
    (clustersOf up).gain = up.filterMap (fun e => if e.2.1.isNone then some e.1 else none) := by
  induction up using snoc_induction with
  | nil => rfl
  | snoc up e ih =>
    rw [clustersOf_snoc, List.filterMap_append, ← ih]
    rcases e with ⟨hy, _ | ho, _ | _⟩ <;> simp [clusterStep]

/-- the ancestors that were found, in order (with repetitions) -/
theorem clusters_seen (up : List UpEntry) :
    (clustersOf up).seen = up.filterMap (fun e => e.2.1.map Node.key) := by
  induction up using snoc_induction with
  | nil => rfl
  | snoc up e ih =>
    rw [clustersOf_snoc, List.filterMap_append, ← ih]
    rcases e with ⟨hy, _ | ho, _ | _⟩ <;> simp [clusterStep]

/-- keys of the two dictionaries are repetition-free -/
theorem clusters_keys_nodup (up : List UpEntry) :
    ((clustersOf up).retained.map (·.1.key)).Nodup ∧ ((clustersOf up).dupl.map (·.1.key)).Nodup := by
  induction up using snoc_induction with
  | nil => simp [clustersOf]
  | snoc up e ih =>
    rw [clustersOf_snoc]
    rcases e with ⟨hy, _ | ho, _ | _⟩ <;> simp only [clusterStep]
    · exact ih
    · exact ih
    · rw [retPut_keys]
      exact ⟨put_keys_nodup _ _ ih.1, ih.2⟩
    · rw [dupPut_keys]
      exact ⟨ih.1, put_keys_nodup _ _ ih.2⟩

/-- RETAINED keys: the ancestors under which an unflagged entry was reported -/
theorem clusters_retained_keys (up : List UpEntry) (k : Key) :
    k ∈ (clustersOf up).retained.map (·.1.key) ↔
      ∃ e ∈ up, ∃ x, e.2.1 = some x ∧ x.key = k ∧ e.2.2 = false := by
  induction up using snoc_induction with
  | nil => simp [clustersOf]
  | snoc up e ih =>
    rw [clustersOf_snoc]
    rcases e with ⟨hy, _ | ho, _ | _⟩ <;> simp only [clusterStep]
    · rw [ih]; simp
    · rw [ih]; simp
    · rw [retPut_keys, put_keys_mem, ih]
      constructor
      · rintro (⟨e, he, x, hx⟩ | rfl)
        · exact ⟨e, List.mem_append_left _ he, x, hx⟩
        · exact ⟨_, List.mem_append_right _ (List.mem_singleton.2 rfl), ho, rfl, rfl, rfl⟩
      · rintro ⟨e, he, x, hx, hxk, hf⟩
        rcases List.mem_append.1 he with he | he
        · exact Or.inl ⟨e, he, x, hx, hxk, hf⟩
        · rw [List.mem_singleton.1 he] at hx
          cases hx
          exact Or.inr hxk.symm
    · rw [ih]; simp

/-- DUPLICATE keys: the ancestors under which a flagged entry was reported -/
theorem clusters_dupl_keys (up : List UpEntry) (k : Key) :
    k ∈ (clustersOf up).dupl.map (·.1.key) ↔
      ∃ e ∈ up, ∃ x, e.2.1 = some x ∧ x.key = k ∧ e.2.2 = true := by
  induction up using snoc_induction with
  | nil => simp [clustersOf]
  | snoc up e ih =>
    rw [clustersOf_snoc]
    rcases e with ⟨hy, _ | ho, _ | _⟩ <;> simp only [clusterStep]
    · rw [ih]; simp
    · rw [ih]; simp
    · rw [ih]; simp
    · rw [dupPut_keys, put_keys_mem, ih]
      constructor
      · rintro (⟨e, he, x, hx⟩ | rfl)
        · exact ⟨e, List.mem_append_left _ he, x, hx⟩
        · exact ⟨_, List.mem_append_right _ (List.mem_singleton.2 rfl), ho, rfl, rfl, rfl⟩
      · rintro ⟨e, he, x, hx, hxk, hf⟩
        rcases List.mem_append.1 he with he | he
        · exact Or.inl ⟨e, he, x, hx, hxk, hf⟩
        · rw [List.mem_singleton.1 he] at hx
          cases hx
          exact Or.inr hxk.symm

/-- every list in DUPLICATE is non-empty and the flagged entries are exactly its members -/
theorem clusters_dupl_values (up : List UpEntry) :
    ((clustersOf up).dupl.flatMap (·.2)).Perm
      (up.filterMap (fun e => if e.2.1.isSome && e.2.2 then some e.1 else none)) := by
  induction up using snoc_induction with
  | nil => simp [clustersOf]
  | snoc up e ih =>
    rw [clustersOf_snoc, List.filterMap_append]
    rcases e with ⟨hy, _ | ho, _ | _⟩ <;> simp only [clusterStep]
    · simpa using ih
    · simpa using ih
    · simpa using ih
    · refine (dupPut_flat _ ho hy (clusters_keys_nodup up).2).trans ?_
      simpa using ih.append_right [hy]

theorem NoClash_snoc {up : List UpEntry} {e : UpEntry} (h : NoClash (up ++ [e])) :
    NoClash up ∧ ∀ e1 ∈ up, ∀ x1 x2, e1.2.1 = some x1 → e.2.1 = some x2 → x1.key = x2.key →
      e1.2.2 = true ∧ e.2.2 = true := by
  unfold NoClash at h
  rw [List.pairwise_append] at h
  refine ⟨h.1, fun e1 he1 => h.2.2 e1 he1 e (by simp)⟩

/-- without clash nothing is overwritten: the RETAINED values are exactly the unflagged entries -/
theorem clusters_retained_values (up : List UpEntry) (h : NoClash up) :
    ((clustersOf up).retained.map (·.2)).Perm
      (up.filterMap (fun e => if e.2.1.isSome && !e.2.2 then some e.1 else none)) := by
  induction up using snoc_induction with
  | nil => simp [clustersOf]
  | snoc up e ih =>
    obtain ⟨h1, h2⟩ := NoClash_snoc h
    have ih := ih h1
    rw [clustersOf_snoc, List.filterMap_append]
    rcases e with ⟨hy, _ | ho, _ | _⟩ <;> simp only [clusterStep]
    · simpa using ih
    · simpa using ih
    · have hk : ho.key ∉ (clustersOf up).retained.map (·.1.key) := by
        intro hin
        rw [clusters_retained_keys] at hin
        obtain ⟨e1, he1, x, hx, hxk, _⟩ := hin
        have := (h2 e1 he1 x ho hx rfl hxk).2
        simp at this
      rw [retPut_values_absent _ ho hy hk]
      simpa using ih.append_right [hy]
    · simpa using ih

theorem NoClash_forall {up : List UpEntry} (h : NoClash up) :
    ∀ e1 ∈ up, ∀ e2 ∈ up, e1 ≠ e2 → ∀ x1 x2, e1.2.1 = some x1 → e2.2.1 = some x2 →
      x1.key = x2.key → e1.2.2 = true ∧ e2.2.2 = true := by
  induction up with
  | nil => intro e1 he1; simp at he1
  | cons a up ih =>
    unfold NoClash at h
    rw [List.pairwise_cons] at h
    intro e1 he1 e2 he2 hne x1 x2 hx1 hx2 hk
    rw [List.mem_cons] at he1 he2
    rcases he1 with rfl | he1 <;> rcases he2 with rfl | he2
    · exact absurd rfl hne
    · exact h.1 e2 he2 x1 x2 hx1 hx2 hk
    · exact (h.1 e1 he1 x2 x1 hx2 hx1 hk.symm).symm
    · exact ih h.2 e1 he1 e2 he2 hne x1 x2 hx1 hx2 hk

/-- without clash RETAINED and DUPLICATE have no key in common -/
theorem clusters_keys_disjoint (up : List UpEntry) (h : NoClash up) (k : Key)
    (h1 : k ∈ (clustersOf up).retained.map (·.1.key)) (h2 : k ∈ (clustersOf up).dupl.map (·.1.key)) : False := by
  rw [clusters_retained_keys] at h1
  rw [clusters_dupl_keys] at h2
  obtain ⟨e1, he1, x1, hx1, hk1, hf1⟩ := h1
  obtain ⟨e2, he2, x2, hx2, hk2, hf2⟩ := h2
  have hne : e1 ≠ e2 := by
    intro heq
    subst heq
    rw [hf1] at hf2
    exact Bool.noConfusion hf2
  have := (NoClash_forall h e1 he1 e2 he2 hne x1 x2 hx1 hx2 (hk1.trans hk2.symm)).1
  rw [hf1] at this
  exact Bool.noConfusion this

theorem partition_perm (up : List UpEntry) :
    (up.filterMap (fun e => if e.2.1.isNone then some e.1 else none) ++
      up.filterMap (fun e => if e.2.1.isSome && !e.2.2 then some e.1 else none) ++
      up.filterMap (fun e => if e.2.1.isSome && e.2.2 then some e.1 else none)).Perm
      (up.map (·.1)) := by
  induction up with
  | nil => simp
  | cons e up ih =>
    rcases e with ⟨hy, _ | ho, _ | _⟩
    · simpa using ih
    · simpa using ih
    · simp only [List.filterMap_cons, Option.isNone_some, Option.isSome_some, Bool.not_false,
        Bool.and_self, Bool.and_false, Bool.false_eq_true, if_false, if_true, List.map_cons]
      refine List.Perm.trans ?_ (ih.cons hy)
      rw [List.append_assoc, List.append_assoc]
      exact List.perm_middle
    · simp only [List.filterMap_cons, Option.isNone_some, Option.isSome_some, Bool.not_true,
        Bool.and_self, Bool.and_false, Bool.false_eq_true, if_false, if_true, List.map_cons]
      refine List.Perm.trans ?_ (ih.cons hy)
      exact List.perm_middle

/-- C05, descendant side, on the level of the upMap: every entry lands in exactly one of
    gained / retained (as a value) / duplicated (as a list member) -/
theorem clusters_partition (up : List UpEntry) (h : NoClash up) :
    ((clustersOf up).gain ++ (clustersOf up).retained.map (·.2) ++ (clustersOf up).dupl.flatMap (·.2)).Perm
      (up.map (·.1)) := by
  refine List.Perm.trans ?_ (partition_perm up)
  rw [clusters_gain]
  exact ((List.Perm.refl _).append (clusters_retained_values up h)).append (clusters_dupl_values up)

end Pyham
