/-
  C14 for comparisons over arbitrary branches, whole files: two consistent datasets that spell the same histories report the
  same NUMBER of gained and of lost genes (and have genomes of the same size) for every pair of ancestral genomes on a lineage.
-/
import PyhamModel.Lemmas.LostCount
import PyhamModel.Lemmas.HistoryInvariance
import PyhamModel.Lemmas.ReportedCount
namespace Pyham

mutual
theorem sameL_extinct (a d : Taxon) : ∀ {l l' : SL}, SameL l l' → ∀ q, extinctAt a d q l = extinctAt a d q l'
  | _, _, .gene _ _, _ => rfl
  | _, _, .grp _ _ _ _ _ _ _ _ hs, q => by
    have e1 := sameSubs_extinct a d hs q
    have e2 := sameSubs_lineages d hs q
    unfold extinctAt lineagesAt
    rw [e1]
    congr 1
    simp only [e2]
theorem sameSubs_extinct (a d : Taxon) : ∀ {x y : List Sub}, SameSubs x y →
    ∀ q, extinctAtSubs a d q x = extinctAtSubs a d q y
  | _, _, .nil, _ => rfl
  | _, _, .ann_left _ _ _ s, q => by simp only [extinctAtSubs]; exact sameSubs_extinct a d s q
  | _, _, .ann_right _ _ _ s, q => by simp only [extinctAtSubs]; exact sameSubs_extinct a d s q
  | _, _, .one i _ _ _ _ hl hs, q => by
    simp only [extinctAtSubs]
    rw [sameL_extinct a d hl (i :: q), sameSubs_extinct a d hs q]
  | _, _, .dup i _ _ _ _ _ hc hs, q => by
    simp only [extinctAtSubs]
    rw [sameCopies_extinct a d hc (i :: q), sameSubs_extinct a d hs q]
  | _, _, .swap x y _, q => by
    cases x <;> cases y <;> simp only [extinctAtSubs] <;> omega
  | _, _, .trans _ _ _ h1 h2, q => (sameSubs_extinct a d h1 q).trans (sameSubs_extinct a d h2 q)
theorem sameCopies_extinct (a d : Taxon) : ∀ {x y : List SL}, SameCopies x y →
    ∀ q, extinctAtCopies a d q x = extinctAtCopies a d q y
  | _, _, .nil, _ => rfl
  | _, _, .cons _ _ _ _ hc hs, q => by
    simp only [extinctAtCopies]
    rw [sameL_extinct a d hc q, sameCopies_extinct a d hs q]
  | _, _, .swap _ _ _, q => by simp only [extinctAtCopies]; omega
  | _, _, .trans _ _ _ h1 h2, q => (sameCopies_extinct a d h1 q).trans (sameCopies_extinct a d h2 q)
end

/-- **C14, comparisons over arbitrary branches, whole files**: same histories (any spelling, order, ids, labels, elision, naming
    mode) -- same number of gained genes, same number of lost genes and genomes of the same size for every two ancestral nodes
    `a` above `d`; hence also the same number of genes reported under an ancestor (`C05_sizes`) -/
theorem C14_long_branch_counts_same_for_same_histories (D D' : Dataset) (hc : D.Consistent) (hc' : D'.Consistent)
    (hT : D.T = D'.T) (hlen : D.fams.length = D'.fams.length)
    (hs : ∀ i (h1 : i < D.fams.length) (h2 : i < D'.fams.length),
        (D.fams[i]).1 = (D'.fams[i]).1 ∧ SameL (D.fams[i]).2 (D'.fams[i]).2) :
    ∃ H H', load D.T D.nm D.file = .ok H ∧ load D'.T D'.nm D'.file = .ok H' ∧
      ∀ a d, a <:+ d → a ≠ d → D.T.isInternalAt a = true → D.T.isInternalAt d = true →
        (hogsMap H a d).gain.length = (hogsMap H' a d).gain.length ∧
        (hogsMap H a d).loss.length = (hogsMap H' a d).loss.length ∧
        H.genomeSize d = H'.genomeSize d ∧ H.genomeSize a = H'.genomeSize a := by
  obtain ⟨H, hl, hg⟩ := C06_gained_count_is_the_history D hc
  obtain ⟨H', hl', hg'⟩ := C06_gained_count_is_the_history D' hc'
  obtain ⟨H2, hl2, hlo⟩ := C06_lost_count_is_the_history D hc
  obtain ⟨H2', hl2', hlo'⟩ := C06_lost_count_is_the_history D' hc'
  obtain ⟨H3, hl3, hsz⟩ := C04_counts_are_lineages D hc
  obtain ⟨H3', hl3', hsz'⟩ := C04_counts_are_lineages D' hc'
  have e2 : H2 = H := by rw [hl] at hl2; cases hl2; rfl
  have e2' : H2' = H' := by rw [hl'] at hl2'; cases hl2'; rfl
  have e3 : H3 = H := by rw [hl] at hl3; cases hl3; rfl
  have e3' : H3' = H' := by rw [hl'] at hl3'; cases hl3'; rfl
  rw [e2] at hlo; rw [e2'] at hlo'; rw [e3] at hsz; rw [e3'] at hsz'
  refine ⟨H, H', hl, hl', ?_⟩
  intro a d had hne hia hid
  have hia' : D'.T.isInternalAt a = true := by rw [← hT]; exact hia
  have hid' : D'.T.isInternalAt d = true := by rw [← hT]; exact hid
  refine ⟨?_, ?_, ?_, ?_⟩
  · rw [hg a d had hne hid, hg' a d had hne hid']
    apply sum_map_congr_index _ _ _ _ hlen
    intro j h1 h2
    obtain ⟨hq, hsl⟩ := hs j h1 h2
    rw [hq, sameL_lineages d hsl _]
  · rw [hlo a d hne hia hid, hlo' a d hne hia' hid']
    apply sum_map_congr_index _ _ _ _ hlen
    intro j h1 h2
    obtain ⟨hq, hsl⟩ := hs j h1 h2
    rw [hq]; exact sameL_extinct a d hsl _
  · rw [hsz d hid, hsz' d hid']
    apply sum_map_congr_index _ _ _ _ hlen
    intro j h1 h2
    obtain ⟨hq, hsl⟩ := hs j h1 h2
    rw [hq]; exact sameL_lineages d hsl _
  · rw [hsz a hia, hsz' a hia']
    apply sum_map_congr_index _ _ _ _ hlen
    intro j h1 h2
    obtain ⟨hq, hsl⟩ := hs j h1 h2
    rw [hq]; exact sameL_lineages a hsl _

end Pyham

namespace Pyham

mutual
theorem sameL_reported (want : Bool) (a d : Taxon) : ∀ {l l' : SL}, SameL l l' → ∀ q st,
    reportedAt want a d q st l = reportedAt want a d q st l'
  | _, _, .gene _ _, _, _ => rfl
  | _, _, .grp _ _ _ _ _ _ _ _ hs, q, st => by
    simp only [reportedAt]
    rw [sameSubs_reported want a d hs q _]
theorem sameSubs_reported (want : Bool) (a d : Taxon) : ∀ {x y : List Sub}, SameSubs x y → ∀ q st,
    reportedAtSubs want a d q st x = reportedAtSubs want a d q st y
  | _, _, .nil, _, _ => rfl
  | _, _, .ann_left _ _ _ s, q, st => by simp only [reportedAtSubs]; exact sameSubs_reported want a d s q st
  | _, _, .ann_right _ _ _ s, q, st => by simp only [reportedAtSubs]; exact sameSubs_reported want a d s q st
  | _, _, .one i _ _ _ _ hl hs, q, st => by
    simp only [reportedAtSubs]
    rw [sameL_reported want a d hl (i :: q) st, sameSubs_reported want a d hs q st]
  | _, _, .dup i _ _ _ _ _ hc hs, q, st => by
    simp only [reportedAtSubs]
    rw [sameCopies_reported want a d hc (i :: q) _, sameSubs_reported want a d hs q st]
  | _, _, .swap x y _, q, st => by
    cases x <;> cases y <;> simp only [reportedAtSubs] <;> omega
  | _, _, .trans _ _ _ h1 h2, q, st => (sameSubs_reported want a d h1 q st).trans (sameSubs_reported want a d h2 q st)
theorem sameCopies_reported (want : Bool) (a d : Taxon) : ∀ {x y : List SL}, SameCopies x y → ∀ q st,
    reportedAtCopies want a d q st x = reportedAtCopies want a d q st y
  | _, _, .nil, _, _ => rfl
  | _, _, .cons _ _ _ _ hc hs, q, st => by
    simp only [reportedAtCopies]
    rw [sameL_reported want a d hc q st, sameCopies_reported want a d hs q st]
  | _, _, .swap _ _ _, q, st => by simp only [reportedAtCopies]; omega
  | _, _, .trans _ _ _ h1 h2, q, st => (sameCopies_reported want a d h1 q st).trans (sameCopies_reported want a d h2 q st)
end

/-- **C14, all four cluster sizes of every vertical comparison, whole files**: same histories -- for ANY two taxa `a`, `d` the
    same number of duplicated copies and of retained genes (and, by `C14_long_branch_counts_same_for_same_histories`, of gained
    and lost genes between ancestral nodes) -/
theorem C14_reported_counts_same_for_same_histories (D D' : Dataset) (hc : D.Consistent) (hc' : D'.Consistent)
    (hlen : D.fams.length = D'.fams.length)
    (hs : ∀ i (h1 : i < D.fams.length) (h2 : i < D'.fams.length),
        (D.fams[i]).1 = (D'.fams[i]).1 ∧ SameL (D.fams[i]).2 (D'.fams[i]).2) :
    ∃ H H', load D.T D.nm D.file = .ok H ∧ load D'.T D'.nm D'.file = .ok H' ∧ ∀ a d,
      ((hogsMap H a d).dupl.map (·.2.length)).sum = ((hogsMap H' a d).dupl.map (·.2.length)).sum ∧
      (hogsMap H a d).retained.length = (hogsMap H' a d).retained.length := by
  obtain ⟨H, hl, hr⟩ := C06_reported_count_is_the_history D hc
  obtain ⟨H', hl', hr'⟩ := C06_reported_count_is_the_history D' hc'
  refine ⟨H, H', hl, hl', ?_⟩
  intro a d
  obtain ⟨h1, h2⟩ := hr a d
  obtain ⟨h1', h2'⟩ := hr' a d
  refine ⟨?_, ?_⟩
  · rw [h1, h1']
    apply sum_map_congr_index _ _ _ _ hlen
    intro j k1 k2
    obtain ⟨hq, hsl⟩ := hs j k1 k2
    rw [hq]; exact sameL_reported true a d hsl _ _
  · rw [h2, h2']
    apply sum_map_congr_index _ _ _ _ hlen
    intro j k1 k2
    obtain ⟨hq, hsl⟩ := hs j k1 k2
    rw [hq]; exact sameL_reported false a d hsl _ _

end Pyham
