/-
  <species> sections written AFTER the <groups> section.

  pyham reads the document once, in the order of the file: a geneRef is resolved against the declarations read so far.  The
  recursive model (`buildHam`) reads all species sections first.  The two agree whenever no gene of a late species is
  referenced by a group: the loader looks at the declarations only through the lookups of the referenced ids.
-/
import PyhamModel.Lemmas.SaxSim
namespace Pyham.Sax

/-! ### the loader sees the declarations only through the lookups of the referenced ids -/

theorem inferLevel_congr (T : STree) (nm : Naming) (g1 g2 : List (String × Taxon)) (hb : HogBuild) :
    inferLevel { T := T, nm := nm, geneTx := g1 } hb = inferLevel { T := T, nm := nm, geneTx := g2 } hb := rfl

theorem closeOg_congr (T : STree) (nm : Naming) (g1 g2 : List (String × Taxon)) (top : Bool) (hb : HogBuild) (ps : PS) :
    closeOg { T := T, nm := nm, geneTx := g1 } top hb ps = closeOg { T := T, nm := nm, geneTx := g2 } top hb ps := by
  unfold closeOg
  rw [inferLevel_congr T nm g1 g2]

mutual
theorem elem_congr (T : STree) (nm : Naming) (g1 g2 : List (String × Taxon)) : (len : Nat) → (e : Elem) →
    (hb : HogBuild) → (ps : PS) → (∀ id ∈ refsOf e, g1.lookup id = g2.lookup id) →
    elem { T := T, nm := nm, geneTx := g1 } len e hb ps = elem { T := T, nm := nm, geneTx := g2 } len e hb ps
  | len, .ref id loft, hb, ps, h => by
    have := h id (by simp [refsOf])
    simp only [elem, Env.lookupGene, this]
  | len, .score _ _, hb, ps, _ => by simp only [elem]
  | len, .prop _ _, hb, ps, _ => by simp only [elem]
  | len, .pg pgid its, hb, ps, h => by
    simp only [elem]
    rw [elems_congr T nm g1 g2 len its hb _ (by simpa [refsOf] using h)]
  | len, .og hid og its, hb, ps, h => by
    simp only [elem]
    rw [elems_congr T nm g1 g2 (len + 1) its _ _ (by simpa [refsOf] using h)]
    simp only [closeOg_congr T nm g1 g2]
theorem elems_congr (T : STree) (nm : Naming) (g1 g2 : List (String × Taxon)) : (len : Nat) → (es : List Elem) →
    (hb : HogBuild) → (ps : PS) → (∀ id ∈ refsOfL es, g1.lookup id = g2.lookup id) →
    elems { T := T, nm := nm, geneTx := g1 } len es hb ps = elems { T := T, nm := nm, geneTx := g2 } len es hb ps
  | len, [], hb, ps, _ => by simp only [elems]
  | len, e :: es, hb, ps, h => by
    have h1 : ∀ id ∈ refsOf e, g1.lookup id = g2.lookup id := fun id hi => h id (by simp [refsOfL, hi])
    have h2 : ∀ id ∈ refsOfL es, g1.lookup id = g2.lookup id := fun id hi => h id (by simp [refsOfL, hi])
    simp only [elems, bind]
    rw [elem_congr T nm g1 g2 len e hb ps h1]
    cases elem { T := T, nm := nm, geneTx := g2 } len e hb ps with
    | error err => rfl
    | ok r => simp only [Except.bind]; exact elems_congr T nm g1 g2 len es r.1 r.2 h2
end

mutual
theorem topElem_congr (T : STree) (nm : Naming) (g1 g2 : List (String × Taxon)) (flt : HogFilter) : (e : Elem) →
    (tops : List Node) → (ps : PS) → (∀ id ∈ refsOf e, g1.lookup id = g2.lookup id) →
    topElem { T := T, nm := nm, geneTx := g1 } flt e tops ps = topElem { T := T, nm := nm, geneTx := g2 } flt e tops ps
  | .ref id loft, tops, ps, h => by
    have := h id (by simp [refsOf])
    simp only [topElem, Env.lookupGene, this]
  | .score _ _, tops, ps, _ => by simp only [topElem]
  | .prop _ _, tops, ps, _ => by simp only [topElem]
  | .pg pgid its, tops, ps, h => by
    simp only [topElem]
    rw [topElems_congr T nm g1 g2 flt its tops _ (by simpa [refsOf] using h)]
  | .og hid og its, tops, ps, h => by
    simp only [topElem]
    simp only [elems_congr T nm g1 g2 1 its _ _ (by simpa [refsOf] using h), closeOg_congr T nm g1 g2]
theorem topElems_congr (T : STree) (nm : Naming) (g1 g2 : List (String × Taxon)) (flt : HogFilter) : (es : List Elem) →
    (tops : List Node) → (ps : PS) → (∀ id ∈ refsOfL es, g1.lookup id = g2.lookup id) →
    topElems { T := T, nm := nm, geneTx := g1 } flt es tops ps = topElems { T := T, nm := nm, geneTx := g2 } flt es tops ps
  | [], tops, ps, _ => by simp only [topElems]
  | e :: es, tops, ps, h => by
    have h1 : ∀ id ∈ refsOf e, g1.lookup id = g2.lookup id := fun id hi => h id (by simp [refsOfL, hi])
    have h2 : ∀ id ∈ refsOfL es, g1.lookup id = g2.lookup id := fun id hi => h id (by simp [refsOfL, hi])
    simp only [topElems, bind]
    rw [topElem_congr T nm g1 g2 flt e tops ps h1]
    cases topElem { T := T, nm := nm, geneTx := g2 } flt e tops ps with
    | error err => rfl
    | ok r => simp only [Except.bind]; exact topElems_congr T nm g1 g2 flt es r.1 r.2 h2
end

/-! ### declarations of a list of species sections -/

theorem declareSpecies_append (T : STree) (nm : Naming) (keep : String → Bool) :
    (a b : List Species) → (acc : List GeneRec) →
    declareSpecies T nm keep (a ++ b) acc = (declareSpecies T nm keep a acc).bind fun r => declareSpecies T nm keep b r
  | [], b, acc => by simp [declareSpecies, Except.bind]
  | s :: a, b, acc => by
    simp only [List.cons_append, declareSpecies, bind]
    cases resolveSpecies T nm s.name with
    | error e => rfl
    | ok p => simp only [Except.bind]; exact declareSpecies_append T nm keep a b _

/-- what a list of species sections adds: records whose ids are ids of <gene> elements of those sections -/
theorem declareSpecies_extends (T : STree) (nm : Naming) (keep : String → Bool) :
    (b : List Species) → (acc r : List GeneRec) → declareSpecies T nm keep b acc = .ok r →
    ∃ extra, r = acc ++ extra ∧ ∀ x ∈ extra, ∃ s ∈ b, ∃ g ∈ s.genes, g.id = x.id
  | [], acc, r, h => by
    simp only [declareSpecies] at h
    cases h
    exact ⟨[], by simp, by simp⟩
  | s :: b, acc, r, h => by
    simp only [declareSpecies, bind] at h
    cases hr : resolveSpecies T nm s.name with
    | error e => rw [hr] at h; simp [Except.bind] at h
    | ok p =>
      rw [hr] at h
      simp only [Except.bind] at h
      obtain ⟨extra, he, hx⟩ := declareSpecies_extends T nm keep b _ r h
      refine ⟨(s.genes.filter fun g => keep g.id).map (fun g => ({ id := g.id, species := s.name, tx := p, xrefs := g.xrefs } : GeneRec)) ++ extra,
        by rw [he]; simp, ?_⟩
      intro x hxm
      rcases List.mem_append.mp hxm with hm | hm
      · obtain ⟨g, hg, rfl⟩ := List.mem_map.mp hm
        exact ⟨s, by simp, g, (List.mem_filter.mp hg).1, rfl⟩
      · obtain ⟨s', hs', g, hg, hid⟩ := hx x hm
        exact ⟨s', by simp [hs'], g, hg, hid⟩

theorem resolved_append (T : STree) (nm : Naming) : (a b : List Species) →
    resolved T nm (a ++ b) = resolved T nm a ++ resolved T nm b
  | [], b => rfl
  | s :: a, b => by simp [resolved, resolved_append T nm a b]

theorem lookup_late (acc extra : List GeneRec) (id : String) (h : ∀ x ∈ extra, x.id ≠ id) :
    ((acc ++ extra).reverse.map fun g => (g.id, g.tx)).lookup id = (acc.reverse.map fun g => (g.id, g.tx)).lookup id := by
  rw [List.reverse_append, List.map_append, List.lookup_append]
  have : (extra.reverse.map fun g => (g.id, g.tx)).lookup id = none := by
    rw [List.lookup_eq_none_iff]
    intro p hp
    obtain ⟨x, hx, rfl⟩ := List.mem_map.mp hp
    have := h x (List.mem_reverse.mp hx)
    simp only [bne_iff_ne, ne_eq]
    exact fun e => this e.symm
  rw [this]
  simp

/-- **species sections after the groups section**: a document `early species … groups … late species`, read in the order of
    the file, ends in the analysis the recursive load of (all species, groups) returns -- provided the species sections are
    all valid and no gene declared in a late section is referenced by a group.  (A reference to a gene that is declared only
    later is a KeyError in the streaming loader; the recursive model would resolve it.) -/
theorem late_species_load (T : STree) (nm : Naming) (keep : String → Bool) (flt : HogFilter)
    (early late : List Species) (groups : List Elem) (all : List GeneRec)
    (hall : declareSpecies T nm keep (early ++ late) [] = .ok all)
    (hlate : ∀ id ∈ refsOfL groups, ∀ s ∈ late, ∀ g ∈ s.genes, g.id ≠ id) :
    (drun T nm keep flt (spEvents early ++ ((eventsL groups).map .grp ++ spEvents late)) {}).map (DS.ham T nm) =
      buildHam T nm { species := early ++ late, groups := groups } keep flt := by
  rw [declareSpecies_append] at hall
  cases h1 : declareSpecies T nm keep early [] with
  | error e => rw [h1] at hall; simp [Except.bind] at hall
  | ok genes1 =>
    rw [h1] at hall
    simp only [Except.bind] at hall
    obtain ⟨extra, hex, hids⟩ := declareSpecies_extends T nm keep late genes1 all hall
    have e0 : ({} : DS) = { cur := none, genes := [], species := [], ms := {} } := rfl
    rw [e0, drun_species T nm keep flt early [] [] {}, h1]
    simp only [Except.bind]
    rw [drun_groups T nm keep flt (eventsL groups) none genes1 ([] ++ resolved T nm early) {} (spEvents late)]
    rw [sax_groups]
    unfold buildHam
    have hall' : declareSpecies T nm keep (early ++ late) [] = .ok all := by
      rw [declareSpecies_append, h1]; exact hall
    simp only [bind, hall', Except.bind]
    have hcongr := topElems_congr T nm (genes1.reverse.map fun g => (g.id, g.tx)) (all.reverse.map fun g => (g.id, g.tx)) flt groups [] {}
      (by
        intro id hid
        rw [hex]
        exact (lookup_late genes1 extra id (by
          intro x hx he
          obtain ⟨s, hs, g, hg, hgid⟩ := hids x hx
          exact hlate id hid s hs g hg (by rw [hgid, he]))).symm)
    rw [← hcongr]
    cases ht : topElems { T := T, nm := nm, geneTx := genes1.reverse.map fun g => (g.id, g.tx) } flt groups [] {} with
    | error e => simp [Except.bind, Except.map]
    | ok r =>
      simp only [Except.bind, Except.map]
      have hl := drun_species T nm keep flt late genes1 ([] ++ resolved T nm early) { hstack := [], skip := 0, tops := r.1, ps := r.2 } []
      simp only [List.append_nil] at hl
      rw [hl, hall]
      have hm := declared_resolved T nm keep (early ++ late) [] all hall'
      simp only [Except.map] at hm
      simp only [Except.bind, drun, hm, DS.ham, List.nil_append]
      congr 2
      exact (resolved_append T nm early late).symm

end Pyham.Sax
