/-
  Corollaries that tie the general theorems to "every loaded consistent input", and the common-ancestor lookup.
-/
import PyhamModel.Lemmas.Capstone
import PyhamModel.Lemmas.Compose
import PyhamModel.Lemmas.Clustering
import PyhamModel.Lemmas.NestedPg
import PyhamModel.Model.Lookup
namespace Pyham

/-- **C15 (common ancestor of a genome set)**: the genome returned for a set of genomes lives at the deepest
    taxon that is an ancestor-or-self of all of them, and that taxon carries an ancestral genome -/
theorem C15_mrca_set_lookup (H : Ham) (gs : List Taxon) (t : Taxon) (h : H.ancestralGenomeByMrca gs = .ok t) :
    (∀ g ∈ gs, t <:+ g) ∧ (∀ c, (∀ g ∈ gs, c <:+ g) → c <:+ t) ∧ t ∈ H.ancestralTaxa := by
  unfold Ham.ancestralGenomeByMrca at h
  have key : ∀ ts, ts = dedup gs → ts ≠ [] → H.ancestralGenomeByTaxon (mrca ts) = .ok t →
      (∀ g ∈ gs, t <:+ g) ∧ (∀ c, (∀ g ∈ gs, c <:+ g) → c <:+ t) ∧ t ∈ H.ancestralTaxa := by
    intro ts hts hne hh
    unfold Ham.ancestralGenomeByTaxon at hh
    split at hh
    · rename_i hc
      cases hh
      refine ⟨fun g hg => NP.mrca_suffix_mem ts g (hts ▸ (NP.mem_dedup g gs).mpr hg), ?_, ?_⟩
      · intro c hcg
        exact NP.mrca_greatest c ts hne (fun x hx => hcg x ((NP.mem_dedup x gs).mp (hts ▸ hx)))
      · simpa using hc
    · cases hh
  split at h
  · cases h
  · cases h
  · rename_i hne1 hne2
    exact key (dedup gs) rfl (by intro h0; exact hne1 h0) h

/-- C06 for every loaded consistent input -/
theorem C06_on_loaded_consistent_input (D : Dataset) (hc : D.Consistent) :
    ∃ H, load D.T D.nm D.file = .ok H ∧
      (∀ a d n, n ∈ (hogsMap H a d).gain ↔ ∃ r ∈ H.nodesAt d, r.node = n ∧ ∀ y ∈ r.anc, y.tx ≠ a) ∧
      (∀ a r, r ∈ H.allLocs → ∀ x f, search a r = (some x, f) ↔
          ∃ pre post, r.anc = pre ++ x :: post ∧ x.tx = a ∧
            (∀ y ∈ r.anc, y.tx = a → y = x) ∧ f = (flagged r.node || pre.any flagged)) ∧
      (∀ a d x, x ∈ H.nodesAt a →
          (x.node ∈ (hogsMap H a d).loss ↔ ∀ r ∈ H.nodesAt d, ∀ y ∈ r.anc, y.key ≠ x.node.key)) ∧
      (∀ a d, (hogsMap H a d).ndup = ((hogsMap H a d).dupl.map fun e => e.2.length - 1).sum) := by
  obtain ⟨H, hl, _, _, hw, _, _⟩ := loaded_consistent D hc
  exact ⟨H, hl, fun a d n => C06_gained_iff H a d n, fun a r hr x f => C06_reported_under H hw a r hr x f,
    fun a d x hx => C06_lost_iff H hw a d x hx, fun a d => C06_number_duplications H a d⟩

/-- C07 for every loaded consistent input -/
theorem C07_on_loaded_consistent_input (D : Dataset) (hc : D.Consistent) :
    ∃ H, load D.T D.nm D.file = .ok H ∧
      ∀ (a b : Taxon), a <:+ b → a ≠ b → ∀ r ∈ H.allLocs, b <:+ r.node.tx → b ≠ r.node.tx →
        (∀ y g, search b r = (some y, g) →
          ∃ post, (⟨y, post⟩ : Loc) ∈ H.nodesAt b ∧
            search a r = ((search a ⟨y, post⟩).1, g || (search a ⟨y, post⟩).2)) ∧
        (∀ g, search b r = (none, g) → (search a r).1 = none) := by
  obtain ⟨H, hl, _, _, hw, _, _⟩ := loaded_consistent D hc
  exact ⟨H, hl, fun a b hab hne r hr hbr hbne => C07_compose H hw a b hab hne r hr hbr hbne⟩

/-- C16 (ancestral clustering) for every loaded consistent input -/
theorem C16_on_loaded_consistent_input (D : Dataset) (hc : D.Consistent) :
    ∃ H, load D.T D.nm D.file = .ok H ∧
      ∀ t (e1 e2 : Node × List String), e1 ∈ ancestralClustering H t → e2 ∈ ancestralClustering H t →
        e1.1.key ≠ e2.1.key → ∀ g ∈ e1.2, g ∉ e2.2 := by
  obtain ⟨H, hl, _, _, hw, _, _⟩ := loaded_consistent D hc
  exact ⟨H, hl, fun t e1 e2 h1 h2 hne g hg => C16_clustering_disjoint H hw t e1 e2 h1 h2 hne g hg⟩

end Pyham
