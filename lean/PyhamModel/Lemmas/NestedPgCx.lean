/-
  Why `C14_nested_eq_flat_partial` carries the hypothesis `noTaxRangeL`: a kernel-checked counterexample.
  Closing a species-level group that is dissolved into its parent (TaxRange equal to the name of the one
  genome of its members -- the branch of parsers.py outside the domain of the properties, DESIGN §6 D7)
  decrements the depth of the open paralog frame, so a paralogGroup nested directly after it starts a
  second DuplicationNode instead of sharing the first.
-/
import PyhamModel.Lemmas.NestedPg
namespace Pyham

def cxTree : STree := .node "R" [.node "X" [.node "A" [], .node "B" []], .node "C" []]
def cxSpecies : List Species :=
  [Species.mk "A" [GeneDecl.mk "a1" [], GeneDecl.mk "a2" []], Species.mk "B" [GeneDecl.mk "b1" []],
   Species.mk "C" [GeneDecl.mk "c1" []]]
def cxGroups : List Elem :=
  [.og (some "H") none [.pg none [.og (some "K") none [.prop "TaxRange" "A", .ref "a1" none, .ref "a2" none],
                                   .pg none [.ref "b1" none]], .ref "c1" none]]

/-- both spellings load, `nestsOkL` holds, and the results differ (number of registered HOGs) -/
theorem C14_nested_eq_flat_needs_no_collapse :
    nestsOkL cxGroups = true ∧
    (load cxTree .own (Input.mk cxSpecies cxGroups)).toOption.map (·.reg.length) = some 3 ∧
    (load cxTree .own (Input.mk cxSpecies (flatItems cxGroups))).toOption.map (·.reg.length) = some 4 := by
  decide +kernel

end Pyham
