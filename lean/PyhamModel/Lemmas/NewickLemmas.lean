/-
  C18: the stored Newick text re-parses to the same named topology, polytomies included
  (for the model's writer / reader pair; equality of the model's writer with ete3's is checked by the
  correspondence run on generated trees).
-/
import PyhamModel.Model.Newick
namespace Pyham

theorem named_leaf (nm : Naming) (n : String) : STree.named nm (.node n []) = .node n [] := by
  simp [STree.named, STree.named.namedL, STree.displayName, STree.isLeaf, STree.kids, STree.name]

mutual
theorem newickBody_chars_aux (nm : Naming) : (t : STree) →
    (STree.newickBody nm t).toList = writeChars (STree.named nm t)
  | .node n [] => by
    rw [named_leaf]; simp [STree.newickBody, writeChars]
  | .node n (k :: ks) => by
    have ih := newickL_chars_aux nm (k :: ks)
    simp only [STree.named.namedL] at ih
    simp only [STree.newickBody, STree.named, STree.named.namedL, writeChars, String.toList_append, ih]
    simp
theorem newickL_chars_aux (nm : Naming) : (ks : List STree) →
    (STree.newickL nm ks).toList = writeCharsL (STree.named.namedL nm ks)
  | [] => by simp [STree.newickL, STree.named.namedL, writeCharsL]
  | [k] => by
    simp [STree.newickL, STree.named.namedL, writeCharsL, newickBody_chars_aux nm k]
  | k :: k2 :: ks => by
    have ih := newickL_chars_aux nm (k2 :: ks)
    simp only [STree.named.namedL] at ih
    simp only [STree.newickL, STree.named.namedL, writeCharsL, String.toList_append,
      newickBody_chars_aux nm k, ih]
    simp
end

/-- the String writer of the model writes the characters of `writeChars` on the named tree -/
theorem newickBody_chars (nm : Naming) (t : STree) :
    (STree.newickBody nm t).toList = writeChars (STree.named nm t) :=
  newickBody_chars_aux nm t

theorem takeWhile_clean (n rest : List Char) (hn : n.all isNameChar = true)
    (hr : ∀ c ∈ rest.head?, isNameChar c = false) :
    (n ++ rest).takeWhile isNameChar = n ∧ (n ++ rest).dropWhile isNameChar = rest := by
  induction n with
  | nil =>
    cases rest with
    | nil => simp
    | cons c cs =>
      have : isNameChar c = false := hr c (by simp)
      simp [this]
  | cons a n ih =>
    simp only [List.all_cons, Bool.and_eq_true] at hn
    have := ih hn.2
    simp [hn.1, this]

theorem readTree_leaf (f : Nat) (cs : List Char) (h : cs.head? ≠ some '(') :
    readTree (f + 1) cs
      = some (.node (String.ofList (cs.takeWhile isNameChar)) [], cs.dropWhile isNameChar) := by
  unfold readTree
  split
  · omega
  · simp at h
  · rfl

theorem head_clean (n rest : List Char) (hn : n.all isNameChar = true)
    (hp : rest.head? ≠ some '(') : (n ++ rest).head? ≠ some '(' := by
  cases n with
  | nil => simpa using hp
  | cons a n =>
    simp only [List.all_cons, Bool.and_eq_true] at hn
    intro h
    simp at h
    subst h
    simp [isNameChar] at hn

mutual
theorem readTree_wc : (t : STree) → t.namesClean = true → (rest : List Char) →
    (∀ c ∈ rest.head?, isNameChar c = false) → rest.head? ≠ some '(' → (fuel : Nat) →
    (writeChars t).length + 1 ≤ fuel → readTree fuel (writeChars t ++ rest) = some (t, rest)
  | .node n [], hc, rest, hr, hp, fuel, hf => by
    simp only [STree.namesClean, Bool.and_eq_true] at hc
    obtain ⟨f, rfl⟩ : ∃ f, fuel = f + 1 := ⟨fuel - 1, by omega⟩
    simp only [writeChars]
    rw [readTree_leaf f _ (head_clean _ _ hc.1 hp)]
    obtain ⟨h1, h2⟩ := takeWhile_clean n.toList rest hc.1 hr
    rw [h1, h2, String.ofList_toList]
  | .node n (k :: ks), hc, rest, hr, hp, fuel, hf => by
    simp only [STree.namesClean, Bool.and_eq_true] at hc
    obtain ⟨f, rfl⟩ : ∃ f, fuel = f + 1 := ⟨fuel - 1, by omega⟩
    simp only [writeChars, List.length_cons, List.length_append] at hf
    have ih := readList_wc (k :: ks) (by simp) hc.2 (n.toList ++ rest) f (by omega)
    simp only [writeChars, List.cons_append, List.append_assoc]
    unfold readTree
    simp only [ih]
    obtain ⟨h1, h2⟩ := takeWhile_clean n.toList rest hc.1 hr
    rw [h1, h2, String.ofList_toList]
theorem readList_wc : (ks : List STree) → ks ≠ [] → namesCleanL ks = true → (rest : List Char) →
    (fuel : Nat) → (writeCharsL ks).length + 2 ≤ fuel →
    readTree.readList fuel (writeCharsL ks ++ ')' :: rest) = some (ks, ')' :: rest)
  | [], h, _, _, _, _ => absurd rfl h
  | [k], _, hc, rest, fuel, hf => by
    simp only [namesCleanL, Bool.and_eq_true] at hc
    obtain ⟨f, rfl⟩ : ∃ f, fuel = f + 1 := ⟨fuel - 1, by omega⟩
    simp only [writeCharsL] at hf ⊢
    have ih := readTree_wc k hc.1 (')' :: rest) (by simp [isNameChar]) (by simp) f (by omega)
    unfold readTree.readList
    simp [ih]
  | k :: k2 :: ks, _, hc, rest, fuel, hf => by
    simp only [namesCleanL, Bool.and_eq_true] at hc
    obtain ⟨f, rfl⟩ : ∃ f, fuel = f + 1 := ⟨fuel - 1, by omega⟩
    simp only [writeCharsL, List.length_cons, List.length_append] at hf
    have ih1 := readTree_wc k hc.1 (',' :: (writeCharsL (k2 :: ks) ++ ')' :: rest))
      (by simp [isNameChar]) (by simp) f (by omega)
    have ih2 := readList_wc (k2 :: ks) (by simp) (by simp [namesCleanL, hc.2]) rest f (by omega)
    simp only [writeCharsL, List.append_assoc, List.cons_append]
    unfold readTree.readList
    simp only [ih1, ih2]
end

/-- reading what was written returns the tree and leaves the rest of the input untouched, provided
    the names contain none of `( ) , ;` and the rest does not continue the last name.
    (The statement without `hp` is false: `t = .node "" []`, `rest = ['(']`.) -/
theorem readTree_writeChars_partial (t : STree) (hc : t.namesClean = true) (rest : List Char)
    (hr : ∀ c ∈ rest.head?, isNameChar c = false) (hp : rest.head? ≠ some '(')
    (fuel : Nat) (hf : (writeChars t).length + 1 ≤ fuel) :
    readTree fuel (writeChars t ++ rest) = some (t, rest) :=
  readTree_wc t hc rest hr hp fuel hf

/-- counterexample to the statement without `hp` -/
theorem readTree_writeChars_counterexample :
    ∃ (t : STree) (rest : List Char) (fuel : Nat), t.namesClean = true ∧
      (∀ c ∈ rest.head?, isNameChar c = false) ∧ (writeChars t).length + 1 ≤ fuel ∧
      readTree fuel (writeChars t ++ rest) = none := by
  refine ⟨.node "" [], ['('], 1, by simp [STree.namesClean, namesCleanL], by simp [isNameChar],
    by simp [writeChars], ?_⟩
  simp [writeChars, readTree, readTree.readList]

/-- **C18 (Newick round-trip)**: for every tree (any arity, any shape) whose names -- the tree's own
    or the synthesised ones -- contain none of the characters `( ) , ;`, the stored Newick text
    re-parses to the same named topology -/
theorem C18_newick_roundtrip (nm : Naming) (T : STree) (hc : (STree.named nm T).namesClean = true) :
    parseNewick (T.newick nm) = some (STree.named nm T) := by
  have hl : (T.newick nm).toList = writeChars (STree.named nm T) ++ [';'] := by
    simp [STree.newick, String.toList_append, newickBody_chars]
  have hlen : (T.newick nm).length = (writeChars (STree.named nm T)).length + 1 := by
    rw [← String.length_toList, hl]; simp
  have := readTree_wc (STree.named nm T) hc [';'] (by simp [isNameChar]) (by simp)
    ((T.newick nm).length + 1) (by omega)
  unfold parseNewick
  simp [hl, this]

/-- names over letters, digits, space, '_', '-', '.', '/' are clean -/
theorem alphabet_clean (c : Char) (h : c.isAlphanum = true ∨ c = ' ' ∨ c = '_' ∨ c = '-' ∨ c = '.' ∨ c = '/') :
    isNameChar c = true := by
  rcases h with h | h | h | h | h | h
  · simp only [isNameChar, Bool.and_eq_true, bne_iff_ne, ne_eq]
    refine ⟨⟨⟨?_, ?_⟩, ?_⟩, ?_⟩ <;> (intro hc; subst hc; revert h; decide)
  all_goals (subst h; decide)

end Pyham
