/-
  C17, the permitted side effect: after any call sequence the genomes that were there after loading are
  still listed, and whatever else is listed (genomes created lazily by lateral comparisons and tree
  profiles) is EMPTY.
-/
import PyhamModel.Lemmas.SessionLemmas
namespace Pyham

/-- every gene lives at the leaf of a declared species -/
def Ham.genesInSpecies (H : Ham) : Prop := ∀ g ∈ H.genes, g.tx ∈ H.species.map (·.2)

theorem genomeSize_zero_of_not_initial (H : Ham) (hg : H.genesInSpecies) (t : Taxon)
    (ht : t ∉ H.initialGenomes) : H.genomeSize t = 0 := by
  simp only [Ham.initialGenomes, List.mem_append, not_or] at ht
  unfold Ham.genomeSize
  split
  · rw [List.length_eq_zero_iff, List.filter_eq_nil_iff]
    intro g hgm hgt
    simp only [beq_iff_eq] at hgt
    exact ht.1 (hgt ▸ hg g hgm)
  · rw [List.length_eq_zero_iff, List.filter_eq_nil_iff]
    intro e he het
    simp only [beq_iff_eq] at het
    exact ht.2 (het ▸ List.mem_map_of_mem he)

theorem step_H (s : SState) (op : Op) : (step s op).1.H = s.H := by
  have getHogMap_H : ∀ (s : SState) g1 g2, (getHogMap s g1 g2).1.H = s.H := by
    intro s g1 g2
    unfold getHogMap
    split
    · rfl
    · split <;> rfl
  have prof_H : ∀ (ts : List Taxon) (s : SState), (profileFullS s ts).1.H = s.H := by
    intro ts
    induction ts with
    | nil => intro s; rfl
    | cons t ts ih =>
      intro s
      unfold profileFullS
      split
      · exact ih s
      · simp only
        rw [ih, getHogMap_H]
  cases op with
  | vertical g1 g2 => exact getHogMap_H s g1 g2
  | lateral g1 g2 => simp only [step]; split <;> rfl
  | profileFull => simp only [step]; exact prof_H _ s
  | profileHog k => simp only [step]; split <;> rfl
  | iham k => simp only [step]; split; rfl; split <;> rfl
  | clustering t => simp only [step]; split <;> rfl
  | geneById id => rfl
  | descGenes k => simp only [step]; split <;> rfl

theorem run_H (ops : List Op) : ∀ (s : SState), (run s ops).1.H = s.H := by
  induction ops with
  | nil => intro s; rfl
  | cons op ops ih => intro s; simp only [run]; rw [ih, step_H]

/-- **C17 (the only permitted side effect)**: after any call sequence every genome present after loading is
    still listed, and every other listed genome is empty -/
theorem C17_listing (H : Ham) (hg : H.genesInSpecies) (ops : List Op) :
    (∀ t ∈ H.initialGenomes, t ∈ (run (SState.init H) ops).1.listing) ∧
    (∀ t ∈ (run (SState.init H) ops).1.listing, t ∉ H.initialGenomes → H.genomeSize t = 0) := by
  have hH : (run (SState.init H) ops).1.H = H := run_H ops (SState.init H)
  refine ⟨?_, fun t _ hn => genomeSize_zero_of_not_initial H hg t hn⟩
  intro t ht
  simp only [SState.listing, hH, List.mem_append]
  exact Or.inl (by simpa [Ham.initialGenomes] using ht)

/-! ### loaded analyses satisfy the hypothesis -/

theorem declareSpecies_tx (T : STree) (nm : Naming) (keep : String → Bool) : (sp : List Species) →
    (acc genes : List GeneRec) → declareSpecies T nm keep sp acc = .ok genes →
    ∀ g ∈ genes, g ∈ acc ∨ ∃ s ∈ sp, resolveSpecies T nm s.name = .ok g.tx
  | [], acc, genes, h => by
    simp only [declareSpecies, Except.ok.injEq] at h
    subst h; intro g hg; exact Or.inl hg
  | s :: ss, acc, genes, h => by
    simp only [declareSpecies] at h
    cases hr : resolveSpecies T nm s.name with
    | error e => rw [hr] at h; simp [bind, Except.bind] at h
    | ok p =>
      rw [hr] at h
      simp only [bind, Except.bind] at h
      intro g hg
      rcases declareSpecies_tx T nm keep ss _ genes h g hg with h1 | ⟨s', hs', hr'⟩
      · rw [List.mem_append] at h1
        rcases h1 with h1 | h1
        · exact Or.inl h1
        · simp only [List.mem_map, List.mem_filter] at h1
          obtain ⟨d, _, rfl⟩ := h1
          exact Or.inr ⟨s, List.mem_cons_self, hr⟩
      · exact Or.inr ⟨s', List.mem_cons_of_mem _ hs', hr'⟩

theorem mapM_resolve_mem (T : STree) (nm : Naming) : (sp : List Species) → (out : List (String × Taxon)) →
    sp.mapM (fun s => (resolveSpecies T nm s.name).map fun p => (s.name, p)) = .ok out →
    ∀ s ∈ sp, ∀ p, resolveSpecies T nm s.name = .ok p → (s.name, p) ∈ out
  | [], out, h => by intro s hs; cases hs
  | s0 :: ss, out, h => by
    rw [List.mapM_cons] at h
    cases hr : resolveSpecies T nm s0.name with
    | error e => rw [hr] at h; simp [bind, Except.bind, Except.map] at h
    | ok p0 =>
      rw [hr] at h
      simp only [bind, Except.bind, Except.map] at h
      cases hm : ss.mapM (fun s => (resolveSpecies T nm s.name).map fun p => (s.name, p)) with
      | error e => simp only [Except.map] at hm; rw [hm] at h; simp [pure, Except.pure] at h
      | ok rest =>
        simp only [Except.map] at hm
        rw [hm] at h
        simp only [pure, Except.pure, Except.ok.injEq] at h
        subst h
        intro s hs p hp
        rcases List.mem_cons.mp hs with rfl | hs
        · rw [hr] at hp; cases hp; exact List.mem_cons_self
        · exact List.mem_cons_of_mem _ (mapM_resolve_mem T nm ss rest hm s hs p hp)

theorem buildHam_genesInSpecies (T : STree) (nm : Naming) (inp : Input) (keep : String → Bool) (flt : HogFilter)
    (H : Ham) (h : buildHam T nm inp keep flt = .ok H) : H.genesInSpecies := by
  simp only [buildHam, bind, Except.bind] at h
  cases hd : declareSpecies T nm keep inp.species [] with
  | error e => rw [hd] at h; simp at h
  | ok genes =>
    rw [hd] at h
    dsimp only at h
    split at h
    · cases h
    · cases hm : List.mapM (fun s : Species => Except.map (fun p => (s.name, p)) (resolveSpecies T nm s.name))
          inp.species with
      | error e => rw [hm] at h; cases h
      | ok v =>
        rw [hm] at h; cases h
        intro g hg
        rcases declareSpecies_tx T nm keep inp.species [] genes hd g hg with h1 | ⟨s, hs, hr⟩
        · cases h1
        · have := mapM_resolve_mem T nm inp.species v hm s hs g.tx hr
          exact List.mem_map.mpr ⟨(s.name, g.tx), this, rfl⟩

theorem load_genesInSpecies (T : STree) (nm : Naming) (inp : Input) (H : Ham) (h : load T nm inp = .ok H) :
    H.genesInSpecies := buildHam_genesInSpecies T nm inp _ _ H h

end Pyham
