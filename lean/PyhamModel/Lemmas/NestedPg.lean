/-
  C14 / C02: writing a multi-copy duplication as directly nested paralogGroups or as one flat
  paralogGroup makes no difference: directly nested paralogGroups share one DuplicationNode, the
  members are collected in document order, and the level of the event is recomputed when the outermost
  group closes.
-/
import PyhamModel.Model.Parser
import PyhamModel.Lemmas.TreeLemmas
namespace Pyham

mutual
/-- splice every paralogGroup that sits DIRECTLY inside a paralogGroup into its parent (recursively);
    orthologGroups are entered, their own paralogGroups flattened likewise -/
def flatElem : Elem → Elem
  | .og hid og its => .og hid og (flatItems its)
  | .pg pgid its => .pg pgid (spliceItems its)
  | e => e
/-- items of an orthologGroup (or of the top level) -/
def flatItems : List Elem → List Elem
  | [] => []
  | e :: es => flatElem e :: flatItems es
/-- items of a paralogGroup: directly nested paralogGroups disappear, their items are spliced in -/
def spliceItems : List Elem → List Elem
  | [] => []
  | .pg _ its :: es => spliceItems its ++ spliceItems es
  | e :: es => flatElem e :: spliceItems es
end

def isMember : Elem → Bool
  | .ref _ _ => true
  | .og _ _ _ => true
  | _ => false

mutual
/-- every directly nested paralogGroup contains, after splicing, at least one member (a geneRef or an
    orthologGroup) -- otherwise the loader rejects it as an empty paralogGroup -/
def nestsOk : Elem → Bool
  | .og _ _ its => nestsOkL its
  | .pg _ its => nestsOkIn its
  | _ => true
def nestsOkL : List Elem → Bool
  | [] => true
  | e :: es => nestsOk e && nestsOkL es
def nestsOkIn : List Elem → Bool
  | [] => true
  | .pg _ its :: es => (spliceItems its).any isMember && nestsOkIn its && nestsOkIn es
  | e :: es => nestsOk e && nestsOkIn es
end

namespace NP

/-! ### generic helpers -/

theorem mem_dedup {α} [BEq α] [LawfulBEq α] (x : α) : (l : List α) → (x ∈ dedup l ↔ x ∈ l)
  | [] => by simp [dedup]
  | y :: ys => by
    simp only [dedup, List.mem_cons, List.mem_filter, mem_dedup x ys, bne_iff_ne, ne_eq]
    by_cases h : x = y <;> simp [h]

theorem dedup_ne_nil {α} [BEq α] (l : List α) (h : l ≠ []) : dedup l ≠ [] := by
  cases l with
  | nil => exact absurd rfl h
  | cons x xs => simp [dedup]

/-! ### the state up to the `mrca` of one duplication -/

def clrB (d : Nat) (b : DupBuild) : DupBuild := if b.did == d then { b with mrca := none } else b

theorem clrB_did (d : Nat) (b : DupBuild) : (clrB d b).did = b.did := by unfold clrB; split <;> rfl
theorem clrB_members (d : Nat) (b : DupBuild) : (clrB d b).members = b.members := by unfold clrB; split <;> rfl
theorem clrB_pgid (d : Nat) (b : DupBuild) : (clrB d b).pgid = b.pgid := by unfold clrB; split <;> rfl
theorem clrB_of_ne (d : Nat) (b : DupBuild) (h : b.did ≠ d) : clrB d b = b := by
  unfold clrB; simp [h]
theorem clrB_setm (d : Nat) (b : DupBuild) (h : b.did = d) (m : Option Taxon) :
    clrB d { b with mrca := m } = clrB d b := by
  unfold clrB; simp [h]

structure Rel (d : Nat) (a b : PS) : Prop where
  inpg : a.inPG = b.inPG
  cur : a.cur = b.cur
  next : a.next = b.next
  reg : a.reg = b.reg
  ds : a.dstore.map (clrB d) = b.dstore.map (clrB d)

theorem Rel.refl (d : Nat) (a : PS) : Rel d a a := ⟨rfl, rfl, rfl, rfl, rfl⟩

theorem find_map_clr (d x : Nat) (l : List DupBuild) :
    (l.map (clrB d)).find? (·.did == x) = (l.find? (·.did == x)).map (clrB d) := by
  induction l with
  | nil => rfl
  | cons u us ih =>
    simp only [List.map_cons, List.find?_cons, clrB_did]
    split
    · rfl
    · exact ih

theorem Rel.getDup {d : Nat} {a b : PS} (h : Rel d a b) (x : Nat) :
    (a.getDup x).map (clrB d) = (b.getDup x).map (clrB d) := by
  unfold PS.getDup
  rw [← find_map_clr, ← find_map_clr, h.ds]

theorem getDup_did {ps : PS} {x : Nat} {b : DupBuild} (h : ps.getDup x = some b) : b.did = x := by
  unfold PS.getDup at h
  have := List.find?_some h
  simpa using this

theorem Rel.getDup_ne {d : Nat} {a b : PS} (h : Rel d a b) {x : Nat} (hx : x ≠ d) :
    a.getDup x = b.getDup x := by
  have e := h.getDup x
  cases ha : a.getDup x with
  | none =>
    cases hb : b.getDup x with
    | none => rfl
    | some v => rw [ha, hb] at e; cases e
  | some u =>
    cases hb : b.getDup x with
    | none => rw [ha, hb] at e; cases e
    | some v =>
      rw [ha, hb] at e
      simp only [Option.map_some, Option.some.injEq] at e
      rw [clrB_of_ne d u (by rw [getDup_did ha]; exact hx), clrB_of_ne d v (by rw [getDup_did hb]; exact hx)] at e
      rw [e]

theorem Rel.getDup_some {d : Nat} {a b : PS} (h : Rel d a b) {x : Nat} {v : DupBuild}
    (hb : b.getDup x = some v) :
    ∃ u, a.getDup x = some u ∧ u.members = v.members ∧ u.pgid = v.pgid ∧ clrB d u = clrB d v := by
  have e := h.getDup x
  cases ha : a.getDup x with
  | none => rw [ha, hb] at e; cases e
  | some u =>
    rw [ha, hb] at e
    simp only [Option.map_some, Option.some.injEq] at e
    refine ⟨u, rfl, ?_, ?_, e⟩
    · rw [← clrB_members d u, e, clrB_members]
    · rw [← clrB_pgid d u, e, clrB_pgid]

theorem Rel.symm {d : Nat} {a b : PS} (h : Rel d a b) : Rel d b a :=
  ⟨h.inpg.symm, h.cur.symm, h.next.symm, h.reg.symm, h.ds.symm⟩

theorem Rel.trans {d : Nat} {a b c : PS} (h : Rel d a b) (h' : Rel d b c) : Rel d a c :=
  ⟨h.inpg.trans h'.inpg, h.cur.trans h'.cur, h.next.trans h'.next, h.reg.trans h'.reg, h.ds.trans h'.ds⟩

/-- modifying the same duplication on both sides by a function that does not look at `mrca` -/
theorem Rel.modDup {d : Nat} {a b : PS} (h : Rel d a b) (x : Nat) (f : DupBuild → DupBuild)
    (hf : ∀ u, u.did = x → clrB d (f u) = f (clrB d u)) :
    Rel d (a.modDup x f) (b.modDup x f) := by
  refine ⟨h.inpg, h.cur, h.next, h.reg, ?_⟩
  have key : ∀ l : List DupBuild,
      (l.map fun u => if u.did == x then f u else u).map (clrB d) =
      (l.map (clrB d)).map fun u => if u.did == x then f u else u := by
    intro l
    simp only [List.map_map]
    apply List.map_congr_left
    intro u _
    simp only [Function.comp, clrB_did]
    split
    · rename_i hu; exact hf u (by simpa using hu)
    · rfl
  simp only [PS.modDup]
  rw [key, key, h.ds]

/-- writing the `mrca` of `d` (on either side) is invisible -/
theorem Rel.setm_left {d : Nat} {a b : PS} (h : Rel d a b) (m : Option Taxon) :
    Rel d (a.modDup d fun u => { u with mrca := m }) b := by
  refine ⟨h.inpg, h.cur, h.next, h.reg, ?_⟩
  simp only [PS.modDup]
  rw [← h.ds, List.map_map]
  apply List.map_congr_left
  intro u _
  simp only [Function.comp]
  split
  · rename_i hu; exact clrB_setm d u (by simpa using hu) m
  · rfl

theorem Rel.setm {d : Nat} {a b : PS} (h : Rel d a b) (m m' : Option Taxon) :
    Rel d (a.modDup d fun u => { u with mrca := m }) (b.modDup d fun u => { u with mrca := m' }) :=
  ((h.setm_left m).symm.setm_left m').symm

/-- after the same `mrca` has been written on both sides the stores agree -/
theorem Rel.setm_eq {d : Nat} {a b : PS} (h : Rel d a b) (m : Option Taxon) :
    (a.modDup d fun u => { u with mrca := m }).dstore = (b.modDup d fun u => { u with mrca := m }).dstore := by
  have key : ∀ l : List DupBuild,
      (l.map fun u => if u.did == d then ({ u with mrca := m } : DupBuild) else u) =
      (l.map (clrB d)).map fun u => if u.did == d then ({ u with mrca := m } : DupBuild) else u := by
    intro l
    simp only [List.map_map]
    apply List.map_congr_left
    intro u _
    simp only [Function.comp, clrB_did]
    split
    · rename_i hu
      have : u.did = d := by simpa using hu
      simp [clrB, this]
    · rename_i hu
      have : u.did ≠ d := by simpa using hu
      rw [clrB_of_ne d u this]
  simp only [PS.modDup]
  rw [key a.dstore, key b.dstore, h.ds]

def NoD (d : Nat) (kids : List Node) : Prop := ∀ k ∈ kids, k.dup ≠ some d

theorem NoD.append {d : Nat} {a b : List Node} (ha : NoD d a) (hb : NoD d b) : NoD d (a ++ b) := by
  intro k hk
  rcases List.mem_append.mp hk with h | h
  · exact ha k h
  · exact hb k h

end NP
namespace NP

/-! ### functions that only use the counter and the registration log -/

/-- only `next` and `reg` changed -/
structure NR (ps ps' : PS) : Prop where
  pstack : ps'.pstack = ps.pstack
  inpg : ps'.inPG = ps.inPG
  cur : ps'.cur = ps.cur
  dstore : ps'.dstore = ps.dstore
  next : ps.next ≤ ps'.next

def rep (q ps' : PS) : PS := { q with next := ps'.next, reg := ps'.reg }

theorem addMissing_replay (hid : Option String) : (ts : List Taxon) → (n : Node) → (ps : PS) →
    (top : Node) → (ps' : PS) → addMissing hid n ts ps = .ok (top, ps') →
    NR ps ps' ∧ ∀ q : PS, q.next = ps.next → q.reg = ps.reg → addMissing hid n ts q = .ok (top, rep q ps')
  | [], n, ps, top, ps', h => by
    simp only [addMissing, Except.ok.injEq, Prod.mk.injEq] at h
    obtain ⟨rfl, rfl⟩ := h
    refine ⟨⟨rfl, rfl, rfl, rfl, Nat.le_refl _⟩, ?_⟩
    intro q h1 h2
    simp only [addMissing, rep]
    rw [← h1, ← h2]
  | t :: ts, n, ps, top, ps', h => by
    simp only [addMissing] at h
    split at h
    · cases h
    · rename_i hup
      obtain ⟨i1, i2⟩ := addMissing_replay hid ts _ _ _ _ h
      refine ⟨⟨i1.pstack, i1.inpg, i1.cur, i1.dstore, ?_⟩, ?_⟩
      · have := i1.next; simp only [PS.register] at this; omega
      · intro q h1 h2
        simp only [addMissing, hup]
        rw [h1]
        have := i2 (({ q with next := ps.next + 1 } : PS).register t (.h ps.next)) rfl
          (by simp only [PS.register]; rw [h2])
        exact this

theorem rehomeUnder_replay (hid : Option String) (mrcaTx : Taxon) : (cs kids mk : List Node) → (ps : PS) →
    (r1 r2 : List Node) → (ps' : PS) → rehomeUnder hid mrcaTx cs kids mk ps = .ok (r1, r2, ps') →
    NR ps ps' ∧ ∀ q : PS, q.next = ps.next → q.reg = ps.reg →
      rehomeUnder hid mrcaTx cs kids mk q = .ok (r1, r2, rep q ps')
  | [], kids, mk, ps, r1, r2, ps', h => by
    simp only [rehomeUnder, Except.ok.injEq, Prod.mk.injEq] at h
    obtain ⟨rfl, rfl, rfl⟩ := h
    refine ⟨⟨rfl, rfl, rfl, rfl, Nat.le_refl _⟩, ?_⟩
    intro q h1 h2
    simp only [rehomeUnder, rep]
    rw [← h1, ← h2]
  | c :: cs, kids, mk, ps, r1, r2, ps', h => by
    simp only [rehomeUnder, bind, Except.bind] at h
    split at h
    · cases h
    · rename_i v hv
      obtain ⟨top, ps1⟩ := v
      obtain ⟨i1, i2⟩ := addMissing_replay _ _ _ _ _ _ hv
      obtain ⟨j1, j2⟩ := rehomeUnder_replay hid mrcaTx cs _ _ _ _ _ _ h
      refine ⟨⟨j1.pstack.trans i1.pstack, j1.inpg.trans i1.inpg, j1.cur.trans i1.cur,
        j1.dstore.trans i1.dstore, Nat.le_trans i1.next j1.next⟩, ?_⟩
      intro q h1 h2
      simp only [rehomeUnder, bind, Except.bind, i2 q h1 h2]
      exact j2 (rep q ps1) rfl rfl

theorem rehomeDirect_replay (hid : Option String) (level : Taxon) (d : Nat) : (cs kids : List Node) →
    (mem : List Key) → (ps : PS) → (r1 : List Node) → (r2 : List Key) → (ps' : PS) →
    rehomeDirect hid level d cs kids mem ps = .ok (r1, r2, ps') →
    NR ps ps' ∧ ∀ q : PS, q.next = ps.next → q.reg = ps.reg →
      rehomeDirect hid level d cs kids mem q = .ok (r1, r2, rep q ps')
  | [], kids, mem, ps, r1, r2, ps', h => by
    simp only [rehomeDirect, Except.ok.injEq, Prod.mk.injEq] at h
    obtain ⟨rfl, rfl, rfl⟩ := h
    refine ⟨⟨rfl, rfl, rfl, rfl, Nat.le_refl _⟩, ?_⟩
    intro q h1 h2
    simp only [rehomeDirect, rep]
    rw [← h1, ← h2]
  | c :: cs, kids, mem, ps, r1, r2, ps', h => by
    simp only [rehomeDirect, bind, Except.bind] at h
    split at h
    · cases h
    · rename_i v hv
      obtain ⟨top, ps1⟩ := v
      obtain ⟨i1, i2⟩ := addMissing_replay _ _ _ _ _ _ hv
      split at h
      · cases h
      · rename_i hc
        obtain ⟨j1, j2⟩ := rehomeDirect_replay hid level d cs _ _ _ _ _ _ h
        refine ⟨⟨j1.pstack.trans i1.pstack, j1.inpg.trans i1.inpg, j1.cur.trans i1.cur,
          j1.dstore.trans i1.dstore, Nat.le_trans i1.next j1.next⟩, ?_⟩
        intro q h1 h2
        simp only [rehomeDirect, bind, Except.bind, i2 q h1 h2, hc]
        exact j2 (rep q ps1) rfl rfl

theorem genericPass_replay (hid : Option String) (level : Taxon) : (cs kids : List Node) → (ps : PS) →
    (r1 : List Node) → (ps' : PS) → genericPass hid level cs kids ps = .ok (r1, ps') →
    NR ps ps' ∧ ∀ q : PS, q.next = ps.next → q.reg = ps.reg →
      genericPass hid level cs kids q = .ok (r1, rep q ps')
  | [], kids, ps, r1, ps', h => by
    simp only [genericPass, Except.ok.injEq, Prod.mk.injEq] at h
    obtain ⟨rfl, rfl⟩ := h
    refine ⟨⟨rfl, rfl, rfl, rfl, Nat.le_refl _⟩, ?_⟩
    intro q h1 h2
    simp only [genericPass, rep]
    rw [← h1, ← h2]
  | c :: cs, kids, ps, r1, ps', h => by
    simp only [genericPass, bind, Except.bind] at h
    split at h
    · cases h
    · rename_i v hv
      obtain ⟨top, ps1⟩ := v
      obtain ⟨i1, i2⟩ := addMissing_replay _ _ _ _ _ _ hv
      obtain ⟨j1, j2⟩ := genericPass_replay hid level cs _ _ _ _ h
      refine ⟨⟨j1.pstack.trans i1.pstack, j1.inpg.trans i1.inpg, j1.cur.trans i1.cur,
        j1.dstore.trans i1.dstore, Nat.le_trans i1.next j1.next⟩, ?_⟩
      intro q h1 h2
      simp only [genericPass, bind, Except.bind, i2 q h1 h2]
      exact j2 (rep q ps1) rfl rfl

end NP
namespace NP

/-! ### closing an orthologGroup -/

theorem liftLevel_rel {d : Nat} {a b : PS} (hr : Rel d a b) : (kids : List Node) → (lv : Taxon) →
    NoD d kids → liftLevel a kids lv = liftLevel b kids lv
  | [], lv, _ => rfl
  | k :: ks, lv, hn => by
    have hn' : NoD d ks := fun k' hk' => hn k' (List.mem_cons_of_mem _ hk')
    simp only [liftLevel]
    cases hk : k.dup with
    | none => simp only []; exact liftLevel_rel hr ks lv hn'
    | some x =>
      have hx : x ≠ d := fun e => hn k (List.mem_cons_self ..) (by rw [hk, e])
      simp only [hr.getDup_ne hx]
      split
      · rfl
      · split
        · rfl
        · exact liftLevel_rel hr ks _ hn'

/-- frames kept, counter grows, the same duplications are stored -/
structure FrC (ps ps' : PS) : Prop where
  pstack : ps'.pstack = ps.pstack
  inpg : ps'.inPG = ps.inPG
  cur : ps'.cur = ps.cur
  next : ps.next ≤ ps'.next
  dids : ps'.dstore.map (·.did) = ps.dstore.map (·.did)

theorem FrC.refl (ps : PS) : FrC ps ps := ⟨rfl, rfl, rfl, Nat.le_refl _, rfl⟩
theorem FrC.trans {a b c : PS} (h1 : FrC a b) (h2 : FrC b c) : FrC a c :=
  ⟨h2.pstack.trans h1.pstack, h2.inpg.trans h1.inpg, h2.cur.trans h1.cur, Nat.le_trans h1.next h2.next,
    h2.dids.trans h1.dids⟩
theorem NR.toFrC {a b : PS} (h : NR a b) : FrC a b := ⟨h.pstack, h.inpg, h.cur, h.next, by rw [h.dstore]⟩

theorem NR.eq_rep {ps ps' : PS} (h : NR ps ps') : ps' = rep ps ps' := by
  obtain ⟨h1, h2, h3, h4, _⟩ := h
  cases ps; cases ps'
  simp only at h1 h2 h3 h4
  subst h1 h2 h3 h4
  rfl

def setMem (X : List Key) (u : DupBuild) : DupBuild := { u with members := X }

theorem modDup_dids (ps : PS) (x : Nat) (f : DupBuild → DupBuild) (hf : ∀ u, (f u).did = u.did) :
    (ps.modDup x f).dstore.map (·.did) = ps.dstore.map (·.did) := by
  simp only [PS.modDup, List.map_map]
  apply List.map_congr_left
  intro u _
  simp only [Function.comp]
  split
  · exact hf u
  · rfl

theorem clrB_setMem (d : Nat) (X : List Key) (u : DupBuild) : clrB d (setMem X u) = setMem X (clrB d u) := by
  unfold clrB setMem
  split <;> rfl

theorem dupStep_shape (hid : Option String) (level : Taxon) (st : CloseSt) (x : Nat) (st' : CloseSt)
    (h : dupStep hid level st x = .ok st') :
    ∃ bx X p', st.ps.getDup x = some bx ∧ st.ps.next ≤ p'.next ∧
      st'.ps = rep (st.ps.modDup x (setMem X)) p' ∧
      ∀ q : PS, q.next = st.ps.next → q.reg = st.ps.reg → q.getDup x = some bx →
        dupStep hid level ⟨st.kids, st.dups, q⟩ x =
          .ok ⟨st'.kids, st'.dups, rep (q.modDup x (setMem X)) p'⟩ := by
  simp only [dupStep, bind, Except.bind] at h
  split at h
  · rename_i b hgd
    split at h
    · rename_i mrcaTx hm
      split at h
      · cases h
      · rename_i hsk
        split at h
        · rename_i hne
          split at h
          · cases h
          · rename_i v hr
            obtain ⟨k1, m1, p1⟩ := v
            simp only [Except.ok.injEq] at h
            subst h
            obtain ⟨i1, i2⟩ := rehomeUnder_replay _ _ _ _ _ _ _ _ _ hr
            have e := i1.eq_rep
            refine ⟨b, List.map Node.key (List.map (Node.setDup (some x)) m1), p1, hgd, ?_, ?_, ?_⟩
            · have := i1.next; simp only [PS.register] at this; omega
            · show p1.modDup x (setMem _) = _
              conv => lhs; rw [e]
              rfl
            · intro q h1 h2 h3
              simp only [dupStep, bind, Except.bind, h3, hm, hsk, hne]
              have := i2 (({ q with next := q.next + 1 } : PS).register mrcaTx (.h q.next))
                (by simp only [PS.register]; rw [h1]) (by simp only [PS.register]; rw [h1, h2])
              rw [h1] at this ⊢
              simp only [Bool.false_eq_true, if_false, if_true, this]
              rfl
        · rename_i hne
          split at h
          · cases h
          · rename_i v hr
            obtain ⟨k1, m1, p1⟩ := v
            simp only [Except.ok.injEq] at h
            subst h
            obtain ⟨i1, i2⟩ := rehomeDirect_replay _ _ _ _ _ _ _ _ _ _ hr
            have e := i1.eq_rep
            refine ⟨b, m1, p1, hgd, i1.next, ?_, ?_⟩
            · show p1.modDup x (setMem _) = _
              conv => lhs; rw [e]
              rfl
            intro q h1 h2 h3
            simp only [dupStep, bind, Except.bind, h3, hm, hsk, hne]
            simp only [Bool.false_eq_true, if_false, i2 q h1 h2]
            rfl
    · cases h
  · cases h

end NP
namespace NP

theorem getDup_modDup_ne (ps : PS) (x y : Nat) (f : DupBuild → DupBuild) (hf : ∀ u, (f u).did = u.did)
    (hxy : x ≠ y) : (ps.modDup x f).getDup y = ps.getDup y := by
  simp only [PS.getDup, PS.modDup]
  induction ps.dstore with
  | nil => rfl
  | cons u us ih =>
    have hg : (if u.did == x then f u else u).did = u.did := by split; exact hf u; rfl
    simp only [List.map_cons, List.find?_cons, hg]
    cases hy : u.did == y with
    | true =>
      have hy' : u.did = y := by simpa using hy
      have : (u.did == x) = false := by
        simp only [beq_eq_false_iff_ne, ne_eq]; rw [hy']; exact fun e => hxy e.symm
      simp only [this, Bool.false_eq_true, if_false]
    | false => exact ih

theorem setMem_did (X : List Key) (u : DupBuild) : (setMem X u).did = u.did := rfl

theorem Rel.rep {d : Nat} {a b : PS} (h : Rel d a b) (p : PS) : Rel d (rep a p) (rep b p) :=
  ⟨h.inpg, h.cur, rfl, rfl, h.ds⟩

theorem dupStep_fr (hid : Option String) (level : Taxon) (st : CloseSt) (x : Nat) (st' : CloseSt)
    (h : dupStep hid level st x = .ok st') : FrC st.ps st'.ps := by
  obtain ⟨bx, X, p', _, h2, h3, _⟩ := dupStep_shape hid level st x st' h
  rw [h3]
  exact ⟨rfl, rfl, rfl, h2, modDup_dids _ _ _ (setMem_did X)⟩

theorem dupStep_sim {d : Nat} (hid : Option String) (level : Taxon) (kids : List Node) (dups : List DupRec)
    (a b : PS) (x : Nat) (st' : CloseSt) (hr : Rel d a b) (hx : x ≠ d)
    (h : dupStep hid level ⟨kids, dups, b⟩ x = .ok st') :
    ∃ a', dupStep hid level ⟨kids, dups, a⟩ x = .ok ⟨st'.kids, st'.dups, a'⟩ ∧ Rel d a' st'.ps ∧
      st'.ps.getDup d = b.getDup d := by
  obtain ⟨bx, X, p', h1, _, h3, h4⟩ := dupStep_shape hid level _ x st' h
  refine ⟨_, h4 a hr.next hr.reg (by rw [hr.getDup_ne hx]; exact h1), ?_, ?_⟩
  · rw [h3]
    exact (hr.modDup x (setMem X) (fun u _ => clrB_setMem d X u)).rep p'
  · rw [h3]
    exact getDup_modDup_ne _ _ _ _ (setMem_did X) hx

theorem dupSteps_fr (hid : Option String) (level : Taxon) : (ds : List Nat) → (st st' : CloseSt) →
    dupSteps hid level ds st = .ok st' → FrC st.ps st'.ps
  | [], st, st', h => by
    simp only [dupSteps, Except.ok.injEq] at h
    subst h; exact FrC.refl _
  | x :: ds, st, st', h => by
    simp only [dupSteps, bind, Except.bind] at h
    split at h
    · cases h
    · rename_i st1 h1
      exact (dupStep_fr _ _ _ _ _ h1).trans (dupSteps_fr hid level ds st1 st' h)

theorem dupSteps_sim {d : Nat} (hid : Option String) (level : Taxon) : (ds : List Nat) →
    (kids : List Node) → (dups : List DupRec) → (a b : PS) → (st' : CloseSt) → Rel d a b →
    (∀ x ∈ ds, x ≠ d) → dupSteps hid level ds ⟨kids, dups, b⟩ = .ok st' →
    ∃ a', dupSteps hid level ds ⟨kids, dups, a⟩ = .ok ⟨st'.kids, st'.dups, a'⟩ ∧ Rel d a' st'.ps ∧
      st'.ps.getDup d = b.getDup d
  | [], kids, dups, a, b, st', hr, _, h => by
    simp only [dupSteps, Except.ok.injEq] at h
    subst h
    exact ⟨a, rfl, hr, rfl⟩
  | x :: ds, kids, dups, a, b, st', hr, hx, h => by
    simp only [dupSteps, bind, Except.bind] at h
    split at h
    · cases h
    · rename_i st1 h1
      obtain ⟨a1, e1, r1, g1⟩ := dupStep_sim hid level kids dups a b x st1 hr (hx x (List.mem_cons_self ..)) h1
      obtain ⟨a2, e2, r2, g2⟩ := dupSteps_sim hid level ds st1.kids st1.dups a1 st1.ps st' r1
        (fun y hy => hx y (List.mem_cons_of_mem _ hy)) h
      refine ⟨a2, ?_, r2, g2.trans g1⟩
      simp only [dupSteps, bind, Except.bind, e1]
      exact e2

def TRnone (hb : HogBuild) : Prop := hb.info.props.lookup "TaxRange" = none

theorem inferLevel_noTR (env : Env) (hb : HogBuild) (ht : TRnone hb) (lv : Level)
    (h : inferLevel env hb = .ok lv) : ∃ t, lv = .at t := by
  unfold TRnone at ht
  simp only [inferLevel, ht] at h
  split at h
  · simp only [Bool.false_eq_true, if_false] at h
    split at h
    · cases h
    · cases h; exact ⟨_, rfl⟩
  · cases h
  · cases h; exact ⟨_, rfl⟩

theorem mem_dupGroups {kids : List Node} {x : Nat} (h : x ∈ dupGroups kids) : ∃ k ∈ kids, k.dup = some x := by
  unfold dupGroups at h
  rw [mem_dedup] at h
  simpa [List.mem_filterMap] using h

theorem closeOg_fr (env : Env) (top : Bool) (hb : HogBuild) (ps : PS) (res : List Node) (ps' : PS)
    (ht : TRnone hb) (h : closeOg env top hb ps = .ok (res, ps')) :
    FrC ps ps' ∧ ∃ level kids dups, res = [Node.hog hb.info level hb.dup kids dups] := by
  simp only [closeOg, bind, Except.bind] at h
  split at h
  · cases h
  · rename_i lv hlv
    obtain ⟨lv0, rfl⟩ := inferLevel_noTR env hb ht lv hlv
    simp only at h
    split at h
    · cases h
    · rename_i level hl
      split at h
      · cases h
      · rename_i st hst
        split at h
        · cases h
        · rename_i v hg
          obtain ⟨kids, ps2⟩ := v
          simp only [Except.ok.injEq, Prod.mk.injEq] at h
          obtain ⟨rfl, rfl⟩ := h
          have f1 := dupSteps_fr _ _ _ _ _ hst
          have f2 := (genericPass_replay _ _ _ _ _ _ _ hg).1.toFrC
          have f0 : FrC ps (ps.register level (.h hb.info.uid)) := ⟨rfl, rfl, rfl, Nat.le_refl _, rfl⟩
          exact ⟨(f0.trans f1).trans f2, _, _, _, rfl⟩

theorem closeOg_sim {d : Nat} (env : Env) (top : Bool) (hb : HogBuild) (a b : PS) (res : List Node) (b' : PS)
    (hr : Rel d a b) (hn : NoD d hb.kids) (ht : TRnone hb)
    (h : closeOg env top hb b = .ok (res, b')) :
    ∃ a', closeOg env top hb a = .ok (res, a') ∧ Rel d a' b' ∧ b'.getDup d = b.getDup d := by
  simp only [closeOg, bind, Except.bind] at h
  split at h
  · cases h
  · rename_i lv hlv
    obtain ⟨lv0, rfl⟩ := inferLevel_noTR env hb ht lv hlv
    simp only at h
    split at h
    · cases h
    · rename_i level hl
      split at h
      · cases h
      · rename_i st hst
        split at h
        · cases h
        · rename_i v hg
          obtain ⟨kids, ps2⟩ := v
          simp only [Except.ok.injEq, Prod.mk.injEq] at h
          obtain ⟨rfl, rfl⟩ := h
          have hr1 : Rel d (a.register level (.h hb.info.uid)) (b.register level (.h hb.info.uid)) :=
            ⟨hr.inpg, hr.cur, hr.next, by simp only [PS.register]; rw [hr.reg], hr.ds⟩
          obtain ⟨a2, e2, r2, g2⟩ := dupSteps_sim hb.info.hid level (dupGroups hb.kids) hb.kids [] _ _ st hr1
            (fun x hx => by
              obtain ⟨k, hk, hkd⟩ := mem_dupGroups hx
              intro e; exact hn k hk (by rw [hkd, e])) hst
          obtain ⟨i1, i2⟩ := genericPass_replay _ _ _ _ _ _ _ hg
          refine ⟨rep a2 ps2, ?_, ?_, ?_⟩
          · simp only [closeOg, bind, Except.bind, hlv, liftLevel_rel hr hb.kids lv0 hn, hl, e2,
              i2 a2 r2.next r2.reg]
          · have := r2.rep ps2
            rw [← i1.eq_rep] at this
            exact this
          · have : ps2.getDup d = st.ps.getDup d := by unfold PS.getDup; rw [i1.dstore]
            rw [this, g2]; rfl

end NP
namespace NP

/-! ### MRCA of a part of the members -/

theorem foldl_mrca2_suffix_init : (ts : List Taxon) → (t : Taxon) → ts.foldl mrca2 t <:+ t
  | [], t => List.suffix_refl _
  | x :: xs, t => by
    simp only [List.foldl_cons]
    exact (foldl_mrca2_suffix_init xs _).trans (mrca2_suffix_left t x)

theorem foldl_mrca2_suffix_mem : (ts : List Taxon) → (t x : Taxon) → x ∈ ts → ts.foldl mrca2 t <:+ x
  | [], _, _, h => by cases h
  | y :: ys, t, x, h => by
    simp only [List.foldl_cons]
    rcases List.mem_cons.mp h with rfl | h'
    · exact (foldl_mrca2_suffix_init ys _).trans (mrca2_suffix_right t x)
    · exact foldl_mrca2_suffix_mem ys _ x h'

theorem foldl_mrca2_greatest (c : Taxon) : (ts : List Taxon) → (t : Taxon) → c <:+ t →
    (∀ x ∈ ts, c <:+ x) → c <:+ ts.foldl mrca2 t
  | [], _, h, _ => h
  | y :: ys, t, h, hs => by
    simp only [List.foldl_cons]
    exact foldl_mrca2_greatest c ys _ (mrca2_greatest t y c h (hs y (List.mem_cons_self ..)))
      (fun x hx => hs x (List.mem_cons_of_mem _ hx))

theorem mrca_suffix_mem (ts : List Taxon) (t : Taxon) (h : t ∈ ts) : mrca ts <:+ t := by
  cases ts with
  | nil => cases h
  | cons y ys =>
    simp only [mrca]
    rcases List.mem_cons.mp h with rfl | h'
    · exact foldl_mrca2_suffix_init ys _
    · exact foldl_mrca2_suffix_mem ys _ t h'

theorem mrca_greatest (c : Taxon) (ts : List Taxon) (hne : ts ≠ []) (h : ∀ t ∈ ts, c <:+ t) : c <:+ mrca ts := by
  cases ts with
  | nil => exact absurd rfl hne
  | cons y ys =>
    simp only [mrca]
    exact foldl_mrca2_greatest c ys y (h y (List.mem_cons_self ..)) (fun x hx => h x (List.mem_cons_of_mem _ hx))

theorem up_isSome_of_suffix {c t : Taxon} (hc : c ≠ []) (h : c <:+ t) : ∃ u, t.up = some u := by
  cases t with
  | nil => exact absurd (List.suffix_nil.mp h) hc
  | cons i p => exact ⟨p, rfl⟩

def memTaxa (kids : List Node) (M : List Key) : Option (List Taxon) :=
  M.mapM (fun k => (findKey k kids).map Node.tx)

def mrcaOf (taxa : List Taxon) : Option Taxon :=
  match dedup taxa with
  | [] => none
  | [t] => t.up
  | ts => (mrca ts).up

def taxaOk (taxa : List Taxon) : Prop := taxa ≠ [] ∧ ∃ c : Taxon, c ≠ [] ∧ ∀ t ∈ taxa, c <:+ t

theorem mrcaOf_of_ok (taxa : List Taxon) (h : taxaOk taxa) : ∃ u, mrcaOf taxa = some u := by
  obtain ⟨hne, c, hc, hall⟩ := h
  unfold mrcaOf
  have hd := dedup_ne_nil taxa hne
  split
  · rename_i e; exact absurd e hd
  · rename_i t e
    have : t ∈ taxa := by rw [← mem_dedup, e]; simp
    exact up_isSome_of_suffix hc (hall t this)
  · rename_i ts _ _
    have : c <:+ mrca (dedup taxa) := mrca_greatest c _ hd (fun t ht => hall t ((mem_dedup t taxa).mp ht))
    exact up_isSome_of_suffix hc this

theorem ok_of_mrcaOf (taxa : List Taxon) (u : Taxon) (h : mrcaOf taxa = some u) : taxaOk taxa := by
  unfold mrcaOf at h
  split at h
  · cases h
  · rename_i t e
    have hne : taxa ≠ [] := by intro e'; rw [e'] at e; simp [dedup] at e
    refine ⟨hne, t, ?_, ?_⟩
    · intro e'; rw [e'] at h; cases h
    · intro t' ht'
      have : t' ∈ dedup taxa := (mem_dedup t' taxa).mpr ht'
      rw [e] at this
      simp only [List.mem_singleton] at this
      rw [this]; exact List.suffix_refl _
  · rename_i ts _ _
    have hne : taxa ≠ [] := by
      intro e'; rw [e'] at h; simp [dedup, mrca, Taxon.up] at h
    refine ⟨hne, mrca (dedup taxa), ?_, ?_⟩
    · intro e'; rw [e'] at h; cases h
    · intro t' ht'
      exact mrca_suffix_mem _ t' ((mem_dedup t' taxa).mpr ht')

def setMr (m : Option Taxon) (u : DupBuild) : DupBuild := { u with mrca := m }

theorem setMr_did (m : Option Taxon) (u : DupBuild) : (setMr m u).did = u.did := rfl

theorem setMRCA_eval (kids : List Node) (ps : PS) (x : Nat) (bx : DupBuild) (taxa : List Taxon)
    (h1 : ps.getDup x = some bx) (h2 : memTaxa kids bx.members = some taxa) :
    setMRCA kids ps x =
      match mrcaOf taxa with
      | some u => .ok (ps.modDup x (setMr (some u)))
      | none => (match dedup taxa with | [] => .error .index | _ => .error .attr) := by
  unfold memTaxa at h2
  simp only [setMRCA, h1, h2, mrcaOf]
  generalize dedup taxa = L
  rcases L with _ | ⟨t, _ | ⟨t2, ts⟩⟩
  · rfl
  · simp only []
    cases ht : t.up with
    | none => rfl
    | some u => rfl
  · simp only []
    cases ht : (mrca (t :: t2 :: ts)).up with
    | none => rfl
    | some u => rfl

theorem setMRCA_good (kids : List Node) (ps : PS) (x : Nat) (ps' : PS) (h : setMRCA kids ps x = .ok ps') :
    ∃ bx taxa u, ps.getDup x = some bx ∧ memTaxa kids bx.members = some taxa ∧ mrcaOf taxa = some u ∧
      ps' = ps.modDup x (setMr (some u)) := by
  cases h1 : ps.getDup x with
  | none => simp [setMRCA, h1] at h
  | some bx =>
    cases h2 : memTaxa kids bx.members with
    | none => unfold memTaxa at h2; simp [setMRCA, h1, h2] at h
    | some taxa =>
      rw [setMRCA_eval kids ps x bx taxa h1 h2] at h
      cases h3 : mrcaOf taxa with
      | none => rw [h3] at h; simp only at h; split at h <;> cases h
      | some u =>
        rw [h3] at h
        simp only [Except.ok.injEq] at h
        exact ⟨bx, taxa, u, rfl, h2, h3, h.symm⟩

end NP
namespace NP

theorem findKey_append_of_some (k : Key) (kids K2 : List Node) (h : (findKey k kids).isSome) :
    findKey k (kids ++ K2) = findKey k kids := by
  unfold findKey at *
  rw [List.find?_append]
  cases hf : List.find? (fun x => x.key == k) kids with
  | none => rw [hf] at h; cases h
  | some v => rfl

theorem memTaxa_nil (kids : List Node) : memTaxa kids [] = some [] := rfl

theorem memTaxa_cons (kids : List Node) (k : Key) (M : List Key) :
    memTaxa kids (k :: M) =
      match (findKey k kids).map Node.tx with
      | none => none
      | some t => match memTaxa kids M with
        | none => none
        | some ts => some (t :: ts) := by
  simp only [memTaxa, List.mapM_cons]
  cases (findKey k kids).map Node.tx with
  | none => rfl
  | some t =>
    simp only [Option.bind_eq_bind, Option.bind_some]
    cases List.mapM (fun k => Option.map Node.tx (findKey k kids)) M with
    | none => rfl
    | some ts => rfl

theorem memTaxa_part (kids K2 : List Node) (M2 : List Key) : (M : List Key) → (taxa : List Taxon) →
    memTaxa (kids ++ K2) (M ++ M2) = some taxa → (∀ k ∈ M, (findKey k kids).isSome) →
    ∃ t1 t2, taxa = t1 ++ t2 ∧ memTaxa kids M = some t1 ∧ (M ≠ [] → t1 ≠ [])
  | [], taxa, _, _ => ⟨[], taxa, rfl, rfl, fun h => absurd rfl h⟩
  | k :: M, taxa, h, hm => by
    rw [List.cons_append, memTaxa_cons] at h
    rw [findKey_append_of_some k kids K2 (hm k (List.mem_cons_self ..))] at h
    rw [memTaxa_cons]
    cases hk : (findKey k kids).map Node.tx with
    | none => rw [hk] at h; cases h
    | some t =>
      rw [hk] at h
      simp only at h ⊢
      cases hr : memTaxa (kids ++ K2) (M ++ M2) with
      | none => rw [hr] at h; cases h
      | some ts =>
        rw [hr] at h
        simp only [Option.some.injEq] at h
        obtain ⟨t1, t2, e1, e2, _⟩ := memTaxa_part kids K2 M2 M ts hr (fun k' hk' => hm k' (List.mem_cons_of_mem _ hk'))
        refine ⟨t :: t1, t2, ?_, ?_, fun _ => by simp⟩
        · rw [← h, e1]; rfl
        · rw [e2]

theorem partial_ok (kids K2 : List Node) (M M2 : List Key) (taxa : List Taxon)
    (h : memTaxa (kids ++ K2) (M ++ M2) = some taxa) (hok : taxaOk taxa)
    (hm : ∀ k ∈ M, (findKey k kids).isSome) (hne : M ≠ []) :
    ∃ t1, memTaxa kids M = some t1 ∧ taxaOk t1 := by
  obtain ⟨t1, t2, e1, e2, e3⟩ := memTaxa_part kids K2 M2 M taxa h hm
  obtain ⟨_, c, hc, hall⟩ := hok
  exact ⟨t1, e2, e3 hne, c, hc, fun t ht => hall t (by rw [e1]; exact List.mem_append_left _ ht)⟩

/-! ### opening and closing a paralogGroup -/

def closed (ps : PS) (fs : List PFrame) (x : Nat) (u : Taxon) : PS :=
  { (({ ps with pstack := fs } : PS).modDup x (setMr (some u))) with
      inPG := fs.head?.map (·.depth), cur := fs.head?.map (·.did) }

theorem pgClose_elim (kids : List Node) (ps ps' : PS) (h : pgClose kids ps = .ok ps') :
    ∃ f fs bx taxa u, ps.pstack = f :: fs ∧ ps.getDup f.did = some bx ∧ bx.members.length ≠ f.size ∧
      memTaxa kids bx.members = some taxa ∧ mrcaOf taxa = some u ∧ ps' = closed ps fs f.did u := by
  simp only [pgClose, bind, Except.bind] at h
  split at h
  · cases h
  · rename_i f fs hst
    split at h
    · rename_i bx hgd
      split at h
      · cases h
      · rename_i hlen
        split at h
        · cases h
        · rename_i v hv
          obtain ⟨bx', taxa, u, g1, g2, g3, g4⟩ := setMRCA_good _ _ _ _ hv
          have : bx' = bx := by
            have : ps.getDup f.did = some bx' := g1
            rw [hgd] at this; exact (Option.some.inj this).symm
          subst this
          refine ⟨f, fs, bx', taxa, u, hst, hgd, by simpa using hlen, g2, g3, ?_⟩
          subst g4
          cases fs with
          | nil => simp only [Except.ok.injEq] at h; rw [← h]; rfl
          | cons g gs => simp only [Except.ok.injEq] at h; rw [← h]; rfl
    · cases h

theorem pgClose_intro (kids : List Node) (ps : PS) (f : PFrame) (fs : List PFrame) (bx : DupBuild)
    (taxa : List Taxon) (u : Taxon) (hst : ps.pstack = f :: fs) (hgd : ps.getDup f.did = some bx)
    (hlen : bx.members.length ≠ f.size) (hm : memTaxa kids bx.members = some taxa)
    (hu : mrcaOf taxa = some u) : pgClose kids ps = .ok (closed ps fs f.did u) := by
  have hgd' : ({ ps with pstack := fs } : PS).getDup f.did = some bx := hgd
  have e := setMRCA_eval kids { ps with pstack := fs } f.did bx taxa hgd' hm
  rw [hu] at e
  simp only at e
  have hl : (bx.members.length == f.size) = false := by simpa using hlen
  simp only [pgClose, hst, bind, Except.bind, hgd, hl, e]
  cases fs with
  | nil => rfl
  | cons g gs => rfl

def pushed (ps : PS) (l did : Nat) : PS :=
  { ps with pstack := { depth := l, did := did,
                        size := (match ps.getDup did with | some b => b.members.length | none => 0) } :: ps.pstack,
            inPG := some l, cur := some did }

theorem pgOpen_reuse (l : Nat) (x : Option String) (ps : PS) (f : PFrame) (fs : List PFrame)
    (hst : ps.pstack = f :: fs) (hd : f.depth = l) : pgOpen l x ps = pushed ps l f.did := by
  simp only [pgOpen, hst, hd, beq_self_eq_true, if_true, pushed]
  rfl

theorem pgOpen_new (l : Nat) (x : Option String) (ps : PS)
    (h : ∀ f fs, ps.pstack = f :: fs → f.depth ≠ l) :
    pgOpen l x ps = pushed (newDup ps x).2 l ps.next := by
  cases hst : ps.pstack with
  | nil => simp only [pgOpen, hst, pushed, newDup]; rfl
  | cons f fs =>
    have : (f.depth == l) = false := by simpa using h f fs hst
    simp only [pgOpen, hst, this, pushed, newDup, Bool.false_eq_true, if_false]
    rfl

theorem Rel.pushed {d : Nat} {a b : PS} (h : Rel d a b) (l did : Nat) :
    Rel d (pushed a l did) (pushed b l did) ∧
    ∃ g : PFrame, g.depth = l ∧ g.did = did ∧ (pushed a l did).pstack = g :: a.pstack ∧
      (pushed b l did).pstack = g :: b.pstack := by
  refine ⟨⟨rfl, rfl, h.next, h.reg, h.ds⟩, ⟨l, did, _⟩, rfl, rfl, ?_, rfl⟩
  simp only [NP.pushed]
  have e := h.getDup did
  cases ha : a.getDup did with
  | none =>
    cases hb : b.getDup did with
    | none => rfl
    | some v => rw [ha, hb] at e; cases e
  | some u =>
    cases hb : b.getDup did with
    | none => rw [ha, hb] at e; cases e
    | some v =>
      obtain ⟨u', hu', hm, _⟩ := h.getDup_some hb
      rw [ha] at hu'; cases hu'
      simp only [hm]

theorem Rel.newDup {d : Nat} {a b : PS} (h : Rel d a b) (x : Option String) :
    Rel d (newDup a x).2 (newDup b x).2 := by
  refine ⟨h.inpg, h.cur, ?_, h.reg, ?_⟩
  · simp only [Pyham.newDup, h.next]
  · simp only [Pyham.newDup, List.map_append, h.ds, h.next]

end NP
mutual
/-- no `<property name="TaxRange">` anywhere: no orthologGroup is collapsed into its parent -/
def noTaxRange : Elem → Bool
  | .prop n _ => n != "TaxRange"
  | .og _ _ its => noTaxRangeL its
  | .pg _ its => noTaxRangeL its
  | _ => true
def noTaxRangeL : List Elem → Bool
  | [] => true
  | e :: es => noTaxRange e && noTaxRangeL es
end

/-- every stored duplication was allocated by the counter -/
def PS.Fresh (ps : PS) : Prop := ∀ b ∈ ps.dstore, b.did < ps.next

namespace NP

def ogFlag (len : Nat) (ps : PS) : Option Nat := if ps.inPG == some len then ps.cur else none

def ogOpen (len : Nat) (ps : PS) : PS :=
  match ogFlag len ps with
  | some d => ({ ps with next := ps.next + 1 } : PS).addMember d (.h ps.next)
  | none => { ps with next := ps.next + 1 }

/-- opening an orthologGroup, its items, closing it -/
def ogRun (env : Env) (top : Bool) (len : Nat) (hid og : Option String) (its : List Elem) (ps : PS) :
    Except Err (List Node × PS) :=
  match elems env (len + 1) its { info := newInfo ps.next hid og, dup := ogFlag len ps, kids := [] }
      (ogOpen len ps) with
  | .error e => .error e
  | .ok (nb, ps2) => closeOg env top nb ps2

theorem elem_og_eq (env : Env) (len : Nat) (hid og : Option String) (its : List Elem) (hb : HogBuild) (ps : PS) :
    elem env len (.og hid og its) hb ps =
      match ogRun env false len hid og its ps with
      | .error e => .error e
      | .ok (res, ps') => .ok ({ hb with kids := hb.kids ++ res }, ps') := by
  simp only [elem, ogRun, ogOpen, ogFlag, bind, Except.bind]
  generalize elems env (len + 1) its _ _ = R
  cases R with
  | error e => rfl
  | ok v =>
    obtain ⟨nb, ps2⟩ := v
    simp only
    cases closeOg env false nb ps2 with
    | error e => rfl
    | ok w => rfl

/-- `in_paralogGroup` / `paralogyNode` describe the innermost open paralogGroup -/
def Sync (ps : PS) : Prop :=
  ps.inPG = ps.pstack.head?.map (·.depth) ∧ ps.cur = ps.pstack.head?.map (·.did)

structure Gen (ps ps' : PS) : Prop where
  pstack : ps'.pstack = ps.pstack
  next : ps.next ≤ ps'.next
  fresh : ps.Fresh → ps'.Fresh
  sync : Sync ps → Sync ps'

theorem Gen.refl (ps : PS) : Gen ps ps := ⟨rfl, Nat.le_refl _, id, id⟩
theorem Gen.trans {a b c : PS} (h1 : Gen a b) (h2 : Gen b c) : Gen a c :=
  ⟨h2.pstack.trans h1.pstack, Nat.le_trans h1.next h2.next, fun h => h2.fresh (h1.fresh h),
    fun h => h2.sync (h1.sync h)⟩

theorem sync_of_eq {a b : PS} (h1 : b.pstack = a.pstack) (h2 : b.inPG = a.inPG) (h3 : b.cur = a.cur)
    (h : Sync a) : Sync b := by
  unfold Sync at *; rw [h1, h2, h3]; exact h

theorem fresh_of_dids {ps ps' : PS} (hd : ps'.dstore.map (·.did) = ps.dstore.map (·.did))
    (hn : ps.next ≤ ps'.next) (h : ps.Fresh) : ps'.Fresh := by
  intro b hb
  have : b.did ∈ ps'.dstore.map (·.did) := List.mem_map_of_mem hb
  rw [hd] at this
  obtain ⟨b0, hb0, e⟩ := List.mem_map.mp this
  have := h b0 hb0
  omega

theorem FrC.toGen {a b : PS} (h : FrC a b) : Gen a b :=
  ⟨h.pstack, h.next, fresh_of_dids h.dids h.next, sync_of_eq h.pstack h.inpg h.cur⟩

theorem lookup_map_ne (k n v : String) (hn : n ≠ k) : (d : List (String × String)) →
    (d.map fun e => if e.1 == n then (n, v) else e).lookup k = d.lookup k
  | [] => rfl
  | (e1, e2) :: es => by
    simp only [List.map_cons]
    by_cases h1 : e1 = n
    · subst h1
      have : (k == e1) = false := by simpa using fun e => hn e.symm
      simp only [beq_self_eq_true, if_true, List.lookup_cons, this]
      exact lookup_map_ne k e1 v hn es
    · have : (e1 == n) = false := by simpa using h1
      simp only [this, Bool.false_eq_true, if_false, List.lookup_cons]
      cases k == e1 with
      | true => rfl
      | false => exact lookup_map_ne k n v hn es

theorem lookup_append_ne (k n v : String) (hn : n ≠ k) : (d : List (String × String)) →
    (d ++ [(n, v)]).lookup k = d.lookup k
  | [] => by
    have : (k == n) = false := by simpa using fun e => hn e.symm
    simp [List.lookup, this]
  | (e1, e2) :: es => by
    simp only [List.cons_append, List.lookup_cons]
    cases k == e1 with
    | true => rfl
    | false => exact lookup_append_ne k n v hn es

theorem lookup_dictSet_ne (k n v : String) (hn : n ≠ k) (d : List (String × String)) :
    (dictSet d n v).lookup k = d.lookup k := by
  unfold dictSet
  split
  · exact lookup_map_ne k n v hn d
  · exact lookup_append_ne k n v hn d

theorem pgOpen_cases (l : Nat) (x : Option String) (ps : PS) :
    (∃ f fs, ps.pstack = f :: fs ∧ f.depth = l ∧ pgOpen l x ps = pushed ps l f.did) ∨
    ((∀ f fs, ps.pstack = f :: fs → f.depth ≠ l) ∧ pgOpen l x ps = pushed (newDup ps x).2 l ps.next) := by
  by_cases hc : ∃ f fs, ps.pstack = f :: fs ∧ f.depth = l
  · obtain ⟨f, fs, h1, h2⟩ := hc
    exact Or.inl ⟨f, fs, h1, h2, pgOpen_reuse l x ps f fs h1 h2⟩
  · have : ∀ f fs, ps.pstack = f :: fs → f.depth ≠ l := fun f fs h1 h2 => hc ⟨f, fs, h1, h2⟩
    exact Or.inr ⟨this, pgOpen_new l x ps this⟩

theorem newDup_fresh (ps : PS) (x : Option String) (h : ps.Fresh) : (newDup ps x).2.Fresh := by
  intro b hb
  simp only [newDup, List.mem_append, List.mem_singleton] at hb ⊢
  rcases hb with hb | rfl
  · have := h b hb; omega
  · simp

theorem pgOpen_gen (l : Nat) (x : Option String) (ps : PS) :
    ∃ g, (pgOpen l x ps).pstack = g :: ps.pstack ∧ ps.next ≤ (pgOpen l x ps).next ∧
      (ps.Fresh → (pgOpen l x ps).Fresh) ∧ Sync (pgOpen l x ps) := by
  rcases pgOpen_cases l x ps with ⟨f, fs, _, _, e⟩ | ⟨_, e⟩
  · rw [e]; exact ⟨_, rfl, Nat.le_refl _, id, rfl, rfl⟩
  · rw [e]; exact ⟨_, rfl, Nat.le_succ _, fun h => newDup_fresh ps x h, rfl, rfl⟩

theorem closed_gen (ps : PS) (fs : List PFrame) (x : Nat) (u : Taxon) :
    (closed ps fs x u).pstack = fs ∧ (closed ps fs x u).next = ps.next ∧
      (ps.Fresh → (closed ps fs x u).Fresh) ∧ Sync (closed ps fs x u) := by
  refine ⟨rfl, rfl, ?_, rfl, rfl⟩
  intro h
  exact fresh_of_dids (ps := ps) (modDup_dids _ _ _ (setMr_did _)) (Nat.le_refl _) h

theorem addMember_dids (ps : PS) (x : Nat) (k : Key) :
    (ps.addMember x k).dstore.map (·.did) = ps.dstore.map (·.did) :=
  modDup_dids _ _ _ (fun _ => rfl)

theorem ogOpen_gen (len : Nat) (ps : PS) :
    Gen ps (ogOpen len ps) ∧ (ogOpen len ps).next = ps.next + 1 ∧ (ogOpen len ps).pstack = ps.pstack ∧
      (ogOpen len ps).inPG = ps.inPG ∧ (ogOpen len ps).cur = ps.cur := by
  unfold ogOpen
  split
  · exact ⟨⟨rfl, Nat.le_succ _, fun hf => fresh_of_dids (ps := ps) (addMember_dids _ _ _) (Nat.le_succ _) hf,
      fun h => h⟩, rfl, rfl, rfl, rfl⟩
  · exact ⟨⟨rfl, Nat.le_succ _, fun hf => fresh_of_dids (ps := ps) rfl (Nat.le_succ _) hf, fun h => h⟩,
      rfl, rfl, rfl, rfl⟩

structure HbKeep (hb hb' : HogBuild) : Prop where
  tr : TRnone hb → TRnone hb'
  dup : hb'.dup = hb.dup
  uid : hb'.info.uid = hb.info.uid

theorem HbKeep.refl (hb : HogBuild) : HbKeep hb hb := ⟨fun h => h, rfl, rfl⟩
theorem HbKeep.trans {a b c : HogBuild} (h1 : HbKeep a b) (h2 : HbKeep b c) : HbKeep a c :=
  ⟨fun h => h2.tr (h1.tr h), h2.dup.trans h1.dup, h2.uid.trans h1.uid⟩

theorem ogRun_gen (env : Env) (top : Bool) (len : Nat) (hid og : Option String) (its : List Elem) (ps : PS)
    (res : List Node) (ps' : PS)
    (ih : ∀ hb ps hb' ps', elems env (len + 1) its hb ps = .ok (hb', ps') → Gen ps ps' ∧ HbKeep hb hb')
    (h : ogRun env top len hid og its ps = .ok (res, ps')) :
    Gen ps ps' ∧ ps.next < ps'.next ∧
      ∃ info level kids dups, res = [Node.hog info level (ogFlag len ps) kids dups] ∧ info.uid = ps.next := by
  simp only [ogRun] at h
  split at h
  · cases h
  · rename_i nb ps2 hv
    obtain ⟨g1, t1⟩ := ih _ _ _ _ hv
    obtain ⟨c1, level, kids, dups, hres⟩ := closeOg_fr env top nb ps2 res ps' (t1.tr rfl) h
    have g2 := c1.toGen
    obtain ⟨g0, n0, _⟩ := ogOpen_gen len ps
    refine ⟨(g0.trans g1).trans g2, ?_, nb.info, level, kids, dups, ?_, ?_⟩
    · have := g1.next; have := g2.next; omega
    · rw [hres, t1.dup]
    · rw [t1.uid]; rfl

theorem elem_gen (env : Env) : (e : Elem) → (len : Nat) → (hb : HogBuild) → (ps : PS) →
    (hb' : HogBuild) → (ps' : PS) → noTaxRange e = true → elem env len e hb ps = .ok (hb', ps') →
    Gen ps ps' ∧ HbKeep hb hb'
  | .ref id loft, len, hb, ps, hb', ps', _, h => by
    simp only [elem] at h
    split at h
    · cases h
    · simp only [Except.ok.injEq, Prod.mk.injEq] at h
      obtain ⟨rfl, rfl⟩ := h
      refine ⟨?_, fun h => h, rfl, rfl⟩
      split
      · exact ⟨rfl, Nat.le_refl _, fun hf => fresh_of_dids (ps := ps) (addMember_dids _ _ _) (Nat.le_refl _) hf,
          fun h => h⟩
      · exact Gen.refl _
  | .score id v, len, hb, ps, hb', ps', _, h => by
    simp only [elem, Except.ok.injEq, Prod.mk.injEq] at h
    obtain ⟨rfl, rfl⟩ := h
    exact ⟨Gen.refl _, fun h => h, rfl, rfl⟩
  | .prop n v, len, hb, ps, hb', ps', hn, h => by
    simp only [elem, Except.ok.injEq, Prod.mk.injEq] at h
    obtain ⟨rfl, rfl⟩ := h
    refine ⟨Gen.refl _, ?_, rfl, rfl⟩
    intro ht
    simp only [noTaxRange, bne_iff_ne, ne_eq] at hn
    unfold TRnone at *
    simp only
    rw [lookup_dictSet_ne _ _ _ hn]; exact ht
  | .pg pgid its, len, hb, ps, hb', ps', hn, h => by
    simp only [elem, bind, Except.bind] at h
    split at h
    · cases h
    · rename_i v hv
      obtain ⟨hb1, ps2⟩ := v
      split at h
      · cases h
      · rename_i ps3 hc
        simp only [Except.ok.injEq, Prod.mk.injEq] at h
        obtain ⟨rfl, rfl⟩ := h
        simp only [noTaxRange] at hn
        obtain ⟨g1, t1⟩ := elems_gen env its len hb _ hb1 ps2 hn hv
        obtain ⟨g, o1, o2, o3, _⟩ := pgOpen_gen len pgid ps
        obtain ⟨f, fs, bx, taxa, u, c1, _, _, _, _, c6⟩ := pgClose_elim _ _ _ hc
        have hst : ps2.pstack = g :: ps.pstack := g1.pstack.trans o1
        rw [c1] at hst
        simp only [List.cons.injEq] at hst
        obtain ⟨c2, c3, c4, c5⟩ := closed_gen ps2 fs f.did u
        refine ⟨⟨?_, ?_, ?_, ?_⟩, t1⟩
        · rw [c6, c2, hst.2]
        · rw [c6, c3]; exact Nat.le_trans o2 g1.next
        · intro hf; rw [c6]; exact c4 (g1.fresh (o3 hf))
        · intro _; rw [c6]; exact c5
  | .og hid og its, len, hb, ps, hb', ps', hn, h => by
    rw [elem_og_eq] at h
    split at h
    · cases h
    · rename_i res ps1 hr
      simp only [Except.ok.injEq, Prod.mk.injEq] at h
      obtain ⟨rfl, rfl⟩ := h
      simp only [noTaxRange] at hn
      exact ⟨(ogRun_gen env false len hid og its ps res ps1
        (fun hb ps hb' ps' h => elems_gen env its (len + 1) hb ps hb' ps' hn h) hr).1, fun h => h, rfl, rfl⟩
where
  elems_gen (env : Env) : (es : List Elem) → (len : Nat) → (hb : HogBuild) → (ps : PS) →
      (hb' : HogBuild) → (ps' : PS) → noTaxRangeL es = true → elems env len es hb ps = .ok (hb', ps') →
      Gen ps ps' ∧ HbKeep hb hb'
    | [], len, hb, ps, hb', ps', _, h => by
      simp only [elems, Except.ok.injEq, Prod.mk.injEq] at h
      obtain ⟨rfl, rfl⟩ := h
      exact ⟨Gen.refl _, HbKeep.refl _⟩
    | e :: es, len, hb, ps, hb', ps', hn, h => by
      simp only [elems, bind, Except.bind] at h
      split at h
      · cases h
      · rename_i v hv
        obtain ⟨hb1, ps1⟩ := v
        simp only [noTaxRangeL, Bool.and_eq_true] at hn
        obtain ⟨g1, t1⟩ := elem_gen env e len hb ps hb1 ps1 hn.1 hv
        obtain ⟨g2, t2⟩ := elems_gen env es len hb1 ps1 hb' ps' hn.2 h
        exact ⟨g1.trans g2, t1.trans t2⟩

end NP
namespace NP

/-! ### simulation: the `mrca` of `d` is neither read nor relevant below the nest -/

def hd2 (S : List PFrame) : Option (Nat × Nat) := S.head?.map fun f => (f.depth, f.did)

theorem hd2_cons (f : PFrame) (fs : List PFrame) : hd2 (f :: fs) = some (f.depth, f.did) := rfl

theorem hd2_eq_cons {A : List PFrame} {f : PFrame} {fs : List PFrame} (h : hd2 A = hd2 (f :: fs)) :
    ∃ f' fs', A = f' :: fs' ∧ f'.depth = f.depth ∧ f'.did = f.did := by
  cases A with
  | nil => simp [hd2] at h
  | cons f' fs' =>
    simp only [hd2_cons, Option.some.injEq, Prod.mk.injEq] at h
    exact ⟨f', fs', rfl, h.1, h.2⟩

theorem hd2_heads {A B : List PFrame} (h : hd2 A = hd2 B) :
    A.head?.map (·.depth) = B.head?.map (·.depth) ∧ A.head?.map (·.did) = B.head?.map (·.did) := by
  cases A with
  | nil =>
    cases B with
    | nil => exact ⟨rfl, rfl⟩
    | cons g gs => simp [hd2] at h
  | cons f fs =>
    obtain ⟨f', fs', rfl, h1, h2⟩ := hd2_eq_cons h.symm
    simp [h1, h2]

structure Inv (d len : Nat) (b : PS) : Prop where
  lt : d < b.next
  flag : ∀ l, b.inPG = some l → len < l → b.cur ≠ some d
  head : ∀ f fs, b.pstack = f :: fs → len < f.depth → f.did ≠ d

theorem pgOpen_sim {d : Nat} (l : Nat) (x : Option String) (a b : PS) (hr : Rel d a b)
    (hh : hd2 a.pstack = hd2 b.pstack) :
    ∃ did a0 b0, pgOpen l x a = pushed a0 l did ∧ pgOpen l x b = pushed b0 l did ∧ Rel d a0 b0 ∧
      a0.pstack = a.pstack ∧ b0.pstack = b.pstack ∧
      ((a0 = a ∧ b0 = b ∧ ∃ f fs, b.pstack = f :: fs ∧ f.depth = l ∧ f.did = did) ∨
       (did = b.next ∧ a0 = (newDup a x).2 ∧ b0 = (newDup b x).2 ∧ ∀ f fs, b.pstack = f :: fs → f.depth ≠ l)) := by
  rcases pgOpen_cases l x b with ⟨f, fs, h1, h2, e⟩ | ⟨h1, e⟩
  · rw [h1] at hh
    obtain ⟨f', fs', ha, hd1, hd2'⟩ := hd2_eq_cons hh
    have ea := pgOpen_reuse l x a f' fs' ha (hd1.trans h2)
    rw [hd2'] at ea
    exact ⟨f.did, a, b, ea, e, hr, rfl, rfl, Or.inl ⟨rfl, rfl, f, fs, h1, h2, rfl⟩⟩
  · have ha : ∀ f fs, a.pstack = f :: fs → f.depth ≠ l := by
      intro f fs hf
      rw [hf] at hh
      obtain ⟨f', fs', hb, hd1, _⟩ := hd2_eq_cons hh.symm
      rw [← hd1]; exact h1 f' fs' hb
    have ea := pgOpen_new l x a ha
    rw [hr.next] at ea
    exact ⟨b.next, _, _, ea, e, hr.newDup x, rfl, rfl, Or.inr ⟨rfl, rfl, rfl, h1⟩⟩

theorem pgClose_sim {d : Nat} (kids : List Node) (a2 b2 b' : PS) (g : PFrame) (A B : List PFrame)
    (hr : Rel d a2 b2) (ha : a2.pstack = g :: A) (hb : b2.pstack = g :: B) (hh : hd2 A = hd2 B)
    (h : pgClose kids b2 = .ok b') :
    ∃ u, b' = closed b2 B g.did u ∧ pgClose kids a2 = .ok (closed a2 A g.did u) ∧
      Rel d (closed a2 A g.did u) (closed b2 B g.did u) := by
  obtain ⟨f, fs, bx, taxa, u, c1, c2, c3, c4, c5, c6⟩ := pgClose_elim _ _ _ h
  rw [hb] at c1
  simp only [List.cons.injEq] at c1
  obtain ⟨rfl, rfl⟩ := c1
  obtain ⟨ax, ha2, hm, _⟩ := hr.getDup_some c2
  refine ⟨u, c6, pgClose_intro kids a2 g A ax taxa u ha ha2 (by rw [hm]; exact c3) (by rw [hm]; exact c4) c5, ?_⟩
  obtain ⟨e1, e2⟩ := hd2_heads hh
  refine ⟨e1, e2, hr.next, hr.reg, ?_⟩
  by_cases hd : g.did = d
  · rw [hd]; exact (hr.setm (some u) (some u)).ds
  · exact (hr.modDup g.did (setMr (some u)) (fun v hv => by
      rw [clrB_of_ne d v (by rw [hv]; exact hd), clrB_of_ne d _ (by rw [setMr_did, hv]; exact hd)])).ds

def addMem (k : Key) (u : DupBuild) : DupBuild := { u with members := u.members ++ [k] }

theorem clrB_addMem (d : Nat) (k : Key) (u : DupBuild) : clrB d (addMem k u) = addMem k (clrB d u) := by
  unfold clrB addMem
  split <;> rfl

theorem Rel.addMember {d : Nat} {a b : PS} (h : Rel d a b) (x : Nat) (k : Key) :
    Rel d (a.addMember x k) (b.addMember x k) :=
  h.modDup x (addMem k) (fun u _ => clrB_addMem d k u)

theorem getDup_addMember_ne (ps : PS) (x y : Nat) (k : Key) (h : x ≠ y) :
    (ps.addMember x k).getDup y = ps.getDup y :=
  getDup_modDup_ne ps x y _ (fun _ => rfl) h

theorem ogFlag_rel {d : Nat} {a b : PS} (h : Rel d a b) (l : Nat) : ogFlag l a = ogFlag l b := by
  unfold ogFlag; rw [h.inpg, h.cur]

theorem Rel.ogOpen {d : Nat} {a b : PS} (h : Rel d a b) (l : Nat) : Rel d (ogOpen l a) (ogOpen l b) := by
  have hb : Rel d ({ a with next := b.next + 1 } : PS) ({ b with next := b.next + 1 } : PS) :=
    ⟨h.inpg, h.cur, rfl, h.reg, h.ds⟩
  unfold NP.ogOpen
  rw [ogFlag_rel h l, h.next]
  split
  · exact hb.addMember _ _
  · exact hb

theorem Inv.ogOpen {d len : Nat} {b : PS} (h : Inv d len b) (l : Nat) : Inv d len (ogOpen l b) := by
  obtain ⟨_, n0, p0, i0, c0⟩ := ogOpen_gen l b
  exact ⟨by rw [n0]; exact Nat.lt_succ_of_lt h.lt, by rw [i0, c0]; exact h.flag, by rw [p0]; exact h.head⟩

theorem sim_ogRun {d len0 : Nat} (env : Env) (top : Bool) (l : Nat) (hid og : Option String) (its : List Elem)
    (a b : PS) (res : List Node) (b' : PS)
    (ih : ∀ hb a b hb' b', Rel d a b → hd2 a.pstack = hd2 b.pstack → Inv d len0 b → NoD d hb.kids →
      elems env (l + 1) its hb b = .ok (hb', b') →
      ∃ a', elems env (l + 1) its hb a = .ok (hb', a') ∧ Rel d a' b' ∧ Inv d len0 b' ∧ NoD d hb'.kids ∧
        b'.getDup d = b.getDup d)
    (ihg : ∀ hb ps hb' ps', elems env (l + 1) its hb ps = .ok (hb', ps') → Gen ps ps' ∧ HbKeep hb hb')
    (hr : Rel d a b) (hh : hd2 a.pstack = hd2 b.pstack) (hi : Inv d len0 b)
    (h : ogRun env top l hid og its b = .ok (res, b')) :
    ∃ a', ogRun env top l hid og its a = .ok (res, a') ∧ Rel d a' b' ∧ Inv d len0 b' ∧
      b'.getDup d = (ogOpen l b).getDup d := by
  simp only [ogRun] at h
  split at h
  · cases h
  · rename_i nb b2 hv
    have hpa : (ogOpen l a).pstack = a.pstack := (ogOpen_gen l a).2.2.1
    have hpb : (ogOpen l b).pstack = b.pstack := (ogOpen_gen l b).2.2.1
    obtain ⟨a2, e2, r2, i2, n2, g2⟩ := ih _ (ogOpen l a) (ogOpen l b) nb b2 (hr.ogOpen l)
      (by rw [hpa, hpb]; exact hh) (hi.ogOpen l) (fun k hk => by cases hk) hv
    have ht : TRnone nb := (ihg _ _ _ _ hv).2.tr rfl
    obtain ⟨a3, e3, r3, g3⟩ := closeOg_sim env top nb a2 b2 res b' r2 n2 ht h
    obtain ⟨c1, _⟩ := closeOg_fr env top nb b2 res b' ht h
    refine ⟨a3, ?_, r3, ?_, g3.trans g2⟩
    · simp only [ogRun, ogFlag_rel hr l, hr.next, e2]
      exact e3
    · exact ⟨Nat.lt_of_lt_of_le i2.lt c1.next, by rw [c1.inpg, c1.cur]; exact i2.flag,
        by rw [c1.pstack]; exact i2.head⟩

theorem getDup_newDup_ne (ps : PS) (x : Option String) (d : Nat) (h : d ≠ ps.next) :
    (newDup ps x).2.getDup d = ps.getDup d := by
  simp only [newDup, PS.getDup, List.find?_append]
  have : (ps.next == d) = false := by simpa using fun e => h e.symm
  simp [this]

theorem pushed_getDup (ps : PS) (l did x : Nat) : (pushed ps l did).getDup x = ps.getDup x := rfl

theorem closed_getDup_ne (ps : PS) (fs : List PFrame) (x d : Nat) (u : Taxon) (h : x ≠ d) :
    (closed ps fs x u).getDup d = ps.getDup d :=
  getDup_modDup_ne { ps with pstack := fs } x d _ (setMr_did _) h

theorem sim_elem {d len0 : Nat} (env : Env) : (e : Elem) → (l : Nat) → (hb : HogBuild) → (a b : PS) →
    (hb' : HogBuild) → (b' : PS) → noTaxRange e = true → len0 < l → Rel d a b →
    hd2 a.pstack = hd2 b.pstack → Inv d len0 b → NoD d hb.kids → elem env l e hb b = .ok (hb', b') →
    ∃ a', elem env l e hb a = .ok (hb', a') ∧ Rel d a' b' ∧ Inv d len0 b' ∧ NoD d hb'.kids ∧
      b'.getDup d = b.getDup d
  | .ref id loft, l, hb, a, b, hb', b', _, hl, hr, hh, hi, hn, h => by
    simp only [elem] at h
    split at h
    · cases h
    · rename_i t ht
      simp only [Except.ok.injEq, Prod.mk.injEq] at h
      obtain ⟨rfl, rfl⟩ := h
      simp only [elem, ht, hr.inpg, hr.cur]
      have hfl : (if b.inPG == some l then b.cur else none) ≠ some d := by
        split
        · rename_i hc; exact hi.flag l (by simpa using hc) hl
        · exact fun e => by cases e
      refine ⟨_, rfl, ?_, ?_, ?_, ?_⟩
      · split
        · exact hr.addMember _ _
        · exact hr
      · split
        · exact ⟨hi.lt, hi.flag, hi.head⟩
        · exact hi
      · exact hn.append (fun k hk => by
          simp only [List.mem_singleton] at hk; subst hk; exact hfl)
      · split
        · rename_i x hx
          exact getDup_addMember_ne _ _ _ _ (fun e => hfl (by rw [hx, e]))
        · rfl
  | .score id v, l, hb, a, b, hb', b', _, hl, hr, hh, hi, hn, h => by
    simp only [elem, Except.ok.injEq, Prod.mk.injEq] at h
    obtain ⟨rfl, rfl⟩ := h
    exact ⟨a, rfl, hr, hi, hn, rfl⟩
  | .prop n v, l, hb, a, b, hb', b', _, hl, hr, hh, hi, hn, h => by
    simp only [elem, Except.ok.injEq, Prod.mk.injEq] at h
    obtain ⟨rfl, rfl⟩ := h
    exact ⟨a, rfl, hr, hi, hn, rfl⟩
  | .pg pgid its, l, hb, a, b, hb', b', ht, hl, hr, hh, hi, hn, h => by
    simp only [noTaxRange] at ht
    simp only [elem, bind, Except.bind] at h
    split at h
    · cases h
    · rename_i v hv
      obtain ⟨hb1, b2⟩ := v
      split at h
      · cases h
      · rename_i b3 hc
        simp only [Except.ok.injEq, Prod.mk.injEq] at h
        obtain ⟨rfl, rfl⟩ := h
        obtain ⟨did, a0, b0, ea, eb, r0, pa, pb, hcase⟩ := pgOpen_sim l pgid a b hr hh
        have hdid : did ≠ d ∧ d < b0.next ∧ b0.getDup d = b.getDup d := by
          rcases hcase with ⟨_, rfl, f, fs, h1, h2, h3⟩ | ⟨h1, _, rfl, _⟩
          · exact ⟨by rw [← h3]; exact hi.head f fs h1 (by rw [h2]; exact hl), hi.lt, rfl⟩
          · have := hi.lt
            exact ⟨by omega, by simp only [newDup]; omega, getDup_newDup_ne b pgid d (by omega)⟩
        obtain ⟨r1, g, g1, g2, g3, g4⟩ := r0.pushed l did
        rw [eb] at hv
        have i1 : Inv d len0 (pushed b0 l did) :=
          ⟨hdid.2.1, fun l' h1 _ => by
              intro e; simp only [pushed, Option.some.injEq] at e; exact hdid.1 e,
            fun f fs h1 _ => by
              rw [g4] at h1; simp only [List.cons.injEq] at h1; rw [← h1.1, g2]; exact hdid.1⟩
        obtain ⟨a2, e2, r2, i2, n2, k2⟩ := sim_elems env its l hb _ _ hb1 b2 ht hl r1
          (by rw [g3, g4]; rfl) i1 hn hv
        have sb : b2.pstack = g :: b.pstack := by
          rw [(elem_gen.elems_gen env its l hb _ hb1 b2 ht hv).1.pstack, g4, pb]
        have sa : a2.pstack = g :: a.pstack := by
          rw [(elem_gen.elems_gen env its l hb _ hb1 a2 ht e2).1.pstack, g3, pa]
        obtain ⟨u, c1, c2, c3⟩ := pgClose_sim hb1.kids a2 b2 b3 g a.pstack b.pstack r2 sa sb hh hc
        refine ⟨_, ?_, by rw [c1]; exact c3, ?_, n2, ?_⟩
        · simp only [elem, bind, Except.bind, ea, e2, c2]
        · rw [c1]
          refine ⟨i2.lt, ?_, hi.head⟩
          intro l' h1 h2 e
          cases hst : b.pstack with
          | nil => simp [closed, hst] at h1
          | cons f fs =>
            simp only [closed, hst, List.head?_cons, Option.map_some, Option.some.injEq] at h1 e
            exact hi.head f fs hst (by rw [h1]; exact h2) e
        · rw [c1, closed_getDup_ne _ _ _ _ _ (by rw [g2]; exact hdid.1), k2, pushed_getDup]
          exact hdid.2.2
  | .og hid og its, l, hb, a, b, hb', b', ht, hl, hr, hh, hi, hn, h => by
    simp only [noTaxRange] at ht
    rw [elem_og_eq] at h
    split at h
    · cases h
    · rename_i res b1 hrun
      simp only [Except.ok.injEq, Prod.mk.injEq] at h
      obtain ⟨rfl, rfl⟩ := h
      have ihg := fun hb ps hb' ps' h => elem_gen.elems_gen env its (l + 1) hb ps hb' ps' ht h
      obtain ⟨a1, e1, r1, i1, g1⟩ := sim_ogRun env false l hid og its a b res b1
        (fun hb a b hb' b' h1 h2 h3 h4 h5 =>
          sim_elems env its (l + 1) hb a b hb' b' ht (Nat.lt_succ_of_lt hl) h1 h2 h3 h4 h5)
        ihg hr hh hi hrun
      obtain ⟨_, _, info, level, kids, dups, hres, _⟩ := ogRun_gen env false l hid og its b res b1 ihg hrun
      have hfl : ogFlag l b ≠ some d := by
        unfold ogFlag
        split
        · rename_i hc; exact hi.flag l (by simpa using hc) hl
        · exact fun e => by cases e
      refine ⟨a1, ?_, r1, i1, ?_, ?_⟩
      · rw [elem_og_eq, e1]
      · refine hn.append ?_
        rw [hres]
        intro k hk
        simp only [List.mem_singleton] at hk
        subst hk
        exact hfl
      · rw [g1]
        unfold ogOpen
        split
        · rename_i x hx
          exact getDup_addMember_ne _ _ _ _ (fun e => hfl (by rw [hx, e]))
        · rfl
where
  sim_elems {d len0 : Nat} (env : Env) : (es : List Elem) → (l : Nat) → (hb : HogBuild) → (a b : PS) →
      (hb' : HogBuild) → (b' : PS) → noTaxRangeL es = true → len0 < l → Rel d a b →
      hd2 a.pstack = hd2 b.pstack → Inv d len0 b → NoD d hb.kids → elems env l es hb b = .ok (hb', b') →
      ∃ a', elems env l es hb a = .ok (hb', a') ∧ Rel d a' b' ∧ Inv d len0 b' ∧ NoD d hb'.kids ∧
        b'.getDup d = b.getDup d
    | [], l, hb, a, b, hb', b', _, hl, hr, hh, hi, hn, h => by
      simp only [elems, Except.ok.injEq, Prod.mk.injEq] at h
      obtain ⟨rfl, rfl⟩ := h
      exact ⟨a, rfl, hr, hi, hn, rfl⟩
    | e :: es, l, hb, a, b, hb', b', ht, hl, hr, hh, hi, hn, h => by
      simp only [noTaxRangeL, Bool.and_eq_true] at ht
      simp only [elems, bind, Except.bind] at h
      split at h
      · cases h
      · rename_i v hv
        obtain ⟨hb1, b1⟩ := v
        obtain ⟨a1, e1, r1, i1, n1, k1⟩ := sim_elem env e l hb a b hb1 b1 ht.1 hl hr hh hi hn hv
        have pb := (elem_gen env e l hb b hb1 b1 ht.1 hv).1.pstack
        have pa := (elem_gen env e l hb a hb1 a1 ht.1 e1).1.pstack
        obtain ⟨a2, e2, r2, i2, n2, k2⟩ := sim_elems env es l hb1 a1 b1 hb' b' ht.2 hl r1
          (by rw [pa, pb]; exact hh) i1 n1 h
        refine ⟨a2, ?_, r2, i2, n2, k2.trans k1⟩
        simp only [elems, bind, Except.bind, e1]
        exact e2

end NP
namespace NP

/-! ### one step at the level of the nest -/

theorem hd2_eq_some {A : List PFrame} {p : Nat × Nat} (h : hd2 A = some p) :
    ∃ f fs, A = f :: fs ∧ f.depth = p.1 ∧ f.did = p.2 := by
  cases A with
  | nil => simp [hd2] at h
  | cons f fs =>
    simp only [hd2_cons, Option.some.injEq] at h
    exact ⟨f, fs, rfl, by rw [← h], by rw [← h]⟩

structure NInv (d len : Nat) (kids : List Node) (b : PS) : Prop where
  hd : hd2 b.pstack = some (len, d)
  inpg : b.inPG = some len
  cur : b.cur = some d
  lt : d < b.next
  mem : ∃ bx, b.getDup d = some bx ∧ ∀ k ∈ bx.members, (findKey k kids).isSome

theorem NInv.toInv {d len : Nat} {kids : List Node} {b : PS} (h : NInv d len kids b) : Inv d len b := by
  refine ⟨h.lt, ?_, ?_⟩
  · intro l h1 h2
    rw [h.inpg] at h1
    simp only [Option.some.injEq] at h1
    omega
  · intro f fs h1 h2
    have := h.hd
    rw [h1, hd2_cons] at this
    simp only [Option.some.injEq, Prod.mk.injEq] at this
    omega

theorem NInv.sync {d len : Nat} {kids : List Node} {b : PS} (h : NInv d len kids b) : Sync b := by
  obtain ⟨f, fs, h1, h2, h3⟩ := hd2_eq_some h.hd
  unfold Sync
  rw [h.inpg, h.cur, h1]
  simp only [List.head?_cons, Option.map_some, h2, h3]
  exact ⟨trivial, trivial⟩

theorem sync_hd {b : PS} {len d : Nat} (hs : Sync b) (h : hd2 b.pstack = some (len, d)) :
    b.inPG = some len ∧ b.cur = some d := by
  obtain ⟨f, fs, h1, h2, h3⟩ := hd2_eq_some h
  unfold Sync at hs
  rw [h1] at hs
  simp only [List.head?_cons, Option.map_some] at hs
  rw [hs.1, hs.2, h2, h3]
  exact ⟨rfl, rfl⟩

theorem getDup_modDup_self (ps : PS) (x : Nat) (f : DupBuild → DupBuild) (hf : ∀ u, (f u).did = u.did) :
    (ps.modDup x f).getDup x = (ps.getDup x).map f := by
  simp only [PS.getDup, PS.modDup]
  induction ps.dstore with
  | nil => rfl
  | cons u us ih =>
    simp only [List.map_cons, List.find?_cons]
    by_cases hu : u.did = x
    · simp [hu, hf]
    · have : (u.did == x) = false := by simpa using hu
      simp only [this, Bool.false_eq_true, if_false]
      exact ih

def Grow (d : Nat) (b b' : PS) (M2 : List Key) : Prop :=
  ∃ bx bx', b.getDup d = some bx ∧ b'.getDup d = some bx' ∧ bx'.members = bx.members ++ M2

theorem Grow.trans {d : Nat} {b b' b'' : PS} {M M' : List Key} (h1 : Grow d b b' M) (h2 : Grow d b' b'' M') :
    Grow d b b'' (M ++ M') := by
  obtain ⟨x, x', e1, e2, e3⟩ := h1
  obtain ⟨y, y', f1, f2, f3⟩ := h2
  rw [e2] at f1; cases f1
  exact ⟨x, y', e1, f2, by rw [f3, e3, List.append_assoc]⟩

theorem findKey_isSome_of_mem {k : Key} {kids : List Node} {n : Node} (hn : n ∈ kids) (hk : n.key = k) :
    (findKey k kids).isSome := by
  unfold findKey
  rw [List.find?_isSome]
  exact ⟨n, hn, by simp [hk]⟩

theorem addMember_grow (d : Nat) (kids K2 : List Node) (len : Nat) (b b0 b1 : PS) (k : Key) (n : Node)
    (hi : NInv d len kids b) (h0 : b0.getDup d = b.getDup d)
    (h1 : b1.getDup d = (b0.addMember d k).getDup d) (hn : n ∈ K2) (hk : n.key = k) :
    Grow d b b1 [k] ∧ ∃ bx, b1.getDup d = some bx ∧ ∀ k' ∈ bx.members, (findKey k' (kids ++ K2)).isSome := by
  obtain ⟨bx, hbx, hmem⟩ := hi.mem
  have e : b1.getDup d = some (addMem k bx) := by
    rw [h1]
    show (b0.modDup d (addMem k)).getDup d = _
    rw [getDup_modDup_self b0 d (addMem k) (fun _ => rfl), h0, hbx]; rfl
  refine ⟨⟨bx, _, hbx, e, rfl⟩, _, e, ?_⟩
  intro k' hk'
  simp only [addMem, List.mem_append, List.mem_singleton] at hk'
  rcases hk' with hk' | rfl
  · rw [findKey_append_of_some _ _ _ (hmem k' hk')]; exact hmem k' hk'
  · exact findKey_isSome_of_mem (List.mem_append_right _ hn) hk

theorem nest_ogRun {d len : Nat} (env : Env) (top : Bool) (hid og : Option String) (its : List Elem)
    (kids : List Node) (a b : PS) (res : List Node) (b' : PS) (ht : noTaxRangeL its = true)
    (hi : NInv d len kids b) (hr : Rel d a b) (hh : hd2 a.pstack = hd2 b.pstack)
    (h : ogRun env top len hid og its b = .ok (res, b')) :
    ∃ a', ogRun env top len hid og its a = .ok (res, a') ∧ Rel d a' b' ∧ hd2 a'.pstack = hd2 b'.pstack ∧
      NInv d len (kids ++ res) b' ∧ Grow d b b' [.h b.next] := by
  have ihg := fun hb ps hb' ps' h => elem_gen.elems_gen env its (len + 1) hb ps hb' ps' ht h
  obtain ⟨a', e1, r1, _, g1⟩ := sim_ogRun (d := d) (len0 := len) env top len hid og its a b res b'
    (fun hb a b hb' b' h1 h2 h3 h4 h5 =>
      sim_elem.sim_elems env its (len + 1) hb a b hb' b' ht (Nat.lt_succ_self len) h1 h2 h3 h4 h5)
    ihg hr hh hi.toInv h
  obtain ⟨gb, nb, info, level, ks, dups, hres, huid⟩ := ogRun_gen env top len hid og its b res b' ihg h
  obtain ⟨ga, _, _⟩ := ogRun_gen env top len hid og its a res a' ihg e1
  have hfl : ogFlag len b = some d := by
    unfold ogFlag; rw [hi.inpg, hi.cur]; simp
  have hop : ogOpen len b = ({ b with next := b.next + 1 } : PS).addMember d (.h b.next) := by
    unfold ogOpen; rw [hfl]
  rw [hop] at g1
  obtain ⟨gr, bx, hbx, hmem⟩ := addMember_grow d kids res len b { b with next := b.next + 1 } b' (.h b.next)
    (Node.hog info level (ogFlag len b) ks dups) hi rfl g1 (by rw [hres]; exact List.mem_singleton_self _)
    (by simp [Node.key, huid])
  have hd' : hd2 b'.pstack = some (len, d) := by rw [gb.pstack]; exact hi.hd
  obtain ⟨s1, s2⟩ := sync_hd (gb.sync hi.sync) hd'
  refine ⟨a', e1, r1, by rw [ga.pstack, gb.pstack]; exact hh, ⟨hd', s1, s2, ?_, bx, hbx, hmem⟩, gr⟩
  have := hi.lt; omega

def isPg : Elem → Bool
  | .pg _ _ => true
  | _ => false

theorem nest_elem {d len : Nat} (env : Env) (e : Elem) (hb : HogBuild) (a b : PS) (hb1 : HogBuild) (b1 : PS)
    (hp : isPg e = false) (ht : noTaxRange e = true) (hi : NInv d len hb.kids b) (hr : Rel d a b)
    (hh : hd2 a.pstack = hd2 b.pstack) (h : elem env len e hb b = .ok (hb1, b1)) :
    ∃ a1, elem env len e hb a = .ok (hb1, a1) ∧ Rel d a1 b1 ∧ hd2 a1.pstack = hd2 b1.pstack ∧
      NInv d len hb1.kids b1 ∧ ∃ K2 M2, hb1.kids = hb.kids ++ K2 ∧ Grow d b b1 M2 ∧
        (isMember e = true → M2 ≠ []) := by
  have grow0 : Grow d b b [] := by
    obtain ⟨bx, hbx, _⟩ := hi.mem
    exact ⟨bx, bx, hbx, hbx, by simp⟩
  cases e with
  | pg x its => cases hp
  | score id v =>
    simp only [elem, Except.ok.injEq, Prod.mk.injEq] at h
    obtain ⟨rfl, rfl⟩ := h
    exact ⟨a, rfl, hr, hh, hi, [], [], by simp, grow0, fun h => by cases h⟩
  | prop n v =>
    simp only [elem, Except.ok.injEq, Prod.mk.injEq] at h
    obtain ⟨rfl, rfl⟩ := h
    exact ⟨a, rfl, hr, hh, hi, [], [], by simp, grow0, fun h => by cases h⟩
  | ref id loft =>
    simp only [elem] at h
    split at h
    · cases h
    · rename_i t htx
      simp only [Except.ok.injEq, Prod.mk.injEq] at h
      obtain ⟨rfl, rfl⟩ := h
      simp only [elem, htx, hr.inpg, hr.cur, hi.inpg, hi.cur, beq_self_eq_true, if_true]
      obtain ⟨gr, bx, hbx, hmem⟩ := addMember_grow d hb.kids [Node.gene id t (some d) loft] len b b
        (b.addMember d (.g id)) (.g id) (Node.gene id t (some d) loft) hi rfl rfl
        (List.mem_singleton_self _) rfl
      exact ⟨_, rfl, hr.addMember _ _, hh, ⟨hi.hd, hi.inpg, hi.cur, hi.lt, bx, hbx, hmem⟩, _, _, rfl, gr,
        fun _ => by simp⟩
  | og hid og its =>
    simp only [noTaxRange] at ht
    rw [elem_og_eq] at h
    split at h
    · cases h
    · rename_i res b' hrun
      simp only [Except.ok.injEq, Prod.mk.injEq] at h
      obtain ⟨rfl, rfl⟩ := h
      obtain ⟨a', e1, r1, h1, i1, g1⟩ := nest_ogRun env false hid og its hb.kids a b res b' ht hi hr hh hrun
      refine ⟨a', ?_, r1, h1, i1, res, _, rfl, g1, fun _ => by simp⟩
      rw [elem_og_eq, e1]

theorem flatSeg {d len : Nat} (env : Env) : (L : List Elem) → (hb : HogBuild) → (b : PS) → (hb' : HogBuild) →
    (b' : PS) → (∀ e ∈ L, isPg e = false) → noTaxRangeL L = true → NInv d len hb.kids b →
    elems env len L hb b = .ok (hb', b') →
    NInv d len hb'.kids b' ∧ ∃ K2 M2, hb'.kids = hb.kids ++ K2 ∧ Grow d b b' M2 ∧
      (L.any isMember = true → M2 ≠ [])
  | [], hb, b, hb', b', _, _, hi, h => by
    simp only [elems, Except.ok.injEq, Prod.mk.injEq] at h
    obtain ⟨rfl, rfl⟩ := h
    obtain ⟨bx, hbx, _⟩ := hi.mem
    exact ⟨hi, [], [], by simp, ⟨bx, bx, hbx, hbx, by simp⟩, fun h => by simp at h⟩
  | e :: L, hb, b, hb', b', hp, ht, hi, h => by
    simp only [noTaxRangeL, Bool.and_eq_true] at ht
    simp only [elems, bind, Except.bind] at h
    split at h
    · cases h
    · rename_i v hv
      obtain ⟨hb1, b1⟩ := v
      obtain ⟨_, _, _, _, i1, K1, M1, k1, g1, m1⟩ := nest_elem env e hb b b hb1 b1
        (hp e (List.mem_cons_self ..)) ht.1 hi (Rel.refl d b) rfl hv
      obtain ⟨i2, K2, M2, k2, g2, m2⟩ := flatSeg env L hb1 b1 hb' b'
        (fun e' he' => hp e' (List.mem_cons_of_mem _ he')) ht.2 i1 h
      refine ⟨i2, K1 ++ K2, M1 ++ M2, by rw [k2, k1, List.append_assoc], g1.trans g2, ?_⟩
      intro hany
      simp only [List.any_cons, Bool.or_eq_true] at hany
      rcases hany with h1 | h2
      · have := m1 h1
        intro e0; exact this (List.append_eq_nil_iff.mp e0).1
      · have := m2 h2
        intro e0; exact this (List.append_eq_nil_iff.mp e0).2

end NP
namespace NP

/-! ### static facts about the flattening -/

theorem noTaxRangeL_append : (a b : List Elem) → noTaxRangeL (a ++ b) = (noTaxRangeL a && noTaxRangeL b)
  | [], b => by simp [noTaxRangeL]
  | e :: a, b => by simp [noTaxRangeL, noTaxRangeL_append a b, Bool.and_assoc]

mutual
theorem flatElem_noTR : (e : Elem) → noTaxRange (flatElem e) = noTaxRange e
  | .ref _ _ => rfl
  | .score _ _ => rfl
  | .prop _ _ => rfl
  | .og _ _ its => by simp only [flatElem, noTaxRange]; exact flatItems_noTR its
  | .pg _ its => by simp only [flatElem, noTaxRange]; exact spliceItems_noTR its
theorem flatItems_noTR : (es : List Elem) → noTaxRangeL (flatItems es) = noTaxRangeL es
  | [] => rfl
  | e :: es => by simp only [flatItems, noTaxRangeL, flatElem_noTR e, flatItems_noTR es]
theorem spliceItems_noTR : (es : List Elem) → noTaxRangeL (spliceItems es) = noTaxRangeL es
  | [] => rfl
  | .pg _ its :: es => by
    simp only [spliceItems, noTaxRangeL_append, noTaxRangeL, noTaxRange, spliceItems_noTR its, spliceItems_noTR es]
  | .ref a b :: es => by simp only [spliceItems, noTaxRangeL, flatElem_noTR, spliceItems_noTR es]
  | .score a b :: es => by simp only [spliceItems, noTaxRangeL, flatElem_noTR, spliceItems_noTR es]
  | .prop a b :: es => by simp only [spliceItems, noTaxRangeL, flatElem_noTR, spliceItems_noTR es]
  | .og a b c :: es => by simp only [spliceItems, noTaxRangeL, flatElem_noTR, spliceItems_noTR es]
end

theorem flatElem_isPg (e : Elem) : isPg (flatElem e) = isPg e := by
  cases e <;> rfl

theorem spliceItems_noPg : (its : List Elem) → ∀ e ∈ spliceItems its, isPg e = false
  | [], e, h => by simp [spliceItems] at h
  | .pg _ its :: es, e, h => by
    simp only [spliceItems, List.mem_append] at h
    rcases h with h | h
    · exact spliceItems_noPg its e h
    · exact spliceItems_noPg es e h
  | .ref a b :: es, e, h => by
    simp only [spliceItems, List.mem_cons] at h
    rcases h with rfl | h
    · rfl
    · exact spliceItems_noPg es e h
  | .score a b :: es, e, h => by
    simp only [spliceItems, List.mem_cons] at h
    rcases h with rfl | h
    · rfl
    · exact spliceItems_noPg es e h
  | .prop a b :: es, e, h => by
    simp only [spliceItems, List.mem_cons] at h
    rcases h with rfl | h
    · rfl
    · exact spliceItems_noPg es e h
  | .og a b c :: es, e, h => by
    simp only [spliceItems, List.mem_cons] at h
    rcases h with rfl | h
    · rfl
    · exact spliceItems_noPg es e h

theorem spliceItems_cons_nonpg (e : Elem) (es : List Elem) (h : isPg e = false) :
    spliceItems (e :: es) = flatElem e :: spliceItems es := by
  cases e with
  | pg _ _ => cases h
  | _ => simp only [spliceItems]

theorem nestsOkIn_cons_nonpg (e : Elem) (es : List Elem) (h : isPg e = false) :
    nestsOkIn (e :: es) = (nestsOk e && nestsOkIn es) := by
  cases e with
  | pg _ _ => cases h
  | _ => simp only [nestsOkIn]

theorem elems_append (env : Env) (len : Nat) : (L1 L2 : List Elem) → (hb : HogBuild) → (ps : PS) →
    elems env len (L1 ++ L2) hb ps =
      match elems env len L1 hb ps with
      | .error e => .error e
      | .ok (hb1, ps1) => elems env len L2 hb1 ps1
  | [], L2, hb, ps => by simp only [List.nil_append, elems]
  | e :: L1, L2, hb, ps => by
    simp only [List.cons_append, elems, bind, Except.bind]
    cases elem env len e hb ps with
    | error err => rfl
    | ok v =>
      obtain ⟨hb1, ps1⟩ := v
      simp only []
      exact elems_append env len L1 L2 hb1 ps1

theorem closed_eq {d : Nat} {a b : PS} (hr : Rel d a b) (S : List PFrame) (u : Taxon) :
    closed a S d u = closed b S d u := by
  have e := hr.setm_eq (some u)
  unfold closed
  simp only [PS.modDup] at e ⊢
  rw [hr.next, hr.reg]
  congr 1

theorem getDup_newDup_self (ps : PS) (x : Option String) (hf : ps.Fresh) :
    (newDup ps x).2.getDup ps.next = some { did := ps.next, pgid := x, members := [], mrca := none } := by
  simp only [newDup, PS.getDup, List.find?_append]
  have : List.find? (fun b => b.did == ps.next) ps.dstore = none := by
    rw [List.find?_eq_none]
    intro b hb
    have := hf b hb
    simp only [beq_iff_eq]; omega
  simp [this]

theorem main_ogRun (env : Env) (top : Bool) (len : Nat) (hid og : Option String) (its : List Elem) (ps : PS)
    (r : List Node × PS)
    (ih : ∀ hb ps r, ps.Fresh → (∀ f fs, ps.pstack = f :: fs → f.depth < len + 1) →
      elems env (len + 1) (flatItems its) hb ps = .ok r → elems env (len + 1) its hb ps = .ok r)
    (hf : ps.Fresh) (hdp : ∀ f fs, ps.pstack = f :: fs → f.depth ≤ len)
    (h : ogRun env top len hid og (flatItems its) ps = .ok r) : ogRun env top len hid og its ps = .ok r := by
  simp only [ogRun] at h ⊢
  split at h
  · cases h
  · rename_i nb ps2 hv
    obtain ⟨g0, _, p0, _, _⟩ := ogOpen_gen len ps
    have := ih _ _ _ (g0.fresh hf) (fun f fs hst => by
      rw [p0] at hst; exact Nat.lt_succ_of_le (hdp f fs hst)) hv
    rw [this]
    exact h

end NP
namespace NP

/-! ### splicing a directly nested paralogGroup -/

theorem NInv.depth_le {d len : Nat} {kids : List Node} {b : PS} (h : NInv d len kids b) :
    ∀ f fs, b.pstack = f :: fs → f.depth ≤ len := by
  intro f fs h1
  have := h.hd
  rw [h1, hd2_cons] at this
  simp only [Option.some.injEq, Prod.mk.injEq] at this
  omega

def GoodEnd (d : Nat) (kids : List Node) (b : PS) : Prop :=
  ∃ bx taxa, b.getDup d = some bx ∧ memTaxa kids bx.members = some taxa ∧ taxaOk taxa

theorem splice_step {d len : Nat} (env : Env) (e : Elem) (es : List Elem) (hb : HogBuild) (a b : PS)
    (hb' : HogBuild) (b' : PS) (hp : isPg e = false) (ht : noTaxRange e = true)
    (hi : NInv d len hb.kids b) (hr : Rel d a b) (hh : hd2 a.pstack = hd2 b.pstack)
    (h : elems env len (spliceItems (e :: es)) hb b = .ok (hb', b'))
    (hmain : ∀ r, elem env len (flatElem e) hb b = .ok r → elem env len e hb b = .ok r)
    (hrec : ∀ hb1 a1 b1, (b.Fresh → b1.Fresh) → NInv d len hb1.kids b1 → Rel d a1 b1 →
      hd2 a1.pstack = hd2 b1.pstack → elems env len (spliceItems es) hb1 b1 = .ok (hb', b') →
      ∃ a', elems env len es hb1 a1 = .ok (hb', a') ∧ Rel d a' b' ∧ a'.pstack = a1.pstack) :
    ∃ a', elems env len (e :: es) hb a = .ok (hb', a') ∧ Rel d a' b' ∧ a'.pstack = a.pstack := by
  rw [spliceItems_cons_nonpg e es hp] at h
  simp only [elems, bind, Except.bind] at h
  split at h
  · cases h
  · rename_i v hv
    obtain ⟨hb1, b1⟩ := v
    have hv' := hmain _ hv
    obtain ⟨a1, e1, r1, h1, i1, _⟩ := nest_elem env e hb a b hb1 b1 hp ht hi hr hh hv'
    have gb := (elem_gen env e len hb b hb1 b1 ht hv').1
    have ga := (elem_gen env e len hb a hb1 a1 ht e1).1
    obtain ⟨a', e2, r2, p2⟩ := hrec hb1 a1 b1 gb.fresh i1 r1 h1 h
    refine ⟨a', ?_, r2, p2.trans ga.pstack⟩
    simp only [elems, bind, Except.bind, e1]
    exact e2

theorem splice_pg_step {d len : Nat} (env : Env) (x : Option String) (its1 es : List Elem) (hb : HogBuild)
    (a b : PS) (hb' : HogBuild) (b' : PS) (hn : nestsOkIn (.pg x its1 :: es) = true)
    (ht : noTaxRangeL (.pg x its1 :: es) = true)
    (hi : NInv d len hb.kids b) (hr : Rel d a b) (hh : hd2 a.pstack = hd2 b.pstack)
    (h : elems env len (spliceItems (.pg x its1 :: es)) hb b = .ok (hb', b'))
    (hg : GoodEnd d hb'.kids b')
    (ih1 : ∀ a0 hb1 b1, Rel d a0 b → hd2 a0.pstack = hd2 b.pstack →
      elems env len (spliceItems its1) hb b = .ok (hb1, b1) → GoodEnd d hb1.kids b1 →
      ∃ a1, elems env len its1 hb a0 = .ok (hb1, a1) ∧ Rel d a1 b1 ∧ a1.pstack = a0.pstack)
    (ih2 : ∀ hb1 a1 b1, (b.Fresh → b1.Fresh) → NInv d len hb1.kids b1 → Rel d a1 b1 →
      hd2 a1.pstack = hd2 b1.pstack → elems env len (spliceItems es) hb1 b1 = .ok (hb', b') →
      ∃ a', elems env len es hb1 a1 = .ok (hb', a') ∧ Rel d a' b' ∧ a'.pstack = a1.pstack) :
    ∃ a', elems env len (.pg x its1 :: es) hb a = .ok (hb', a') ∧ Rel d a' b' ∧ a'.pstack = a.pstack := by
  simp only [nestsOkIn, Bool.and_eq_true] at hn
  obtain ⟨⟨hany, _⟩, _⟩ := hn
  simp only [noTaxRangeL, noTaxRange, Bool.and_eq_true] at ht
  have ht1 : noTaxRangeL (spliceItems its1) = true := by rw [spliceItems_noTR]; exact ht.1
  have ht2 : noTaxRangeL (spliceItems es) = true := by rw [spliceItems_noTR]; exact ht.2
  simp only [spliceItems] at h
  rw [elems_append] at h
  split at h
  · cases h
  · rename_i hb1 b1 hv
    -- bookkeeping on the flat run
    obtain ⟨i1, K1, M1, k1, g1, m1⟩ := flatSeg env _ hb b hb1 b1 (spliceItems_noPg its1) ht1 hi hv
    obtain ⟨i2, K2, M2, k2, g2, _⟩ := flatSeg env _ hb1 b1 hb' b' (spliceItems_noPg es) ht2 i1 h
    have hM1 := m1 hany
    obtain ⟨bx0, bx1, q1, q2, q3⟩ := g1
    obtain ⟨bx1', bx2, q4, q5, q6⟩ := g2
    rw [q2] at q4; cases q4
    have hne : bx1.members ≠ [] := by
      rw [q3]; intro e0; exact hM1 (List.append_eq_nil_iff.mp e0).2
    obtain ⟨by1, hy1, hmem1⟩ := i1.mem
    rw [q2] at hy1; cases hy1
    -- the partial close succeeds
    obtain ⟨bxe, taxa, w1, w2, w3⟩ := hg
    rw [q5] at w1; cases w1
    rw [k2, q6] at w2
    obtain ⟨t1, w4, w5⟩ := partial_ok hb1.kids K2 bx1.members M2 taxa w2 w3 hmem1 hne
    obtain ⟨u, hu⟩ := mrcaOf_of_ok t1 w5
    -- the nested run: open
    rw [hi.hd] at hh
    obtain ⟨f', fs', ha, hd1, hd2'⟩ := hd2_eq_some hh
    simp only at hd1 hd2'
    have eopen := pgOpen_reuse len x a f' fs' ha hd1
    rw [hd2'] at eopen
    have r0 : Rel d (pushed a len d) b :=
      ⟨hi.inpg.symm, hi.cur.symm, hr.next, hr.reg, hr.ds⟩
    obtain ⟨a1, e1, r1, p1⟩ := ih1 (pushed a len d) hb1 b1 r0 (by rw [hi.hd]; rfl) hv ⟨bx1, t1, q2, w4, w5⟩
    -- close
    obtain ⟨ax0, ha0, hm0, _⟩ := hr.getDup_some q1
    obtain ⟨ax1, ha1, hm1, _⟩ := r1.getDup_some q2
    have hsz : (pushed a len d).pstack = { depth := len, did := d, size := bx0.members.length } :: a.pstack := by
      simp only [pushed, ha0, hm0]
    have eclose := pgClose_intro hb1.kids a1 { depth := len, did := d, size := bx0.members.length } a.pstack
      ax1 t1 u (p1.trans hsz) ha1
      (by rw [hm1, q3]; simp only [List.length_append]
          have : M1.length ≠ 0 := fun e0 => hM1 (List.length_eq_zero_iff.mp e0)
          omega)
      (by rw [hm1]; exact w4) hu
    simp only at eclose
    have r2 : Rel d (closed a1 a.pstack d u) b1 := by
      refine ⟨?_, ?_, r1.next, r1.reg, (r1.setm_left (some u)).ds⟩
      · rw [i1.inpg, ha]; simp only [closed, List.head?_cons, Option.map_some, hd1]
      · rw [i1.cur, ha]; simp only [closed, List.head?_cons, Option.map_some, hd2']
    have gb1 := (elem_gen.elems_gen env _ len hb b hb1 b1 ht1 hv).1
    obtain ⟨a', e2, r3, p3⟩ := ih2 hb1 (closed a1 a.pstack d u) b1 gb1.fresh i1 r2
      (by rw [i1.hd]; show hd2 a.pstack = _; rw [ha, hd2_cons, hd1, hd2']) h
    refine ⟨a', ?_, r3, p3⟩
    simp only [elems, elem, bind, Except.bind, eopen, e1, eclose]
    exact e2

theorem main_pg (env : Env) (x : Option String) (its : List Elem) (len : Nat) (hb : HogBuild) (ps : PS)
    (r : HogBuild × PS) (ht : noTaxRangeL its = true) (hf : ps.Fresh)
    (hpg : ∀ f fs, ps.pstack = f :: fs → f.depth ≠ len)
    (h : elem env len (.pg x (spliceItems its)) hb ps = .ok r)
    (ih : ∀ a b hb' b', b.Fresh → NInv ps.next len hb.kids b → Rel ps.next a b →
      hd2 a.pstack = hd2 b.pstack → elems env len (spliceItems its) hb b = .ok (hb', b') →
      GoodEnd ps.next hb'.kids b' →
      ∃ a', elems env len its hb a = .ok (hb', a') ∧ Rel ps.next a' b' ∧ a'.pstack = a.pstack) :
    elem env len (.pg x its) hb ps = .ok r := by
  have hnew := pgOpen_new len x ps hpg
  simp only [elem, bind, Except.bind, hnew] at h
  split at h
  · cases h
  · rename_i v hv
    obtain ⟨hb', b'⟩ := v
    split at h
    · cases h
    · rename_i ps3 hc
      simp only [Except.ok.injEq] at h
      subst h
      have hgd := getDup_newDup_self ps x hf
      have hi : NInv ps.next len hb.kids (pushed (newDup ps x).2 len ps.next) :=
        ⟨rfl, rfl, rfl, by simp [pushed, newDup], _, hgd, by intro k hk; cases hk⟩
      have hfp : (pushed (newDup ps x).2 len ps.next).Fresh := newDup_fresh ps x hf
      have hts : noTaxRangeL (spliceItems its) = true := by rw [spliceItems_noTR]; exact ht
      have gflat := (elem_gen.elems_gen env (spliceItems its) len hb _ hb' b' hts hv).1
      obtain ⟨f, fs, bx, taxa, u, c1, c2, _, c4, c5, _⟩ := pgClose_elim _ _ _ hc
      have hst := gflat.pstack
      rw [c1] at hst
      have hfd : f.did = ps.next := by
        simp only [pushed, List.cons.injEq] at hst
        rw [hst.1]
      rw [hfd] at c2
      obtain ⟨a', e1, r1, p1⟩ := ih _ _ hb' b' hfp hi (Rel.refl _ _) rfl hv
        ⟨bx, taxa, c2, c4, ok_of_mrcaOf taxa u c5⟩
      obtain ⟨u', d1, d2, _⟩ := pgClose_sim hb'.kids a' b' ps3 f fs fs r1
        (p1.trans (gflat.pstack.symm.trans c1)) c1 rfl hc
      simp only [elem, bind, Except.bind, hnew, e1, d2]
      rw [d1, hfd, closed_eq r1]

end NP
namespace NP

mutual
theorem main_elem (env : Env) : (e : Elem) → (len : Nat) → (hb : HogBuild) → (ps : PS) → (r : HogBuild × PS) →
    nestsOk e = true → noTaxRange e = true → ps.Fresh →
    (∀ f fs, ps.pstack = f :: fs → f.depth ≤ len) →
    (isPg e = true → ∀ f fs, ps.pstack = f :: fs → f.depth ≠ len) →
    elem env len (flatElem e) hb ps = .ok r → elem env len e hb ps = .ok r
  | .ref _ _, _, _, _, _, _, _, _, _, _, h => by simpa only [flatElem] using h
  | .score _ _, _, _, _, _, _, _, _, _, _, h => by simpa only [flatElem] using h
  | .prop _ _, _, _, _, _, _, _, _, _, _, h => by simpa only [flatElem] using h
  | .og hid og its, len, hb, ps, r, hn, ht, hf, hdp, _, h => by
    simp only [flatElem] at h
    simp only [nestsOk] at hn
    simp only [noTaxRange] at ht
    rw [elem_og_eq] at h ⊢
    split at h
    · cases h
    · rename_i res ps' hrun
      have := main_ogRun env false len hid og its ps (res, ps')
        (fun hb ps r hf' hd' h' => main_elems env its (len + 1) hb ps r hn ht hf' hd' h') hf hdp hrun
      rw [this]; exact h
  | .pg x its, len, hb, ps, r, hn, ht, hf, _, hpg, h => by
    simp only [flatElem] at h
    simp only [nestsOk] at hn
    simp only [noTaxRange] at ht
    exact main_pg env x its len hb ps r ht hf (hpg rfl) h
      (fun a b hb' b' hf' hi hr hh h' hg => spliceL env its len ps.next hb a b hb' b' hn ht hf' hi hr hh h' hg)
theorem main_elems (env : Env) : (es : List Elem) → (len : Nat) → (hb : HogBuild) → (ps : PS) →
    (r : HogBuild × PS) → nestsOkL es = true → noTaxRangeL es = true → ps.Fresh →
    (∀ f fs, ps.pstack = f :: fs → f.depth < len) →
    elems env len (flatItems es) hb ps = .ok r → elems env len es hb ps = .ok r
  | [], _, _, _, _, _, _, _, _, h => by simpa only [flatItems] using h
  | e :: es, len, hb, ps, r, hn, ht, hf, hdp, h => by
    simp only [nestsOkL, Bool.and_eq_true] at hn
    simp only [noTaxRangeL, Bool.and_eq_true] at ht
    simp only [flatItems, elems, bind, Except.bind] at h ⊢
    split at h
    · cases h
    · rename_i v hv
      obtain ⟨hb1, ps1⟩ := v
      have e1 := main_elem env e len hb ps (hb1, ps1) hn.1 ht.1 hf
        (fun f fs hst => Nat.le_of_lt (hdp f fs hst))
        (fun _ f fs hst => Nat.ne_of_lt (hdp f fs hst)) hv
      have g1 := (elem_gen env e len hb ps hb1 ps1 ht.1 e1).1
      rw [e1]
      exact main_elems env es len hb1 ps1 r hn.2 ht.2 (g1.fresh hf)
        (fun f fs hst => hdp f fs (by rw [← g1.pstack]; exact hst)) h
theorem spliceL (env : Env) : (its : List Elem) → (len d : Nat) → (hb : HogBuild) → (a b : PS) →
    (hb' : HogBuild) → (b' : PS) → nestsOkIn its = true → noTaxRangeL its = true → b.Fresh →
    NInv d len hb.kids b → Rel d a b → hd2 a.pstack = hd2 b.pstack →
    elems env len (spliceItems its) hb b = .ok (hb', b') → GoodEnd d hb'.kids b' →
    ∃ a', elems env len its hb a = .ok (hb', a') ∧ Rel d a' b' ∧ a'.pstack = a.pstack
  | [], len, d, hb, a, b, hb', b', _, _, _, _, hr, _, h, _ => by
    simp only [spliceItems, elems, Except.ok.injEq, Prod.mk.injEq] at h
    obtain ⟨rfl, rfl⟩ := h
    exact ⟨a, rfl, hr, rfl⟩
  | .pg x its1 :: es, len, d, hb, a, b, hb', b', hn, ht, hf, hi, hr, hh, h, hg => by
    have hn' := hn
    simp only [nestsOkIn, Bool.and_eq_true] at hn'
    have ht' := ht
    simp only [noTaxRangeL, noTaxRange, Bool.and_eq_true] at ht'
    exact splice_pg_step env x its1 es hb a b hb' b' hn ht hi hr hh h hg
      (fun a0 hb1 b1 hr0 hh0 h0 hg0 => spliceL env its1 len d hb a0 b hb1 b1 hn'.1.2 ht'.1 hf hi hr0 hh0 h0 hg0)
      (fun hb1 a1 b1 hf1 hi1 hr1 hh1 h1 =>
        spliceL env es len d hb1 a1 b1 hb' b' hn'.2 ht'.2 (hf1 hf) hi1 hr1 hh1 h1 hg)
  | .ref i l :: es, len, d, hb, a, b, hb', b', hn, ht, hf, hi, hr, hh, h, hg => by
    rw [nestsOkIn_cons_nonpg _ _ rfl] at hn
    simp only [Bool.and_eq_true] at hn
    simp only [noTaxRangeL, Bool.and_eq_true] at ht
    exact splice_step env _ es hb a b hb' b' rfl ht.1 hi hr hh h
      (fun r h' => main_elem env _ len hb b r hn.1 ht.1 hf hi.depth_le (fun hp => by cases hp) h')
      (fun hb1 a1 b1 hf1 hi1 hr1 hh1 h1 =>
        spliceL env es len d hb1 a1 b1 hb' b' hn.2 ht.2 (hf1 hf) hi1 hr1 hh1 h1 hg)
  | .score i l :: es, len, d, hb, a, b, hb', b', hn, ht, hf, hi, hr, hh, h, hg => by
    rw [nestsOkIn_cons_nonpg _ _ rfl] at hn
    simp only [Bool.and_eq_true] at hn
    simp only [noTaxRangeL, Bool.and_eq_true] at ht
    exact splice_step env _ es hb a b hb' b' rfl ht.1 hi hr hh h
      (fun r h' => main_elem env _ len hb b r hn.1 ht.1 hf hi.depth_le (fun hp => by cases hp) h')
      (fun hb1 a1 b1 hf1 hi1 hr1 hh1 h1 =>
        spliceL env es len d hb1 a1 b1 hb' b' hn.2 ht.2 (hf1 hf) hi1 hr1 hh1 h1 hg)
  | .prop i l :: es, len, d, hb, a, b, hb', b', hn, ht, hf, hi, hr, hh, h, hg => by
    rw [nestsOkIn_cons_nonpg _ _ rfl] at hn
    simp only [Bool.and_eq_true] at hn
    simp only [noTaxRangeL, Bool.and_eq_true] at ht
    exact splice_step env _ es hb a b hb' b' rfl ht.1 hi hr hh h
      (fun r h' => main_elem env _ len hb b r hn.1 ht.1 hf hi.depth_le (fun hp => by cases hp) h')
      (fun hb1 a1 b1 hf1 hi1 hr1 hh1 h1 =>
        spliceL env es len d hb1 a1 b1 hb' b' hn.2 ht.2 (hf1 hf) hi1 hr1 hh1 h1 hg)
  | .og i l its :: es, len, d, hb, a, b, hb', b', hn, ht, hf, hi, hr, hh, h, hg => by
    rw [nestsOkIn_cons_nonpg _ _ rfl] at hn
    simp only [Bool.and_eq_true] at hn
    simp only [noTaxRangeL, Bool.and_eq_true] at ht
    exact splice_step env _ es hb a b hb' b' rfl ht.1 hi hr hh h
      (fun r h' => main_elem env _ len hb b r hn.1 ht.1 hf hi.depth_le (fun hp => by cases hp) h')
      (fun hb1 a1 b1 hf1 hi1 hr1 hh1 h1 =>
        spliceL env es len d hb1 a1 b1 hb' b' hn.2 ht.2 (hf1 hf) hi1 hr1 hh1 h1 hg)
end

end NP
namespace NP

/-! ### the top of <groups> -/

def keepOf (flt : HogFilter) (hid : Option String) : Except Err Bool :=
  match flt with
  | none => .ok true
  | some ids => match hid with
    | none => .error .key
    | some i => .ok (ids.contains i)

theorem topElem_og_eq (env : Env) (flt : HogFilter) (hid og : Option String) (its : List Elem)
    (tops : List Node) (ps : PS) :
    topElem env flt (.og hid og its) tops ps =
      match keepOf flt hid with
      | .error e => .error e
      | .ok false => .ok (tops, ps)
      | .ok true =>
        match ogRun env true 0 hid og its ps with
        | .error e => .error e
        | .ok (res, ps') => .ok (tops ++ res, ps') := by
  have key : (do
      let uid := ps.next
      let ps := ({ ps with next := ps.next + 1 } : PS)
      let flag := if ps.inPG == some 0 then ps.cur else none
      let ps := match flag with | some d => ps.addMember d (.h uid) | none => ps
      let (nb, ps) ← elems env 1 its { info := newInfo uid hid og, dup := flag, kids := [] } ps
      let (res, ps) ← closeOg env true nb ps
      (.ok (tops ++ res, ps) : Except Err (List Node × PS))) =
      (match ogRun env true 0 hid og its ps with
        | .error e => .error e
        | .ok (res, ps') => .ok (tops ++ res, ps')) := by
    simp only [ogRun, ogOpen, ogFlag, bind, Except.bind]
    generalize elems env (0 + 1) its _ _ = R
    cases R with
    | error e => rfl
    | ok v =>
      obtain ⟨nb, ps2⟩ := v
      simp only
      cases closeOg env true nb ps2 with
      | error e => rfl
      | ok w => rfl
  cases flt with
  | none =>
    simp only [topElem, keepOf, bind, Except.bind, pure, Except.pure]
    exact key
  | some ids =>
    cases hid with
    | none => simp only [topElem, keepOf, bind, Except.bind, throw, throwThe, MonadExceptOf.throw]
    | some i =>
      simp only [topElem, keepOf, bind, Except.bind, pure, Except.pure]
      cases ids.contains i with
      | false => simp
      | true =>
        simp only [Bool.not_true, Bool.false_eq_true, if_false]
        exact key

end NP
/-- elements that add a member to an enclosing TOP-LEVEL paralogGroup when the load keeps only the
    families selected by `flt` (a geneRef there is rejected by the loader anyway) -/
def memberF (flt : HogFilter) : Elem → Bool
  | .ref _ _ => true
  | .og hid _ _ =>
    match flt with
    | none => true
    | some ids => match hid with
      | some i => ids.contains i
      | none => false
  | _ => false

mutual
/-- `nestsOk` for the top of <groups> under a filter: a directly nested paralogGroup must keep a member -/
def nestsOkF (flt : HogFilter) : Elem → Bool
  | .og _ _ its => nestsOkL its
  | .pg _ its => nestsOkInF flt its
  | _ => true
def nestsOkLF (flt : HogFilter) : List Elem → Bool
  | [] => true
  | e :: es => nestsOkF flt e && nestsOkLF flt es
def nestsOkInF (flt : HogFilter) : List Elem → Bool
  | [] => true
  | .pg _ its :: es => (spliceItems its).any (memberF flt) && nestsOkInF flt its && nestsOkInF flt es
  | e :: es => nestsOkF flt e && nestsOkInF flt es
end

namespace NP

theorem memberF_none (e : Elem) : memberF none e = isMember e := by
  cases e <;> rfl

mutual
theorem nestsOkF_none : (e : Elem) → nestsOkF none e = nestsOk e
  | .ref _ _ => rfl
  | .score _ _ => rfl
  | .prop _ _ => rfl
  | .og _ _ its => by simp only [nestsOkF, nestsOk]
  | .pg _ its => by simp only [nestsOkF, nestsOk]; exact nestsOkInF_none its
theorem nestsOkLF_none : (es : List Elem) → nestsOkLF none es = nestsOkL es
  | [] => rfl
  | e :: es => by simp only [nestsOkLF, nestsOkL, nestsOkF_none e, nestsOkLF_none es]
theorem nestsOkInF_none : (es : List Elem) → nestsOkInF none es = nestsOkIn es
  | [] => rfl
  | .pg _ its :: es => by
    have : (fun e => memberF none e) = isMember := funext memberF_none
    simp only [nestsOkInF, nestsOkIn, nestsOkInF_none its, nestsOkInF_none es]
    congr 2
  | .ref a b :: es => by simp only [nestsOkInF, nestsOkIn, nestsOkF_none, nestsOkInF_none es]
  | .score a b :: es => by simp only [nestsOkInF, nestsOkIn, nestsOkF_none, nestsOkInF_none es]
  | .prop a b :: es => by simp only [nestsOkInF, nestsOkIn, nestsOkF_none, nestsOkInF_none es]
  | .og a b c :: es => by simp only [nestsOkInF, nestsOkIn, nestsOkF_none, nestsOkInF_none es]
end

theorem nestsOkInF_cons_nonpg (flt : HogFilter) (e : Elem) (es : List Elem) (h : isPg e = false) :
    nestsOkInF flt (e :: es) = (nestsOkF flt e && nestsOkInF flt es) := by
  cases e with
  | pg _ _ => cases h
  | _ => simp only [nestsOkInF]

theorem topElem_gen (env : Env) (flt : HogFilter) : (e : Elem) → (tops : List Node) → (ps : PS) →
    (tops' : List Node) → (ps' : PS) → noTaxRange e = true →
    topElem env flt e tops ps = .ok (tops', ps') → Gen ps ps'
  | .ref id loft, tops, ps, tops', ps', _, h => by
    simp only [topElem] at h
    split at h <;> cases h
  | .score id v, tops, ps, tops', ps', _, h => by simp only [topElem] at h; cases h
  | .prop n v, tops, ps, tops', ps', _, h => by simp only [topElem] at h; cases h
  | .pg pgid its, tops, ps, tops', ps', hn, h => by
    simp only [topElem, bind, Except.bind] at h
    split at h
    · cases h
    · rename_i v hv
      obtain ⟨tops1, ps2⟩ := v
      split at h
      · cases h
      · rename_i ps3 hc
        simp only [Except.ok.injEq, Prod.mk.injEq] at h
        obtain ⟨rfl, rfl⟩ := h
        simp only [noTaxRange] at hn
        have g1 := topElems_gen env flt its tops _ tops1 ps2 hn hv
        obtain ⟨g, o1, o2, o3, _⟩ := pgOpen_gen 0 pgid ps
        obtain ⟨f, fs, bx, taxa, u, c1, _, _, _, _, c6⟩ := pgClose_elim _ _ _ hc
        have hst : ps2.pstack = g :: ps.pstack := g1.pstack.trans o1
        rw [c1] at hst
        simp only [List.cons.injEq] at hst
        obtain ⟨c2, c3, c4, c5⟩ := closed_gen ps2 fs f.did u
        refine ⟨?_, ?_, ?_, ?_⟩
        · rw [c6, c2, hst.2]
        · rw [c6, c3]; exact Nat.le_trans o2 g1.next
        · intro hf; rw [c6]; exact c4 (g1.fresh (o3 hf))
        · intro _; rw [c6]; exact c5
  | .og hid og its, tops, ps, tops', ps', hn, h => by
    rw [topElem_og_eq] at h
    simp only [noTaxRange] at hn
    split at h
    · cases h
    · simp only [Except.ok.injEq, Prod.mk.injEq] at h
      obtain ⟨rfl, rfl⟩ := h
      exact Gen.refl _
    · split at h
      · cases h
      · rename_i res ps1 hr
        simp only [Except.ok.injEq, Prod.mk.injEq] at h
        obtain ⟨rfl, rfl⟩ := h
        exact (ogRun_gen env true 0 hid og its ps res ps1
          (fun hb ps hb' ps' h => elem_gen.elems_gen env its (0 + 1) hb ps hb' ps' hn h) hr).1
where
  topElems_gen (env : Env) (flt : HogFilter) : (es : List Elem) → (tops : List Node) → (ps : PS) →
      (tops' : List Node) → (ps' : PS) → noTaxRangeL es = true →
      topElems env flt es tops ps = .ok (tops', ps') → Gen ps ps'
    | [], tops, ps, tops', ps', _, h => by
      simp only [topElems, Except.ok.injEq, Prod.mk.injEq] at h
      obtain ⟨rfl, rfl⟩ := h
      exact Gen.refl _
    | e :: es, tops, ps, tops', ps', hn, h => by
      simp only [topElems, bind, Except.bind] at h
      split at h
      · cases h
      · rename_i v hv
        obtain ⟨tops1, ps1⟩ := v
        simp only [noTaxRangeL, Bool.and_eq_true] at hn
        exact (topElem_gen env flt e tops ps tops1 ps1 hn.1 hv).trans
          (topElems_gen env flt es tops1 ps1 tops' ps' hn.2 h)

theorem nest_top {d : Nat} (env : Env) (flt : HogFilter) (e : Elem) (tops : List Node) (a b : PS)
    (tops1 : List Node) (b1 : PS)
    (hp : isPg e = false) (ht : noTaxRange e = true) (hi : NInv d 0 tops b) (hr : Rel d a b)
    (hh : hd2 a.pstack = hd2 b.pstack) (h : topElem env flt e tops b = .ok (tops1, b1)) :
    ∃ a1, topElem env flt e tops a = .ok (tops1, a1) ∧ Rel d a1 b1 ∧ hd2 a1.pstack = hd2 b1.pstack ∧
      NInv d 0 tops1 b1 ∧ ∃ K2 M2, tops1 = tops ++ K2 ∧ Grow d b b1 M2 ∧
        (memberF flt e = true → M2 ≠ []) := by
  cases e with
  | pg x its => cases hp
  | score id v => simp only [topElem] at h; cases h
  | prop n v => simp only [topElem] at h; cases h
  | ref id loft => simp only [topElem] at h; split at h <;> cases h
  | og hid og its =>
    simp only [noTaxRange] at ht
    rw [topElem_og_eq] at h ⊢
    split at h
    · cases h
    · rename_i hk
      simp only [Except.ok.injEq, Prod.mk.injEq] at h
      obtain ⟨rfl, rfl⟩ := h
      obtain ⟨bx, hbx, _⟩ := hi.mem
      refine ⟨a, rfl, hr, hh, hi, [], [], by simp, ⟨bx, bx, hbx, hbx, by simp⟩, ?_⟩
      intro hm
      exfalso
      unfold keepOf at hk
      unfold memberF at hm
      cases flt with
      | none => simp at hk
      | some ids =>
        cases hid with
        | none => simp at hk
        | some i => simp only [Except.ok.injEq] at hk; simp only at hm; rw [hk] at hm; cases hm
    · rename_i hk
      split at h
      · cases h
      · rename_i res b' hrun
        simp only [Except.ok.injEq, Prod.mk.injEq] at h
        obtain ⟨rfl, rfl⟩ := h
        obtain ⟨a', e1, r1, h1, i1, g1⟩ := nest_ogRun env true hid og its tops a b res b' ht hi hr hh hrun
        refine ⟨a', ?_, r1, h1, i1, res, _, rfl, g1, fun _ => by simp⟩
        simp only [e1]

theorem flatSegT {d : Nat} (env : Env) (flt : HogFilter) : (L : List Elem) → (tops : List Node) → (b : PS) →
    (tops' : List Node) → (b' : PS) → (∀ e ∈ L, isPg e = false) → noTaxRangeL L = true → NInv d 0 tops b →
    topElems env flt L tops b = .ok (tops', b') →
    NInv d 0 tops' b' ∧ ∃ K2 M2, tops' = tops ++ K2 ∧ Grow d b b' M2 ∧
      (L.any (memberF flt) = true → M2 ≠ [])
  | [], tops, b, tops', b', _, _, hi, h => by
    simp only [topElems, Except.ok.injEq, Prod.mk.injEq] at h
    obtain ⟨rfl, rfl⟩ := h
    obtain ⟨bx, hbx, _⟩ := hi.mem
    exact ⟨hi, [], [], by simp, ⟨bx, bx, hbx, hbx, by simp⟩, fun h => by simp at h⟩
  | e :: L, tops, b, tops', b', hp, ht, hi, h => by
    simp only [noTaxRangeL, Bool.and_eq_true] at ht
    simp only [topElems, bind, Except.bind] at h
    split at h
    · cases h
    · rename_i v hv
      obtain ⟨tops1, b1⟩ := v
      obtain ⟨_, _, _, _, i1, K1, M1, k1, g1, m1⟩ := nest_top env flt e tops b b tops1 b1
        (hp e (List.mem_cons_self ..)) ht.1 hi (Rel.refl d b) rfl hv
      obtain ⟨i2, K2, M2, k2, g2, m2⟩ := flatSegT env flt L tops1 b1 tops' b'
        (fun e' he' => hp e' (List.mem_cons_of_mem _ he')) ht.2 i1 h
      refine ⟨i2, K1 ++ K2, M1 ++ M2, by rw [k2, k1, List.append_assoc], g1.trans g2, ?_⟩
      intro hany
      simp only [List.any_cons, Bool.or_eq_true] at hany
      rcases hany with h1 | h2
      · have := m1 h1
        intro e0; exact this (List.append_eq_nil_iff.mp e0).1
      · have := m2 h2
        intro e0; exact this (List.append_eq_nil_iff.mp e0).2

theorem topElems_append (env : Env) (flt : HogFilter) : (L1 L2 : List Elem) → (tops : List Node) → (ps : PS) →
    topElems env flt (L1 ++ L2) tops ps =
      match topElems env flt L1 tops ps with
      | .error e => .error e
      | .ok (tops1, ps1) => topElems env flt L2 tops1 ps1
  | [], L2, tops, ps => by simp only [List.nil_append, topElems]
  | e :: L1, L2, tops, ps => by
    simp only [List.cons_append, topElems, bind, Except.bind]
    cases topElem env flt e tops ps with
    | error err => rfl
    | ok v =>
      obtain ⟨tops1, ps1⟩ := v
      simp only []
      exact topElems_append env flt L1 L2 tops1 ps1

end NP
namespace NP

theorem spliceT_step {d : Nat} (env : Env) (flt : HogFilter) (e : Elem) (es : List Elem) (tops : List Node)
    (a b : PS) (tops' : List Node) (b' : PS) (hp : isPg e = false) (ht : noTaxRange e = true)
    (hi : NInv d 0 tops b) (hr : Rel d a b) (hh : hd2 a.pstack = hd2 b.pstack)
    (h : topElems env flt (spliceItems (e :: es)) tops b = .ok (tops', b'))
    (hmain : ∀ r, topElem env flt (flatElem e) tops b = .ok r → topElem env flt e tops b = .ok r)
    (hrec : ∀ tops1 a1 b1, (b.Fresh → b1.Fresh) → NInv d 0 tops1 b1 → Rel d a1 b1 →
      hd2 a1.pstack = hd2 b1.pstack → topElems env flt (spliceItems es) tops1 b1 = .ok (tops', b') →
      ∃ a', topElems env flt es tops1 a1 = .ok (tops', a') ∧ Rel d a' b' ∧ a'.pstack = a1.pstack) :
    ∃ a', topElems env flt (e :: es) tops a = .ok (tops', a') ∧ Rel d a' b' ∧ a'.pstack = a.pstack := by
  rw [spliceItems_cons_nonpg e es hp] at h
  simp only [topElems, bind, Except.bind] at h
  split at h
  · cases h
  · rename_i v hv
    obtain ⟨tops1, b1⟩ := v
    have hv' := hmain _ hv
    obtain ⟨a1, e1, r1, h1, i1, _⟩ := nest_top env flt e tops a b tops1 b1 hp ht hi hr hh hv'
    have gb := topElem_gen env flt e tops b tops1 b1 ht hv'
    have ga := topElem_gen env flt e tops a tops1 a1 ht e1
    obtain ⟨a', e2, r2, p2⟩ := hrec tops1 a1 b1 gb.fresh i1 r1 h1 h
    refine ⟨a', ?_, r2, p2.trans ga.pstack⟩
    simp only [topElems, bind, Except.bind, e1]
    exact e2

theorem spliceT_pg_step {d : Nat} (env : Env) (flt : HogFilter) (x : Option String) (its1 es : List Elem)
    (tops : List Node) (a b : PS) (tops' : List Node) (b' : PS)
    (hn : nestsOkInF flt (.pg x its1 :: es) = true) (ht : noTaxRangeL (.pg x its1 :: es) = true)
    (hi : NInv d 0 tops b) (hr : Rel d a b) (hh : hd2 a.pstack = hd2 b.pstack)
    (h : topElems env flt (spliceItems (.pg x its1 :: es)) tops b = .ok (tops', b'))
    (hg : GoodEnd d tops' b')
    (ih1 : ∀ a0 tops1 b1, Rel d a0 b → hd2 a0.pstack = hd2 b.pstack →
      topElems env flt (spliceItems its1) tops b = .ok (tops1, b1) → GoodEnd d tops1 b1 →
      ∃ a1, topElems env flt its1 tops a0 = .ok (tops1, a1) ∧ Rel d a1 b1 ∧ a1.pstack = a0.pstack)
    (ih2 : ∀ tops1 a1 b1, (b.Fresh → b1.Fresh) → NInv d 0 tops1 b1 → Rel d a1 b1 →
      hd2 a1.pstack = hd2 b1.pstack → topElems env flt (spliceItems es) tops1 b1 = .ok (tops', b') →
      ∃ a', topElems env flt es tops1 a1 = .ok (tops', a') ∧ Rel d a' b' ∧ a'.pstack = a1.pstack) :
    ∃ a', topElems env flt (.pg x its1 :: es) tops a = .ok (tops', a') ∧ Rel d a' b' ∧ a'.pstack = a.pstack := by
  simp only [nestsOkInF, Bool.and_eq_true] at hn
  obtain ⟨⟨hany, _⟩, _⟩ := hn
  simp only [noTaxRangeL, noTaxRange, Bool.and_eq_true] at ht
  have ht1 : noTaxRangeL (spliceItems its1) = true := by rw [spliceItems_noTR]; exact ht.1
  have ht2 : noTaxRangeL (spliceItems es) = true := by rw [spliceItems_noTR]; exact ht.2
  simp only [spliceItems] at h
  rw [topElems_append] at h
  split at h
  · cases h
  · rename_i tops1 b1 hv
    obtain ⟨i1, K1, M1, k1, g1, m1⟩ := flatSegT env flt _ tops b tops1 b1 (spliceItems_noPg its1) ht1 hi hv
    obtain ⟨i2, K2, M2, k2, g2, _⟩ := flatSegT env flt _ tops1 b1 tops' b' (spliceItems_noPg es) ht2 i1 h
    have hM1 := m1 hany
    obtain ⟨bx0, bx1, q1, q2, q3⟩ := g1
    obtain ⟨bx1', bx2, q4, q5, q6⟩ := g2
    rw [q2] at q4; cases q4
    have hne : bx1.members ≠ [] := by
      rw [q3]; intro e0; exact hM1 (List.append_eq_nil_iff.mp e0).2
    obtain ⟨by1, hy1, hmem1⟩ := i1.mem
    rw [q2] at hy1; cases hy1
    obtain ⟨bxe, taxa, w1, w2, w3⟩ := hg
    rw [q5] at w1; cases w1
    rw [k2, q6] at w2
    obtain ⟨t1, w4, w5⟩ := partial_ok tops1 K2 bx1.members M2 taxa w2 w3 hmem1 hne
    obtain ⟨u, hu⟩ := mrcaOf_of_ok t1 w5
    rw [hi.hd] at hh
    obtain ⟨f', fs', ha, hd1, hd2'⟩ := hd2_eq_some hh
    simp only at hd1 hd2'
    have eopen := pgOpen_reuse 0 x a f' fs' ha hd1
    rw [hd2'] at eopen
    have r0 : Rel d (pushed a 0 d) b :=
      ⟨hi.inpg.symm, hi.cur.symm, hr.next, hr.reg, hr.ds⟩
    obtain ⟨a1, e1, r1, p1⟩ := ih1 (pushed a 0 d) tops1 b1 r0 (by rw [hi.hd]; rfl) hv ⟨bx1, t1, q2, w4, w5⟩
    obtain ⟨ax0, ha0, hm0, _⟩ := hr.getDup_some q1
    obtain ⟨ax1, ha1, hm1, _⟩ := r1.getDup_some q2
    have hsz : (pushed a 0 d).pstack = { depth := 0, did := d, size := bx0.members.length } :: a.pstack := by
      simp only [pushed, ha0, hm0]
    have eclose := pgClose_intro tops1 a1 { depth := 0, did := d, size := bx0.members.length } a.pstack
      ax1 t1 u (p1.trans hsz) ha1
      (by rw [hm1, q3]; simp only [List.length_append]
          have : M1.length ≠ 0 := fun e0 => hM1 (List.length_eq_zero_iff.mp e0)
          omega)
      (by rw [hm1]; exact w4) hu
    simp only at eclose
    have r2 : Rel d (closed a1 a.pstack d u) b1 := by
      refine ⟨?_, ?_, r1.next, r1.reg, (r1.setm_left (some u)).ds⟩
      · rw [i1.inpg, ha]; simp only [closed, List.head?_cons, Option.map_some, hd1]
      · rw [i1.cur, ha]; simp only [closed, List.head?_cons, Option.map_some, hd2']
    have gb1 := topElem_gen.topElems_gen env flt _ tops b tops1 b1 ht1 hv
    obtain ⟨a', e2, r3, p3⟩ := ih2 tops1 (closed a1 a.pstack d u) b1 gb1.fresh i1 r2
      (by rw [i1.hd]; show hd2 a.pstack = _; rw [ha, hd2_cons, hd1, hd2']) h
    refine ⟨a', ?_, r3, p3⟩
    simp only [topElems, topElem, bind, Except.bind, eopen, e1, eclose]
    exact e2

theorem main_top_pg (env : Env) (flt : HogFilter) (x : Option String) (its : List Elem) (tops : List Node)
    (ps : PS) (r : List Node × PS) (ht : noTaxRangeL its = true) (hf : ps.Fresh)
    (hpg : ∀ f fs, ps.pstack = f :: fs → f.depth ≠ 0)
    (h : topElem env flt (.pg x (spliceItems its)) tops ps = .ok r)
    (ih : ∀ a b tops' b', b.Fresh → NInv ps.next 0 tops b → Rel ps.next a b →
      hd2 a.pstack = hd2 b.pstack → topElems env flt (spliceItems its) tops b = .ok (tops', b') →
      GoodEnd ps.next tops' b' →
      ∃ a', topElems env flt its tops a = .ok (tops', a') ∧ Rel ps.next a' b' ∧ a'.pstack = a.pstack) :
    topElem env flt (.pg x its) tops ps = .ok r := by
  have hnew := pgOpen_new 0 x ps hpg
  simp only [topElem, bind, Except.bind, hnew] at h
  split at h
  · cases h
  · rename_i v hv
    obtain ⟨tops', b'⟩ := v
    split at h
    · cases h
    · rename_i ps3 hc
      simp only [Except.ok.injEq] at h
      subst h
      have hgd := getDup_newDup_self ps x hf
      have hi : NInv ps.next 0 tops (pushed (newDup ps x).2 0 ps.next) :=
        ⟨rfl, rfl, rfl, by simp [pushed, newDup], _, hgd, by intro k hk; cases hk⟩
      have hfp : (pushed (newDup ps x).2 0 ps.next).Fresh := newDup_fresh ps x hf
      have hts : noTaxRangeL (spliceItems its) = true := by rw [spliceItems_noTR]; exact ht
      have gflat := topElem_gen.topElems_gen env flt (spliceItems its) tops _ tops' b' hts hv
      obtain ⟨f, fs, bx, taxa, u, c1, c2, _, c4, c5, _⟩ := pgClose_elim _ _ _ hc
      have hst := gflat.pstack
      rw [c1] at hst
      have hfd : f.did = ps.next := by
        simp only [pushed, List.cons.injEq] at hst
        rw [hst.1]
      rw [hfd] at c2
      obtain ⟨a', e1, r1, p1⟩ := ih _ _ tops' b' hfp hi (Rel.refl _ _) rfl hv
        ⟨bx, taxa, c2, c4, ok_of_mrcaOf taxa u c5⟩
      obtain ⟨u', d1, d2, _⟩ := pgClose_sim tops' a' b' ps3 f fs fs r1
        (p1.trans (gflat.pstack.symm.trans c1)) c1 rfl hc
      simp only [topElem, bind, Except.bind, hnew, e1, d2]
      rw [d1, hfd, closed_eq r1]

mutual
theorem main_top (env : Env) (flt : HogFilter) : (e : Elem) → (tops : List Node) → (ps : PS) →
    (r : List Node × PS) → nestsOkF flt e = true → noTaxRange e = true → ps.Fresh →
    (∀ f fs, ps.pstack = f :: fs → f.depth ≤ 0) →
    (isPg e = true → ∀ f fs, ps.pstack = f :: fs → f.depth ≠ 0) →
    topElem env flt (flatElem e) tops ps = .ok r → topElem env flt e tops ps = .ok r
  | .ref _ _, _, _, _, _, _, _, _, _, h => by simpa only [flatElem] using h
  | .score _ _, _, _, _, _, _, _, _, _, h => by simpa only [flatElem] using h
  | .prop _ _, _, _, _, _, _, _, _, _, h => by simpa only [flatElem] using h
  | .og hid og its, tops, ps, r, hn, ht, hf, hdp, _, h => by
    simp only [flatElem] at h
    simp only [nestsOkF] at hn
    simp only [noTaxRange] at ht
    rw [topElem_og_eq] at h ⊢
    split at h
    · cases h
    · exact h
    · split at h
      · cases h
      · rename_i res ps' hrun
        have := main_ogRun env true 0 hid og its ps (res, ps')
          (fun hb ps r hf' hd' h' => main_elems env its (0 + 1) hb ps r hn ht hf' hd' h') hf hdp hrun
        simp only [this]; exact h
  | .pg x its, tops, ps, r, hn, ht, hf, _, hpg, h => by
    simp only [flatElem] at h
    simp only [nestsOkF] at hn
    simp only [noTaxRange] at ht
    exact main_top_pg env flt x its tops ps r ht hf (hpg rfl) h
      (fun a b tops' b' hf' hi hr hh h' hg => spliceT env flt its ps.next tops a b tops' b' hn ht hf' hi hr hh h' hg)
theorem main_tops (env : Env) (flt : HogFilter) : (es : List Elem) → (tops : List Node) → (ps : PS) →
    (r : List Node × PS) → nestsOkLF flt es = true → noTaxRangeL es = true → ps.Fresh →
    ps.pstack = [] →
    topElems env flt (flatItems es) tops ps = .ok r → topElems env flt es tops ps = .ok r
  | [], _, _, _, _, _, _, _, h => by simpa only [flatItems] using h
  | e :: es, tops, ps, r, hn, ht, hf, hst, h => by
    simp only [nestsOkLF, Bool.and_eq_true] at hn
    simp only [noTaxRangeL, Bool.and_eq_true] at ht
    simp only [flatItems, topElems, bind, Except.bind] at h ⊢
    split at h
    · cases h
    · rename_i v hv
      obtain ⟨tops1, ps1⟩ := v
      have e1 := main_top env flt e tops ps (tops1, ps1) hn.1 ht.1 hf
        (fun f fs h0 => by rw [hst] at h0; cases h0)
        (fun _ f fs h0 => by rw [hst] at h0; cases h0) hv
      have g1 := topElem_gen env flt e tops ps tops1 ps1 ht.1 e1
      rw [e1]
      exact main_tops env flt es tops1 ps1 r hn.2 ht.2 (g1.fresh hf) (g1.pstack.trans hst) h
theorem spliceT (env : Env) (flt : HogFilter) : (its : List Elem) → (d : Nat) → (tops : List Node) → (a b : PS) →
    (tops' : List Node) → (b' : PS) → nestsOkInF flt its = true → noTaxRangeL its = true → b.Fresh →
    NInv d 0 tops b → Rel d a b → hd2 a.pstack = hd2 b.pstack →
    topElems env flt (spliceItems its) tops b = .ok (tops', b') → GoodEnd d tops' b' →
    ∃ a', topElems env flt its tops a = .ok (tops', a') ∧ Rel d a' b' ∧ a'.pstack = a.pstack
  | [], d, tops, a, b, tops', b', _, _, _, _, hr, _, h, _ => by
    simp only [spliceItems, topElems, Except.ok.injEq, Prod.mk.injEq] at h
    obtain ⟨rfl, rfl⟩ := h
    exact ⟨a, rfl, hr, rfl⟩
  | .pg x its1 :: es, d, tops, a, b, tops', b', hn, ht, hf, hi, hr, hh, h, hg => by
    have hn' := hn
    simp only [nestsOkInF, Bool.and_eq_true] at hn'
    have ht' := ht
    simp only [noTaxRangeL, noTaxRange, Bool.and_eq_true] at ht'
    exact spliceT_pg_step env flt x its1 es tops a b tops' b' hn ht hi hr hh h hg
      (fun a0 tops1 b1 hr0 hh0 h0 hg0 =>
        spliceT env flt its1 d tops a0 b tops1 b1 hn'.1.2 ht'.1 hf hi hr0 hh0 h0 hg0)
      (fun tops1 a1 b1 hf1 hi1 hr1 hh1 h1 =>
        spliceT env flt es d tops1 a1 b1 tops' b' hn'.2 ht'.2 (hf1 hf) hi1 hr1 hh1 h1 hg)
  | .ref i l :: es, d, tops, a, b, tops', b', hn, ht, hf, hi, hr, hh, h, hg => by
    rw [nestsOkInF_cons_nonpg _ _ _ rfl] at hn
    simp only [Bool.and_eq_true] at hn
    simp only [noTaxRangeL, Bool.and_eq_true] at ht
    exact spliceT_step env flt _ es tops a b tops' b' rfl ht.1 hi hr hh h
      (fun r h' => main_top env flt _ tops b r hn.1 ht.1 hf hi.depth_le (fun hp => by cases hp) h')
      (fun tops1 a1 b1 hf1 hi1 hr1 hh1 h1 =>
        spliceT env flt es d tops1 a1 b1 tops' b' hn.2 ht.2 (hf1 hf) hi1 hr1 hh1 h1 hg)
  | .score i l :: es, d, tops, a, b, tops', b', hn, ht, hf, hi, hr, hh, h, hg => by
    rw [nestsOkInF_cons_nonpg _ _ _ rfl] at hn
    simp only [Bool.and_eq_true] at hn
    simp only [noTaxRangeL, Bool.and_eq_true] at ht
    exact spliceT_step env flt _ es tops a b tops' b' rfl ht.1 hi hr hh h
      (fun r h' => main_top env flt _ tops b r hn.1 ht.1 hf hi.depth_le (fun hp => by cases hp) h')
      (fun tops1 a1 b1 hf1 hi1 hr1 hh1 h1 =>
        spliceT env flt es d tops1 a1 b1 tops' b' hn.2 ht.2 (hf1 hf) hi1 hr1 hh1 h1 hg)
  | .prop i l :: es, d, tops, a, b, tops', b', hn, ht, hf, hi, hr, hh, h, hg => by
    rw [nestsOkInF_cons_nonpg _ _ _ rfl] at hn
    simp only [Bool.and_eq_true] at hn
    simp only [noTaxRangeL, Bool.and_eq_true] at ht
    exact spliceT_step env flt _ es tops a b tops' b' rfl ht.1 hi hr hh h
      (fun r h' => main_top env flt _ tops b r hn.1 ht.1 hf hi.depth_le (fun hp => by cases hp) h')
      (fun tops1 a1 b1 hf1 hi1 hr1 hh1 h1 =>
        spliceT env flt es d tops1 a1 b1 tops' b' hn.2 ht.2 (hf1 hf) hi1 hr1 hh1 h1 hg)
  | .og i l its :: es, d, tops, a, b, tops', b', hn, ht, hf, hi, hr, hh, h, hg => by
    rw [nestsOkInF_cons_nonpg _ _ _ rfl] at hn
    simp only [Bool.and_eq_true] at hn
    simp only [noTaxRangeL, Bool.and_eq_true] at ht
    exact spliceT_step env flt _ es tops a b tops' b' rfl ht.1 hi hr hh h
      (fun r h' => main_top env flt _ tops b r hn.1 ht.1 hf hi.depth_le (fun hp => by cases hp) h')
      (fun tops1 a1 b1 hf1 hi1 hr1 hh1 h1 =>
        spliceT env flt es d tops1 a1 b1 tops' b' hn.2 ht.2 (hf1 hf) hi1 hr1 hh1 h1 hg)
end

end NP
/-!
  ### the statements

  The three statements as first posed (`elems_nested_eq_flat`, `topElems_nested_eq_flat`,
  `C14_nested_eq_flat`, hypotheses `nestsOkL` only) are FALSE:

  * TaxRange collapse.  Closing an orthologGroup that is collapsed into its parent (`TaxRange` equal to
    the name of its only genome) while it is a member of a paralogGroup decrements the depth of the top
    `paralog_stack` frame.  A paralogGroup nested directly AFTER such a member no longer finds a frame of
    its own depth and allocates a second DuplicationNode.  With the species tree R(X(A,B),C) and genes
    a1,a2∈A, b1∈B, c1∈C, the file
      og H [ pg [ og K [prop TaxRange "A", ref a1, ref a2], pg [ref b1] ], ref c1 ]
    and its flattening both load, to different results (one duplication with three copies vs. two
    duplications, different counters and registration logs).  Hence `noTaxRangeL`.
  * arbitrary start state (first two statements).  With `hb.kids = []`, an open frame of depth `len`
    whose duplication already has the member `g "z"`, the items `[pg [pg [ref a], ref z]]` load flat
    (the outer close finds `z`) but not nested (the inner close does not).  Hence `ps.Fresh` and the
    condition that no paralogGroup of depth `len` is open.
  * filtered load (second statement).  `[pg [og FA [ref a1], pg [og FB [ref b1]]]]` with the filter
    keeping only `FA`: the flat spelling loads, the nested one is rejected ("empty paralogGroup").
    Hence `nestsOkLF flt`, which counts only the families the filter keeps (`nestsOkLF none = nestsOkL`).
-/

/-- inside an open orthologGroup: if the flat spelling loads, the nested spelling loads to the same result -/
theorem elems_nested_eq_flat_partial (env : Env) (len : Nat) (es : List Elem) (hb : HogBuild) (ps : PS)
    (r : HogBuild × PS) (hn : nestsOkL es = true) (ht : noTaxRangeL es = true) (hf : ps.Fresh)
    (hd : ∀ f fs, ps.pstack = f :: fs → f.depth < len)
    (h : elems env len (flatItems es) hb ps = .ok r) :
    elems env len es hb ps = .ok r :=
  NP.main_elems env es len hb ps r hn ht hf hd h

/-- the same for the whole group section of a file (unfiltered or filtered load) -/
theorem topElems_nested_eq_flat_partial (env : Env) (flt : HogFilter) (es : List Elem) (tops : List Node)
    (ps : PS) (r : List Node × PS) (hn : nestsOkLF flt es = true) (ht : noTaxRangeL es = true)
    (hf : ps.Fresh) (hst : ps.pstack = [])
    (h : topElems env flt (flatItems es) tops ps = .ok r) :
    topElems env flt es tops ps = .ok r :=
  NP.main_tops env flt es tops ps r hn ht hf hst h

/-- unfiltered: the original hypothesis `nestsOkL` suffices -/
theorem topElems_nested_eq_flat_unfiltered (env : Env) (es : List Elem) (tops : List Node)
    (ps : PS) (r : List Node × PS) (hn : nestsOkL es = true) (ht : noTaxRangeL es = true)
    (hf : ps.Fresh) (hst : ps.pstack = [])
    (h : topElems env none (flatItems es) tops ps = .ok r) :
    topElems env none es tops ps = .ok r :=
  NP.main_tops env none es tops ps r (by rw [NP.nestsOkLF_none]; exact hn) ht hf hst h

/-- **C14 (nested vs flat paralogGroups)**: a file without TaxRange properties and its flattened
    spelling load to the same analysis -/
theorem C14_nested_eq_flat_partial (T : STree) (nm : Naming) (inp : Input) (H : Ham)
    (hn : nestsOkL inp.groups = true) (ht : noTaxRangeL inp.groups = true)
    (h : load T nm { inp with groups := flatItems inp.groups } = .ok H) :
    load T nm inp = .ok H := by
  simp only [load, buildHam, bind, Except.bind] at h ⊢
  split at h
  · cases h
  · rename_i genes hg
    split at h
    · cases h
    · rename_i v hv
      have := topElems_nested_eq_flat_unfiltered _ inp.groups [] {} v hn ht
        (by intro b hb; cases hb) rfl hv
      rw [this]
      exact h

/-- the same for a filtered load, when every directly nested paralogGroup keeps a selected family -/
theorem C14_nested_eq_flat_filtered_partial (T : STree) (nm : Naming) (inp : Input) (keep : String → Bool)
    (flt : HogFilter) (H : Ham)
    (hn : nestsOkLF flt inp.groups = true) (ht : noTaxRangeL inp.groups = true)
    (h : buildHam T nm { inp with groups := flatItems inp.groups } keep flt = .ok H) :
    buildHam T nm inp keep flt = .ok H := by
  simp only [buildHam, bind, Except.bind] at h ⊢
  split at h
  · cases h
  · rename_i genes hg
    split at h
    · cases h
    · rename_i v hv
      have := topElems_nested_eq_flat_partial _ flt inp.groups [] {} v hn ht
        (by intro b hb; cases hb) rfl hv
      rw [this]
      exact h

end Pyham
