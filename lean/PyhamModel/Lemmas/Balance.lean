/-
  C09: the whole-dataset tree profile balances on every branch.
-/
import PyhamModel.Lemmas.Partition
namespace Pyham

theorem dupPut_nonempty (d : List (Node × List Node)) (ho hy : Node)
    (h : ∀ e ∈ d, e.2 ≠ []) : ∀ e ∈ dupPut d ho hy, e.2 ≠ [] := by
  unfold dupPut
  split
  · intro e he
    simp only [List.mem_map] at he
    obtain ⟨e', he', rfl⟩ := he
    split
    · simp
    · exact h e' he'
  · intro e he
    simp only [List.mem_append, List.mem_singleton] at he
    rcases he with he | rfl
    · exact h e he
    · simp

/-- every list of DUPLICATE is non-empty -/
theorem clusters_dupl_nonempty (up : List UpEntry) : ∀ e ∈ (clustersOf up).dupl, e.2 ≠ [] := by
  induction up using snoc_induction with
  | nil => simp [clustersOf]
  | snoc up e ih =>
    rw [clustersOf_snoc]
    rcases e with ⟨hy, _ | ho, _ | _⟩ <;> simp only [clusterStep]
    · exact ih
    · exact ih
    · exact ih
    · exact dupPut_nonempty _ ho hy ih

/-- number of duplication events = total copies - number of duplicated ancestors -/
theorem countDup_eq (d : List (Node × List Node)) (h : ∀ e ∈ d, e.2 ≠ []) :
    countDup d + d.length = (d.map (·.2.length)).sum := by
  induction d with
  | nil => simp [countDup]
  | cons a d ih =>
    have ih := ih (fun e he => h e (List.mem_cons_of_mem _ he))
    have ha : a.2.length ≠ 0 := by
      have := h a (List.mem_cons_self)
      intro h0
      exact this (List.length_eq_zero_iff.mp h0)
    simp only [countDup, List.map_cons, List.sum_cons, List.length_cons] at ih ⊢
    omega

/-- the root carries only its genome size -/
theorem C09_root (H : Ham) :
    profileFullAt H [] = { tx := [], nbr := H.genomeSize [] } := by
  rfl

theorem profileFullAt_nbr (H : Ham) (t : Taxon) : (profileFullAt H t).nbr = H.genomeSize t := by
  cases t <;> rfl

/-- **C09**: on every branch  genes(child) = retained + duplicated + gained  and
    genes(child) + lost = genes(parent) + gained + duplication events -/
theorem C09_balance (H : Ham) (hw : H.WFc) (hs : H.sizesExact = true) (i : Nat) (u : Taxon)
    (ht : (i :: u) ∈ H.tree.allTaxa) (hu : u ∈ H.tree.allTaxa) :
    ∃ nd lost gain ret dpl,
      profileFullAt H (i :: u) =
        { tx := i :: u, nbr := H.genomeSize (i :: u), dupl := some nd, lost := some lost, gain := some gain,
          retained := some ret, duplication := some dpl, nbrEvents := some (dpl + lost + gain) } ∧
      H.genomeSize (i :: u) = ret + nd + gain ∧
      H.genomeSize (i :: u) + lost = H.genomeSize u + gain + dpl ∧
      (profileFullAt H u).nbr = H.genomeSize u := by
  simp only [Ham.sizesExact, List.all_eq_true, beq_iff_eq] at hs
  have h1 := C05_descendant_size H hw u (i :: u)
  have h2 := C05_ancestor_size H hw u (i :: u)
  obtain ⟨_, _, hdp, _, hn⟩ := hogsMap_clusters H u (i :: u)
  have h3 := countDup_eq (hogsMap H u (i :: u)).dupl
    (by rw [hdp]; exact clusters_dupl_nonempty _)
  rw [← hdp] at hn
  refine ⟨((hogsMap H u (i :: u)).dupl.map (·.2.length)).sum, (hogsMap H u (i :: u)).loss.length,
    (hogsMap H u (i :: u)).gain.length, (hogsMap H u (i :: u)).retained.length,
    (hogsMap H u (i :: u)).ndup, rfl, ?_, ?_, profileFullAt_nbr H u⟩
  · rw [hs _ ht]; omega
  · rw [hs _ ht, hs _ hu, hn]; omega

/-- the profile exists for every taxon of the tree (it is a total function), in tree order -/
theorem C09_total (H : Ham) : (profileFull H).map (·.tx) = H.tree.allTaxa := by
  unfold profileFull
  rw [List.map_map]
  conv => rhs; rw [← List.map_id H.tree.allTaxa]
  apply List.map_congr_left
  intro t _
  cases t <;> rfl

end Pyham
