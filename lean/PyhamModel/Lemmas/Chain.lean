/-
  Ancestor chains: in an aligned forest the parent chain of a node at taxon `t` sits at the
  successive tails of `t`.  Basis of the theorems about the upward search (C05, C06, C07).
-/
import PyhamModel.Model.WF
namespace Pyham

/-- `L` is a chain of ancestors above taxon `t`: each element one level above the previous one -/
def Chain : Taxon → List Node → Prop
  | _, [] => True
  | t, x :: xs => (∃ i, t = i :: x.tx) ∧ Chain x.tx xs

theorem oneBelow_iff {t : Taxon} {k : Node} : oneBelow t k = true ↔ ∃ i, k.tx = i :: t := by
  unfold oneBelow
  cases h : k.tx with
  | nil => simp
  | cons i u => simp

/-- every located node of an aligned subtree hangs on a chain -/
theorem chain_locs :
    (n : Node) → (anc : List Node) → n.aligned = true → Chain n.tx anc →
      ∀ l ∈ locs anc n, Chain l.node.tx l.anc
  | .gene i t d lo, anc, _, hc => by
    intro l hl
    simp [locs] at hl
    subst hl
    simpa [Node.tx] using hc
  | .hog info t d ks ds, anc, ha, hc => by
    intro l hl
    simp only [locs, List.mem_cons] at hl
    rcases hl with hl | hl
    · subst hl; simpa [Node.tx] using hc
    · have ha' : alignedL t ks = true := by simpa [Node.aligned] using ha
      exact chain_locsL ks t (.hog info t d ks ds) anc ha' rfl hc l hl
where
  chain_locsL : (ks : List Node) → (t : Taxon) → (p : Node) → (anc : List Node) → alignedL t ks = true →
      p.tx = t → Chain p.tx anc → ∀ l ∈ locsL (p :: anc) ks, Chain l.node.tx l.anc
    | [], _, _, _, _, _, _ => by intro l hl; simp [locsL] at hl
    | k :: ks, t, p, anc, ha, hp, hc => by
      intro l hl
      simp only [locsL, List.mem_append] at hl
      simp only [alignedL, Bool.and_eq_true] at ha
      obtain ⟨⟨hob, hka⟩, hks⟩ := ha
      rcases hl with hl | hl
      · obtain ⟨i, hi⟩ := oneBelow_iff.mp hob
        exact chain_locs k (p :: anc) hka ⟨⟨i, by rw [hi, hp]⟩, hc⟩ l hl
      · exact chain_locsL ks t p anc hks hp hc l hl

/-- on a chain, the i-th ancestor sits `i+1` levels up -/
theorem chain_tx_drop : (t : Taxon) → (L : List Node) → Chain t L →
    ∀ i (h : i < L.length), (L[i]).tx = t.drop (i + 1)
  | _, [], _ => by intro i h; simp at h
  | t, x :: xs, hc => by
    intro i h
    obtain ⟨⟨j, hj⟩, hc'⟩ := hc
    cases i with
    | zero => simp [hj]
    | succ i =>
      have := chain_tx_drop x.tx xs hc' i (by simpa using h)
      simp only [List.getElem_cons_succ, this, hj, List.drop_succ_cons]

theorem chain_length_le : (t : Taxon) → (L : List Node) → Chain t L → L.length ≤ t.length
  | _, [], _ => by simp
  | t, x :: xs, hc => by
    obtain ⟨⟨j, hj⟩, hc'⟩ := hc
    have := chain_length_le x.tx xs hc'
    simp [hj]; omega

end Pyham
