/-
  How many genes of an ancestral genome are LOST over an arbitrary branch `a → d`: on the hierarchy, the members of `a` with
  no member of `d` in their subtree; on the histories of a consistent dataset, the lineages at `a` that are extinct at `d`.
-/
import PyhamModel.Lemmas.GainedCount
import PyhamModel.Lemmas.Clustering
namespace Pyham

/-! ### on the histories -/


/-- a HOG at `a` without any HOG at `d` in its subtree -/
def extinctHere (a d : Taxon) (x : Node) : Bool := x.tx == a && ((x.hogs.filter fun y => y.tx == d).length == 0)

def extinctCountL (a d : Taxon) (ks : List Node) : Nat := ((Node.hogsL ks).filter (extinctHere a d)).length

theorem extinctCountL_nil (a d : Taxon) : extinctCountL a d [] = 0 := by simp [extinctCountL, Node.hogsL]

theorem extinctCountL_cons (a d : Taxon) (k : Node) (ks : List Node) :
    extinctCountL a d (k :: ks) = (k.hogs.filter (extinctHere a d)).length + extinctCountL a d ks := by
  simp [extinctCountL, Node.hogsL]

theorem extinctCountL_append (a d : Taxon) (x y : List Node) :
    extinctCountL a d (x ++ y) = extinctCountL a d x + extinctCountL a d y := by
  simp [extinctCountL, hogsL_eq_flatMap']

theorem extinctCountL_perm (a d : Taxon) {x y : List Node} (h : x.Perm y) : extinctCountL a d x = extinctCountL a d y := by
  simp only [extinctCountL, hogsL_eq_flatMap']
  exact ((h.flatMap_right Node.hogs).filter _).length_eq

mutual
theorem realises_ext (a d q : Taxon) : (l : SL) → (n : Node) → Realises q l n →
    (n.hogs.filter (extinctHere a d)).length = extinctAt a d q l
  | .gene id loft, n, h => by
    simp only [Realises] at h
    obtain ⟨dd, rfl⟩ := h
    simp [Node.hogs, extinctAt]
  | .grp w hid label subs, n, h => by
    have hcnt := realises_count d q (.grp w hid label subs) n h
    simp only [Realises] at h
    obtain ⟨info, dd, kids, dups, rfl, plain, evs, hk, _, _, hs⟩ := h
    have ih := realisesSubs_ext a d q subs plain evs hs
    have hp := extinctCountL_perm a d hk
    rw [extinctCountL_append, ih] at hp
    rw [Node.hogs, extinctAt, List.filter_cons, ← hp]
    have hhead : extinctHere a d (Node.hog info q dd kids dups) =
        (q == a && lineagesAt d q (.grp w hid label subs) == 0) := by
      unfold extinctHere
      rw [hcnt]
      rfl
    rw [hhead]
    unfold extinctCountL
    split <;> simp <;> omega
theorem realisesSubs_ext (a d q : Taxon) : (subs : List Sub) → (plain : List Node) →
    (evs : List (DupRec × List Node)) → RealisesSubs q subs plain evs →
    extinctCountL a d plain + extinctCountL a d (evs.flatMap (·.2)) = extinctAtSubs a d q subs
  | [], plain, evs, h => by
    simp only [RealisesSubs] at h
    obtain ⟨rfl, rfl⟩ := h
    simp [extinctCountL_nil, extinctAtSubs]
  | .one i l :: r, plain, evs, h => by
    simp only [RealisesSubs] at h
    obtain ⟨k, plain', rfl, _, hk, hr⟩ := h
    have ih := realisesSubs_ext a d q r plain' evs hr
    have ik := realises_ext a d (i :: q) l k hk
    rw [extinctCountL_cons, extinctAtSubs, ik, ← ih]
    omega
  | .dup i pgid cs :: r, plain, evs, h => by
    simp only [RealisesSubs] at h
    obtain ⟨rec, ks, evs', rfl, _, _, _, _, hc, hr⟩ := h
    have ih := realisesSubs_ext a d q r plain evs' hr
    have ic := realisesCopies_ext a d (i :: q) cs ks hc
    rw [List.flatMap_cons, extinctCountL_append, extinctAtSubs, ic, ← ih]
    omega
  | .ann e :: r, plain, evs, h => by
    simp only [RealisesSubs] at h
    rw [extinctAtSubs]
    exact realisesSubs_ext a d q r plain evs h
theorem realisesCopies_ext (a d q : Taxon) : (cs : List SL) → (ks : List Node) → RealisesCopies q cs ks →
    extinctCountL a d ks = extinctAtCopies a d q cs
  | [], ks, h => by
    simp only [RealisesCopies] at h
    subst h
    simp [extinctCountL_nil, extinctAtCopies]
  | c :: cs, ks, h => by
    simp only [RealisesCopies] at h
    obtain ⟨k, ks', rfl, hk, hr⟩ := h
    rw [extinctCountL_cons, extinctAtCopies, realises_ext a d q c k hk, realisesCopies_ext a d q cs ks' hr]
end

/-! ### on the hierarchy -/

/-- LOSS, counted through the keys the descendant genome's members were reported under -/
theorem lost_length_seen (H : Ham) (a d : Taxon) :
    (hogsMap H a d).loss.length =
      ((H.nodesAt a).filter fun l => !(clustersOf (upOf H a d)).seen.contains l.node.key).length := by
  rw [(hogsMap_clusters H a d).2.2.2.1, List.filter_map, List.length_map]
  rfl

/-- a member of the genome at `a` is somebody's ancestor in the genome at `d` iff its subtree has a node at `d` -/
theorem seen_iff_subtree (H : Ham) (hw : H.WFc) (a d : Taxon) (hne : a ≠ d) (l : Loc) (hl : l ∈ H.allLocs) (hla : l.node.tx = a) :
    (clustersOf (upOf H a d)).seen.contains l.node.key = true ↔ ∃ y ∈ l.node.nodes, y.tx = d := by
  rw [clusters_seen]
  simp only [List.contains_eq_mem, List.mem_filterMap, upOf, List.mem_map, Option.map_eq_some_iff, decide_eq_true_eq]
  constructor
  · rintro ⟨e, ⟨r, hr, rfl⟩, x, hs, hk⟩
    simp only at hs
    obtain ⟨hrl, hrt⟩ := nodesAt_allLocs hr
    obtain ⟨pre, post, hL, hxa, _, _⟩ := (C06_reported_under H hw a r hrl x (search a r).2).mp (Prod.ext hs rfl)
    -- x is located, hence is l
    rcases mem_allLocs.mp hrl with ⟨p, hp, hlp⟩ | ⟨g, _, rfl⟩
    · obtain ⟨hx, hin⟩ := locs_split p.2 [] r hlp pre x post hL (by simp)
      have hxl : (⟨x, post⟩ : Loc) ∈ H.allLocs := mem_allLocs.mpr (Or.inl ⟨p, hp, hx⟩)
      have := key_inj hw hxl hl hk
      subst this
      refine ⟨r.node, ?_, hrt⟩
      have hn := locs_nodes x post
      rw [← hn]
      exact List.mem_map.mpr ⟨r, hin, rfl⟩
    · simp at hL
  · rintro ⟨y, hy, hyd⟩
    -- the located member for y inside the subtree of l
    have hn := locs_nodes l.node l.anc
    rw [← hn] at hy
    obtain ⟨m, hm, rfl⟩ := List.mem_map.mp hy
    rcases mem_allLocs.mp hl with ⟨p, hp, hlp⟩ | ⟨g, hg, rfl⟩
    · have hmp : m ∈ locs [] p.2 := locs_sub p.2 [] l hlp m hm
      have hml : m ∈ H.allLocs := mem_allLocs.mpr (Or.inl ⟨p, hp, hmp⟩)
      have hmd : m ∈ H.nodesAt d := by
        simp only [Ham.nodesAt, List.mem_filter, beq_iff_eq]
        exact ⟨hml, hyd⟩
      rcases locs_anc_cases l.node l.anc m hm with rfl | hsuf
      · exact absurd (hla.symm.trans hyd) hne
      · obtain ⟨pre, hpre⟩ := hsuf
        have hc := allLocs_chain hw hml
        have hmem : l.node ∈ m.anc := by rw [← hpre]; simp
        have hs : search a m = (some l.node, flagged m.node || pre.any flagged) :=
          (C06_reported_under H hw a m hml l.node _).mpr ⟨pre, l.anc, hpre.symm, hla,
            fun z hz hza => chain_unique_at _ _ hc a z l.node hz hmem hza hla, rfl⟩
        exact ⟨(m.node, (search a m).1, (search a m).2), ⟨m, hmd, rfl⟩, l.node, by rw [hs], rfl⟩
    · -- a singleton has no descendants: y is the singleton itself
      simp only [Ham.singletons, List.mem_map] at hg
      obtain ⟨g0, _, rfl⟩ := hg
      simp only [locs, List.mem_singleton] at hm
      subst hm
      exact absurd (hla.symm.trans hyd) hne

/-- **the number of lost genes over any branch, on the hierarchy**: members of `a` with no node at `d` in their subtree -/
theorem C06_lost_count (H : Ham) (hw : H.WFc) (a d : Taxon) (hne : a ≠ d) :
    (hogsMap H a d).loss.length =
      famSum H (fun top => ((locs [] top).filter fun l =>
        l.node.tx == a && (l.node.nodes.filter fun y => y.tx == d).isEmpty).length) +
      (singletonsAt H a).length := by
  rw [lost_length_seen, c10_split]
  congr 1
  · unfold famSum
    congr 1
    apply List.map_congr_left
    intro p hp
    show ((List.filter (fun l => !(clustersOf (upOf H a d)).seen.contains l.node.key)
            (List.filter (fun l => l.node.tx == a) (locs [] p.2))).length) =
        ((List.filter (fun l => l.node.tx == a && (List.filter (fun y => y.tx == d) l.node.nodes).isEmpty) (locs [] p.2)).length)
    rw [List.filter_filter]
    congr 1
    apply List.filter_congr
    intro l hl
    have hal : l ∈ H.allLocs := mem_allLocs.mpr (Or.inl ⟨p, hp, hl⟩)
    by_cases hla : l.node.tx = a
    · have hiff := seen_iff_subtree H hw a d hne l hal hla
      have hta : (l.node.tx == a) = true := by simpa using hla
      rw [hta]
      simp only [Bool.true_and, Bool.and_true]
      cases hs : (clustersOf (upOf H a d)).seen.contains l.node.key with
      | true =>
        obtain ⟨y, hy, hyd⟩ := hiff.mp hs
        have : (l.node.nodes.filter fun y => y.tx == d) ≠ [] := by
          intro he
          have := List.filter_eq_nil_iff.mp he y hy
          simp [hyd] at this
        cases hf : (l.node.nodes.filter fun y => y.tx == d) with
        | nil => exact absurd hf this
        | cons _ _ => rfl
      | false =>
        have hno : ¬ ∃ y ∈ l.node.nodes, y.tx = d := fun h => by
          have := hiff.mpr h
          rw [hs] at this
          cases this
        have : (l.node.nodes.filter fun y => y.tx == d) = [] := by
          rw [List.filter_eq_nil_iff]
          intro y hy hyd
          exact hno ⟨y, hy, by simpa using hyd⟩
        rw [this]
        rfl
    · have hta : (l.node.tx == a) = false := by simpa using hla
      simp [hta]
  · congr 1
    unfold singletonsAt
    rw [List.filter_eq_self]
    intro g hg
    have hg' := (List.mem_filter.mp hg).1
    have hgt : g.tx = a := by simpa using (List.mem_filter.mp hg).2
    have hal : (⟨g, []⟩ : Loc) ∈ H.allLocs := mem_allLocs.mpr (Or.inr ⟨g, hg', rfl⟩)
    have hiff := seen_iff_subtree H hw a d hne ⟨g, []⟩ hal hgt
    cases hs : (clustersOf (upOf H a d)).seen.contains g.key with
    | false => rfl
    | true =>
      exfalso
      obtain ⟨y, hy, hyd⟩ := hiff.mp hs
      simp only [Ham.singletons, List.mem_map] at hg'
      obtain ⟨g0, _, rfl⟩ := hg'
      simp only [Node.nodes, List.mem_singleton] at hy
      subst hy
      exact hne (hgt.symm.trans hyd)

/-! ### ... and on the histories -/

/-- **the number of lost genes over any branch, on the histories**: for every consistent dataset and ancestral nodes `a`
    above `d`, the comparison `a → d` reports as many lost genes as lineages of the histories cross `a` and are extinct at `d` -/
theorem C06_lost_count_is_the_history (D : Dataset) (hc : D.Consistent) :
    ∃ H, load D.T D.nm D.file = .ok H ∧ ∀ a d, a ≠ d → D.T.isInternalAt a = true → D.T.isInternalAt d = true →
      (hogsMap H a d).loss.length = (D.fams.map fun f => extinctAt a d f.1 f.2).sum := by
  obtain ⟨H, hload, hlen, hreal, hwc, _, _⟩ := loaded_consistent D hc
  obtain ⟨H1, hload1, hwf, _, _⟩ := loaded_consistent_wf D hc
  have e1 : H1 = H := by rw [hload] at hload1; cases hload1; rfl
  rw [e1] at hwf
  have htree : H.tree = D.T := by
    have := hload
    simp only [load, buildHam, bind, Except.bind] at this
    split at this
    · cases this
    · split at this
      · cases this
      · split at this
        · cases this
        · cases this; rfl
  refine ⟨H, hload, ?_⟩
  intro a d hne hinta hintd
  rw [C06_lost_count H hwc a d hne]
  have hsing : (singletonsAt H a).length = 0 := by
    have hwf' := hwf
    simp only [Ham.wf, Bool.and_eq_true, List.all_eq_true] at hwf'
    unfold singletonsAt
    rw [List.length_eq_zero_iff, List.filter_eq_nil_iff]
    intro g hg' hgt
    simp only [Ham.singletons, List.mem_map, List.mem_filter] at hg'
    obtain ⟨g0, ⟨hg0, _⟩, rfl⟩ := hg'
    have hleaf := hwf'.2 g0 hg0
    simp only [Node.tx, beq_iff_eq] at hgt
    rw [hgt, htree] at hleaf
    exact leaf_not_internal _ _ hleaf hinta
  rw [hsing, Nat.add_zero]
  unfold famSum
  congr 1
  apply map_eq_of_index _ _ _ _ hlen
  intro i h1 h2
  obtain ⟨_, hr⟩ := hreal i h1 h2
  have hfam := hc.fams_ok (D.fams[i]) (List.getElem_mem h2)
  have hshape := realises_shape D.T _ _ _ hfam.2.1 hr
  show ((locs [] (H.tops[i]).2).filter fun l =>
      l.node.tx == a && (l.node.nodes.filter fun y => y.tx == d).isEmpty).length = _
  rw [← realises_ext a d _ _ _ hr]
  -- located members -> nodes -> HOGs
  have hn := locs_nodes (H.tops[i]).2 []
  have e1 : ((locs [] (H.tops[i]).2).filter fun l =>
      l.node.tx == a && (l.node.nodes.filter fun y => y.tx == d).isEmpty).length =
      ((H.tops[i]).2.nodes.filter fun x => x.tx == a && (x.nodes.filter fun y => y.tx == d).isEmpty).length := by
    rw [← hn, List.filter_map, List.length_map]
    rfl
  rw [e1, hogs_eq_nodes_filter, List.filter_filter]
  congr 1
  apply List.filter_congr
  intro x hx
  -- genes sit at leaves: x at `a` is a HOG, and the nodes of its subtree at `d` are HOGs
  have hxg : x.tx = a → x.isGene = false := by
    intro hxa
    cases hg : x.isGene with
    | false => rfl
    | true =>
      have hl := (hshape x hx).1 hg
      rw [hxa] at hl
      exact (leaf_not_internal _ _ hl hinta).elim
  by_cases hxa : x.tx = a
  · have hta : (x.tx == a) = true := by simpa using hxa
    rw [hta, hxg hxa]
    simp only [Bool.true_and, Bool.not_false, Bool.and_true, extinctHere, hta]
    -- the subtree of x is part of the family's tree
    have hsub : ∀ y ∈ x.nodes, y ∈ (H.tops[i]).2.nodes := by
      intro y hy
      have hxm := hx
      rw [← hn] at hxm
      obtain ⟨lx, hlx, rfl⟩ := List.mem_map.mp hxm
      have hnx := locs_nodes lx.node lx.anc
      rw [← hnx] at hy
      obtain ⟨m, hm, rfl⟩ := List.mem_map.mp hy
      have := locs_sub (H.tops[i]).2 [] lx hlx m hm
      rw [← hn]
      exact List.mem_map.mpr ⟨m, this, rfl⟩
    have hcnt := nodes_filter_internal x d (fun y hy hg he => by
      have hl := (hshape y (hsub y hy)).1 hg
      rw [he] at hl
      exact leaf_not_internal _ _ hl hintd)
    rw [← hcnt]
    cases hf : (x.nodes.filter fun y => y.tx == d) with
    | nil => rfl
    | cons _ _ => rfl
  · have hta : (x.tx == a) = false := by simpa using hxa
    simp [hta, extinctHere]

end Pyham
