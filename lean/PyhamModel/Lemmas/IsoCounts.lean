/-
  ... and the NUMBERS of a comparison (what the tree profiles report) are the same for isomorphic analyses.
-/
import PyhamModel.Lemmas.Iso
import PyhamModel.Lemmas.Additivity
namespace Pyham

/-- the six numbers a tree profile reads off a comparison -/
structure Counts where
  gain : Nat
  retained : Nat
  duplicated : Nat      -- genes of the descendant genome that are copies
  dupKeys : Nat         -- duplicated ancestral genes
  loss : Nat
  ndup : Nat
deriving DecidableEq, Repr

def HMap.counts (m : HMap) : Counts :=
  { gain := m.gain.length, retained := m.retained.length, duplicated := (m.dupl.map (·.2.length)).sum,
    dupKeys := m.dupl.length, loss := m.loss.length, ndup := m.ndup }

def mapEntry (φ : Node → Node) (e : UpEntry) : UpEntry := (φ e.1, e.2.1.map φ, e.2.2)

theorem loc_map_inj {H H' : Ham} {φ : Node → Node} (h : LocIso H H' φ) (hw : H.WFc) {l1 l2 : Loc}
    (h1 : l1 ∈ H.allLocs) (h2 : l2 ∈ H.allLocs) (e : l1.map φ = l2.map φ) : l1 = l2 := by
  have hk : (φ l1.node).key = (φ l2.node).key := by
    have := congrArg (fun l => l.node.key) e
    simpa [Loc.map] using this
  exact key_inj hw h1 h2 ((h.keys _ _ ⟨l1, h1, Or.inl rfl⟩ ⟨l2, h2, Or.inl rfl⟩).1 hk)

theorem nodup_map_of_inj_on {α β} (f : α → β) : (l : List α) → l.Nodup → (∀ a ∈ l, ∀ b ∈ l, f a = f b → a = b) →
    (l.map f).Nodup
  | [], _, _ => List.nodup_nil
  | x :: xs, hn, hi => by
    rw [List.nodup_cons] at hn
    rw [List.map_cons, List.nodup_cons]
    refine ⟨?_, nodup_map_of_inj_on f xs hn.2 (fun a ha b hb => hi a (List.mem_cons_of_mem _ ha) b (List.mem_cons_of_mem _ hb))⟩
    intro hm
    obtain ⟨y, hy, hfy⟩ := List.mem_map.1 hm
    have := hi y (List.mem_cons_of_mem _ hy) x (List.mem_cons_self) hfy
    rw [this] at hy
    exact hn.1 hy

/-- the members of a genome of the image analysis are, up to order, the images of the members of the genome -/
theorem nodesAt_perm {H H' : Ham} {φ : Node → Node} (h : LocIso H H' φ) (hw : H.WFc) (hw' : H'.WFc) (t : Taxon) :
    (H'.nodesAt t).Perm ((H.nodesAt t).map (Loc.map φ)) := by
  rw [List.perm_ext_iff_of_nodup (nodesAt_nodup hw' t)]
  · intro l'
    rw [nodesAt_map h t l', List.mem_map]
    constructor
    · rintro ⟨l, hl, rfl⟩; exact ⟨l, hl, rfl⟩
    · rintro ⟨l, hl, rfl⟩; exact ⟨l, hl, rfl⟩
  · apply nodup_map_of_inj_on _ _ (nodesAt_nodup hw t)
    intro a ha b hb e
    simp only [Ham.nodesAt, List.mem_filter] at ha hb
    exact loc_map_inj h hw ha.1 hb.1 e

theorem upOf_perm {H H' : Ham} {φ : Node → Node} (h : LocIso H H' φ) (hw : H.WFc) (hw' : H'.WFc) (a d : Taxon) :
    (upOf H' a d).Perm ((upOf H a d).map (mapEntry φ)) := by
  unfold upOf
  refine ((nodesAt_perm h hw hw' d).map _).trans ?_
  rw [List.map_map, List.map_map]
  apply List.Perm.of_eq
  apply List.map_congr_left
  intro l _
  simp only [Function.comp, mapEntry]
  rw [search_map h a l]
  rfl

/-! ### the numbers as counts over the upMap -/

theorem gain_count (up : List UpEntry) : (clustersOf up).gain.length = up.countP (fun e => e.2.1.isNone) := by
  rw [clusters_gain, List.length_filterMap_eq_countP]
  congr 1
  funext e
  cases e.2.1 <;> rfl

theorem retained_count (up : List UpEntry) (hn : NoClash up) :
    (clustersOf up).retained.length = up.countP (fun e => e.2.1.isSome && !e.2.2) := by
  have := (clusters_retained_values up hn).length_eq
  rw [List.length_map, List.length_filterMap_eq_countP] at this
  rw [this]
  congr 1
  funext e
  cases e.2.1 <;> cases e.2.2 <;> rfl

theorem duplicated_count (up : List UpEntry) :
    ((clustersOf up).dupl.map (·.2.length)).sum = up.countP (fun e => e.2.1.isSome && e.2.2) := by
  have := (clusters_dupl_values up).length_eq
  rw [sum_lengths_flatMap, List.length_filterMap_eq_countP] at this
  rw [this]
  congr 1
  funext e
  cases e.2.1 <;> cases e.2.2 <;> rfl

theorem countP_mapEntry (φ : Node → Node) (p : Option Unit × Bool → Bool) (up : List UpEntry) :
    (up.map (mapEntry φ)).countP (fun e => p (e.2.1.map fun _ => (), e.2.2)) =
      up.countP (fun e => p (e.2.1.map fun _ => (), e.2.2)) := by
  rw [List.countP_map]
  congr 1
  funext e
  simp only [Function.comp, mapEntry]
  cases e.2.1 <;> rfl

/-- **the numbers of a comparison are the same for isomorphic analyses** -/
theorem iso_counts {H H' : Ham} {φ : Node → Node} (h : LocIso H H' φ) (hw : H.WFc) (hw' : H'.WFc) (a d : Taxon) :
    (hogsMap H' a d).counts = (hogsMap H a d).counts := by
  obtain ⟨g1, r1, d1, l1, n1⟩ := hogsMap_clusters H a d
  obtain ⟨g2, r2, d2, l2, n2⟩ := hogsMap_clusters H' a d
  have hp := upOf_perm h hw hw' a d
  -- gain / retained / duplicated: counts over the upMap, which only look at "found or not" and the flag
  have cg : (hogsMap H' a d).gain.length = (hogsMap H a d).gain.length := by
    rw [g1, g2, gain_count, gain_count, hp.countP_eq]
    have := countP_mapEntry φ (fun q => q.1.isNone) (upOf H a d)
    simpa [Option.isNone_map] using this
  have cr : (hogsMap H' a d).retained.length = (hogsMap H a d).retained.length := by
    rw [r1, r2, retained_count _ (upOf_noClash hw a d), retained_count _ (upOf_noClash hw' a d), hp.countP_eq]
    have := countP_mapEntry φ (fun q => q.1.isSome && !q.2) (upOf H a d)
    simpa [Option.isSome_map] using this
  have cd : ((hogsMap H' a d).dupl.map (·.2.length)).sum = ((hogsMap H a d).dupl.map (·.2.length)).sum := by
    rw [d1, d2, duplicated_count, duplicated_count, hp.countP_eq]
    have := countP_mapEntry φ (fun q => q.1.isSome && q.2) (upOf H a d)
    simpa [Option.isSome_map] using this
  -- loss: a count over the ancestral genome
  have cl : (hogsMap H' a d).loss.length = (hogsMap H a d).loss.length := by
    rw [l1, l2, ← List.countP_eq_length_filter, ← List.countP_eq_length_filter, List.countP_map, List.countP_map,
      (nodesAt_perm h hw hw' a).countP_eq, List.countP_map]
    apply List.countP_congr
    intro l hl
    show (!(clustersOf (upOf H' a d)).seen.contains (φ l.node).key) = true ↔ (!(clustersOf (upOf H a d)).seen.contains l.node.key) = true
    rw [clusters_seen, clusters_seen]
    have hla : l ∈ H.allLocs := by simp only [Ham.nodesAt, List.mem_filter] at hl; exact hl.1
    have key : ((φ l.node).key ∈ (upOf H' a d).filterMap (fun e => e.2.1.map Node.key)) ↔
        (l.node.key ∈ (upOf H a d).filterMap (fun e => e.2.1.map Node.key)) := by
      simp only [List.mem_filterMap, Option.map_eq_some_iff]
      constructor
      · rintro ⟨e', he', x', hx', hk⟩
        obtain ⟨e, he, rfl⟩ := List.mem_map.1 (hp.mem_iff.1 he')
        simp only [mapEntry, Option.map_eq_some_iff] at hx'
        obtain ⟨x, hx, rfl⟩ := hx'
        refine ⟨e, he, x, hx, ?_⟩
        obtain ⟨r, hr, rfl⟩ := List.mem_map.1 he
        have hra : r ∈ H.allLocs := by simp only [Ham.nodesAt, List.mem_filter] at hr; exact hr.1
        exact (h.keys x l.node ⟨r, hra, Or.inr (search_some_mem_anc (Prod.ext hx rfl))⟩ ⟨l, hla, Or.inl rfl⟩).1 hk
      · rintro ⟨e, he, x, hx, hk⟩
        refine ⟨mapEntry φ e, hp.mem_iff.2 (List.mem_map.2 ⟨e, he, rfl⟩), φ x, by simp [mapEntry, hx], ?_⟩
        obtain ⟨r, hr, rfl⟩ := List.mem_map.1 he
        have hra : r ∈ H.allLocs := by simp only [Ham.nodesAt, List.mem_filter] at hr; exact hr.1
        exact (h.keys x l.node ⟨r, hra, Or.inr (search_some_mem_anc (Prod.ext hx rfl))⟩ ⟨l, hla, Or.inl rfl⟩).2 hk
    simp only [Bool.not_eq_true', List.contains_eq_mem, decide_eq_false_iff_not]
    exact not_congr key
  -- the number of duplicated ancestral genes: what is left of the ancestral genome
  have hsz := C05_ancestor_size H hw a d
  have hsz' := C05_ancestor_size H' hw' a d
  have hna : (H'.nodesAt a).length = (H.nodesAt a).length := by
    rw [(nodesAt_perm h hw hw' a).length_eq, List.length_map]
  have ck : (hogsMap H' a d).dupl.length = (hogsMap H a d).dupl.length := by omega
  -- events: sum over duplicated ancestors of (copies - 1)
  have nd : ∀ (K : Ham) (hwK : K.WFc), (hogsMap K a d).ndup = ((hogsMap K a d).dupl.map (·.2.length)).sum - (hogsMap K a d).dupl.length := by
    intro K hwK
    rw [C06_number_duplications]
    have := (c10_sum_sub (hogsMap K a d).dupl (fun e => e.2.length) (fun _ => 1) (by
      intro e he
      have := ((C06_entries_sound K hwK a d).2 e he).2.2
      cases hl : e.2 with
      | nil => exact absurd hl this
      | cons _ _ => simp)).1
    rw [this]
    have ones : ∀ (l : List (Node × List Node)), (l.map fun _ => 1).sum = l.length := by
      intro l
      induction l with
      | nil => rfl
      | cons x xs ih => simp only [List.map_cons, List.sum_cons, List.length_cons, ih]; omega
    rw [ones]
  have cn : (hogsMap H' a d).ndup = (hogsMap H a d).ndup := by rw [nd H hw, nd H' hw', cd, ck]
  simp only [HMap.counts, cg, cr, cd, ck, cl, cn]

/-- ... hence the whole-dataset tree profile of isomorphic analyses with the same genome sizes is the same, node by node -/
theorem iso_profile {H H' : Ham} {φ : Node → Node} (h : LocIso H H' φ) (hw : H.WFc) (hw' : H'.WFc)
    (hsz : ∀ t, H'.genomeSize t = H.genomeSize t) (t : Taxon) : profileFullAt H' t = profileFullAt H t := by
  unfold profileFullAt
  cases hu : t.up with
  | none => simp only [hsz]
  | some u =>
    have := iso_counts h hw hw' u t
    simp only [HMap.counts, Counts.mk.injEq] at this
    obtain ⟨c1, c2, c3, _, c5, c6⟩ := this
    simp only [hsz, c1, c2, c3, c5, c6]

end Pyham
