/-
  The executable checker `realisesB` (Model/Realises.lean), which the driver evaluates on every explored case
  (tag `real`), is SOUND for the specification `Realises`: an echo `real=1` is a kernel-backed certificate that the
  model's load of that case realises its history.
-/
import PyhamModel.Model.Realises
namespace Pyham

/-! ### small list facts -/

theorem cs_perm_of_cover {α} [DecidableEq α] : (l : List α) → l.Nodup → (ms : List α) → (∀ x ∈ l, x ∈ ms) →
    ms.length = l.length → ms.Perm l
  | [], _, ms, _, hl => by
    have : ms = [] := List.eq_nil_of_length_eq_zero (by simpa using hl)
    subst this
    exact List.Perm.refl _
  | a :: l, hn, ms, hs, hl => by
    have ha : a ∈ ms := hs a (by simp)
    have hn' := List.nodup_cons.1 hn
    have h1 : ms.Perm (a :: ms.erase a) := List.perm_cons_erase ha
    have h2 : (ms.erase a).Perm l := by
      apply cs_perm_of_cover l hn'.2
      · intro x hx
        have hne : x ≠ a := by
          intro e
          subst e
          exact hn'.1 hx
        exact (List.mem_erase_of_ne hne).2 (hs x (by simp [hx]))
      · rw [List.length_erase_of_mem ha, hl]
        simp
    exact h1.trans (h2.cons a)

theorem cs_pickFirst_spec {α} (p : α → Bool) : (xs : List α) → (x : α) → (rest : List α) →
    pickFirst p xs = some (x, rest) → p x = true ∧ xs.Perm (x :: rest)
  | [], x, rest, h => by simp [pickFirst] at h
  | y :: ys, x, rest, h => by
    simp only [pickFirst] at h
    split at h
    · rename_i hp
      simp only [Option.some.injEq, Prod.mk.injEq] at h
      obtain ⟨rfl, rfl⟩ := h
      exact ⟨hp, List.Perm.refl _⟩
    · cases hq : pickFirst p ys with
      | none => simp [hq] at h
      | some r =>
        obtain ⟨r1, r2⟩ := r
        simp only [hq, Option.map_some, Option.some.injEq, Prod.mk.injEq] at h
        obtain ⟨rfl, rfl⟩ := h
        obtain ⟨h1, h2⟩ := cs_pickFirst_spec p ys r1 r2 hq
        exact ⟨h1, (h2.cons y).trans (List.Perm.swap _ _ _)⟩

/-! ### the invariant on lists of children: distinct keys inside every child and among the children -/

def CsKInv (kids : List Node) : Prop :=
  (∀ k ∈ kids, (k.nodes.map Node.key).Nodup) ∧ (kids.map Node.key).Nodup

theorem CsKInv.perm {a b : List Node} (h : CsKInv a) (p : a.Perm b) : CsKInv b :=
  ⟨fun k hk => h.1 k (p.mem_iff.2 hk), (p.map Node.key).nodup_iff.1 h.2⟩

theorem CsKInv.sublist {a b : List Node} (h : CsKInv b) (s : a.Sublist b) : CsKInv a :=
  ⟨fun k hk => h.1 k (s.subset hk), (s.map Node.key).nodup h.2⟩

theorem CsKInv.tail {k : Node} {ks : List Node} (h : CsKInv (k :: ks)) : CsKInv ks :=
  h.sublist (List.sublist_cons_self _ _)

theorem cs_self_mem_nodes : (k : Node) → k ∈ k.nodes
  | .gene .. => by simp [Node.nodes]
  | .hog .. => by simp [Node.nodes]

theorem cs_mem_nodesL : (ks : List Node) → (k : Node) → k ∈ ks → ∀ x ∈ k.nodes, x ∈ Node.nodesL ks
  | [], k, h, _, _ => by simp at h
  | y :: ys, k, h, x, hx => by
    simp only [Node.nodesL, List.mem_append]
    rcases List.mem_cons.1 h with rfl | h
    · exact Or.inl hx
    · exact Or.inr (cs_mem_nodesL ys k h x hx)

theorem cs_kinv_of_nodesL : (ks : List Node) → ((Node.nodesL ks).map Node.key).Nodup → CsKInv ks
  | [], _ => ⟨by simp, by simp⟩
  | k :: ks, h => by
    simp only [Node.nodesL, List.map_append, List.nodup_append] at h
    obtain ⟨h1, h2, h3⟩ := h
    have ih := cs_kinv_of_nodesL ks h2
    refine ⟨?_, ?_⟩
    · intro x hx
      rcases List.mem_cons.1 hx with rfl | hx
      · exact h1
      · exact ih.1 x hx
    · simp only [List.map_cons, List.nodup_cons]
      refine ⟨?_, ih.2⟩
      intro hm
      obtain ⟨k', hk', he⟩ := List.mem_map.1 hm
      exact h3 k.key (List.mem_map.2 ⟨k, cs_self_mem_nodes k, rfl⟩) k'.key
        (List.mem_map.2 ⟨k', cs_mem_nodesL ks k' hk' k' (cs_self_mem_nodes k'), rfl⟩) he.symm

/-! ### the pick functions -/

theorem cs_pickFirstRealising_spec (q : Taxon) (l : SL) : (kids : List Node) → (fuel : Nat) → (rest : List Node) →
    pickFirstRealising q l kids fuel = some rest →
    ∃ k, k.dup = none ∧ realisesB q l k = true ∧ kids.Perm (k :: rest)
  | [], _, rest, h => by simp [pickFirstRealising] at h
  | _ :: _, 0, rest, h => by simp [pickFirstRealising] at h
  | k :: ks, n + 1, rest, h => by
    simp only [pickFirstRealising] at h
    split at h
    · rename_i hp
      simp only [Option.some.injEq] at h
      subst h
      simp only [Bool.and_eq_true, Option.isNone_iff_eq_none] at hp
      exact ⟨k, hp.1, hp.2, List.Perm.refl _⟩
    · cases hq : pickFirstRealising q l ks n with
      | none => simp [hq] at h
      | some r =>
        simp only [hq, Option.map_some, Option.some.injEq] at h
        subst h
        obtain ⟨k', h1, h2, h3⟩ := cs_pickFirstRealising_spec q l ks n r hq
        exact ⟨k', h1, h2, (h3.cons k).trans (List.Perm.swap _ _ _)⟩

theorem cs_pickFirstRealisingAny_spec (q : Taxon) (l : SL) : (kids : List Node) → (fuel : Nat) → (rest : List Node) →
    pickFirstRealisingAny q l kids fuel = some rest →
    ∃ k, realisesB q l k = true ∧ kids.Perm (k :: rest)
  | [], _, rest, h => by simp [pickFirstRealisingAny] at h
  | _ :: _, 0, rest, h => by simp [pickFirstRealisingAny] at h
  | k :: ks, n + 1, rest, h => by
    simp only [pickFirstRealisingAny] at h
    split at h
    · rename_i hp
      simp only [Option.some.injEq] at h
      subst h
      exact ⟨k, hp, List.Perm.refl _⟩
    · cases hq : pickFirstRealisingAny q l ks n with
      | none => simp [hq] at h
      | some r =>
        simp only [hq, Option.map_some, Option.some.injEq] at h
        subst h
        obtain ⟨k', h2, h3⟩ := cs_pickFirstRealisingAny_spec q l ks n r hq
        exact ⟨k', h2, (h3.cons k).trans (List.Perm.swap _ _ _)⟩

/-! ### soundness, by recursion on the history -/

mutual
theorem cs_sound (q : Taxon) : (l : SL) → (n : Node) → (n.nodes.map Node.key).Nodup →
    realisesB q l n = true → Realises q l n
  | .gene id loft, .gene id' t d loft', _, h => by
    simp only [realisesB, Bool.and_eq_true, beq_iff_eq] at h
    obtain ⟨⟨rfl, rfl⟩, rfl⟩ := h
    simp only [Realises]
    exact ⟨d, rfl⟩
  | .gene _ _, .hog .., _, h => by simp [realisesB] at h
  | .grp .., .gene .., _, h => by simp [realisesB] at h
  | .grp w hid label subs, .hog info t d kids dups, hk, h => by
    simp only [realisesB, Bool.and_eq_true, beq_iff_eq, decide_eq_true_eq] at h
    obtain ⟨⟨rfl, hs⟩, hn⟩ := h
    simp only [Node.nodes, List.map_cons, List.nodup_cons] at hk
    have hinv : CsKInv kids := cs_kinv_of_nodesL kids hk.2
    obtain ⟨plain, evs, h1, h2, h3⟩ := cs_soundSubs t subs kids dups hinv hs
    simp only [Realises]
    refine ⟨info, d, kids, dups, rfl, plain, evs, h1, h2, ?_, h3⟩
    have hp := (h2.map (·.did)).nodup_iff.1 hn
    rw [List.map_map] at hp
    exact hp
theorem cs_soundSubs (q : Taxon) : (subs : List Sub) → (kids : List Node) → (dups : List DupRec) → CsKInv kids →
    realisesSubsB q subs kids dups = true →
    ∃ (plain : List Node) (evs : List (DupRec × List Node)),
      kids.Perm (plain ++ evs.flatMap (·.2)) ∧ dups.Perm (evs.map (·.1)) ∧ RealisesSubs q subs plain evs
  | [], kids, dups, _, h => by
    simp only [realisesSubsB, Bool.and_eq_true, List.isEmpty_iff] at h
    obtain ⟨rfl, rfl⟩ := h
    exact ⟨[], [], by simp, by simp, by simp [RealisesSubs]⟩
  | .one i l :: r, kids, dups, hinv, h => by
    simp only [realisesSubsB] at h
    split at h
    · rename_i rest hp
      obtain ⟨k, hd, hb, hperm⟩ := cs_pickFirstRealising_spec (i :: q) l kids kids.length rest hp
      have hinv' : CsKInv (k :: rest) := hinv.perm hperm
      have hk := cs_sound (i :: q) l k (hinv'.1 k (by simp)) hb
      obtain ⟨plain, evs, h1, h2, h3⟩ := cs_soundSubs q r rest dups hinv'.tail h
      refine ⟨k :: plain, evs, ?_, h2, ?_⟩
      · exact hperm.trans (by simpa using h1.cons k)
      · simp only [RealisesSubs]
        exact ⟨k, plain, rfl, hd, hk, h3⟩
    · cases h
  | .dup i pgid cs :: r, kids, dups, hinv, h => by
    simp only [realisesSubsB] at h
    split at h
    · cases h
    · rename_i rc dups' hp
      simp only [Bool.and_eq_true, List.all_eq_true, beq_iff_eq] at h
      obtain ⟨⟨⟨⟨ha, _⟩, hl⟩, hc⟩, hr⟩ := h
      obtain ⟨hprc, hdperm⟩ := cs_pickFirst_spec _ _ _ _ hp
      simp only [Bool.and_eq_true, beq_iff_eq] at hprc
      obtain ⟨⟨hm, hpg⟩, _⟩ := hprc
      have hmine : CsKInv (kids.filter fun k => k.dup == some rc.did) := hinv.sublist List.filter_sublist
      have hrest : CsKInv (kids.filter fun k => k.dup != some rc.did) := hinv.sublist List.filter_sublist
      obtain ⟨ks, hks, hcs⟩ := cs_soundCopies (i :: q) cs _ hmine hc
      obtain ⟨plain, evs, h1, h2, h3⟩ := cs_soundSubs q r _ dups' hrest hr
      refine ⟨plain, (rc, ks) :: evs, ?_, ?_, ?_⟩
      · have hsplit := (List.filter_append_perm (fun k : Node => k.dup == some rc.did) kids).symm
        have h1' : (kids.filter fun x => !(x.dup == some rc.did)).Perm (plain ++ evs.flatMap (·.2)) := h1
        refine hsplit.trans ((hks.append h1').trans ?_)
        simp only [List.flatMap_cons]
        rw [← List.append_assoc, ← List.append_assoc]
        exact List.Perm.append_right _ List.perm_append_comm
      · simpa using hdperm.trans (h2.cons rc)
      · simp only [RealisesSubs]
        refine ⟨rc, ks, evs, rfl, hm, hpg, ?_, ?_, hcs, h3⟩
        · have hmine' : CsKInv ks := hmine.perm hks
          apply cs_perm_of_cover _ hmine'.2
          · intro x hx
            obtain ⟨k, hk, rfl⟩ := List.mem_map.1 hx
            have := ha k (hks.mem_iff.2 hk)
            simpa using this
          · rw [List.length_map, ← hks.length_eq]
            exact hl
        · intro k hk
          have := hks.mem_iff.2 hk
          simp only [List.mem_filter, beq_iff_eq] at this
          exact this.2
  | .ann e :: r, kids, dups, hinv, h => by
    simp only [realisesSubsB] at h
    obtain ⟨plain, evs, h1, h2, h3⟩ := cs_soundSubs q r kids dups hinv h
    exact ⟨plain, evs, h1, h2, by simpa only [RealisesSubs] using h3⟩
theorem cs_soundCopies (q : Taxon) : (cs : List SL) → (ks : List Node) → CsKInv ks →
    realisesCopiesB q cs ks = true → ∃ ks', ks.Perm ks' ∧ RealisesCopies q cs ks'
  | [], ks, _, h => by
    simp only [realisesCopiesB, List.isEmpty_iff] at h
    subst h
    exact ⟨[], List.Perm.refl _, by simp [RealisesCopies]⟩
  | c :: cs, ks, hinv, h => by
    simp only [realisesCopiesB] at h
    split at h
    · rename_i rest hp
      obtain ⟨k, hb, hperm⟩ := cs_pickFirstRealisingAny_spec q c ks ks.length rest hp
      have hinv' : CsKInv (k :: rest) := hinv.perm hperm
      have hk := cs_sound q c k (hinv'.1 k (by simp)) hb
      obtain ⟨ks', h1, h2⟩ := cs_soundCopies q cs rest hinv'.tail h
      refine ⟨k :: ks', hperm.trans (h1.cons k), ?_⟩
      simp only [RealisesCopies]
      exact ⟨k, ks', rfl, hk, h2⟩
    · cases h
end

/-- soundness of the checker (object identities inside `n` are distinct, as in every loaded analysis) -/
theorem realisesB_sound (q : Taxon) (l : SL) (n : Node) (hk : (n.nodes.map Node.key).Nodup)
    (h : realisesB q l n = true) : Realises q l n :=
  cs_sound q l n hk h

end Pyham
