/-
  C01 / C19: the extant genes are exactly the gene elements of the file, each attached to the species
  that declares it, with all its cross-reference ids.
-/
import PyhamModel.Model.Parser
namespace Pyham

theorem declareSpecies_exact (T : STree) (nm : Naming) : (sp : List Species) → (acc genes : List GeneRec) →
    declareSpecies T nm (fun _ => true) sp acc = .ok genes →
    genes.map (fun g => (g.id, g.species, g.xrefs)) =
      acc.map (fun g => (g.id, g.species, g.xrefs)) ++
        sp.flatMap (fun s => s.genes.map fun g => (g.id, s.name, g.xrefs))
  | [], acc, genes, h => by
    simp only [declareSpecies, Except.ok.injEq] at h
    subst h; simp
  | s :: ss, acc, genes, h => by
    simp only [declareSpecies] at h
    cases hr : resolveSpecies T nm s.name with
    | error e => rw [hr] at h; simp [bind, Except.bind] at h
    | ok p =>
      rw [hr] at h
      simp only [bind, Except.bind] at h
      have hf : List.filter (fun _ : GeneDecl => true) s.genes = s.genes :=
        List.filter_eq_self.mpr (fun _ _ => rfl)
      rw [hf] at h
      have := declareSpecies_exact T nm ss _ genes h
      rw [this]
      simp [List.map_append, List.map_map, Function.comp_def]

/-- **C01 / C19**: after a successful unfiltered load the extant genes are exactly the `<gene>` elements
    of the file, in file order, each with the name of the species that declares it and all its
    cross-reference attributes -/
theorem C01_extant_genes_are_the_declared (T : STree) (nm : Naming) (inp : Input) (H : Ham)
    (h : load T nm inp = .ok H) :
    H.genes.map (fun g => (g.id, g.species, g.xrefs)) =
      inp.species.flatMap (fun s => s.genes.map fun g => (g.id, s.name, g.xrefs)) := by
  simp only [load, buildHam, bind, Except.bind] at h
  cases hd : declareSpecies T nm (fun _ => true) inp.species [] with
  | error e => rw [hd] at h; simp at h
  | ok genes =>
    rw [hd] at h
    have := declareSpecies_exact T nm inp.species [] genes hd
    simp only [List.map_nil, List.nil_append] at this
    -- the remaining binds only fill the other fields
    dsimp only at h
    split at h
    · cases h
    · cases hm : List.mapM (fun s : Species => Except.map (fun p => (s.name, p)) (resolveSpecies T nm s.name))
          inp.species with
      | error e => rw [hm] at h; cases h
      | ok v => rw [hm] at h; cases h; exact this

end Pyham
