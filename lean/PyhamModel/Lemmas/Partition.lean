/-
  C05: a vertical comparison partitions both genomes.
-/
import PyhamModel.Lemmas.Discipline
import PyhamModel.Lemmas.Clusters
namespace Pyham

/-- the part of `Ham.wf` the comparison theorems need -/
structure Ham.WFc (H : Ham) : Prop where
  aligned : ∀ p ∈ H.tops, p.2.aligned = true
  disciplined : ∀ p ∈ H.tops, p.2.disciplined = true
  keys : H.keys.Nodup

theorem Ham.wf_WFc (H : Ham) (h : H.wf = true) : H.WFc := by
  simp only [Ham.wf, Bool.and_eq_true, List.all_eq_true, decide_eq_true_eq] at h
  obtain ⟨⟨⟨h1, h2⟩, _⟩, _⟩ := h
  exact ⟨fun p hp => (h1 p hp).1.1.1.1, fun p hp => (h1 p hp).1.1.1.2, h2⟩

theorem mem_allLocs {H : Ham} {l : Loc} :
    l ∈ H.allLocs ↔ (∃ p ∈ H.tops, l ∈ locs [] p.2) ∨ (∃ g ∈ H.singletons, l = ⟨g, []⟩) := by
  simp only [Ham.allLocs, List.mem_append, List.mem_flatMap, List.mem_map]
  constructor
  · rintro (h | ⟨g, hg, rfl⟩)
    · exact Or.inl h
    · exact Or.inr ⟨g, hg, rfl⟩
  · rintro (h | ⟨g, hg, rfl⟩)
    · exact Or.inl h
    · exact Or.inr ⟨g, hg, rfl⟩

theorem nodup_of_map_nodup {α β} (f : α → β) {l : List α} (h : (l.map f).Nodup) : l.Nodup :=
  List.Pairwise.of_map f (fun _ _ hne hab => hne (hab ▸ rfl)) h

theorem inj_of_nodup_map {α β} (f : α → β) : {l : List α} → (l.map f).Nodup → ∀ {x y}, x ∈ l → y ∈ l → f x = f y → x = y
  | [], _, _, _, hx, _, _ => by simp at hx
  | a :: l, h, x, y, hx, hy, hf => by
    simp only [List.map_cons, List.nodup_cons, List.mem_map, not_exists, not_and] at h
    simp only [List.mem_cons] at hx hy
    rcases hx with rfl | hx
    · rcases hy with rfl | hy
      · rfl
      · exact absurd hf.symm (h.1 y hy)
    · rcases hy with rfl | hy
      · exact absurd hf (h.1 x hx)
      · exact inj_of_nodup_map f h.2 hx hy hf

theorem allLocs_nodup {H : Ham} (h : H.WFc) : H.allLocs.Nodup := by
  have := h.keys
  unfold Ham.keys at this
  exact nodup_of_map_nodup _ this

theorem key_inj {H : Ham} (h : H.WFc) {l1 l2 : Loc} (h1 : l1 ∈ H.allLocs) (h2 : l2 ∈ H.allLocs)
    (hk : l1.node.key = l2.node.key) : l1 = l2 := by
  have := h.keys
  unfold Ham.keys at this
  exact inj_of_nodup_map _ this h1 h2 hk

/-- what a successful upward search means for a located node of the analysis -/
theorem search_some {H : Ham} (hw : H.WFc) {a : Taxon} {l : Loc} (hl : l ∈ H.allLocs) {x : Node} {f : Bool}
    (hs : search a l = (some x, f)) :
    ∃ post, (⟨x, post⟩ : Loc) ∈ H.allLocs ∧ x.tx = a ∧ l ∈ locs post x ∧ f = flagsTo post l ∧
      x.aligned = true ∧ x.disciplined = true := by
  unfold search at hs
  rcases searchUp_spec a l.anc l.node.dup.isSome with ⟨pre, x', post, hL, hpre, hx, hs'⟩ | ⟨_, hs'⟩
  · rw [hs'] at hs
    simp only [Prod.mk.injEq, Option.some.injEq] at hs
    obtain ⟨rfl, hf⟩ := hs
    rcases mem_allLocs.mp hl with ⟨p, hp, hlp⟩ | ⟨g, _, rfl⟩
    · obtain ⟨hxl, hlx⟩ := locs_split p.2 [] l hlp pre x' post hL (by simp)
      refine ⟨post, mem_allLocs.mpr (Or.inl ⟨p, hp, hxl⟩), hx, hlx, ?_, ?_, ?_⟩
      · rw [← hf]
        simp only [flagsTo, flagged, hL, List.length_append, List.length_cons]
        have : pre.length + (post.length + 1) - post.length - 1 = pre.length := by omega
        rw [this, List.take_left' rfl]
      · exact locs_aligned p.2 [] (hw.aligned p hp) _ hxl
      · exact locs_disciplined p.2 [] (hw.disciplined p hp) _ hxl
    · simp at hL
  · rw [hs'] at hs; simp at hs

/-- C05/C06 core: two different members of the descendant genome reported under the same ancestral
    gene are both flagged as duplicated -/
theorem no_clash {H : Ham} (hw : H.WFc) (a d : Taxon) {r1 r2 : Loc}
    (h1 : r1 ∈ H.nodesAt d) (h2 : r2 ∈ H.nodesAt d) (hne : r1 ≠ r2)
    {x1 x2 : Node} {f1 f2 : Bool} (hs1 : search a r1 = (some x1, f1)) (hs2 : search a r2 = (some x2, f2))
    (hk : x1.key = x2.key) : f1 = true ∧ f2 = true := by
  simp only [Ham.nodesAt, List.mem_filter, beq_iff_eq] at h1 h2
  obtain ⟨p1, hx1, _, hl1, hf1, ha1, hd1⟩ := search_some hw h1.1 hs1
  obtain ⟨p2, hx2, _, hl2, hf2, _, _⟩ := search_some hw h2.1 hs2
  have := key_inj hw hx1 hx2 hk
  simp only [Loc.mk.injEq] at this
  obtain ⟨rfl, rfl⟩ := this
  have := two_at_same_taxon_flagged x1 p1 ha1 hd1 r1 hl1 r2 hl2 hne (h1.2.trans h2.2.symm)
  rw [hf1, hf2]; exact this

/-- the upMap of a comparison -/
def upOf (H : Ham) (a d : Taxon) : List UpEntry :=
  (H.nodesAt d).map fun l => (l.node, (search a l).1, (search a l).2)

theorem hogsMap_clusters (H : Ham) (a d : Taxon) :
    (hogsMap H a d).gain = (clustersOf (upOf H a d)).gain ∧
    (hogsMap H a d).retained = (clustersOf (upOf H a d)).retained ∧
    (hogsMap H a d).dupl = (clustersOf (upOf H a d)).dupl ∧
    (hogsMap H a d).loss = ((H.nodesAt a).map Loc.node).filter (fun n => !(clustersOf (upOf H a d)).seen.contains n.key) ∧
    (hogsMap H a d).ndup = countDup (clustersOf (upOf H a d)).dupl := by
  simp [hogsMap, clustersOf, upOf]

theorem nodesAt_nodup {H : Ham} (hw : H.WFc) (t : Taxon) : (H.nodesAt t).Nodup :=
  (allLocs_nodup hw).filter _

theorem upOf_noClash {H : Ham} (hw : H.WFc) (a d : Taxon) : NoClash (upOf H a d) := by
  unfold NoClash upOf
  rw [List.pairwise_map]
  have hnd := nodesAt_nodup hw d
  refine List.Pairwise.imp_of_mem ?_ hnd
  intro r1 r2 h1 h2 hne x1 x2 e1 e2 hk
  simp only at e1 e2
  exact no_clash hw a d h1 h2 hne (Prod.ext e1 rfl) (Prod.ext e2 rfl) hk

/-- **C05, descendant side**: every gene of the descendant genome is in exactly one of gained,
    retained (as a value) or duplicated (as a list member) -/
theorem C05_descendant_partition (H : Ham) (hw : H.WFc) (a d : Taxon) :
    ((hogsMap H a d).gain ++ (hogsMap H a d).retained.map (·.2) ++ (hogsMap H a d).dupl.flatMap (·.2)).Perm
      ((H.nodesAt d).map Loc.node) := by
  obtain ⟨hg, hr, hdp, _, _⟩ := hogsMap_clusters H a d
  show ((hogsMap H a d).gain ++ (hogsMap H a d).retained.map (·.2) ++ (hogsMap H a d).dupl.flatMap (·.2)).Perm _
  rw [hg, hr, hdp]
  have := clusters_partition (upOf H a d) (upOf_noClash hw a d)
  simpa [upOf, List.map_map, Function.comp_def] using this

theorem sum_lengths_flatMap {α β} (l : List α) (f : α → List β) :
    (l.flatMap f).length = (l.map fun x => (f x).length).sum := by
  induction l with
  | nil => simp
  | cons x xs ih => simp [ih]

/-- descendant size = gained + retained + total duplicated copies -/
theorem C05_descendant_size (H : Ham) (hw : H.WFc) (a d : Taxon) :
    (H.nodesAt d).length = (hogsMap H a d).gain.length + (hogsMap H a d).retained.length +
      ((hogsMap H a d).dupl.map (·.2.length)).sum := by
  have := (C05_descendant_partition H hw a d).length_eq
  simp only [List.length_append, List.length_map, sum_lengths_flatMap] at this
  omega

/-- the ancestors that were found are members of the ancestral genome -/
theorem seen_sub {H : Ham} (hw : H.WFc) (a d : Taxon) (k : Key)
    (hk : k ∈ (clustersOf (upOf H a d)).seen) : k ∈ (H.nodesAt a).map (fun l => l.node.key) := by
  rw [clusters_seen] at hk
  simp only [List.mem_filterMap, upOf, List.mem_map] at hk
  obtain ⟨e, ⟨r, hr, rfl⟩, hx⟩ := hk
  simp only [Option.map_eq_some_iff] at hx
  obtain ⟨x, hs, rfl⟩ := hx
  simp only [Ham.nodesAt, List.mem_filter, beq_iff_eq] at hr
  obtain ⟨post, hxl, hxa, _⟩ := search_some hw hr.1 (show search a r = (some x, (search a r).2) from Prod.ext hs rfl)
  simp only [List.mem_map, Ham.nodesAt, List.mem_filter, beq_iff_eq]
  exact ⟨⟨x, post⟩, ⟨hxl, hxa⟩, rfl⟩

/-- **C05, ancestor side**: every gene of the ancestral genome is in exactly one of lost, retained
    (as a key) or duplicated (as a key) -/
theorem C05_ancestor_partition (H : Ham) (hw : H.WFc) (a d : Taxon) :
    (((hogsMap H a d).loss ++ (hogsMap H a d).retained.map (·.1) ++ (hogsMap H a d).dupl.map (·.1)).map Node.key).Perm
      ((H.nodesAt a).map fun l => l.node.key) := by
  obtain ⟨_, hr, hdp, hl, _⟩ := hogsMap_clusters H a d
  show (((hogsMap H a d).loss ++ (hogsMap H a d).retained.map (·.1) ++ (hogsMap H a d).dupl.map (·.1)).map Node.key).Perm _
  rw [hr, hdp, hl]
  have hK : ((H.nodesAt a).map fun l => l.node.key).Nodup := by
    have := hw.keys
    unfold Ham.keys at this
    have h2 : ((H.allLocs.filter fun l => l.node.tx == a).map fun l => l.node.key).Sublist (H.allLocs.map fun l => l.node.key) :=
      (List.filter_sublist).map _
    exact this.sublist h2
  obtain ⟨hrn, hdn⟩ := clusters_keys_nodup (upOf H a d)
  have seen_of_ret : ∀ k, k ∈ (clustersOf (upOf H a d)).retained.map (·.1.key) → k ∈ (clustersOf (upOf H a d)).seen := by
    intro k hk
    obtain ⟨e, he, x, hx, rfl, _⟩ := (clusters_retained_keys (upOf H a d) k).mp hk
    rw [clusters_seen]
    exact List.mem_filterMap.mpr ⟨e, he, by simp [hx]⟩
  have seen_of_dup : ∀ k, k ∈ (clustersOf (upOf H a d)).dupl.map (·.1.key) → k ∈ (clustersOf (upOf H a d)).seen := by
    intro k hk
    obtain ⟨e, he, x, hx, rfl, _⟩ := (clusters_dupl_keys (upOf H a d) k).mp hk
    rw [clusters_seen]
    exact List.mem_filterMap.mpr ⟨e, he, by simp [hx]⟩
  have ret_or_dup : ∀ k, k ∈ (clustersOf (upOf H a d)).seen → k ∈ (clustersOf (upOf H a d)).retained.map (·.1.key) ∨ k ∈ (clustersOf (upOf H a d)).dupl.map (·.1.key) := by
    intro k hk
    rw [clusters_seen] at hk
    obtain ⟨e, he, hx⟩ := List.mem_filterMap.mp hk
    simp only [Option.map_eq_some_iff] at hx
    obtain ⟨x, hx, rfl⟩ := hx
    cases hf : e.2.2 with
    | false => exact Or.inl ((clusters_retained_keys (upOf H a d) _).mpr ⟨e, he, x, hx, rfl, hf⟩)
    | true => exact Or.inr ((clusters_dupl_keys (upOf H a d) _).mpr ⟨e, he, x, hx, rfl, hf⟩)
  rw [List.map_append, List.map_append, List.map_map, List.map_map]
  have e1 : (Node.key ∘ fun (x : Node × Node) => x.1) = fun x => x.1.key := rfl
  have e2 : (Node.key ∘ fun (x : Node × List Node) => x.1) = fun x => x.1.key := rfl
  rw [e1, e2]
  have hloss : ∀ k, k ∈ ((((H.nodesAt a).map Loc.node).filter fun n => !(clustersOf (upOf H a d)).seen.contains n.key).map Node.key) ↔
      (k ∈ (H.nodesAt a).map (fun l => l.node.key) ∧ k ∉ (clustersOf (upOf H a d)).seen) := by
    intro k
    simp only [List.mem_map, List.mem_filter, Bool.not_eq_true', List.contains_eq_mem, decide_eq_false_iff_not]
    constructor
    · rintro ⟨n, ⟨⟨l, hl, rfl⟩, hn⟩, rfl⟩
      exact ⟨⟨l, hl, rfl⟩, hn⟩
    · rintro ⟨⟨l, hl, rfl⟩, hn⟩
      exact ⟨l.node, ⟨⟨l, hl, rfl⟩, hn⟩, rfl⟩
  apply (List.perm_ext_iff_of_nodup ?_ hK).mpr
  · intro k
    simp only [List.mem_append, hloss]
    constructor
    · rintro ((⟨h, _⟩ | h) | h)
      · exact h
      · exact seen_sub hw a d k (seen_of_ret k h)
      · exact seen_sub hw a d k (seen_of_dup k h)
    · intro h
      by_cases hs : k ∈ (clustersOf (upOf H a d)).seen
      · rcases ret_or_dup k hs with h' | h'
        · exact Or.inl (Or.inr h')
        · exact Or.inr h'
      · exact Or.inl (Or.inl ⟨h, hs⟩)
  · rw [List.nodup_append, List.nodup_append]
    refine ⟨⟨?_, hrn, ?_⟩, hdn, ?_⟩
    · have : ((((H.nodesAt a).map Loc.node).filter fun n => !(clustersOf (upOf H a d)).seen.contains n.key).map Node.key).Sublist
          (((H.nodesAt a).map Loc.node).map Node.key) := (List.filter_sublist).map _
      rw [List.map_map] at this
      exact hK.sublist this
    · intro k h1 k' h2 hkk
      subst hkk
      exact ((hloss k).mp h1).2 (seen_of_ret k h2)
    · intro k h1 k' h2 hkk
      subst hkk
      rcases List.mem_append.mp h1 with h1 | h1
      · exact ((hloss k).mp h1).2 (seen_of_dup k h2)
      · exact clusters_keys_disjoint (upOf H a d) (upOf_noClash hw a d) k h1 h2

/-- ancestor size = lost + retained + duplicated ancestors -/
theorem C05_ancestor_size (H : Ham) (hw : H.WFc) (a d : Taxon) :
    (H.nodesAt a).length = (hogsMap H a d).loss.length + (hogsMap H a d).retained.length +
      (hogsMap H a d).dupl.length := by
  have := (C05_ancestor_partition H hw a d).length_eq
  simp only [List.length_append, List.length_map] at this
  omega

/-- the count-only self check of the code (`_check_consistency_numbers`) always succeeds -/
theorem C05_consistent (H : Ham) (hw : H.WFc) (a d : Taxon) : (hogsMap H a d).consistent H = true := by
  have h1 := C05_descendant_size H hw a d
  have h2 := C05_ancestor_size H hw a d
  simp only [HMap.consistent, Bool.and_eq_true, beq_iff_eq]
  have e1 : (hogsMap H a d).desc = d := by simp [hogsMap]
  have e2 : (hogsMap H a d).anc = a := by simp [hogsMap]
  rw [e1, e2]
  omega

end Pyham
