/-
  C04: ancestral genomes list exactly the HOGs placed at their taxon, each once, all reachable.
  Every HOG node the loader creates (for a written group, for a skipped level, for the level of a
  duplication) is registered in its genome exactly once, at its own taxon, and survives into the
  result; a collapsed group is neither registered nor kept.  Holds for ANY successful load.
-/
import PyhamModel.Lemmas.Leaves
namespace Pyham

mutual
/-- what the genomes must list for a subtree: one entry (taxon, identity) per HOG node -/
def Node.regOf : Node → List (Taxon × Key)
  | .gene .. => []
  | .hog info t _ ks _ => (t, Key.h info.uid) :: regOfL ks
def regOfL : List Node → List (Taxon × Key)
  | [] => []
  | k :: ks => k.regOf ++ regOfL ks
end

theorem setDup_regOf (d : Option Nat) (n : Node) : (n.setDup d).regOf = n.regOf := by
  cases n <;> simp [Node.setDup, Node.regOf]

theorem regOfL_append (a b : List Node) : regOfL (a ++ b) = regOfL a ++ regOfL b := by
  induction a with
  | nil => simp [regOfL]
  | cons x xs ih => simp [regOfL, ih]

theorem regOfL_map_setDup (d : Option Nat) (l : List Node) :
    regOfL (l.map (Node.setDup d)) = regOfL l := by
  induction l with
  | nil => rfl
  | cons x xs ih => simp [regOfL, ih, setDup_regOf]

theorem regOfL_singleton (x : Node) : regOfL [x] = x.regOf := by simp [regOfL]

theorem regOfL_nil : regOfL [] = [] := by simp [regOfL]

theorem key_g_regOf (n : Node) (i : String) (h : n.key = .g i) : n.regOf = [] := by
  cases n <;> simp_all [Node.key, Node.regOf]

/-- composing two "the log grew by what is new among the nodes" statements -/
theorem perm_diff_trans {α} [DecidableEq α] {a b c K K1 K' : List α}
    (h1 : (b ++ K).Perm (a ++ K1)) (h2 : (c ++ K1).Perm (b ++ K')) : (c ++ K).Perm (a ++ K') := by
  rw [List.perm_iff_count] at *
  intro x
  have e1 := h1 x
  have e2 := h2 x
  simp only [List.count_append] at *
  omega

theorem addMissing_reg_aux (hid : Option String) : (ts : List Taxon) → (cur : Node) → (ps : PS) →
    (top : Node) → (ps' : PS) → addMissing hid cur ts ps = .ok (top, ps') →
    ∃ new, ps'.reg = ps.reg ++ new ∧ (top.regOf).Perm (new ++ cur.regOf) ∧
      ps'.dstore = ps.dstore ∧ ps'.pstack = ps.pstack ∧ ps'.inPG = ps.inPG ∧ ps'.cur = ps.cur
  | [], cur, ps, top, ps', h => by
    simp [addMissing] at h
    obtain ⟨rfl, rfl⟩ := h
    exact ⟨[], by simp, by simp, rfl, rfl, rfl, rfl⟩
  | t :: ts, cur, ps, top, ps', h => by
    simp only [addMissing] at h
    split at h
    · cases h
    · obtain ⟨new, h1, h2, h3, h4, h5, h6⟩ := addMissing_reg_aux hid ts _ _ _ _ h
      refine ⟨(t, Key.h ps.next) :: new, ?_, ?_, ?_, ?_, ?_, ?_⟩
      · rw [h1]; simp [PS.register]
      · simp only [Node.regOf, regOfL, List.append_nil] at h2
        exact h2.trans List.perm_middle
      · rw [h3]; rfl
      · rw [h4]; rfl
      · rw [h5]; rfl
      · rw [h6]; rfl

/-- chaining up registers exactly the new single-child HOGs -/
theorem addMissing_reg (hid : Option String) (cur : Node) (ts : List Taxon) (ps : PS) (top : Node) (ps' : PS)
    (h : addMissing hid cur ts ps = .ok (top, ps')) :
    ∃ new, ps'.reg = ps.reg ++ new ∧ (top.regOf).Perm (new ++ cur.regOf) ∧
      ps'.dstore = ps.dstore ∧ ps'.pstack = ps.pstack ∧ ps'.inPG = ps.inPG ∧ ps'.cur = ps.cur :=
  addMissing_reg_aux hid ts cur ps top ps' h

/-- the top of a chain is either the node itself (no level skipped) or a brand-new HOG -/
theorem addMissing_top (hid : Option String) (cur : Node) (ts : List Taxon) (ps : PS) (top : Node) (ps' : PS)
    (h : addMissing hid cur ts ps = .ok (top, ps')) :
    top = cur ∨ ∃ u, top.key = .h u ∧ ps.next ≤ u ∧ u < ps'.next := by
  cases ts with
  | nil =>
    simp [addMissing] at h
    exact Or.inl h.1.symm
  | cons t ts =>
    right
    simp only [addMissing] at h
    split at h
    · cases h
    · obtain ⟨_, h2, h3⟩ := addMissing_spec hid ts _ _ _ _ h
      simp [PS.register, Node.key, chainInfo] at h2 h3
      rcases h3 with h3 | ⟨u, hu, hu1, hu2⟩
      · exact ⟨ps.next, h3, by omega, by omega⟩
      · exact ⟨u, hu, by omega, hu2⟩

/-- members with the same identity carry the same registrations -/
def RegDet (cs kids : List Node) : Prop :=
  ∀ a ∈ cs, ∀ b ∈ kids, a.key = b.key → a.regOf = b.regOf

theorem eraseKey_reg_gen (c : Node) : (kids : List Node) → (∃ b ∈ kids, b.key = c.key) →
    (∀ b ∈ kids, b.key = c.key → b.regOf = c.regOf) →
    (regOfL (eraseKey c.key kids) ++ c.regOf).Perm (regOfL kids)
  | [], hex, _ => by obtain ⟨b, hb, _⟩ := hex; cases hb
  | n :: ns, hex, hdet => by
    simp only [eraseKey]
    split
    · rename_i hk
      have hk' : n.key = c.key := by simpa using hk
      rw [← hdet n (List.mem_cons_self ..) hk']
      simp only [regOfL]
      exact List.perm_append_comm
    · rename_i hk
      have hk' : n.key ≠ c.key := by simpa using hk
      simp only [regOfL, List.append_assoc]
      apply List.Perm.append_left
      apply eraseKey_reg_gen c ns
      · obtain ⟨b, hb, hbk⟩ := hex
        rcases List.mem_cons.mp hb with rfl | hb'
        · exact absurd hbk hk'
        · exact ⟨b, hb', hbk⟩
      · intro b hb; exact hdet b (List.mem_cons_of_mem _ hb)

theorem regDet_of_hkn {cs kids : List Node} (hnd : HogKeysNodup kids) (hsub : ∀ a ∈ cs, a ∈ kids) :
    RegDet cs kids := by
  intro a ha b hb hab
  cases hk : b.key with
  | g i => rw [key_g_regOf b i hk, key_g_regOf a i (hab.trans hk)]
  | h u => rw [eq_of_hkn kids hnd a (hsub a ha) b hb u (hab.trans hk) hk]

theorem regDet_filter {kids : List Node} (p : Node → Bool) (hnd : HogKeysNodup kids) :
    RegDet (kids.filter p) kids :=
  regDet_of_hkn hnd (fun _ ha => (List.mem_filter.mp ha).1)

theorem regDet_tail_erase {c : Node} {cs kids : List Node} (h : RegDet (c :: cs) kids) :
    RegDet cs (eraseKey c.key kids) :=
  fun a ha b hb hab => h a (List.mem_cons_of_mem _ ha) b (mem_of_mem_eraseKey hb) hab

/-- one round of "remove the child by identity, append the top of its chain", registrations -/
theorem step_reg {N N' : Nat} {c top' : Node} {cs kids : List Node} {new : List (Taxon × Key)}
    (ha : KeyLe (c :: cs) kids) (hc : UidsBelow N kids) (hd : RegDet (c :: cs) kids)
    (hr : top'.regOf.Perm (new ++ c.regOf))
    (hk : (top'.key = c.key ∧ top'.regOf = c.regOf) ∨ ∃ u, top'.key = .h u ∧ N ≤ u ∧ u < N') :
    RegDet cs (eraseKey c.key kids ++ [top']) ∧
      (regOfL (eraseKey c.key kids ++ [top'])).Perm (new ++ regOfL kids) := by
  obtain ⟨b0, hb0, hb0k⟩ := exists_of_keyLe ha
  have hccs : UidsBelow N (c :: cs) := uidsBelow_of_keyLe ha hc
  constructor
  · intro a ha' b hb' hab
    rcases List.mem_append.mp hb' with hb' | hb'
    · exact hd a (List.mem_cons_of_mem _ ha') b (mem_of_mem_eraseKey hb') hab
    · have hx' : b = top' := by simpa using hb'
      subst hx'
      rcases hk with ⟨hk, hkr⟩ | ⟨u0, hk, hu1, hu2⟩
      · rw [hkr, hd a (List.mem_cons_of_mem _ ha') b0 hb0 (hab.trans (hk.trans hb0k.symm)),
          hd c (List.mem_cons_self ..) b0 hb0 hb0k.symm]
      · have := hccs a (List.mem_cons_of_mem _ ha') u0 (hab.trans hk); omega
  · have hp := eraseKey_reg_gen c kids ⟨b0, hb0, hb0k⟩
      (fun b hb' hbk => (hd c (List.mem_cons_self ..) b hb' hbk.symm).symm)
    rw [regOfL_append, regOfL_singleton]
    rw [List.perm_iff_count] at *
    intro x
    have e1 := hp x
    have e2 := hr x
    simp only [List.count_append] at *
    omega

theorem genericPass_reg (hid : Option String) (level : Taxon) : (cs kids : List Node) → (ps : PS) →
    (kids' : List Node) → (ps' : PS) → genericPass hid level cs kids ps = .ok (kids', ps') →
    KeyLe cs kids → HogKeysNodup kids → UidsBelow ps.next kids → LeafDet cs kids → RegDet cs kids →
    (ps'.reg ++ regOfL kids).Perm (ps.reg ++ regOfL kids')
  | [], kids, ps, kids', ps', h, _, _, _, _, _ => by
    simp [genericPass] at h
    obtain ⟨rfl, rfl⟩ := h
    exact List.Perm.refl _
  | c :: cs, kids, ps, kids', ps', h, ha, hb, hc, hd, he => by
    simp only [genericPass, bind, Except.bind] at h
    split at h
    · cases h
    · rename_i r hr
      obtain ⟨top, ps1⟩ := r
      obtain ⟨h1, h2, h3⟩ := addMissing_spec _ _ _ _ _ _ hr
      obtain ⟨i1, i2, i3, i4, _⟩ := step_inv ha hb hc hd h2 h1 h3
      obtain ⟨new, r1, r2, _⟩ := addMissing_reg _ _ _ _ _ _ hr
      have ht := addMissing_top _ _ _ _ _ _ hr
      obtain ⟨s1, s2⟩ := step_reg (N' := ps1.next) ha hc he r2
        (ht.imp (fun e => by subst e; exact ⟨rfl, rfl⟩) id)
      have ih := genericPass_reg hid level cs _ ps1 kids' ps' h i1 i2 i3 i4 s1
      refine perm_diff_trans ?_ ih
      rw [r1, List.append_assoc]
      exact s2.symm.append_left _

theorem rehomeDirect_reg (hid : Option String) (level : Taxon) (d : Nat) : (cs kids : List Node) →
    (mem : List Key) → (ps : PS) → (kids' : List Node) → (mem' : List Key) → (ps' : PS) →
    rehomeDirect hid level d cs kids mem ps = .ok (kids', mem', ps') →
    KeyLe cs kids → HogKeysNodup kids → UidsBelow ps.next kids → LeafDet cs kids → RegDet cs kids →
    (ps'.reg ++ regOfL kids).Perm (ps.reg ++ regOfL kids')
  | [], kids, mem, ps, kids', mem', ps', h, _, _, _, _, _ => by
    simp [rehomeDirect] at h
    obtain ⟨rfl, _, rfl⟩ := h
    exact List.Perm.refl _
  | c :: cs, kids, mem, ps, kids', mem', ps', h, ha, hb, hc, hd, he => by
    simp only [rehomeDirect, bind, Except.bind] at h
    split at h
    · cases h
    · rename_i r hr
      obtain ⟨top, ps1⟩ := r
      simp only at h
      split at h
      · cases h
      · obtain ⟨h1, h2, h3⟩ := addMissing_spec _ _ _ _ _ _ hr
        rw [setDup_leaves] at h1
        rw [setDup_key] at h3
        obtain ⟨i1, i2, i3, i4, _⟩ := step_inv (top' := top.setDup (some d)) ha hb hc hd h2
          (by rw [setDup_leaves, h1]) (by rw [setDup_key]; exact h3)
        obtain ⟨new, r1, r2, _⟩ := addMissing_reg _ _ _ _ _ _ hr
        rw [setDup_regOf] at r2
        have ht := addMissing_top _ _ _ _ _ _ hr
        obtain ⟨s1, s2⟩ := step_reg (N' := ps1.next) (top' := top.setDup (some d)) ha hc he
          (by rw [setDup_regOf]; exact r2)
          (by
            rcases ht with e | e
            · left; subst e; simp [setDup_key, setDup_regOf]
            · right; rw [setDup_key]; exact e)
        have ih := rehomeDirect_reg hid level d cs _ _ ps1 kids' mem' ps' h i1 i2 i3 i4 s1
        refine perm_diff_trans ?_ ih
        rw [r1, List.append_assoc]
        exact s2.symm.append_left _

theorem rehomeUnder_reg (hid : Option String) (mrcaTx : Taxon) : (cs kids mk : List Node) → (ps : PS) →
    (kids' mk' : List Node) → (ps' : PS) →
    rehomeUnder hid mrcaTx cs kids mk ps = .ok (kids', mk', ps') →
    KeyLe cs kids → RegDet cs kids →
    (ps'.reg ++ (regOfL kids ++ regOfL mk)).Perm (ps.reg ++ (regOfL kids' ++ regOfL mk'))
  | [], kids, mk, ps, kids', mk', ps', h, _, _ => by
    simp [rehomeUnder] at h
    obtain ⟨rfl, rfl, rfl⟩ := h
    exact List.Perm.refl _
  | c :: cs, kids, mk, ps, kids', mk', ps', h, ha, hd => by
    simp only [rehomeUnder, bind, Except.bind] at h
    split at h
    · cases h
    · rename_i r hr
      obtain ⟨top, ps1⟩ := r
      simp only at h
      obtain ⟨new, r1, r2, _⟩ := addMissing_reg _ _ _ _ _ _ hr
      rw [setDup_regOf] at r2
      have ih := rehomeUnder_reg hid mrcaTx cs _ _ ps1 kids' mk' ps' h
        (keyLe_tail_erase ha) (regDet_tail_erase hd)
      refine perm_diff_trans ?_ ih
      obtain ⟨b0, hb0, hb0k⟩ := exists_of_keyLe ha
      have hp := eraseKey_reg_gen c kids ⟨b0, hb0, hb0k⟩
        (fun b hb' hbk => (hd c (List.mem_cons_self ..) b hb' hbk.symm).symm)
      rw [r1, regOfL_append, regOfL_singleton]
      rw [List.perm_iff_count] at *
      intro x
      have e1 := hp x
      have e2 := r2 x
      simp only [List.count_append] at *
      omega

theorem modDup_reg (ps : PS) (d : Nat) (f : DupBuild → DupBuild) : (ps.modDup d f).reg = ps.reg := rfl

theorem dupStep_reg (hid : Option String) (level : Taxon) (st : CloseSt) (d : Nat) (st' : CloseSt)
    (h : dupStep hid level st d = .ok st') (hb : HogKeysNodup st.kids)
    (hc : UidsBelow st.ps.next st.kids) :
    (st'.ps.reg ++ regOfL st.kids).Perm (st.ps.reg ++ regOfL st'.kids) := by
  simp only [dupStep, bind, Except.bind] at h
  split at h
  · rename_i b hgd
    split at h
    · rename_i mrcaTx hm
      split at h
      · cases h
      · split at h
        · split at h
          · cases h
          · rename_i v hr
            obtain ⟨k1, m1, p1⟩ := v
            simp only [Except.ok.injEq] at h
            subst h
            have j := rehomeUnder_reg _ _ _ _ _ _ _ _ _ hr (keyLe_filter _ _) (regDet_filter _ hb)
            simp only [modDup_reg, regOfL_append, regOfL_singleton, Node.regOf, regOfL_map_setDup, chainInfo]
            simp only [PS.register, regOfL_nil, List.append_nil] at j
            rw [List.perm_iff_count] at *
            intro x
            have e1 := j x
            simp only [List.count_append, List.count_cons, List.count_nil] at *
            omega
        · split at h
          · cases h
          · rename_i v hr
            obtain ⟨k1, m1, p1⟩ := v
            simp only [Except.ok.injEq] at h
            subst h
            have := rehomeDirect_reg _ _ _ _ _ _ _ _ _ _ hr (keyLe_filter _ _) hb hc
              (leafDet_filter _ hb) (regDet_filter _ hb)
            exact this
    · cases h
  · cases h

theorem dupSteps_reg (hid : Option String) (level : Taxon) : (ds : List Nat) → (st st' : CloseSt) →
    dupSteps hid level ds st = .ok st' → HogKeysNodup st.kids → UidsBelow st.ps.next st.kids →
    (st'.ps.reg ++ regOfL st.kids).Perm (st.ps.reg ++ regOfL st'.kids)
  | [], st, st', h, _, _ => by
    simp [dupSteps] at h
    subst h
    exact List.Perm.refl _
  | d :: ds, st, st', h, hb, hc => by
    simp only [dupSteps, bind, Except.bind] at h
    split at h
    · cases h
    · rename_i st1 h1
      obtain ⟨_, i2, i3, _⟩ := dupStep_spec hid level st d st1 h1 hb hc
      have r1 := dupStep_reg hid level st d st1 h1 hb hc
      have r2 := dupSteps_reg hid level ds st1 st' h i2 i3
      exact perm_diff_trans r1 r2

/-- closing a group: the log grows by exactly the HOG nodes that are new in the result -/
theorem closeOg_reg (env : Env) (top : Bool) (hb : HogBuild) (ps : PS) (res : List Node) (ps' : PS)
    (h : closeOg env top hb ps = .ok (res, ps'))
    (hnd : HogKeysNodup hb.kids) (hfresh : UidsBelow ps.next hb.kids) (huid : hb.info.uid < ps.next) :
    (ps'.reg ++ regOfL hb.kids).Perm (ps.reg ++ regOfL res) := by
  have _ := huid
  simp only [closeOg, bind, Except.bind] at h
  split at h
  · cases h
  · rename_i lv hlv
    split at h
    · -- collapse
      split at h
      · cases h
      · split at h
        · simp only [Except.ok.injEq, Prod.mk.injEq] at h
          obtain ⟨rfl, rfl⟩ := h
          exact List.Perm.refl _
        · split at h
          · split at h
            · cases h
            · split at h
              · cases h
              · simp only [Except.ok.injEq, Prod.mk.injEq] at h
                obtain ⟨rfl, rfl⟩ := h
                rw [regOfL_map_setDup]
                exact List.Perm.refl _
          · cases h
    · -- a level
      split at h
      · cases h
      · rename_i level hl
        split at h
        · cases h
        · rename_i st hst
          split at h
          · cases h
          · rename_i v hg
            obtain ⟨kids, ps2⟩ := v
            simp only [Except.ok.injEq, Prod.mk.injEq] at h
            obtain ⟨rfl, rfl⟩ := h
            obtain ⟨_, i2, i3, _⟩ := dupSteps_spec _ _ _ _ _ hst hnd (by simpa [register_next] using hfresh)
            have r1 := dupSteps_reg _ _ _ _ _ hst hnd (by simpa [register_next] using hfresh)
            have r2 := genericPass_reg _ _ _ _ _ _ _ hg (keyLe_filter _ _) i2 i3
              (leafDet_filter _ i2) (regDet_filter _ i2)
            have r3 := perm_diff_trans r1 r2
            simp only [PS.register] at r3
            simp only [regOfL_singleton, Node.regOf]
            rw [List.perm_iff_count] at *
            intro x
            have e1 := r3 x
            simp only [List.count_append, List.count_cons, List.count_nil] at *
            omega

theorem newDup_reg (ps : PS) (pgid : Option String) : (newDup ps pgid).2.reg = ps.reg := rfl

theorem pgOpen_reg (len : Nat) (pgid : Option String) (ps : PS) : (pgOpen len pgid ps).reg = ps.reg := by
  simp only [pgOpen]
  split
  · split
    · rfl
    · rfl
  · rfl

theorem setMRCA_reg (kids : List Node) (ps : PS) (d : Nat) (ps' : PS) (h : setMRCA kids ps d = .ok ps') :
    ps'.reg = ps.reg := by
  simp only [setMRCA] at h
  repeat' split at h
  all_goals cases h
  all_goals rfl

theorem pgClose_reg (kids : List Node) (ps ps' : PS) (h : pgClose kids ps = .ok ps') :
    ps'.reg = ps.reg := by
  simp only [pgClose, bind, Except.bind] at h
  split at h
  · cases h
  · split at h
    · split at h
      · cases h
      · split at h
        · cases h
        · rename_i v hv
          have := setMRCA_reg _ _ _ _ hv
          split at h <;> (simp only [Except.ok.injEq] at h; subst h; exact this)
    · cases h

theorem elem_reg_aux (env : Env) : (e : Elem) → (len : Nat) → (hb : HogBuild) → (ps : PS) →
    (hb' : HogBuild) → (ps' : PS) → elem env len e hb ps = .ok (hb', ps') → LInv hb ps →
    (ps'.reg ++ regOfL hb.kids).Perm (ps.reg ++ regOfL hb'.kids)
  | .ref id loft, len, hb, ps, hb', ps', h, inv => by
    simp only [elem] at h
    split at h
    · cases h
    · rename_i t ht
      simp only [Except.ok.injEq, Prod.mk.injEq] at h
      obtain ⟨rfl, h2⟩ := h
      have hn : ps'.reg = ps.reg := by rw [← h2]; split <;> rfl
      rw [hn, regOfL_append]
      simp [regOfL, Node.regOf]
  | .score id v, len, hb, ps, hb', ps', h, inv => by
    simp only [elem, Except.ok.injEq, Prod.mk.injEq] at h
    obtain ⟨rfl, rfl⟩ := h
    exact List.Perm.refl _
  | .prop n v, len, hb, ps, hb', ps', h, inv => by
    simp only [elem, Except.ok.injEq, Prod.mk.injEq] at h
    obtain ⟨rfl, rfl⟩ := h
    exact List.Perm.refl _
  | .pg pgid its, len, hb, ps, hb', ps', h, inv => by
    simp only [elem, bind, Except.bind] at h
    split at h
    · cases h
    · rename_i v hv
      obtain ⟨hb1, ps2⟩ := v
      split at h
      · cases h
      · rename_i ps3 hc
        simp only [Except.ok.injEq, Prod.mk.injEq] at h
        obtain ⟨rfl, rfl⟩ := h
        have h0 := pgOpen_next len pgid ps
        have r := elems_reg_aux env its len hb _ hb1 ps2 hv (linv_mono inv h0)
        have h3 := pgClose_reg _ _ _ hc
        simp only at h3
        rw [pgOpen_reg] at r
        rw [h3]
        exact r
  | .og hid og its, len, hb, ps, hb', ps', h, inv => by
    simp only [elem, bind, Except.bind] at h
    split at h
    · cases h
    · rename_i v hv
      obtain ⟨nb, ps2⟩ := v
      split at h
      · cases h
      · rename_i w hw
        obtain ⟨res, ps3⟩ := w
        simp only [Except.ok.injEq, Prod.mk.injEq] at h
        obtain ⟨rfl, rfl⟩ := h
        obtain ⟨_, i2, _, _⟩ := elems_leaves env (len + 1) its _ _ nb ps2 hv
          (linv_new ps.next hid og _ _ (by split <;> exact Nat.lt_succ_self _))
        have r := elems_reg_aux env its (len + 1) _ _ nb ps2 hv
          (linv_new ps.next hid og _ _ (by split <;> exact Nat.lt_succ_self _))
        have r' : (ps2.reg ++ regOfL []).Perm (ps.reg ++ regOfL nb.kids) := by
          revert r
          repeat' split
          all_goals exact id
        obtain ⟨j1, j2, j3, _⟩ := i2
        have c := closeOg_reg env false nb ps2 res ps3 hw j1 j2 j3
        rw [regOfL_append]
        rw [regOfL_nil] at r'
        rw [List.perm_iff_count] at *
        intro x
        have e1 := r' x
        have e2 := c x
        simp only [List.count_append, List.count_nil] at *
        omega
where
  elems_reg_aux (env : Env) : (es : List Elem) → (len : Nat) → (hb : HogBuild) → (ps : PS) →
      (hb' : HogBuild) → (ps' : PS) → elems env len es hb ps = .ok (hb', ps') → LInv hb ps →
      (ps'.reg ++ regOfL hb.kids).Perm (ps.reg ++ regOfL hb'.kids)
    | [], len, hb, ps, hb', ps', h, inv => by
      simp only [elems, Except.ok.injEq, Prod.mk.injEq] at h
      obtain ⟨rfl, rfl⟩ := h
      exact List.Perm.refl _
    | e :: es, len, hb, ps, hb', ps', h, inv => by
      simp only [elems, bind, Except.bind] at h
      split at h
      · cases h
      · rename_i v hv
        obtain ⟨hb1, ps1⟩ := v
        obtain ⟨_, i2, _, _⟩ := elem_leaves env len e hb ps hb1 ps1 hv inv
        have r1 := elem_reg_aux env e len hb ps hb1 ps1 hv inv
        have r2 := elems_reg_aux env es len hb1 ps1 hb' ps' h i2
        exact perm_diff_trans r1 r2

theorem elem_reg (env : Env) (len : Nat) (e : Elem) (hb : HogBuild) (ps : PS) (hb' : HogBuild) (ps' : PS)
    (h : elem env len e hb ps = .ok (hb', ps')) (inv : LInv hb ps) :
    (ps'.reg ++ regOfL hb.kids).Perm (ps.reg ++ regOfL hb'.kids) :=
  elem_reg_aux env e len hb ps hb' ps' h inv

theorem elems_reg (env : Env) (len : Nat) (es : List Elem) (hb : HogBuild) (ps : PS) (hb' : HogBuild) (ps' : PS)
    (h : elems env len es hb ps = .ok (hb', ps')) (inv : LInv hb ps) :
    (ps'.reg ++ regOfL hb.kids).Perm (ps.reg ++ regOfL hb'.kids) :=
  elem_reg_aux.elems_reg_aux env es len hb ps hb' ps' h inv

/-- a filtered load either skips a top-level group or treats it exactly as the unfiltered load -/
theorem topOg_filter (env : Env) (flt : HogFilter) (hid og : Option String) (its : List Elem)
    (tops : List Node) (ps : PS) (tops' : List Node) (ps' : PS)
    (h : topElem env flt (.og hid og its) tops ps = .ok (tops', ps')) :
    (tops' = tops ∧ ps' = ps) ∨ topElem env none (.og hid og its) tops ps = .ok (tops', ps') := by
  cases flt with
  | none => exact Or.inr h
  | some ids =>
    cases hid with
    | none => simp [topElem, bind, Except.bind, throw, throwThe, MonadExceptOf.throw] at h
    | some i =>
      by_cases hc : i ∈ ids
      · right
        simp [topElem, bind, Except.bind, pure, Except.pure, hc] at h ⊢
        exact h
      · left
        simp [topElem, bind, Except.bind, pure, Except.pure, hc] at h
        exact ⟨h.1.symm, h.2.symm⟩

theorem topOg_reg (env : Env) (hid og : Option String) (its : List Elem) (tops : List Node) (ps : PS)
    (tops' : List Node) (ps' : PS)
    (h : topElem env none (.og hid og its) tops ps = .ok (tops', ps')) :
    (ps'.reg ++ regOfL tops).Perm (ps.reg ++ regOfL tops') := by
  simp only [topElem, bind, Except.bind, pure, Except.pure] at h
  split at h
  · rename_i hc; simp at hc
  · split at h
    · cases h
    · rename_i v hv
      obtain ⟨nb, ps2⟩ := v
      split at h
      · cases h
      · rename_i w hw
        obtain ⟨res, ps3⟩ := w
        simp only [Except.ok.injEq, Prod.mk.injEq] at h
        obtain ⟨rfl, rfl⟩ := h
        obtain ⟨_, i2, _, _⟩ := elems_leaves env 1 its _ _ nb ps2 hv
          (linv_new ps.next hid og _ _ (by split <;> exact Nat.lt_succ_self _))
        have r := elems_reg env 1 its _ _ nb ps2 hv
          (linv_new ps.next hid og _ _ (by split <;> exact Nat.lt_succ_self _))
        have r' : (ps2.reg ++ regOfL []).Perm (ps.reg ++ regOfL nb.kids) := by
          revert r
          repeat' split
          all_goals exact id
        obtain ⟨j1, j2, j3, _⟩ := i2
        have c := closeOg_reg env true nb ps2 res ps3 hw j1 j2 j3
        rw [regOfL_append]
        rw [regOfL_nil] at r'
        rw [List.perm_iff_count] at *
        intro x
        have e1 := r' x
        have e2 := c x
        simp only [List.count_append, List.count_nil] at *
        omega

theorem topElem_reg_aux (env : Env) (flt : HogFilter) : (e : Elem) → (tops : List Node) → (ps : PS) →
    (tops' : List Node) → (ps' : PS) → topElem env flt e tops ps = .ok (tops', ps') →
    HogKeysNodup tops → UidsBelow ps.next tops →
    (ps'.reg ++ regOfL tops).Perm (ps.reg ++ regOfL tops') ∧ HogKeysNodup tops' ∧
      UidsBelow ps'.next tops' ∧ ps.next ≤ ps'.next
  | .ref id loft, tops, ps, tops', ps', h, _, _ => by
    simp only [topElem] at h
    split at h <;> cases h
  | .score id v, tops, ps, tops', ps', h, _, _ => by simp [topElem] at h
  | .prop n v, tops, ps, tops', ps', h, _, _ => by simp [topElem] at h
  | .pg pgid its, tops, ps, tops', ps', h, hnd, hfresh => by
    simp only [topElem, bind, Except.bind] at h
    split at h
    · cases h
    · rename_i v hv
      obtain ⟨tops1, ps2⟩ := v
      split at h
      · cases h
      · rename_i ps3 hc
        simp only [Except.ok.injEq, Prod.mk.injEq] at h
        obtain ⟨rfl, rfl⟩ := h
        have h0 := pgOpen_next 0 pgid ps
        obtain ⟨i1, i2, i3, i4⟩ := topElems_reg_aux env flt its tops _ tops1 ps2 hv hnd (hfresh.mono h0)
        have h3 := pgClose_next _ _ _ hc
        have h4 := pgClose_reg _ _ _ hc
        simp only at h3 h4
        rw [pgOpen_reg] at i1
        rw [h4]
        exact ⟨i1, i2, i3.mono (by omega), by omega⟩
  | .og hid og its, tops, ps, tops', ps', h, hnd, hfresh => by
    rcases topOg_filter env flt hid og its tops ps tops' ps' h with ⟨rfl, rfl⟩ | h'
    · exact ⟨List.Perm.refl _, hnd, hfresh, Nat.le_refl _⟩
    · obtain ⟨_, a2, a3, a4⟩ := topElem_aux env _ tops ps tops' ps' h' hnd hfresh
      exact ⟨topOg_reg env hid og its tops ps tops' ps' h', a2, a3, a4⟩
where
  topElems_reg_aux (env : Env) (flt : HogFilter) : (es : List Elem) → (tops : List Node) → (ps : PS) →
      (tops' : List Node) → (ps' : PS) → topElems env flt es tops ps = .ok (tops', ps') →
      HogKeysNodup tops → UidsBelow ps.next tops →
      (ps'.reg ++ regOfL tops).Perm (ps.reg ++ regOfL tops') ∧ HogKeysNodup tops' ∧
        UidsBelow ps'.next tops' ∧ ps.next ≤ ps'.next
    | [], tops, ps, tops', ps', h, hnd, hfresh => by
      simp only [topElems, Except.ok.injEq, Prod.mk.injEq] at h
      obtain ⟨rfl, rfl⟩ := h
      exact ⟨List.Perm.refl _, hnd, hfresh, Nat.le_refl _⟩
    | e :: es, tops, ps, tops', ps', h, hnd, hfresh => by
      simp only [topElems, bind, Except.bind] at h
      split at h
      · cases h
      · rename_i v hv
        obtain ⟨tops1, ps1⟩ := v
        obtain ⟨i1, i2, i3, i4⟩ := topElem_reg_aux env flt e tops ps tops1 ps1 hv hnd hfresh
        obtain ⟨j1, j2, j3, j4⟩ := topElems_reg_aux env flt es tops1 ps1 tops' ps' h i2 i3
        exact ⟨perm_diff_trans i1 j1, j2, j3, by omega⟩

theorem topElems_reg (env : Env) (flt : HogFilter) (es : List Elem) (tops : List Node) (ps : PS) (tops' : List Node) (ps' : PS)
    (h : topElems env flt es tops ps = .ok (tops', ps'))
    (hnd : HogKeysNodup tops) (hfresh : UidsBelow ps.next tops) :
    (ps'.reg ++ regOfL tops).Perm (ps.reg ++ regOfL tops') :=
  (topElem_reg_aux.topElems_reg_aux env flt es tops ps tops' ps' h hnd hfresh).1

/-- **C04** (registration part): after any successful load, filtered or not, the registration log is,
    up to order, the list of all HOG nodes of the families with their taxa -/
theorem C04_registration_exact (env : Env) (flt : HogFilter) (es : List Elem) (tops : List Node) (ps : PS)
    (h : topElems env flt es [] {} = .ok (tops, ps)) :
    ps.reg.Perm (regOfL tops) := by
  have := topElems_reg env flt es [] {} tops ps h (by simp [HogKeysNodup]) (by intro k hk; cases hk)
  simpa [regOfL] using this

end Pyham
