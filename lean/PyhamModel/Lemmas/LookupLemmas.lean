/-
  C15: lookups are coherent with listings and never ambiguous.
-/
import PyhamModel.Model.Lookup
import PyhamModel.Model.WF
import PyhamModel.Lemmas.TreeLemmas
namespace Pyham

theorem find_nodup_key {α β} [BEq β] [LawfulBEq β] (f : α → β) (l : List α) (hn : (l.map f).Nodup)
    (g : α) (hg : g ∈ l) : l.find? (fun x => f x == f g) = some g := by
  induction l with
  | nil => simp at hg
  | cons x xs ih =>
    simp only [List.map_cons, List.nodup_cons, List.mem_map, not_exists, not_and] at hn
    rcases List.mem_cons.mp hg with h | h
    · subst h; simp
    · have hne : f x ≠ f g := fun e => hn.1 g h e.symm
      rw [List.find?_cons_of_neg (by simpa using hne)]
      exact ih hn.2 h

theorem dictPut_keys {β} (d : List (Option String × β)) (k : Option String) (v : β)
    (h : (d.map (·.1)).Nodup) : ((dictPut d k v).map (·.1)).Nodup := by
  unfold dictPut
  split
  · have : (d.map fun e => if e.1 == k then (k, v) else e).map (·.1) = d.map (·.1) := by
      rw [List.map_map]
      apply List.map_congr_left
      intro e _
      by_cases he : e.1 = k <;> simp [he]
    rw [this]; exact h
  · rename_i hany
    simp only [List.any_eq_true, beq_iff_eq, not_exists, not_and] at hany
    rw [List.map_append, List.nodup_append]
    refine ⟨h, by simp, ?_⟩
    intro a ha b hb
    simp only [List.map_cons, List.map_nil, List.mem_singleton] at hb
    subst hb
    obtain ⟨e, he, rfl⟩ := List.mem_map.mp ha
    exact hany e he

theorem dictPut_foldl_keys {β} (f : β → Option String) (l : List β) (d : List (Option String × β))
    (h : (d.map (·.1)).Nodup) : ((l.foldl (fun d n => dictPut d (f n) n) d).map (·.1)).Nodup := by
  induction l generalizing d with
  | nil => exact h
  | cons x xs ih => exact ih _ (dictPut_keys d (f x) x h)

/-- every listed gene is returned by the lookup under its id -/
theorem C15_gene_by_id (H : Ham) (hn : (H.genes.map (·.id)).Nodup) (g : GeneRec) (hg : g ∈ H.genes) :
    H.geneById g.id = .ok g := by
  unfold Ham.geneById
  have hn' : (H.genes.reverse.map (·.id)).Nodup := by
    rw [List.map_reverse]; exact (List.reverse_perm _).nodup_iff.mpr hn
  rw [find_nodup_key (·.id) H.genes.reverse hn' g (by simpa using hg)]

/-- unknown gene ids raise KeyError -/
theorem C15_gene_unknown (H : Ham) (id : String) (h : id ∉ H.genes.map (·.id)) : H.geneById id = .error .key := by
  unfold Ham.geneById
  have : H.genes.reverse.find? (·.id == id) = none := by
    rw [List.find?_eq_none]
    intro x hx
    simp only [beq_iff_eq]
    intro e
    exact h (List.mem_map.mpr ⟨x, by simpa using hx, e⟩)
  rw [this]

/-- each cross-reference value returns a list containing the gene -/
theorem C15_xref (H : Ham) (g : GeneRec) (hg : g ∈ H.genes) (k v : String) (hx : (k, v) ∈ g.xrefs) :
    ∃ ids, H.genesByExternalId v = .ok ids ∧ g.id ∈ ids := by
  have hm : g.id ∈ H.xrefIds v := by
    unfold Ham.xrefIds
    simp only [List.mem_flatMap, List.mem_map, List.mem_filter, beq_iff_eq]
    exact ⟨g, hg, (k, v), ⟨hx, rfl⟩, rfl⟩
  unfold Ham.genesByExternalId
  split
  · rename_i he; rw [he] at hm; simp at hm
  · exact ⟨_, rfl, hm⟩

theorem C15_xref_sound (H : Ham) (v : String) (ids : List String) (h : H.genesByExternalId v = .ok ids) (id : String)
    (hid : id ∈ ids) : ∃ g ∈ H.genes, g.id = id ∧ ∃ k, (k, v) ∈ g.xrefs := by
  unfold Ham.genesByExternalId at h
  split at h
  · cases h
  · cases h
    unfold Ham.xrefIds at hid
    simp only [List.mem_flatMap, List.mem_map, List.mem_filter, beq_iff_eq] at hid
    obtain ⟨g, hg, e, ⟨he, hv⟩, rfl⟩ := hid
    refine ⟨g, hg, rfl, e.1, ?_⟩
    rw [← hv]; exact he

theorem C15_xref_unknown (H : Ham) (v : String) (h : ∀ g ∈ H.genes, ∀ e ∈ g.xrefs, e.2 ≠ v) :
    H.genesByExternalId v = .error .key := by
  have : H.xrefIds v = [] := by
    unfold Ham.xrefIds
    simp only [List.flatMap_eq_nil_iff, List.map_eq_nil_iff, List.filter_eq_nil_iff, beq_iff_eq]
    intro g hg e he
    exact h g hg e he
  unfold Ham.genesByExternalId
  rw [this]

/-- python dict insertion keeps keys repetition-free -/
theorem dictPut_keys_nodup {β} (l : List β) (f : β → Option String) :
    ((l.foldl (fun d n => dictPut d (f n) n) []).map (·.1)).Nodup := by
  exact dictPut_foldl_keys f l [] (by simp)

/-- every listed top-level HOG is returned by the lookup under its id, provided the listing has
    repetition-free keys (which `buildHam` guarantees, see `dictPut_keys_nodup`) -/
theorem C15_hog_by_id (H : Ham) (hn : (H.tops.map (·.1)).Nodup) (id : String) (n : Node) (h : (some id, n) ∈ H.tops) :
    H.hogById id = .ok n := by
  unfold Ham.hogById
  have := find_nodup_key (·.1) H.tops hn (some id, n) h
  simp only at this
  rw [this]

theorem C15_hog_unknown (H : Ham) (id : String) (h : some id ∉ H.tops.map (·.1)) : H.hogById id = .error .key := by
  unfold Ham.hogById
  have : H.tops.find? (·.1 == some id) = none := by
    rw [List.find?_eq_none]
    intro x hx
    simp only [beq_iff_eq]
    intro e
    exact h (List.mem_map.mpr ⟨x, hx, e⟩)
  rw [this]

/-- ancestral genomes: by tree node, and by name when the taxonomy was accepted -/
theorem C15_ancestral_by_taxon (H : Ham) (t : Taxon) (ht : t ∈ H.ancestralTaxa) :
    H.ancestralGenomeByTaxon t = .ok t := by
  unfold Ham.ancestralGenomeByTaxon
  rw [if_pos (by simpa using ht)]

theorem C15_ancestral_by_name (H : Ham) (hok : H.tree.namesOk H.naming = true) (t : Taxon) (ht : t ∈ H.ancestralTaxa)
    (s : String) (hs : H.tree.nameAt H.naming t = some s) : H.ancestralGenomeByName s = .ok t := by
  unfold Ham.ancestralGenomeByName
  have hint : ∀ x ∈ H.ancestralTaxa, x ∈ H.tree.internalTaxa := by
    intro x hx; unfold Ham.ancestralTaxa at hx; exact (List.mem_filter.mp hx).1
  cases hf : H.ancestralTaxa.find? (fun t => H.tree.nameAt H.naming t == some s) with
  | none =>
    rw [List.find?_eq_none] at hf
    have := hf t ht
    simp [hs] at this
  | some u =>
    have hu := List.mem_of_find?_eq_some hf
    have hun := List.find?_some hf
    simp only [beq_iff_eq] at hun
    have : u = t := filterMap_nodup_inj _ _ (namesOk_internal_nodup _ _ hok) u t (hint u hu) (hint t ht) s hun hs
    rw [this]

/-- a name lookup never has two candidates once the taxonomy was accepted -/
theorem C15_never_ambiguous (T : STree) (nm : Naming) (h : taxonomyBuild T nm = .ok ()) (s : String) :
    (∀ p q, p ∈ T.leafTaxa → q ∈ T.leafTaxa → T.nameAt nm p = some s → T.nameAt nm q = some s → p = q) ∧
    (∀ p q, p ∈ T.internalTaxa → q ∈ T.internalTaxa → T.nameAt nm p = some s → T.nameAt nm q = some s → p = q) := by
  have hok : T.namesOk nm = true := by
    unfold taxonomyBuild at h
    split at h
    · assumption
    · cases h
  exact ⟨fun p q hp hq hpn hqn => filterMap_nodup_inj _ _ (namesOk_leaf_nodup T nm hok) p q hp hq s hpn hqn,
    fun p q hp hq hpn hqn => filterMap_nodup_inj _ _ (namesOk_internal_nodup T nm hok) p q hp hq s hpn hqn⟩

/-- species trees whose names would make lookups ambiguous are rejected with KeyError -/
theorem C15_ambiguous_rejected (T : STree) (nm : Naming)
    (h : ¬ (T.leafTaxa.filterMap (T.nameAt nm)).Nodup ∨ ¬ (T.internalTaxa.filterMap (T.nameAt nm)).Nodup) :
    taxonomyBuild T nm = .error .key := by
  unfold taxonomyBuild
  split
  · rename_i hok
    rcases h with h | h
    · exact absurd (namesOk_leaf_nodup T nm hok) h
    · exact absurd (namesOk_internal_nodup T nm hok) h
  · rfl

/-- the taxon lookup returns a node iff exactly one node carries the name -/
theorem C15_taxon_by_name (H : Ham) (s : String) (p : Taxon) :
    H.taxonByName s = .ok p ↔ H.tree.findByName H.naming s = [p] := by
  unfold Ham.taxonByName
  split
  · rename_i q hq
    rw [hq]
    constructor
    · intro h; cases h; rfl
    · intro h; cases h; rfl
  · rename_i hq
    constructor
    · intro h; cases h
    · intro h; exact absurd h (hq p)

/-- as the common ancestor of a genome set -/
theorem C15_mrca_lookup (H : Ham) (g1 g2 : Taxon) (hne : g1 ≠ g2) (ht : mrca2 g1 g2 ∈ H.ancestralTaxa) :
    H.ancestralGenomeByMrca [g1, g2] = .ok (mrca2 g1 g2) := by
  have hd : dedup [g1, g2] = [g1, g2] := by
    simp [dedup, List.filter, Ne.symm hne]
  unfold Ham.ancestralGenomeByMrca
  rw [hd]
  simp only [mrca, List.foldl]
  exact C15_ancestral_by_taxon H _ ht

/-- extant genomes by name: every declared species is returned by its name (species names pairwise distinct) -/
theorem C15_extant_by_name (H : Ham) (hn : (H.species.map (·.1)).Nodup) (p : String × Taxon) (hp : p ∈ H.species) :
    H.extantGenomeByName p.1 = .ok p.2 := by
  unfold Ham.extantGenomeByName
  rw [find_nodup_key (·.1) H.species hn p hp]

/-- ... and an unknown species name raises KeyError -/
theorem C15_extant_unknown (H : Ham) (s : String) (h : s ∉ H.species.map (·.1)) :
    H.extantGenomeByName s = .error .key := by
  unfold Ham.extantGenomeByName
  have : H.species.find? (fun x => x.1 == s) = none := by
    rw [List.find?_eq_none]
    intro x hx
    simp only [beq_iff_eq]
    intro e
    exact h (List.mem_map.mpr ⟨x, hx, e⟩)
  rw [this]

end Pyham
