/-
  C12, second sentence: re-loading the iHam orthoXML export of a HOG reproduces a HOG with the same
  members, the same taxon for every sub-HOG and the same duplication grouping.

  Route: the export of `n` is the encoding of the spelled history `spell false false n`
  (Model/Spell.lean); that history is well-formed and RECOVERABLE -- this is exactly what the
  exporter's elision rule (a group is left out only directly inside an orthologGroup, and never as the
  only child of a group written around a single child) has to guarantee; the refinement theorem
  (C03_family) then says the re-loaded HOG realises it, and the original HOG (minus the LOFT ids and
  paralogGroup ids the exporter does not write) realises it too.
-/
import PyhamModel.Model.Spell
import PyhamModel.Model.WF
import PyhamModel.Lemmas.Refinement
import PyhamModel.Lemmas.RealisesLemmas
import PyhamModel.Lemmas.ExportLemmas
import PyhamModel.Lemmas.Capstone
namespace Pyham

/-- what is needed of the HOG being exported; holds for every HOG of a loaded consistent analysis -/
structure ExportWF (T : STree) (n : Node) : Prop where
  aligned : n.aligned = true
  disciplined : n.disciplined = true
  events : n.eventsOk T = true
  keys : (n.nodes.map Node.key).Nodup

/-! ### 0. what `ExportWF` says at one HOG -/

theorem rt_nodes_head : (k : Node) → ∃ r, k.nodes = k :: r
  | .gene .. => ⟨[], rfl⟩
  | .hog _ _ _ ks _ => ⟨Node.nodesL ks, rfl⟩

theorem rt_kids_sublist_nodesL : (ks : List Node) → ks.Sublist (Node.nodesL ks)
  | [] => by simp [Node.nodesL]
  | k :: ks => by
    obtain ⟨r, hr⟩ := rt_nodes_head k
    simp only [Node.nodesL, hr, List.cons_append]
    exact ((rt_kids_sublist_nodesL ks).trans (List.sublist_append_right _ _)).cons_cons _

theorem rt_eventsOkL_iff (T : STree) (ks : List Node) :
    eventsOkL T ks = true ↔ ∀ k ∈ ks, k.eventsOk T = true := by
  induction ks with
  | nil => simp [eventsOkL]
  | cons k ks ih => simp [eventsOkL, ih]

theorem rt_length_one_eq {α} {l : List α} (h : l.length = 1) {a b : α} (ha : a ∈ l) (hb : b ∈ l) : a = b := by
  match l, h with
  | [x], _ =>
    simp at ha hb
    rw [ha, hb]

structure HogFacts (T : STree) (t : Taxon) (kids : List Node) (dups : List DupRec) : Prop where
  internal : T.isInternalAt t = true
  nonempty : kids ≠ []
  tx : ∀ k ∈ kids, k.tx = branchOf k :: t
  keys : (kids.map Node.key).Nodup
  alone : ∀ k ∈ kids, k.dup = none → ∀ k' ∈ kids, k'.tx = k.tx → k' = k
  dmrca : ∀ r ∈ dups, r.mrca = t
  dlen : ∀ r ∈ dups, 2 ≤ r.members.length
  dnodup : ∀ r ∈ dups, r.members.Nodup
  dmem : ∀ r ∈ dups, ∀ m ∈ r.members, ∃ k ∈ kids, k.key = m ∧ k.dup = some r.did
  dtx : ∀ r ∈ dups, ∀ k ∈ kids, ∀ k' ∈ kids, k.key ∈ r.members → k'.key ∈ r.members → k.tx = k'.tx
  unflagged : ∀ k ∈ kids, k.dup = none → ∀ r ∈ dups, k.key ∉ r.members
  flagged : ∀ k ∈ kids, ∀ d, k.dup = some d →
    (∃ r ∈ dups, r.did = d ∧ k.key ∈ r.members) ∧ ∀ k' ∈ kids, k'.tx = k.tx → k'.dup = some d
  dids : (dups.map (·.did)).Nodup
  sub : ∀ k ∈ kids, ExportWF T k

theorem ExportWF.facts {T : STree} {info : HogInfo} {t : Taxon} {d : Option Nat} {kids : List Node}
    {dups : List DupRec} (h : ExportWF T (.hog info t d kids dups)) : HogFacts T t kids dups := by
  obtain ⟨ha, hd, he, hk⟩ := h
  simp only [Node.aligned] at ha
  simp only [Node.disciplined, Bool.and_eq_true, List.all_eq_true] at hd
  simp only [Node.eventsOk, Bool.and_eq_true, List.all_eq_true, decide_eq_true_eq, Bool.not_eq_true'] at he
  obtain ⟨⟨⟨⟨⟨hint, hne⟩, hdo⟩, hfl⟩, hdid⟩, hev⟩ := he
  simp only [Node.nodes, List.map_cons, List.nodup_cons] at hk
  have hkn : ((Node.nodesL kids).map Node.key).Nodup := hk.2
  have hkeys : (kids.map Node.key).Nodup := ((rt_kids_sublist_nodesL kids).map Node.key).nodup hkn
  have hal := (alignedL_iff t kids).1 ha
  have hdo' : ∀ r ∈ dups, r.mrca = t ∧ 2 ≤ r.members.length ∧ r.members.Nodup ∧
      (∀ m ∈ r.members, ∃ k ∈ kids, k.key = m ∧ k.dup = some r.did) ∧
      (∀ k ∈ kids, ∀ k' ∈ kids, k.key ∈ r.members → k'.key ∈ r.members → k.tx = k'.tx) := by
    intro r hr
    have h0 := hdo r hr
    simp only [dupOk, Bool.and_eq_true, beq_iff_eq, decide_eq_true_eq, List.all_eq_true, List.any_eq_true] at h0
    obtain ⟨⟨⟨⟨h1, h2⟩, h3⟩, h4⟩, h5⟩ := h0
    refine ⟨h1, h2, h3, ?_, ?_⟩
    · intro m hm
      obtain ⟨k, hk1, hk2, hk3⟩ := h4 m hm
      exact ⟨k, hk1, hk2, hk3⟩
    · intro k hk1 k' hk1' hm hm'
      have hin : ∀ x ∈ kids, x.key ∈ r.members →
          x.tx ∈ r.members.filterMap (fun m => (findKey m kids).map Node.tx) := by
        intro x hx hxm
        exact List.mem_filterMap.2 ⟨x.key, hxm, by rw [findKey_of_mem kids x hkeys hx]; rfl⟩
      have a1 := hin k hk1 hm
      have a2 := hin k' hk1' hm'
      split at h5
      · cases h5
      · rename_i x xs heq
        rw [heq] at a1 a2
        simp only [List.all_eq_true, beq_iff_eq] at h5
        have e1 : k.tx = x := by
          rcases List.mem_cons.1 a1 with e | e
          · exact e
          · exact h5 _ e
        have e2 : k'.tx = x := by
          rcases List.mem_cons.1 a2 with e | e
          · exact e
          · exact h5 _ e
        rw [e1, e2]
  refine ⟨hint, by simpa using hne, ?_, hkeys, ?_, fun r hr => (hdo' r hr).1, fun r hr => (hdo' r hr).2.1,
    fun r hr => (hdo' r hr).2.2.1, fun r hr => (hdo' r hr).2.2.2.1, fun r hr => (hdo' r hr).2.2.2.2, ?_, ?_,
    hdid, ?_⟩
  · intro k hk1
    obtain ⟨i, hi⟩ := oneBelow_iff.1 (hal k hk1).1
    simp [branchOf, hi]
  · intro k hk1 hdn k' hk1' htx
    have := hd.1 k hk1
    simp only [aloneIfUnflagged, hdn, Option.isSome_none, Bool.false_or, beq_iff_eq] at this
    exact rt_length_one_eq this (List.mem_filter.2 ⟨hk1', by simpa using htx⟩) (List.mem_filter.2 ⟨hk1, by simp⟩)
  · intro k hk1 hdn r hr
    have := hfl k hk1
    simp only [flagOk, hdn, List.all_eq_true, Bool.not_eq_true', List.contains_eq_mem, decide_eq_false_iff_not] at this
    exact this r hr
  · intro k hk1 d0 hd0
    have := hfl k hk1
    simp only [flagOk, hd0, Bool.and_eq_true, beq_iff_eq, List.all_eq_true, Bool.or_eq_true, bne_iff_ne, ne_eq] at this
    obtain ⟨⟨_, h2⟩, h3⟩ := this
    constructor
    · have : (dups.filter fun r => r.did == d0 && r.members.contains k.key) ≠ [] := by
        intro e; rw [e] at h2; simp at h2
      obtain ⟨r, hr⟩ := List.exists_mem_of_ne_nil _ this
      simp only [List.mem_filter, Bool.and_eq_true, beq_iff_eq, List.contains_eq_mem, decide_eq_true_eq] at hr
      exact ⟨r, hr.1, hr.2.1, hr.2.2⟩
    · intro k' hk1' htx
      rcases h3 k' hk1' with e | e
      · exact absurd htx e
      · exact e
  · intro k hk1
    refine ⟨(hal k hk1).2, disciplinedL_mem hd.2 k hk1, (rt_eventsOkL_iff T kids).1 hev k hk1, ?_⟩
    have : (k.nodes).Sublist (Node.nodesL kids) := by
      rw [nodesL_eq_flatMap']
      exact sublist_flatMap_of_mem Node.nodes kids k hk1
    exact (this.map Node.key).nodup hkn

/-! ### 1. the shape of `spell` / `exportVisit` at a HOG -/

def remOf (kids : List Node) (dups : List DupRec) : List Node :=
  kids.filter fun k => !(dups.flatMap (·.members)).contains k.key

def elideB (pOg keep : Bool) (kids : List Node) (dups : List DupRec) : Bool :=
  if kids.length == 1 then pOg && !keep
  else if dups.length ≥ 1 then (remOf kids dups).isEmpty && dups.length == 1 && pOg && !keep
  else false

def brOf (kids : List Node) (d : DupRec) : Nat :=
  match (kids.find? fun k => d.members.contains k.key) with | some k => branchOf k | none => 0

def subsOf (kc : Bool) (kids : List Node) (dups : List DupRec) : List Sub :=
  (dups.map fun d => Sub.dup (brOf kids d) none (spellMembers d.members kids)) ++
    spellKids true kc (remOf kids dups) kids

theorem spell_hog (pOg keep : Bool) (info : HogInfo) (t : Taxon) (d : Option Nat) (kids : List Node)
    (dups : List DupRec) :
    spell pOg keep (.hog info t d kids dups) =
      if elideB pOg keep kids dups then
        .grp false none false (subsOf (kids.length == 1 && !elideB pOg keep kids dups) kids dups)
      else .grp true (some (optStr info.hid)) true
        (subsOf (kids.length == 1 && !elideB pOg keep kids dups) kids dups) := by
  rw [spell]; rfl

theorem exportVisit_hog (nameOf : Taxon → String) (pOg keep : Bool) (info : HogInfo) (t : Taxon)
    (d : Option Nat) (kids : List Node) (dups : List DupRec) :
    exportVisit nameOf pOg keep (.hog info t d kids dups) =
      if elideB pOg keep kids dups then
        (dups.map fun d => Elem.pg none (exportMembers nameOf d.members kids)) ++
          exportKids nameOf true (kids.length == 1 && !elideB pOg keep kids dups) (remOf kids dups) kids
      else [.og (some (optStr info.hid)) none (.prop "TaxRange" (nameOf t) ::
        ((dups.map fun d => Elem.pg none (exportMembers nameOf d.members kids)) ++
          exportKids nameOf true (kids.length == 1 && !elideB pOg keep kids dups) (remOf kids dups) kids))] := by
  rw [exportVisit]; rfl

theorem HogFacts.brOf_spec {T : STree} {t : Taxon} {kids : List Node} {dups : List DupRec}
    (hf : HogFacts T t kids dups) (d : DupRec) (hd : d ∈ dups) (k : Node) (hk : k ∈ kids)
    (hm : k.key ∈ d.members) : k.tx = brOf kids d :: t := by
  unfold brOf
  cases hfind : kids.find? (fun k => d.members.contains k.key) with
  | none =>
    have := List.find?_eq_none.1 hfind k hk
    simp [hm] at this
  | some k0 =>
    have h0 := List.find?_some hfind
    have hk0 : k0 ∈ kids := List.mem_of_find?_eq_some hfind
    simp only [List.contains_eq_mem, decide_eq_true_eq] at h0
    rw [hf.dtx d hd k hk k0 hk0 hm h0, hf.tx k0 hk0]

theorem HogFacts.member_dup {T : STree} {t : Taxon} {kids : List Node} {dups : List DupRec}
    (hf : HogFacts T t kids dups) (d : DupRec) (hd : d ∈ dups) (k : Node) (hk : k ∈ kids)
    (hm : k.key ∈ d.members) : k.dup = some d.did := by
  obtain ⟨k', hk', hkey, hdup⟩ := hf.dmem d hd _ hm
  have := eq_of_nodup_map Node.key kids hf.keys k' k hk' hk hkey
  rw [← this]; exact hdup

/-! ### 2. export = encode of spell -/

theorem encodeSubs_append (T : STree) (nm : Naming) (p : Taxon) : (a b : List Sub) →
    encodeSubs T nm p (a ++ b) = encodeSubs T nm p a ++ encodeSubs T nm p b
  | [], b => by simp [encodeSubs]
  | .one i l :: a, b => by simp [encodeSubs, encodeSubs_append T nm p a b]
  | .dup i pg cs :: a, b => by simp [encodeSubs, encodeSubs_append T nm p a b]
  | .ann e :: a, b => by simp [encodeSubs, encodeSubs_append T nm p a b]

theorem encodeSubs_map_dup (T : STree) (nm : Naming) (p : Taxon) (f : DupRec → Nat) (g : DupRec → List SL) :
    (ds : List DupRec) → encodeSubs T nm p (ds.map fun d => Sub.dup (f d) none (g d)) =
      ds.map fun d => Elem.pg none (encodeCopies T nm (f d :: p) (g d))
  | [] => by simp [encodeSubs]
  | d :: ds => by simp [encodeSubs, encodeSubs_map_dup T nm p f g ds]

mutual
theorem visit_encode (T : STree) (nm : Naming) : (n : Node) → (pOg keep : Bool) → ExportWF T n →
    exportVisit (nameOrEmpty T nm) pOg keep n = encode T nm n.tx (spell pOg keep n)
  | .gene i t d l, _, _, _ => by simp [exportVisit, spell, encode]
  | .hog info t d kids dups, pOg, keep, h => by
    have hf := h.facts
    have hbody : ∀ kc, (dups.map fun d => Elem.pg none (exportMembers (nameOrEmpty T nm) d.members kids)) ++
          exportKids (nameOrEmpty T nm) true kc (remOf kids dups) kids =
        encodeSubs T nm t (subsOf kc kids dups) := by
      intro kc
      rw [subsOf, encodeSubs_append, encodeSubs_map_dup,
        kids_encode T nm true kc (remOf kids dups) t kids hf.sub hf.tx]
      congr 1
      apply List.map_congr_left
      intro r hr
      rw [members_encode T nm r.members (brOf kids r :: t) kids hf.sub
        (fun k hk hm => hf.brOf_spec r hr k hk (by simpa using hm))]
    rw [exportVisit_hog, spell_hog, Node.tx]
    cases elideB pOg keep kids dups with
    | true => simp only [if_true, encode, hbody]
    | false => simp [encode, hbody]
theorem members_encode (T : STree) (nm : Naming) (mem : List Key) (q : Taxon) : (ks : List Node) →
    (∀ k ∈ ks, ExportWF T k) → (∀ k ∈ ks, mem.contains k.key = true → k.tx = q) →
    exportMembers (nameOrEmpty T nm) mem ks = encodeCopies T nm q (spellMembers mem ks)
  | [], _, _ => by simp [exportMembers, spellMembers, encodeCopies]
  | k :: ks, h, hq => by
    have ih := members_encode T nm mem q ks (fun x hx => h x (List.mem_cons_of_mem _ hx))
      (fun x hx => hq x (List.mem_cons_of_mem _ hx))
    rw [exportMembers, spellMembers, ih]
    cases hc : mem.contains k.key with
    | false => simp
    | true =>
      have := visit_encode T nm k false false (h k List.mem_cons_self)
      rw [hq k List.mem_cons_self hc] at this
      simp [encodeCopies, this]
theorem kids_encode (T : STree) (nm : Naming) (pOg keep : Bool) (sel : List Node) (t : Taxon) :
    (ks : List Node) → (∀ k ∈ ks, ExportWF T k) → (∀ k ∈ ks, k.tx = branchOf k :: t) →
    exportKids (nameOrEmpty T nm) pOg keep sel ks = encodeSubs T nm t (spellKids pOg keep sel ks)
  | [], _, _ => by simp [exportKids, spellKids, encodeSubs]
  | k :: ks, h, hq => by
    have ih := kids_encode T nm pOg keep sel t ks (fun x hx => h x (List.mem_cons_of_mem _ hx))
      (fun x hx => hq x (List.mem_cons_of_mem _ hx))
    rw [exportKids, spellKids, ih]
    cases hc : sel.any (·.key == k.key) with
    | false => simp
    | true =>
      have := visit_encode T nm k pOg keep (h k List.mem_cons_self)
      rw [hq k List.mem_cons_self] at this
      simp [encodeSubs, this]
end

/-- the export is the encoding of the exporter's spelling -/
theorem export_is_encode (T : STree) (nm : Naming) (pOg keep : Bool) (n : Node) (h : ExportWF T n) :
    exportVisit (nameOrEmpty T nm) pOg keep n = encode T nm n.tx (spell pOg keep n) :=
  visit_encode T nm n pOg keep h

/-! ### 3. the stripped HOG realises the spelling -/

theorem stripNodes_eq_map : (ks : List Node) → stripNodes ks = ks.map stripNode
  | [] => rfl
  | k :: ks => by simp [stripNodes, stripNodes_eq_map ks]

theorem stripNode_key : (n : Node) → (stripNode n).key = n.key
  | .gene .. => rfl
  | .hog .. => rfl
theorem stripNode_tx : (n : Node) → (stripNode n).tx = n.tx
  | .gene .. => rfl
  | .hog .. => rfl
theorem stripNode_dup : (n : Node) → (stripNode n).dup = n.dup
  | .gene .. => rfl
  | .hog .. => rfl

mutual
theorem stripNode_leaves : (n : Node) → (stripNode n).leaves = n.leaves
  | .gene .. => rfl
  | .hog _ _ _ ks _ => by simp only [stripNode, Node.leaves, stripNodes_leaves ks]
theorem stripNodes_leaves : (ks : List Node) → Node.leavesL (stripNodes ks) = Node.leavesL ks
  | [] => rfl
  | k :: ks => by simp only [stripNodes, Node.leavesL, stripNode_leaves k, stripNodes_leaves ks]
end

theorem rt_nodup_flatMap {α β} (f : α → List β) : (l : List α) → (∀ x ∈ l, (f x).Nodup) →
    l.Pairwise (fun a b => ∀ y, y ∈ f a → y ∉ f b) → (l.flatMap f).Nodup
  | [], _, _ => by simp
  | x :: xs, h1, h2 => by
    rw [List.pairwise_cons] at h2
    simp only [List.flatMap_cons]
    rw [List.nodup_append]
    refine ⟨h1 x List.mem_cons_self, rt_nodup_flatMap f xs (fun y hy => h1 y (List.mem_cons_of_mem _ hy)) h2.2, ?_⟩
    intro a ha b hb hab
    obtain ⟨z, hz, hbz⟩ := List.mem_flatMap.1 hb
    exact h2.1 z hz a ha (hab ▸ hbz)

theorem HogFacts.members_nodup {T : STree} {t : Taxon} {kids : List Node} {dups : List DupRec}
    (hf : HogFacts T t kids dups) : (dups.flatMap (·.members)).Nodup := by
  apply rt_nodup_flatMap _ dups hf.dnodup
  have hp : dups.Pairwise (fun a b => a.did ≠ b.did) := List.pairwise_map.1 hf.dids
  refine hp.imp_of_mem ?_
  intro a b ha hb hne y hya hyb
  obtain ⟨k, hk, hkey, hdup⟩ := hf.dmem a ha y hya
  have := hf.member_dup b hb k hk (hkey ▸ hyb)
  rw [hdup] at this
  exact hne (by simpa using this)

/-- a child that is in no duplication record is unflagged -/
theorem HogFacts.rem_unflagged {T : STree} {t : Taxon} {kids : List Node} {dups : List DupRec}
    (hf : HogFacts T t kids dups) (k : Node) (hk : k ∈ remOf kids dups) : k.dup = none := by
  simp only [remOf, List.mem_filter, Bool.not_eq_true', List.contains_eq_mem, decide_eq_false_iff_not,
    List.mem_flatMap, not_exists, not_and] at hk
  cases hd : k.dup with
  | none => rfl
  | some d =>
    obtain ⟨⟨r, hr, _, hm⟩, _⟩ := hf.flagged k hk.1 d hd
    exact absurd hm (hk.2 r hr)

theorem realisesSubs_map_dup (q : Taxon) (f : DupRec → Nat) (g : DupRec → List SL)
    (ev : DupRec → DupRec × List Node) (rest : List Sub) (plain : List Node) :
    (ds : List DupRec) →
    (∀ d ∈ ds, (ev d).1.mrca = q ∧ (ev d).1.pgid = none ∧ (ev d).1.members.Perm ((ev d).2.map Node.key) ∧
      (∀ k ∈ (ev d).2, k.dup = some (ev d).1.did) ∧ RealisesCopies (f d :: q) (g d) (ev d).2) →
    RealisesSubs q rest plain [] →
    RealisesSubs q ((ds.map fun d => Sub.dup (f d) none (g d)) ++ rest) plain (ds.map ev)
  | [], _, hr => by simpa using hr
  | d :: ds, h, hr => by
    obtain ⟨h1, h2, h3, h4, h5⟩ := h d List.mem_cons_self
    simp only [List.map_cons, List.cons_append, RealisesSubs]
    exact ⟨(ev d).1, (ev d).2, ds.map ev, rfl, h1, h2, h3, h4, h5,
      realisesSubs_map_dup q f g ev rest plain ds (fun x hx => h x (List.mem_cons_of_mem _ hx)) hr⟩

/-- the children that are members of a record carry exactly its member keys -/
theorem HogFacts.members_perm {T : STree} {t : Taxon} {kids : List Node} {dups : List DupRec}
    (hf : HogFacts T t kids dups) (r : DupRec) (hr : r ∈ dups) :
    r.members.Perm ((kids.filter fun k => r.members.contains k.key).map Node.key) := by
  rw [List.perm_ext_iff_of_nodup (hf.dnodup r hr)
    ((List.filter_sublist.map Node.key).nodup hf.keys)]
  intro a
  simp only [List.mem_map, List.mem_filter, List.contains_eq_mem, decide_eq_true_eq]
  constructor
  · intro ha
    obtain ⟨k, hk, hkey, _⟩ := hf.dmem r hr a ha
    exact ⟨k, ⟨hk, hkey ▸ ha⟩, hkey⟩
  · rintro ⟨k, ⟨_, hm⟩, rfl⟩
    exact hm

mutual
theorem realised_aux (T : STree) : (n : Node) → (pOg keep : Bool) → ExportWF T n →
    Realises n.tx (spell pOg keep n) (stripNode n)
  | .gene i t d l, _, _, _ => by
    simp only [spell, stripNode, Node.tx, Realises]
    exact ⟨d, rfl⟩
  | .hog info t d kids dups, pOg, keep, h => by
    have hf := h.facts
    have hsubs : ∀ kc, RealisesSubs t (subsOf kc kids dups) ((remOf kids dups).map stripNode)
        (dups.map fun r => (({ r with pgid := none } : DupRec),
          (kids.filter fun k => r.members.contains k.key).map stripNode)) := by
      intro kc
      refine realisesSubs_map_dup t (brOf kids) (fun r => spellMembers r.members kids) _ _ _ dups ?_ ?_
      · intro r hr
        refine ⟨hf.dmrca r hr, rfl, ?_, ?_, ?_⟩
        · simp only [List.map_map]
          have : (Node.key ∘ stripNode) = Node.key := funext fun x => stripNode_key x
          rw [this]
          exact hf.members_perm r hr
        · intro k hk
          obtain ⟨k0, hk0, rfl⟩ := List.mem_map.1 hk
          simp only [List.mem_filter, List.contains_eq_mem, decide_eq_true_eq] at hk0
          rw [stripNode_dup]
          exact hf.member_dup r hr k0 hk0.1 hk0.2
        · exact realised_members T r.members (brOf kids r :: t) kids hf.sub
            (fun k hk hm => hf.brOf_spec r hr k hk (by simpa using hm))
      · have := realised_kids T true kc (remOf kids dups) t kids hf.sub hf.tx ?_
        · rw [remOf, filter_remaining] at this
          exact this
        · intro k hk hsel
          apply hf.rem_unflagged
          have : k ∈ kids.filter (fun k => (remOf kids dups).any (·.key == k.key)) :=
            List.mem_filter.2 ⟨hk, hsel⟩
          rw [remOf, filter_remaining] at this
          exact this
    have hreal : ∀ w hid label kc, Realises t (.grp w hid label (subsOf kc kids dups))
        (.hog info t d (stripNodes kids) (dups.map fun r => { r with pgid := none })) := by
      intro w hid label kc
      simp only [Realises]
      refine ⟨info, d, _, _, rfl, _, _, ?_, ?_, ?_, hsubs kc⟩
      · rw [stripNodes_eq_map]
        have hp := (split_perm dups kids hf.members_nodup).map stripNode
        refine hp.trans ?_
        rw [List.map_append]
        refine List.perm_append_comm.trans ?_
        apply List.Perm.of_eq
        congr 1
        rw [List.flatMap_map, List.map_flatMap]
      · simp [List.map_map, Function.comp_def]
      · simpa [List.map_map, Function.comp_def] using hf.dids
    rw [spell_hog, stripNode, Node.tx]
    cases elideB pOg keep kids dups with
    | true => exact hreal _ _ _ _
    | false => exact hreal _ _ _ _
theorem realised_members (T : STree) (mem : List Key) (q : Taxon) : (ks : List Node) →
    (∀ k ∈ ks, ExportWF T k) → (∀ k ∈ ks, mem.contains k.key = true → k.tx = q) →
    RealisesCopies q (spellMembers mem ks) ((ks.filter fun k => mem.contains k.key).map stripNode)
  | [], _, _ => by simp [spellMembers, RealisesCopies]
  | k :: ks, h, hq => by
    have ih := realised_members T mem q ks (fun x hx => h x (List.mem_cons_of_mem _ hx))
      (fun x hx => hq x (List.mem_cons_of_mem _ hx))
    rw [spellMembers, List.filter_cons]
    cases hc : mem.contains k.key with
    | false => simpa using ih
    | true =>
      have := realised_aux T k false false (h k List.mem_cons_self)
      rw [hq k List.mem_cons_self hc] at this
      simp only [if_true, List.singleton_append, List.map_cons, RealisesCopies]
      exact ⟨_, _, rfl, this, ih⟩
theorem realised_kids (T : STree) (pOg keep : Bool) (sel : List Node) (t : Taxon) :
    (ks : List Node) → (∀ k ∈ ks, ExportWF T k) → (∀ k ∈ ks, k.tx = branchOf k :: t) →
    (∀ k ∈ ks, sel.any (·.key == k.key) = true → k.dup = none) →
    RealisesSubs t (spellKids pOg keep sel ks) ((ks.filter fun k => sel.any (·.key == k.key)).map stripNode) []
  | [], _, _, _ => by simp [spellKids, RealisesSubs]
  | k :: ks, h, hq, hu => by
    have ih := realised_kids T pOg keep sel t ks (fun x hx => h x (List.mem_cons_of_mem _ hx))
      (fun x hx => hq x (List.mem_cons_of_mem _ hx)) (fun x hx => hu x (List.mem_cons_of_mem _ hx))
    rw [spellKids, List.filter_cons]
    cases hc : sel.any (·.key == k.key) with
    | false => simpa using ih
    | true =>
      have := realised_aux T k pOg keep (h k List.mem_cons_self)
      rw [hq k List.mem_cons_self] at this
      simp only [if_true, List.singleton_append, List.map_cons, RealisesSubs]
      exact ⟨_, _, rfl, by rw [stripNode_dup]; exact hu k List.mem_cons_self hc, this, ih⟩
end

/-- the exported HOG itself (without LOFT ids / paralogGroup ids) realises that history -/
theorem spell_realised (T : STree) (pOg keep : Bool) (n : Node) (h : ExportWF T n) :
    Realises n.tx (spell pOg keep n) (stripNode n) :=
  realised_aux T n pOg keep h

/-! ### 4. the spelling is a well-formed history -/

theorem realSubs_append : (a b : List Sub) → realSubs (a ++ b) = realSubs a + realSubs b
  | [], b => by simp [realSubs]
  | .one _ _ :: a, b => by simp [realSubs, realSubs_append a b]; omega
  | .dup _ _ _ :: a, b => by simp [realSubs, realSubs_append a b]; omega
  | .ann _ :: a, b => by simp [realSubs, realSubs_append a b]

theorem annElems_append : (a b : List Sub) → annElems (a ++ b) = annElems a ++ annElems b
  | [], b => by simp [annElems]
  | .one _ _ :: a, b => by simp [annElems, annElems_append a b]
  | .dup _ _ _ :: a, b => by simp [annElems, annElems_append a b]
  | .ann _ :: a, b => by simp [annElems, annElems_append a b]

theorem wfhSubs_append (T : STree) (p : Taxon) : (a b : List Sub) →
    wfhSubs T p (a ++ b) = (wfhSubs T p a && wfhSubs T p b)
  | [], b => by simp [wfhSubs]
  | .one _ _ :: a, b => by simp [wfhSubs, wfhSubs_append T p a b, Bool.and_assoc]
  | .dup _ _ _ :: a, b => by simp [wfhSubs, wfhSubs_append T p a b, Bool.and_assoc]
  | .ann _ :: a, b => by simp [wfhSubs, wfhSubs_append T p a b, Bool.and_assoc]

theorem spellMembers_length (mem : List Key) : (ks : List Node) →
    (spellMembers mem ks).length = (ks.filter fun k => mem.contains k.key).length
  | [] => by simp [spellMembers]
  | k :: ks => by
    rw [spellMembers, List.filter_cons, List.length_append, spellMembers_length mem ks]
    cases mem.contains k.key <;> simp <;> omega

theorem realSubs_spellKids (pOg keep : Bool) (sel : List Node) : (ks : List Node) →
    realSubs (spellKids pOg keep sel ks) = (ks.filter fun k => sel.any (·.key == k.key)).length
  | [] => by simp [spellKids, realSubs]
  | k :: ks => by
    rw [spellKids, List.filter_cons, realSubs_append, realSubs_spellKids pOg keep sel ks]
    cases sel.any (·.key == k.key) <;> simp [realSubs] <;> omega

theorem annElems_spellKids (pOg keep : Bool) (sel : List Node) : (ks : List Node) →
    annElems (spellKids pOg keep sel ks) = []
  | [] => by simp [spellKids, annElems]
  | k :: ks => by
    rw [spellKids, annElems_append, annElems_spellKids pOg keep sel ks]
    cases sel.any (·.key == k.key) <;> simp [annElems]

theorem subIndex_spellKids (pOg keep : Bool) (sel : List Node) : (ks : List Node) →
    (spellKids pOg keep sel ks).filterMap subIndex =
      (ks.filter fun k => sel.any (·.key == k.key)).map branchOf
  | [] => by simp [spellKids]
  | k :: ks => by
    rw [spellKids, List.filter_cons, List.filterMap_append, subIndex_spellKids pOg keep sel ks]
    cases sel.any (·.key == k.key) <;> simp [subIndex]

theorem realSubs_map_dup (f : DupRec → Nat) (g : DupRec → List SL) : (ds : List DupRec) →
    realSubs (ds.map fun d => Sub.dup (f d) none (g d)) = ds.length
  | [] => rfl
  | d :: ds => by simp [realSubs, realSubs_map_dup f g ds]

theorem annElems_map_dup (f : DupRec → Nat) (g : DupRec → List SL) : (ds : List DupRec) →
    annElems (ds.map fun d => Sub.dup (f d) none (g d)) = []
  | [] => rfl
  | d :: ds => by simp [annElems, annElems_map_dup f g ds]

theorem subIndex_map_dup (f : DupRec → Nat) (g : DupRec → List SL) : (ds : List DupRec) →
    (ds.map fun d => Sub.dup (f d) none (g d)).filterMap subIndex = ds.map f
  | [] => rfl
  | d :: ds => by simp [subIndex, subIndex_map_dup f g ds]

theorem wfhSubs_map_dup (T : STree) (p : Taxon) (f : DupRec → Nat) (g : DupRec → List SL) : (ds : List DupRec) →
    (∀ d ∈ ds, 2 ≤ (g d).length ∧ wfhCopies T (f d :: p) (g d) = true) →
    wfhSubs T p (ds.map fun d => Sub.dup (f d) none (g d)) = true
  | [], _ => rfl
  | d :: ds, h => by
    have h1 := h d List.mem_cons_self
    simp [wfhSubs, h1.1, h1.2, wfhSubs_map_dup T p f g ds (fun x hx => h x (List.mem_cons_of_mem _ hx))]

theorem remOf_any (kids : List Node) (dups : List DupRec) :
    kids.filter (fun k => (remOf kids dups).any (·.key == k.key)) = remOf kids dups := by
  rw [remOf, filter_remaining]

theorem realSubs_subsOf (kc : Bool) (kids : List Node) (dups : List DupRec) :
    realSubs (subsOf kc kids dups) = dups.length + (remOf kids dups).length := by
  rw [subsOf, realSubs_append, realSubs_map_dup, realSubs_spellKids, remOf_any]

theorem annElems_subsOf (kc : Bool) (kids : List Node) (dups : List DupRec) :
    annElems (subsOf kc kids dups) = [] := by
  rw [subsOf, annElems_append, annElems_map_dup, annElems_spellKids]; rfl

theorem subIndex_subsOf (kc : Bool) (kids : List Node) (dups : List DupRec) :
    (subsOf kc kids dups).filterMap subIndex = dups.map (brOf kids) ++ (remOf kids dups).map branchOf := by
  rw [subsOf, List.filterMap_append, subIndex_map_dup, subIndex_spellKids, remOf_any]

theorem remOf_nil (kids : List Node) : remOf kids [] = kids := by
  simp [remOf]

/-- every record has a member child, flagged with it, sitting on the record's branch -/
theorem HogFacts.dup_kid {T : STree} {t : Taxon} {kids : List Node} {dups : List DupRec}
    (hf : HogFacts T t kids dups) (r : DupRec) (hr : r ∈ dups) :
    ∃ k ∈ kids, k.key ∈ r.members ∧ k.dup = some r.did ∧ k.tx = brOf kids r :: t := by
  have hl := hf.dlen r hr
  obtain ⟨m, hmm⟩ : ∃ m, m ∈ r.members := by
    cases hm : r.members with
    | nil => rw [hm] at hl; simp at hl
    | cons m _ => exact ⟨m, List.mem_cons_self⟩
  obtain ⟨k, hk, hkey, hdup⟩ := hf.dmem r hr m hmm
  have hmem : k.key ∈ r.members := by rw [hkey]; exact hmm
  exact ⟨k, hk, hmem, hdup, hf.brOf_spec r hr k hk hmem⟩

theorem rt_nodup_map_on {α β} (f : α → β) {l : List α} (h : l.Nodup)
    (hinj : ∀ a ∈ l, ∀ b ∈ l, f a = f b → a = b) : (l.map f).Nodup := by
  rw [List.Nodup, List.pairwise_map]
  exact List.Pairwise.imp_of_mem (fun ha hb hne e => hne (hinj _ ha _ hb e)) h

theorem HogFacts.index_nodup {T : STree} {t : Taxon} {kids : List Node} {dups : List DupRec}
    (hf : HogFacts T t kids dups) (kc : Bool) : ((subsOf kc kids dups).filterMap subIndex).Nodup := by
  rw [subIndex_subsOf, List.nodup_append]
  have hkn : kids.Nodup := (List.pairwise_map.1 hf.keys).imp (fun hne e => hne (congrArg Node.key e))
  have hrem : ∀ k ∈ remOf kids dups, k ∈ kids := fun k hk => (List.mem_filter.1 hk).1
  refine ⟨?_, ?_, ?_⟩
  · have hp : dups.Pairwise (fun a b => a.did ≠ b.did) := List.pairwise_map.1 hf.dids
    rw [List.Nodup, List.pairwise_map]
    refine hp.imp_of_mem ?_
    intro a b ha hb hne e
    obtain ⟨ka, hka, _, hda, hta⟩ := hf.dup_kid a ha
    obtain ⟨kb, hkb, _, hdb, htb⟩ := hf.dup_kid b hb
    have := (hf.flagged ka hka a.did hda).2 kb hkb (by rw [hta, htb, e])
    rw [hdb] at this
    exact hne (by simpa using this.symm)
  · apply rt_nodup_map_on branchOf (List.filter_sublist.nodup hkn)
    intro a ha b hb e
    have h1 := hf.tx a (hrem a ha)
    have h2 := hf.tx b (hrem b hb)
    exact hf.alone b (hrem b hb) (hf.rem_unflagged b hb) a (hrem a ha) (by rw [h1, h2, e])
  · intro x hx y hy hxy
    obtain ⟨r, hr, rfl⟩ := List.mem_map.1 hx
    obtain ⟨k, hk, rfl⟩ := List.mem_map.1 hy
    obtain ⟨kr, hkr, hmem, hdr, htr⟩ := hf.dup_kid r hr
    have hkk := hrem k hk
    have hu := hf.rem_unflagged k hk
    have : kr = k := hf.alone k hkk hu kr hkr (by rw [htr, hf.tx k hkk, hxy])
    subst this
    rw [hu] at hdr
    cases hdr

theorem HogFacts.realSubs_pos {T : STree} {t : Taxon} {kids : List Node} {dups : List DupRec}
    (hf : HogFacts T t kids dups) (kc : Bool) : 1 ≤ realSubs (subsOf kc kids dups) := by
  rw [realSubs_subsOf]
  cases dups with
  | nil =>
    rw [remOf_nil]
    have := hf.nonempty
    cases kids with
    | nil => exact absurd rfl this
    | cons k ks => simp
  | cons r rs => simp; omega

mutual
theorem wfh_aux (T : STree) : (n : Node) → (pOg keep : Bool) → ExportWF T n →
    wfh T n.tx (spell pOg keep n) = true
  | .gene i t d l, _, _, h => by
    have := h.events
    simpa [spell, wfh, Node.tx, Node.eventsOk] using this
  | .hog info t d kids dups, pOg, keep, h => by
    have hf := h.facts
    have hsubs : ∀ kc, wfhSubs T t (subsOf kc kids dups) = true := by
      intro kc
      rw [subsOf, wfhSubs_append, Bool.and_eq_true]
      refine ⟨wfhSubs_map_dup T t _ _ dups ?_, wfh_kids T true kc (remOf kids dups) t kids hf.sub hf.tx⟩
      intro r hr
      refine ⟨?_, wfh_members T r.members (brOf kids r :: t) kids hf.sub
        (fun k hk hm => hf.brOf_spec r hr k hk (by simpa using hm))⟩
      rw [spellMembers_length]
      have := (hf.members_perm r hr).length_eq
      rw [List.length_map] at this
      rw [← this]
      exact hf.dlen r hr
    rw [spell_hog, Node.tx]
    cases elideB pOg keep kids dups with
    | true =>
      simp only [if_true, wfh, hf.internal, hsubs, hf.index_nodup, annElems_subsOf, Bool.and_eq_true,
        decide_eq_true_eq]
      exact ⟨⟨⟨⟨trivial, hf.realSubs_pos _⟩, trivial⟩, by simp⟩, trivial⟩
    | false =>
      simp only [Bool.false_eq_true, if_false, wfh, hf.internal, hsubs, hf.index_nodup, Bool.and_eq_true,
        decide_eq_true_eq]
      exact ⟨⟨⟨⟨trivial, hf.realSubs_pos _⟩, trivial⟩, by simp⟩, trivial⟩
theorem wfh_members (T : STree) (mem : List Key) (q : Taxon) : (ks : List Node) →
    (∀ k ∈ ks, ExportWF T k) → (∀ k ∈ ks, mem.contains k.key = true → k.tx = q) →
    wfhCopies T q (spellMembers mem ks) = true
  | [], _, _ => by simp [spellMembers, wfhCopies]
  | k :: ks, h, hq => by
    have ih := wfh_members T mem q ks (fun x hx => h x (List.mem_cons_of_mem _ hx))
      (fun x hx => hq x (List.mem_cons_of_mem _ hx))
    rw [spellMembers]
    cases hc : mem.contains k.key with
    | false => simpa using ih
    | true =>
      have := wfh_aux T k false false (h k List.mem_cons_self)
      rw [hq k List.mem_cons_self hc] at this
      simp [wfhCopies, this, ih]
theorem wfh_kids (T : STree) (pOg keep : Bool) (sel : List Node) (t : Taxon) :
    (ks : List Node) → (∀ k ∈ ks, ExportWF T k) → (∀ k ∈ ks, k.tx = branchOf k :: t) →
    wfhSubs T t (spellKids pOg keep sel ks) = true
  | [], _, _ => by simp [spellKids, wfhSubs]
  | k :: ks, h, hq => by
    have ih := wfh_kids T pOg keep sel t ks (fun x hx => h x (List.mem_cons_of_mem _ hx))
      (fun x hx => hq x (List.mem_cons_of_mem _ hx))
    rw [spellKids]
    cases hc : sel.any (·.key == k.key) with
    | false => simpa using ih
    | true =>
      have := wfh_aux T k pOg keep (h k List.mem_cons_self)
      rw [hq k List.mem_cons_self] at this
      simp [wfhSubs, this, ih]
end

/-- that spelling is a well-formed history -/
theorem spell_wfh (T : STree) (pOg keep : Bool) (n : Node) (h : ExportWF T n) :
    wfh T n.tx (spell pOg keep n) = true :=
  wfh_aux T n pOg keep h

/-! ### 5. apparent taxa, spilled levels, most recent common ancestors -/

mutual
theorem appTaxa_suffix (q : Taxon) : (l : SL) → ∀ x ∈ appTaxa q l, q <:+ x
  | .gene _ _ => by simp [appTaxa]
  | .grp true _ _ _ => by simp [appTaxa]
  | .grp false _ _ subs => by
    intro x hx
    simp only [appTaxa] at hx
    obtain ⟨i, hi⟩ := appTaxaSubs_suffix q subs x hx
    exact (List.suffix_cons i q).trans hi
theorem appTaxaSubs_suffix (p : Taxon) : (subs : List Sub) → ∀ x ∈ appTaxaSubs p subs, ∃ i, (i :: p) <:+ x
  | [] => by simp [appTaxaSubs]
  | .one i l :: r => by
    intro x hx
    simp only [appTaxaSubs, List.mem_append] at hx
    rcases hx with hx | hx
    · exact ⟨i, appTaxa_suffix (i :: p) l x hx⟩
    · exact appTaxaSubs_suffix p r x hx
  | .dup i _ cs :: r => by
    intro x hx
    simp only [appTaxaSubs, List.mem_append] at hx
    rcases hx with hx | hx
    · exact ⟨i, appTaxaCopies_suffix (i :: p) cs x hx⟩
    · exact appTaxaSubs_suffix p r x hx
  | .ann _ :: r => by
    intro x hx
    simp only [appTaxaSubs] at hx
    exact appTaxaSubs_suffix p r x hx
theorem appTaxaCopies_suffix (q : Taxon) : (cs : List SL) → ∀ x ∈ appTaxaCopies q cs, q <:+ x
  | [] => by simp [appTaxaCopies]
  | c :: cs => by
    intro x hx
    simp only [appTaxaCopies, List.mem_append] at hx
    rcases hx with hx | hx
    · exact appTaxa_suffix q c x hx
    · exact appTaxaCopies_suffix q cs x hx
end

mutual
theorem spillSL_suffix (q : Taxon) : (l : SL) → ∀ x ∈ spillSL q l, q <:+ x
  | .gene _ _ => by simp [spillSL]
  | .grp true _ _ _ => by simp [spillSL]
  | .grp false _ _ subs => by
    intro x hx
    simp only [spillSL] at hx
    exact spillSubs_suffix q subs x hx
theorem spillSubs_suffix (p : Taxon) : (subs : List Sub) → ∀ x ∈ spillSubs p subs, p <:+ x
  | [] => by simp [spillSubs]
  | .one i l :: r => by
    intro x hx
    simp only [spillSubs, List.mem_append] at hx
    rcases hx with hx | hx
    · exact (List.suffix_cons i p).trans (spillSL_suffix (i :: p) l x hx)
    · exact spillSubs_suffix p r x hx
  | .dup i _ cs :: r => by
    intro x hx
    simp only [spillSubs, List.mem_cons] at hx
    rcases hx with hx | hx
    · rw [hx]; exact List.suffix_refl _
    · exact spillSubs_suffix p r x hx
  | .ann _ :: r => by
    intro x hx
    simp only [spillSubs] at hx
    exact spillSubs_suffix p r x hx
end

mutual
theorem appTaxa_ne_nil (T : STree) (q : Taxon) : (l : SL) → wfh T q l = true → appTaxa q l ≠ []
  | .gene _ _, _ => by simp [appTaxa]
  | .grp true _ _ _, _ => by simp [appTaxa]
  | .grp false _ _ subs, h => by
    simp only [wfh, Bool.and_eq_true, decide_eq_true_eq] at h
    simp only [appTaxa]
    exact appTaxaSubs_ne_nil T q subs h.2 h.1.1.1.2
theorem appTaxaSubs_ne_nil (T : STree) (p : Taxon) : (subs : List Sub) → wfhSubs T p subs = true →
    1 ≤ realSubs subs → appTaxaSubs p subs ≠ []
  | [], _, h => by simp [realSubs] at h
  | .one i l :: r, h, _ => by
    simp only [wfhSubs, Bool.and_eq_true] at h
    simp only [appTaxaSubs, ne_eq, List.append_eq_nil_iff, not_and]
    intro e
    exact absurd e (appTaxa_ne_nil T (i :: p) l h.1)
  | .dup i _ cs :: r, h, _ => by
    simp only [wfhSubs, Bool.and_eq_true, decide_eq_true_eq] at h
    simp only [appTaxaSubs, ne_eq, List.append_eq_nil_iff, not_and]
    intro e
    match cs, h.1.1, h.1.2, e with
    | c :: cs', _, hw, e =>
      simp only [wfhCopies, Bool.and_eq_true] at hw
      simp only [appTaxaCopies, List.append_eq_nil_iff] at e
      exact absurd e.1 (appTaxa_ne_nil T (i :: p) c hw.1)
  | .ann _ :: r, h, hr => by
    simp only [wfhSubs, Bool.and_eq_true] at h
    simp only [realSubs] at hr
    simp only [appTaxaSubs]
    exact appTaxaSubs_ne_nil T p r h.2 hr
end

/-- a gene or a written group: seen by the loader at its own taxon, nothing spills -/
def direct : SL → Bool
  | .gene _ _ => true
  | .grp w _ _ _ => w

theorem direct_appTaxa (q : Taxon) : (l : SL) → direct l = true → appTaxa q l = [q] ∧ spillSL q l = []
  | .gene _ _, _ => by simp [appTaxa, spillSL]
  | .grp true _ _ _, _ => by simp [appTaxa, spillSL]
  | .grp false _ _ _, h => by simp [direct] at h

theorem elideB_false_left (keep : Bool) (kids : List Node) (dups : List DupRec) :
    elideB false keep kids dups = false := by
  simp [elideB]

theorem elideB_true_right (pOg : Bool) (kids : List Node) (dups : List DupRec) :
    elideB pOg true kids dups = false := by
  simp [elideB]

theorem spell_direct_of : (n : Node) → (pOg keep : Bool) → (pOg = false ∨ keep = true) →
    direct (spell pOg keep n) = true
  | .gene .., _, _, _ => by simp [spell, direct]
  | .hog info t d kids dups, pOg, keep, h => by
    rw [spell_hog]
    rcases h with rfl | rfl
    · simp [elideB_false_left, direct]
    · simp [elideB_true_right, direct]

theorem foldl_mrca2_glb : (xs : List Taxon) → (a : Taxon) →
    (xs.foldl mrca2 a <:+ a) ∧ (∀ x ∈ xs, xs.foldl mrca2 a <:+ x) ∧
    (∀ c, c <:+ a → (∀ x ∈ xs, c <:+ x) → c <:+ xs.foldl mrca2 a)
  | [], a => ⟨List.suffix_refl _, by simp, fun c hc _ => hc⟩
  | y :: ys, a => by
    obtain ⟨h1, h2, h3⟩ := foldl_mrca2_glb ys (mrca2 a y)
    simp only [List.foldl_cons]
    refine ⟨h1.trans (mrca2_suffix_left a y), ?_, ?_⟩
    · intro x hx
      rcases List.mem_cons.1 hx with rfl | hx
      · exact h1.trans (mrca2_suffix_right a x)
      · exact h2 x hx
    · intro c hc hall
      exact h3 c (mrca2_greatest a y c hc (hall y List.mem_cons_self))
        (fun x hx => hall x (List.mem_cons_of_mem _ hx))

/-- the MRCA of taxa all below `t`, two of them below different children of `t`, is `t` -/
theorem mrca_spread (t : Taxon) (L : List Taxon) (hL : ∀ x ∈ L, t <:+ x) (x1 x2 : Taxon) (b1 b2 : Nat)
    (h1 : x1 ∈ L) (h2 : x2 ∈ L) (s1 : (b1 :: t) <:+ x1) (s2 : (b2 :: t) <:+ x2) (hb : b1 ≠ b2) :
    mrca L = t := by
  match L, hL, h1, h2 with
  | a :: rest, hL, h1, h2 =>
    obtain ⟨g1, g2, g3⟩ := foldl_mrca2_glb rest a
    have hm : ∀ x ∈ a :: rest, mrca (a :: rest) <:+ x := by
      intro x hx
      rcases List.mem_cons.1 hx with rfl | hx
      · exact g1
      · exact g2 x hx
    have ht : t <:+ mrca (a :: rest) :=
      g3 t (hL a List.mem_cons_self) (fun x hx => hL x (List.mem_cons_of_mem _ hx))
    apply Classical.byContradiction
    intro hne
    have hlt : t.length < (mrca (a :: rest)).length := suffix_ne_length_lt ht (fun e => hne e.symm)
    have e1 : (b1 :: t) <:+ mrca (a :: rest) :=
      List.suffix_of_suffix_length_le s1 (hm x1 h1) (by simp; omega)
    have e2 : (b2 :: t) <:+ mrca (a :: rest) :=
      List.suffix_of_suffix_length_le s2 (hm x2 h2) (by simp; omega)
    have e3 : (b1 :: t) <:+ (b2 :: t) := List.suffix_of_suffix_length_le e1 e2 (by simp)
    have := e3.eq_of_length (by simp)
    simp only [List.cons.injEq, and_true] at this
    exact hb this

def baseLevel (taxa : List Taxon) : Option Taxon :=
  match dedup taxa with
  | [] => none
  | [t] => t.up
  | ts => some (mrca ts)

theorem ruleLevel_eq (taxa dl : List Taxon) :
    ruleLevel taxa dl = (baseLevel taxa).map fun b =>
      dl.foldl (fun lv m => if isProperAncestor m lv then m else lv) b := rfl

theorem foldl_lift_const (t : Taxon) : (dl : List Taxon) → (∀ m ∈ dl, t <:+ m) →
    dl.foldl (fun lv m => if isProperAncestor m lv then m else lv) t = t
  | [], _ => rfl
  | m :: dl, h => by
    have hm := h m List.mem_cons_self
    have : isProperAncestor m t = false := by
      rw [Bool.eq_false_iff]
      intro hp
      obtain ⟨a, b⟩ := (isProperAncestor_iff m t).1 hp
      exact b (suffix_antisymm a hm)
    simp only [List.foldl_cons, this, Bool.false_eq_true, if_false]
    exact foldl_lift_const t dl (fun x hx => h x (List.mem_cons_of_mem _ hx))

theorem ruleLevel_of (t : Taxon) (taxa dl : List Taxon) (hb : baseLevel taxa = some t)
    (hd : ∀ m ∈ dl, t <:+ m) : ruleLevel taxa dl = some t := by
  rw [ruleLevel_eq, hb, Option.map_some, foldl_lift_const t dl hd]

theorem baseLevel_const (i : Nat) (t : Taxon) (taxa : List Taxon) (hne : taxa ≠ [])
    (h : ∀ x ∈ taxa, x = i :: t) : baseLevel taxa = some t := by
  rw [baseLevel, dedup_const (i :: t) taxa hne h]
  rfl

theorem baseLevel_spread (t : Taxon) (taxa : List Taxon) (hL : ∀ x ∈ taxa, t <:+ x) (x1 x2 : Taxon) (b1 b2 : Nat)
    (h1 : x1 ∈ taxa) (h2 : x2 ∈ taxa) (s1 : (b1 :: t) <:+ x1) (s2 : (b2 :: t) <:+ x2) (hb : b1 ≠ b2) :
    baseLevel taxa = some t := by
  have hne : x1 ≠ x2 := by
    rintro rfl
    have e3 : (b1 :: t) <:+ (b2 :: t) := List.suffix_of_suffix_length_le s1 s2 (by simp)
    have := e3.eq_of_length (by simp)
    simp only [List.cons.injEq, and_true] at this
    exact hb this
  have m1 := (mem_dedup x1 taxa).2 h1
  have m2 := (mem_dedup x2 taxa).2 h2
  have hm := mrca_spread t (dedup taxa) (fun x hx => hL x ((mem_dedup x taxa).1 hx)) x1 x2 b1 b2 m1 m2 s1 s2 hb
  unfold baseLevel
  match hd : dedup taxa with
  | [] => rw [hd] at m1; simp at m1
  | [x] =>
    rw [hd] at m1 m2
    simp only [List.mem_singleton] at m1 m2
    exact absurd (m1.trans m2.symm) hne
  | a :: b :: r =>
    rw [hd] at hm
    simp only [hm]

theorem ruleDup_const (i : Nat) (t : Taxon) (taxa : List Taxon) (hne : taxa ≠ [])
    (h : ∀ x ∈ taxa, x = i :: t) : ruleDup taxa = some t := by
  rw [ruleDup, dedup_const (i :: t) taxa hne h]
  rfl

/-! ### 6. the spelling is recoverable -/

theorem recoverableSubs_append (p : Taxon) : (a b : List Sub) →
    recoverableSubs p (a ++ b) = (recoverableSubs p a && recoverableSubs p b)
  | [], b => by simp [recoverableSubs]
  | .one _ _ :: a, b => by simp [recoverableSubs, recoverableSubs_append p a b, Bool.and_assoc]
  | .dup _ _ _ :: a, b => by simp [recoverableSubs, recoverableSubs_append p a b, Bool.and_assoc]
  | .ann _ :: a, b => by simp [recoverableSubs, recoverableSubs_append p a b]

theorem recoverableSubs_map_dup (p : Taxon) (f : DupRec → Nat) (g : DupRec → List SL) : (ds : List DupRec) →
    (∀ d ∈ ds, recoverableCopies (f d :: p) (g d) = true ∧ ruleDup (appTaxaCopies (f d :: p) (g d)) = some p) →
    recoverableSubs p (ds.map fun d => Sub.dup (f d) none (g d)) = true
  | [], _ => rfl
  | d :: ds, h => by
    have h1 := h d List.mem_cons_self
    simp [recoverableSubs, h1.1, h1.2,
      recoverableSubs_map_dup p f g ds (fun x hx => h x (List.mem_cons_of_mem _ hx))]

theorem appTaxaSubs_append (p : Taxon) : (a b : List Sub) →
    appTaxaSubs p (a ++ b) = appTaxaSubs p a ++ appTaxaSubs p b
  | [], b => by simp [appTaxaSubs]
  | .one _ _ :: a, b => by simp [appTaxaSubs, appTaxaSubs_append p a b]
  | .dup _ _ _ :: a, b => by simp [appTaxaSubs, appTaxaSubs_append p a b]
  | .ann _ :: a, b => by simp [appTaxaSubs, appTaxaSubs_append p a b]

theorem appTaxaSubs_map_dup (p : Taxon) (f : DupRec → Nat) (g : DupRec → List SL) : (ds : List DupRec) →
    appTaxaSubs p (ds.map fun d => Sub.dup (f d) none (g d)) =
      ds.flatMap fun d => appTaxaCopies (f d :: p) (g d)
  | [] => rfl
  | d :: ds => by simp [appTaxaSubs, appTaxaSubs_map_dup p f g ds]

theorem appTaxaSubs_spellKids (t : Taxon) (pOg keep : Bool) (sel : List Node) : (ks : List Node) →
    appTaxaSubs t (spellKids pOg keep sel ks) =
      (ks.filter fun k => sel.any (·.key == k.key)).flatMap fun k => appTaxa (branchOf k :: t) (spell pOg keep k)
  | [] => by simp [spellKids, appTaxaSubs]
  | k :: ks => by
    rw [spellKids, appTaxaSubs_append, appTaxaSubs_spellKids t pOg keep sel ks, List.filter_cons]
    cases sel.any (·.key == k.key) <;> simp [appTaxaSubs]

theorem appTaxaCopies_spellMembers (q : Taxon) (mem : List Key) : (ks : List Node) →
    appTaxaCopies q (spellMembers mem ks) = (ks.filter fun k => mem.contains k.key).map fun _ => q
  | [] => by simp [spellMembers, appTaxaCopies]
  | k :: ks => by
    rw [spellMembers, List.filter_cons]
    cases mem.contains k.key with
    | false => simpa using appTaxaCopies_spellMembers q mem ks
    | true =>
      simp only [if_true, List.singleton_append, appTaxaCopies, List.map_cons,
        (direct_appTaxa q _ (spell_direct_of k false false (Or.inl rfl))).1,
        appTaxaCopies_spellMembers q mem ks]

theorem mem_appTaxa_subsOf (t : Taxon) (kc : Bool) (kids : List Node) (dups : List DupRec) (x : Taxon) :
    x ∈ appTaxaSubs t (subsOf kc kids dups) ↔
      (∃ r ∈ dups, ∃ k ∈ kids, k.key ∈ r.members ∧ x = brOf kids r :: t) ∨
      (∃ k ∈ remOf kids dups, x ∈ appTaxa (branchOf k :: t) (spell true kc k)) := by
  rw [subsOf, appTaxaSubs_append, appTaxaSubs_map_dup, appTaxaSubs_spellKids, remOf_any, List.mem_append]
  apply or_congr
  · simp only [List.mem_flatMap, appTaxaCopies_spellMembers, List.mem_map, List.mem_filter,
      List.contains_eq_mem, decide_eq_true_eq]
    constructor
    · rintro ⟨r, hr, k, ⟨hk, hm⟩, rfl⟩
      exact ⟨r, hr, k, hk, hm, rfl⟩
    · rintro ⟨r, hr, k, hk, hm, rfl⟩
      exact ⟨r, hr, k, ⟨hk, hm⟩, rfl⟩
  · simp only [List.mem_flatMap]

theorem HogFacts.dups_nil_of_single {T : STree} {t : Taxon} {kids : List Node} {dups : List DupRec}
    (hf : HogFacts T t kids dups) (h1 : kids.length = 1) : dups = [] := by
  cases dups with
  | nil => rfl
  | cons r rs =>
    have hr : r ∈ r :: rs := List.mem_cons_self
    have := (hf.members_perm r hr).length_eq
    rw [List.length_map] at this
    have h2 := hf.dlen r hr
    have h3 := (List.filter_sublist (l := kids) (p := fun k => r.members.contains k.key)).length_le
    omega

theorem HogFacts.elided_single {T : STree} {t : Taxon} {kids : List Node} {dups : List DupRec}
    (hf : HogFacts T t kids dups) (pOg keep kc : Bool) (hE : elideB pOg keep kids dups = true) :
    realSubs (subsOf kc kids dups) = 1 := by
  rw [realSubs_subsOf]
  unfold elideB at hE
  split at hE
  · rename_i h1
    have h1' : kids.length = 1 := by simpa using h1
    rw [hf.dups_nil_of_single h1', remOf_nil, h1']
    rfl
  · split at hE
    · simp only [Bool.and_eq_true, List.isEmpty_iff, beq_iff_eq] at hE
      rw [hE.1.1.1, hE.1.1.2]
      rfl
    · cases hE

theorem rt_nodup_const_length {α} (a : α) : (l : List α) → l.Nodup → (∀ x ∈ l, x = a) → l.length ≤ 1
  | [], _, _ => by simp
  | [_], _, _ => by simp
  | x :: y :: r, hn, h => by
    have hx := h x (by simp)
    have hy := h y (by simp)
    simp only [List.nodup_cons, List.mem_cons, not_or] at hn
    exact absurd (hx.trans hy.symm) hn.1.1

/-- every child is seen by the loader somewhere at or below its own taxon -/
theorem HogFacts.cover {T : STree} {t : Taxon} {kids : List Node} {dups : List DupRec}
    (hf : HogFacts T t kids dups) (kc : Bool) (hwf : ∀ k ∈ kids, wfh T k.tx (spell true kc k) = true) :
    ∀ k ∈ kids, ∃ x ∈ appTaxaSubs t (subsOf kc kids dups), k.tx <:+ x := by
  intro k hk
  by_cases hm : k ∈ remOf kids dups
  · have hne := appTaxa_ne_nil T k.tx _ (hwf k hk)
    obtain ⟨x, hx⟩ := List.exists_mem_of_ne_nil _ hne
    refine ⟨x, (mem_appTaxa_subsOf t kc kids dups x).2 (Or.inr ⟨k, hm, ?_⟩), appTaxa_suffix _ _ x hx⟩
    rw [← hf.tx k hk]; exact hx
  · simp only [remOf, List.mem_filter, hk, true_and, Bool.not_eq_true', List.contains_eq_mem,
      decide_eq_false_iff_not, Classical.not_not, List.mem_flatMap] at hm
    obtain ⟨r, hr, hmem⟩ := hm
    refine ⟨brOf kids r :: t, (mem_appTaxa_subsOf t kc kids dups _).2 (Or.inl ⟨r, hr, k, hk, hmem, rfl⟩), ?_⟩
    rw [hf.brOf_spec r hr k hk hmem]
    exact List.suffix_refl _

/-- the level rule finds the taxon of a written group -/
theorem HogFacts.level_ok {T : STree} {t : Taxon} {kids : List Node} {dups : List DupRec}
    (hf : HogFacts T t kids dups) (kc : Bool) (hkc : kids.length = 1 → kc = true)
    (hwf : ∀ k ∈ kids, wfh T k.tx (spell true kc k) = true) :
    ruleLevel (appTaxaSubs t (subsOf kc kids dups)) (spillSubs t (subsOf kc kids dups)) = some t := by
  apply ruleLevel_of t _ _ ?_ (spillSubs_suffix t _)
  have hcov := hf.cover kc hwf
  obtain ⟨k0, hk0⟩ := List.exists_mem_of_ne_nil _ hf.nonempty
  by_cases hex : ∃ k1 ∈ kids, ∃ k2 ∈ kids, k1.tx ≠ k2.tx
  · obtain ⟨k1, hk1, k2, hk2, hne⟩ := hex
    obtain ⟨x1, hx1, s1⟩ := hcov k1 hk1
    obtain ⟨x2, hx2, s2⟩ := hcov k2 hk2
    rw [hf.tx k1 hk1] at s1
    rw [hf.tx k2 hk2] at s2
    refine baseLevel_spread t _ ?_ x1 x2 (branchOf k1) (branchOf k2) hx1 hx2 s1 s2 ?_
    · intro x hx
      obtain ⟨i, hi⟩ := appTaxaSubs_suffix t _ x hx
      exact (List.suffix_cons i t).trans hi
    · intro e
      apply hne
      rw [hf.tx k1 hk1, hf.tx k2 hk2, e]
  · have hall : ∀ k1 ∈ kids, ∀ k2 ∈ kids, k1.tx = k2.tx := by
      intro k1 hk1 k2 hk2
      by_cases e : k1.tx = k2.tx
      · exact e
      · exact absurd ⟨k1, hk1, k2, hk2, e⟩ hex
    obtain ⟨x0, hx0, _⟩ := hcov k0 hk0
    refine baseLevel_const (branchOf k0) t _ (List.ne_nil_of_mem hx0) ?_
    intro x hx
    rw [← hf.tx k0 hk0]
    rcases (mem_appTaxa_subsOf t kc kids dups x).1 hx with ⟨r, hr, k, hk, hm, rfl⟩ | ⟨k, hk, hxk⟩
    · rw [← hf.brOf_spec r hr k hk hm]
      exact hall k hk k0 hk0
    · have hkk : k ∈ kids := (List.mem_filter.1 hk).1
      have hu := hf.rem_unflagged k hk
      have hkn : kids.Nodup := (List.pairwise_map.1 hf.keys).imp (fun hne e => hne (congrArg Node.key e))
      have hle := rt_nodup_const_length k kids hkn
        (fun k' hk' => hf.alone k hkk hu k' hk' (hall k' hk' k hkk))
      have hlen : kids.length = 1 := by
        have : kids.length ≠ 0 := fun e => hf.nonempty (List.eq_nil_of_length_eq_zero e)
        omega
      have hkc' := hkc hlen
      subst hkc'
      rw [(direct_appTaxa _ _ (spell_direct_of k true true (Or.inr rfl))).1] at hxk
      simp only [List.mem_singleton] at hxk
      rw [hxk, ← hf.tx k hkk]
      exact hall k hkk k0 hk0

mutual
theorem rec_aux (T : STree) : (n : Node) → (pOg keep : Bool) → ExportWF T n →
    recoverable n.tx (spell pOg keep n) = true
  | .gene i t d l, _, _, _ => by simp [spell, recoverable]
  | .hog info t d kids dups, pOg, keep, h => by
    have hf := h.facts
    have hsubs : ∀ kc, recoverableSubs t (subsOf kc kids dups) = true := by
      intro kc
      rw [subsOf, recoverableSubs_append, Bool.and_eq_true]
      refine ⟨recoverableSubs_map_dup t _ _ dups ?_, rec_kids T true kc (remOf kids dups) t kids hf.sub hf.tx⟩
      intro r hr
      refine ⟨rec_members T r.members (brOf kids r :: t) kids hf.sub
        (fun k hk hm => hf.brOf_spec r hr k hk (by simpa using hm)), ?_⟩
      apply ruleDup_const (brOf kids r) t
      · rw [appTaxaCopies_spellMembers]
        obtain ⟨k, hk, hm, _⟩ := hf.dup_kid r hr
        have : k ∈ kids.filter fun k => r.members.contains k.key :=
          List.mem_filter.2 ⟨hk, by simpa using hm⟩
        intro e
        rw [List.map_eq_nil_iff] at e
        rw [e] at this
        simp at this
      · intro x hx
        rw [appTaxaCopies_spellMembers] at hx
        obtain ⟨_, _, rfl⟩ := List.mem_map.1 hx
        rfl
    rw [spell_hog, Node.tx]
    cases hE : elideB pOg keep kids dups with
    | true =>
      simp only [if_true, recoverable, hsubs, Bool.true_and, beq_iff_eq]
      exact hf.elided_single pOg keep _ hE
    | false =>
      simp only [Bool.false_eq_true, if_false, recoverable, hsubs, Bool.true_and, beq_iff_eq]
      apply hf.level_ok
      · intro h1; simp [h1]
      · intro k hk
        exact spell_wfh T true _ k (hf.sub k hk)
theorem rec_members (T : STree) (mem : List Key) (q : Taxon) : (ks : List Node) →
    (∀ k ∈ ks, ExportWF T k) → (∀ k ∈ ks, mem.contains k.key = true → k.tx = q) →
    recoverableCopies q (spellMembers mem ks) = true
  | [], _, _ => by simp [spellMembers, recoverableCopies]
  | k :: ks, h, hq => by
    have ih := rec_members T mem q ks (fun x hx => h x (List.mem_cons_of_mem _ hx))
      (fun x hx => hq x (List.mem_cons_of_mem _ hx))
    rw [spellMembers]
    cases hc : mem.contains k.key with
    | false => simpa using ih
    | true =>
      have := rec_aux T k false false (h k List.mem_cons_self)
      rw [hq k List.mem_cons_self hc] at this
      simp [recoverableCopies, this, ih,
        (direct_appTaxa q _ (spell_direct_of k false false (Or.inl rfl))).2]
theorem rec_kids (T : STree) (pOg keep : Bool) (sel : List Node) (t : Taxon) :
    (ks : List Node) → (∀ k ∈ ks, ExportWF T k) → (∀ k ∈ ks, k.tx = branchOf k :: t) →
    recoverableSubs t (spellKids pOg keep sel ks) = true
  | [], _, _ => by simp [spellKids, recoverableSubs]
  | k :: ks, h, hq => by
    have ih := rec_kids T pOg keep sel t ks (fun x hx => h x (List.mem_cons_of_mem _ hx))
      (fun x hx => hq x (List.mem_cons_of_mem _ hx))
    rw [spellKids]
    cases hc : sel.any (·.key == k.key) with
    | false => simpa using ih
    | true =>
      have := rec_aux T k pOg keep (h k List.mem_cons_self)
      rw [hq k List.mem_cons_self] at this
      simp [recoverableSubs, this, ih]
end

/-- ... and the level rule gives it back its meaning: the exporter never elides what the loader
    cannot re-infer -/
theorem spell_recoverable (T : STree) (pOg keep : Bool) (n : Node) (h : ExportWF T n) :
    recoverable n.tx (spell pOg keep n) = true :=
  rec_aux T n pOg keep h

/-! ### 7. re-loading the export -/

mutual
theorem nodes_eventsOk (T : STree) : (n : Node) → n.eventsOk T = true → ∀ x ∈ n.nodes, x.eventsOk T = true
  | .gene i t d l, h => by
    intro x hx
    simp only [Node.nodes, List.mem_singleton] at hx
    rw [hx]; exact h
  | .hog info t d ks ds, h => by
    intro x hx
    simp only [Node.nodes, List.mem_cons] at hx
    rcases hx with rfl | hx
    · exact h
    · simp only [Node.eventsOk, Bool.and_eq_true] at h
      exact nodesL_eventsOk T ks h.2 x hx
theorem nodesL_eventsOk (T : STree) : (ks : List Node) → eventsOkL T ks = true →
    ∀ x ∈ Node.nodesL ks, x.eventsOk T = true
  | [], _ => by simp [Node.nodesL]
  | k :: ks, h => by
    intro x hx
    simp only [eventsOkL, Bool.and_eq_true] at h
    simp only [Node.nodesL, List.mem_append] at hx
    rcases hx with hx | hx
    · exact nodes_eventsOk T k h.1 x hx
    · exact nodesL_eventsOk T ks h.2 x hx
end

theorem mem_geneTaxa (n : Node) (g : String) (t : Taxon) :
    (g, t) ∈ geneTaxa n ↔ ∃ d l, Node.gene g t d l ∈ n.nodes := by
  simp only [geneTaxa, List.mem_filterMap]
  constructor
  · rintro ⟨x, hx, he⟩
    cases x with
    | gene i t' d l =>
      simp only [Option.some.injEq, Prod.mk.injEq] at he
      obtain ⟨rfl, rfl⟩ := he
      exact ⟨d, l, hx⟩
    | hog => simp at he
  · rintro ⟨d, l, hx⟩
    exact ⟨_, hx, rfl⟩

theorem clusterPut_key (d : List (Taxon × List String)) (t : Taxon) (g : String) :
    ∀ e ∈ clusterPut d t g, e.1 ∈ d.map (·.1) ∨ e.1 = t := by
  intro e he
  rw [clusterPut_eq] at he
  split at he
  · obtain ⟨e', he', rfl⟩ := List.mem_map.1 he
    rw [cupd_fst]
    exact Or.inl (List.mem_map.2 ⟨e', he', rfl⟩)
  · rcases List.mem_append.1 he with he | he
    · exact Or.inl (List.mem_map.2 ⟨e, he, rfl⟩)
    · simp only [List.mem_singleton] at he
      rw [he]; exact Or.inr rfl

theorem cfold_keys (es : List (String × Taxon)) : ∀ (d : List (Taxon × List String)),
    ∀ e ∈ es.foldl cstep d, e.1 ∈ d.map (·.1) ∨ ∃ g, (g, e.1) ∈ es := by
  induction es with
  | nil => intro d e he; exact Or.inl (List.mem_map.2 ⟨e, he, rfl⟩)
  | cons x es ih =>
    intro d e he
    simp only [List.foldl_cons] at he
    rcases ih (cstep d x) e he with h | ⟨g, hg⟩
    · obtain ⟨e', he', hk⟩ := List.mem_map.1 h
      rcases clusterPut_key d x.2 x.1 e' he' with h' | h'
      · exact Or.inl (hk ▸ h')
      · refine Or.inr ⟨x.1, ?_⟩
        rw [← hk, h']
        exact List.mem_cons_self
    · exact Or.inr ⟨g, List.mem_cons_of_mem _ hg⟩

theorem clusterBySpecies_key (n : Node) (e : Taxon × List String) (he : e ∈ clusterBySpecies n) :
    ∃ g, (g, e.1) ∈ geneTaxa n := by
  rw [clusterBySpecies_eq] at he
  rcases cfold_keys (geneTaxa n) [] e he with h | h
  · simp at h
  · exact h

theorem rt_filter_singleton {α} (P : α → Bool) (a : α) : (l : List α) → l.Nodup → a ∈ l →
    (∀ x ∈ l, P x = true ↔ x = a) → l.filter P = [a]
  | [], _, h, _ => by simp at h
  | x :: xs, hn, ha, hP => by
    rw [List.nodup_cons] at hn
    by_cases hx : x = a
    · subst hx
      have : P x = true := (hP x List.mem_cons_self).2 rfl
      rw [List.filter_cons, this, if_pos rfl]
      congr 1
      rw [List.filter_eq_nil_iff]
      intro y hy hpy
      have := (hP y (List.mem_cons_of_mem _ hy)).1 hpy
      exact hn.1 (this ▸ hy)
    · have : P x = false := by
        rw [Bool.eq_false_iff]
        exact fun h => hx ((hP x List.mem_cons_self).1 h)
      rw [List.filter_cons, this]
      simp only [Bool.false_eq_true, if_false]
      rcases List.mem_cons.1 ha with rfl | ha'
      · exact absurd rfl hx
      · exact rt_filter_singleton P a xs hn.2 ha' (fun y hy => hP y (List.mem_cons_of_mem _ hy))

/-- a leaf is found again under its own name -/
theorem resolveSpecies_leaf_name (T : STree) (nm : Naming) (hn : NamesInj T nm) (p : Taxon)
    (hl : T.isLeafAt p = true) : resolveSpecies T nm ((T.nameAt nm p).getD "") = .ok p := by
  have hsub : (T.sub p).isSome = true := by
    unfold STree.isLeafAt at hl
    cases hs : T.sub p with
    | none => simp [hs] at hl
    | some st => rfl
  obtain ⟨s, hs⟩ : ∃ s, T.nameAt nm p = some s := by
    unfold STree.nameAt
    cases hs : T.sub p with
    | none => simp [hs] at hsub
    | some st => exact ⟨_, rfl⟩
  have hfind : T.findByName nm s = [p] := by
    unfold STree.findByName
    apply rt_filter_singleton _ p _ (allTaxa_nodup T) ((mem_allTaxa_iff T p).2 hsub)
    intro x _
    simp only [beq_iff_eq]
    constructor
    · intro hx; exact hn x p s hx hs
    · rintro rfl; exact hs
  simp [hs, resolveSpecies, hfind, hl]

theorem rt_filterMap_nodup {α β γ} (f : α → γ) (g : α → Option β) (h : β → γ) : (l : List α) →
    (l.map f).Nodup → (∀ x ∈ l, ∀ i, g x = some i → f x = h i) → (l.filterMap g).Nodup
  | [], _, _ => by simp
  | x :: xs, hn, hg => by
    simp only [List.map_cons, List.nodup_cons] at hn
    have ih := rt_filterMap_nodup f g h xs hn.2 (fun y hy => hg y (List.mem_cons_of_mem _ hy))
    cases hx : g x with
    | none => rw [List.filterMap_cons_none hx]; exact ih
    | some i =>
      rw [List.filterMap_cons_some hx, List.nodup_cons]
      refine ⟨?_, ih⟩
      intro hi
      obtain ⟨y, hy, hyi⟩ := List.mem_filterMap.1 hi
      have e1 := hg x List.mem_cons_self i hx
      have e2 := hg y (List.mem_cons_of_mem _ hy) i hyi
      exact hn.1 (List.mem_map.2 ⟨y, hy, e2.trans e1.symm⟩)

theorem leaves_nodup_of_keys (n : Node) (h : (n.nodes.map Node.key).Nodup) : n.leaves.Nodup := by
  rw [leaves_eq_nodes]
  apply rt_filterMap_nodup Node.key _ Key.g n.nodes h
  intro x _ i hx
  cases x with
  | gene j t d l =>
    simp only [Option.some.injEq] at hx
    rw [← hx]; rfl
  | hog => simp at hx

theorem geneTaxaSubs_append (q : Taxon) : (a b : List Sub) →
    geneTaxaSubs q (a ++ b) = geneTaxaSubs q a ++ geneTaxaSubs q b
  | [], b => by simp [geneTaxaSubs]
  | .one _ _ :: a, b => by simp [geneTaxaSubs, geneTaxaSubs_append q a b]
  | .dup _ _ _ :: a, b => by simp [geneTaxaSubs, geneTaxaSubs_append q a b]
  | .ann _ :: a, b => by simp [geneTaxaSubs, geneTaxaSubs_append q a b]

theorem geneTaxaSubs_map_dup (p : Taxon) (f : DupRec → Nat) (g : DupRec → List SL) : (ds : List DupRec) →
    geneTaxaSubs p (ds.map fun d => Sub.dup (f d) none (g d)) =
      ds.flatMap fun d => geneTaxaCopies (f d :: p) (g d)
  | [] => rfl
  | d :: ds => by simp [geneTaxaSubs, geneTaxaSubs_map_dup p f g ds]

theorem geneTaxa_of_kid (info : HogInfo) (t : Taxon) (d : Option Nat) (kids : List Node) (dups : List DupRec)
    (e : String × Taxon) (h : ∃ k ∈ kids, e ∈ geneTaxa k) : e ∈ geneTaxa (.hog info t d kids dups) := by
  obtain ⟨k, hk, he⟩ := h
  obtain ⟨g, tx⟩ := e
  rw [mem_geneTaxa] at he ⊢
  obtain ⟨d', l, hx⟩ := he
  refine ⟨d', l, ?_⟩
  simp only [Node.nodes, List.mem_cons]
  right
  rw [nodesL_eq_flatMap', List.mem_flatMap]
  exact ⟨k, hk, hx⟩

mutual
theorem gt_aux (T : STree) : (n : Node) → (pOg keep : Bool) → ExportWF T n →
    ∀ e ∈ geneTaxaSL n.tx (spell pOg keep n), e ∈ geneTaxa n
  | .gene i t d l, _, _, _ => by
    intro e he
    simp only [spell, geneTaxaSL, Node.tx, List.mem_singleton] at he
    rw [he, mem_geneTaxa]
    exact ⟨d, l, by simp [Node.nodes]⟩
  | .hog info t d kids dups, pOg, keep, h => by
    have hf := h.facts
    have hsubs : ∀ kc, ∀ e ∈ geneTaxaSubs t (subsOf kc kids dups), ∃ k ∈ kids, e ∈ geneTaxa k := by
      intro kc e he
      rw [subsOf, geneTaxaSubs_append, geneTaxaSubs_map_dup, List.mem_append] at he
      rcases he with he | he
      · obtain ⟨r, hr, her⟩ := List.mem_flatMap.1 he
        exact gt_members T r.members (brOf kids r :: t) kids hf.sub
          (fun k hk hm => hf.brOf_spec r hr k hk (by simpa using hm)) e her
      · exact gt_kids T true kc (remOf kids dups) t kids hf.sub hf.tx e he
    intro e he
    apply geneTaxa_of_kid
    rw [spell_hog, Node.tx] at he
    cases hE : elideB pOg keep kids dups with
    | true =>
      rw [hE] at he
      simp only [if_true, geneTaxaSL] at he
      exact hsubs _ e he
    | false =>
      rw [hE] at he
      simp only [Bool.false_eq_true, if_false, geneTaxaSL] at he
      exact hsubs _ e he
theorem gt_members (T : STree) (mem : List Key) (q : Taxon) : (ks : List Node) →
    (∀ k ∈ ks, ExportWF T k) → (∀ k ∈ ks, mem.contains k.key = true → k.tx = q) →
    ∀ e ∈ geneTaxaCopies q (spellMembers mem ks), ∃ k ∈ ks, e ∈ geneTaxa k
  | [], _, _ => by simp [spellMembers, geneTaxaCopies]
  | k :: ks, h, hq => by
    have ih := gt_members T mem q ks (fun x hx => h x (List.mem_cons_of_mem _ hx))
      (fun x hx => hq x (List.mem_cons_of_mem _ hx))
    intro e he
    rw [spellMembers] at he
    cases hc : mem.contains k.key with
    | false =>
      rw [hc] at he
      obtain ⟨k', hk', hek⟩ := ih e (by simpa using he)
      exact ⟨k', List.mem_cons_of_mem _ hk', hek⟩
    | true =>
      rw [hc] at he
      simp only [if_true, List.singleton_append, geneTaxaCopies, List.mem_append] at he
      rcases he with he | he
      · have := gt_aux T k false false (h k List.mem_cons_self)
        rw [hq k List.mem_cons_self hc] at this
        exact ⟨k, List.mem_cons_self, this e he⟩
      · obtain ⟨k', hk', hek⟩ := ih e he
        exact ⟨k', List.mem_cons_of_mem _ hk', hek⟩
theorem gt_kids (T : STree) (pOg keep : Bool) (sel : List Node) (t : Taxon) :
    (ks : List Node) → (∀ k ∈ ks, ExportWF T k) → (∀ k ∈ ks, k.tx = branchOf k :: t) →
    ∀ e ∈ geneTaxaSubs t (spellKids pOg keep sel ks), ∃ k ∈ ks, e ∈ geneTaxa k
  | [], _, _ => by simp [spellKids, geneTaxaSubs]
  | k :: ks, h, hq => by
    have ih := gt_kids T pOg keep sel t ks (fun x hx => h x (List.mem_cons_of_mem _ hx))
      (fun x hx => hq x (List.mem_cons_of_mem _ hx))
    intro e he
    rw [spellKids] at he
    cases hc : sel.any (·.key == k.key) with
    | false =>
      rw [hc] at he
      obtain ⟨k', hk', hek⟩ := ih e (by simpa using he)
      exact ⟨k', List.mem_cons_of_mem _ hk', hek⟩
    | true =>
      rw [hc] at he
      simp only [if_true, List.singleton_append, geneTaxaSubs, List.mem_append] at he
      rcases he with he | he
      · have := gt_aux T k pOg keep (h k List.mem_cons_self)
        rw [hq k List.mem_cons_self] at this
        exact ⟨k, List.mem_cons_self, this e he⟩
      · obtain ⟨k', hk', hek⟩ := ih e he
        exact ⟨k', List.mem_cons_of_mem _ hk', hek⟩
end

theorem spell_written (n : Node) (hh : n.isGene = false) : isWrittenGrp (spell false false n) = true := by
  cases n with
  | gene => simp [Node.isGene] at hh
  | hog info t d kids dups =>
    rw [spell_hog, elideB_false_left]
    rfl

/-- **C12 (round-trip)**: re-loading the export of a HOG with the same species tree yields exactly one
    family, and that family and the original HOG realise one and the same history -/
theorem C12_roundtrip (H : Ham) (n : Node) (hn : NamesInj H.tree H.naming) (hw : ExportWF H.tree n)
    (hh : n.isGene = false) :
    ∃ H' n', load H.tree H.naming (ihamExport H n) = .ok H' ∧
      H'.tops.map (·.2) = [n'] ∧
      Realises n.tx (spell false false n) n' ∧
      Realises n.tx (spell false false n) (stripNode n) := by
  have hleafN : n.leaves.Nodup := leaves_nodup_of_keys n hw.keys
  have hgtN : ((geneTaxa n).map (·.1)).Nodup := by rw [geneTaxa_map_fst]; exact hleafN
  have hgl : ∀ g t, (g, t) ∈ geneTaxa n → H.tree.isLeafAt t = true := by
    intro g t h
    obtain ⟨d, l, hx⟩ := (mem_geneTaxa n g t).1 h
    have := nodes_eventsOk H.tree n hw.events _ hx
    simpa [Node.eventsOk] using this
  -- the species of the export, one per cluster
  have hspec : ∀ s ∈ (ihamExport H n).species, ∃ e ∈ clusterBySpecies n,
      s.genes.map (·.id) = e.2 ∧ resolveSpecies H.tree H.naming s.name = .ok e.1 := by
    intro s hs
    simp only [ihamExport, List.mem_reverse, List.mem_map] at hs
    obtain ⟨e, he, rfl⟩ := hs
    refine ⟨e, he, by simp [List.map_map, Function.comp_def], ?_⟩
    obtain ⟨g, hg⟩ := clusterBySpecies_key n e he
    exact resolveSpecies_leaf_name H.tree H.naming hn e.1 (hgl g e.1 hg)
  have hspec' : ∀ e ∈ clusterBySpecies n, ∃ s ∈ (ihamExport H n).species,
      s.genes.map (·.id) = e.2 ∧ resolveSpecies H.tree H.naming s.name = .ok e.1 := by
    intro e he
    obtain ⟨g, hg⟩ := clusterBySpecies_key n e he
    have hr := resolveSpecies_leaf_name H.tree H.naming hn e.1 (hgl g e.1 hg)
    have : ∃ s ∈ (ihamExport H n).species, s.name = (H.tree.nameAt H.naming e.1).getD "" ∧
        s.genes.map (·.id) = e.2 := by
      simp only [ihamExport, List.mem_reverse, List.mem_map]
      exact ⟨_, ⟨e, he, rfl⟩, rfl, by simp [List.map_map, Function.comp_def]⟩
    obtain ⟨s, hs, hname, hgenes⟩ := this
    exact ⟨s, hs, hgenes, by rw [hname]; exact hr⟩
  have hres : ∀ s ∈ (ihamExport H n).species, ∃ p, resolveSpecies H.tree H.naming s.name = .ok p := by
    intro s hs
    obtain ⟨e, _, _, hr⟩ := hspec s hs
    exact ⟨e.1, hr⟩
  obtain ⟨genes, hdecl, _, hg3⟩ := declareSpecies_ok H.tree H.naming (ihamExport H n).species [] hres
  simp only [List.nil_append] at hdecl
  have hids : genes.map (·.id) = (ihamExport H n).species.flatMap (fun s => s.genes.map (·.id)) := by
    simpa using declareSpecies_ids H.tree H.naming (ihamExport H n).species [] genes hdecl
  have hidsN : (genes.map (·.id)).Nodup := by
    rw [hids]; exact ((export_declares H n).nodup_iff).2 hleafN
  obtain ⟨env, henv⟩ : ∃ env : Env,
      env = { T := H.tree, nm := H.naming, geneTx := genes.reverse.map fun g => (g.id, g.tx) } := ⟨_, rfl⟩
  have hlook : ∀ g ∈ genes, env.lookupGene g.id = some g.tx := by
    intro g hg
    rw [henv]
    apply lookup_of_nodup
    · rw [List.map_map]
      show ((genes.reverse).map (·.id)).Nodup
      rw [List.map_reverse]
      exact ((List.reverse_perm _).nodup_iff).mpr hidsN
    · exact List.mem_map.mpr ⟨g, List.mem_reverse.mpr hg, rfl⟩
  have hT : env.T = H.tree := by rw [henv]
  have hN : env.nm = H.naming := by rw [henv]
  have hD : Declared env n.tx (spell false false n) := by
    intro e he
    have hmem := gt_aux H.tree n false false hw e he
    have hi : e.1 ∈ n.leaves := by
      rw [← geneTaxa_map_fst]; exact List.mem_map.2 ⟨e, hmem, rfl⟩
    obtain ⟨c, hc, hic⟩ := List.mem_flatMap.1 ((clusterBySpecies_perm n).mem_iff.2 hi)
    have hsound := clusterBySpecies_sound n c.1 c.2 e.1 hc hic
    have heq := eq_of_nodup_map (·.1) (geneTaxa n) hgtN e (e.1, c.1) hmem hsound rfl
    obtain ⟨s, hs, hsg, hsr⟩ := hspec' c hc
    obtain ⟨g, hg, hgi, hgt⟩ := hg3 s hs c.1 hsr e.1 (by rw [hsg]; exact hic)
    have := hlook g hg
    rw [hgi, hgt] at this
    rw [this, heq]
  have hnd : (genesOf (spell false false n)).Nodup := by
    have h1 := realises_leaves _ _ _ (spell_realised H.tree false false n hw)
    rw [stripNode_leaves] at h1
    exact (h1.nodup_iff).1 hleafN
  obtain ⟨n', ps', htop, hreal, _, _, _⟩ := C03_family env n.tx (spell false false n) (spell_written n hh)
    (by rw [hT]; exact spell_wfh H.tree false false n hw) (spell_recoverable H.tree false false n hw)
    hD hnd (by rw [hT, hN]; exact hn) [] {} ⟨rfl, rfl, rfl, fun b hb => absurd hb List.not_mem_nil⟩
  have hgroups : (ihamExport H n).groups = encode H.tree H.naming n.tx (spell false false n) :=
    export_is_encode H.tree H.naming false false n hw
  obtain ⟨sp, hsp⟩ := speciesMapM_ok H.tree H.naming (ihamExport H n).species hres
  rw [hT, hN, ← hgroups] at htop
  subst henv
  refine ⟨{ tree := H.tree, naming := H.naming, tops := [(hidOf n', n')], genes := genes,
            species := sp, reg := ps'.reg }, n', ?_, rfl, hreal, spell_realised H.tree false false n hw⟩
  simp only [load, buildHam, bind, Except.bind, hdecl, htop, hsp]
  simp [dictPut]

/-- hence: same members, same root taxon -/
theorem C12_roundtrip_members (H : Ham) (n : Node) (hn : NamesInj H.tree H.naming) (hw : ExportWF H.tree n)
    (hh : n.isGene = false) :
    ∃ H' n', load H.tree H.naming (ihamExport H n) = .ok H' ∧ H'.tops.map (·.2) = [n'] ∧
      n'.tx = n.tx ∧ n'.leaves.Perm n.leaves := by
  obtain ⟨H', n', h1, h2, h3, h4⟩ := C12_roundtrip H n hn hw hh
  refine ⟨H', n', h1, h2, realises_tx _ _ _ h3, ?_⟩
  have a := realises_leaves _ _ _ h3
  have b := realises_leaves _ _ _ h4
  rw [stripNode_leaves] at b
  exact a.trans b.symm

end Pyham
