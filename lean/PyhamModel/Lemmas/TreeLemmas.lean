/-
  Facts about taxa and the species tree (properties C18, and the MRCA facts C08 needs).

  NOTE: the original statement `mem_pathUp_iff` (without `anc ≠ lo`) is false:
  lo = anc = [0], x = [] gives `pathUp [0] [0] = [[]]` but `[0] <:+ []` fails.
  It is replaced by `mem_pathUp_iff_partial` with the extra hypothesis `hne : anc ≠ lo`.
-/
import PyhamModel.Model.Tree
namespace Pyham
open STree

/-! ### get_path_up -/

theorem mem_ancestors_iff (t x : Taxon) : x ∈ ancestors t ↔ (x <:+ t ∧ x ≠ t) := by
  induction t with
  | nil => simp [ancestors]
  | cons a p ih =>
    simp only [ancestors, List.mem_cons, ih, List.suffix_cons_iff]
    constructor
    · rintro (h | ⟨h1, h2⟩)
      · subst h; simp
      · refine ⟨Or.inr h1, ?_⟩
        intro h; subst h
        have := h1.length_le; simp at this; omega
    · rintro ⟨h1 | h1, h2⟩
      · exact absurd h1 h2
      · by_cases h : x = p
        · exact Or.inl h
        · exact Or.inr ⟨h1, h⟩

theorem suffix_ne_length_lt {a b : Taxon} (h : a <:+ b) (hne : a ≠ b) : a.length < b.length := by
  have h1 := h.length_le
  rcases Nat.lt_or_ge a.length b.length with h2 | h2
  · exact h2
  · exact absurd (h.eq_of_length_le h2) hne

theorem suffix_antisymm {a b : Taxon} (h : a <:+ b) (h' : b <:+ a) : a = b :=
  h.eq_of_length_le h'.length_le

theorem pathUp_cons (a : Nat) (p anc : Taxon) :
    pathUp (a :: p) anc = if p = anc then [] else p :: pathUp p anc := by
  simp only [pathUp, ancestors, List.takeWhile_cons]
  by_cases h : p = anc <;> simp [h]

theorem pathUp_adjacent (i : Nat) (anc : Taxon) : pathUp (i :: anc) anc = [] := by
  simp [pathUp_cons]

theorem map_drop_cons (a : Nat) (p : Taxon) (k s : Nat) :
    (List.range' (s+1) k).map (fun j => (a :: p).drop j) = (List.range' s k).map (fun j => p.drop j) := by
  induction k generalizing s with
  | zero => simp
  | succ k ih => simp [List.range'_succ, ih]

theorem pathUp_spec (lo anc : Taxon) (h : anc <:+ lo) (hne : anc ≠ lo) :
    pathUp lo anc = (List.range' 1 (lo.length - anc.length - 1)).map (fun k => lo.drop k) := by
  induction lo with
  | nil => simp at h; exact absurd h hne
  | cons a p ih =>
    rw [pathUp_cons]
    have hs : anc <:+ p := by
      rcases List.suffix_cons_iff.mp h with h | h
      · exact absurd h hne
      · exact h
    by_cases hp : p = anc
    · subst hp; simp
    · have hlt := suffix_ne_length_lt hs (Ne.symm hp)
      rw [if_neg hp, ih hs (Ne.symm hp)]
      have : (a :: p).length - anc.length - 1 = (p.length - anc.length - 1) + 1 := by
        simp; omega
      rw [this, List.range'_succ]
      simp [map_drop_cons]

theorem mem_pathUp_iff_partial (lo anc x : Taxon) (h : anc <:+ lo) (hne : anc ≠ lo) :
    x ∈ pathUp lo anc ↔ (anc <:+ x ∧ x <:+ lo ∧ x ≠ anc ∧ x ≠ lo) := by
  induction lo with
  | nil => simp at h; exact absurd h hne
  | cons a p ih =>
    rw [pathUp_cons]
    have hs : anc <:+ p := by
      rcases List.suffix_cons_iff.mp h with h | h
      · exact absurd h hne
      · exact h
    by_cases hp : p = anc
    · subst hp
      simp only [if_true, List.not_mem_nil, false_iff, List.suffix_cons_iff]
      rintro ⟨h1, h2 | h2, h3, h4⟩
      · exact h4 h2
      · exact h3 (suffix_antisymm h2 h1)
    · rw [if_neg hp, List.mem_cons, ih hs (Ne.symm hp)]
      simp only [List.suffix_cons_iff]
      constructor
      · rintro (h1 | ⟨h1, h2, h3, h4⟩)
        · subst h1
          refine ⟨hs, Or.inr (List.suffix_refl _), hp, ?_⟩
          intro h; have := congrArg List.length h; simp at this
        · refine ⟨h1, Or.inr h2, h3, ?_⟩
          intro h; subst h
          have := h2.length_le; simp at this; omega
      · rintro ⟨h1, h2 | h2, h3, h4⟩
        · exact absurd h2 h4
        · by_cases hx : x = p
          · exact Or.inl hx
          · exact Or.inr ⟨h1, h2, h3, hx⟩

theorem takeWhile_all {α} (p : α → Bool) (l : List α) (h : ∀ x ∈ l, p x = true) : l.takeWhile p = l := by
  induction l with
  | nil => rfl
  | cons a l ih =>
    have ha := h a (by simp)
    simp only [List.takeWhile_cons, ha, if_true]
    rw [ih (fun x hx => h x (by simp [hx]))]

theorem pathUp_not_ancestor (lo anc : Taxon) (h : ¬ anc <:+ lo) : pathUp lo anc = ancestors lo := by
  unfold pathUp
  apply takeWhile_all
  intro x hx
  rw [mem_ancestors_iff] at hx
  simp only [bne_iff_ne, ne_eq]
  intro hxa; subst hxa; exact h hx.1

theorem isProperAncestor_iff (a t : Taxon) : isProperAncestor a t = true ↔ (a <:+ t ∧ a ≠ t) := by
  simp [isProperAncestor, mem_ancestors_iff]

/-! mrca -/
theorem lcsEq_suffix_left (a b : Taxon) : lcsEq a b <:+ a := by
  fun_induction lcsEq a b with
  | case1 => simp
  | case2 => simp
  | case3 a as b bs r hc ih =>
    simp only [Bool.and_eq_true, beq_iff_eq] at hc
    have : r = as := ih.eq_of_length hc.1.2
    rw [this]; exact List.suffix_refl _
  | case4 a as b bs r hc ih => exact ih.trans (List.suffix_cons _ _)

theorem lcsEq_suffix_right (a b : Taxon) : lcsEq a b <:+ b := by
  fun_induction lcsEq a b with
  | case1 => simp
  | case2 => simp
  | case3 a as b bs r hc ih =>
    simp only [Bool.and_eq_true, beq_iff_eq] at hc
    have : r = bs := ih.eq_of_length (hc.1.2.trans hc.2)
    rw [this, hc.1.1]; exact List.suffix_refl _
  | case4 a as b bs r hc ih => exact ih.trans (List.suffix_cons _ _)

theorem lcsEq_greatest (a b c : Taxon) (hl : a.length = b.length) (ha : c <:+ a) (hb : c <:+ b) :
    c <:+ lcsEq a b := by
  induction a generalizing b c with
  | nil => simpa [lcsEq] using ha
  | cons x as ih =>
    cases b with
    | nil => simp at hl
    | cons y bs =>
      simp only [List.length_cons, Nat.add_right_cancel_iff] at hl
      simp only [lcsEq]
      rcases List.suffix_cons_iff.mp ha with h1 | h1
      · have h2 : c = y :: bs := hb.eq_of_length (by simp [h1, hl])
        rw [h1] at h2
        simp only [List.cons.injEq] at h2
        obtain ⟨hxy, hab⟩ := h2
        subst hxy; subst hab
        have h3 : as <:+ lcsEq as as := ih as as rfl (List.suffix_refl _) (List.suffix_refl _)
        have h4 : lcsEq as as = as := suffix_antisymm (lcsEq_suffix_left as as) h3
        simp [h4, h1]
      · have h2 : c <:+ bs := by
          rcases List.suffix_cons_iff.mp hb with h2 | h2
          · have := h1.length_le; simp [h2] at this; omega
          · exact h2
        have h3 := ih bs c hl h1 h2
        split
        · exact h3.trans (List.suffix_cons _ _)
        · exact h3

theorem dropTo_suffix (n : Nat) (t : Taxon) : dropTo n t <:+ t := List.drop_suffix _ _
theorem dropTo_length (n : Nat) (t : Taxon) (h : n ≤ t.length) : (dropTo n t).length = n := by
  simp [dropTo]; omega

theorem mrca2_suffix_left (a b : Taxon) : mrca2 a b <:+ a :=
  (lcsEq_suffix_left _ _).trans (dropTo_suffix _ _)
theorem mrca2_suffix_right (a b : Taxon) : mrca2 a b <:+ b :=
  (lcsEq_suffix_right _ _).trans (dropTo_suffix _ _)
theorem mrca2_greatest (a b c : Taxon) (ha : c <:+ a) (hb : c <:+ b) : c <:+ mrca2 a b := by
  unfold mrca2
  have h1 := ha.length_le
  have h2 := hb.length_le
  have l1 := dropTo_length (min a.length b.length) a (Nat.min_le_left _ _)
  have l2 := dropTo_length (min a.length b.length) b (Nat.min_le_right _ _)
  apply lcsEq_greatest _ _ _ (by rw [l1, l2])
  · exact List.suffix_of_suffix_length_le ha (dropTo_suffix _ _) (by rw [l1]; omega)
  · exact List.suffix_of_suffix_length_le hb (dropTo_suffix _ _) (by rw [l2]; omega)
theorem mrca2_comm (a b : Taxon) : mrca2 a b = mrca2 b a :=
  suffix_antisymm (mrca2_greatest b a _ (mrca2_suffix_right a b) (mrca2_suffix_left a b))
    (mrca2_greatest a b _ (mrca2_suffix_right b a) (mrca2_suffix_left b a))
theorem mrca2_eq_left_iff (a b : Taxon) : mrca2 a b = a ↔ a <:+ b := by
  constructor
  · intro h; have := mrca2_suffix_right a b; rwa [h] at this
  · intro h
    exact suffix_antisymm (mrca2_suffix_left a b) (mrca2_greatest a b a (List.suffix_refl _) h)
theorem mrca2_self (a : Taxon) : mrca2 a a = a := (mrca2_eq_left_iff a a).mpr (List.suffix_refl _)

/-! ### the tree -/

theorem subRF_append : (t : STree) → (a b : List Nat) →
    t.subRF (a ++ b) = (t.subRF a).bind (fun u => u.subRF b)
  | t, [], b => by simp [subRF]
  | .node n ks, i :: a, b => by
    simp only [List.cons_append, subRF]
    cases h : ks[i]? with
    | none => simp
    | some k => simp only; exact subRF_append k a b

theorem subRF_node_cons (n : String) (ks : List STree) (i : Nat) (r : List Nat) :
    (STree.node n ks).subRF (i :: r) = (ks[i]?).bind (fun k => k.subRF r) := by
  simp only [subRF]
  cases ks[i]? <;> simp

mutual
theorem mem_taxaFrom_iff : (t : STree) → (p q : Taxon) →
    (q ∈ taxaFrom p t ↔ ∃ r, q = r.reverse ++ p ∧ (t.subRF r).isSome = true)
  | .node n ks, p, q => by
    simp only [taxaFrom, List.mem_cons, mem_taxaFromL_iff ks p 0 q]
    constructor
    · rintro (h | ⟨j, k, r, hk, hq, hs⟩)
      · exact ⟨[], by simp [h], by simp [subRF]⟩
      · refine ⟨j :: r, by simp [hq], ?_⟩
        simp [subRF_node_cons, hk, hs]
    · rintro ⟨r, hq, hs⟩
      cases r with
      | nil => left; simpa using hq
      | cons j r =>
        right
        rw [subRF_node_cons] at hs
        cases hk : ks[j]? with
        | none => simp [hk] at hs
        | some k =>
          refine ⟨j, k, r, hk, by simp [hq], ?_⟩
          simpa [hk] using hs
theorem mem_taxaFromL_iff : (ks : List STree) → (p : Taxon) → (i : Nat) → (q : Taxon) →
    (q ∈ taxaFromL p i ks ↔ ∃ j k r, ks[j]? = some k ∧ q = r.reverse ++ (i + j) :: p ∧ (k.subRF r).isSome = true)
  | [], p, i, q => by simp [taxaFromL]
  | k :: ks, p, i, q => by
    simp only [taxaFromL, List.mem_append, mem_taxaFrom_iff k (i :: p) q, mem_taxaFromL_iff ks p (i+1) q]
    constructor
    · rintro (⟨r, hq, hs⟩ | ⟨j, k', r, hk, hq, hs⟩)
      · exact ⟨0, k, r, by simp, by simpa using hq, hs⟩
      · exact ⟨j + 1, k', r, by simpa using hk, by rw [hq]; congr 2; omega, hs⟩
    · rintro ⟨j, k', r, hk, hq, hs⟩
      cases j with
      | zero =>
        left
        simp at hk; subst hk
        exact ⟨r, by simpa using hq, hs⟩
      | succ j =>
        right
        exact ⟨j, k', r, by simpa using hk, by rw [hq]; congr 2; omega, hs⟩
end

theorem mem_allTaxa_iff (T : STree) (p : Taxon) : p ∈ T.allTaxa ↔ (T.sub p).isSome = true := by
  unfold allTaxa sub
  rw [mem_taxaFrom_iff]
  constructor
  · rintro ⟨r, hq, hs⟩; simp at hq; subst hq; simpa using hs
  · intro h; exact ⟨p.reverse, by simp, h⟩

mutual
theorem taxaFrom_nodup : (t : STree) → (p : Taxon) → (taxaFrom p t).Nodup
  | .node n ks, p => by
    simp only [taxaFrom, List.nodup_cons]
    refine ⟨?_, taxaFromL_nodup ks p 0⟩
    rw [mem_taxaFromL_iff]
    rintro ⟨j, k, r, _, hq, _⟩
    have := congrArg List.length hq
    simp at this; omega
theorem taxaFromL_nodup : (ks : List STree) → (p : Taxon) → (i : Nat) → (taxaFromL p i ks).Nodup
  | [], p, i => by simp [taxaFromL]
  | k :: ks, p, i => by
    simp only [taxaFromL]
    rw [List.nodup_append]
    refine ⟨taxaFrom_nodup k (i :: p), taxaFromL_nodup ks p (i+1), ?_⟩
    intro a ha b hb hab
    subst hab
    rw [mem_taxaFrom_iff] at ha
    rw [mem_taxaFromL_iff] at hb
    obtain ⟨r, hq, _⟩ := ha
    obtain ⟨j, k', r', _, hq', _⟩ := hb
    rw [hq] at hq'
    have := congrArg List.reverse hq'
    simp only [List.reverse_append, List.reverse_cons, List.reverse_reverse, List.append_assoc,
      List.singleton_append] at this
    have := List.append_cancel_left this
    simp at this
    omega
end

theorem allTaxa_nodup (T : STree) : T.allTaxa.Nodup := taxaFrom_nodup T []

theorem up_mem_allTaxa (T : STree) (i : Nat) (p : Taxon) (h : (i :: p) ∈ T.allTaxa) : p ∈ T.allTaxa := by
  rw [mem_allTaxa_iff] at h ⊢
  unfold sub at h ⊢
  rw [List.reverse_cons, subRF_append] at h
  cases hs : T.subRF p.reverse with
  | none => simp [hs] at h
  | some u => simp

theorem sub_cons (T : STree) (p : Taxon) (j : Nat) (n : String) (ks : List STree)
    (h : T.sub p = some (.node n ks)) : T.sub (j :: p) = ks[j]? := by
  unfold sub at h ⊢
  rw [List.reverse_cons, subRF_append, h]
  simp only [Option.bind_some, subRF_node_cons]
  cases ks[j]? <;> simp [subRF]

mutual
theorem leafNames_aux (T : STree) : (t : STree) → (p : Taxon) → T.sub p = some t →
    t.leafNames = ((taxaFrom p t).filter T.isLeafAt).filterMap (fun q => (T.sub q).map STree.name)
  | .node n [], p, h => by
    simp [leafNames, taxaFrom, taxaFromL, isLeafAt, h, isLeaf, kids, name]
  | .node n (k :: ks), p, h => by
    have hl : T.isLeafAt p = false := by simp [isLeafAt, h, isLeaf, kids]
    simp only [leafNames, taxaFrom]
    rw [List.filter_cons_of_neg (by simp [hl])]
    apply leafNamesL_aux T (k :: ks) p 0
    intro j k' hk
    rw [sub_cons T p _ n (k :: ks) h]; simpa using hk
theorem leafNamesL_aux (T : STree) : (ks : List STree) → (p : Taxon) → (i : Nat) →
    (∀ j k, ks[j]? = some k → T.sub ((i + j) :: p) = some k) →
    leafNamesL ks = ((taxaFromL p i ks).filter T.isLeafAt).filterMap (fun q => (T.sub q).map STree.name)
  | [], p, i, _ => by simp [leafNamesL, taxaFromL]
  | k :: ks, p, i, h => by
    simp only [leafNamesL, taxaFromL, List.filter_append, List.filterMap_append]
    rw [← leafNames_aux T k (i :: p) (by simpa using h 0 k (by simp))]
    rw [← leafNamesL_aux T ks p (i + 1) (by
      intro j k' hk
      have := h (j + 1) k' (by simpa using hk)
      rw [← this]; congr 2; omega)]
end

theorem leafNames_eq (T : STree) :
    T.leafNames = (T.leafTaxa).filterMap (fun p => (T.sub p).map STree.name) :=
  leafNames_aux T T [] (by simp [sub, subRF])

theorem namesOk_leaf_nodup (T : STree) (nm : Naming) (h : T.namesOk nm = true) :
    (T.leafTaxa.filterMap (T.nameAt nm)).Nodup := by
  simp only [namesOk, Bool.and_eq_true, decide_eq_true_eq] at h
  exact h.1
theorem namesOk_internal_nodup (T : STree) (nm : Naming) (h : T.namesOk nm = true) :
    (T.internalTaxa.filterMap (T.nameAt nm)).Nodup := by
  simp only [namesOk, Bool.and_eq_true, decide_eq_true_eq] at h
  exact h.2

theorem filterMap_nodup_inj {α β} (f : α → Option β) (l : List α) (h : (l.filterMap f).Nodup)
    (p q : α) (hp : p ∈ l) (hq : q ∈ l) (s : β) (hpn : f p = some s) (hqn : f q = some s) : p = q := by
  induction l with
  | nil => simp at hp
  | cons x xs ih =>
    simp only [List.mem_cons] at hp hq
    have key : ∀ y ∈ xs, f y = some s → f x = some s → False := by
      intro y hy hys hxs
      simp only [List.filterMap_cons, hxs, List.nodup_cons, List.mem_filterMap] at h
      exact h.1 ⟨y, hy, hys⟩
    have h' : (xs.filterMap f).Nodup := by
      simp only [List.filterMap_cons] at h
      split at h
      · exact h
      · exact (List.nodup_cons.mp h).2
    rcases hp with hp | hp <;> rcases hq with hq | hq
    · rw [hp, hq]
    · subst hp; exact (key q hq hqn hpn).elim
    · subst hq; exact (key p hp hpn hqn).elim
    · exact ih h' hp hq

theorem namesOk_lookup_unique (T : STree) (nm : Naming) (h : T.namesOk nm = true) (s : String)
    (p q : Taxon) (hp : p ∈ T.leafTaxa) (hq : q ∈ T.leafTaxa)
    (hpn : T.nameAt nm p = some s) (hqn : T.nameAt nm q = some s) : p = q :=
  filterMap_nodup_inj _ _ (namesOk_leaf_nodup T nm h) p q hp hq s hpn hqn
end Pyham
