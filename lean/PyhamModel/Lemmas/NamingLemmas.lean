/-
  C13 (the part a model can carry): ancestral names taken from the tree or synthesised from the leaf
  names yield the same families, levels, duplications, comparison results and tree profiles.
  Proved for files that carry no TaxRange labels (labels are compared with node names by the loader;
  with labels present the statement needs name injectivity and is validated by correspondence only).
-/
import PyhamModel.Model.Profile
namespace Pyham

mutual
/-- no `<property name="TaxRange" …>` anywhere in the element -/
def Elem.noLabel : Elem → Bool
  | .prop n _ => n != "TaxRange"
  | .og _ _ its => noLabelL its
  | .pg _ its => noLabelL its
  | _ => true
def noLabelL : List Elem → Bool
  | [] => true
  | e :: es => e.noLabel && noLabelL es
end

theorem nm_bind_congr {α β} (x : Except Err α) (f g : α → Except Err β)
    (h : ∀ a, x = .ok a → f a = g a) : bind x f = bind x g := by
  cases hx : x with
  | error e => rfl
  | ok a => exact h a hx

theorem dictSet_lookup_none (d : List (String × String)) (n v : String)
    (hn : (n != "TaxRange") = true) (h : d.lookup "TaxRange" = none) :
    (dictSet d n v).lookup "TaxRange" = none := by
  have hn2 : ("TaxRange" != n) = true := by
    simp only [bne_iff_ne, ne_eq] at hn ⊢
    exact fun h => hn h.symm
  rw [List.lookup_eq_none_iff] at *
  unfold dictSet
  split
  · intro p hp
    rw [List.mem_map] at hp
    obtain ⟨q, hq, rfl⟩ := hp
    split
    · exact hn2
    · exact h q hq
  · intro p hp
    rw [List.mem_append] at hp
    rcases hp with hp | hp
    · exact h p hp
    · simp at hp; subst hp; exact hn2

/-- closing a group does not look at node names unless the group carries a TaxRange property -/
theorem inferLevel_naming (env1 env2 : Env) (hT : env1.T = env2.T) (hg : env1.geneTx = env2.geneTx)
    (hb : HogBuild) (h : hb.info.props.lookup "TaxRange" = none) :
    inferLevel env1 hb = inferLevel env2 hb := by
  unfold inferLevel
  simp only [h]

theorem closeOg_naming (env1 env2 : Env) (hT : env1.T = env2.T) (hg : env1.geneTx = env2.geneTx)
    (top : Bool) (hb : HogBuild) (ps : PS) (h : hb.info.props.lookup "TaxRange" = none) :
    closeOg env1 top hb ps = closeOg env2 top hb ps := by
  unfold closeOg
  rw [inferLevel_naming env1 env2 hT hg hb h]

mutual
theorem elem_inv (env : Env) : (len : Nat) → (e : Elem) → (hb : HogBuild) → (ps : PS) →
    e.noLabel = true → hb.info.props.lookup "TaxRange" = none →
    ∀ r, elem env len e hb ps = .ok r → r.1.info.props.lookup "TaxRange" = none
  | len, .ref id loft, hb, ps, _, h, r, hr => by
    simp only [elem] at hr
    split at hr
    · cases hr
    · cases hr; exact h
  | len, .score _ _, hb, ps, _, h, r, hr => by
    simp only [elem] at hr
    cases hr; exact h
  | len, .prop n v, hb, ps, hn, h, r, hr => by
    simp only [elem] at hr
    cases hr
    simp only [Elem.noLabel] at hn
    exact dictSet_lookup_none _ _ _ hn h
  | len, .pg pgid its, hb, ps, hn, h, r, hr => by
    simp only [elem, bind, Except.bind] at hr
    simp only [Elem.noLabel] at hn
    cases h1 : elems env len its hb (pgOpen len pgid ps) with
    | error e => rw [h1] at hr; cases hr
    | ok a =>
      have := elems_inv env len its hb _ hn h a h1
      rw [h1] at hr
      simp only at hr
      cases h2 : pgClose a.1.kids a.2 with
      | error e => rw [h2] at hr; cases hr
      | ok b => rw [h2] at hr; cases hr; exact this
  | len, .og hid og its, hb, ps, hn, h, r, hr => by
    simp only [elem, bind, Except.bind] at hr
    split at hr
    · cases hr
    · split at hr
      · cases hr
      · cases hr; exact h
theorem elems_inv (env : Env) : (len : Nat) → (es : List Elem) → (hb : HogBuild) → (ps : PS) →
    noLabelL es = true → hb.info.props.lookup "TaxRange" = none →
    ∀ r, elems env len es hb ps = .ok r → r.1.info.props.lookup "TaxRange" = none
  | len, [], hb, ps, _, h, r, hr => by
    simp only [elems] at hr
    cases hr; exact h
  | len, e :: es, hb, ps, hn, h, r, hr => by
    simp only [noLabelL, Bool.and_eq_true] at hn
    simp only [elems, bind, Except.bind] at hr
    cases h1 : elem env len e hb ps with
    | error e => rw [h1] at hr; cases hr
    | ok a =>
      rw [h1] at hr
      exact elems_inv env len es a.1 a.2 hn.2 (elem_inv env len e hb ps hn.1 h a h1) r hr
end

mutual
theorem elem_naming (env1 env2 : Env) (hT : env1.T = env2.T) (hg : env1.geneTx = env2.geneTx) :
    (len : Nat) → (e : Elem) → (hb : HogBuild) → (ps : PS) →
    e.noLabel = true → hb.info.props.lookup "TaxRange" = none →
    elem env1 len e hb ps = elem env2 len e hb ps
  | len, .ref id loft, hb, ps, _, h => by
    simp only [elem, Env.lookupGene, hg]
  | len, .score _ _, hb, ps, _, h => by simp only [elem]
  | len, .prop n v, hb, ps, hn, h => by simp only [elem]
  | len, .pg pgid its, hb, ps, hn, h => by
    simp only [Elem.noLabel] at hn
    simp only [elem]
    rw [elems_naming env1 env2 hT hg len its hb _ hn h]
  | len, .og hid og its, hb, ps, hn, h => by
    simp only [Elem.noLabel] at hn
    simp only [elem]
    rw [elems_naming env1 env2 hT hg (len+1) its _ _ hn rfl]
    apply nm_bind_congr
    intro a ha
    have := elems_inv env2 (len+1) its _ _ hn rfl a ha
    rw [closeOg_naming env1 env2 hT hg false a.1 a.2 this]
theorem elems_naming (env1 env2 : Env) (hT : env1.T = env2.T) (hg : env1.geneTx = env2.geneTx) :
    (len : Nat) → (es : List Elem) → (hb : HogBuild) → (ps : PS) →
    noLabelL es = true → hb.info.props.lookup "TaxRange" = none →
    elems env1 len es hb ps = elems env2 len es hb ps
  | len, [], hb, ps, _, h => by simp only [elems]
  | len, e :: es, hb, ps, hn, h => by
    simp only [noLabelL, Bool.and_eq_true] at hn
    simp only [elems]
    rw [elem_naming env1 env2 hT hg len e hb ps hn.1 h]
    apply nm_bind_congr
    intro a ha
    exact elems_naming env1 env2 hT hg len es a.1 a.2 hn.2 (elem_inv env2 len e hb ps hn.1 h a ha)
end

mutual
theorem topElem_naming (env1 env2 : Env) (hT : env1.T = env2.T) (hg : env1.geneTx = env2.geneTx)
    (flt : HogFilter) : (e : Elem) → (tops : List Node) → (ps : PS) → e.noLabel = true →
    topElem env1 flt e tops ps = topElem env2 flt e tops ps
  | .ref id loft, tops, ps, _ => by simp only [topElem, Env.lookupGene, hg]
  | .score _ _, tops, ps, _ => by simp only [topElem]
  | .prop _ _, tops, ps, _ => by simp only [topElem]
  | .pg pgid its, tops, ps, hn => by
    simp only [Elem.noLabel] at hn
    simp only [topElem]
    rw [topElems_naming' env1 env2 hT hg flt its tops _ hn]
  | .og hid og its, tops, ps, hn => by
    simp only [Elem.noLabel] at hn
    cases flt with
    | none =>
      simp only [topElem, pure_bind]
      split
      · rfl
      · rw [elems_naming env1 env2 hT hg 1 its _ _ hn rfl]
        apply nm_bind_congr
        intro a ha
        have := elems_inv env2 1 its _ _ hn rfl a ha
        rw [closeOg_naming env1 env2 hT hg true a.1 a.2 this]
    | some ids =>
      cases hid with
      | none => simp only [topElem]; rfl
      | some i =>
        simp only [topElem, pure_bind]
        split
        · rfl
        · rw [elems_naming env1 env2 hT hg 1 its _ _ hn rfl]
          apply nm_bind_congr
          intro a ha
          have := elems_inv env2 1 its _ _ hn rfl a ha
          rw [closeOg_naming env1 env2 hT hg true a.1 a.2 this]
theorem topElems_naming' (env1 env2 : Env) (hT : env1.T = env2.T) (hg : env1.geneTx = env2.geneTx)
    (flt : HogFilter) : (es : List Elem) → (tops : List Node) → (ps : PS) → noLabelL es = true →
    topElems env1 flt es tops ps = topElems env2 flt es tops ps
  | [], tops, ps, _ => by simp only [topElems]
  | e :: es, tops, ps, hn => by
    simp only [noLabelL, Bool.and_eq_true] at hn
    simp only [topElems]
    rw [topElem_naming env1 env2 hT hg flt e tops ps hn.1]
    apply nm_bind_congr
    intro a _
    exact topElems_naming' env1 env2 hT hg flt es a.1 a.2 hn.2
end

/-- the whole group section is read identically under two namings -/
theorem topElems_naming (env1 env2 : Env) (hT : env1.T = env2.T) (hg : env1.geneTx = env2.geneTx)
    (flt : HogFilter) (es : List Elem) (h : noLabelL es = true) (tops : List Node) (ps : PS) :
    topElems env1 flt es tops ps = topElems env2 flt es tops ps :=
  topElems_naming' env1 env2 hT hg flt es tops ps h

theorem declareSpecies_naming (T : STree) (nm1 nm2 : Naming) (keep : String → Bool)
    (sp : List Species) (acc : List GeneRec)
    (hs : ∀ s ∈ sp, resolveSpecies T nm1 s.name = resolveSpecies T nm2 s.name) :
    declareSpecies T nm1 keep sp acc = declareSpecies T nm2 keep sp acc := by
  induction sp generalizing acc with
  | nil => simp only [declareSpecies]
  | cons s ss ih =>
    simp only [declareSpecies]
    rw [hs s (List.mem_cons_self ..)]
    apply nm_bind_congr
    intro p _
    exact ih _ (fun s' hs' => hs s' (List.mem_cons_of_mem _ hs'))

theorem mapM_species_naming (T : STree) (nm1 nm2 : Naming) (sp : List Species)
    (hs : ∀ s ∈ sp, resolveSpecies T nm1 s.name = resolveSpecies T nm2 s.name) :
    sp.mapM (fun s => (resolveSpecies T nm1 s.name).map fun p => (s.name, p)) =
    sp.mapM (fun s => (resolveSpecies T nm2 s.name).map fun p => (s.name, p)) := by
  induction sp with
  | nil => rfl
  | cons s ss ih =>
    simp only [List.mapM_cons]
    rw [hs s (List.mem_cons_self ..), ih (fun s' hs' => hs s' (List.mem_cons_of_mem _ hs'))]

/-- **C13 (naming mode)**: if every species name resolves to the same leaf under both namings and the
    file carries no TaxRange labels, the two loads agree on families, genes, species and genome gene
    lists -- only the recorded naming differs -/
theorem C13_naming_independent (T : STree) (nm1 nm2 : Naming) (inp : Input)
    (hs : ∀ s ∈ inp.species, resolveSpecies T nm1 s.name = resolveSpecies T nm2 s.name)
    (hl : noLabelL inp.groups = true) :
    (load T nm1 inp).map (fun H => (H.tops, H.genes, H.species, H.reg)) =
    (load T nm2 inp).map (fun H => (H.tops, H.genes, H.species, H.reg)) := by
  unfold load buildHam
  rw [declareSpecies_naming T nm1 nm2 _ inp.species [] hs, mapM_species_naming T nm1 nm2 inp.species hs]
  cases h1 : declareSpecies T nm2 (fun _ => true) inp.species [] with
  | error e => rfl
  | ok genes =>
    simp only [bind, Except.bind]
    rw [topElems_naming ⟨T, nm1, _⟩ ⟨T, nm2, _⟩ rfl rfl none inp.groups hl [] {}]
    cases h2 : topElems ⟨T, nm2, genes.reverse.map fun g => (g.id, g.tx)⟩ none inp.groups [] {} with
    | error e => rfl
    | ok a =>
      simp only
      cases h3 : inp.species.mapM (fun s => (resolveSpecies T nm2 s.name).map fun p => (s.name, p)) with
      | error e => rfl
      | ok sp => rfl

/-- comparison results and tree profiles do not look at the naming at all -/
theorem analyses_naming (H1 H2 : Ham) (ht : H1.tree = H2.tree) (h1 : H1.tops = H2.tops) (h2 : H1.genes = H2.genes)
    (h3 : H1.reg = H2.reg) :
    (∀ a d, hogsMap H1 a d = hogsMap H2 a d) ∧ (∀ g1 g2, vertical H1 g1 g2 = vertical H2 g1 g2) ∧
    (∀ g1 g2, lateral H1 g1 g2 = lateral H2 g1 g2) ∧ profileFull H1 = profileFull H2 ∧
    (∀ top, profileHog H1 top = profileHog H2 top) := by
  have hsing : H1.singletons = H2.singletons := by simp only [Ham.singletons, h1, h2]
  have hlocs : H1.allLocs = H2.allLocs := by simp only [Ham.allLocs, h1, hsing]
  have hat : ∀ t, H1.nodesAt t = H2.nodesAt t := fun t => by simp only [Ham.nodesAt, hlocs]
  have hmap : ∀ a d, hogsMap H1 a d = hogsMap H2 a d := fun a d => by simp only [hogsMap, hat]
  have hsize : ∀ t, H1.genomeSize t = H2.genomeSize t := fun t => by
    simp only [Ham.genomeSize, ht, h2, h3]
  have hpf : ∀ t, profileFullAt H1 t = profileFullAt H2 t := fun t => by
    simp only [profileFullAt, hmap, hsize]
  refine ⟨hmap, ?_, ?_, ?_, ?_⟩
  · intro g1 g2; simp only [vertical, hmap]
  · intro g1 g2; simp only [lateral, hmap]
  · have : profileFullAt H1 = profileFullAt H2 := funext hpf
    simp only [profileFull, ht, this]
  · intro top; simp only [profileHog, ht]

end Pyham
