/-
  C01 / C20 (last sentence): no gene is lost, duplicated or moved to another family by the loader.
  Every step of the model -- chaining up through missing levels, re-homing duplicated children,
  collapsing -- preserves the multiset of gene leaves, for ANY input on which the load succeeds.
-/
import PyhamModel.Model.Parser
namespace Pyham

theorem setDup_leaves (d : Option Nat) (n : Node) : (n.setDup d).leaves = n.leaves := by
  cases n <;> simp [Node.setDup, Node.leaves]

theorem setDup_key (d : Option Nat) (n : Node) : (n.setDup d).key = n.key := by
  cases n <;> rfl

theorem leavesL_append (a b : List Node) :
    Node.leavesL (a ++ b) = Node.leavesL a ++ Node.leavesL b := by
  induction a with
  | nil => simp [Node.leavesL]
  | cons x xs ih => simp [Node.leavesL, ih]

theorem leavesL_map_setDup (d : Option Nat) (l : List Node) :
    Node.leavesL (l.map (Node.setDup d)) = Node.leavesL l := by
  induction l with
  | nil => rfl
  | cons x xs ih => simp [Node.leavesL, ih, setDup_leaves]

theorem addMissing_spec (hid : Option String) : (ts : List Taxon) → (cur : Node) → (ps : PS) →
    (top : Node) → (ps' : PS) → addMissing hid cur ts ps = .ok (top, ps') →
    top.leaves = cur.leaves ∧ ps.next ≤ ps'.next ∧
      (top.key = cur.key ∨ ∃ u, top.key = .h u ∧ ps.next ≤ u ∧ u < ps'.next)
  | [], cur, ps, top, ps', h => by
    simp [addMissing] at h
    obtain ⟨rfl, rfl⟩ := h
    simp
  | t :: ts, cur, ps, top, ps', h => by
    simp only [addMissing] at h
    split at h
    · cases h
    · have ih := addMissing_spec hid ts _ _ _ _ h
      obtain ⟨h1, h2, h3⟩ := ih
      simp [PS.register, Node.leaves, Node.leavesL, Node.key, chainInfo] at h1 h2 h3
      refine ⟨h1, by omega, Or.inr ?_⟩
      rcases h3 with h3 | ⟨u, hu, hu1, hu2⟩
      · exact ⟨ps.next, h3, by omega, by omega⟩
      · exact ⟨u, hu, by omega, hu2⟩

/-- wrapping a node into single-child HOGs keeps its genes -/
theorem addMissing_leaves (hid : Option String) (cur : Node) (ts : List Taxon) (ps : PS) (top : Node) (ps' : PS)
    (h : addMissing hid cur ts ps = .ok (top, ps')) : top.leaves = cur.leaves :=
  (addMissing_spec hid ts cur ps top ps' h).1

/-- HOG identities among a list of nodes are pairwise distinct -/
def HogKeysNodup (ns : List Node) : Prop := ((ns.filter (fun n => !n.isGene)).map Node.key).Nodup

/-- all HOG identities in the list were handed out before the counter reached `n` -/
def UidsBelow (n : Nat) (ns : List Node) : Prop := ∀ k ∈ ns, ∀ u, k.key = Key.h u → u < n

theorem key_g_leaves (n : Node) (i : String) (h : n.key = .g i) : n.leaves = [i] := by
  cases n <;> simp_all [Node.key, Node.leaves]

theorem eraseKey_map_key (k : Key) (ns : List Node) :
    (eraseKey k ns).map Node.key = (ns.map Node.key).erase k := by
  induction ns with
  | nil => rfl
  | cons n ns ih =>
    simp only [eraseKey, List.map_cons, List.erase_cons]
    split <;> simp [ih]

theorem eraseKey_sublist (k : Key) (ns : List Node) : (eraseKey k ns).Sublist ns := by
  induction ns with
  | nil => exact List.Sublist.refl _
  | cons n ns ih =>
    simp only [eraseKey]
    split
    · exact List.sublist_cons_self _ _
    · exact ih.cons_cons _

theorem mem_of_mem_eraseKey {k : Key} {ns : List Node} {x : Node} (h : x ∈ eraseKey k ns) : x ∈ ns :=
  (eraseKey_sublist k ns).subset h

def isH : Key → Bool
  | .h _ => true
  | _ => false

theorem hogFilter_keys (ns : List Node) :
    (ns.filter (fun n => !n.isGene)).map Node.key = (ns.map Node.key).filter isH := by
  induction ns with
  | nil => rfl
  | cons n ns ih =>
    cases n with
    | gene i t d l =>
      have h1 : (!(Node.gene i t d l).isGene) = false := rfl
      have h2 : isH (Node.gene i t d l).key = false := rfl
      simp only [List.filter_cons, h1, List.map_cons, h2]
      simpa using ih
    | hog info t d ks ds =>
      have h1 : (!(Node.hog info t d ks ds).isGene) = true := rfl
      have h2 : isH (Node.hog info t d ks ds).key = true := rfl
      simp only [List.filter_cons, h1, List.map_cons, h2]
      simpa using ih

theorem hkn_iff (ns : List Node) : HogKeysNodup ns ↔ ∀ u, (ns.map Node.key).count (.h u) ≤ 1 := by
  unfold HogKeysNodup
  rw [hogFilter_keys, List.nodup_iff_count]
  constructor
  · intro h u
    have := h (.h u)
    rwa [List.count_filter (by rfl)] at this
  · intro h a
    cases a with
    | g i =>
      have : List.count (Key.g i) (List.filter isH (ns.map Node.key)) = 0 := by
        rw [List.count_eq_zero]; simp [isH]
      omega
    | h u => rw [List.count_filter (by rfl)]; exact h u

theorem HogKeysNodup.sublist {a b : List Node} (h : a.Sublist b) (hb : HogKeysNodup b) : HogKeysNodup a := by
  rw [hkn_iff] at *
  intro u
  exact Nat.le_trans ((h.map Node.key).count_le _) (hb u)

theorem UidsBelow.sublist {n} {a b : List Node} (h : a.Sublist b) (hb : UidsBelow n b) : UidsBelow n a :=
  fun k hk u hu => hb k (h.subset hk) u hu

theorem UidsBelow.mono {n m} {a : List Node} (hb : UidsBelow n a) (h : n ≤ m) : UidsBelow m a :=
  fun k hk u hu => Nat.lt_of_lt_of_le (hb k hk u hu) h

/-- two members with the same HOG identity are the same node -/
theorem eq_of_hkn : (kids : List Node) → HogKeysNodup kids → ∀ a ∈ kids, ∀ b ∈ kids, ∀ u,
    a.key = .h u → b.key = .h u → a = b := by
  intro kids
  induction kids with
  | nil => intro _ a ha; cases ha
  | cons n ns ih =>
    intro hnd a ha b hb u hau hbu
    have hns : HogKeysNodup ns := hnd.sublist (List.sublist_cons_self _ _)
    have hc := (hkn_iff _).mp hnd u
    simp only [List.map_cons, List.count_cons] at hc
    have key : ∀ x ∈ ns, x.key = .h u → 0 < (ns.map Node.key).count (.h u) := by
      intro x hx hxu
      rw [List.count_pos_iff, List.mem_map]
      exact ⟨x, hx, hxu⟩
    rcases List.mem_cons.mp ha with rfl | ha' <;> rcases List.mem_cons.mp hb with rfl | hb'
    · rfl
    · have := key b hb' hbu; simp [hau] at hc; omega
    · have := key a ha' hau; simp [hbu] at hc; omega
    · exact ih hns a ha' b hb' u hau hbu

def KeyLe (cs kids : List Node) : Prop :=
  ∀ k, (cs.map Node.key).count k ≤ (kids.map Node.key).count k
def LeafDet (cs kids : List Node) : Prop :=
  ∀ a ∈ cs, ∀ b ∈ kids, a.key = b.key → a.leaves = b.leaves

theorem eraseKey_leaves_gen (c : Node) : (kids : List Node) → (∃ b ∈ kids, b.key = c.key) →
    (∀ b ∈ kids, b.key = c.key → b.leaves = c.leaves) →
    (Node.leavesL (eraseKey c.key kids) ++ c.leaves).Perm (Node.leavesL kids)
  | [], hex, _ => by obtain ⟨b, hb, _⟩ := hex; cases hb
  | n :: ns, hex, hdet => by
    simp only [eraseKey]
    split
    · rename_i hk
      have hk' : n.key = c.key := by simpa using hk
      rw [← hdet n (List.mem_cons_self ..) hk']
      simp only [Node.leavesL]
      exact List.perm_append_comm
    · rename_i hk
      have hk' : n.key ≠ c.key := by simpa using hk
      simp only [Node.leavesL, List.append_assoc]
      apply List.Perm.append_left
      apply eraseKey_leaves_gen c ns
      · obtain ⟨b, hb, hbk⟩ := hex
        rcases List.mem_cons.mp hb with rfl | hb'
        · exact absurd hbk hk'
        · exact ⟨b, hb', hbk⟩
      · intro b hb; exact hdet b (List.mem_cons_of_mem _ hb)

theorem leafDet_of_hkn {cs kids : List Node} (hnd : HogKeysNodup kids) (hsub : ∀ a ∈ cs, a ∈ kids) :
    LeafDet cs kids := by
  intro a ha b hb hab
  cases hk : b.key with
  | g i => rw [key_g_leaves b i hk, key_g_leaves a i (hab.trans hk)]
  | h u => rw [eq_of_hkn kids hnd a (hsub a ha) b hb u (hab.trans hk) hk]

theorem eraseKey_leaves_perm (c : Node) (kids : List Node) (hc : c ∈ kids) (hnd : HogKeysNodup kids) :
    (Node.leavesL (eraseKey c.key kids) ++ c.leaves).Perm (Node.leavesL kids) := by
  apply eraseKey_leaves_gen c kids ⟨c, hc, rfl⟩
  intro b hb hbk
  exact (leafDet_of_hkn (cs := [c]) hnd (by simpa using hc) c (by simp) b hb hbk.symm).symm

theorem exists_of_keyLe {c : Node} {cs kids : List Node} (h : KeyLe (c :: cs) kids) :
    ∃ b ∈ kids, b.key = c.key := by
  have := h c.key
  simp only [List.map_cons, List.count_cons, beq_self_eq_true, if_true] at this
  have hp : 0 < (kids.map Node.key).count c.key := by omega
  rw [List.count_pos_iff, List.mem_map] at hp
  exact hp

theorem keyLe_filter (p : Node → Bool) (kids : List Node) : KeyLe (kids.filter p) kids :=
  fun k => (List.filter_sublist.map Node.key).count_le k

theorem keyLe_tail_erase {c : Node} {cs kids : List Node} (h : KeyLe (c :: cs) kids) :
    KeyLe cs (eraseKey c.key kids) := by
  intro k
  have := h k
  simp only [List.map_cons, List.count_cons, eraseKey_map_key, List.count_erase] at this ⊢
  by_cases he : (c.key == k) = true <;> simp only [he, ↓reduceIte] at this ⊢ <;> omega

theorem keyLe_append_right {cs kids : List Node} (x : List Node) (h : KeyLe cs kids) :
    KeyLe cs (kids ++ x) := by
  intro k
  have := h k
  simp only [List.map_append, List.count_append]
  omega

theorem leafDet_tail_erase {c : Node} {cs kids : List Node} (h : LeafDet (c :: cs) kids) :
    LeafDet cs (eraseKey c.key kids) :=
  fun a ha b hb hab => h a (List.mem_cons_of_mem _ ha) b (mem_of_mem_eraseKey hb) hab

theorem uidsBelow_of_keyLe {N : Nat} {cs kids : List Node} (h : KeyLe cs kids) (hb : UidsBelow N kids) :
    UidsBelow N cs := by
  intro a ha u hu
  have := h a.key
  have hp : 0 < (cs.map Node.key).count a.key := by
    rw [List.count_pos_iff, List.mem_map]; exact ⟨a, ha, rfl⟩
  have hp2 : 0 < (kids.map Node.key).count a.key := by omega
  rw [List.count_pos_iff, List.mem_map] at hp2
  obtain ⟨b, hbm, hbk⟩ := hp2
  exact hb b hbm u (hbk.trans hu)

/-- one round of "remove the child by identity, append the top of its chain" -/
theorem step_inv {N N' : Nat} {c top' : Node} {cs kids : List Node}
    (ha : KeyLe (c :: cs) kids) (hb : HogKeysNodup kids) (hc : UidsBelow N kids)
    (hd : LeafDet (c :: cs) kids) (hNN : N ≤ N') (hl : top'.leaves = c.leaves)
    (hk : top'.key = c.key ∨ ∃ u, top'.key = .h u ∧ N ≤ u ∧ u < N') :
    KeyLe cs (eraseKey c.key kids ++ [top']) ∧ HogKeysNodup (eraseKey c.key kids ++ [top']) ∧
      UidsBelow N' (eraseKey c.key kids ++ [top']) ∧ LeafDet cs (eraseKey c.key kids ++ [top']) ∧
      (Node.leavesL (eraseKey c.key kids ++ [top'])).Perm (Node.leavesL kids) := by
  obtain ⟨b0, hb0, hb0k⟩ := exists_of_keyLe ha
  have hccs : UidsBelow N (c :: cs) := uidsBelow_of_keyLe ha hc
  refine ⟨keyLe_append_right _ (keyLe_tail_erase ha), ?_, ?_, ?_, ?_⟩
  · rw [hkn_iff] at hb ⊢
    intro u
    have h1 := hb u
    have h2 := ha c.key
    simp only [List.map_cons, List.count_cons, beq_self_eq_true, if_true] at h2
    simp only [List.map_append, List.map_cons, List.map_nil, eraseKey_map_key, List.count_append,
      List.count_erase, List.count_singleton]
    rcases hk with hk | ⟨u0, hk, hu1, hu2⟩
    · rw [hk]
      split
      · rename_i he
        have : c.key = .h u := by simpa using he
        rw [this] at h2; omega
      · omega
    · rw [hk]
      by_cases hu : u0 = u
      · subst hu
        have : (kids.map Node.key).count (.h u0) = 0 := by
          rw [List.count_eq_zero, List.mem_map]
          rintro ⟨x, hx, hxk⟩
          have := hc x hx u0 hxk
          omega
        simp [this]
      · have : ((Key.h u0 == Key.h u) = true) = False := by simp [hu]
        simp only [this, if_false]; omega
  · intro x hx u hu
    rcases List.mem_append.mp hx with hx | hx
    · have := hc x (mem_of_mem_eraseKey hx) u hu; omega
    · have hx' : x = top' := by simpa using hx
      subst hx'
      rcases hk with hk | ⟨u0, hk, hu1, hu2⟩
      · have := hc b0 hb0 u (hb0k.trans (hk.symm.trans hu)); omega
      · rw [hk] at hu; cases hu; exact hu2
  · intro a ha' b hb' hab
    rcases List.mem_append.mp hb' with hb' | hb'
    · exact hd a (List.mem_cons_of_mem _ ha') b (mem_of_mem_eraseKey hb') hab
    · have hx' : b = top' := by simpa using hb'
      subst hx'
      rcases hk with hk | ⟨u0, hk, hu1, hu2⟩
      · rw [hl, hd a (List.mem_cons_of_mem _ ha') b0 hb0 (hab.trans (hk.trans hb0k.symm)),
          hd c (List.mem_cons_self ..) b0 hb0 hb0k.symm]
      · have := hccs a (List.mem_cons_of_mem _ ha') u0 (hab.trans hk); omega
  · rw [leavesL_append]
    simp only [Node.leavesL, List.append_nil, hl]
    apply eraseKey_leaves_gen c kids ⟨b0, hb0, hb0k⟩
    intro b hb' hbk
    exact (hd c (List.mem_cons_self ..) b hb' hbk.symm).symm

theorem genericPass_spec (hid : Option String) (level : Taxon) : (cs kids : List Node) → (ps : PS) →
    (kids' : List Node) → (ps' : PS) → genericPass hid level cs kids ps = .ok (kids', ps') →
    KeyLe cs kids → HogKeysNodup kids → UidsBelow ps.next kids → LeafDet cs kids →
    (Node.leavesL kids').Perm (Node.leavesL kids) ∧ HogKeysNodup kids' ∧ UidsBelow ps'.next kids' ∧
      ps.next ≤ ps'.next
  | [], kids, ps, kids', ps', h, _, hb, hc, _ => by
    simp [genericPass] at h
    obtain ⟨rfl, rfl⟩ := h
    exact ⟨List.Perm.refl _, hb, hc, Nat.le_refl _⟩
  | c :: cs, kids, ps, kids', ps', h, ha, hb, hc, hd => by
    simp only [genericPass, bind, Except.bind] at h
    split at h
    · cases h
    · rename_i r hr
      obtain ⟨top, ps1⟩ := r
      obtain ⟨h1, h2, h3⟩ := addMissing_spec _ _ _ _ _ _ hr
      obtain ⟨i1, i2, i3, i4, i5⟩ := step_inv ha hb hc hd h2 h1 h3
      obtain ⟨j1, j2, j3, j4⟩ := genericPass_spec hid level cs _ ps1 kids' ps' h i1 i2 i3 i4
      exact ⟨j1.trans i5, j2, j3, by omega⟩

theorem rehomeDirect_spec (hid : Option String) (level : Taxon) (d : Nat) : (cs kids : List Node) →
    (mem : List Key) → (ps : PS) → (kids' : List Node) → (mem' : List Key) → (ps' : PS) →
    rehomeDirect hid level d cs kids mem ps = .ok (kids', mem', ps') →
    KeyLe cs kids → HogKeysNodup kids → UidsBelow ps.next kids → LeafDet cs kids →
    (Node.leavesL kids').Perm (Node.leavesL kids) ∧ HogKeysNodup kids' ∧ UidsBelow ps'.next kids' ∧
      ps.next ≤ ps'.next
  | [], kids, mem, ps, kids', mem', ps', h, _, hb, hc, _ => by
    simp [rehomeDirect] at h
    obtain ⟨rfl, _, rfl⟩ := h
    exact ⟨List.Perm.refl _, hb, hc, Nat.le_refl _⟩
  | c :: cs, kids, mem, ps, kids', mem', ps', h, ha, hb, hc, hd => by
    simp only [rehomeDirect, bind, Except.bind] at h
    split at h
    · cases h
    · rename_i r hr
      obtain ⟨top, ps1⟩ := r
      simp only at h
      split at h
      · cases h
      · obtain ⟨h1, h2, h3⟩ := addMissing_spec _ _ _ _ _ _ hr
        rw [setDup_leaves] at h1
        rw [setDup_key] at h3
        obtain ⟨i1, i2, i3, i4, i5⟩ := step_inv (top' := top.setDup (some d)) ha hb hc hd h2
          (by rw [setDup_leaves, h1]) (by rw [setDup_key]; exact h3)
        obtain ⟨j1, j2, j3, j4⟩ := rehomeDirect_spec hid level d cs _ _ ps1 kids' mem' ps' h i1 i2 i3 i4
        exact ⟨j1.trans i5, j2, j3, by omega⟩

theorem rehomeUnder_spec (hid : Option String) (mrcaTx : Taxon) : (cs kids mk : List Node) → (ps : PS) →
    (kids' mk' : List Node) → (ps' : PS) →
    rehomeUnder hid mrcaTx cs kids mk ps = .ok (kids', mk', ps') →
    KeyLe cs kids → LeafDet cs kids →
    (Node.leavesL kids' ++ Node.leavesL mk').Perm (Node.leavesL kids ++ Node.leavesL mk) ∧
      kids'.Sublist kids ∧ ps.next ≤ ps'.next
  | [], kids, mk, ps, kids', mk', ps', h, _, _ => by
    simp [rehomeUnder] at h
    obtain ⟨rfl, rfl, rfl⟩ := h
    exact ⟨List.Perm.refl _, List.Sublist.refl _, Nat.le_refl _⟩
  | c :: cs, kids, mk, ps, kids', mk', ps', h, ha, hd => by
    simp only [rehomeUnder, bind, Except.bind] at h
    split at h
    · cases h
    · rename_i r hr
      obtain ⟨top, ps1⟩ := r
      simp only at h
      obtain ⟨h1, h2, _⟩ := addMissing_spec _ _ _ _ _ _ hr
      rw [setDup_leaves] at h1
      obtain ⟨j1, j2, j3⟩ := rehomeUnder_spec hid mrcaTx cs _ _ ps1 kids' mk' ps' h
        (keyLe_tail_erase ha) (leafDet_tail_erase hd)
      refine ⟨j1.trans ?_, j2.trans (eraseKey_sublist _ _), by omega⟩
      obtain ⟨b0, hb0, hb0k⟩ := exists_of_keyLe ha
      have hp := eraseKey_leaves_gen c kids ⟨b0, hb0, hb0k⟩
        (fun b hb' hbk => (hd c (List.mem_cons_self ..) b hb' hbk.symm).symm)
      rw [leavesL_append]
      simp only [Node.leavesL, List.append_nil, h1]
      -- E ++ (M ++ C) ~ K ++ M
      refine List.Perm.trans ?_ (hp.append_right (Node.leavesL mk))
      simp only [List.append_assoc]
      exact List.Perm.append_left _ List.perm_append_comm

theorem uidsBelow_append {N : Nat} {a b : List Node} :
    UidsBelow N (a ++ b) ↔ UidsBelow N a ∧ UidsBelow N b := by
  constructor
  · intro h
    exact ⟨fun k hk => h k (List.mem_append_left _ hk), fun k hk => h k (List.mem_append_right _ hk)⟩
  · rintro ⟨h1, h2⟩ k hk
    rcases List.mem_append.mp hk with hk | hk
    · exact h1 k hk
    · exact h2 k hk

/-- identities handed out before `N` and identities handed out from `N` on never clash -/
theorem hkn_append {a b : List Node} (N : Nat) (ha : HogKeysNodup a) (hb : HogKeysNodup b)
    (hlo : UidsBelow N a) (hhi : ∀ k ∈ b, ∀ u, k.key = .h u → N ≤ u) : HogKeysNodup (a ++ b) := by
  rw [hkn_iff] at *
  intro u
  have h1 := ha u
  have h2 := hb u
  simp only [List.map_append, List.count_append]
  by_cases hu : u < N
  · have : (b.map Node.key).count (.h u) = 0 := by
      rw [List.count_eq_zero, List.mem_map]
      rintro ⟨x, hx, hxk⟩
      have := hhi x hx u hxk
      omega
    omega
  · have : (a.map Node.key).count (.h u) = 0 := by
      rw [List.count_eq_zero, List.mem_map]
      rintro ⟨x, hx, hxk⟩
      have := hlo x hx u hxk
      omega
    omega

theorem hkn_singleton (x : Node) : HogKeysNodup [x] := by
  rw [hkn_iff]
  intro u
  simp only [List.map_cons, List.map_nil, List.count_singleton]
  split <;> omega

theorem leafDet_filter {kids : List Node} (p : Node → Bool) (hnd : HogKeysNodup kids) :
    LeafDet (kids.filter p) kids :=
  leafDet_of_hkn hnd (fun _ ha => (List.mem_filter.mp ha).1)

theorem modDup_next (ps : PS) (d : Nat) (f : DupBuild → DupBuild) : (ps.modDup d f).next = ps.next := rfl

theorem register_next (ps : PS) (t : Taxon) (k : Key) : (ps.register t k).next = ps.next := rfl

theorem dupStep_spec (hid : Option String) (level : Taxon) (st : CloseSt) (d : Nat) (st' : CloseSt)
    (h : dupStep hid level st d = .ok st') (hb : HogKeysNodup st.kids)
    (hc : UidsBelow st.ps.next st.kids) :
    (Node.leavesL st'.kids).Perm (Node.leavesL st.kids) ∧ HogKeysNodup st'.kids ∧
      UidsBelow st'.ps.next st'.kids ∧ st.ps.next ≤ st'.ps.next := by
  simp only [dupStep, bind, Except.bind] at h
  split at h
  · rename_i b hgd
    split at h
    · rename_i mrcaTx hm
      split at h
      · cases h
      · split at h
        · split at h
          · cases h
          · rename_i v hr
            obtain ⟨k1, m1, p1⟩ := v
            simp only [Except.ok.injEq] at h
            subst h
            obtain ⟨j1, j2, j3⟩ := rehomeUnder_spec _ _ _ _ _ _ _ _ _ hr (keyLe_filter _ _)
              (leafDet_filter _ hb)
            simp only [register_next] at j3
            simp only [modDup_next]
            refine ⟨?_, ?_, ?_, by omega⟩
            · rw [leavesL_append]
              simpa [Node.leavesL, Node.leaves, leavesL_map_setDup] using j1
            · apply hkn_append st.ps.next (hb.sublist j2) (hkn_singleton _) (hc.sublist j2)
              intro k hk u hu
              rw [List.mem_singleton] at hk
              subst hk
              simp [Node.key, chainInfo] at hu
              omega
            · rw [uidsBelow_append]
              refine ⟨((hc.sublist j2).mono (by omega)), ?_⟩
              intro k hk u hu
              rw [List.mem_singleton] at hk
              subst hk
              simp [Node.key, chainInfo] at hu
              omega
        · split at h
          · cases h
          · rename_i v hr
            obtain ⟨k1, m1, p1⟩ := v
            simp only [Except.ok.injEq] at h
            subst h
            have := rehomeDirect_spec _ _ _ _ _ _ _ _ _ _ hr (keyLe_filter _ _) hb hc (leafDet_filter _ hb)
            exact this
    · cases h
  · cases h

theorem dupSteps_spec (hid : Option String) (level : Taxon) : (ds : List Nat) → (st st' : CloseSt) →
    dupSteps hid level ds st = .ok st' → HogKeysNodup st.kids → UidsBelow st.ps.next st.kids →
    (Node.leavesL st'.kids).Perm (Node.leavesL st.kids) ∧ HogKeysNodup st'.kids ∧
      UidsBelow st'.ps.next st'.kids ∧ st.ps.next ≤ st'.ps.next
  | [], st, st', h, hb, hc => by
    simp [dupSteps] at h
    subst h
    exact ⟨List.Perm.refl _, hb, hc, Nat.le_refl _⟩
  | d :: ds, st, st', h, hb, hc => by
    simp only [dupSteps, bind, Except.bind] at h
    split at h
    · cases h
    · rename_i st1 h1
      obtain ⟨i1, i2, i3, i4⟩ := dupStep_spec hid level st d st1 h1 hb hc
      obtain ⟨j1, j2, j3, j4⟩ := dupSteps_spec hid level ds st1 st' h i2 i3
      exact ⟨j1.trans i1, j2, j3, by omega⟩

theorem map_setDup_keys (d : Option Nat) (l : List Node) :
    (l.map (Node.setDup d)).map Node.key = l.map Node.key := by
  simp [List.map_map, Function.comp_def, setDup_key]

theorem hkn_map_setDup {d : Option Nat} {l : List Node} (h : HogKeysNodup l) :
    HogKeysNodup (l.map (Node.setDup d)) := by
  rw [hkn_iff] at *
  rw [map_setDup_keys]; exact h

theorem uidsBelow_map_setDup {N : Nat} {d : Option Nat} {l : List Node} (h : UidsBelow N l) :
    UidsBelow N (l.map (Node.setDup d)) := by
  intro k hk u hu
  obtain ⟨x, hx, rfl⟩ := List.mem_map.mp hk
  rw [setDup_key] at hu
  exact h x hx u hu

/-- closing an orthologGroup hands exactly the genes of its members to the enclosing element -/
theorem closeOg_full (env : Env) (top : Bool) (hb : HogBuild) (ps : PS) (res : List Node) (ps' : PS)
    (h : closeOg env top hb ps = .ok (res, ps'))
    (hnd : HogKeysNodup hb.kids) (hfresh : UidsBelow ps.next hb.kids) (huid : hb.info.uid < ps.next) :
    (Node.leavesL res).Perm (Node.leavesL hb.kids) ∧ HogKeysNodup res ∧ UidsBelow ps'.next res ∧
      ps.next ≤ ps'.next ∧
      (∀ m, m ≤ hb.info.uid → (∀ k ∈ hb.kids, ∀ u, k.key = Key.h u → m ≤ u) →
        ∀ k ∈ res, ∀ u, k.key = Key.h u → m ≤ u) ∧
      (top = true → ∃ x, res = [x]) := by
  simp only [closeOg, bind, Except.bind] at h
  split at h
  · cases h
  · rename_i lv hlv
    split at h
    · -- collapse
      split at h
      · cases h
      · rename_i hnt
        split at h
        · simp only [Except.ok.injEq, Prod.mk.injEq] at h
          obtain ⟨rfl, rfl⟩ := h
          exact ⟨List.Perm.refl _, hnd, hfresh, Nat.le_refl _, fun _ _ hk => hk, fun ht => absurd ht hnt⟩
        · rename_i d hd
          split at h
          · split at h
            · cases h
            · split at h
              · cases h
              · simp only [Except.ok.injEq, Prod.mk.injEq] at h
                obtain ⟨rfl, rfl⟩ := h
                simp only [modDup_next]
                refine ⟨by rw [leavesL_map_setDup], hkn_map_setDup hnd, uidsBelow_map_setDup hfresh,
                  Nat.le_refl _, ?_, fun ht => absurd ht hnt⟩
                intro m _ hk k hkm u hu
                obtain ⟨x, hx, rfl⟩ := List.mem_map.mp hkm
                rw [setDup_key] at hu
                exact hk x hx u hu
          · cases h
    · -- a level
      rename_i lv0
      split at h
      · cases h
      · rename_i level hl
        split at h
        · cases h
        · rename_i st hst
          split at h
          · cases h
          · rename_i v hg
            obtain ⟨kids, ps2⟩ := v
            simp only [Except.ok.injEq, Prod.mk.injEq] at h
            obtain ⟨rfl, rfl⟩ := h
            obtain ⟨i1, i2, i3, i4⟩ := dupSteps_spec _ _ _ _ _ hst hnd (by simpa [register_next] using hfresh)
            simp only [register_next] at i4
            obtain ⟨j1, _, _, j4⟩ := genericPass_spec _ _ _ _ _ _ _ hg (keyLe_filter _ _) i2 i3
              (leafDet_filter _ i2)
            refine ⟨?_, hkn_singleton _, ?_, by omega, ?_, fun _ => ⟨_, rfl⟩⟩
            · simpa [Node.leavesL, Node.leaves] using j1.trans i1
            · intro k hk u hu
              rw [List.mem_singleton] at hk
              subst hk
              simp [Node.key] at hu
              omega
            · intro m hm _ k hk u hu
              rw [List.mem_singleton] at hk
              subst hk
              simp [Node.key] at hu
              omega

/-- closing an orthologGroup hands exactly the genes of its members to the enclosing element -/
theorem closeOg_leaves (env : Env) (top : Bool) (hb : HogBuild) (ps : PS) (res : List Node) (ps' : PS)
    (h : closeOg env top hb ps = .ok (res, ps'))
    (hnd : HogKeysNodup hb.kids) (hfresh : UidsBelow ps.next hb.kids) (huid : hb.info.uid < ps.next) :
    (Node.leavesL res).Perm (Node.leavesL hb.kids) ∧ HogKeysNodup res ∧ UidsBelow ps'.next res ∧
      ps.next ≤ ps'.next := by
  obtain ⟨h1, h2, h3, h4, _⟩ := closeOg_full env top hb ps res ps' h hnd hfresh huid
  exact ⟨h1, h2, h3, h4⟩

/-- the invariant threaded through the parse of one open group.
    (Strengthened w.r.t. the first draft: the members of an open group were all created after the
    group itself, which is what keeps identities distinct when a collapsing group hands its
    members to the enclosing one.) -/
def LInv (hb : HogBuild) (ps : PS) : Prop :=
  HogKeysNodup hb.kids ∧ UidsBelow ps.next hb.kids ∧ hb.info.uid < ps.next ∧
    ∀ k ∈ hb.kids, ∀ u, k.key = Key.h u → hb.info.uid < u

theorem linv_mono {hb : HogBuild} {ps ps' : PS} (inv : LInv hb ps) (h : ps.next ≤ ps'.next) :
    LInv hb ps' :=
  ⟨inv.1, inv.2.1.mono h, by have := inv.2.2.1; omega, inv.2.2.2⟩

theorem linv_append {hb hb' : HogBuild} {ps ps' : PS} {res : List Node} (inv : LInv hb ps)
    (hk : hb'.kids = hb.kids ++ res) (hi : hb'.info.uid = hb.info.uid) (h1 : HogKeysNodup res)
    (h2 : UidsBelow ps'.next res) (h3 : ps.next ≤ ps'.next)
    (h4 : ∀ k ∈ res, ∀ u, k.key = Key.h u → ps.next ≤ u) : LInv hb' ps' := by
  obtain ⟨i1, i2, i3, i4⟩ := inv
  refine ⟨?_, ?_, by omega, ?_⟩
  · rw [hk]; exact hkn_append ps.next i1 h1 i2 h4
  · rw [hk, uidsBelow_append]; exact ⟨i2.mono h3, h2⟩
  · rw [hk, hi]
    intro k hkm u hu
    rcases List.mem_append.mp hkm with hkm | hkm
    · exact i4 k hkm u hu
    · have := h4 k hkm u hu; omega

theorem newDup_next (ps : PS) (pgid : Option String) : (newDup ps pgid).2.next = ps.next + 1 := rfl

theorem pgOpen_next (len : Nat) (pgid : Option String) (ps : PS) : ps.next ≤ (pgOpen len pgid ps).next := by
  simp only [pgOpen]
  split
  · split
    · exact Nat.le_refl _
    · rw [newDup_next]; omega
  · rw [newDup_next]; omega

theorem setMRCA_next (kids : List Node) (ps : PS) (d : Nat) (ps' : PS) (h : setMRCA kids ps d = .ok ps') :
    ps'.next = ps.next := by
  simp only [setMRCA] at h
  repeat' split at h
  all_goals cases h
  all_goals rfl

theorem pgClose_next (kids : List Node) (ps ps' : PS) (h : pgClose kids ps = .ok ps') :
    ps'.next = ps.next := by
  simp only [pgClose, bind, Except.bind] at h
  split at h
  · cases h
  · split at h
    · split at h
      · cases h
      · split at h
        · cases h
        · rename_i v hv
          have := setMRCA_next _ _ _ _ hv
          split at h <;> (simp only [Except.ok.injEq] at h; subst h; exact this)
    · cases h

theorem linv_new (uid : Nat) (hid og : Option String) (dup : Option Nat) (ps : PS) (h : uid < ps.next) :
    LInv { info := newInfo uid hid og, dup := dup, kids := [] } ps := by
  refine ⟨?_, ?_, h, ?_⟩
  · simp [HogKeysNodup]
  · intro k hk; cases hk
  · intro k hk; cases hk

theorem elem_aux (env : Env) : (e : Elem) → (len : Nat) → (hb : HogBuild) → (ps : PS) →
    (hb' : HogBuild) → (ps' : PS) → elem env len e hb ps = .ok (hb', ps') → LInv hb ps →
    (Node.leavesL hb'.kids).Perm (Node.leavesL hb.kids ++ refsOf e) ∧ LInv hb' ps' ∧ ps.next ≤ ps'.next ∧
      hb'.info.uid = hb.info.uid
  | .ref id loft, len, hb, ps, hb', ps', h, inv => by
    simp only [elem] at h
    split at h
    · cases h
    · rename_i t ht
      simp only [Except.ok.injEq, Prod.mk.injEq] at h
      obtain ⟨rfl, h2⟩ := h
      have hn : ps'.next = ps.next := by rw [← h2]; split <;> rfl
      refine ⟨?_, ?_, by omega, rfl⟩
      · rw [leavesL_append]
        simp [Node.leavesL, Node.leaves, refsOf]
      · refine linv_append inv rfl rfl (hkn_singleton _) ?_ (by omega) ?_
        · intro k hk u hu
          rw [List.mem_singleton] at hk; subst hk
          simp [Node.key] at hu
        · intro k hk u hu
          rw [List.mem_singleton] at hk; subst hk
          simp [Node.key] at hu
  | .score id v, len, hb, ps, hb', ps', h, inv => by
    simp only [elem, Except.ok.injEq, Prod.mk.injEq] at h
    obtain ⟨rfl, rfl⟩ := h
    exact ⟨by simp [refsOf], inv, Nat.le_refl _, rfl⟩
  | .prop n v, len, hb, ps, hb', ps', h, inv => by
    simp only [elem, Except.ok.injEq, Prod.mk.injEq] at h
    obtain ⟨rfl, rfl⟩ := h
    exact ⟨by simp [refsOf], inv, Nat.le_refl _, rfl⟩
  | .pg pgid its, len, hb, ps, hb', ps', h, inv => by
    simp only [elem, bind, Except.bind] at h
    split at h
    · cases h
    · rename_i v hv
      obtain ⟨hb1, ps2⟩ := v
      split at h
      · cases h
      · rename_i ps3 hc
        simp only [Except.ok.injEq, Prod.mk.injEq] at h
        obtain ⟨rfl, rfl⟩ := h
        have h0 := pgOpen_next len pgid ps
        obtain ⟨i1, i2, i3, i4⟩ := elems_aux env its len hb _ hb1 ps2 hv (linv_mono inv h0)
        have h3 := pgClose_next _ _ _ hc
        simp only at h3
        exact ⟨by simpa [refsOf] using i1, linv_mono i2 (by omega), by omega, i4⟩
  | .og hid og its, len, hb, ps, hb', ps', h, inv => by
    simp only [elem, bind, Except.bind] at h
    split at h
    · cases h
    · rename_i v hv
      obtain ⟨nb, ps2⟩ := v
      split at h
      · cases h
      · rename_i w hw
        obtain ⟨res, ps3⟩ := w
        simp only [Except.ok.injEq, Prod.mk.injEq] at h
        obtain ⟨rfl, rfl⟩ := h
        obtain ⟨i1, i2, i3, i4⟩ := elems_aux env its (len + 1) _ _ nb ps2 hv
          (linv_new ps.next hid og _ _ (by split <;> exact Nat.lt_succ_self _))
        have i3' : ps.next + 1 ≤ ps2.next := by revert i3; split <;> exact id
        have i4' : nb.info.uid = ps.next := i4
        obtain ⟨j1, j2, j3, j4⟩ := i2
        obtain ⟨c1, c2, c3, c4, c5, _⟩ := closeOg_full env false nb ps2 res ps3 hw j1 j2 j3
        refine ⟨?_, ?_, by omega, rfl⟩
        · rw [leavesL_append]
          apply List.Perm.append_left
          simpa [refsOf, Node.leavesL] using c1.trans i1
        · refine linv_append inv rfl rfl c2 c3 (by omega) ?_
          apply c5 ps.next (by omega)
          intro k hk u hu
          have := j4 k hk u hu
          omega
where
  elems_aux (env : Env) : (es : List Elem) → (len : Nat) → (hb : HogBuild) → (ps : PS) →
      (hb' : HogBuild) → (ps' : PS) → elems env len es hb ps = .ok (hb', ps') → LInv hb ps →
      (Node.leavesL hb'.kids).Perm (Node.leavesL hb.kids ++ refsOfL es) ∧ LInv hb' ps' ∧
        ps.next ≤ ps'.next ∧ hb'.info.uid = hb.info.uid
    | [], len, hb, ps, hb', ps', h, inv => by
      simp only [elems, Except.ok.injEq, Prod.mk.injEq] at h
      obtain ⟨rfl, rfl⟩ := h
      exact ⟨by simp [refsOfL], inv, Nat.le_refl _, rfl⟩
    | e :: es, len, hb, ps, hb', ps', h, inv => by
      simp only [elems, bind, Except.bind] at h
      split at h
      · cases h
      · rename_i v hv
        obtain ⟨hb1, ps1⟩ := v
        obtain ⟨i1, i2, i3, i4⟩ := elem_aux env e len hb ps hb1 ps1 hv inv
        obtain ⟨j1, j2, j3, j4⟩ := elems_aux env es len hb1 ps1 hb' ps' h i2
        refine ⟨?_, j2, by omega, j4.trans i4⟩
        refine j1.trans ?_
        simp only [refsOfL, ← List.append_assoc]
        exact i1.append_right _

/-- processing an element adds exactly the genes it references -/
theorem elem_leaves (env : Env) (len : Nat) (e : Elem) (hb : HogBuild) (ps : PS) (hb' : HogBuild) (ps' : PS)
    (h : elem env len e hb ps = .ok (hb', ps')) (inv : LInv hb ps) :
    (Node.leavesL hb'.kids).Perm (Node.leavesL hb.kids ++ refsOf e) ∧ LInv hb' ps' ∧ ps.next ≤ ps'.next ∧
      hb'.info.uid = hb.info.uid :=
  elem_aux env e len hb ps hb' ps' h inv

theorem elems_leaves (env : Env) (len : Nat) (es : List Elem) (hb : HogBuild) (ps : PS) (hb' : HogBuild) (ps' : PS)
    (h : elems env len es hb ps = .ok (hb', ps')) (inv : LInv hb ps) :
    (Node.leavesL hb'.kids).Perm (Node.leavesL hb.kids ++ refsOfL es) ∧ LInv hb' ps' ∧ ps.next ≤ ps'.next ∧
      hb'.info.uid = hb.info.uid :=
  elem_aux.elems_aux env es len hb ps hb' ps' h inv

/-- one orthologGroup at the top of <groups>: the family appended holds the referenced genes -/
theorem topOg_spec (env : Env) (hid og : Option String) (its : List Elem) (tops : List Node) (ps : PS)
    (tops' : List Node) (ps' : PS)
    (h : topElem env none (.og hid og its) tops ps = .ok (tops', ps')) :
    ∃ x, tops' = tops ++ [x] ∧ x.leaves.Perm (refsOfL its) ∧
      (∀ u, x.key = Key.h u → ps.next ≤ u ∧ u < ps'.next) ∧ ps.next ≤ ps'.next := by
  simp only [topElem, bind, Except.bind, pure, Except.pure] at h
  split at h
  · rename_i hc; simp at hc
  · split at h
    · cases h
    · rename_i v hv
      obtain ⟨nb, ps2⟩ := v
      split at h
      · cases h
      · rename_i w hw
        obtain ⟨res, ps3⟩ := w
        simp only [Except.ok.injEq, Prod.mk.injEq] at h
        obtain ⟨rfl, rfl⟩ := h
        obtain ⟨i1, i2, i3, i4⟩ := elems_leaves env 1 its _ _ nb ps2 hv
          (linv_new ps.next hid og _ _ (by split <;> exact Nat.lt_succ_self _))
        have i3' : ps.next + 1 ≤ ps2.next := by revert i3; split <;> exact id
        have i4' : nb.info.uid = ps.next := i4
        obtain ⟨j1, j2, j3, j4⟩ := i2
        obtain ⟨c1, c2, c3, c4, c5, c6⟩ := closeOg_full env true nb ps2 res ps3 hw j1 j2 j3
        obtain ⟨x, rfl⟩ := c6 rfl
        refine ⟨x, rfl, ?_, ?_, by omega⟩
        · simpa [Node.leavesL] using c1.trans i1
        · intro u hu
          refine ⟨?_, c3 x (List.mem_singleton.mpr rfl) u hu⟩
          apply c5 ps.next (by omega) _ x (List.mem_singleton.mpr rfl) u hu
          intro k hk u hu
          have := j4 k hk u hu
          omega

theorem topElem_aux (env : Env) : (e : Elem) → (tops : List Node) → (ps : PS) → (tops' : List Node) →
    (ps' : PS) → topElem env none e tops ps = .ok (tops', ps') → HogKeysNodup tops →
    UidsBelow ps.next tops →
    (Node.leavesL tops').Perm (Node.leavesL tops ++ refsOf e) ∧ HogKeysNodup tops' ∧
      UidsBelow ps'.next tops' ∧ ps.next ≤ ps'.next
  | .ref id loft, tops, ps, tops', ps', h, _, _ => by
    simp only [topElem] at h
    split at h <;> cases h
  | .score id v, tops, ps, tops', ps', h, _, _ => by simp [topElem] at h
  | .prop n v, tops, ps, tops', ps', h, _, _ => by simp [topElem] at h
  | .pg pgid its, tops, ps, tops', ps', h, hnd, hfresh => by
    simp only [topElem, bind, Except.bind] at h
    split at h
    · cases h
    · rename_i v hv
      obtain ⟨tops1, ps2⟩ := v
      split at h
      · cases h
      · rename_i ps3 hc
        simp only [Except.ok.injEq, Prod.mk.injEq] at h
        obtain ⟨rfl, rfl⟩ := h
        have h0 := pgOpen_next 0 pgid ps
        obtain ⟨i1, i2, i3, i4⟩ := topElems_aux env its tops _ tops1 ps2 hv hnd (hfresh.mono h0)
        have h3 := pgClose_next _ _ _ hc
        simp only at h3
        exact ⟨by simpa [refsOf] using i1, i2, i3.mono (by omega), by omega⟩
  | .og hid og its, tops, ps, tops', ps', h, hnd, hfresh => by
    obtain ⟨x, rfl, h1, h2, h3⟩ := topOg_spec env hid og its tops ps tops' ps' h
    refine ⟨?_, ?_, ?_, by omega⟩
    · rw [leavesL_append]
      apply List.Perm.append_left
      simpa [refsOf, Node.leavesL] using h1
    · apply hkn_append ps.next hnd (hkn_singleton _) hfresh
      intro k hk u hu
      rw [List.mem_singleton] at hk; subst hk
      exact (h2 u hu).1
    · rw [uidsBelow_append]
      refine ⟨hfresh.mono (by omega), ?_⟩
      intro k hk u hu
      rw [List.mem_singleton] at hk; subst hk
      exact (h2 u hu).2
where
  topElems_aux (env : Env) : (es : List Elem) → (tops : List Node) → (ps : PS) → (tops' : List Node) →
      (ps' : PS) → topElems env none es tops ps = .ok (tops', ps') → HogKeysNodup tops →
      UidsBelow ps.next tops →
      (Node.leavesL tops').Perm (Node.leavesL tops ++ refsOfL es) ∧ HogKeysNodup tops' ∧
        UidsBelow ps'.next tops' ∧ ps.next ≤ ps'.next
    | [], tops, ps, tops', ps', h, hnd, hfresh => by
      simp only [topElems, Except.ok.injEq, Prod.mk.injEq] at h
      obtain ⟨rfl, rfl⟩ := h
      exact ⟨by simp [refsOfL], hnd, hfresh, Nat.le_refl _⟩
    | e :: es, tops, ps, tops', ps', h, hnd, hfresh => by
      simp only [topElems, bind, Except.bind] at h
      split at h
      · cases h
      · rename_i v hv
        obtain ⟨tops1, ps1⟩ := v
        obtain ⟨i1, i2, i3, i4⟩ := topElem_aux env e tops ps tops1 ps1 hv hnd hfresh
        obtain ⟨j1, j2, j3, j4⟩ := topElems_aux env es tops1 ps1 tops' ps' h i2 i3
        refine ⟨?_, j2, j3, by omega⟩
        refine j1.trans ?_
        simp only [refsOfL, ← List.append_assoc]
        exact i1.append_right _

/-- the same at the top of <groups> (unfiltered load): the families together hold exactly the
    referenced genes, each as often as it is referenced -/
theorem topElems_leaves (env : Env) (es : List Elem) (tops : List Node) (ps : PS) (tops' : List Node) (ps' : PS)
    (h : topElems env none es tops ps = .ok (tops', ps'))
    (hnd : HogKeysNodup tops) (hfresh : UidsBelow ps.next tops) :
    (Node.leavesL tops').Perm (Node.leavesL tops ++ refsOfL es) ∧ HogKeysNodup tops' ∧ UidsBelow ps'.next tops' ∧
      ps.next ≤ ps'.next :=
  topElem_aux.topElems_aux env es tops ps tops' ps' h hnd hfresh

def isOg : Elem → Bool
  | .og .. => true
  | _ => false

theorem topElems_fam_aux (env : Env) : (es : List Elem) → (tops : List Node) → (ps : PS) →
    (tops' : List Node) → (ps' : PS) → topElems env none es tops ps = .ok (tops', ps') →
    es.all isOg = true →
    ∃ new, tops' = tops ++ new ∧ new.length = es.length ∧
      ∀ i (h1 : i < new.length) (h2 : i < es.length), (new[i]).leaves.Perm (refsOf es[i])
  | [], tops, ps, tops', ps', h, _ => by
    simp only [topElems, Except.ok.injEq, Prod.mk.injEq] at h
    obtain ⟨rfl, rfl⟩ := h
    exact ⟨[], by simp, rfl, fun i h1 => by simp at h1⟩
  | e :: es, tops, ps, tops', ps', h, hog => by
    simp only [topElems, bind, Except.bind] at h
    split at h
    · cases h
    · rename_i v hv
      obtain ⟨tops1, ps1⟩ := v
      simp only [List.all_cons, Bool.and_eq_true] at hog
      obtain ⟨he, hes⟩ := hog
      cases e with
      | og hid og its =>
        obtain ⟨x, rfl, h1, _, _⟩ := topOg_spec env hid og its tops ps tops1 ps1 hv
        obtain ⟨new, rfl, hl, hi⟩ := topElems_fam_aux env es _ ps1 tops' ps' h hes
        refine ⟨x :: new, by simp, by simp [hl], ?_⟩
        intro i h1' h2'
        cases i with
        | zero => simpa [refsOf] using h1
        | succ i =>
          simp only [List.getElem_cons_succ]
          exact hi i (by simpa using h1') (by simpa using h2')
      | _ => simp [isOg] at he

/-- C01: when every top-level element is an orthologGroup, the i-th family holds exactly the genes
    referenced inside the i-th group -/
theorem topElems_families (env : Env) (es : List Elem) (ps : PS) (tops' : List Node) (ps' : PS)
    (h : topElems env none es [] ps = .ok (tops', ps')) (hog : es.all isOg = true) :
    tops'.length = es.length ∧
      ∀ i (h1 : i < tops'.length) (h2 : i < es.length), (tops'[i]).leaves.Perm (refsOf es[i]) := by
  obtain ⟨new, rfl, hl, hi⟩ := topElems_fam_aux env es [] ps tops' ps' h hog
  exact ⟨by simpa using hl, by simpa using hi⟩

end Pyham
