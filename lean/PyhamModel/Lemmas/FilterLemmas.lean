/-
  C11: a filtered load is the full load of the file projected onto the selected families.
-/
import PyhamModel.Model.Parser
namespace Pyham
set_option linter.unusedSimpArgs false

/-- the top-level element is an orthologGroup carrying an id -/
def isOgWithId : Elem → Bool
  | .og (some _) _ _ => true
  | _ => false

def topId : Elem → Option String
  | .og hid _ _ => hid
  | _ => none

/-- families kept by a list of top-level ids -/
def keepFamilies (ids : List String) (es : List Elem) : List Elem :=
  es.filter fun e => match topId e with | some i => ids.contains i | none => false

/-- the building pass in skip mode: a skipped family leaves no trace in the parser, so reading the
    whole group section with a filter is reading the kept families without one -/
theorem topElems_filter (env : Env) (ids : List String) (es : List Elem) (h : es.all isOgWithId = true)
    (tops : List Node) (ps : PS) :
    topElems env (some ids) es tops ps = topElems env none (keepFamilies ids es) tops ps := by
  induction es generalizing tops ps with
  | nil => simp [keepFamilies, topElems]
  | cons e es ih =>
    simp only [List.all_cons, Bool.and_eq_true] at h
    obtain ⟨he, hes⟩ := h
    match e, he with
    | .og (some i) og its, _ =>
      cases hc : ids.contains i with
      | false =>
        have hm : i ∉ ids := by simpa using hc
        have : keepFamilies ids (Elem.og (some i) og its :: es) = keepFamilies ids es := by
          simp [keepFamilies, topId, List.filter_cons, hm]
        rw [this, ← ih hes]
        simp [topElems, topElem, hm]
        rfl
      | true =>
        have hm : i ∈ ids := by simpa using hc
        have : keepFamilies ids (Elem.og (some i) og its :: es) = Elem.og (some i) og its :: keepFamilies ids es := by
          simp [keepFamilies, topId, List.filter_cons, hm]
        rw [this]
        simp only [topElems, topElem, hc, ih hes]

theorem declareSpecies_filter (T : STree) (nm : Naming) (keep : String → Bool) (sp : List Species)
    (acc : List GeneRec) :
    declareSpecies T nm keep sp acc = declareSpecies T nm (fun _ => true)
      (sp.map fun s => { s with genes := s.genes.filter fun g => keep g.id }) acc := by
  induction sp generalizing acc with
  | nil => rfl
  | cons s ss ih => simp [declareSpecies, ih]

theorem mapM_species_filter (T : STree) (nm : Naming) (keep : String → Bool) (sp : List Species) :
    (sp.map fun s => ({ s with genes := s.genes.filter fun g => keep g.id } : Species)).mapM
        (fun s => (resolveSpecies T nm s.name).map fun p => (s.name, p)) =
      sp.mapM (fun s => (resolveSpecies T nm s.name).map fun p => (s.name, p)) := by
  induction sp with
  | nil => rfl
  | cons s ss ih => simp [List.mapM_cons, ih]

/-- the projected file: only the genes kept by `keep`, only the families kept by `ids` -/
def projectInput (inp : Input) (keep : String → Bool) (ids : List String) : Input :=
  { species := inp.species.map fun s => { s with genes := s.genes.filter fun g => keep g.id },
    groups := keepFamilies ids inp.groups }

/-- **C11**: the filtered load of a file equals the unfiltered load of the projected file (so
    unselected families and their genes are absent from everything, and the position of a selected
    family among skipped ones cannot matter) -/
theorem C11_filtered_is_projection (T : STree) (nm : Naming) (inp : Input) (keep : String → Bool) (ids : List String)
    (h : inp.groups.all isOgWithId = true) :
    buildHam T nm inp keep (some ids) = buildHam T nm (projectInput inp keep ids) (fun _ => true) none := by
  simp only [buildHam, projectInput, declareSpecies_filter T nm keep inp.species, mapM_species_filter,
    topElems_filter _ ids inp.groups h]

@[simp] theorem topId_og (h o : Option String) (its : List Elem) : topId (.og h o its) = h := rfl
theorem refsOf_og (h o : Option String) (its : List Elem) : refsOf (.og h o its) = refsOfL its := by
  simp [refsOf]

theorem filterTops_cons_og (f : Filter) (i : String) (og : Option String) (its es : List Elem)
    (g h : List String) :
    filterTops f (.og (some i) og its :: es) (g, h) =
      filterTops f es (if (f.hogIds.contains i || (refsOfL its).any g.contains) = true
        then (g ++ refsOfL its, h ++ [i]) else (g, h)) := by
  simp only [filterTops, filterTop]; rfl

/-- the first pass cannot fail on a group section made of identified families -/
theorem filterTops_ok (f : Filter) (es : List Elem) (h : es.all isOgWithId = true) (g0 h0 : List String) :
    ∃ gids hids, filterTops f es (g0, h0) = .ok (gids, hids) ∧ True ∧ True := by
  induction es generalizing g0 h0 with
  | nil => exact ⟨g0, h0, by simp [filterTops]⟩
  | cons e es ih =>
    simp only [List.all_cons, Bool.and_eq_true] at h
    obtain ⟨he, hes⟩ := h
    match e, he with
    | .og (some i) og its, _ =>
      rw [filterTops_cons_og]
      split
      · exact ih hes _ _
      · exact ih hes _ _

/-- first pass: which families are selected.  When no gene is referenced by two families, a family is
    selected iff its id is named or it references a gene named by a gene selector -/
theorem filterTops_spec (f : Filter) (es : List Elem) (h : es.all isOgWithId = true)
    (hdis : (es.map refsOf).Pairwise (fun a b => ∀ r ∈ a, r ∉ b)) (g0 h0 : List String) :
    ∃ gids hids, filterTops f es (g0, h0) = .ok (gids, hids) ∧
      (∀ i, i ∈ hids ↔ i ∈ h0 ∨ ∃ e ∈ es, topId e = some i ∧
          (f.hogIds.contains i = true ∨ ∃ r ∈ refsOf e, r ∈ g0)) ∧
      (∀ r, r ∈ gids ↔ r ∈ g0 ∨ ∃ e ∈ es, r ∈ refsOf e ∧ ∃ i, topId e = some i ∧
          (f.hogIds.contains i = true ∨ ∃ r' ∈ refsOf e, r' ∈ g0)) := by
  induction es generalizing g0 h0 with
  | nil => exact ⟨g0, h0, by simp [filterTops], by simp, by simp⟩
  | cons e es ih =>
    simp only [List.all_cons, Bool.and_eq_true] at h
    obtain ⟨he, hes⟩ := h
    simp only [List.map_cons, List.pairwise_cons] at hdis
    obtain ⟨hd1, hd2⟩ := hdis
    match e, he, hd1 with
    | .og (some i) og its, _, hd1 =>
      have hkey : ∀ e' ∈ es, ∀ r ∈ refsOf e', r ∉ refsOfL its := by
        intro e' he' r hr hr'
        exact hd1 (refsOf e') (List.mem_map_of_mem he') r (by simpa [refsOf] using hr') hr
      by_cases hadd : (f.hogIds.contains i || (refsOfL its).any g0.contains) = true
      all_goals have hadd' := hadd
      all_goals simp only [Bool.or_eq_true, List.any_eq_true, List.contains_eq_mem, decide_eq_true_eq] at hadd'
      · obtain ⟨gids, hids, heq, hh, hg⟩ := ih hes hd2 (g0 ++ refsOfL its) (h0 ++ [i])
        refine ⟨gids, hids, ?_, ?_, ?_⟩
        · rw [filterTops_cons_og, if_pos hadd, heq]
        · intro i'
          rw [hh]
          simp only [List.mem_append, List.mem_cons, List.not_mem_nil, or_false, exists_eq_or_imp, topId_og, refsOf_og, Option.some.injEq,
            List.contains_eq_mem, decide_eq_true_eq]
          clear hh hg heq ih hd1 hd2 hes he hadd
          grind
        · intro r
          rw [hg]
          simp only [List.mem_append, List.mem_cons, List.not_mem_nil, or_false, exists_eq_or_imp, topId_og, refsOf_og, Option.some.injEq,
            List.contains_eq_mem, decide_eq_true_eq]
          clear hh hg heq ih hd1 hd2 hes he hadd
          grind
      · obtain ⟨gids, hids, heq, hh, hg⟩ := ih hes hd2 g0 h0
        refine ⟨gids, hids, ?_, ?_, ?_⟩
        · rw [filterTops_cons_og, if_neg hadd, heq]
        · intro i'
          rw [hh]
          simp only [List.mem_append, List.mem_cons, List.not_mem_nil, or_false, exists_eq_or_imp, topId_og, refsOf_og, Option.some.injEq,
            List.contains_eq_mem, decide_eq_true_eq]
          clear hh hg heq ih hd1 hd2 hes he hadd
          grind
        · intro r
          rw [hg]
          simp only [List.mem_append, List.mem_cons, List.not_mem_nil, or_false, exists_eq_or_imp, topId_og, refsOf_og, Option.some.injEq,
            List.contains_eq_mem, decide_eq_true_eq]
          clear hh hg heq ih hd1 hd2 hes he hadd
          grind

/-- with the filter of the first pass: `loadFiltered` is the load of the projected file -/
theorem C11_loadFiltered (T : STree) (nm : Naming) (inp : Input) (f : Filter) (h : inp.groups.all isOgWithId = true) :
    ∃ gids hids, filterTops f inp.groups (filterGenes f inp.species, []) = .ok (gids, hids) ∧
      loadFiltered T nm inp f = buildHam T nm (projectInput inp gids.contains hids) (fun _ => true) none := by
  obtain ⟨gids, hids, heq, -, -⟩ := filterTops_ok f inp.groups h (filterGenes f inp.species) []
  refine ⟨gids, hids, heq, ?_⟩
  rw [← C11_filtered_is_projection T nm inp gids.contains hids h]
  simp only [loadFiltered, heq]
  rfl

end Pyham
