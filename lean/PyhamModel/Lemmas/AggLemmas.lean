/-
  C08 (aggregated views of the lateral comparison), C09 (the HTML export embeds exactly the numbers of
  the profile), C12 (one family-data record per member gene).
-/
import PyhamModel.Model.Agg
import PyhamModel.Lemmas.Lateral
import PyhamModel.Lemmas.Partition
namespace Pyham

/-! ### the `setdefault` fold -/

def sdFold {β} (ps : List (Node × β)) : List (Node × List β) :=
  ps.foldl (fun d p => sdAppend d p.1 p.2) []

theorem sdFold_snoc {β} (ps : List (Node × β)) (p : Node × β) :
    sdFold (ps ++ [p]) = sdAppend (sdFold ps) p.1 p.2 := by
  simp [sdFold, List.foldl_append]

theorem nested_fold {α γ β} (maps : List α) (items : α → List γ) (kf : α → γ → Node) (vf : α → γ → β)
    (d0 : List (Node × List β)) :
    maps.foldl (fun d e => (items e).foldl (fun d x => sdAppend d (kf e x) (vf e x)) d) d0 =
      (maps.flatMap fun e => (items e).map fun x => (kf e x, vf e x)).foldl (fun d p => sdAppend d p.1 p.2) d0 := by
  induction maps generalizing d0 with
  | nil => rfl
  | cons e es ih =>
    simp only [List.foldl_cons, List.flatMap_cons, List.foldl_append, List.foldl_map, ih]

theorem sdFold_spec {β : Type} (ps : List (Node × β)) :
    ((sdFold ps).map (·.1.key)).Nodup ∧
    (∀ e ∈ sdFold ps, e.2 = (ps.filter (·.1.key == e.1.key)).map (·.2)) ∧
    (∀ p ∈ ps, ∃ e ∈ sdFold ps, e.1.key = p.1.key) := by
  induction ps using snoc_induction with
  | nil => simp [sdFold]
  | snoc ps p ih =>
    obtain ⟨h1, h2, h3⟩ := ih
    rw [sdFold_snoc]
    unfold sdAppend
    by_cases hk : p.1.key ∈ (sdFold ps).map (·.1.key)
    · rw [if_pos ((any_key_iff _ _).2 hk)]
      refine ⟨?_, ?_, ?_⟩
      · have : ((sdFold ps).map fun e => if e.1.key == p.1.key then (e.1, e.2 ++ [p.2]) else e).map (·.1.key)
            = (sdFold ps).map (·.1.key) := by
          rw [List.map_map]
          apply List.map_congr_left
          intro e _
          simp only [Function.comp]
          split <;> rfl
        rw [this]; exact h1
      · intro e' he'
        obtain ⟨e, he, rfl⟩ := List.mem_map.1 he'
        have := h2 e he
        by_cases hek : e.1.key = p.1.key
        · simp [hek, List.filter_append] at this ⊢
          exact this
        · have hpk : ¬ p.1.key = e.1.key := fun h => hek h.symm
          simp [hek, hpk, List.filter_append] at this ⊢
          exact this
      · intro p' hp'
        rcases List.mem_append.1 hp' with hp' | hp'
        · obtain ⟨e, he, hek⟩ := h3 p' hp'
          refine ⟨_, List.mem_map.2 ⟨e, he, rfl⟩, ?_⟩
          split <;> exact hek
        · rw [List.mem_singleton.1 hp']
          obtain ⟨e, he, hek⟩ := List.mem_map.1 hk
          refine ⟨_, List.mem_map.2 ⟨e, he, rfl⟩, ?_⟩
          split <;> exact hek
    · rw [if_neg (fun h' => hk ((any_key_iff _ _).1 h'))]
      refine ⟨?_, ?_, ?_⟩
      · rw [List.map_append, List.nodup_append]
        refine ⟨h1, by simp, ?_⟩
        intro a ha b hb
        simp at hb
        subst hb
        intro hab
        subst hab
        exact hk ha
      · intro e he
        rcases List.mem_append.1 he with he | he
        · have hek : ¬ p.1.key = e.1.key := fun h => hk (h ▸ List.mem_map.2 ⟨e, he, rfl⟩)
          have := h2 e he
          simp [hek, List.filter_append] at this ⊢
          exact this
        · rw [List.mem_singleton.1 he]
          have : ps.filter (fun x => x.1.key == p.1.key) = [] := by
            rw [List.filter_eq_nil_iff]
            intro p' hp' hpk
            obtain ⟨e, he, hek⟩ := h3 p' hp'
            simp at hpk
            exact hk (hpk ▸ hek ▸ List.mem_map.2 ⟨e, he, rfl⟩)
          simp [List.filter_append, this]
      · intro p' hp'
        rcases List.mem_append.1 hp' with hp' | hp'
        · obtain ⟨e, he, hek⟩ := h3 p' hp'
          exact ⟨e, List.mem_append_left _ he, hek⟩
        · rw [List.mem_singleton.1 hp']
          exact ⟨_, List.mem_append_right _ (List.mem_singleton.2 rfl), rfl⟩

theorem lookup_of_mem_unique {κ β} [BEq κ] [LawfulBEq κ] (l : List (κ × β)) (k : κ) (v : β)
    (hm : (k, v) ∈ l) (hu : ∀ v', (k, v') ∈ l → v' = v) : l.lookup k = some v := by
  induction l with
  | nil => simp at hm
  | cons a l ih =>
    obtain ⟨k', v'⟩ := a
    by_cases hk : k = k'
    · subst hk
      have := hu v' (List.mem_cons_self)
      subst this
      simp [List.lookup]
    · have hk' : (k == k') = false := by simp [hk]
      simp only [List.lookup, hk']
      apply ih
      · rcases List.mem_cons.1 hm with h | h
        · exact absurd (Prod.mk.inj h).1 hk
        · exact h
      · intro v'' h; exact hu v'' (List.mem_cons_of_mem _ h)

theorem mem_of_lookup {κ β} [BEq κ] [LawfulBEq κ] (l : List (κ × β)) (k : κ) (v : β)
    (h : l.lookup k = some v) : (k, v) ∈ l := by
  induction l with
  | nil => simp at h
  | cons a l ih =>
    obtain ⟨k', v'⟩ := a
    by_cases hk : k = k'
    · subst hk
      simp [List.lookup] at h
      subst h
      exact List.mem_cons_self
    · have hk' : (k == k') = false := by simp [hk]
      simp only [List.lookup, hk'] at h
      exact List.mem_cons_of_mem _ (ih h)

theorem filterMap_keys_sublist {β δ} (d : List (Node × β)) (f : β → Option δ) :
    ((d.filterMap fun en => (f en.2).map fun v => (en.1, v)).map (·.1.key)).Sublist (d.map (·.1.key)) := by
  induction d with
  | nil => simp
  | cons a d ih =>
    simp only [List.filterMap_cons, List.map_cons]
    cases f a.2 with
    | none => exact ih.cons _
    | some v => exact ih.cons_cons _

/-- the Ho ↦ [Gn] view, restricted to one genome -/
theorem agg_lost_perm {α : Type} (maps : List (Taxon × α)) (items : α → List Node)
    (hn : (maps.map (·.1)).Nodup) (e : Taxon × α) (he : e ∈ maps)
    (hk : ((items e.2).map Node.key).Nodup) :
    ((((sdFold (maps.flatMap fun e => (items e.2).map fun x => (x, e.1))).filter
        fun en => en.2.contains e.1).map (·.1)).map Node.key).Perm ((items e.2).map Node.key) := by
  obtain ⟨h1, h2, h3⟩ := sdFold_spec (maps.flatMap fun e => (items e.2).map fun x => (x, e.1))
  apply (List.perm_ext_iff_of_nodup ?_ hk).mpr
  · intro k
    simp only [List.mem_map, List.mem_filter, List.contains_eq_mem, decide_eq_true_eq]
    constructor
    · rintro ⟨n, ⟨en, ⟨hen, hg⟩, rfl⟩, rfl⟩
      rw [h2 en hen] at hg
      simp only [List.mem_map, List.mem_filter, List.mem_flatMap, beq_iff_eq] at hg
      obtain ⟨p, ⟨⟨e', he', x, hx, rfl⟩, hpk⟩, hp2⟩ := hg
      simp only at hpk hp2
      have := inj_of_nodup_map _ hn he' he hp2
      subst this
      exact ⟨x, hx, hpk⟩
    · rintro ⟨x, hx, rfl⟩
      have hp : (x, e.1) ∈ maps.flatMap fun e => (items e.2).map fun x => (x, e.1) :=
        List.mem_flatMap.2 ⟨e, he, List.mem_map.2 ⟨x, hx, rfl⟩⟩
      obtain ⟨en, hen, hek⟩ := h3 _ hp
      refine ⟨en.1, ⟨en, ⟨hen, ?_⟩, rfl⟩, hek⟩
      rw [h2 en hen]
      simp only [List.mem_map, List.mem_filter, beq_iff_eq]
      exact ⟨(x, e.1), ⟨hp, hek.symm⟩, rfl⟩
  · rw [List.map_map]
    exact h1.sublist ((List.filter_sublist).map _)

/-- the Hi ↦ {Gn ↦ v} views, restricted to one genome -/
theorem agg_kv_perm {α γ : Type} (maps : List (Taxon × α)) (items : α → List (Node × γ))
    (hn : (maps.map (·.1)).Nodup) (e : Taxon × α) (he : e ∈ maps)
    (hk : ((items e.2).map (·.1.key)).Nodup) :
    (((sdFold (maps.flatMap fun e => (items e.2).map fun r => (r.1, (e.1, r.2)))).filterMap
        fun en => (en.2.lookup e.1).map fun v => (en.1, v)).map fun r => (r.1.key, r.2)).Perm
      ((items e.2).map fun r => (r.1.key, r.2)) := by
  obtain ⟨h1, h2, h3⟩ := sdFold_spec (maps.flatMap fun e => (items e.2).map fun r => (r.1, (e.1, r.2)))
  have hR : ((items e.2).map fun r => (r.1.key, r.2)).Nodup := by
    apply nodup_of_map_nodup (·.1)
    rw [List.map_map]; exact hk
  -- members of an entry that belong to genome `e.1`
  have key : ∀ en ∈ sdFold (maps.flatMap fun e => (items e.2).map fun r => (r.1, (e.1, r.2))),
      ∀ v, (e.1, v) ∈ en.2 ↔ ∃ r ∈ items e.2, r.1.key = en.1.key ∧ r.2 = v := by
    intro en hen v
    rw [h2 en hen]
    simp only [List.mem_map, List.mem_filter, List.mem_flatMap, beq_iff_eq]
    constructor
    · rintro ⟨p, ⟨⟨e', he', r, hr, rfl⟩, hpk⟩, hp2⟩
      simp only [Prod.mk.injEq] at hpk hp2
      have := inj_of_nodup_map _ hn he' he hp2.1
      subst this
      exact ⟨r, hr, hpk, hp2.2⟩
    · rintro ⟨r, hr, hrk, rfl⟩
      exact ⟨(r.1, (e.1, r.2)), ⟨⟨e, he, r, hr, rfl⟩, hrk⟩, rfl⟩
  apply (List.perm_ext_iff_of_nodup ?_ hR).mpr
  · rintro ⟨k, v⟩
    simp only [List.mem_map, List.mem_filterMap, Option.map_eq_some_iff, Prod.mk.injEq]
    constructor
    · rintro ⟨r, ⟨en, hen, v', hl, rfl⟩, rfl, rfl⟩
      obtain ⟨r, hr, hrk, hrv⟩ := (key en hen v').1 (mem_of_lookup _ _ _ hl)
      exact ⟨r, hr, hrk, hrv⟩
    · rintro ⟨r, hr, rfl, rfl⟩
      have hp : (r.1, (e.1, r.2)) ∈ maps.flatMap fun e => (items e.2).map fun r => (r.1, (e.1, r.2)) :=
        List.mem_flatMap.2 ⟨e, he, List.mem_map.2 ⟨r, hr, rfl⟩⟩
      obtain ⟨en, hen, hek⟩ := h3 _ hp
      refine ⟨(en.1, r.2), ⟨en, hen, r.2, ?_, rfl⟩, hek, rfl⟩
      apply lookup_of_mem_unique
      · exact (key en hen r.2).2 ⟨r, hr, hek.symm, rfl⟩
      · intro v' hv'
        obtain ⟨r', hr', hrk', rfl⟩ := (key en hen v').1 hv'
        have : r' = r := inj_of_nodup_map _ hk hr' hr (hrk'.trans hek)
        rw [this]
  · apply nodup_of_map_nodup (·.1)
    rw [List.map_map]
    exact h1.sublist (filterMap_keys_sublist _ _)

/-! ### the lateral comparison -/

/-- the per-genome maps of a lateral comparison have pairwise different genomes -/
theorem lateral_maps_nodup (H : Ham) (g1 g2 : Taxon) (ml : LMap) (h : lateral H g1 g2 = .ok ml) :
    (ml.maps.map (·.1)).Nodup := by
  have hne := lateral_ne H g1 g2 ml h
  rw [lateral_eq H g1 g2 hne] at h
  have h' := Except.ok.inj h
  subst h'
  simp only [List.map_map]
  have : ((fun (x : Taxon × HMap) => x.1) ∘ fun g => (g, hogsMap H (mrca2 g1 g2) g)) = id := rfl
  rw [this, List.map_id]
  have h2 : [g1, g2].Nodup := by simp [hne]
  exact h2.sublist List.filter_sublist

/-- **C08**: what the aggregated dictionaries of a lateral comparison report for a compared genome is
    exactly the gained list of its vertical comparison against the common ancestor ... -/
theorem C08_agg_gained (H : Ham) (g1 g2 : Taxon) (ml : LMap) (h : lateral H g1 g2 = .ok ml)
    (e : Taxon × HMap) (he : e ∈ ml.maps) : ml.gainedIn e.1 = e.2.gain := by
  have hn := lateral_maps_nodup H g1 g2 ml h
  have : ml.aggGained.lookup e.1 = some e.2.gain := by
    apply lookup_of_mem_unique
    · exact List.mem_map.2 ⟨e, he, rfl⟩
    · intro v' hv'
      obtain ⟨e', he', heq⟩ := List.mem_map.1 hv'
      simp only [Prod.mk.injEq] at heq
      have := inj_of_nodup_map _ hn he' he heq.1
      subst this
      exact heq.2.symm
  simp [LMap.gainedIn, this]

theorem lateral_map_eq (H : Ham) (g1 g2 : Taxon) (ml : LMap) (h : lateral H g1 g2 = .ok ml)
    (e : Taxon × HMap) (he : e ∈ ml.maps) : e.2 = hogsMap H ml.anc e.1 :=
  ((C08_lateral H g1 g2 ml h).2.2.2.1 e he).2.2.1

theorem loss_keys_nodup (H : Ham) (hw : H.WFc) (a d : Taxon) :
    ((hogsMap H a d).loss.map Node.key).Nodup := by
  obtain ⟨_, _, _, hl, _⟩ := hogsMap_clusters H a d
  rw [hl]
  have hK : (((H.nodesAt a).map Loc.node).map Node.key).Nodup := by
    have := hw.keys
    unfold Ham.keys at this
    rw [List.map_map]
    have h2 : ((H.allLocs.filter fun l => l.node.tx == a).map (Node.key ∘ Loc.node)).Sublist
        (H.allLocs.map fun l => l.node.key) := (List.filter_sublist).map _
    exact this.sublist h2
  exact hK.sublist ((List.filter_sublist).map _)

/-- ... its lost set (as a permutation, the dictionary is keyed by the ancestral gene) ... -/
theorem C08_agg_lost (H : Ham) (hw : H.WFc) (g1 g2 : Taxon) (ml : LMap) (h : lateral H g1 g2 = .ok ml)
    (e : Taxon × HMap) (he : e ∈ ml.maps) : ((ml.lostIn e.1).map Node.key).Perm (e.2.loss.map Node.key) := by
  have hn := lateral_maps_nodup H g1 g2 ml h
  have hk : (e.2.loss.map Node.key).Nodup := by
    rw [lateral_map_eq H g1 g2 ml h e he]; exact loss_keys_nodup H hw _ _
  have := agg_lost_perm ml.maps (fun m => m.loss) hn e he hk
  have e1 : ml.aggLost = sdFold (ml.maps.flatMap fun e => e.2.loss.map fun x => (x, e.1)) :=
    nested_fold ml.maps (fun e => e.2.loss) (fun _ x => x) (fun e _ => e.1) []
  unfold LMap.lostIn
  rw [e1]
  exact this

/-- ... its retained pairs ... -/
theorem C08_agg_retained (H : Ham) (hw : H.WFc) (g1 g2 : Taxon) (ml : LMap) (h : lateral H g1 g2 = .ok ml)
    (e : Taxon × HMap) (he : e ∈ ml.maps) :
    ((ml.retainedIn e.1).map fun r => (r.1.key, r.2.key)).Perm (e.2.retained.map fun r => (r.1.key, r.2.key)) := by
  have _ := hw
  have hn := lateral_maps_nodup H g1 g2 ml h
  have hk : (e.2.retained.map (·.1.key)).Nodup := by
    rw [lateral_map_eq H g1 g2 ml h e he, (hogsMap_clusters H _ _).2.1]
    exact (clusters_keys_nodup _).1
  have := (agg_kv_perm ml.maps (fun m => m.retained) hn e he hk).map (fun p => (p.1, p.2.key))
  have e1 : ml.aggRetained = sdFold (ml.maps.flatMap fun e => e.2.retained.map fun r => (r.1, (e.1, r.2))) :=
    nested_fold ml.maps (fun e => e.2.retained) (fun _ r => r.1) (fun e r => (e.1, r.2)) []
  unfold LMap.retainedIn
  rw [e1]
  simpa only [List.map_map, Function.comp_def] using this

/-- ... and its duplicated lists -/
theorem C08_agg_duplicated (H : Ham) (hw : H.WFc) (g1 g2 : Taxon) (ml : LMap) (h : lateral H g1 g2 = .ok ml)
    (e : Taxon × HMap) (he : e ∈ ml.maps) :
    ((ml.duplicatedIn e.1).map fun r => (r.1.key, r.2.map Node.key)).Perm
      (e.2.dupl.map fun r => (r.1.key, r.2.map Node.key)) := by
  have _ := hw
  have hn := lateral_maps_nodup H g1 g2 ml h
  have hk : (e.2.dupl.map (·.1.key)).Nodup := by
    rw [lateral_map_eq H g1 g2 ml h e he, (hogsMap_clusters H _ _).2.2.1]
    exact (clusters_keys_nodup _).2
  have := (agg_kv_perm ml.maps (fun m => m.dupl) hn e he hk).map (fun p => (p.1, p.2.map Node.key))
  have e1 : ml.aggDuplicated = sdFold (ml.maps.flatMap fun e => e.2.dupl.map fun r => (r.1, (e.1, r.2))) :=
    nested_fold ml.maps (fun e => e.2.dupl) (fun _ r => r.1) (fun e r => (e.1, r.2)) []
  unfold LMap.duplicatedIn
  rw [e1]
  simpa only [List.map_map, Function.comp_def] using this

/-! ### the JSON tree -/

mutual
theorem json_read (nm : Naming) (feat : Taxon → Feat) (root : Bool) (p : Taxon) (hr : root = true ↔ p = []) :
    (t : STree) → (profileJson nm feat root p t).read p =
      (STree.taxaFrom p t).map fun t =>
        (t, (feat t).nbr,
          if t = [] then none
          else some ((feat t).retained, (feat t).dupl, (feat t).gain, (feat t).lost, (feat t).duplication))
  | .node n ks => by
    simp only [profileJson, PJson.read, STree.taxaFrom, List.map_cons, json_readL nm feat p 0 ks]
    congr 2
    cases root with
    | true => simp [hr.1 rfl]
    | false =>
      have : ¬ p = [] := fun h => by simpa using hr.2 h
      simp [this]
theorem json_readL (nm : Naming) (feat : Taxon → Feat) (p : Taxon) (i : Nat) :
    (ks : List STree) → readL p i (profileJsonL nm feat p i ks) =
      (STree.taxaFromL p i ks).map fun t =>
        (t, (feat t).nbr,
          if t = [] then none
          else some ((feat t).retained, (feat t).dupl, (feat t).gain, (feat t).lost, (feat t).duplication))
  | [] => by simp [profileJsonL, readL, STree.taxaFromL]
  | k :: ks => by
    simp only [profileJsonL, readL, STree.taxaFromL, List.map_append]
    rw [json_read nm feat false (i :: p) (by simp) k, json_readL nm feat p (i + 1) ks]
end

/-- **C09**: the JSON tree of the HTML export embeds exactly the numbers of the profile: reading it
    back gives, for every taxon of the tree in preorder, the genome size and -- except at the root,
    which carries `false` -- the five event numbers annotated on that node -/
theorem C09_json_embeds_profile (H : Ham) :
    (profileFullJson H).read [] =
      H.tree.allTaxa.map fun t =>
        (t, (profileFullAt H t).nbr,
          if t = [] then none
          else some ((profileFullAt H t).retained, (profileFullAt H t).dupl, (profileFullAt H t).gain,
                     (profileFullAt H t).lost, (profileFullAt H t).duplication)) := by
  exact json_read H.naming (profileFullAt H) true [] (by simp) H.tree

/-- **C12**: the iHam page carries one family-data record per member gene, in member order -/
theorem C12_famdata (H : Ham) (n : Node) : (famData H n).map (·.id) = n.leaves := by
  unfold famData
  rw [List.map_map]
  conv => rhs; rw [← List.map_id n.leaves]
  apply List.map_congr_left
  intro g _
  simp only [Function.comp]
  split <;> rfl

end Pyham
