/-
  C11, second sentence: unselected genes are absent from every listing and lookup of a filtered analysis.
-/
import PyhamModel.Lemmas.FilterLemmas
import PyhamModel.Lemmas.Declared
import PyhamModel.Lemmas.LookupLemmas
namespace Pyham

/-- every gene a filtered analysis lists was selected by the first pass (`gids`: the named genes and the members of the
    selected families, `C11_first_pass`); hence a lookup by id or by cross-reference can only return selected genes -/
theorem C11_only_selected_genes (T : STree) (nm : Naming) (inp : Input) (f : Filter) (Hf : Ham)
    (h : inp.groups.all isOgWithId = true) (hf : loadFiltered T nm inp f = .ok Hf) :
    ∃ gids hids, filterTops f inp.groups (filterGenes f inp.species, []) = .ok (gids, hids) ∧
      (∀ g ∈ Hf.genes, g.id ∈ gids) ∧
      (∀ id g, Hf.geneById id = .ok g → id ∈ gids) ∧
      (∀ v ids, Hf.genesByExternalId v = .ok ids → ∀ id ∈ ids, id ∈ gids) := by
  obtain ⟨gids, hids, hft, heq⟩ := C11_loadFiltered T nm inp f h
  rw [heq] at hf
  have hd := C01_extant_genes_are_the_declared T nm (projectInput inp gids.contains hids) Hf hf
  have hall : ∀ g ∈ Hf.genes, g.id ∈ gids := by
    intro g hg
    have : (g.id, g.species, g.xrefs) ∈ Hf.genes.map (fun g => (g.id, g.species, g.xrefs)) :=
      List.mem_map.2 ⟨g, hg, rfl⟩
    rw [hd] at this
    simp only [projectInput, List.mem_flatMap, List.mem_map] at this
    obtain ⟨s, ⟨s0, _, hs⟩, g0, hg0, he⟩ := this
    rw [← hs] at hg0
    simp only [List.mem_filter] at hg0
    simp only [Prod.mk.injEq] at he
    rw [← he.1]
    simpa using hg0.2
  refine ⟨gids, hids, hft, hall, ?_, ?_⟩
  · intro id g hg
    unfold Ham.geneById at hg
    cases hfind : Hf.genes.reverse.find? (·.id == id) with
    | none => rw [hfind] at hg; cases hg
    | some g' =>
      have hm := List.mem_of_find?_eq_some hfind
      have hid := List.find?_some hfind
      simp only [beq_iff_eq] at hid
      rw [← hid]
      exact hall g' (by simpa using hm)
  · intro v ids hv id hid
    obtain ⟨g, hg, rfl, _⟩ := C15_xref_sound Hf v ids hv id hid
    exact hall g hg

end Pyham
