/-
  C13 / C14 at the level of whole files: two consistent datasets over the same species tree whose families are
  spellings of the same histories (and which may use different naming modes) load into the same hierarchies,
  family by family, up to sibling order and object numbering.
-/
import PyhamModel.Lemmas.Unique
import PyhamModel.Lemmas.CapstoneWF
import PyhamModel.Lemmas.RoundtripLoaded
namespace Pyham

theorem loaded_core_facts (D : Dataset) (hc : D.Consistent) :
    ∃ H, load D.T D.nm D.file = .ok H ∧ H.tops.length = D.fams.length ∧
      ∀ i (h1 : i < H.tops.length) (h2 : i < D.fams.length),
        Realises (D.fams[i]).1 (D.fams[i]).2 (H.tops[i]).2 ∧ ((H.tops[i]).2.nodes.map Node.key).Nodup := by
  obtain ⟨H, hl, hlen, hre, _, _, _⟩ := loaded_consistent D hc
  obtain ⟨H', hl', hwf, _, _⟩ := loaded_consistent_wf D hc
  rw [hl] at hl'
  cases hl'
  refine ⟨H, hl, hlen, fun i h1 h2 => ⟨(hre i h1 h2).2, ?_⟩⟩
  have hp : H.tops[i] ∈ H.tops := List.getElem_mem h1
  exact (exportWF_of_wf H hwf _ hp).keys

/-- **C13 / C14 for whole files** -/
theorem same_histories_same_hierarchies (D D' : Dataset) (hc : D.Consistent) (hc' : D'.Consistent)
    (hT : D.T = D'.T) (hlen : D.fams.length = D'.fams.length)
    (hs : ∀ i (h1 : i < D.fams.length) (h2 : i < D'.fams.length),
        (D.fams[i]).1 = (D'.fams[i]).1 ∧ SameL (D.fams[i]).2 (D'.fams[i]).2) :
    ∃ H H', load D.T D.nm D.file = .ok H ∧ load D'.T D'.nm D'.file = .ok H' ∧
      H.tops.length = H'.tops.length ∧
      ∀ i (h1 : i < H.tops.length) (h2 : i < H'.tops.length),
        SameL (spell false false (H.tops[i]).2) (spell false false (H'.tops[i]).2) := by
  obtain ⟨H, hl, hn, hf⟩ := loaded_core_facts D hc
  obtain ⟨H', hl', hn', hf'⟩ := loaded_core_facts D' hc'
  refine ⟨H, H', hl, hl', by omega, ?_⟩
  intro i h1 h2
  have a1 : i < D.fams.length := by omega
  have a2 : i < D'.fams.length := by omega
  obtain ⟨hr, hk⟩ := hf i h1 a1
  obtain ⟨hr', hk'⟩ := hf' i h2 a2
  obtain ⟨hq, hsl⟩ := hs i a1 a2
  have hw := (hc.fams_ok _ (List.getElem_mem a1)).2.1
  have hw' := (hc'.fams_ok _ (List.getElem_mem a2)).2.1
  rw [← hq] at hr' hw'
  rw [← hT] at hw'
  exact realises_unique_spellings D.T _ _ _ _ _ hsl hw hw' hr hr' hk hk'

end Pyham
