/-
  Comparisons see nothing but the located-member structure.

  Two analyses `H`, `H'` are related by `φ : Node → Node` (`LocIso`) when the located members of `H'` are the
  images of those of `H` -- whatever the ORDER in which families, children and duplication records are stored and
  whatever the NUMBERING of objects -- and `φ` keeps taxon, "arose by duplication" and distinctness of identities.
  Then every cluster of every vertical comparison of `H'` is the image of the corresponding cluster of `H`.
  This is the model-level content of "... never change any comparison result" (C13 / C14 / C11): the comparison
  algorithm does not look at sibling order, file order, object numbers, ids or annotations.
-/
import PyhamModel.Lemmas.Compose
import PyhamModel.Lemmas.Meaning
import PyhamModel.Lemmas.Locality
namespace Pyham

def Loc.map (φ : Node → Node) (l : Loc) : Loc := ⟨φ l.node, l.anc.map φ⟩

/-- a node occurs in the analysis: as a located member or on the parent chain of one -/
def Ham.occ (H : Ham) (n : Node) : Prop := ∃ l ∈ H.allLocs, n = l.node ∨ n ∈ l.anc

structure LocIso (H H' : Ham) (φ : Node → Node) : Prop where
  locs : ∀ l', l' ∈ H'.allLocs ↔ ∃ l ∈ H.allLocs, l' = l.map φ
  tx : ∀ n, (φ n).tx = n.tx
  flag : ∀ n, (φ n).dup.isSome = n.dup.isSome
  keys : ∀ n1 n2, H.occ n1 → H.occ n2 → ((φ n1).key = (φ n2).key ↔ n1.key = n2.key)

theorem searchUp_map (φ : Node → Node) (htx : ∀ n, (φ n).tx = n.tx) (hfl : ∀ n, (φ n).dup.isSome = n.dup.isSome)
    (a : Taxon) : ∀ (L : List Node) (f : Bool),
      searchUp a f (L.map φ) = ((searchUp a f L).1.map φ, (searchUp a f L).2)
  | [], f => by simp [searchUp]
  | x :: xs, f => by
    simp only [List.map_cons, searchUp, htx, hfl]
    split
    · simp
    · exact searchUp_map φ htx hfl a xs _

theorem search_map {H H' : Ham} {φ : Node → Node} (h : LocIso H H' φ) (a : Taxon) (l : Loc) :
    search a (l.map φ) = ((search a l).1.map φ, (search a l).2) := by
  unfold search Loc.map
  simp only [h.flag]
  exact searchUp_map φ h.tx h.flag a l.anc _

theorem nodesAt_map {H H' : Ham} {φ : Node → Node} (h : LocIso H H' φ) (t : Taxon) (l' : Loc) :
    l' ∈ H'.nodesAt t ↔ ∃ l ∈ H.nodesAt t, l' = l.map φ := by
  simp only [Ham.nodesAt, List.mem_filter, beq_iff_eq]
  constructor
  · rintro ⟨hl, ht⟩
    obtain ⟨l, hl0, rfl⟩ := (h.locs l').1 hl
    refine ⟨l, ⟨hl0, ?_⟩, rfl⟩
    simpa [Loc.map, h.tx] using ht
  · rintro ⟨l, ⟨hl0, ht⟩, rfl⟩
    refine ⟨(h.locs _).2 ⟨l, hl0, rfl⟩, ?_⟩
    simpa [Loc.map, h.tx] using ht

/-- GAIN of the image analysis = image of GAIN -/
theorem iso_gain {H H' : Ham} {φ : Node → Node} (h : LocIso H H' φ) (a d : Taxon) (n' : Node) :
    n' ∈ (hogsMap H' a d).gain ↔ ∃ n ∈ (hogsMap H a d).gain, n' = φ n := by
  rw [C06_gained_iff]
  constructor
  · rintro ⟨r', hr', rfl, hno⟩
    obtain ⟨r, hr, rfl⟩ := (nodesAt_map h d r').1 hr'
    refine ⟨r.node, (C06_gained_iff H a d r.node).2 ⟨r, hr, rfl, ?_⟩, rfl⟩
    intro y hy hya
    exact hno (φ y) (List.mem_map.2 ⟨y, hy, rfl⟩) (by rw [h.tx]; exact hya)
  · rintro ⟨n, hn, rfl⟩
    obtain ⟨r, hr, rfl, hno⟩ := (C06_gained_iff H a d n).1 hn
    refine ⟨r.map φ, (nodesAt_map h d _).2 ⟨r, hr, rfl⟩, rfl, ?_⟩
    intro y' hy'
    obtain ⟨y, hy, rfl⟩ := List.mem_map.1 hy'
    rw [h.tx]
    exact hno y hy

/-- RETAINED of the image analysis = image of RETAINED -/
theorem iso_retained {H H' : Ham} {φ : Node → Node} (h : LocIso H H' φ) (hw : H.WFc) (hw' : H'.WFc) (a d : Taxon)
    (p' : Node × Node) :
    p' ∈ (hogsMap H' a d).retained ↔ ∃ p ∈ (hogsMap H a d).retained, p' = (φ p.1, φ p.2) := by
  obtain ⟨x', n'⟩ := p'
  rw [C06_retained_iff H' hw' a d x' n']
  constructor
  · rintro ⟨r', hr', rfl, hs⟩
    obtain ⟨r, hr, rfl⟩ := (nodesAt_map h d r').1 hr'
    rw [search_map h a r] at hs
    cases hsr : (search a r).1 with
    | none => rw [hsr] at hs; simp at hs
    | some x =>
      rw [hsr] at hs
      simp only [Option.map_some, Prod.mk.injEq, Option.some.injEq] at hs
      refine ⟨(x, r.node), (C06_retained_iff H hw a d x r.node).2 ⟨r, hr, rfl, ?_⟩, ?_⟩
      · exact Prod.ext hsr hs.2
      · simp [Loc.map, hs.1]
  · rintro ⟨⟨x, n⟩, hp, he⟩
    simp only [Prod.mk.injEq] at he
    obtain ⟨rfl, rfl⟩ := he
    obtain ⟨r, hr, hrn, hs⟩ := (C06_retained_iff H hw a d x n).1 hp
    subst hrn
    refine ⟨r.map φ, (nodesAt_map h d _).2 ⟨r, hr, rfl⟩, rfl, ?_⟩
    rw [search_map h a r, hs]
    rfl

theorem search_some_mem_anc {a : Taxon} {r : Loc} {x : Node} {f : Bool} (hs : search a r = (some x, f)) : x ∈ r.anc := by
  unfold search at hs
  rcases searchUp_spec a r.anc r.node.dup.isSome with ⟨pre, x', post, hL, _, _, hs'⟩ | ⟨_, hs'⟩
  · rw [hs'] at hs
    simp only [Prod.mk.injEq, Option.some.injEq] at hs
    rw [hL, ← hs.1]
    simp
  · rw [hs'] at hs; simp at hs

/-- DUPLICATE of the image analysis = image of DUPLICATE (member-wise; the ancestral gene is named by an occurring
    node `x` carrying its identity) -/
theorem iso_duplicated {H H' : Ham} {φ : Node → Node} (h : LocIso H H' φ) (a d : Taxon) (k' : Key) (n' : Node) :
    (∃ e' ∈ (hogsMap H' a d).dupl, e'.1.key = k' ∧ n' ∈ e'.2) ↔
      ∃ x n, H.occ x ∧ (∃ e ∈ (hogsMap H a d).dupl, e.1.key = x.key ∧ n ∈ e.2) ∧ k' = (φ x).key ∧ n' = φ n := by
  rw [C06_duplicated_iff]
  constructor
  · rintro ⟨r', hr', rfl, x', hs, rfl⟩
    obtain ⟨r, hr, rfl⟩ := (nodesAt_map h d r').1 hr'
    rw [search_map h a r] at hs
    cases hsr : (search a r).1 with
    | none => rw [hsr] at hs; simp at hs
    | some x =>
      rw [hsr] at hs
      simp only [Option.map_some, Prod.mk.injEq, Option.some.injEq] at hs
      have hsx : search a r = (some x, true) := Prod.ext hsr hs.2
      have hrl : r ∈ H.allLocs := by
        simp only [Ham.nodesAt, List.mem_filter] at hr; exact hr.1
      refine ⟨x, r.node, ⟨r, hrl, Or.inr (search_some_mem_anc hsx)⟩,
        (C06_duplicated_iff H a d x.key r.node).2 ⟨r, hr, rfl, x, hsx, rfl⟩, ?_, rfl⟩
      rw [hs.1]
  · rintro ⟨x, n, hox, hm, rfl, rfl⟩
    obtain ⟨r, hr, hrn, x0, hs, hk⟩ := (C06_duplicated_iff H a d x.key n).1 hm
    subst hrn
    have hrl : r ∈ H.allLocs := by
      simp only [Ham.nodesAt, List.mem_filter] at hr; exact hr.1
    refine ⟨r.map φ, (nodesAt_map h d _).2 ⟨r, hr, rfl⟩, rfl, φ x0, ?_, ?_⟩
    · rw [search_map h a r, hs]; rfl
    · exact (h.keys x0 x ⟨r, hrl, Or.inr (search_some_mem_anc hs)⟩ hox).2 hk

/-- LOSS of the image analysis = image of LOSS -/
theorem iso_loss {H H' : Ham} {φ : Node → Node} (h : LocIso H H' φ) (hw : H.WFc) (hw' : H'.WFc) (a d : Taxon)
    (x' : Node) :
    x' ∈ (hogsMap H' a d).loss ↔ ∃ x ∈ (hogsMap H a d).loss, x' = φ x := by
  have memLoss : ∀ (K : Ham) (y : Node), y ∈ (hogsMap K a d).loss → ∃ l ∈ K.nodesAt a, l.node = y := by
    intro K y hy
    rw [(hogsMap_clusters K a d).2.2.2.1] at hy
    obtain ⟨l, hl, rfl⟩ := List.mem_map.1 (List.mem_filter.1 hy).1
    exact ⟨l, hl, rfl⟩
  have occOf : ∀ {t : Taxon} {l : Loc}, l ∈ H.nodesAt t → l ∈ H.allLocs := by
    intro t l hl
    simp only [Ham.nodesAt, List.mem_filter] at hl; exact hl.1
  constructor
  · intro hx'
    obtain ⟨l', hl', rfl⟩ := memLoss H' x' hx'
    obtain ⟨l, hl, rfl⟩ := (nodesAt_map h a l').1 hl'
    refine ⟨l.node, (C06_lost_iff H hw a d l hl).2 ?_, rfl⟩
    intro r hr y hy hk
    have := (C06_lost_iff H' hw' a d (l.map φ) hl').1 hx' (r.map φ) ((nodesAt_map h d _).2 ⟨r, hr, rfl⟩)
      (φ y) (List.mem_map.2 ⟨y, hy, rfl⟩)
    exact this ((h.keys y l.node ⟨r, occOf hr, Or.inr hy⟩ ⟨l, occOf hl, Or.inl rfl⟩).2 hk)
  · rintro ⟨x, hx, rfl⟩
    obtain ⟨l, hl, rfl⟩ := memLoss H x hx
    have hl' : l.map φ ∈ H'.nodesAt a := (nodesAt_map h a _).2 ⟨l, hl, rfl⟩
    refine (C06_lost_iff H' hw' a d (l.map φ) hl').2 ?_
    intro r' hr' y' hy' hk
    obtain ⟨r, hr, rfl⟩ := (nodesAt_map h d r').1 hr'
    obtain ⟨y, hy, rfl⟩ := List.mem_map.1 hy'
    exact (C06_lost_iff H hw a d l hl).1 hx r hr y hy
      ((h.keys y l.node ⟨r, occOf hr, Or.inr hy⟩ ⟨l, occOf hl, Or.inl rfl⟩).1 hk)

/-- the identity is an isomorphism; so is anything that agrees with an isomorphism on the occurring nodes ... the
    hypothesis is satisfiable (non-vacuity) -/
theorem LocIso.refl (H : Ham) : LocIso H H id where
  locs := fun l' => ⟨fun h => ⟨l', h, by simp [Loc.map]⟩, fun ⟨l, hl, e⟩ => by simpa [e, Loc.map] using hl⟩
  tx := fun _ => rfl
  flag := fun _ => rfl
  keys := fun _ _ _ _ => Iff.rfl

/-- **the order of the families does not matter**: an analysis whose top-level families are stored in another order
    (a file with its groups re-ordered, C14) is isomorphic through the identity -/
theorem LocIso.of_tops_perm (H H' : Ham) (hp : H'.tops.Perm H.tops) (hg : H'.genes = H.genes) : LocIso H H' id where
  locs := by
    intro l'
    have hs : H'.singletons = H.singletons := by
      unfold Ham.singletons
      rw [hg]
      simp only []
      congr 1
      apply List.filter_congr
      intro g _
      congr 1
      rw [Bool.eq_iff_iff]
      simp only [List.contains_iff_mem, List.mem_flatMap]
      constructor
      · rintro ⟨p, hp', hm⟩; exact ⟨p, hp.mem_iff.1 hp', hm⟩
      · rintro ⟨p, hp', hm⟩; exact ⟨p, hp.mem_iff.2 hp', hm⟩
    rw [mem_allLocs, hs]
    constructor
    · rintro (⟨p, hp', hl⟩ | hsg)
      · exact ⟨l', mem_allLocs.2 (Or.inl ⟨p, hp.mem_iff.1 hp', hl⟩), by simp [Loc.map]⟩
      · exact ⟨l', mem_allLocs.2 (Or.inr hsg), by simp [Loc.map]⟩
    · rintro ⟨l, hl, rfl⟩
      have : l.map id = l := by simp [Loc.map]
      rw [this]
      rcases mem_allLocs.1 hl with ⟨p, hp', hl⟩ | hsg
      · exact Or.inl ⟨p, hp.mem_iff.2 hp', hl⟩
      · exact Or.inr hsg
  tx := fun _ => rfl
  flag := fun _ => rfl
  keys := fun _ _ _ _ => Iff.rfl

mutual
theorem locs_shift (k : Nat) : (n : Node) → (anc : List Node) →
    locs (anc.map (Node.shift k)) (n.shift k) = (locs anc n).map (Loc.map (Node.shift k))
  | .gene i t d l, anc => by simp [Node.shift, locs, Loc.map]
  | .hog info t d ks ds, anc => by
    simp only [Node.shift, locs, List.map_cons, Loc.map]
    congr 1
    have := locsL_shift k ks (.hog info t d ks ds :: anc)
    simpa [Node.shift] using this
theorem locsL_shift (k : Nat) : (ns : List Node) → (anc : List Node) →
    locsL (anc.map (Node.shift k)) (Node.shiftL k ns) = (locsL anc ns).map (Loc.map (Node.shift k))
  | [], anc => by simp [Node.shiftL, locsL]
  | n :: ns, anc => by
    simp only [Node.shiftL, locsL, List.map_append]
    rw [locs_shift k n anc, locsL_shift k ns anc]
end

/-- the same analysis with every object number increased by `k` -/
def Ham.renumber (H : Ham) (k : Nat) : Ham := { H with tops := H.tops.map fun p => (p.1, p.2.shift k) }

/-- **the numbering of objects does not matter** (the creation counter depends on what was loaded before: other
    families, skipped families, C11 / C14): the renumbered analysis is isomorphic through `Node.shift k` -/
theorem LocIso.of_renumber (H : Ham) (k : Nat) : LocIso H (H.renumber k) (Node.shift k) where
  locs := by
    intro l'
    have hs : (H.renumber k).singletons = H.singletons := by
      unfold Ham.singletons Ham.renumber
      simp only [List.flatMap_map, shift_leaves]
    have hsing : ∀ g ∈ H.singletons, (⟨g, []⟩ : Loc).map (Node.shift k) = ⟨g, []⟩ := by
      intro g hg
      unfold Ham.singletons at hg
      obtain ⟨r, _, rfl⟩ := List.mem_map.1 hg
      simp [Loc.map, Node.shift]
    rw [mem_allLocs, hs]
    constructor
    · rintro (⟨p', hp', hl⟩ | ⟨g, hg, rfl⟩)
      · obtain ⟨p, hp, rfl⟩ := List.mem_map.1 hp'
        have := locs_shift k p.2 []
        simp only [List.map_nil] at this
        rw [this] at hl
        obtain ⟨l, hl0, rfl⟩ := List.mem_map.1 hl
        exact ⟨l, mem_allLocs.2 (Or.inl ⟨p, hp, hl0⟩), rfl⟩
      · exact ⟨⟨g, []⟩, mem_allLocs.2 (Or.inr ⟨g, hg, rfl⟩), (hsing g hg).symm⟩
    · rintro ⟨l, hl, rfl⟩
      rcases mem_allLocs.1 hl with ⟨p, hp, hl0⟩ | ⟨g, hg, rfl⟩
      · left
        refine ⟨(p.1, p.2.shift k), List.mem_map.2 ⟨p, hp, rfl⟩, ?_⟩
        have := locs_shift k p.2 []
        simp only [List.map_nil] at this
        rw [this]
        exact List.mem_map.2 ⟨l, hl0, rfl⟩
      · right
        exact ⟨g, hg, hsing g hg⟩
  tx := fun n => sh_tx k n
  flag := fun n => by rw [sh_dup]; cases n.dup <;> rfl
  keys := fun n1 n2 _ _ => by rw [sh_key, sh_key]; exact Key.shift_inj k _ _

/-! ### sibling order

  `Node.reorder f` applies the rule `f` to every list of children, bottom-up.  With `∀ l, (f l).Perm l` this covers every
  re-ordering of the children of every HOG (in a hierarchy with distinct identities two different HOGs have different
  children lists, so `f` can choose a different permutation for each). -/

mutual
def Node.reorder (f : List Node → List Node) : Node → Node
  | .gene i t d l => .gene i t d l
  | .hog info t d ks ds => .hog info t d (f (Node.reorderL f ks)) ds
def Node.reorderL (f : List Node → List Node) : List Node → List Node
  | [] => []
  | n :: ns => n.reorder f :: Node.reorderL f ns
end

theorem reorderL_eq_map (f : List Node → List Node) (l : List Node) : Node.reorderL f l = l.map (Node.reorder f) := by
  induction l with
  | nil => rfl
  | cons x xs ih => simp [Node.reorderL, ih]

theorem reorder_tx (f : List Node → List Node) (n : Node) : (n.reorder f).tx = n.tx := by cases n <;> rfl
theorem reorder_dup (f : List Node → List Node) (n : Node) : (n.reorder f).dup = n.dup := by cases n <;> rfl
theorem reorder_key (f : List Node → List Node) (n : Node) : (n.reorder f).key = n.key := by cases n <;> rfl

theorem leavesL_perm {l1 l2 : List Node} (h : l1.Perm l2) : (Node.leavesL l1).Perm (Node.leavesL l2) := by
  induction h with
  | nil => exact List.Perm.refl _
  | cons x _ ih => simp only [Node.leavesL]; exact ih.append_left _
  | swap x y l => simp only [Node.leavesL, ← List.append_assoc]; exact List.perm_append_comm.append_right _
  | trans _ _ ih1 ih2 => exact ih1.trans ih2

mutual
theorem reorder_leaves (f : List Node → List Node) (hf : ∀ l, (f l).Perm l) :
    (n : Node) → (n.reorder f).leaves.Perm n.leaves
  | .gene .. => List.Perm.refl _
  | .hog info t d ks ds => by
    simp only [Node.reorder, Node.leaves]
    have h1 : (Node.leavesL (f (Node.reorderL f ks))).Perm (Node.leavesL (Node.reorderL f ks)) := leavesL_perm (hf _)
    exact h1.trans (reorderL_leaves f hf ks)
theorem reorderL_leaves (f : List Node → List Node) (hf : ∀ l, (f l).Perm l) :
    (l : List Node) → (Node.leavesL (Node.reorderL f l)).Perm (Node.leavesL l)
  | [] => List.Perm.refl _
  | n :: ns => by
    simp only [Node.reorderL, Node.leavesL]
    exact (reorder_leaves f hf n).append (reorderL_leaves f hf ns)
end

mutual
theorem mem_locs_reorder (f : List Node → List Node) (hf : ∀ l, (f l).Perm l) (l' : Loc) :
    (n : Node) → (anc : List Node) →
      (l' ∈ locs (anc.map (Node.reorder f)) (n.reorder f) ↔ ∃ l ∈ locs anc n, l' = l.map (Node.reorder f))
  | .gene i t d lf, anc => by simp [Node.reorder, locs, Loc.map]
  | .hog info t d ks ds, anc => by
    have ih := mem_locsL_reorder f hf l' ks (.hog info t d ks ds :: anc)
    simp only [Node.reorder, mem_locs_hog]
    simp only [List.map_cons, Node.reorder] at ih
    have hperm : ∀ A : List Node, l' ∈ locsL A (f (Node.reorderL f ks)) ↔ l' ∈ locsL A (Node.reorderL f ks) := by
      intro A
      rw [mem_locsL, mem_locsL]
      exact ⟨fun ⟨k, hk, h⟩ => ⟨k, (hf _).mem_iff.1 hk, h⟩, fun ⟨k, hk, h⟩ => ⟨k, (hf _).mem_iff.2 hk, h⟩⟩
    rw [hperm, ih]
    constructor
    · rintro (rfl | ⟨l, hl, rfl⟩)
      · exact ⟨⟨.hog info t d ks ds, anc⟩, Or.inl rfl, by simp [Loc.map, Node.reorder]⟩
      · exact ⟨l, Or.inr hl, rfl⟩
    · rintro ⟨l, (rfl | hl), rfl⟩
      · left; simp [Loc.map, Node.reorder]
      · right; exact ⟨l, hl, rfl⟩
theorem mem_locsL_reorder (f : List Node → List Node) (hf : ∀ l, (f l).Perm l) (l' : Loc) :
    (ns : List Node) → (anc : List Node) →
      (l' ∈ locsL (anc.map (Node.reorder f)) (Node.reorderL f ns) ↔ ∃ l ∈ locsL anc ns, l' = l.map (Node.reorder f))
  | [], anc => by simp [Node.reorderL, locsL]
  | n :: ns, anc => by
    simp only [Node.reorderL, locsL, List.mem_append]
    rw [mem_locs_reorder f hf l' n anc, mem_locsL_reorder f hf l' ns anc]
    constructor
    · rintro (⟨l, hl, e⟩ | ⟨l, hl, e⟩)
      · exact ⟨l, Or.inl hl, e⟩
      · exact ⟨l, Or.inr hl, e⟩
    · rintro ⟨l, (hl | hl), e⟩
      · exact Or.inl ⟨l, hl, e⟩
      · exact Or.inr ⟨l, hl, e⟩
end

/-- the same analysis with the children of every HOG re-ordered by the rule `f` -/
def Ham.reorder (H : Ham) (f : List Node → List Node) : Ham := { H with tops := H.tops.map fun p => (p.1, p.2.reorder f) }

/-- **the order of the members of a group does not matter**: the analysis with the children of every HOG re-ordered is
    isomorphic through `Node.reorder f` -/
theorem LocIso.of_reorder (H : Ham) (f : List Node → List Node) (hf : ∀ l, (f l).Perm l) :
    LocIso H (H.reorder f) (Node.reorder f) where
  locs := by
    intro l'
    have hs : (H.reorder f).singletons = H.singletons := by
      unfold Ham.singletons Ham.reorder
      simp only [List.flatMap_map]
      congr 1
      apply List.filter_congr
      intro g _
      congr 1
      rw [Bool.eq_iff_iff]
      simp only [List.contains_iff_mem, List.mem_flatMap]
      constructor
      · rintro ⟨p, hp, hm⟩; exact ⟨p, hp, (reorder_leaves f hf p.2).mem_iff.1 hm⟩
      · rintro ⟨p, hp, hm⟩; exact ⟨p, hp, (reorder_leaves f hf p.2).mem_iff.2 hm⟩
    have hsing : ∀ g ∈ H.singletons, (⟨g, []⟩ : Loc).map (Node.reorder f) = ⟨g, []⟩ := by
      intro g hg
      unfold Ham.singletons at hg
      obtain ⟨r, _, rfl⟩ := List.mem_map.1 hg
      simp [Loc.map, Node.reorder]
    rw [mem_allLocs, hs]
    constructor
    · rintro (⟨p', hp', hl⟩ | ⟨g, hg, rfl⟩)
      · obtain ⟨p, hp, rfl⟩ := List.mem_map.1 hp'
        obtain ⟨l, hl0, rfl⟩ := (mem_locs_reorder f hf l' p.2 []).1 (by simpa using hl)
        exact ⟨l, mem_allLocs.2 (Or.inl ⟨p, hp, hl0⟩), rfl⟩
      · exact ⟨⟨g, []⟩, mem_allLocs.2 (Or.inr ⟨g, hg, rfl⟩), (hsing g hg).symm⟩
    · rintro ⟨l, hl, rfl⟩
      rcases mem_allLocs.1 hl with ⟨p, hp, hl0⟩ | ⟨g, hg, rfl⟩
      · left
        refine ⟨(p.1, p.2.reorder f), List.mem_map.2 ⟨p, hp, rfl⟩, ?_⟩
        have := (mem_locs_reorder f hf (l.map (Node.reorder f)) p.2 []).2 ⟨l, hl0, rfl⟩
        simpa using this
      · right
        exact ⟨g, hg, hsing g hg⟩
  tx := fun n => reorder_tx f n
  flag := fun n => by rw [reorder_dup]
  keys := fun n1 n2 _ _ => by rw [reorder_key, reorder_key]

end Pyham
