/-
  C10: per-family tree profiles add up to the whole-dataset profile.  Summed over all top-level HOGs,
  with singletons counted as gains at their species and each family root as a gain at its taxon, the
  per-family numbers reproduce, at every non-root node, the numbers of the vertical comparison with
  the parent node that the whole-dataset profile reports.
-/
import PyhamModel.Lemmas.Compose
import PyhamModel.Lemmas.Balance
import PyhamModel.Lemmas.NavLemmas
import PyhamModel.Lemmas.TreeLemmas
namespace Pyham

def on (o : Option Nat) : Nat := o.getD 0

/-- sum of a per-family quantity over all top-level HOGs -/
def famSum (H : Ham) (f : Node → Nat) : Nat := (H.tops.map fun p => f p.2).sum

def singletonsAt (H : Ham) (t : Taxon) : List Node := H.singletons.filter fun g => g.tx == t

/-! ### generic list facts -/

theorem c10_len_filter_flatMap {α β} (l : List α) (f : α → List β) (P : β → Bool) :
    ((l.flatMap f).filter P).length = (l.map fun x => ((f x).filter P).length).sum := by
  induction l with
  | nil => simp
  | cons x xs ih => simp [List.flatMap_cons, List.filter_append, ih]

theorem c10_len_filter_map {α β} (l : List α) (g : α → β) (P : β → Bool) :
    ((l.map g).filter P).length = (l.filter fun x => P (g x)).length := by
  rw [List.filter_map, List.length_map]; rfl

theorem c10_len_filterMap_map {α β γ} (l : List α) (g : α → γ) (p : γ → Bool) (f : γ → β) :
    ((l.map g).filterMap fun e => if p e then some (f e) else none).length =
      (l.filter fun x => p (g x)).length := by
  rw [List.filterMap_map]
  induction l with
  | nil => rfl
  | cons x xs ih =>
    simp only [List.filterMap_cons, List.filter_cons, Function.comp_apply]
    cases h : p (g x) <;> simp [ih]

theorem c10_len_filter_ite {α} (l : List α) (q : α → Bool) :
    (l.filter q).length = (l.map fun x => if q x then 1 else 0).sum := by
  induction l with
  | nil => rfl
  | cons x xs ih =>
    simp only [List.filter_cons, List.map_cons, List.sum_cons]
    cases h : q x <;> simp [ih]; omega

theorem c10_sum_sub {α} (l : List α) (f g : α → Nat) (h : ∀ x ∈ l, g x ≤ f x) :
    (l.map fun x => f x - g x).sum = (l.map f).sum - (l.map g).sum ∧ (l.map g).sum ≤ (l.map f).sum := by
  induction l with
  | nil => simp
  | cons x xs ih =>
    have h1 := h x (by simp)
    have ⟨h2, h3⟩ := ih (fun y hy => h y (by simp [hy]))
    simp only [List.map_cons, List.sum_cons]
    omega

theorem c10_filterMap_congr {α β} {l : List α} {f g : α → Option β} (h : ∀ x ∈ l, f x = g x) :
    l.filterMap f = l.filterMap g := by
  induction l with
  | nil => rfl
  | cons x xs ih =>
    simp only [List.filterMap_cons, h x (by simp), ih (fun y hy => h y (by simp [hy]))]

theorem c10_len_filterMap_le {α β} (l : List α) (g : α → Option β) (P : α → Bool)
    (h : ∀ x ∈ l, (g x).isSome = true → P x = true) : (l.filterMap g).length ≤ (l.filter P).length := by
  induction l with
  | nil => simp
  | cons x xs ih =>
    have ih := ih (fun y hy => h y (by simp [hy]))
    have hx := h x (by simp)
    simp only [List.filterMap_cons, List.filter_cons]
    cases hg : g x with
    | none => simp only []; split <;> simp <;> omega
    | some b =>
      have : P x = true := hx (by simp [hg])
      simp [this]; omega

theorem c10_mem_dedup {α} [BEq α] [LawfulBEq α] (x : α) : (l : List α) → (x ∈ dedup l ↔ x ∈ l)
  | [] => by simp [dedup]
  | y :: ys => by
    simp only [dedup, List.mem_cons, List.mem_filter, c10_mem_dedup x ys, bne_iff_ne, ne_eq]
    constructor
    · rintro (h | ⟨h, _⟩)
      · exact Or.inl h
      · exact Or.inr h
    · intro h
      by_cases hxy : x = y
      · exact Or.inl hxy
      · rcases h with h | h
        · exact Or.inl h
        · exact Or.inr ⟨h, hxy⟩

theorem c10_dedup_nodup {α} [BEq α] [LawfulBEq α] : (l : List α) → (dedup l).Nodup
  | [] => by simp [dedup]
  | y :: ys => by
    simp only [dedup, List.nodup_cons]
    exact ⟨by simp, (c10_dedup_nodup ys).sublist List.filter_sublist⟩

theorem c10_dedup_length_le {α} [BEq α] : (l : List α) → (dedup l).length ≤ l.length
  | [] => by simp [dedup]
  | y :: ys => by
    have h1 := c10_dedup_length_le ys
    have h2 := List.length_filter_le (fun z => z != y) (dedup ys)
    simp only [dedup, List.length_cons]
    omega

theorem c10_nodup_map_of_inj {α β} (f : α → β) {l : List α} (hn : l.Nodup)
    (hi : ∀ a ∈ l, ∀ b ∈ l, f a = f b → a = b) : (l.map f).Nodup := by
  unfold List.Nodup
  rw [List.pairwise_map]
  exact List.Pairwise.imp_of_mem (fun ha hb hab hf => hab (hi _ ha _ hb hf)) hn

/-! ### parents and children inside `locs` -/

theorem c10_locs_par : (n : Node) → (anc : List Node) → ∀ l ∈ locs anc n,
    l = ⟨n, anc⟩ ∨ ∃ y rest, l.anc = y :: rest ∧ l.node ∈ y.kids ∧ (⟨y, rest⟩ : Loc) ∈ locs anc n
  | .gene i t d lo, anc => by
    intro l hl; simp [locs] at hl; exact Or.inl hl
  | .hog info t d ks ds, anc => by
    intro l hl
    rcases mem_locs_hog.mp hl with rfl | hl'
    · exact Or.inl rfl
    · right
      obtain ⟨k, hk, hlk⟩ := mem_locsL.mp hl'
      rcases c10_locs_par k (.hog info t d ks ds :: anc) l hlk with rfl | ⟨y, rest, h1, h2, h3⟩
      · exact ⟨_, anc, rfl, by simpa [Node.kids] using hk, self_mem_locs _ _⟩
      · exact ⟨y, rest, h1, h2, mem_locs_hog.mpr (Or.inr (mem_locsL.mpr ⟨k, hk, h3⟩))⟩
termination_by n => sizeOf n
decreasing_by
  have := List.sizeOf_lt_of_mem hk
  simp +arith
  omega

theorem c10_locs_kid : (n : Node) → (anc : List Node) → ∀ x ∈ locs anc n, ∀ c ∈ x.node.kids,
    (⟨c, x.node :: x.anc⟩ : Loc) ∈ locs anc n
  | .gene i t d lo, anc => by
    intro x hx c hc; simp [locs] at hx; subst hx; simp [Node.kids] at hc
  | .hog info t d ks ds, anc => by
    intro x hx c hc
    rcases mem_locs_hog.mp hx with rfl | hx'
    · simp only [Node.kids] at hc
      exact mem_locs_hog.mpr (Or.inr (mem_locsL.mpr ⟨c, hc, self_mem_locs _ _⟩))
    · obtain ⟨k, hk, hxk⟩ := mem_locsL.mp hx'
      have := c10_locs_kid k (.hog info t d ks ds :: anc) x hxk c hc
      exact mem_locs_hog.mpr (Or.inr (mem_locsL.mpr ⟨k, hk, this⟩))
termination_by n => sizeOf n
decreasing_by
  have := List.sizeOf_lt_of_mem hk
  simp +arith
  omega

/-- the located root comes first, everything else has a non-empty ancestor list -/
theorem c10_locs_head (n : Node) (anc : List Node) :
    ∃ tl, locs anc n = ⟨n, anc⟩ :: tl ∧ ∀ l ∈ tl, (n :: anc) <:+ l.anc := by
  cases n with
  | gene i t d lo => exact ⟨[], by simp [locs], by simp⟩
  | hog info t d ks ds =>
    refine ⟨locsL (.hog info t d ks ds :: anc) ks, by simp [locs], ?_⟩
    intro l hl
    obtain ⟨k, _, hlk⟩ := mem_locsL.mp hl
    exact locs_anc_suffix k _ l hlk

/-- a list of located nodes closed under taking parents and children, hanging on chains, with
    distinct identities: `H.allLocs` and every `locs [] top` of a well-formed analysis -/
structure LClosed (L : List Loc) : Prop where
  par : ∀ l ∈ L, ∀ y rest, l.anc = y :: rest → (⟨y, rest⟩ : Loc) ∈ L ∧ l.node ∈ y.kids
  kid : ∀ x ∈ L, ∀ c ∈ x.node.kids, (⟨c, x.node :: x.anc⟩ : Loc) ∈ L
  chain : ∀ l ∈ L, Chain l.node.tx l.anc
  keys : (L.map fun l => l.node.key).Nodup

theorem LClosed.inj {L : List Loc} (h : LClosed L) {l1 l2 : Loc} (h1 : l1 ∈ L) (h2 : l2 ∈ L)
    (hk : l1.node.key = l2.node.key) : l1 = l2 :=
  inj_of_nodup_map _ h.keys h1 h2 hk

theorem c10_locs_par_nil (top : Node) (l : Loc) (hl : l ∈ locs [] top) (y : Node) (rest : List Node)
    (he : l.anc = y :: rest) : (⟨y, rest⟩ : Loc) ∈ locs [] top ∧ l.node ∈ y.kids := by
  rcases c10_locs_par top [] l hl with rfl | ⟨y', rest', h1, h2, h3⟩
  · simp at he
  · rw [he] at h1
    simp only [List.cons.injEq] at h1
    obtain ⟨rfl, rfl⟩ := h1
    exact ⟨h3, h2⟩

theorem c10_singleton_kids {H : Ham} {g : Node} (hg : g ∈ H.singletons) : g.kids = [] := by
  simp only [Ham.singletons, List.mem_map] at hg
  obtain ⟨g0, _, rfl⟩ := hg
  rfl

theorem c10_locs_sublist {H : Ham} {p : Option String × Node} (hp : p ∈ H.tops) :
    (locs [] p.2).Sublist H.allLocs := by
  obtain ⟨A, B, hAB⟩ := List.append_of_mem hp
  unfold Ham.allLocs
  rw [hAB, List.flatMap_append, List.flatMap_cons]
  exact ((List.sublist_append_left _ _).trans (List.sublist_append_right _ _)).trans
    (List.sublist_append_left _ _)

theorem c10_allLocs_closed {H : Ham} (hw : H.WFc) : LClosed H.allLocs where
  par := by
    intro l hl y rest he
    rcases mem_allLocs.mp hl with ⟨p, hp, hlp⟩ | ⟨g, _, rfl⟩
    · have := c10_locs_par_nil p.2 l hlp y rest he
      exact ⟨mem_allLocs.mpr (Or.inl ⟨p, hp, this.1⟩), this.2⟩
    · simp at he
  kid := by
    intro x hx c hc
    rcases mem_allLocs.mp hx with ⟨p, hp, hxp⟩ | ⟨g, hg, rfl⟩
    · exact mem_allLocs.mpr (Or.inl ⟨p, hp, c10_locs_kid p.2 [] x hxp c hc⟩)
    · rw [c10_singleton_kids hg] at hc; simp at hc
  chain := fun l hl => allLocs_chain hw hl
  keys := hw.keys

theorem c10_locs_closed {H : Ham} (hw : H.WFc) {p : Option String × Node} (hp : p ∈ H.tops) :
    LClosed (locs [] p.2) where
  par := fun l hl y rest he => c10_locs_par_nil p.2 l hl y rest he
  kid := fun x hx c hc => c10_locs_kid p.2 [] x hx c hc
  chain := fun l hl => chain_locs p.2 [] (hw.aligned p hp) trivial l hl
  keys := List.Nodup.sublist ((c10_locs_sublist hp).map _) hw.keys

/-! ### parents of the members of a genome -/

/-- in a closed list the parent of a member at `i :: u` lives at `u` -/
theorem LClosed.parent_tx {L : List Loc} (h : LClosed L) {l : Loc} (hl : l ∈ L) {i : Nat} {u : Taxon}
    (ht : l.node.tx = i :: u) {y : Node} {rest : List Node} (he : l.anc = y :: rest) : y.tx = u := by
  have := h.chain l hl
  rw [he, ht] at this
  obtain ⟨⟨j, hj⟩, _⟩ := this
  simp only [List.cons.injEq] at hj
  exact hj.2.symm

/-- who has a child (satisfying `q`) in genome `d`: seen from below and from above -/
theorem LClosed.child_iff {L : List Loc} (h : LClosed L) (d : Taxon) (q : Node → Bool) {x : Loc}
    (hx : x ∈ L) :
    (∃ l ∈ L, l.node.tx = d ∧ q l.node = true ∧ ∃ y, l.anc.head? = some y ∧ y.key = x.node.key) ↔
    ∃ c ∈ x.node.kids, c.tx = d ∧ q c = true := by
  constructor
  · rintro ⟨l, hl, ht, hq, y, hy, hk⟩
    obtain ⟨rest, he⟩ := List.head?_eq_some_iff.mp hy
    obtain ⟨hyl, hmem⟩ := h.par l hl y rest he
    have := h.inj hyl hx hk
    subst this
    exact ⟨l.node, hmem, ht, hq⟩
  · rintro ⟨c, hc, ht, hq⟩
    exact ⟨⟨c, x.node :: x.anc⟩, h.kid x hx c hc, ht, hq, x.node, rfl, rfl⟩

/-- `x` has a child in genome `d` that satisfies `q` -/
def Pkid (d : Taxon) (q : Node → Bool) (x : Loc) : Bool := x.node.kids.any fun c => c.tx == d && q c

theorem LClosed.parKeys_iff {L : List Loc} (h : LClosed L) (i : Nat) (u : Taxon) (q : Node → Bool) (k : Key) :
    (∃ l ∈ L, l.node.tx = i :: u ∧ q l.node = true ∧ ∃ y, l.anc.head? = some y ∧ y.key = k) ↔
    k ∈ ((L.filter fun x => x.node.tx == u).filter (Pkid (i :: u) q)).map fun x => x.node.key := by
  simp only [List.mem_map, List.mem_filter, beq_iff_eq]
  constructor
  · rintro ⟨l, hl, ht, hq, y, hy, hk⟩
    obtain ⟨rest, he⟩ := List.head?_eq_some_iff.mp hy
    obtain ⟨hyl, hmem⟩ := h.par l hl y rest he
    refine ⟨⟨y, rest⟩, ⟨⟨hyl, h.parent_tx hl ht he⟩, ?_⟩, hk⟩
    simp only [Pkid, List.any_eq_true, Bool.and_eq_true, beq_iff_eq]
    exact ⟨l.node, hmem, ht, hq⟩
  · rintro ⟨x, ⟨⟨hx, _⟩, hp⟩, hk⟩
    simp only [Pkid, List.any_eq_true, Bool.and_eq_true, beq_iff_eq] at hp
    obtain ⟨l, hl, ht, hq, y, hy, hyk⟩ := (h.child_iff (i :: u) q hx).mpr hp
    exact ⟨l, hl, ht, hq, y, hy, hyk.trans hk⟩

/-! ### the vertical comparison with the parent node, as counts over the two genomes -/

theorem c10_search {H : Ham} (hw : H.WFc) {l : Loc} (hl : l ∈ H.allLocs) {i : Nat} {u : Taxon}
    (ht : l.node.tx = i :: u) : search u l = (l.anc.head?, l.node.dup.isSome) := by
  unfold search
  cases he : l.anc with
  | nil => simp [searchUp]
  | cons y rest =>
    have := (c10_allLocs_closed hw).parent_tx hl ht he
    simp [searchUp, this]

theorem c10_upOf {H : Ham} (hw : H.WFc) (i : Nat) (u : Taxon) :
    upOf H u (i :: u) = (H.nodesAt (i :: u)).map fun l => (l.node, l.anc.head?, l.node.dup.isSome) := by
  unfold upOf
  apply List.map_congr_left
  intro l hl
  simp only [Ham.nodesAt, List.mem_filter, beq_iff_eq] at hl
  rw [c10_search hw hl.1 hl.2]

theorem c10_G_gain {H : Ham} (hw : H.WFc) (i : Nat) (u : Taxon) :
    (hogsMap H u (i :: u)).gain.length = ((H.nodesAt (i :: u)).filter fun l => l.anc.isEmpty).length := by
  rw [(hogsMap_clusters H u (i :: u)).1, clusters_gain, c10_upOf hw]
  refine (c10_len_filterMap_map _ _ (fun (e : UpEntry) => e.2.1.isNone) (fun e => e.1)).trans ?_
  congr 1
  apply List.filter_congr
  intro l _
  cases l.anc <;> rfl

theorem c10_G_dupl {H : Ham} (hw : H.WFc) (i : Nat) (u : Taxon) :
    ((hogsMap H u (i :: u)).dupl.map (·.2.length)).sum =
      ((H.nodesAt (i :: u)).filter fun l => !l.anc.isEmpty && l.node.dup.isSome).length := by
  have e1 : ((hogsMap H u (i :: u)).dupl.map (·.2.length)).sum =
      ((hogsMap H u (i :: u)).dupl.flatMap (·.2)).length := (sum_lengths_flatMap _ _).symm
  rw [e1, (hogsMap_clusters H u (i :: u)).2.2.1, (clusters_dupl_values _).length_eq, c10_upOf hw]
  refine (c10_len_filterMap_map _ _ (fun (e : UpEntry) => e.2.1.isSome && e.2.2) (fun e => e.1)).trans ?_
  congr 1
  apply List.filter_congr
  intro l _
  cases l.anc <;> rfl

theorem c10_G_retained {H : Ham} (hw : H.WFc) (i : Nat) (u : Taxon) :
    (hogsMap H u (i :: u)).retained.length =
      ((H.nodesAt (i :: u)).filter fun l => !l.anc.isEmpty && !l.node.dup.isSome).length := by
  have e1 : (hogsMap H u (i :: u)).retained.length =
      ((hogsMap H u (i :: u)).retained.map (·.2)).length := (List.length_map _).symm
  rw [e1, (hogsMap_clusters H u (i :: u)).2.1,
    (clusters_retained_values _ (upOf_noClash hw u (i :: u))).length_eq, c10_upOf hw]
  refine (c10_len_filterMap_map _ _ (fun (e : UpEntry) => e.2.1.isSome && !e.2.2) (fun e => e.1)).trans ?_
  congr 1
  apply List.filter_congr
  intro l _
  cases l.anc <;> rfl

theorem c10_G_loss {H : Ham} (hw : H.WFc) (i : Nat) (u : Taxon) :
    (hogsMap H u (i :: u)).loss.length =
      ((H.nodesAt u).filter fun x => !(x.node.kids.any fun c => c.tx == i :: u)).length := by
  rw [(hogsMap_clusters H u (i :: u)).2.2.2.1, c10_len_filter_map]
  congr 1
  apply List.filter_congr
  intro x hx
  have hxL : x ∈ H.allLocs := (List.mem_filter.mp hx).1
  have key := (c10_allLocs_closed hw).child_iff (i :: u) (fun _ => true) hxL
  congr 1
  rw [Bool.eq_iff_iff, List.contains_iff_mem, clusters_seen, c10_upOf hw, List.any_eq_true]
  constructor
  · intro hk
    obtain ⟨e, he, hek⟩ := List.mem_filterMap.mp hk
    obtain ⟨l, hl, rfl⟩ := List.mem_map.mp he
    obtain ⟨y, hy, hyk⟩ := Option.map_eq_some_iff.mp hek
    have hl' := List.mem_filter.mp hl
    obtain ⟨c, hc, hct, _⟩ := key.mp ⟨l, hl'.1, by simpa using hl'.2, rfl, y, hy, hyk⟩
    exact ⟨c, hc, by simp [hct]⟩
  · rintro ⟨c, hc, hct⟩
    obtain ⟨l, hl, ht, _, y, hy, hyk⟩ := key.mpr ⟨c, hc, by simpa using hct, rfl⟩
    exact List.mem_filterMap.mpr ⟨(l.node, l.anc.head?, l.node.dup.isSome),
      List.mem_map.mpr ⟨l, by simp [Ham.nodesAt, hl, ht], rfl⟩, by simp [hy, hyk]⟩

theorem c10_G_ndupl {H : Ham} (hw : H.WFc) (i : Nat) (u : Taxon) :
    (hogsMap H u (i :: u)).dupl.length =
      ((H.nodesAt u).filter (Pkid (i :: u) fun c => c.dup.isSome)).length := by
  have hc := c10_allLocs_closed hw
  have hn1 := (clusters_keys_nodup (upOf H u (i :: u))).2
  have hn2 : (((H.nodesAt u).filter (Pkid (i :: u) fun c => c.dup.isSome)).map fun x => x.node.key).Nodup :=
    List.Nodup.sublist (((List.filter_sublist).trans List.filter_sublist).map _) hw.keys
  have hp := (List.perm_ext_iff_of_nodup hn1 hn2).mpr (by
    intro k
    rw [clusters_dupl_keys]
    refine Iff.trans ?_ (hc.parKeys_iff i u (fun c => c.dup.isSome) k)
    rw [c10_upOf hw]
    constructor
    · rintro ⟨e, he, y, hy, hyk, hf⟩
      obtain ⟨l, hl, rfl⟩ := List.mem_map.mp he
      have hl' := List.mem_filter.mp hl
      exact ⟨l, hl'.1, by simpa using hl'.2, hf, y, hy, hyk⟩
    · rintro ⟨l, hl, ht, hq, y, hy, hyk⟩
      exact ⟨(l.node, l.anc.head?, l.node.dup.isSome),
        List.mem_map.mpr ⟨l, by simp [Ham.nodesAt, hl, ht], rfl⟩, y, hy, hyk, hq⟩)
  have := hp.length_eq
  simp only [List.length_map] at this
  rw [(hogsMap_clusters H u (i :: u)).2.2.1]
  exact this

/-! ### splitting a count over a genome into families and singletons -/

theorem c10_split (H : Ham) (t : Taxon) (Q : Loc → Bool) :
    ((H.nodesAt t).filter Q).length =
      famSum H (fun top => (((locs [] top).filter fun l => l.node.tx == t).filter Q).length) +
      ((singletonsAt H t).filter fun g => Q ⟨g, []⟩).length := by
  unfold Ham.nodesAt Ham.allLocs famSum singletonsAt
  rw [List.filter_append, List.filter_append, List.length_append]
  congr 1
  · rw [List.filter_filter, c10_len_filter_flatMap]
    congr 1
    apply List.map_congr_left
    intro p _
    simp only [List.filter_filter]
  · rw [List.filter_filter, c10_len_filter_map, List.filter_filter]

theorem c10_famSum_congr (H : Ham) (f g : Node → Nat) (h : ∀ p ∈ H.tops, f p.2 = g p.2) :
    famSum H f = famSum H g := by
  unfold famSum
  congr 1
  exact List.map_congr_left h

/-! ### one family -/

theorem c10_root_of_anc_nil (top : Node) (l : Loc) (hl : l ∈ locs [] top) (he : l.anc = []) :
    l = ⟨top, []⟩ := by
  rcases c10_locs_par top [] l hl with h | ⟨y, rest, h1, _⟩
  · exact h
  · rw [he] at h1; simp at h1

theorem c10_below_root (top : Node) (ha : top.aligned = true) (l : Loc) (hl : l ∈ locs [] top)
    (he : l.anc ≠ []) : top.tx.length < l.node.tx.length := by
  cases h : l.anc with
  | nil => exact absurd h he
  | cons y rest =>
    obtain ⟨hy, _⟩ := c10_locs_par_nil top l hl y rest h
    have h1 := (locs_tx_suffix top [] ha _ hy).length_le
    have h2 := chain_locs top [] ha trivial l hl
    rw [h] at h2
    obtain ⟨⟨j, hj⟩, _⟩ := h2
    rw [hj]
    simp only [List.length_cons] at h1 ⊢
    omega

/-- among the members of a family living at `d`, only the root has no parent -/
theorem c10_isEmpty_eq (top : Node) (ha : top.aligned = true) (l : Loc) (hl : l ∈ locs [] top)
    (d : Taxon) (ht : l.node.tx = d) : l.anc.isEmpty = (d == top.tx) := by
  rw [Bool.eq_iff_iff, List.isEmpty_iff, beq_iff_eq]
  constructor
  · intro he
    have := c10_root_of_anc_nil top l hl he
    rw [← ht, this]
  · intro hd
    by_cases he : l.anc = []
    · exact he
    · have := c10_below_root top ha l hl he
      rw [ht, hd] at this
      omega

theorem c10_levelGroup (top : Node) (t : Taxon) :
    levelGroup top t = ((locs [] top).filter fun l => l.node.tx == t).map Loc.node := by
  unfold levelGroup
  rw [← locs_nodes top [], List.filter_map]
  rfl

theorem c10_profile_nbr (top : Node) (t : Taxon) :
    (profileHogAt top t).nbr = (levelGroup top t).length := by
  unfold profileHogAt
  simp only []
  split
  · rfl
  · split <;> rfl

theorem c10_F_nbr (top : Node) (t : Taxon) :
    (profileHogAt top t).nbr = ((locs [] top).filter fun l => l.node.tx == t).length := by
  rw [c10_profile_nbr, c10_levelGroup, List.length_map]

theorem c10_profile_root (top : Node) (t : Taxon) (h : (t == top.tx) = true) :
    profileHogAt top t = { tx := t, nbr := (levelGroup top t).length } := by
  simp [profileHogAt, h]

theorem c10_profile_inner (top : Node) (i : Nat) (u : Taxon) (h : ((i :: u) == top.tx) = false) :
    (profileHogAt top (i :: u)).dupl = some ((levelGroup top (i :: u)).filter (·.dup.isSome)).length ∧
    (profileHogAt top (i :: u)).retained = some ((levelGroup top (i :: u)).filter (!·.dup.isSome)).length ∧
    (profileHogAt top (i :: u)).lost =
      some ((levelGroup top u).filter fun hu => !(hu.kids.any fun c => c.tx == i :: u)).length ∧
    (profileHogAt top (i :: u)).duplication =
      some (((levelGroup top (i :: u)).filter (·.dup.isSome)).length -
        (dupParents top (levelGroup top (i :: u))).length) := by
  simp [profileHogAt, h, Taxon.up]

theorem c10_F_gain (top : Node) (d : Taxon) :
    (((locs [] top).filter fun l => l.node.tx == d).filter fun l => l.anc.isEmpty).length =
      if top.tx == d then 1 else 0 := by
  obtain ⟨tl, h1, h2⟩ := c10_locs_head top []
  rw [h1, List.filter_filter, List.filter_cons]
  have : tl.filter (fun l => l.anc.isEmpty && l.node.tx == d) = [] := by
    rw [List.filter_eq_nil_iff]
    intro l hl
    obtain ⟨q, hq⟩ := h2 l hl
    simp [← hq]
  rw [this]
  cases top.tx == d <;> simp

theorem c10_no_member_above (top : Node) (ha : top.aligned = true) (i : Nat) (u : Taxon)
    (h : ((i :: u) == top.tx) = true) : ((locs [] top).filter fun l => l.node.tx == u) = [] := by
  rw [List.filter_eq_nil_iff]
  intro l hl ht
  have h1 := (locs_tx_suffix top [] ha l hl).length_le
  rw [beq_iff_eq] at h ht
  rw [← h, ht] at h1
  simp at h1
  omega

theorem c10_F_dupl (top : Node) (ha : top.aligned = true) (i : Nat) (u : Taxon) :
    on (profileHogAt top (i :: u)).dupl =
      (((locs [] top).filter fun l => l.node.tx == i :: u).filter
        fun l => !l.anc.isEmpty && l.node.dup.isSome).length := by
  cases h : ((i :: u) == top.tx) with
  | true =>
    rw [c10_profile_root _ _ h]
    have : (((locs [] top).filter fun l => l.node.tx == i :: u).filter
        fun l => !l.anc.isEmpty && l.node.dup.isSome) = [] := by
      rw [List.filter_eq_nil_iff]
      intro l hl
      simp only [List.mem_filter, beq_iff_eq] at hl
      rw [c10_isEmpty_eq top ha l hl.1 _ hl.2, h]
      simp
    rw [this]; rfl
  | false =>
    rw [(c10_profile_inner top i u h).1, c10_levelGroup, c10_len_filter_map]
    simp only [on, Option.getD_some]
    congr 1
    apply List.filter_congr
    intro l hl
    simp only [List.mem_filter, beq_iff_eq] at hl
    rw [c10_isEmpty_eq top ha l hl.1 _ hl.2, h]
    simp

theorem c10_F_retained (top : Node) (ha : top.aligned = true) (i : Nat) (u : Taxon) :
    on (profileHogAt top (i :: u)).retained =
      (((locs [] top).filter fun l => l.node.tx == i :: u).filter
        fun l => !l.anc.isEmpty && !l.node.dup.isSome).length := by
  cases h : ((i :: u) == top.tx) with
  | true =>
    rw [c10_profile_root _ _ h]
    have : (((locs [] top).filter fun l => l.node.tx == i :: u).filter
        fun l => !l.anc.isEmpty && !l.node.dup.isSome) = [] := by
      rw [List.filter_eq_nil_iff]
      intro l hl
      simp only [List.mem_filter, beq_iff_eq] at hl
      rw [c10_isEmpty_eq top ha l hl.1 _ hl.2, h]
      simp
    rw [this]; rfl
  | false =>
    rw [(c10_profile_inner top i u h).2.1, c10_levelGroup, c10_len_filter_map]
    simp only [on, Option.getD_some]
    congr 1
    apply List.filter_congr
    intro l hl
    simp only [List.mem_filter, beq_iff_eq] at hl
    rw [c10_isEmpty_eq top ha l hl.1 _ hl.2, h]
    simp

theorem c10_F_lost (top : Node) (ha : top.aligned = true) (i : Nat) (u : Taxon) :
    on (profileHogAt top (i :: u)).lost =
      (((locs [] top).filter fun l => l.node.tx == u).filter
        fun x => !(x.node.kids.any fun c => c.tx == i :: u)).length := by
  cases h : ((i :: u) == top.tx) with
  | true =>
    rw [c10_profile_root _ _ h, c10_no_member_above top ha i u h]
    rfl
  | false =>
    rw [(c10_profile_inner top i u h).2.2.1, c10_levelGroup, c10_len_filter_map]
    rfl

theorem c10_grp_any (top : Node) (hc : LClosed (locs [] top)) (l : Loc) (hl : l ∈ locs [] top) (t : Taxon) :
    (levelGroup top t).any (fun n => n.key == l.node.key) = (l.node.tx == t) := by
  rw [Bool.eq_iff_iff, List.any_eq_true, c10_levelGroup]
  simp only [List.mem_map, List.mem_filter, beq_iff_eq]
  constructor
  · rintro ⟨n, ⟨l', ⟨hl', ht'⟩, rfl⟩, hk⟩
    have := hc.inj hl' hl hk
    subst this
    exact ht'
  · intro ht
    exact ⟨l.node, ⟨l, ⟨hl, ht⟩, rfl⟩, rfl⟩

theorem c10_F_duplication (top : Node) (ha : top.aligned = true) (hc : LClosed (locs [] top))
    (i : Nat) (u : Taxon) :
    on (profileHogAt top (i :: u)).duplication =
      (((locs [] top).filter fun l => l.node.tx == i :: u).filter
        fun l => !l.anc.isEmpty && l.node.dup.isSome).length -
      (((locs [] top).filter fun l => l.node.tx == u).filter
        (Pkid (i :: u) fun c => c.dup.isSome)).length ∧
    (((locs [] top).filter fun l => l.node.tx == u).filter
        (Pkid (i :: u) fun c => c.dup.isSome)).length ≤
      (((locs [] top).filter fun l => l.node.tx == i :: u).filter
        fun l => !l.anc.isEmpty && l.node.dup.isSome).length := by
  have hA := c10_F_dupl top ha i u
  cases h : ((i :: u) == top.tx) with
  | true =>
    rw [c10_profile_root _ _ h] at hA ⊢
    rw [c10_no_member_above top ha i u h]
    simp only [on, Option.getD_none] at hA ⊢
    rw [← hA]
    simp
  | false =>
    rw [(c10_profile_inner top i u h).1] at hA
    rw [(c10_profile_inner top i u h).2.2.2]
    simp only [on, Option.getD_some] at hA ⊢
    rw [← hA]
    -- the parents of the flagged members, counted by identity
    have hY : dupParents top (levelGroup top (i :: u)) =
        dedup ((locs [] top).filterMap fun l =>
          if l.node.dup.isSome && l.node.tx == i :: u then l.anc.head?.map Node.key else none) := by
      unfold dupParents dedupKeys
      congr 1
      apply c10_filterMap_congr
      intro l hl
      rw [c10_grp_any top hc l hl]
    have hn2 : ((((locs [] top).filter fun l => l.node.tx == u).filter
        (Pkid (i :: u) fun c => c.dup.isSome)).map fun x => x.node.key).Nodup :=
      List.Nodup.sublist (((List.filter_sublist).trans List.filter_sublist).map _) hc.keys
    have hp := (List.perm_ext_iff_of_nodup (c10_dedup_nodup ((locs [] top).filterMap fun l =>
          if l.node.dup.isSome && l.node.tx == i :: u then l.anc.head?.map Node.key else none)) hn2).mpr (by
      intro k
      rw [c10_mem_dedup]
      refine Iff.trans ?_ (hc.parKeys_iff i u (fun c => c.dup.isSome) k)
      simp only [List.mem_filterMap]
      constructor
      · rintro ⟨l, hl, hg⟩
        split at hg
        · rename_i hcond
          simp only [Bool.and_eq_true, beq_iff_eq] at hcond
          obtain ⟨y, hy, hyk⟩ := Option.map_eq_some_iff.mp hg
          exact ⟨l, hl, hcond.2, hcond.1, y, hy, hyk⟩
        · simp at hg
      · rintro ⟨l, hl, ht, hq, y, hy, hyk⟩
        exact ⟨l, hl, by simp [hq, ht, hy, hyk]⟩)
    have hB := hp.length_eq
    simp only [List.length_map] at hB
    rw [hY, hB]
    refine ⟨rfl, ?_⟩
    rw [← hB]
    refine Nat.le_trans (c10_dedup_length_le _) ?_
    rw [c10_levelGroup, c10_len_filter_map, List.filter_filter]
    apply c10_len_filterMap_le
    intro l _ hs
    split at hs
    · assumption
    · simp at hs

/-! ### singletons -/

theorem c10_internal_not_leaf (T : STree) (i : Nat) (u : Taxon) (ht : (i :: u) ∈ T.allTaxa) :
    T.isLeafAt u = false := by
  rw [mem_allTaxa_iff] at ht
  unfold STree.isLeafAt
  cases hs : T.sub u with
  | none => rfl
  | some t =>
    cases t with
    | node n ks =>
      rw [sub_cons T u i n ks hs] at ht
      cases ks with
      | nil => simp at ht
      | cons k ks => simp [STree.isLeaf, STree.kids]

/-- singletons live at leaves: the parent of a node of the tree holds none -/
theorem c10_no_singleton_internal (H : Ham) (hw : H.wf = true) (i : Nat) (u : Taxon)
    (ht : (i :: u) ∈ H.tree.allTaxa) : singletonsAt H u = [] := by
  unfold singletonsAt
  rw [List.filter_eq_nil_iff]
  intro g hg hgt
  simp only [Ham.singletons, List.mem_map, List.mem_filter] at hg
  obtain ⟨g0, ⟨hg0, _⟩, rfl⟩ := hg
  simp only [Ham.wf, Bool.and_eq_true, List.all_eq_true] at hw
  have := hw.2 g0 hg0
  simp only [Node.tx, beq_iff_eq] at hgt
  rw [hgt, c10_internal_not_leaf _ i u ht] at this
  exact Bool.noConfusion this

theorem c10_singletonsAt_kids {H : Ham} {t : Taxon} {g : Node} (hg : g ∈ singletonsAt H t) : g.kids = [] :=
  c10_singleton_kids (List.mem_filter.mp hg).1

/-! ### the identities -/

/-- **C10 (additivity), general form**: at the node `i :: u` (parent `u`), for any `i`, `u`.  The
    singletons sitting at `u` itself (possible only when `u` is a leaf, i.e. `i :: u` is not a node of
    the tree) are all reported lost by the comparison and belong to no family. -/
theorem C10_additivity_general (H : Ham) (hw : H.wf = true) (i : Nat) (u : Taxon) :
    (H.nodesAt (i :: u)).length =
        famSum H (fun top => (profileHogAt top (i :: u)).nbr) + (singletonsAt H (i :: u)).length ∧
    (hogsMap H u (i :: u)).gain.length =
        (H.tops.filter fun p => p.2.tx == i :: u).length + (singletonsAt H (i :: u)).length ∧
    ((hogsMap H u (i :: u)).dupl.map (·.2.length)).sum = famSum H (fun top => on (profileHogAt top (i :: u)).dupl) ∧
    (hogsMap H u (i :: u)).retained.length = famSum H (fun top => on (profileHogAt top (i :: u)).retained) ∧
    (hogsMap H u (i :: u)).loss.length =
        famSum H (fun top => on (profileHogAt top (i :: u)).lost) + (singletonsAt H u).length ∧
    (hogsMap H u (i :: u)).ndup = famSum H (fun top => on (profileHogAt top (i :: u)).duplication) := by
  have hc := H.wf_WFc hw
  have hal : ∀ p ∈ H.tops, p.2.aligned = true := hc.aligned
  have hcl : ∀ p ∈ H.tops, LClosed (locs [] p.2) := fun p hp => c10_locs_closed hc hp
  -- total copies and number of duplicated ancestors, split by family
  have hS := c10_G_dupl hc i u
  rw [c10_split] at hS
  have hS0 : ((singletonsAt H (i :: u)).filter fun g =>
      !(⟨g, []⟩ : Loc).anc.isEmpty && (⟨g, []⟩ : Loc).node.dup.isSome) = [] := by
    rw [List.filter_eq_nil_iff]; intro g _; simp
  rw [hS0, List.length_nil, Nat.add_zero] at hS
  have hD := c10_G_ndupl hc i u
  rw [c10_split] at hD
  have hD0 : ((singletonsAt H u).filter fun g => Pkid (i :: u) (fun c => c.dup.isSome) ⟨g, []⟩) = [] := by
    rw [List.filter_eq_nil_iff]; intro g hg; simp [Pkid, c10_singletonsAt_kids hg]
  rw [hD0, List.length_nil, Nat.add_zero] at hD
  refine ⟨?_, ?_, ?_, ?_, ?_, ?_⟩
  · have h := c10_split H (i :: u) (fun _ => true)
    have e : ∀ (l : List Loc), l.filter (fun _ => true) = l :=
      fun l => List.filter_eq_self.mpr (fun _ _ => rfl)
    have e' : ∀ (l : List Node), l.filter (fun _ => true) = l :=
      fun l => List.filter_eq_self.mpr (fun _ _ => rfl)
    simp only [e, e'] at h
    rw [h]
    congr 1
    apply c10_famSum_congr
    intro p _
    exact (c10_F_nbr p.2 _).symm
  · rw [c10_G_gain hc, c10_split]
    congr 1
    · rw [c10_len_filter_ite]
      unfold famSum
      congr 1
      apply List.map_congr_left
      intro p _
      exact c10_F_gain p.2 _
    · simp
  · rw [hS]
    apply c10_famSum_congr
    intro p hp
    exact (c10_F_dupl p.2 (hal p hp) i u).symm
  · rw [c10_G_retained hc, c10_split]
    have h0 : ((singletonsAt H (i :: u)).filter fun g =>
        !(⟨g, []⟩ : Loc).anc.isEmpty && !(⟨g, []⟩ : Loc).node.dup.isSome) = [] := by
      rw [List.filter_eq_nil_iff]; intro g _; simp
    rw [h0, List.length_nil, Nat.add_zero]
    apply c10_famSum_congr
    intro p hp
    exact (c10_F_retained p.2 (hal p hp) i u).symm
  · rw [c10_G_loss hc, c10_split]
    congr 1
    · apply c10_famSum_congr
      intro p hp
      exact (c10_F_lost p.2 (hal p hp) i u).symm
    · congr 1
      rw [List.filter_eq_self]
      intro g hg
      simp [c10_singletonsAt_kids hg]
  · have hn := (hogsMap_clusters H u (i :: u)).2.2.2.2
    have hd := (hogsMap_clusters H u (i :: u)).2.2.1
    have h3 := countDup_eq (hogsMap H u (i :: u)).dupl (by rw [hd]; exact clusters_dupl_nonempty _)
    rw [← hd] at hn
    have hsub := c10_sum_sub H.tops
      (fun p => (((locs [] p.2).filter fun l => l.node.tx == i :: u).filter
        fun l => !l.anc.isEmpty && l.node.dup.isSome).length)
      (fun p => (((locs [] p.2).filter fun l => l.node.tx == u).filter
        (Pkid (i :: u) fun c => c.dup.isSome)).length)
      (fun p hp => (c10_F_duplication p.2 (hal p hp) (hcl p hp) i u).2)
    have hF : famSum H (fun top => on (profileHogAt top (i :: u)).duplication) =
        (H.tops.map fun p => (((locs [] p.2).filter fun l => l.node.tx == i :: u).filter
          fun l => !l.anc.isEmpty && l.node.dup.isSome).length -
          (((locs [] p.2).filter fun l => l.node.tx == u).filter
            (Pkid (i :: u) fun c => c.dup.isSome)).length).sum := by
      unfold famSum
      congr 1
      apply List.map_congr_left
      intro p hp
      exact (c10_F_duplication p.2 (hal p hp) (hcl p hp) i u).1
    rw [hF, hsub.1]
    have hS' : ((hogsMap H u (i :: u)).dupl.map (·.2.length)).sum =
        (H.tops.map fun p => (((locs [] p.2).filter fun l => l.node.tx == i :: u).filter
          fun l => !l.anc.isEmpty && l.node.dup.isSome).length).sum := hS
    have hD' : (hogsMap H u (i :: u)).dupl.length =
        (H.tops.map fun p => (((locs [] p.2).filter fun l => l.node.tx == u).filter
          (Pkid (i :: u) fun c => c.dup.isSome)).length).sum := hD
    omega

/-- **C10 (additivity)** at a node `i :: u` of the tree (parent `u`) -/
theorem C10_additivity_partial (H : Ham) (hw : H.wf = true) (i : Nat) (u : Taxon)
    (ht : (i :: u) ∈ H.tree.allTaxa) :
    (H.nodesAt (i :: u)).length =
        famSum H (fun top => (profileHogAt top (i :: u)).nbr) + (singletonsAt H (i :: u)).length ∧
    (hogsMap H u (i :: u)).gain.length =
        (H.tops.filter fun p => p.2.tx == i :: u).length + (singletonsAt H (i :: u)).length ∧
    ((hogsMap H u (i :: u)).dupl.map (·.2.length)).sum = famSum H (fun top => on (profileHogAt top (i :: u)).dupl) ∧
    (hogsMap H u (i :: u)).retained.length = famSum H (fun top => on (profileHogAt top (i :: u)).retained) ∧
    (hogsMap H u (i :: u)).loss.length = famSum H (fun top => on (profileHogAt top (i :: u)).lost) ∧
    (hogsMap H u (i :: u)).ndup = famSum H (fun top => on (profileHogAt top (i :: u)).duplication) := by
  have h := C10_additivity_general H hw i u
  rw [c10_no_singleton_internal H hw i u ht, List.length_nil, Nat.add_zero] at h
  exact h

/-- in terms of the whole-dataset profile -/
theorem C10_profiles_add_up (H : Ham) (hw : H.wf = true) (hs : H.sizesExact = true) (i : Nat) (u : Taxon)
    (ht : (i :: u) ∈ H.tree.allTaxa) :
    (profileFullAt H (i :: u)).nbr =
        famSum H (fun top => (profileHogAt top (i :: u)).nbr) + (singletonsAt H (i :: u)).length ∧
    on (profileFullAt H (i :: u)).gain =
        (H.tops.filter fun p => p.2.tx == i :: u).length + (singletonsAt H (i :: u)).length ∧
    on (profileFullAt H (i :: u)).dupl = famSum H (fun top => on (profileHogAt top (i :: u)).dupl) ∧
    on (profileFullAt H (i :: u)).retained = famSum H (fun top => on (profileHogAt top (i :: u)).retained) ∧
    on (profileFullAt H (i :: u)).lost = famSum H (fun top => on (profileHogAt top (i :: u)).lost) ∧
    on (profileFullAt H (i :: u)).duplication = famSum H (fun top => on (profileHogAt top (i :: u)).duplication) := by
  have hA := C10_additivity_partial H hw i u ht
  have hsz : H.genomeSize (i :: u) = (H.nodesAt (i :: u)).length := by
    simp only [Ham.sizesExact, List.all_eq_true, beq_iff_eq] at hs
    exact hs _ ht
  have e : profileFullAt H (i :: u) =
      { tx := i :: u, nbr := H.genomeSize (i :: u),
        dupl := some ((hogsMap H u (i :: u)).dupl.map (·.2.length)).sum,
        lost := some (hogsMap H u (i :: u)).loss.length,
        gain := some (hogsMap H u (i :: u)).gain.length,
        retained := some (hogsMap H u (i :: u)).retained.length,
        duplication := some (hogsMap H u (i :: u)).ndup,
        nbrEvents := some ((hogsMap H u (i :: u)).ndup + (hogsMap H u (i :: u)).loss.length +
          (hogsMap H u (i :: u)).gain.length) } := rfl
  rw [e]
  simp only [on, Option.getD_some]
  rw [hsz]
  exact hA

/-- one species tree `r(A,B)`, no family, one singleton gene in `A = [0]` -/
def c10_cex : Ham where
  tree := STree.node "r" [STree.node "A" [], STree.node "B" []]
  naming := Naming.own
  tops := []
  genes := [{ id := "g", species := "A", tx := [0], xrefs := [] }]
  reg := []

/-- without `(i :: u) ∈ H.tree.allTaxa` the loss identity fails: comparing the leaf `u = [0]` with the
    non-existent node `[0, 0]` reports the singleton of `[0]` as lost, and it belongs to no family -/
theorem C10_additivity_needs_tree_node :
    ¬ ∀ (H : Ham) (_ : H.wf = true) (i : Nat) (u : Taxon),
      (hogsMap H u (i :: u)).loss.length = famSum H (fun top => on (profileHogAt top (i :: u)).lost) := by
  intro h
  have := h c10_cex (by decide) 0 [0]
  revert this
  decide

end Pyham
