/-
  C06, the cluster side: what exactly is stored in RETAINED and DUPLICATE.
  `C06_reported_under` characterises the upward search; the theorems here tie the two dictionaries of a
  comparison to the search: a pair is in RETAINED iff the search of the descendant gene ends, unflagged, at
  that ancestor; a gene is in the DUPLICATE list of an ancestor iff its search ends, flagged, at that ancestor.
-/
import PyhamModel.Lemmas.Partition
namespace Pyham

/-- the unflagged entries of an upMap as (ancestor, descendant) pairs -/
def retPairs (up : List UpEntry) : List (Node × Node) :=
  up.filterMap fun e => match e with
    | (hy, some ho, false) => some (ho, hy)
    | _ => none

theorem retPut_absent (d : List (Node × Node)) (ho hy : Node) (h : ho.key ∉ d.map (·.1.key)) :
    retPut d ho hy = d ++ [(ho, hy)] := by
  unfold retPut
  rw [if_neg (fun h' => h ((any_key_iff d ho.key).1 h'))]

/-- without clash nothing is overwritten: RETAINED is exactly the list of unflagged entries, in order -/
theorem clusters_retained_pairs (up : List UpEntry) (h : NoClash up) :
    (clustersOf up).retained = retPairs up := by
  induction up using snoc_induction with
  | nil => rfl
  | snoc up e ih =>
    obtain ⟨h1, h2⟩ := NoClash_snoc h
    have ih := ih h1
    rw [clustersOf_snoc]
    unfold retPairs at ih ⊢
    rw [List.filterMap_append]
    rcases e with ⟨hy, _ | ho, _ | _⟩ <;> simp only [clusterStep]
    · simpa using ih
    · simpa using ih
    · have hk : ho.key ∉ (clustersOf up).retained.map (·.1.key) := by
        intro hin
        rw [clusters_retained_keys] at hin
        obtain ⟨e1, he1, x, hx, hxk, _⟩ := hin
        have := (h2 e1 he1 x ho hx rfl hxk).2
        simp at this
      rw [retPut_absent _ ho hy hk, ih]
      simp
    · simpa using ih

theorem mem_retPairs (up : List UpEntry) (x n : Node) :
    (x, n) ∈ retPairs up ↔ (n, some x, false) ∈ up := by
  unfold retPairs
  rw [List.mem_filterMap]
  constructor
  · rintro ⟨⟨hy, _ | ho, _ | _⟩, he, hm⟩ <;> simp at hm
    obtain ⟨rfl, rfl⟩ := hm
    exact he
  · intro he
    exact ⟨_, he, rfl⟩

/-- one dictionary update of DUPLICATE, membership-wise -/
theorem dupPut_mem (d : List (Node × List Node)) (ho hy : Node) (k : Key) (y : Node) :
    (∃ e ∈ dupPut d ho hy, e.1.key = k ∧ y ∈ e.2) ↔
      (∃ e ∈ d, e.1.key = k ∧ y ∈ e.2) ∨ (ho.key = k ∧ y = hy) := by
  unfold dupPut
  by_cases h : ho.key ∈ d.map (·.1.key)
  · rw [if_pos ((any_key_iff d ho.key).2 h)]
    constructor
    · rintro ⟨e, he, hk, hy'⟩
      rw [List.mem_map] at he
      obtain ⟨e0, he0, rfl⟩ := he
      by_cases hc : e0.1.key = ho.key
      · have hc' : (e0.1.key == ho.key) = true := by simp [hc]
        rw [hc'] at hk hy'
        simp only [if_true] at hk hy'
        rcases List.mem_append.1 hy' with hm | hm
        · exact Or.inl ⟨e0, he0, hk, hm⟩
        · exact Or.inr ⟨hc ▸ hk, List.mem_singleton.1 hm⟩
      · have hc' : (e0.1.key == ho.key) = false := by simp [hc]
        rw [hc'] at hk hy'
        exact Or.inl ⟨e0, he0, hk, hy'⟩
    · rintro (⟨e0, he0, hk, hm⟩ | ⟨hk, rfl⟩)
      · refine ⟨_, List.mem_map.2 ⟨e0, he0, rfl⟩, ?_, ?_⟩
        · split <;> exact hk
        · split
          · exact List.mem_append_left _ hm
          · exact hm
      · rw [List.mem_map] at h
        obtain ⟨e0, he0, hk0⟩ := h
        refine ⟨_, List.mem_map.2 ⟨e0, he0, rfl⟩, ?_, ?_⟩
        · have hc' : (e0.1.key == ho.key) = true := by simp [hk0]
          rw [hc']; exact hk0.trans hk
        · have hc' : (e0.1.key == ho.key) = true := by simp [hk0]
          rw [hc']; simp
  · rw [if_neg (fun h' => h ((any_key_iff d ho.key).1 h'))]
    constructor
    · rintro ⟨e, he, hk, hy'⟩
      rcases List.mem_append.1 he with he | he
      · exact Or.inl ⟨e, he, hk, hy'⟩
      · rw [List.mem_singleton.1 he] at hk hy'
        exact Or.inr ⟨hk, List.mem_singleton.1 hy'⟩
    · rintro (⟨e0, he0, hk, hm⟩ | ⟨hk, rfl⟩)
      · exact ⟨e0, List.mem_append_left _ he0, hk, hm⟩
      · exact ⟨(ho, [y]), List.mem_append_right _ (List.mem_singleton.2 rfl), hk, List.mem_singleton.2 rfl⟩

/-- DUPLICATE, member-wise (any upMap, clash or not): `y` is in the list of the ancestor with key `k` iff
    an entry reports `y`, flagged, under an ancestor with that key -/
theorem clusters_dupl_mem (up : List UpEntry) (k : Key) (y : Node) :
    (∃ e ∈ (clustersOf up).dupl, e.1.key = k ∧ y ∈ e.2) ↔ ∃ ho, (y, some ho, true) ∈ up ∧ ho.key = k := by
  induction up using snoc_induction with
  | nil => simp [clustersOf]
  | snoc up e ih =>
    rw [clustersOf_snoc]
    rcases e with ⟨hy, _ | ho, _ | _⟩ <;> simp only [clusterStep]
    · rw [ih]; simp
    · rw [ih]; simp
    · rw [ih]; simp
    · rw [dupPut_mem, ih]
      constructor
      · rintro (⟨ho', hm, hk⟩ | ⟨hk, rfl⟩)
        · exact ⟨ho', List.mem_append_left _ hm, hk⟩
        · exact ⟨ho, List.mem_append_right _ (List.mem_singleton.2 rfl), hk⟩
      · rintro ⟨ho', hm, hk⟩
        rcases List.mem_append.1 hm with hm | hm
        · exact Or.inl ⟨ho', hm, hk⟩
        · have := List.mem_singleton.1 hm
          simp only [Prod.mk.injEq, Option.some.injEq, and_true] at this
          obtain ⟨rfl, rfl⟩ := this
          exact Or.inr ⟨hk, rfl⟩

theorem mem_upOf (H : Ham) (a d : Taxon) (n : Node) (o : Option Node) (f : Bool) :
    (n, o, f) ∈ upOf H a d ↔ ∃ r ∈ H.nodesAt d, r.node = n ∧ search a r = (o, f) := by
  unfold upOf
  rw [List.mem_map]
  constructor
  · rintro ⟨r, hr, he⟩
    simp only [Prod.mk.injEq] at he
    exact ⟨r, hr, he.1, Prod.ext he.2.1 he.2.2⟩
  · rintro ⟨r, hr, rfl, hs⟩
    refine ⟨r, hr, ?_⟩
    rw [hs]

/-- **C06, retained**: `(x, n)` is an item of RETAINED iff `n` is a member of the descendant genome whose
    upward search ends at `x` without meeting a duplication -/
theorem C06_retained_iff (H : Ham) (hw : H.WFc) (a d : Taxon) (x n : Node) :
    (x, n) ∈ (hogsMap H a d).retained ↔ ∃ r ∈ H.nodesAt d, r.node = n ∧ search a r = (some x, false) := by
  rw [(hogsMap_clusters H a d).2.1, clusters_retained_pairs _ (upOf_noClash hw a d), mem_retPairs, mem_upOf]

/-- **C06, duplicated**: `n` is in the DUPLICATE list of the ancestral gene with identity `k` iff `n` is a member
    of the descendant genome whose upward search ends at that gene having met a duplication (its own flag or a
    flag strictly in between, `C06_reported_under`) -/
theorem C06_duplicated_iff (H : Ham) (a d : Taxon) (k : Key) (n : Node) :
    (∃ e ∈ (hogsMap H a d).dupl, e.1.key = k ∧ n ∈ e.2) ↔
      ∃ r ∈ H.nodesAt d, r.node = n ∧ ∃ x, search a r = (some x, true) ∧ x.key = k := by
  rw [(hogsMap_clusters H a d).2.2.1, clusters_dupl_mem]
  constructor
  · rintro ⟨ho, hm, hk⟩
    obtain ⟨r, hr, hn, hs⟩ := (mem_upOf H a d n (some ho) true).1 hm
    exact ⟨r, hr, hn, ho, hs, hk⟩
  · rintro ⟨r, hr, hn, x, hs, hk⟩
    exact ⟨x, (mem_upOf H a d n (some x) true).2 ⟨r, hr, hn, hs⟩, hk⟩

/-- every key object of DUPLICATE is the ancestor some flagged entry was reported under -/
theorem clusters_dupl_key_src (up : List UpEntry) : ∀ e ∈ (clustersOf up).dupl, ∃ y, (y, some e.1, true) ∈ up := by
  induction up using snoc_induction with
  | nil => simp [clustersOf]
  | snoc up e' ih =>
    rw [clustersOf_snoc]
    have lift : ∀ e ∈ (clustersOf up).dupl, ∃ y, (y, some e.1, true) ∈ up ++ [e'] := fun e he => by
      obtain ⟨y, hy⟩ := ih e he
      exact ⟨y, List.mem_append_left _ hy⟩
    rcases e' with ⟨hy, _ | ho, _ | _⟩ <;> simp only [clusterStep]
    · exact lift
    · exact lift
    · exact lift
    · intro e he
      unfold dupPut at he
      split at he
      · rw [List.mem_map] at he
        obtain ⟨e0, he0, rfl⟩ := he
        have : (if (e0.1.key == ho.key) = true then (e0.1, e0.2 ++ [hy]) else e0).1 = e0.1 := by split <;> rfl
        rw [this]
        exact lift e0 he0
      · rcases List.mem_append.1 he with he | he
        · exact lift e he
        · rw [List.mem_singleton.1 he]
          exact ⟨hy, List.mem_append_right _ (List.mem_singleton.2 rfl)⟩

/-- every key of RETAINED and of DUPLICATE is a gene of the ancestral genome (it lives at the ancestral taxon and
    belongs to the analysis), and no DUPLICATE list is empty -/
theorem C06_entries_sound (H : Ham) (hw : H.WFc) (a d : Taxon) :
    (∀ e ∈ (hogsMap H a d).retained, e.1.tx = a ∧ ∃ post, (⟨e.1, post⟩ : Loc) ∈ H.nodesAt a) ∧
    (∀ e ∈ (hogsMap H a d).dupl, e.1.tx = a ∧ (∃ post, (⟨e.1, post⟩ : Loc) ∈ H.nodesAt a) ∧ e.2 ≠ []) := by
  have key : ∀ (r : Loc) (x : Node) (f : Bool), r ∈ H.nodesAt d → search a r = (some x, f) →
      x.tx = a ∧ ∃ post, (⟨x, post⟩ : Loc) ∈ H.nodesAt a := by
    intro r x f hr hs
    simp only [Ham.nodesAt, List.mem_filter] at hr
    obtain ⟨post, hx, hxa, _⟩ := search_some hw hr.1 hs
    refine ⟨hxa, post, ?_⟩
    simp only [Ham.nodesAt, List.mem_filter, beq_iff_eq]
    exact ⟨hx, hxa⟩
  constructor
  · rintro ⟨x, n⟩ he
    obtain ⟨r, hr, _, hs⟩ := (C06_retained_iff H hw a d x n).1 he
    exact key r x false hr hs
  · intro e he
    rw [(hogsMap_clusters H a d).2.2.1] at he
    obtain ⟨y, hy⟩ := clusters_dupl_key_src _ e he
    obtain ⟨r, hr, _, hs⟩ := (mem_upOf H a d y (some e.1) true).1 hy
    obtain ⟨h1, h2⟩ := key r e.1 true hr hs
    refine ⟨h1, h2, ?_⟩
    intro hnil
    have hsub : ∀ up : List UpEntry, ∀ e ∈ (clustersOf up).dupl, e.2 ≠ [] := by
      intro up
      induction up using snoc_induction with
      | nil => simp [clustersOf]
      | snoc up e' ih =>
        rw [clustersOf_snoc]
        rcases e' with ⟨hy, _ | ho, _ | _⟩ <;> simp only [clusterStep]
        · exact ih
        · exact ih
        · exact ih
        · intro e he
          unfold dupPut at he
          split at he
          · rw [List.mem_map] at he
            obtain ⟨e0, he0, rfl⟩ := he
            split
            · simp
            · exact ih e0 he0
          · rcases List.mem_append.1 he with he | he
            · exact ih e he
            · rw [List.mem_singleton.1 he]; simp
    exact hsub _ e he hnil

end Pyham
