/-
  C20 in `species_resolve_mode="OMA"`: a species that does not resolve (after the OMA renaming) is rejected;
  species names that are leaves of the tree are untouched by the mode.
-/
import PyhamModel.Model.Oma
import PyhamModel.Lemmas.Faults
namespace Pyham

theorem omaName_of_leaf (T : STree) (nm : Naming) (name : String) (p : Taxon)
    (h : T.findByName nm name = [p]) (hl : T.isLeafAt p = true) : omaName T nm name = name := by
  unfold omaName
  rw [h]
  simp only [STree.isLeafAt] at hl
  cases hs : T.sub p with
  | none => simp only [hs]
  | some t =>
    rw [hs] at hl
    cases t with
    | node n ks =>
      simp only [STree.isLeaf, STree.kids] at hl
      simp only [hs, hl, if_true]

/-- a file whose species all name leaves loads in OMA mode exactly as in the default mode -/
theorem loadOMA_eq_load_of_leaves (T : STree) (nm : Naming) (inp : Input)
    (h : ∀ s ∈ inp.species, ∃ p, T.findByName nm s.name = [p] ∧ T.isLeafAt p = true) :
    loadOMA T nm inp = load T nm inp := by
  unfold loadOMA omaRename
  have : inp.species.map (fun s => ({ s with name := omaName T nm s.name } : Species)) = inp.species := by
    conv => rhs; rw [← List.map_id inp.species]
    apply List.map_congr_left
    intro s hs
    obtain ⟨p, h1, h2⟩ := h s hs
    simp [omaName_of_leaf T nm s.name p h1 h2]
  rw [this]

/-- **C20 (OMA mode)**: a species element whose (OMA-resolved) name is not exactly one leaf of the tree makes
    the load fail -/
theorem C20_oma_species_fault_rejected (T : STree) (nm : Naming) (inp : Input) (s : Species)
    (hs : s ∈ inp.species) (e : Err) (h : resolveSpecies T nm (omaName T nm s.name) = .error e) :
    ∃ err, loadOMA T nm inp = .error err := by
  unfold loadOMA
  apply C20_species_fault_rejected T nm (omaRename T nm inp) { s with name := omaName T nm s.name } _ e h
  simp only [omaRename, List.mem_map]
  exact ⟨s, hs, rfl⟩

end Pyham
