/-
  What follows from "the node realises the history": taxon, genes, level alignment, paralog
  discipline (C02 for every loaded consistent input, via C03).
-/
import PyhamModel.Model.Realises
import PyhamModel.Model.WF
namespace Pyham

theorem realises_tx (q : Taxon) (l : SL) (n : Node) (h : Realises q l n) : n.tx = q := by
  cases l with
  | gene id loft =>
    simp only [Realises] at h
    obtain ⟨d, rfl⟩ := h
    rfl
  | grp w hid label subs =>
    simp only [Realises] at h
    obtain ⟨info, d, kids, dups, rfl, _⟩ := h
    rfl

/-! ### list forms of the nested functions -/

theorem leavesL_eq_flatMap' (ks : List Node) : Node.leavesL ks = ks.flatMap Node.leaves := by
  induction ks with
  | nil => simp [Node.leavesL]
  | cons k ks ih => simp [Node.leavesL, ih]

theorem nodesL_eq_flatMap' (ks : List Node) : Node.nodesL ks = ks.flatMap Node.nodes := by
  induction ks with
  | nil => simp [Node.nodesL]
  | cons k ks ih => simp [Node.nodesL, ih]

theorem hogsL_eq_flatMap' (ks : List Node) : Node.hogsL ks = ks.flatMap Node.hogs := by
  induction ks with
  | nil => simp [Node.hogsL]
  | cons k ks ih => simp [Node.hogsL, ih]

theorem alignedL_iff (t : Taxon) (ks : List Node) :
    alignedL t ks = true ↔ ∀ k ∈ ks, oneBelow t k = true ∧ k.aligned = true := by
  induction ks with
  | nil => simp [alignedL]
  | cons k ks ih => simp [alignedL, ih, and_assoc]

theorem disciplinedL_iff (ks : List Node) :
    disciplinedL ks = true ↔ ∀ k ∈ ks, k.disciplined = true := by
  induction ks with
  | nil => simp [disciplinedL]
  | cons k ks ih => simp [disciplinedL, ih]

/-- `aligned` / `disciplined` do not depend on the order of the children -/
theorem alignedL_perm (t : Taxon) (ks ks' : List Node) (h : ks.Perm ks') : alignedL t ks = alignedL t ks' := by
  rw [Bool.eq_iff_iff, alignedL_iff, alignedL_iff]
  exact ⟨fun H k hk => H k (h.mem_iff.2 hk), fun H k hk => H k (h.mem_iff.1 hk)⟩
theorem disciplinedL_perm (ks ks' : List Node) (h : ks.Perm ks') : disciplinedL ks = disciplinedL ks' := by
  rw [Bool.eq_iff_iff, disciplinedL_iff, disciplinedL_iff]
  exact ⟨fun H k hk => H k (h.mem_iff.2 hk), fun H k hk => H k (h.mem_iff.1 hk)⟩

/-! ### members -/

mutual
theorem realises_leaves_aux (q : Taxon) : (l : SL) → (n : Node) → (h : Realises q l n) → n.leaves.Perm (genesOf l)
  | .gene id loft, n, h => by
    simp only [Realises] at h
    obtain ⟨d, rfl⟩ := h
    simp [Node.leaves, genesOf]
  | .grp w hid label subs, n, h => by
    simp only [Realises] at h
    obtain ⟨info, d, kids, dups, rfl, plain, evs, hk, _, _, hs⟩ := h
    simp only [Node.leaves, genesOf, leavesL_eq_flatMap']
    refine (hk.flatMap_right Node.leaves).trans ?_
    have := realisesSubs_leaves q subs plain evs hs
    simpa [leavesL_eq_flatMap'] using this
theorem realisesSubs_leaves (q : Taxon) : (subs : List Sub) → (plain : List Node) → (evs : List (DupRec × List Node)) →
    RealisesSubs q subs plain evs →
    (Node.leavesL plain ++ Node.leavesL (evs.flatMap (·.2))).Perm (genesOfSubs subs)
  | [], plain, evs, h => by
    simp only [RealisesSubs] at h
    obtain ⟨rfl, rfl⟩ := h
    simp [Node.leavesL, genesOfSubs]
  | .one i l :: r, plain, evs, h => by
    simp only [RealisesSubs] at h
    obtain ⟨k, plain', rfl, _, hk, hr⟩ := h
    have h1 := realises_leaves_aux (i :: q) l k hk
    have h2 := realisesSubs_leaves q r plain' evs hr
    simp only [Node.leavesL, genesOfSubs, List.append_assoc]
    exact h1.append h2
  | .dup i pgid cs :: r, plain, evs, h => by
    simp only [RealisesSubs] at h
    obtain ⟨rec, ks, evs', rfl, _, _, _, _, hc, hr⟩ := h
    have h1 := realisesCopies_leaves (i :: q) cs ks hc
    have h2 := realisesSubs_leaves q r plain evs' hr
    simp only [genesOfSubs, leavesL_eq_flatMap', List.flatMap_cons, List.flatMap_append] at *
    refine List.Perm.trans ?_ (h1.append h2)
    rw [← List.append_assoc, ← List.append_assoc]
    exact List.Perm.append_right _ List.perm_append_comm
  | .ann e :: r, plain, evs, h => by
    simp only [RealisesSubs] at h
    simpa only [genesOfSubs] using realisesSubs_leaves q r plain evs h
theorem realisesCopies_leaves (q : Taxon) : (cs : List SL) → (ks : List Node) → RealisesCopies q cs ks →
    (Node.leavesL ks).Perm (genesOfCopies cs)
  | [], ks, h => by
    simp only [RealisesCopies] at h
    subst h
    simp [Node.leavesL, genesOfCopies]
  | c :: cs, ks, h => by
    simp only [RealisesCopies] at h
    obtain ⟨k, ks', rfl, hk, hr⟩ := h
    simp only [Node.leavesL, genesOfCopies]
    exact (realises_leaves_aux q c k hk).append (realisesCopies_leaves q cs ks' hr)
end

/-- members: the genes below the node are exactly the genes of the history (C01 through C03) -/
theorem realises_leaves (q : Taxon) (l : SL) (n : Node) (h : Realises q l n) : n.leaves.Perm (genesOf l) :=
  realises_leaves_aux q l n h

/-! ### the children of a realising HOG, one by one -/

/-- `l` is the history of a lineage entering child `i` in the group `subs` -/
def SubOf (i : Nat) (l : SL) (subs : List Sub) : Prop :=
  Sub.one i l ∈ subs ∨ ∃ pg cs, Sub.dup i pg cs ∈ subs ∧ l ∈ cs

theorem SubOf.tail {i : Nat} {l : SL} {s : Sub} {subs : List Sub} (h : SubOf i l subs) : SubOf i l (s :: subs) := by
  rcases h with h | ⟨pg, cs, h, hl⟩
  · exact Or.inl (List.mem_cons_of_mem _ h)
  · exact Or.inr ⟨pg, cs, List.mem_cons_of_mem _ h, hl⟩

theorem wfhCopies_mem (T : STree) (q : Taxon) (cs : List SL) (h : wfhCopies T q cs = true) :
    ∀ l ∈ cs, wfh T q l = true := by
  induction cs with
  | nil => simp
  | cons c cs ih =>
    simp only [wfhCopies, Bool.and_eq_true] at h
    intro l hl
    rcases List.mem_cons.1 hl with rfl | hl
    · exact h.1
    · exact ih h.2 l hl

theorem wfhSubs_dup (T : STree) (q : Taxon) (subs : List Sub) (h : wfhSubs T q subs = true)
    (i : Nat) (pg : Option String) (cs : List SL) (hm : Sub.dup i pg cs ∈ subs) :
    2 ≤ cs.length ∧ wfhCopies T (i :: q) cs = true := by
  induction subs with
  | nil => simp at hm
  | cons s subs ih =>
    rcases List.mem_cons.1 hm with rfl | hm'
    · simp only [wfhSubs, Bool.and_eq_true, decide_eq_true_eq] at h
      exact ⟨h.1.1, h.1.2⟩
    · cases s with
      | one j l => simp only [wfhSubs, Bool.and_eq_true] at h; exact ih h.2 hm'
      | dup j pg' cs' => simp only [wfhSubs, Bool.and_eq_true] at h; exact ih h.2 hm'
      | ann e => simp only [wfhSubs, Bool.and_eq_true] at h; exact ih h.2 hm'

theorem wfhSubs_one (T : STree) (q : Taxon) (subs : List Sub) (h : wfhSubs T q subs = true)
    (i : Nat) (l : SL) (hm : Sub.one i l ∈ subs) : wfh T (i :: q) l = true := by
  induction subs with
  | nil => simp at hm
  | cons s subs ih =>
    rcases List.mem_cons.1 hm with rfl | hm'
    · simp only [wfhSubs, Bool.and_eq_true] at h
      exact h.1
    · cases s with
      | one j l => simp only [wfhSubs, Bool.and_eq_true] at h; exact ih h.2 hm'
      | dup j pg' cs' => simp only [wfhSubs, Bool.and_eq_true] at h; exact ih h.2 hm'
      | ann e => simp only [wfhSubs, Bool.and_eq_true] at h; exact ih h.2 hm'

theorem wfhSubs_subOf (T : STree) (q : Taxon) (subs : List Sub) (h : wfhSubs T q subs = true)
    (i : Nat) (l : SL) (hm : SubOf i l subs) : wfh T (i :: q) l = true := by
  rcases hm with hm | ⟨pg, cs, hm, hl⟩
  · exact wfhSubs_one T q subs h i l hm
  · exact wfhCopies_mem T (i :: q) cs (wfhSubs_dup T q subs h i pg cs hm).2 l hl

/-- induction over a realised history: a property of (taxon, history, node) that holds for genes
    and passes from the children of a HOG to the HOG holds everywhere -/
structure RStep (M : Taxon → SL → Node → Prop) : Prop where
  gene : ∀ q id loft d, M q (.gene id loft) (Node.gene id q d loft)
  grp : ∀ q w hid label subs info d kids dups,
    Realises q (.grp w hid label subs) (Node.hog info q d kids dups) →
    (∀ k ∈ kids, ∃ i l, SubOf i l subs ∧ Realises (i :: q) l k ∧ M (i :: q) l k) →
    M q (.grp w hid label subs) (Node.hog info q d kids dups)

mutual
theorem realises_ind {M : Taxon → SL → Node → Prop} (S : RStep M) (q : Taxon) :
    (l : SL) → (n : Node) → Realises q l n → M q l n
  | .gene id loft, n, h => by
    simp only [Realises] at h
    obtain ⟨d, rfl⟩ := h
    exact S.gene q id loft d
  | .grp w hid label subs, n, h => by
    have h0 := h
    simp only [Realises] at h
    obtain ⟨info, d, kids, dups, rfl, plain, evs, hk, _, _, hs⟩ := h
    refine S.grp q w hid label subs info d kids dups h0 ?_
    intro k hkm
    exact realisesSubs_ind S q subs plain evs hs k (hk.mem_iff.1 hkm)
theorem realisesSubs_ind {M : Taxon → SL → Node → Prop} (S : RStep M) (q : Taxon) :
    (subs : List Sub) → (plain : List Node) → (evs : List (DupRec × List Node)) →
    RealisesSubs q subs plain evs →
    ∀ k ∈ plain ++ evs.flatMap (·.2), ∃ i l, SubOf i l subs ∧ Realises (i :: q) l k ∧ M (i :: q) l k
  | [], plain, evs, h => by
    simp only [RealisesSubs] at h
    obtain ⟨rfl, rfl⟩ := h
    simp
  | .one i l :: r, plain, evs, h => by
    simp only [RealisesSubs] at h
    obtain ⟨k, plain', rfl, _, hk, hr⟩ := h
    intro x hx
    rcases List.mem_cons.1 hx with rfl | hx
    · exact ⟨i, l, Or.inl (List.mem_cons_self ..), hk, realises_ind S (i :: q) l x hk⟩
    · obtain ⟨j, l', h1, h2, h3⟩ := realisesSubs_ind S q r plain' evs hr x hx
      exact ⟨j, l', h1.tail, h2, h3⟩
  | .dup i pgid cs :: r, plain, evs, h => by
    simp only [RealisesSubs] at h
    obtain ⟨rec, ks, evs', rfl, _, _, _, _, hc, hr⟩ := h
    intro x hx
    simp only [List.flatMap_cons, List.mem_append] at hx
    rcases hx with hx | hx | hx
    · obtain ⟨j, l', h1, h2, h3⟩ := realisesSubs_ind S q r plain evs' hr x (List.mem_append_left _ hx)
      exact ⟨j, l', h1.tail, h2, h3⟩
    · obtain ⟨l', h1, h2, h3⟩ := realisesCopies_ind S (i :: q) cs ks hc x hx
      exact ⟨i, l', Or.inr ⟨pgid, cs, List.mem_cons_self .., h1⟩, h2, h3⟩
    · obtain ⟨j, l', h1, h2, h3⟩ := realisesSubs_ind S q r plain evs' hr x (List.mem_append_right _ hx)
      exact ⟨j, l', h1.tail, h2, h3⟩
  | .ann e :: r, plain, evs, h => by
    simp only [RealisesSubs] at h
    intro x hx
    obtain ⟨j, l', h1, h2, h3⟩ := realisesSubs_ind S q r plain evs h x hx
    exact ⟨j, l', h1.tail, h2, h3⟩
theorem realisesCopies_ind {M : Taxon → SL → Node → Prop} (S : RStep M) (q : Taxon) :
    (cs : List SL) → (ks : List Node) → RealisesCopies q cs ks →
    ∀ k ∈ ks, ∃ l ∈ cs, Realises q l k ∧ M q l k
  | [], ks, h => by
    simp only [RealisesCopies] at h
    subst h
    simp
  | c :: cs, ks, h => by
    simp only [RealisesCopies] at h
    obtain ⟨k, ks', rfl, hk, hr⟩ := h
    intro x hx
    rcases List.mem_cons.1 hx with rfl | hx
    · exact ⟨c, List.mem_cons_self .., hk, realises_ind S q c x hk⟩
    · obtain ⟨l', h1, h2, h3⟩ := realisesCopies_ind S q cs ks' hr x hx
      exact ⟨l', List.mem_cons_of_mem _ h1, h2, h3⟩
end

/-- C02: every child one level below its parent, all the way down -/
theorem realises_aligned (q : Taxon) (l : SL) (n : Node) (h : Realises q l n) : n.aligned = true := by
  refine realises_ind (M := fun _ _ n => n.aligned = true) ⟨?_, ?_⟩ q l n h
  · intro q id loft d; simp [Node.aligned]
  · intro q w hid label subs info d kids dups _ hk
    simp only [Node.aligned, alignedL_iff]
    intro k hkm
    obtain ⟨i, l', _, hr, ha⟩ := hk k hkm
    refine ⟨?_, ha⟩
    simp [oneBelow, realises_tx _ _ _ hr]

/-! ### local facts about the children and the records of one realising HOG -/

theorem realisesCopies_mem (q : Taxon) (cs : List SL) (ks : List Node) (h : RealisesCopies q cs ks) :
    ks.length = cs.length ∧ ∀ k ∈ ks, k.tx = q := by
  induction cs generalizing ks with
  | nil =>
    simp only [RealisesCopies] at h
    subst h; simp
  | cons c cs ih =>
    simp only [RealisesCopies] at h
    obtain ⟨k, ks', rfl, hk, hr⟩ := h
    obtain ⟨h1, h2⟩ := ih ks' hr
    refine ⟨by simp [h1], ?_⟩
    intro x hx
    rcases List.mem_cons.1 hx with rfl | hx
    · exact realises_tx _ _ _ hk
    · exact h2 x hx

theorem realisesSubs_plain (q : Taxon) (subs : List Sub) (plain : List Node) (evs : List (DupRec × List Node))
    (h : RealisesSubs q subs plain evs) : ∀ k ∈ plain, k.dup = none := by
  induction subs generalizing plain evs with
  | nil =>
    simp only [RealisesSubs] at h
    obtain ⟨rfl, rfl⟩ := h; simp
  | cons s subs ih =>
    cases s with
    | one i l =>
      simp only [RealisesSubs] at h
      obtain ⟨k, plain', rfl, hd, _, hr⟩ := h
      intro x hx
      rcases List.mem_cons.1 hx with rfl | hx
      · exact hd
      · exact ih plain' evs hr x hx
    | dup i pg cs =>
      simp only [RealisesSubs] at h
      obtain ⟨rec, ks, evs', rfl, _, _, _, _, _, hr⟩ := h
      exact ih plain evs' hr
    | ann e =>
      simp only [RealisesSubs] at h
      exact ih plain evs h

theorem realisesSubs_evs (q : Taxon) (subs : List Sub) (plain : List Node) (evs : List (DupRec × List Node))
    (h : RealisesSubs q subs plain evs) :
    ∀ e ∈ evs, e.1.mrca = q ∧ e.1.members.Perm (e.2.map Node.key) ∧ (∀ k ∈ e.2, k.dup = some e.1.did) ∧
      ∃ i pg cs, Sub.dup i pg cs ∈ subs ∧ RealisesCopies (i :: q) cs e.2 := by
  induction subs generalizing plain evs with
  | nil =>
    simp only [RealisesSubs] at h
    obtain ⟨rfl, rfl⟩ := h; simp
  | cons s subs ih =>
    cases s with
    | one i l =>
      simp only [RealisesSubs] at h
      obtain ⟨k, plain', rfl, _, _, hr⟩ := h
      intro e he
      obtain ⟨h1, h2, h3, j, pg, cs, h4, h5⟩ := ih plain' evs hr e he
      exact ⟨h1, h2, h3, j, pg, cs, List.mem_cons_of_mem _ h4, h5⟩
    | dup i pg cs =>
      simp only [RealisesSubs] at h
      obtain ⟨rec, ks, evs', rfl, hm, _, hp, hd, hc, hr⟩ := h
      intro e he
      rcases List.mem_cons.1 he with rfl | he
      · exact ⟨hm, hp, hd, i, pg, cs, List.mem_cons_self .., hc⟩
      · obtain ⟨h1, h2, h3, j, pg', cs', h4, h5⟩ := ih plain evs' hr e he
        exact ⟨h1, h2, h3, j, pg', cs', List.mem_cons_of_mem _ h4, h5⟩
    | ann e =>
      simp only [RealisesSubs] at h
      intro e' he
      obtain ⟨h1, h2, h3, j, pg', cs', h4, h5⟩ := ih plain evs h e' he
      exact ⟨h1, h2, h3, j, pg', cs', List.mem_cons_of_mem _ h4, h5⟩

theorem subOf_index {i : Nat} {l : SL} {subs : List Sub} (h : SubOf i l subs) : i ∈ subs.filterMap subIndex := by
  rw [List.mem_filterMap]
  rcases h with h | ⟨pg, cs, h, _⟩
  · exact ⟨_, h, rfl⟩
  · exact ⟨_, h, rfl⟩

/-- every child lives at a child taxon named by one of the real subs -/
theorem realisesSubs_index (q : Taxon) (subs : List Sub) (plain : List Node) (evs : List (DupRec × List Node))
    (h : RealisesSubs q subs plain evs) :
    ∀ k ∈ plain ++ evs.flatMap (·.2), ∃ i ∈ subs.filterMap subIndex, k.tx = i :: q := by
  intro k hk
  obtain ⟨i, l, h1, h2, _⟩ := realisesSubs_ind (M := fun _ _ _ => True)
    ⟨fun _ _ _ _ => trivial, fun _ _ _ _ _ _ _ _ _ _ _ => trivial⟩ q subs plain evs h k hk
  exact ⟨i, subOf_index h1, realises_tx _ _ _ h2⟩

theorem filter_tx_nil (L : List Node) (t : Taxon) (h : ∀ x ∈ L, x.tx ≠ t) :
    L.filter (fun k' => k'.tx == t) = [] := by
  rw [List.filter_eq_nil_iff]
  intro x hx
  simpa using h x hx

/-- with pairwise distinct branch indices an unflagged child is alone at its taxon -/
theorem realisesSubs_alone (q : Taxon) (subs : List Sub) (plain : List Node) (evs : List (DupRec × List Node))
    (h : RealisesSubs q subs plain evs) (hn : (subs.filterMap subIndex).Nodup) :
    ∀ k ∈ plain, ((plain ++ evs.flatMap (·.2)).filter (fun k' => k'.tx == k.tx)).length = 1 := by
  induction subs generalizing plain evs with
  | nil =>
    simp only [RealisesSubs] at h
    obtain ⟨rfl, rfl⟩ := h; simp
  | cons s subs ih =>
    cases s with
    | one i l =>
      simp only [RealisesSubs] at h
      obtain ⟨k0, plain', rfl, _, hk0, hr⟩ := h
      simp only [List.filterMap_cons, subIndex, List.nodup_cons] at hn
      have htx0 := realises_tx _ _ _ hk0
      have hidx := realisesSubs_index q subs plain' evs hr
      intro k hk
      rcases List.mem_cons.1 hk with rfl | hk
      · have : (plain' ++ evs.flatMap (·.2)).filter (fun k' => k'.tx == k.tx) = [] := by
          apply filter_tx_nil
          intro x hx hxe
          obtain ⟨j, hj, hxt⟩ := hidx x hx
          rw [htx0, hxt] at hxe
          have : j = i := by simpa using hxe
          exact hn.1 (this ▸ hj)
        simp [this]
      · obtain ⟨j, hj, hkt⟩ := hidx k (List.mem_append_left _ hk)
        have hne : (k0.tx == k.tx) = false := by
          rw [htx0, hkt]
          have : i ≠ j := fun e => hn.1 (e ▸ hj)
          simpa using this
        have := ih plain' evs hr hn.2 k hk
        simpa [List.filter_cons, hne] using this
    | dup i pg cs =>
      simp only [RealisesSubs] at h
      obtain ⟨rec, ks, evs', rfl, _, _, _, _, hc, hr⟩ := h
      simp only [List.filterMap_cons, subIndex, List.nodup_cons] at hn
      have hidx := realisesSubs_index q subs plain evs' hr
      have hks := (realisesCopies_mem _ _ _ hc).2
      intro k hk
      obtain ⟨j, hj, hkt⟩ := hidx k (List.mem_append_left _ hk)
      have : ks.filter (fun k' => k'.tx == k.tx) = [] := by
        apply filter_tx_nil
        intro x hx hxe
        rw [hks x hx, hkt] at hxe
        have : i = j := by simpa using hxe
        exact hn.1 (this ▸ hj)
      have h2 := ih plain evs' hr hn.2 k hk
      simp only [List.flatMap_cons, List.filter_append, List.length_append, this, List.length_nil] at h2 ⊢
      omega
    | ann e =>
      simp only [RealisesSubs] at h
      simp only [List.filterMap_cons, subIndex] at hn
      exact ih plain evs h hn

theorem realisesSubs_nonempty (T : STree) (q : Taxon) (subs : List Sub) (plain : List Node)
    (evs : List (DupRec × List Node)) (h : RealisesSubs q subs plain evs) (hw : wfhSubs T q subs = true)
    (hr : realSubs subs ≥ 1) : plain ++ evs.flatMap (·.2) ≠ [] := by
  induction subs generalizing plain evs with
  | nil => simp [realSubs] at hr
  | cons s subs ih =>
    cases s with
    | one i l =>
      simp only [RealisesSubs] at h
      obtain ⟨k0, plain', rfl, _⟩ := h
      simp
    | dup i pg cs =>
      simp only [RealisesSubs] at h
      obtain ⟨rec, ks, evs', rfl, _, _, _, _, hc, _⟩ := h
      have h1 := (realisesCopies_mem _ _ _ hc).1
      have h2 := (wfhSubs_dup T q _ hw i pg cs (List.mem_cons_self ..)).1
      intro he
      simp only [List.flatMap_cons, List.append_eq_nil_iff] at he
      rw [he.2.1] at h1
      simp at h1
      omega
    | ann e =>
      simp only [RealisesSubs] at h
      simp only [wfhSubs, Bool.and_eq_true] at hw
      simp only [realSubs] at hr
      exact ih plain evs h hw.2 hr

/-- C02: paralog discipline -- for a well-formed history (pairwise distinct branch indices at every
    group) an unflagged child is the only child at its taxon -/
theorem realises_disciplined (T : STree) (q : Taxon) (l : SL) (n : Node) (hw : wfh T q l = true)
    (h : Realises q l n) : n.disciplined = true := by
  refine realises_ind (M := fun q l n => wfh T q l = true → n.disciplined = true) ⟨?_, ?_⟩ q l n h hw
  · intro q id loft d _; simp [Node.disciplined]
  · intro q w hid label subs info d kids dups h0 hk hw
    simp only [Realises] at h0
    obtain ⟨info', d', kids', dups', heq, plain, evs, hp, _, _, hs⟩ := h0
    cases heq
    simp only [wfh, Bool.and_eq_true, decide_eq_true_eq] at hw
    obtain ⟨⟨⟨⟨_, _⟩, hn⟩, _⟩, hws⟩ := hw
    simp only [Node.disciplined, Bool.and_eq_true, disciplinedL_iff, List.all_eq_true]
    constructor
    · intro k hkm
      have hkm' := hp.mem_iff.1 hkm
      simp only [aloneIfUnflagged, Bool.or_eq_true, beq_iff_eq]
      rcases List.mem_append.1 hkm' with hpl | hev
      · right
        rw [(hp.filter _).length_eq]
        exact realisesSubs_alone q subs plain evs hs hn k hpl
      · left
        obtain ⟨e, he, hke⟩ := List.mem_flatMap.1 hev
        rw [(realisesSubs_evs q subs plain evs hs e he).2.2.1 k hke]
        rfl
    · intro k hkm
      obtain ⟨i, l', hso, _, hm⟩ := hk k hkm
      exact hm (wfhSubs_subOf T q subs hws i l' hso)

/-- C02: every HOG has at least one child, genes at leaves and HOGs at internal nodes -/
theorem realises_shape (T : STree) (q : Taxon) (l : SL) (n : Node) (hw : wfh T q l = true) (h : Realises q l n) :
    ∀ x ∈ n.nodes, (x.isGene = true → T.isLeafAt x.tx = true) ∧
                   (x.isGene = false → T.isInternalAt x.tx = true ∧ x.kids ≠ []) := by
  refine realises_ind (M := fun q l n => wfh T q l = true → ∀ x ∈ n.nodes,
    (x.isGene = true → T.isLeafAt x.tx = true) ∧
    (x.isGene = false → T.isInternalAt x.tx = true ∧ x.kids ≠ [])) ⟨?_, ?_⟩ q l n h hw
  · intro q id loft d hw x hx
    simp only [Node.nodes, List.mem_singleton] at hx
    subst hx
    simp only [wfh] at hw
    simp [Node.isGene, Node.tx, hw]
  · intro q w hid label subs info d kids dups h0 hk hw x hx
    simp only [Realises] at h0
    obtain ⟨info', d', kids', dups', heq, plain, evs, hp, _, _, hs⟩ := h0
    cases heq
    simp only [wfh, Bool.and_eq_true, decide_eq_true_eq] at hw
    obtain ⟨⟨⟨⟨hint, hreal⟩, _⟩, _⟩, hws⟩ := hw
    simp only [Node.nodes, List.mem_cons] at hx
    rcases hx with rfl | hx
    · simp only [Node.isGene, Node.tx, Node.kids, Bool.false_eq_true, false_implies, true_and, forall_const]
      refine ⟨hint, ?_⟩
      intro hnil
      subst hnil
      exact realisesSubs_nonempty T q subs plain evs hs hws hreal hp.symm.eq_nil
    · rw [nodesL_eq_flatMap', List.mem_flatMap] at hx
      obtain ⟨k, hkm, hxk⟩ := hx
      obtain ⟨i, l', hso, _, hm⟩ := hk k hkm
      exact hm (wfhSubs_subOf T q subs hws i l' hso) x hxk

theorem eq_of_nodup_map {α β} (f : α → β) (L : List α) (h : (L.map f).Nodup) (a b : α) (ha : a ∈ L) (hb : b ∈ L)
    (hab : f a = f b) : a = b := by
  induction L with
  | nil => simp at ha
  | cons x L ih =>
    simp only [List.map_cons, List.nodup_cons, List.mem_map, not_exists, not_and] at h
    rcases List.mem_cons.1 ha with rfl | ha' <;> rcases List.mem_cons.1 hb with rfl | hb'
    · rfl
    · exact absurd hab.symm (h.1 b hb')
    · exact absurd hab (h.1 a ha')
    · exact ih h.2 ha' hb'

/-- C02: every duplication event groups at least two children of the HOG it is attached to, all at
    the same child taxon, at the level of that HOG -/
theorem realises_events (T : STree) (q : Taxon) (l : SL) (n : Node) (hw : wfh T q l = true) (h : Realises q l n) :
    ∀ x ∈ n.hogs, ∀ r ∈ x.dups, r.mrca = x.tx ∧ 2 ≤ r.members.length ∧
      (∀ m ∈ r.members, ∃ k ∈ x.kids, k.key = m ∧ k.dup = some r.did) ∧
      (∃ i, ∀ m ∈ r.members, ∀ k ∈ x.kids, k.key = m → k.dup = some r.did → k.tx = i :: x.tx) := by
  refine realises_ind (M := fun q l n => wfh T q l = true → ∀ x ∈ n.hogs, ∀ r ∈ x.dups,
    r.mrca = x.tx ∧ 2 ≤ r.members.length ∧
      (∀ m ∈ r.members, ∃ k ∈ x.kids, k.key = m ∧ k.dup = some r.did) ∧
      (∃ i, ∀ m ∈ r.members, ∀ k ∈ x.kids, k.key = m → k.dup = some r.did → k.tx = i :: x.tx))
    ⟨?_, ?_⟩ q l n h hw
  · intro q id loft d hw x hx
    simp [Node.hogs] at hx
  · intro q w hid label subs info d kids dups h0 hk hw x hx
    simp only [Realises] at h0
    obtain ⟨info', d', kids', dups', heq, plain, evs, hp, hdp, hnd, hs⟩ := h0
    cases heq
    simp only [wfh, Bool.and_eq_true, decide_eq_true_eq] at hw
    obtain ⟨⟨⟨⟨hint, hreal⟩, _⟩, _⟩, hws⟩ := hw
    simp only [Node.hogs, List.mem_cons] at hx
    rcases hx with rfl | hx
    · intro r hr
      simp only [Node.dups] at hr
      simp only [Node.tx, Node.kids]
      obtain ⟨e, he, rfl⟩ := List.mem_map.1 (hdp.mem_iff.1 hr)
      obtain ⟨hm, hmem, hdup, i, pg, cs, hsub, hc⟩ := realisesSubs_evs q subs plain evs hs e he
      obtain ⟨hlen, htx⟩ := realisesCopies_mem _ _ _ hc
      have hcs := (wfhSubs_dup T q subs hws i pg cs hsub).1
      refine ⟨hm, ?_, ?_, i, ?_⟩
      · rw [hmem.length_eq, List.length_map, hlen]; exact hcs
      · intro m hmm
        obtain ⟨k, hk1, hk2⟩ := List.mem_map.1 (hmem.mem_iff.1 hmm)
        refine ⟨k, ?_, hk2, hdup k hk1⟩
        exact hp.mem_iff.2 (List.mem_append_right _ (List.mem_flatMap.2 ⟨e, he, hk1⟩))
      · intro m _ k hkk _ hkd
        rcases List.mem_append.1 (hp.mem_iff.1 hkk) with hpl | hev
        · rw [realisesSubs_plain q subs plain evs hs k hpl] at hkd
          cases hkd
        · obtain ⟨e', he', hke'⟩ := List.mem_flatMap.1 hev
          have hd' := (realisesSubs_evs q subs plain evs hs e' he').2.2.1 k hke'
          rw [hd'] at hkd
          have hdid : e'.1.did = e.1.did := by simpa using hkd
          have hnd' : (evs.map (fun e => e.1.did)).Nodup := hnd
          have : e' = e := eq_of_nodup_map (fun e => e.1.did) evs hnd' e' e he' he hdid
          subst this
          exact htx k hke'
    · rw [hogsL_eq_flatMap', List.mem_flatMap] at hx
      obtain ⟨k, hkm, hxk⟩ := hx
      obtain ⟨i, l', hso, _, hm⟩ := hk k hkm
      exact hm (wfhSubs_subOf T q subs hws i l' hso) x hxk

end Pyham
